(* Proofs for property C08 (model: Value.v).

   Semantics.  A value denotes a point of the extended number line `ext (LR L)` of an abstract ordered
   field-like structure L : line into which Q embeds (LQ).  Integers, dyadics and rationals denote
   LQ of their exact rational value (QofR / QofD of ScalarProofs.v, property C17); an algebraic payload x
   denotes Lden x.  Everything value.c takes from algebraic_number.c is stated as the interface `line_ok`
   (named premises = property C07's obligations about the payload operations rn_cmp, rn_add, ...), together
   with the order/field laws of the carrier that the statements use.  All `_cond` theorems are proved for EVERY
   L satisfying line_ok; `QL` below is a concrete instance (carrier Q, payloads = rational points), which shows
   that the premises are satisfiable and yields closed (FULL) corollaries for all values whose algebraic
   payloads are points - i.e. for every kind combination of value.c's dispatch. *)
From Coq Require Import ZArith NArith QArith Qround Qpower Znumtheory Zpow_facts Qfield List Bool Lia Lqa.
From LP Require Import Scalar ScalarProofs UPoly RefAlg Value.
Local Open Scope Z_scope.
Ltac Zify.zify_post_hook ::= Z.div_mod_to_equations.

(* ------------------------------------------------------------------ the abstract number line *)
Record line : Type := {
  LR : Type;
  Lcmp : LR -> LR -> comparison;
  LQ : Q -> LR;
  Ladd : LR -> LR -> LR;
  Lmul : LR -> LR -> LR;
  Lopp : LR -> LR;
  Lden : rnum -> LR;           (* the real number an algebraic payload stands for *)
  LP : rnum -> Prop            (* the payloads the interface speaks about (valid representations) *)
}.
Definition Leq (L : line) (a b : LR L) : Prop := Lcmp L a b = Eq.
Definition Llt (L : line) (a b : LR L) : Prop := Lcmp L a b = Lt.
Definition Lle (L : line) (a b : LR L) : Prop := Lcmp L a b <> Gt.

Record line_ok (L : line) : Prop := {
  (* total order *)
  O_refl : forall a, Lcmp L a a = Eq;
  O_opp : forall a b, Lcmp L b a = CompOpp (Lcmp L a b);
  O_eq_l : forall a b c, Lcmp L a b = Eq -> Lcmp L a c = Lcmp L b c;
  O_lt_trans : forall a b c, Lcmp L a b = Lt -> Lcmp L b c = Lt -> Lcmp L a c = Lt;
  (* Q is an ordered subfield *)
  Q_cmp : forall p q, Lcmp L (LQ L p) (LQ L q) = (p ?= q)%Q;
  Q_add : forall p q, Leq L (LQ L (p + q)%Q) (Ladd L (LQ L p) (LQ L q));
  Q_mul : forall p q, Leq L (LQ L (p * q)%Q) (Lmul L (LQ L p) (LQ L q));
  Q_opp : forall p, Leq L (LQ L (- p)%Q) (Lopp L (LQ L p));
  (* the operations respect equality of numbers *)
  add_ext : forall a a' b b', Leq L a a' -> Leq L b b' -> Leq L (Ladd L a b) (Ladd L a' b');
  mul_ext : forall a a' b b', Leq L a a' -> Leq L b b' -> Leq L (Lmul L a b) (Lmul L a' b');
  opp_ext : forall a a', Leq L a a' -> Leq L (Lopp L a) (Lopp L a');
  (* ---- what value.c relies on from the algebraic-number layer (C07) *)
  P_RQ : forall q, q_wf q -> LP L (RQ q);
  P_RQ_wf : forall q, LP L (RQ q) -> q_wf q;
  D_RQ : forall q, q_wf q -> Leq L (Lden L (RQ q)) (LQ L (QofR q));
  P_RA : forall p lo hi, LP L (RA p lo hi) ->
         q_wf lo /\ q_wf hi /\ Llt L (LQ L (QofR lo)) (Lden L (RA p lo hi)) /\ Llt L (Lden L (RA p lo hi)) (LQ L (QofR hi));
  A_cmp_q : forall x q, LP L x -> q_wf q -> rn_cmp_q x q = cmp_to_Z (Lcmp L (Lden L x) (LQ L (QofR q)));
  A_cmp : forall fuel x y c, LP L x -> LP L y -> rn_cmp fuel x y = Some c -> c = cmp_to_Z (Lcmp L (Lden L x) (Lden L y));
  A_add : forall fuel x y z, LP L x -> LP L y -> rn_add fuel x y = Some z ->
          LP L z /\ Leq L (Lden L z) (Ladd L (Lden L x) (Lden L y));
  A_mul : forall fuel x y z, LP L x -> LP L y -> rn_mul fuel x y = Some z ->
          LP L z /\ Leq L (Lden L z) (Lmul L (Lden L x) (Lden L y));
  A_neg : forall x, LP L x -> LP L (rn_neg x) /\ Leq L (Lden L (rn_neg x)) (Lopp L (Lden L x));
  A_inv : forall fuel x z, LP L x -> rn_inv fuel x = Some z ->
          LP L z /\ Leq L (Lmul L (Lden L z) (Lden L x)) (LQ L 1%Q);
  A_refine : forall x, LP L x -> LP L (rn_refine x) /\ Leq L (Lden L (rn_refine x)) (Lden L x);
  A_lin : forall p lo hi, LP L (RA p lo hi) -> pdeg p = 1%nat ->
          Leq L (Lden L (RA p lo hi)) (LQ L (QofR (va_lin_root p)))
}.

(* ------------------------------------------------------------------ extended line *)
Inductive ext (R : Type) := EMinf | EFin (r : R) | EPinf.
Arguments EMinf {R}.
Arguments EFin {R} r.
Arguments EPinf {R}.

Definition ecmp (L : line) (a b : ext (LR L)) : comparison :=
  match a, b with
  | EMinf, EMinf => Eq | EMinf, _ => Lt
  | EPinf, EPinf => Eq | EPinf, _ => Gt
  | EFin _, EMinf => Gt | EFin _, EPinf => Lt
  | EFin x, EFin y => Lcmp L x y
  end.
Definition eeq (L : line) (a b : ext (LR L)) : Prop := ecmp L a b = Eq.

(* the number a value denotes *)
Definition den (L : line) (v : value) : ext (LR L) :=
  match v with
  | VInt z => EFin (LQ L (inject_Z z))
  | VDy d => EFin (LQ L (QofD d))
  | VRat q => EFin (LQ L (QofR q))
  | VAlg x => EFin (Lden L x)
  | VPinf => EPinf
  | VMinf => EMinf
  end.

(* representation invariants of the payloads (C17 canonical forms; algebraic payload in the interface's domain) *)
Definition vok (L : line) (v : value) : Prop :=
  match v with
  | VDy d => dy_wf d
  | VRat q => q_wf q
  | VAlg x => LP L x
  | _ => True
  end.

(* ------------------------------------------------------------------ small facts *)
Lemma cmp_to_Z_opp c : cmp_to_Z (CompOpp c) = - cmp_to_Z c.
Proof. destruct c; reflexivity. Qed.
Lemma sgn_cmp_to_Z c : Z.sgn (cmp_to_Z c) = cmp_to_Z c.
Proof. destruct c; reflexivity. Qed.
Lemma cmp_to_Z_inj c d : cmp_to_Z c = cmp_to_Z d -> c = d.
Proof. destruct c, d; cbn; intros H; try reflexivity; lia. Qed.
Lemma cmp_to_Z_eq0 c : cmp_to_Z c = 0 <-> c = Eq.
Proof. destruct c; cbn; split; intros H; try reflexivity; try discriminate; lia. Qed.
Lemma q_wf_int z : q_wf (q_from_integer z).
Proof. split; unfold q_from_integer; cbn [fst snd]; [lia|apply Z.gcd_1_r]. Qed.
Lemma QofR_int z : (QofR (q_from_integer z) == inject_Z z)%Q.
Proof. unfold QofR, q_from_integer; cbn [fst snd]. field. Qed.
Lemma Qcompare_inject a b : (inject_Z a ?= inject_Z b)%Q = (a ?= b).
Proof. unfold Qcompare, inject_Z; cbn. rewrite !Z.mul_1_r. reflexivity. Qed.

Lemma inject_lt_inv a b : (inject_Z a < inject_Z b)%Q -> a < b.
Proof. rewrite <- Zlt_Qlt. trivial. Qed.
(* ------------------------------------------------------------------ the rational picker of get_value_between (pure Q) *)
Local Open Scope Q_scope.
Lemma q_le_spec a b : q_wf a -> q_wf b -> (q_le a b = true <-> QofR a <= QofR b).
Proof.
  intros Ha Hb. unfold q_le. rewrite (q_cmp_spec _ _ Ha Hb), Z.leb_le, Qle_alt.
  destruct (QofR a ?= QofR b); cbn; split; intros H; try discriminate; try lia; try congruence.
Qed.
Lemma q_cmp_lt0 a b : q_wf a -> q_wf b -> ((q_cmp a b < 0)%Z <-> QofR a < QofR b).
Proof. intros Ha Hb. rewrite (q_cmp_spec _ _ Ha Hb), cmp_to_Z_lt, Qlt_alt. reflexivity. Qed.
Lemma q_cmp_gt0 a b : q_wf a -> q_wf b -> ((0 < q_cmp a b)%Z <-> QofR b < QofR a).
Proof. intros Ha Hb. rewrite (q_cmp_spec _ _ Ha Hb), cmp_to_Z_gt, Qgt_alt. reflexivity. Qed.
Lemma q_cmp_eq0 a b : q_wf a -> q_wf b -> (q_cmp a b = 0%Z <-> QofR a == QofR b).
Proof. intros Ha Hb. rewrite (q_cmp_spec _ _ Ha Hb), cmp_to_Z_eq0, Qeq_alt. reflexivity. Qed.

Lemma q_mid_spec a b : q_wf a -> q_wf b ->
  q_wf (q_div_2exp (q_add a b) 1) /\ QofR (q_div_2exp (q_add a b) 1) == (QofR a + QofR b) / 2.
Proof.
  intros Ha Hb. destruct (q_add_spec a b Ha Hb) as [Ws Vs].
  destruct (q_div_2exp_spec (q_add a b) 1 Ws) as [Wm Vm]. split; [exact Wm|]. rewrite Vm, Vs. reflexivity.
Qed.

Lemma v_pick_loop_sound fuel : forall a b lb ub m, q_wf a -> q_wf b -> q_wf lb -> q_wf ub ->
  v_pick_loop fuel a b lb ub = Some m -> q_wf m /\ QofR a < QofR m /\ QofR m < QofR b.
Proof.
  induction fuel as [|f IH]; intros a b lb ub m Ha Hb Hl Hu H; cbn [v_pick_loop] in H; [discriminate|].
  destruct (q_mid_spec lb ub Hl Hu) as [Wm _].
  set (mid := q_div_2exp (q_add lb ub) 1) in *.
  destruct (0 <=? q_cmp a mid)%Z eqn:E1; [eapply (IH a b mid ub); eassumption|].
  destruct (0 <=? q_cmp mid b)%Z eqn:E2; [eapply (IH a b lb mid); eassumption|].
  injection H as <-. apply Z.leb_gt in E1, E2.
  split; [exact Wm|]. split; [apply (q_cmp_lt0 _ _ Ha Wm); exact E1|apply (q_cmp_lt0 _ _ Wm Hb); exact E2].
Qed.

Definition bnd_lo (s : bool) (a r : Q) : Prop := if s then a < r else a <= r.
Definition bnd_hi (s : bool) (r b : Q) : Prop := if s then r < b else r <= b.

Lemma v_pick_sound fuel a sa b sb r : q_wf a -> q_wf b -> QofR a < QofR b ->
  v_pick fuel a sa b sb = Some r -> q_wf r /\ bnd_lo sa (QofR a) (QofR r) /\ bnd_hi sb (QofR r) (QofR b).
Proof.
  intros Ha Hb Hab. unfold v_pick.
  destruct (q_mid_spec a b Ha Hb) as [Wm Hmid].
  set (mq := q_div_2exp (q_add a b) 1) in *.
  destruct (q_floor_spec mq Wm) as [Hf1 Hf2].
  set (fl := q_floor mq) in *.
  unfold int_inc. cbn [ring_norm].
  pose proof (q_wf_int fl) as Wfl. pose proof (q_wf_int (fl + 1)) as Wcl.
  pose proof (QofR_int fl) as Vfl. pose proof (QofR_int (fl + 1)) as Vcl.
  assert (M0 : 2 * QofR mq == QofR a + QofR b) by (rewrite Hmid; field).
  assert (M1 : QofR a < QofR mq) by lra.
  assert (M2 : QofR mq < QofR b) by lra.
  unfold q_cmp_integer.
  destruct ((q_cmp a (q_from_integer fl) <? 0)%Z || (q_cmp a (q_from_integer fl) =? 0)%Z && negb sa) eqn:E1.
  - intros [= <-]. split; [exact Wfl|]. unfold bnd_lo, bnd_hi.
    apply orb_true_iff in E1. destruct E1 as [E1|E1].
    + apply Z.ltb_lt in E1. apply (q_cmp_lt0 _ _ Ha Wfl) in E1. rewrite Vfl in E1.
      split; [destruct sa; cbn; lra|destruct sb; cbn; lra].
    + apply andb_true_iff in E1. destruct E1 as [E1 E1']. apply Z.eqb_eq in E1. apply (q_cmp_eq0 _ _ Ha Wfl) in E1.
      rewrite Vfl in E1. destruct sa; try discriminate. split; [cbn; lra|destruct sb; cbn; lra].
  - destruct ((0 <? q_cmp b (q_from_integer (fl + 1)))%Z || (q_cmp b (q_from_integer (fl + 1)) =? 0)%Z && negb sb) eqn:E2.
    + intros [= <-]. split; [exact Wcl|]. unfold bnd_lo, bnd_hi.
      apply orb_true_iff in E2. destruct E2 as [E2|E2].
      * apply Z.ltb_lt in E2. apply (q_cmp_gt0 _ _ Hb Wcl) in E2. rewrite Vcl in E2.
        split; [destruct sa; cbn; lra|destruct sb; cbn; lra].
      * apply andb_true_iff in E2. destruct E2 as [E2 E2']. apply Z.eqb_eq in E2. apply (q_cmp_eq0 _ _ Hb Wcl) in E2.
        rewrite Vcl in E2. destruct sb; try discriminate. split; [destruct sa; cbn; lra|cbn; lra].
    + intros H. destruct (v_pick_loop_sound _ _ _ _ _ _ Ha Hb Wfl Wcl H) as (W & L1 & L2).
      split; [exact W|]. split; [destruct sa; cbn; lra|destruct sb; cbn; lra].
Qed.

(* "prefer integers": whenever some integer satisfies the (hull) bounds, the picked value is an integer *)
Lemma v_pick_prefers_int fuel a sa b sb r k : q_wf a -> q_wf b -> QofR a < QofR b ->
  v_pick fuel a sa b sb = Some r ->
  bnd_lo sa (QofR a) (inject_Z k) -> bnd_hi sb (inject_Z k) (QofR b) -> q_is_integer r = true.
Proof.
  intros Ha Hb Hab. unfold v_pick.
  destruct (q_mid_spec a b Ha Hb) as [Wm Hmid].
  set (mq := q_div_2exp (q_add a b) 1) in *.
  destruct (q_floor_spec mq Wm) as [Hf1 Hf2].
  set (fl := q_floor mq) in *.
  unfold int_inc. cbn [ring_norm].
  pose proof (q_wf_int fl) as Wfl. pose proof (q_wf_int (fl + 1)) as Wcl.
  pose proof (QofR_int fl) as Vfl. pose proof (QofR_int (fl + 1)) as Vcl.
  unfold q_cmp_integer.
  destruct ((q_cmp a (q_from_integer fl) <? 0)%Z || (q_cmp a (q_from_integer fl) =? 0)%Z && negb sa) eqn:E1;
    [intros [= <-] _ _; reflexivity|].
  destruct ((0 <? q_cmp b (q_from_integer (fl + 1)))%Z || (q_cmp b (q_from_integer (fl + 1)) =? 0)%Z && negb sb) eqn:E2;
    [intros [= <-] _ _; reflexivity|].
  intros _ K1 K2. exfalso.
  apply orb_false_iff in E1. destruct E1 as [E1 E1']. apply orb_false_iff in E2. destruct E2 as [E2 E2'].
  apply Z.ltb_ge in E1, E2.
  (* a >= fl (with equality only if strict), b <= fl+1 (with equality only if strict) *)
  assert (A1 : inject_Z fl <= QofR a).
  { rewrite <- Vfl. apply Qnot_lt_le. intros C. apply (q_cmp_lt0 _ _ Ha Wfl) in C. lia. }
  assert (B1 : QofR b <= inject_Z (fl + 1)).
  { rewrite <- Vcl. apply Qnot_lt_le. intros C. apply (q_cmp_gt0 _ _ Hb Wcl) in C. lia. }
  assert (A2 : sa = false -> inject_Z fl < QofR a).
  { intros ->. cbn in E1'. rewrite andb_true_r in E1'. apply Z.eqb_neq in E1'.
    apply Qle_lt_or_eq in A1. destruct A1 as [A1|A1]; [exact A1|].
    exfalso. apply E1'. apply (q_cmp_eq0 _ _ Ha Wfl). rewrite Vfl. symmetry. exact A1. }
  assert (B2 : sb = false -> QofR b < inject_Z (fl + 1)).
  { intros ->. cbn in E2'. rewrite andb_true_r in E2'. apply Z.eqb_neq in E2'.
    apply Qle_lt_or_eq in B1. destruct B1 as [B1|B1]; [exact B1|].
    exfalso. apply E2'. apply (q_cmp_eq0 _ _ Hb Wcl). rewrite Vcl. exact B1. }
  (* so fl < k < fl + 1 *)
  assert (K3 : (fl < k)%Z).
  { apply inject_lt_inv. destruct sa; cbn in K1; [lra|]. specialize (A2 eq_refl). lra. }
  assert (K4 : (k < fl + 1)%Z).
  { apply inject_lt_inv. destruct sb; cbn in K2; [lra|]. specialize (B2 eq_refl). lra. }
  lia.
Qed.
Local Open Scope Z_scope.

Section Line.
Variable L : line.
Hypothesis OK : line_ok L.

Notation R := (LR L).
Notation "a ~ b" := (Leq L a b) (at level 70).

Lemma Leq_refl a : a ~ a. Proof. apply (O_refl L OK). Qed.
Lemma Leq_sym a b : a ~ b -> b ~ a.
Proof. unfold Leq. intros H. rewrite (O_opp L OK), H. reflexivity. Qed.
Lemma Leq_trans a b c : a ~ b -> b ~ c -> a ~ c.
Proof. unfold Leq. intros H1 H2. rewrite (O_eq_l L OK a b c H1). exact H2. Qed.
Lemma Lcmp_eq_l a b c : a ~ b -> Lcmp L a c = Lcmp L b c.
Proof. apply (O_eq_l L OK). Qed.
Lemma Lcmp_eq_r a b c : b ~ c -> Lcmp L a b = Lcmp L a c.
Proof.
  intros H. rewrite (O_opp L OK b a), (O_opp L OK c a). f_equal. apply Lcmp_eq_l. exact H.
Qed.
Lemma LQ_eq p q : (p == q)%Q -> LQ L p ~ LQ L q.
Proof. intros H. unfold Leq. rewrite (Q_cmp L OK). apply Qeq_alt. exact H. Qed.
Lemma Lcmp_gt_lt a b : Lcmp L a b = Gt <-> Lcmp L b a = Lt.
Proof. rewrite (O_opp L OK a b). destruct (Lcmp L a b); cbn; split; intros H; try discriminate; reflexivity. Qed.
Lemma Llt_trans a b c : Llt L a b -> Llt L b c -> Llt L a c.
Proof. apply (O_lt_trans L OK). Qed.
Lemma Lle_lt_trans a b c : Lle L a b -> Llt L b c -> Llt L a c.
Proof.
  unfold Lle, Llt. intros H1 H2. destruct (Lcmp L a b) eqn:E.
  - rewrite (Lcmp_eq_l a b c E). exact H2.
  - eapply Llt_trans; eassumption.
  - contradiction.
Qed.
Lemma Llt_le_trans a b c : Llt L a b -> Lle L b c -> Llt L a c.
Proof.
  unfold Lle, Llt. intros H1 H2. destruct (Lcmp L b c) eqn:E.
  - rewrite <- (Lcmp_eq_r a b c E). exact H1.
  - eapply Llt_trans; eassumption.
  - contradiction.
Qed.
Lemma Lle_trans a b c : Lle L a b -> Lle L b c -> Lle L a c.
Proof.
  unfold Lle. intros H1 H2 H3. destruct (Lcmp L a b) eqn:E.
  - rewrite (Lcmp_eq_l a b c E) in H3. contradiction.
  - destruct (Lcmp L b c) eqn:E2.
    + rewrite <- (Lcmp_eq_r a b c E2) in H3. congruence.
    + pose proof (O_lt_trans L OK a b c E E2). congruence.
    + contradiction.
  - contradiction.
Qed.
Lemma Lle_antisym a b : Lle L a b -> Lle L b a -> a ~ b.
Proof.
  unfold Lle, Leq. intros H1 H2. rewrite (O_opp L OK a b) in H2. destruct (Lcmp L a b); cbn in *; congruence.
Qed.

(* the extended order is a total order as well *)
Lemma ecmp_refl a : ecmp L a a = Eq.
Proof. destruct a; cbn; try reflexivity. apply (O_refl L OK). Qed.
Lemma ecmp_opp a b : ecmp L b a = CompOpp (ecmp L a b).
Proof. destruct a, b; cbn; try reflexivity. apply (O_opp L OK). Qed.
Lemma ecmp_eq_l a b c : ecmp L a b = Eq -> ecmp L a c = ecmp L b c.
Proof. destruct a, b, c; cbn; intros H; try reflexivity; try discriminate. apply (O_eq_l L OK); exact H. Qed.
Lemma ecmp_eq_r a b c : ecmp L b c = Eq -> ecmp L a b = ecmp L a c.
Proof.
  intros H. rewrite (ecmp_opp b a), (ecmp_opp c a). f_equal. apply ecmp_eq_l. exact H.
Qed.
Lemma ecmp_lt_trans a b c : ecmp L a b = Lt -> ecmp L b c = Lt -> ecmp L a c = Lt.
Proof.
  destruct a, b, c; cbn; intros H1 H2; try reflexivity; try discriminate. eapply (O_lt_trans L OK); eassumption.
Qed.
Lemma eeq_refl a : eeq L a a. Proof. apply ecmp_refl. Qed.
Lemma eeq_sym a b : eeq L a b -> eeq L b a.
Proof. unfold eeq. intros H. rewrite ecmp_opp, H. reflexivity. Qed.
Lemma eeq_trans a b c : eeq L a b -> eeq L b c -> eeq L a c.
Proof. unfold eeq. intros H1 H2. rewrite (ecmp_eq_l a b c H1). exact H2. Qed.

(* ------------------------------------------------------------------ 1. comparison *)
Lemma den_cmp_QQ p q : cmp_to_Z (Lcmp L (LQ L p) (LQ L q)) = cmp_to_Z (p ?= q)%Q.
Proof. rewrite (Q_cmp L OK). reflexivity. Qed.

Lemma cmp_q_int x z : LP L x ->
  rn_cmp_q x (q_from_integer z) = cmp_to_Z (Lcmp L (Lden L x) (LQ L (inject_Z z))).
Proof.
  intros Hx. rewrite (A_cmp_q L OK x _ Hx (q_wf_int z)). f_equal. apply Lcmp_eq_r. apply LQ_eq, QofR_int.
Qed.
Lemma cmp_q_dy x d : LP L x ->
  rn_cmp_q x (q_from_dyadic d) = cmp_to_Z (Lcmp L (Lden L x) (LQ L (QofD d))).
Proof.
  intros Hx. destruct (q_from_dyadic_spec d) as [W V].
  rewrite (A_cmp_q L OK x _ Hx W). f_equal. apply Lcmp_eq_r. apply LQ_eq, V.
Qed.

(* the ordered half of the dispatch: v1's type above v2's *)
Lemma v_cmp_hi_spec u v c : vok L u -> vok L v -> v_cmp_hi u v = ROk c ->
  Z.sgn c = cmp_to_Z (ecmp L (den L u) (den L v)).
Proof.
  intros Hu Hv H. destruct u, v; cbn in H; try discriminate; injection H as <-; cbn [den ecmp vok] in *.
  - (* dy, int *) unfold dy_cmp_integer. rewrite dy_cmp_spec. rewrite (Q_cmp L OK).
    destruct (dy_from_integer_spec z) as [_ V]. rewrite V. reflexivity.
  - (* rat, int *) unfold q_cmp_integer. rewrite (q_cmp_spec _ _ Hu (q_wf_int z)), sgn_cmp_to_Z, (Q_cmp L OK).
    rewrite QofR_int. reflexivity.
  - (* rat, dy *) rewrite (q_cmp_dyadic_spec _ _ Hu), sgn_cmp_to_Z, (Q_cmp L OK). reflexivity.
  - (* alg, int *) rewrite (cmp_q_int _ _ Hu), sgn_cmp_to_Z. reflexivity.
  - (* alg, dy *) rewrite (cmp_q_dy _ _ Hu), sgn_cmp_to_Z. reflexivity.
  - (* alg, rat *) rewrite (A_cmp_q L OK _ _ Hu Hv), sgn_cmp_to_Z. reflexivity.
Qed.

Lemma v_cmp_spec fuel u v c : vok L u -> vok L v -> v_cmp fuel u v = ROk c ->
  Z.sgn c = cmp_to_Z (ecmp L (den L u) (den L v)).
Proof.
  intros Hu Hv H.
  assert (FLIP : forall u v c, vok L u -> vok L v -> vr_map Z.opp (v_cmp_hi v u) = ROk c ->
                 Z.sgn c = cmp_to_Z (ecmp L (den L u) (den L v))).
  { intros u0 v0 c0 Hu0 Hv0 H0. destruct (v_cmp_hi v0 u0) as [c1| |] eqn:E; cbn in H0; try discriminate.
    injection H0 as <-. rewrite Z.sgn_opp, (v_cmp_hi_spec _ _ _ Hv0 Hu0 E), (ecmp_opp (den L v0) (den L u0)).
    rewrite cmp_to_Z_opp. lia. }
  destruct u, v; unfold v_cmp in H; cbn [vtype Z.eqb Z.ltb Z.compare Pos.compare Pos.compare_cont Pos.eqb] in H;
    try (apply (FLIP _ _ _ Hu Hv H)); try (apply (v_cmp_hi_spec _ _ _ Hu Hv H));
    try (injection H as <-; cbn [den ecmp]; reflexivity).
  - (* int, int *) injection H as <-. cbn [den ecmp]. unfold int_cmp. cbn [ring_norm].
    rewrite sgn_cmp_to_Z, (Q_cmp L OK), Qcompare_inject. reflexivity.
  - (* dy, dy *) injection H as <-. cbn [den ecmp]. rewrite dy_cmp_spec, (Q_cmp L OK). reflexivity.
  - (* rat, rat *) injection H as <-. cbn [den ecmp vok] in *. rewrite (q_cmp_spec _ _ Hu Hv), sgn_cmp_to_Z, (Q_cmp L OK). reflexivity.
  - (* alg, alg *) cbn [den ecmp vok] in *. destruct (rn_cmp fuel x x0) as [c0|] eqn:E; cbn in H; try discriminate.
    injection H as <-. rewrite (A_cmp L OK _ _ _ _ Hu Hv E), sgn_cmp_to_Z. reflexivity.
Qed.

(* corollaries: the comparison is a total order on denotations *)
Definition ele (a b : ext R) : Prop := ecmp L a b <> Gt.
Lemma ele_trans a b c : ele a b -> ele b c -> ele a c.
Proof.
  unfold ele. intros H1 H2 H3. destruct (ecmp L a b) eqn:E.
  - rewrite (ecmp_eq_l a b c E) in H3. contradiction.
  - destruct (ecmp L b c) eqn:E2.
    + rewrite <- (ecmp_eq_r a b c E2) in H3. congruence.
    + pose proof (ecmp_lt_trans a b c E E2). congruence.
    + contradiction.
  - contradiction.
Qed.
Lemma sgn_le0_cmp c k : Z.sgn c = cmp_to_Z k -> (c <= 0 <-> k <> Gt).
Proof. destruct k; cbn; intros H; split; intros H1; try congruence; try lia; try discriminate; exfalso; apply H1; reflexivity. Qed.

Lemma v_cmp_antisym fuel u v c c' : vok L u -> vok L v ->
  v_cmp fuel u v = ROk c -> v_cmp fuel v u = ROk c' -> Z.sgn c' = - Z.sgn c.
Proof.
  intros Hu Hv H1 H2. rewrite (v_cmp_spec _ _ _ _ Hu Hv H1), (v_cmp_spec _ _ _ _ Hv Hu H2).
  rewrite (ecmp_opp (den L u) (den L v)), cmp_to_Z_opp. reflexivity.
Qed.
Lemma v_cmp_trans fuel u v w c1 c2 c3 : vok L u -> vok L v -> vok L w ->
  v_cmp fuel u v = ROk c1 -> v_cmp fuel v w = ROk c2 -> v_cmp fuel u w = ROk c3 ->
  c1 <= 0 -> c2 <= 0 -> c3 <= 0.
Proof.
  intros Hu Hv Hw H1 H2 H3 L1 L2.
  apply (sgn_le0_cmp _ _ (v_cmp_spec _ _ _ _ Hu Hv H1)) in L1.
  apply (sgn_le0_cmp _ _ (v_cmp_spec _ _ _ _ Hv Hw H2)) in L2.
  apply (sgn_le0_cmp _ _ (v_cmp_spec _ _ _ _ Hu Hw H3)).
  exact (ele_trans _ _ _ L1 L2).
Qed.
Lemma v_cmp_eq_iff fuel u v c : vok L u -> vok L v -> v_cmp fuel u v = ROk c ->
  (c = 0 <-> eeq L (den L u) (den L v)).
Proof.
  intros Hu Hv H. pose proof (v_cmp_spec _ _ _ _ Hu Hv H) as S. unfold eeq.
  rewrite <- cmp_to_Z_eq0, <- S. rewrite Z.sgn_null_iff. reflexivity.
Qed.
Lemma v_cmp_lt_iff fuel u v c : vok L u -> vok L v -> v_cmp fuel u v = ROk c ->
  (c < 0 <-> ecmp L (den L u) (den L v) = Lt).
Proof.
  intros Hu Hv H. pose proof (v_cmp_spec _ _ _ _ Hu Hv H) as S.
  destruct (ecmp L (den L u) (den L v)); cbn in S; split; intros H1; try discriminate; try reflexivity; lia.
Qed.
Lemma v_cmp_defined fuel u v : v_cmp fuel u v <> RUndef.
Proof.
  destruct u, v; unfold v_cmp; cbn; try discriminate.
  destruct (rn_cmp fuel x x0); cbn; discriminate.
Qed.
Definition is_alg (v : value) : bool := match v with VAlg _ => true | _ => false end.
Lemma v_cmp_total fuel u v : is_alg u && is_alg v = false -> exists c, v_cmp fuel u v = ROk c.
Proof. destruct u, v; unfold v_cmp; cbn; intros H; try discriminate; eexists; reflexivity. Qed.
Lemma v_cmp_ptr_spec fuel u : vok L u ->
  v_cmp_ptr true fuel u u = ROk 0 /\ ecmp L (den L u) (den L u) = Eq.
Proof. intros _. split; [reflexivity|apply ecmp_refl]. Qed.

(* 2. comparison with a rational, sign *)
Lemma v_cmp_rational_spec v q c : vok L v -> q_wf q -> v_cmp_rational v q = ROk c ->
  Z.sgn c = cmp_to_Z (ecmp L (den L v) (EFin (LQ L (QofR q)))).
Proof.
  intros Hv Hq H. destruct v; cbn in H; injection H as <-; cbn [den ecmp vok] in *; try reflexivity.
  - unfold q_cmp_integer. rewrite (q_cmp_spec _ _ Hq (q_wf_int z)), Z.sgn_opp, sgn_cmp_to_Z, (Q_cmp L OK).
    rewrite QofR_int, <- cmp_to_Z_opp. f_equal. apply Qcompare_antisym.
  - rewrite (q_cmp_dyadic_spec _ _ Hq), Z.sgn_opp, sgn_cmp_to_Z, (Q_cmp L OK), <- cmp_to_Z_opp.
    f_equal. apply Qcompare_antisym.
  - rewrite (q_cmp_spec _ _ Hv Hq), sgn_cmp_to_Z, (Q_cmp L OK). reflexivity.
  - rewrite (A_cmp_q L OK _ _ Hv Hq), sgn_cmp_to_Z. reflexivity.
Qed.

Definition ezero : ext R := EFin (LQ L 0%Q).
Lemma q_wf_zero : q_wf (0, 1). Proof. split; cbn; [lia|reflexivity]. Qed.
Lemma v_sgn_spec v : vok L v -> v_sgn v = cmp_to_Z (ecmp L (den L v) ezero).
Proof.
  intros Hv. destruct v; cbn [v_sgn den ecmp ezero vok] in *; try reflexivity.
  - unfold int_sgn. cbn [ring_norm]. rewrite (Q_cmp L OK). change 0%Q with (inject_Z 0). rewrite Qcompare_inject.
    destruct z; reflexivity.
  - rewrite dy_sgn_spec, (Q_cmp L OK). reflexivity.
  - rewrite (q_sgn_spec _ Hv), (Q_cmp L OK). reflexivity.
  - unfold rn_sgn. rewrite (A_cmp_q L OK _ _ Hv q_wf_zero). reflexivity.
Qed.

(* ------------------------------------------------------------------ 3. arithmetic *)
Definition fin (v : value) : Prop := match v with VPinf | VMinf => False | _ => True end.

Definition eadd (a b : ext R) : option (ext R) :=
  match a, b with
  | EFin x, EFin y => Some (EFin (Ladd L x y))
  | EPinf, EMinf | EMinf, EPinf => None
  | EPinf, _ | _, EPinf => Some EPinf
  | EMinf, _ | _, EMinf => Some EMinf
  end.
Definition eneg (a : ext R) : ext R :=
  match a with EFin x => EFin (Lopp L x) | EPinf => EMinf | EMinf => EPinf end.
Definition esub (a b : ext R) : option (ext R) := eadd a (eneg b).
Definition esgn (a : ext R) : comparison := ecmp L a ezero.
Definition emul (a b : ext R) : option (ext R) :=
  match a, b with
  | EFin x, EFin y => Some (EFin (Lmul L x y))
  | _, _ =>
    match esgn a, esgn b with
    | Eq, _ | _, Eq => None
    | Lt, Lt | Gt, Gt => Some EPinf
    | _, _ => Some EMinf
    end
  end.

(* promotion keeps the number *)
Lemma to_same_type_spec u v u' v' : fin u -> fin v -> vok L u -> vok L v -> v_to_same_type u v = Some (u', v') ->
  vok L u' /\ vok L v' /\ eeq L (den L u') (den L u) /\ eeq L (den L v') (den L v) /\ vtype u' = vtype v' /\ fin u' /\ fin v'.
Proof.
  intros Fu Fv Hu Hv H.
  destruct u, v; try contradiction; unfold v_to_same_type in H;
    cbn [vtype Z.eqb Pos.eqb] in H; injection H as <- <-; cbn [vok den eeq ecmp vtype fin va_of_rat] in *;
    repeat split; try assumption; try apply Leq_refl; try exact I;
    try (apply (P_RQ L OK)); try apply q_wf_int; try apply (proj1 (q_from_dyadic_spec _));
    try apply (proj1 (dy_from_integer_spec _)).
  all: try (apply LQ_eq; apply (proj2 (dy_from_integer_spec _))).
  all: try (apply LQ_eq; apply QofR_int).
  all: try (apply LQ_eq; apply (proj2 (q_from_dyadic_spec _))).
  all: try (eapply Leq_trans; [apply (D_RQ L OK); apply q_wf_int|apply LQ_eq; apply QofR_int]).
  all: try (eapply Leq_trans; [apply (D_RQ L OK); apply (proj1 (q_from_dyadic_spec _))|apply LQ_eq; apply (proj2 (q_from_dyadic_spec _))]).
  all: try (apply (D_RQ L OK); assumption).
  all: try assumption.
  all: try (destruct Hu; assumption); try (destruct Hv; assumption).
Qed.
Lemma to_same_type_some u v : fin u -> fin v -> exists p, v_to_same_type u v = Some p.
Proof. destruct u, v; intros Fu Fv; try contradiction; unfold v_to_same_type; cbn; eexists; reflexivity. Qed.

Definition add_same (fuel : nat) (a' b' : value) : vres value :=
  match a', b' with
  | VInt x, VInt y => ROk (VInt (int_add None x y))
  | VDy x, VDy y => ROk (VDy (dy_add NoAlias dy_fresh x y))
  | VRat x, VRat y => ROk (VRat (q_add x y))
  | VAlg x, VAlg y => vr_map VAlg (r_of_opt (rn_add fuel x y))
  | _, _ => RUndef
  end.
Lemma v_add_fin fuel a b : fin a -> fin b ->
  v_add fuel a b = match v_to_same_type a b with None => RUndef | Some (a', b') => add_same fuel a' b' end.
Proof. destruct a, b; intros Fa Fb; try contradiction; reflexivity. Qed.

Lemma add_same_spec fuel a b w : fin a -> fin b -> vtype a = vtype b -> vok L a -> vok L b -> add_same fuel a b = ROk w ->
  vok L w /\ exists x y z, den L a = EFin x /\ den L b = EFin y /\ den L w = EFin z /\ z ~ Ladd L x y.
Proof.
  intros Fa Fb T Ha Hb H. destruct a as [za|da|qa|xa| |], b as [zb|db|qb|xb| |]; try contradiction; try discriminate; cbn [add_same] in H.
  - injection H as <-. split; [exact I|]. do 3 eexists. repeat split. unfold int_add; cbn [ring_norm].
    rewrite inject_Z_plus. apply (Q_add L OK).
  - injection H as <-. rewrite (dy_add_dst NoAlias dy_fresh da db I). destruct (dy_add_spec da db) as [W V].
    split; [exact W|]. do 3 eexists. repeat split. eapply Leq_trans; [apply LQ_eq; exact V|apply (Q_add L OK)].
  - injection H as <-. cbn [vok] in *. destruct (q_add_spec _ _ Ha Hb) as [W V].
    split; [exact W|]. do 3 eexists. repeat split. eapply Leq_trans; [apply LQ_eq; exact V|apply (Q_add L OK)].
  - cbn [vok] in *. destruct (rn_add fuel xa xb) as [z|] eqn:E; cbn in H; try discriminate. injection H as <-.
    destruct (A_add L OK _ _ _ _ Ha Hb E) as [Pz Dz]. split; [exact Pz|]. do 3 eexists. repeat split. exact Dz.
Qed.

Lemma v_add_spec fuel u v w : vok L u -> vok L v -> v_add fuel u v = ROk w ->
  vok L w /\ exists e, eadd (den L u) (den L v) = Some e /\ eeq L (den L w) e.
Proof.
  intros Hu Hv H.
  assert (FIN : fin u -> fin v -> vok L w /\ exists e, eadd (den L u) (den L v) = Some e /\ eeq L (den L w) e).
  { intros Fu Fv. rewrite (v_add_fin _ _ _ Fu Fv) in H.
    destruct (v_to_same_type u v) as [[u' v']|] eqn:E; try discriminate.
    destruct (to_same_type_spec _ _ _ _ Fu Fv Hu Hv E) as (Hu' & Hv' & Du & Dv & T & Fu' & Fv').
    destruct (add_same_spec _ _ _ _ Fu' Fv' T Hu' Hv' H) as (Hw & x & y & z & Ex & Ey & Ez & Hz).
    split; [exact Hw|]. rewrite Ex in Du. rewrite Ey in Dv. rewrite Ez.
    destruct (den L u) as [|xu|] eqn:Eu; try discriminate Du. destruct (den L v) as [|yv|] eqn:Ev; try discriminate Dv.
    eexists. split; [reflexivity|]. unfold eeq in *; cbn [ecmp] in *.
    eapply Leq_trans; [exact Hz|]. apply (add_ext L OK); assumption. }
  destruct u; try (apply FIN; exact I); destruct v; try (apply FIN; exact I); cbn in H; try discriminate;
    injection H as <-; (split; [exact I|]); eexists; (split; [reflexivity|apply eeq_refl]).
Qed.
Lemma vr_map_opt_not_undef {A B} (f : A -> B) (o : option A) : vr_map f (r_of_opt o) <> RUndef.
Proof. destruct o; discriminate. Qed.
Lemma v_add_undef_iff fuel u v : v_add fuel u v = RUndef <-> eadd (den L u) (den L v) = None.
Proof.
  destruct u, v; unfold v_add; cbn [v_to_same_type vtype Z.eqb Pos.eqb den eadd va_of_rat]; split; intros H;
    try discriminate; try reflexivity; exfalso; revert H; apply vr_map_opt_not_undef.
Qed.

Lemma v_neg_spec u : vok L u -> vok L (v_neg u) /\ eeq L (den L (v_neg u)) (eneg (den L u)).
Proof.
  intros Hu. destruct u; cbn [v_neg vok den eneg eeq ecmp] in *; try (split; [exact I|reflexivity]).
  - split; [exact I|]. unfold int_neg; cbn [ring_norm]. rewrite inject_Z_opp. apply (Q_opp L OK).
  - rewrite (dy_neg_dst NoAlias dy_fresh d I). destruct (dy_neg_spec d Hu) as [W V].
    split; [exact W|]. eapply Leq_trans; [apply LQ_eq; exact V|apply (Q_opp L OK)].
  - destruct (q_neg_spec _ Hu) as [W V]. split; [exact W|]. eapply Leq_trans; [apply LQ_eq; exact V|apply (Q_opp L OK)].
  - apply (A_neg L OK _ Hu).
Qed.

Lemma eadd_ext a a' b e : eeq L a a' -> eadd a b = Some e -> exists e', eadd a' b = Some e' /\ eeq L e e'.
Proof.
  unfold eeq. intros H1 H2. destruct a, a', b; cbn in *; try discriminate; injection H2 as <-;
    eexists; (split; [reflexivity|]); cbn; try reflexivity.
  apply (add_ext L OK); [exact H1|apply Leq_refl].
Qed.
Lemma eadd_ext_r a b b' e : eeq L b b' -> eadd a b = Some e -> exists e', eadd a b' = Some e' /\ eeq L e e'.
Proof.
  unfold eeq. intros H1 H2. destruct a, b, b'; cbn in *; try discriminate; injection H2 as <-;
    eexists; (split; [reflexivity|]); cbn; try reflexivity.
  apply (add_ext L OK); [apply Leq_refl|exact H1].
Qed.

Lemma v_sub_spec fuel u v w : vok L u -> vok L v -> v_sub fuel u v = ROk w ->
  vok L w /\ exists e, esub (den L u) (den L v) = Some e /\ eeq L (den L w) e.
Proof.
  intros Hu Hv H. unfold v_sub in H. destruct (v_neg_spec v Hv) as [Hn Dn].
  destruct (v_add_spec _ _ _ _ Hu Hn H) as [Hw [e [E1 E2]]]. split; [exact Hw|].
  destruct (eadd_ext_r _ _ _ _ Dn E1) as [e' [E3 E4]]. exists e'. split; [exact E3|].
  eapply eeq_trans; eassumption.
Qed.

(* multiplication *)
Definition mul_same (fuel : nat) (a' b' : value) : vres value :=
  match a', b' with
  | VInt x, VInt y => ROk (VInt (int_mul None x y))
  | VDy x, VDy y => ROk (VDy (dy_mul NoAlias dy_fresh x y))
  | VRat x, VRat y => ROk (VRat (q_mul x y))
  | VAlg x, VAlg y => vr_map VAlg (r_of_opt (rn_mul fuel x y))
  | _, _ => RUndef
  end.
Lemma v_mul_fin fuel a b : fin a -> fin b ->
  v_mul fuel a b = match v_to_same_type a b with None => RUndef | Some (a', b') => mul_same fuel a' b' end.
Proof. destruct a, b; intros Fa Fb; try contradiction; reflexivity. Qed.

Lemma mul_same_spec fuel a b w : fin a -> fin b -> vtype a = vtype b -> vok L a -> vok L b -> mul_same fuel a b = ROk w ->
  vok L w /\ exists x y z, den L a = EFin x /\ den L b = EFin y /\ den L w = EFin z /\ z ~ Lmul L x y.
Proof.
  intros Fa Fb T Ha Hb H. destruct a as [za|da|qa|xa| |], b as [zb|db|qb|xb| |]; try contradiction; try discriminate; cbn [mul_same] in H.
  - injection H as <-. split; [exact I|]. do 3 eexists. repeat split. unfold int_mul; cbn [ring_norm].
    rewrite inject_Z_mult. apply (Q_mul L OK).
  - injection H as <-. rewrite (dy_mul_dst NoAlias dy_fresh da db I). destruct (dy_mul_spec da db) as [W V].
    split; [exact W|]. do 3 eexists. repeat split. eapply Leq_trans; [apply LQ_eq; exact V|apply (Q_mul L OK)].
  - injection H as <-. cbn [vok] in *. destruct (q_mul_spec _ _ Ha Hb) as [W V].
    split; [exact W|]. do 3 eexists. repeat split. eapply Leq_trans; [apply LQ_eq; exact V|apply (Q_mul L OK)].
  - cbn [vok] in *. destruct (rn_mul fuel xa xb) as [z|] eqn:E; cbn in H; try discriminate. injection H as <-.
    destruct (A_mul L OK _ _ _ _ Ha Hb E) as [Pz Dz]. split; [exact Pz|]. do 3 eexists. repeat split. exact Dz.
Qed.

Lemma v_sgn_esgn v : vok L v -> v_sgn v = cmp_to_Z (esgn (den L v)).
Proof. apply v_sgn_spec. Qed.

Lemma v_mul_spec fuel u v w : vok L u -> vok L v -> v_mul fuel u v = ROk w ->
  vok L w /\ exists e, emul (den L u) (den L v) = Some e /\ eeq L (den L w) e.
Proof.
  intros Hu Hv H.
  assert (FIN : fin u -> fin v -> vok L w /\ exists e, emul (den L u) (den L v) = Some e /\ eeq L (den L w) e).
  { intros Fu Fv. rewrite (v_mul_fin _ _ _ Fu Fv) in H.
    destruct (v_to_same_type u v) as [[u' v']|] eqn:E; try discriminate.
    destruct (to_same_type_spec _ _ _ _ Fu Fv Hu Hv E) as (Hu' & Hv' & Du & Dv & T & Fu' & Fv').
    destruct (mul_same_spec _ _ _ _ Fu' Fv' T Hu' Hv' H) as (Hw & x & y & z & Ex & Ey & Ez & Hz).
    split; [exact Hw|]. rewrite Ex in Du. rewrite Ey in Dv. rewrite Ez.
    destruct (den L u) as [|xu|] eqn:Eu; try discriminate Du. destruct (den L v) as [|yv|] eqn:Ev; try discriminate Dv.
    eexists. split; [reflexivity|]. unfold eeq in *; cbn [ecmp] in *.
    eapply Leq_trans; [exact Hz|]. apply (mul_ext L OK); assumption. }
  assert (INF : v_is_infinity u || v_is_infinity v = true ->
                vok L w /\ exists e, emul (den L u) (den L v) = Some e /\ eeq L (den L w) e).
  { intros I1. unfold v_mul in H. rewrite I1 in H.
    rewrite (v_sgn_esgn u Hu), (v_sgn_esgn v Hv) in H.
    assert (EM : emul (den L u) (den L v) =
                 match esgn (den L u), esgn (den L v) with
                 | Eq, _ | _, Eq => None | Lt, Lt | Gt, Gt => Some EPinf | _, _ => Some EMinf end).
    { destruct u, v; try discriminate I1; reflexivity. }
    rewrite EM. destruct (esgn (den L u)), (esgn (den L v)); cbn in H; try discriminate; injection H as <-;
      (split; [exact I|]); eexists; (split; [reflexivity|apply eeq_refl]). }
  destruct u; try (apply INF; reflexivity); destruct v; try (apply INF; reflexivity); apply FIN; exact I.
Qed.
Lemma v_mul_undef_iff fuel u v : vok L u -> vok L v -> (v_mul fuel u v = RUndef <-> emul (den L u) (den L v) = None).
Proof.
  intros Hu Hv. destruct (v_is_infinity u || v_is_infinity v) eqn:I1.
  - unfold v_mul. rewrite I1, (v_sgn_esgn u Hu), (v_sgn_esgn v Hv).
    assert (EM : emul (den L u) (den L v) =
                 match esgn (den L u), esgn (den L v) with
                 | Eq, _ | _, Eq => None | Lt, Lt | Gt, Gt => Some EPinf | _, _ => Some EMinf end).
    { destruct u, v; try discriminate I1; reflexivity. }
    rewrite EM. destruct (esgn (den L u)), (esgn (den L v)); cbn; split; intros H; try discriminate; reflexivity.
  - destruct u, v; try discriminate I1; unfold v_mul; cbn [v_is_infinity orb v_to_same_type vtype Z.eqb Pos.eqb den emul va_of_rat];
      split; intros H; try discriminate; exfalso; revert H; apply vr_map_opt_not_undef.
Qed.

(* inverse, division *)
Lemma q_inv_spec q i : q_wf q -> q_inv q = Some i -> q_wf i /\ (QofR i * QofR q == 1)%Q.
Proof.
  intros [Hd Hg] H. unfold q_inv in H.
  assert (Hn : fst q <> 0). { intros Hz. unfold q_canon in H. rewrite Hz in H. cbn in H. discriminate. }
  apply q_canon_spec in H. destruct H as [W V]. split; [exact W|].
  assert (E : (QofR i == QofR (snd q, fst q))%Q).
  { apply QofR_eq_iff; cbn [fst snd]; [destruct W; lia|exact Hn|exact V]. }
  rewrite E. unfold QofR. cbn [fst snd]. field. split; apply inj_nz; lia.
Qed.
Lemma q_inv_none_iff q : q_wf q -> (q_inv q = None <-> (QofR q == 0)%Q).
Proof.
  intros [Hd Hg]. unfold q_inv, q_canon. destruct (fst q =? 0) eqn:E.
  - apply Z.eqb_eq in E. split; [intros _|reflexivity]. unfold QofR. rewrite E. field. apply inj_nz; lia.
  - apply Z.eqb_neq in E. split; [destruct (_ <? 0); discriminate|].
    intros H. exfalso. apply E. unfold QofR, Qeq, Qdiv, Qmult, Qinv in H. cbn [Qnum Qden inject_Z] in H.
    destruct (snd q) eqn:Es; try lia. cbn in H. lia.
Qed.

Definition eone : ext R := EFin (LQ L 1%Q).
Lemma LQ_inv_pair i x : (i * x == 1)%Q -> Lmul L (LQ L i) (LQ L x) ~ LQ L 1%Q.
Proof. intros H. eapply Leq_trans; [apply Leq_sym, (Q_mul L OK)|apply LQ_eq; exact H]. Qed.

Lemma v_inv_spec fuel a w : vok L a -> v_inv fuel a = ROk w ->
  vok L w /\ match den L a with
             | EFin x => exists y, den L w = EFin y /\ Lmul L y x ~ LQ L 1%Q
             | _ => eeq L (den L w) ezero
             end.
Proof.
  intros Ha H. destruct a as [z|d|q|x| |]; cbn [v_inv den vok] in *.
  - destruct (q_inv (q_from_integer z)) as [i|] eqn:E; cbn in H; try discriminate. injection H as <-.
    destruct (q_inv_spec _ _ (q_wf_int z) E) as [W V]. split; [exact W|]. eexists. split; [reflexivity|].
    apply LQ_inv_pair. rewrite <- QofR_int. exact V.
  - destruct (q_from_dyadic_spec d) as [Wd Vd].
    destruct (q_inv (q_from_dyadic d)) as [i|] eqn:E; cbn in H; try discriminate. injection H as <-.
    destruct (q_inv_spec _ _ Wd E) as [W V]. split; [exact W|]. eexists. split; [reflexivity|].
    apply LQ_inv_pair. rewrite <- Vd. exact V.
  - destruct (q_inv q) as [i|] eqn:E; cbn in H; try discriminate. injection H as <-.
    destruct (q_inv_spec _ _ Ha E) as [W V]. split; [exact W|]. eexists. split; [reflexivity|].
    apply LQ_inv_pair. exact V.
  - destruct (rn_sgn x =? 0); try discriminate.
    destruct (rn_inv fuel x) as [z|] eqn:E; cbn in H; try discriminate. injection H as <-.
    destruct (A_inv L OK _ _ _ Ha E) as [Pz Dz]. split; [exact Pz|]. eexists. split; [reflexivity|exact Dz].
  - injection H as <-. split; [exact I|]. apply eeq_refl.
  - injection H as <-. split; [exact I|]. apply eeq_refl.
Qed.
Lemma v_inv_undef_iff fuel a : vok L a -> (v_inv fuel a = RUndef <-> eeq L (den L a) ezero).
Proof.
  intros Ha. unfold eeq, ezero. destruct a as [z|d|q|x| |]; cbn [v_inv den vok ecmp] in *.
  - rewrite (Q_cmp L OK), <- Qeq_alt, <- QofR_int, <- (q_inv_none_iff _ (q_wf_int z)).
    destruct (q_inv (q_from_integer z)); cbn; split; intros H; try discriminate; reflexivity.
  - destruct (q_from_dyadic_spec d) as [Wd Vd].
    rewrite (Q_cmp L OK), <- Qeq_alt, <- Vd, <- (q_inv_none_iff _ Wd).
    destruct (q_inv (q_from_dyadic d)); cbn; split; intros H; try discriminate; reflexivity.
  - rewrite (Q_cmp L OK), <- Qeq_alt, <- (q_inv_none_iff _ Ha).
    destruct (q_inv q); cbn; split; intros H; try discriminate; reflexivity.
  - pose proof (v_sgn_spec (VAlg x) Ha) as S. cbn [v_sgn den ecmp ezero] in S. rewrite S.
    destruct (Lcmp L (Lden L x) (LQ L 0%Q)); cbn; split; intros H; try discriminate; try reflexivity;
      exfalso; revert H; apply vr_map_opt_not_undef.
  - split; discriminate.
  - split; discriminate.
Qed.

Lemma v_div_spec fuel a b w : vok L a -> vok L b -> v_div fuel a b = ROk w ->
  vok L w /\ exists bi, v_inv fuel b = ROk bi /\ vok L bi /\
             exists e, emul (den L a) (den L bi) = Some e /\ eeq L (den L w) e.
Proof.
  intros Ha Hb H. unfold v_div in H. destruct (v_inv fuel b) as [bi| |] eqn:E; cbn in H; try discriminate.
  destruct (v_inv_spec _ _ _ Hb E) as [Hbi _].
  destruct (v_mul_spec _ _ _ _ Ha Hbi H) as [Hw He]. split; [exact Hw|]. exists bi. repeat split; assumption.
Qed.
(* finite operands: w = a * i for an i with i * b = 1 *)
Lemma v_div_fin_spec fuel a b w x y : vok L a -> vok L b -> v_div fuel a b = ROk w ->
  den L a = EFin x -> den L b = EFin y ->
  exists i z, Lmul L i y ~ LQ L 1%Q /\ den L w = EFin z /\ z ~ Lmul L x i.
Proof.
  intros Ha Hb H Ex Ey. destruct (v_div_spec _ _ _ _ Ha Hb H) as (Hw & bi & E & Hbi & e & E1 & E2).
  destruct (v_inv_spec _ _ _ Hb E) as [_ S]. rewrite Ey in S. destruct S as (i & Ei & Hi).
  rewrite Ex, Ei in E1. cbn in E1. injection E1 as <-. exists i.
  destruct (den L w) as [|z|] eqn:Ew; try discriminate E2. exists z. repeat split; assumption.
Qed.

(* powers *)
Fixpoint Lpow (x : R) (n : nat) : R :=
  match n with
  | O => LQ L 1%Q
  | S m => match m with O => x | S _ => Lmul L x (Lpow x m) end
  end.
Lemma Lpow_ext x x' n : x ~ x' -> Lpow x n ~ Lpow x' n.
Proof.
  intros H. induction n as [|[|m] IH]; cbn [Lpow]; [apply Leq_refl|exact H|].
  apply (mul_ext L OK); assumption.
Qed.
Lemma LQ_pow q n : LQ L (q ^ Z.of_nat n)%Q ~ Lpow (LQ L q) n.
Proof.
  induction n as [|[|m] IH].
  - apply Leq_refl.
  - apply LQ_eq. cbn. reflexivity.
  - change (Lpow (LQ L q) (S (S m))) with (Lmul L (LQ L q) (Lpow (LQ L q) (S m))).
    eapply Leq_trans; [|apply (mul_ext L OK); [apply Leq_refl|exact IH]].
    eapply Leq_trans; [|apply (Q_mul L OK)]. apply LQ_eq.
    rewrite (Nat2Z.inj_succ (S m)). unfold Z.succ. rewrite Z.add_comm.
    rewrite Qpower_plus' by lia. reflexivity.
Qed.
Lemma rn_pow_spec fuel x n z : LP L x -> rn_pow fuel x n = Some z -> LP L z /\ Lden L z ~ Lpow (Lden L x) n.
Proof.
  intros Hx. revert z. induction n as [|[|m] IH]; intros z H.
  - cbn in H. injection H as <-. split; [apply (P_RQ L OK), q_wf_one|].
    eapply Leq_trans; [apply (D_RQ L OK), q_wf_one|]. apply LQ_eq. unfold QofR; cbn. reflexivity.
  - cbn in H. injection H as <-. split; [exact Hx|apply Leq_refl].
  - change (rn_pow fuel x (S (S m))) with (match rn_pow fuel x (S m) with Some y => rn_mul fuel x y | None => None end) in H.
    destruct (rn_pow fuel x (S m)) as [y|] eqn:E; try discriminate.
    destruct (IH y eq_refl) as [Py Dy]. destruct (A_mul L OK _ _ _ _ Hx Py H) as [Pz Dz]. split; [exact Pz|].
    change (Lpow (Lden L x) (S (S m))) with (Lmul L (Lden L x) (Lpow (Lden L x) (S m))).
    eapply Leq_trans; [exact Dz|]. apply (mul_ext L OK); [apply Leq_refl|exact Dy].
Qed.

Lemma v_pow_spec fuel a n w : vok L a -> v_pow fuel a n = ROk w ->
  vok L w /\ match den L a with
             | EFin x => exists z, den L w = EFin z /\ z ~ Lpow x (N.to_nat n)
             | EPinf => den L w = EPinf
             | EMinf => den L w = if N.odd n then EMinf else EPinf
             end.
Proof.
  intros Ha H. destruct a as [z|d|q|x| |]; cbn [v_pow den vok] in *.
  - injection H as <-. split; [exact I|]. eexists. split; [reflexivity|]. unfold int_pow.
    eapply Leq_trans; [|apply LQ_pow]. apply LQ_eq. rewrite N_nat_Z. apply Zpower_Qpower. lia.
  - injection H as <-. rewrite (dy_pow_dst NoAlias dy_fresh d n I). destruct (dy_pow_spec d n Ha) as [W V].
    split; [exact W|]. eexists. split; [reflexivity|]. eapply Leq_trans; [|apply LQ_pow]. apply LQ_eq.
    rewrite N_nat_Z. exact V.
  - injection H as <-. destruct (q_pow_spec q n Ha) as [W V]. split; [exact W|]. eexists. split; [reflexivity|].
    eapply Leq_trans; [|apply LQ_pow]. apply LQ_eq. rewrite N_nat_Z. exact V.
  - destruct (rn_pow fuel x (N.to_nat n)) as [z|] eqn:E; cbn in H; try discriminate. injection H as <-.
    destruct (rn_pow_spec _ _ _ _ Ha E) as [Pz Dz]. split; [exact Pz|]. eexists. split; [reflexivity|exact Dz].
  - injection H as <-. split; [exact I|reflexivity].
  - destruct (N.odd n); injection H as <-; (split; [exact I|reflexivity]).
Qed.

(* ------------------------------------------------------------------ 4. floor, ceiling, integrality, extraction *)
(* constructor invariant of lp_algebraic_number_construct that floor/ceiling/is_integer rely on:
   the open isolating interval of a proper algebraic number contains no integer *)
Definition int_free (v : value) : Prop :=
  match v with
  | VAlg (RA p lo hi) => forall z, ~ (QofR lo < inject_Z z /\ inject_Z z < QofR hi)%Q
  | _ => True
  end.

Lemma LQ_le p q : (p <= q)%Q -> Lle L (LQ L p) (LQ L q).
Proof. unfold Lle. rewrite (Q_cmp L OK). apply Qle_alt. Qed.
Lemma LQ_lt p q : (p < q)%Q -> Llt L (LQ L p) (LQ L q).
Proof. unfold Llt. rewrite (Q_cmp L OK). apply Qlt_alt. Qed.
Lemma LQ_lt_inv p q : Llt L (LQ L p) (LQ L q) -> (p < q)%Q.
Proof. unfold Llt. rewrite (Q_cmp L OK). apply Qlt_alt. Qed.
Lemma LQ_eq_inv p q : LQ L p ~ LQ L q -> (p == q)%Q.
Proof. unfold Leq. rewrite (Q_cmp L OK). apply Qeq_alt. Qed.
Lemma Leq_le a b : a ~ b -> Lle L a b.
Proof. unfold Leq, Lle. intros ->. discriminate. Qed.
Lemma Llt_le a b : Llt L a b -> Lle L a b.
Proof. unfold Llt, Lle. intros ->. discriminate. Qed.
Lemma Llt_eq_r a b c : Llt L a b -> b ~ c -> Llt L a c.
Proof. unfold Llt. intros H1 H2. rewrite <- (Lcmp_eq_r a b c H2). exact H1. Qed.
Lemma Llt_eq_l a b c : a ~ b -> Llt L b c -> Llt L a c.
Proof. unfold Llt. intros H1 H2. rewrite (Lcmp_eq_l a b c H1). exact H2. Qed.
Lemma Lle_eq_r a b c : Lle L a b -> b ~ c -> Lle L a c.
Proof. unfold Lle. intros H1 H2. rewrite <- (Lcmp_eq_r a b c H2). exact H1. Qed.
Lemma Lle_eq_l a b c : a ~ b -> Lle L b c -> Lle L a c.
Proof. unfold Lle. intros H1 H2. rewrite (Lcmp_eq_l a b c H1). exact H2. Qed.
Lemma Llt_irrefl a : ~ Llt L a a.
Proof. unfold Llt. rewrite (O_refl L OK). discriminate. Qed.
Lemma Llt_not_le a b : Llt L a b -> ~ Lle L b a.
Proof. unfold Llt, Lle. intros H1 H2. apply H2. apply Lcmp_gt_lt. exact H1. Qed.

Definition is_floor (z : Z) (x : R) : Prop := Lle L (LQ L (inject_Z z)) x /\ Llt L x (LQ L (inject_Z (z + 1))).
Definition is_ceiling (z : Z) (x : R) : Prop := Llt L (LQ L (inject_Z (z - 1))) x /\ Lle L x (LQ L (inject_Z z)).

Lemma is_floor_unique z z' x x' : is_floor z x -> is_floor z' x' -> x ~ x' -> z = z'.
Proof.
  intros [A1 A2] [B1 B2] E.
  assert (H1 : z < z' + 1).
  { apply inject_lt_inv, LQ_lt_inv. eapply Lle_lt_trans; [exact A1|]. eapply Llt_eq_l; [exact E|exact B2]. }
  assert (H2 : z' < z + 1).
  { apply inject_lt_inv, LQ_lt_inv. eapply Lle_lt_trans; [exact B1|]. eapply Llt_eq_l; [apply Leq_sym; exact E|exact A2]. }
  lia.
Qed.
Lemma is_ceiling_unique z z' x x' : is_ceiling z x -> is_ceiling z' x' -> x ~ x' -> z = z'.
Proof.
  intros [A1 A2] [B1 B2] E.
  assert (H1 : z - 1 < z').
  { apply inject_lt_inv, LQ_lt_inv. eapply Llt_le_trans; [exact A1|]. eapply Lle_eq_l; [exact E|exact B2]. }
  assert (H2 : z' - 1 < z).
  { apply inject_lt_inv, LQ_lt_inv. eapply Llt_le_trans; [exact B1|]. eapply Lle_eq_l; [apply Leq_sym; exact E|exact A2]. }
  lia.
Qed.

Lemma is_floor_Q z q : (inject_Z z <= q /\ q < inject_Z (z + 1))%Q -> is_floor z (LQ L q).
Proof. intros [H1 H2]. split; [apply LQ_le|apply LQ_lt]; assumption. Qed.
Lemma is_ceiling_Q z q : (inject_Z (z - 1) < q /\ q <= inject_Z z)%Q -> is_ceiling z (LQ L q).
Proof. intros [H1 H2]. split; [apply LQ_lt|apply LQ_le]; assumption. Qed.
Lemma is_floor_eq z x y : x ~ y -> is_floor z x -> is_floor z y.
Proof. intros E [H1 H2]. split; [eapply Lle_eq_r; eassumption|eapply Llt_eq_l; [apply Leq_sym; exact E|exact H2]]. Qed.
Lemma is_ceiling_eq z x y : x ~ y -> is_ceiling z x -> is_ceiling z y.
Proof. intros E [H1 H2]. split; [eapply Llt_eq_r; eassumption|eapply Lle_eq_l; [apply Leq_sym; exact E|exact H2]]. Qed.

Lemma v_floor_spec v z : vok L v -> int_free v -> v_floor v = ROk z ->
  exists x, den L v = EFin x /\ is_floor z x.
Proof.
  intros Hv Hf H. destruct v as [a|d|q|x| |]; cbn [v_floor den vok] in *; try discriminate; injection H as <-;
    eexists; (split; [reflexivity|]).
  - apply is_floor_Q. rewrite <- Zle_Qle, <- Zlt_Qlt. lia.
  - apply is_floor_Q. apply dy_floor_spec.
  - apply is_floor_Q. apply (q_floor_spec _ Hv).
  - destruct x as [q|p lo hi]; cbn [va_floor].
    + pose proof (P_RQ_wf L OK _ Hv) as W. eapply is_floor_eq; [apply Leq_sym, (D_RQ L OK _ W)|].
      apply is_floor_Q. apply (q_floor_spec _ W).
    + destruct (P_RA L OK _ _ _ Hv) as (Wl & Wh & B1 & B2). destruct (q_floor_spec _ Wl) as [F1 F2]. split.
      * apply Llt_le. eapply Lle_lt_trans; [apply LQ_le; exact F1|exact B1].
      * cbn [int_free] in Hf. eapply Llt_le_trans; [exact B2|]. apply LQ_le.
        destruct (Qlt_le_dec (inject_Z (q_floor lo + 1)) (QofR hi)) as [C|C]; [|exact C].
        exfalso. apply (Hf (q_floor lo + 1)). split; assumption.
Qed.
Lemma v_ceiling_spec v z : vok L v -> int_free v -> v_ceiling v = ROk z ->
  exists x, den L v = EFin x /\ is_ceiling z x.
Proof.
  intros Hv Hf H. destruct v as [a|d|q|x| |]; cbn [v_ceiling den vok] in *; try discriminate; injection H as <-;
    eexists; (split; [reflexivity|]).
  - apply is_ceiling_Q. rewrite <- Zle_Qle, <- Zlt_Qlt. lia.
  - apply is_ceiling_Q. apply dy_ceiling_spec.
  - apply is_ceiling_Q. apply (q_ceiling_spec _ Hv).
  - destruct x as [q|p lo hi]; cbn [va_ceiling].
    + pose proof (P_RQ_wf L OK _ Hv) as W. eapply is_ceiling_eq; [apply Leq_sym, (D_RQ L OK _ W)|].
      apply is_ceiling_Q. apply (q_ceiling_spec _ W).
    + destruct (P_RA L OK _ _ _ Hv) as (Wl & Wh & B1 & B2). destruct (q_ceiling_spec _ Wh) as [F1 F2]. split.
      * cbn [int_free] in Hf. eapply Lle_lt_trans; [|exact B1]. apply LQ_le.
        destruct (Qlt_le_dec (QofR lo) (inject_Z (q_ceiling hi - 1))) as [C|C]; [|exact C].
        exfalso. apply (Hf (q_ceiling hi - 1)). split; assumption.
      * apply Llt_le. eapply Llt_le_trans; [exact B2|apply LQ_le; exact F2].
Qed.
Lemma v_floor_undef_iff v : v_floor v = RUndef <-> ~ fin v.
Proof. destruct v; cbn; split; intros H; try discriminate; try tauto; exfalso; apply H; exact I. Qed.

Lemma v_is_integer_spec v : vok L v -> int_free v ->
  (v_is_integer v = true <-> exists z, eeq L (den L v) (EFin (LQ L (inject_Z z)))).
Proof.
  intros Hv Hf. unfold eeq. destruct v as [a|d|q|x| |]; cbn [v_is_integer den vok ecmp] in *.
  - split; [intros _; exists a; apply Leq_refl|reflexivity].
  - rewrite (dy_is_integer_spec _ Hv). split; intros [z Hz]; exists z; [apply LQ_eq; exact Hz|apply LQ_eq_inv; exact Hz].
  - rewrite (q_is_integer_spec _ Hv). split; intros [z Hz]; exists z; [apply LQ_eq; exact Hz|apply LQ_eq_inv; exact Hz].
  - destruct x as [q|p lo hi]; cbn [va_is_integer].
    + pose proof (P_RQ_wf L OK _ Hv) as W. pose proof (D_RQ L OK _ W) as D. rewrite (q_is_integer_spec _ W).
      split; intros [z Hz]; exists z.
      * eapply Leq_trans; [exact D|apply LQ_eq; exact Hz].
      * apply LQ_eq_inv. eapply Leq_trans; [apply Leq_sym; exact D|exact Hz].
    + split; [discriminate|]. intros [z Hz]. exfalso.
      destruct (P_RA L OK _ _ _ Hv) as (Wl & Wh & B1 & B2). cbn [int_free] in Hf. apply (Hf z). split; apply LQ_lt_inv.
      * eapply Llt_eq_r; eassumption.
      * eapply Llt_eq_l; [apply Leq_sym; exact Hz|exact B2].
  - split; [discriminate|intros [z Hz]; discriminate].
  - split; [discriminate|intros [z Hz]; discriminate].
Qed.

Lemma q_canon'_wf n d : q_wf (q_canon' (n, d)).
Proof.
  destruct (Z.eq_dec d 0) as [->|Hd].
  - unfold q_canon', q_canon. cbn. apply q_wf_zero.
  - apply (q_canon'_spec n d Hd).
Qed.
Lemma va_lin_root_wf p : q_wf (va_lin_root p).
Proof. unfold va_lin_root. apply q_neg_spec. apply q_canon'_wf. Qed.

Lemma v_get_rational_spec v q : vok L v -> v_get_rational v = ROk q ->
  q_wf q /\ eeq L (den L v) (EFin (LQ L (QofR q))).
Proof.
  intros Hv H. unfold eeq. destruct v as [a|d|r|x| |]; cbn [v_get_rational den vok ecmp] in *; try discriminate.
  - injection H as <-. split; [apply q_wf_int|]. apply LQ_eq. symmetry. apply QofR_int.
  - injection H as <-. destruct (q_from_dyadic_spec d) as [W V]. split; [exact W|]. apply LQ_eq. symmetry. exact V.
  - injection H as <-. split; [exact Hv|apply Leq_refl].
  - destruct x as [r|p lo hi]; cbn [va_get_rational] in H.
    + injection H as <-. pose proof (P_RQ_wf L OK _ Hv) as W. split; [exact W|apply (D_RQ L OK _ W)].
    + destruct (Nat.eqb (pdeg p) 1) eqn:E; try discriminate. injection H as <-. apply Nat.eqb_eq in E.
      split; [apply va_lin_root_wf|apply (A_lin L OK _ _ _ Hv E)].
Qed.
Lemma v_is_rational_sound v : vok L v -> v_is_rational v = true ->
  exists q, v_get_rational v = ROk q /\ q_wf q /\ eeq L (den L v) (EFin (LQ L (QofR q))).
Proof.
  intros Hv H.
  assert (E : exists q, v_get_rational v = ROk q).
  { destruct v as [a|d|r|x| |]; cbn in *; try discriminate; try (eexists; reflexivity).
    destruct x as [r|p lo hi]; cbn in *; [eexists; reflexivity|]. rewrite H. eexists; reflexivity. }
  destruct E as [q E]. exists q. split; [exact E|]. apply (v_get_rational_spec _ _ Hv E).
Qed.

Lemma not_div2_odd a : Z.odd a = true -> ~ (2 | a).
Proof. intros Ho [k Hk]. subst a. rewrite Z.odd_mul in Ho. cbn in Ho. rewrite andb_false_r in Ho. discriminate. Qed.
Lemma gcd_odd_pow2 a n : Z.odd a = true -> Z.gcd a (pow2 n) = 1.
Proof.
  intros Ho. apply Znumtheory.Zgcd_1_rel_prime. unfold pow2.
  apply rel_prime_Zpower_r; [lia|]. apply Znumtheory.rel_prime_sym.
  apply Znumtheory.prime_rel_prime; [apply Znumtheory.prime_2|apply not_div2_odd; exact Ho].
Qed.
Lemma dy_num_den_wf d : dy_wf d -> q_wf (dy_get_num d, dy_get_den d).
Proof.
  intros W. unfold dy_get_num, dy_get_den. split; cbn [fst snd]; [apply pow2_pos|].
  destruct W as [[W1 W2]|[W|W]].
  - rewrite W1, W2. reflexivity.
  - apply gcd_odd_pow2. exact W.
  - rewrite W, pow2_0. apply Z.gcd_1_r.
Qed.

Lemma v_get_num_den_spec v n d : vok L v -> v_get_num v = ROk n -> v_get_den v = ROk d ->
  v_is_rational v = true /\ q_wf (n, d) /\ eeq L (den L v) (EFin (LQ L (QofR (n, d)))).
Proof.
  intros Hv Hn Hd. unfold v_get_num in Hn. unfold v_get_den in Hd.
  destruct (v_is_rational v) eqn:IR; cbn [negb] in *; try discriminate. split; [reflexivity|]. unfold eeq.
  destruct v as [a|dd|r|x| |]; cbn [den vok ecmp] in *; try discriminate.
  - injection Hn as <-. injection Hd as <-. split; [apply (q_wf_int a)|]. apply LQ_eq. symmetry. apply (QofR_int a).
  - injection Hn as <-. injection Hd as <-. split; [apply dy_num_den_wf; exact Hv|apply Leq_refl].
  - injection Hn as <-. injection Hd as <-. destruct r as [rn rd]. split; [exact Hv|apply Leq_refl].
  - destruct (va_get_rational x) as [[rn rd]| |] eqn:E; cbn in Hn, Hd; try discriminate.
    injection Hn as <-. injection Hd as <-.
    apply (v_get_rational_spec (VAlg x) (rn, rd) Hv E).
Qed.
Lemma v_get_num_defined v : v_is_rational v = true -> exists n d, v_get_num v = ROk n /\ v_get_den v = ROk d.
Proof.
  intros H. unfold v_get_num, v_get_den. rewrite H. cbn [negb].
  destruct v as [a|dd|r|x| |]; cbn in *; try discriminate; try (do 2 eexists; split; reflexivity).
  destruct x as [r|p lo hi]; cbn in *; [do 2 eexists; split; reflexivity|]. rewrite H. cbn. do 2 eexists; split; reflexivity.
Qed.

(* ---- all of these depend only on the number, not on the representation *)
Lemma floor_repr_indep u v a b : vok L u -> vok L v -> int_free u -> int_free v ->
  eeq L (den L u) (den L v) -> v_floor u = ROk a -> v_floor v = ROk b -> a = b.
Proof.
  intros Hu Hv Fu Fv E H1 H2.
  destruct (v_floor_spec _ _ Hu Fu H1) as (x & Ex & Fx). destruct (v_floor_spec _ _ Hv Fv H2) as (y & Ey & Fy).
  rewrite Ex, Ey in E. eapply is_floor_unique; eassumption.
Qed.
Lemma ceiling_repr_indep u v a b : vok L u -> vok L v -> int_free u -> int_free v ->
  eeq L (den L u) (den L v) -> v_ceiling u = ROk a -> v_ceiling v = ROk b -> a = b.
Proof.
  intros Hu Hv Fu Fv E H1 H2.
  destruct (v_ceiling_spec _ _ Hu Fu H1) as (x & Ex & Fx). destruct (v_ceiling_spec _ _ Hv Fv H2) as (y & Ey & Fy).
  rewrite Ex, Ey in E. eapply is_ceiling_unique; eassumption.
Qed.
Lemma is_integer_repr_indep u v : vok L u -> vok L v -> int_free u -> int_free v ->
  eeq L (den L u) (den L v) -> v_is_integer u = v_is_integer v.
Proof.
  intros Hu Hv Fu Fv E. apply eq_true_iff_eq.
  rewrite (v_is_integer_spec _ Hu Fu), (v_is_integer_spec _ Hv Fv).
  split; intros [z Hz]; exists z; [eapply eeq_trans; [apply eeq_sym; exact E|exact Hz]|eapply eeq_trans; eassumption].
Qed.
Lemma sgn_repr_indep u v : vok L u -> vok L v -> eeq L (den L u) (den L v) -> v_sgn u = v_sgn v.
Proof. intros Hu Hv E. rewrite (v_sgn_spec _ Hu), (v_sgn_spec _ Hv). f_equal. apply ecmp_eq_l. exact E. Qed.
Lemma num_den_repr_indep u v n d n' d' : vok L u -> vok L v -> eeq L (den L u) (den L v) ->
  v_get_num u = ROk n -> v_get_den u = ROk d -> v_get_num v = ROk n' -> v_get_den v = ROk d' -> n = n' /\ d = d'.
Proof.
  intros Hu Hv E H1 H2 H3 H4.
  destruct (v_get_num_den_spec _ _ _ Hu H1 H2) as (_ & W & D). destruct (v_get_num_den_spec _ _ _ Hv H3 H4) as (_ & W' & D').
  assert (Q : (QofR (n, d) == QofR (n', d'))%Q).
  { apply LQ_eq_inv. change (eeq L (EFin (LQ L (QofR (n, d)))) (EFin (LQ L (QofR (n', d'))))).
    eapply eeq_trans; [apply eeq_sym; exact D|]. eapply eeq_trans; [exact E|exact D']. }
  pose proof (q_wf_unique _ _ W W' Q) as U. injection U as -> ->. split; reflexivity.
Qed.
Lemma cmp_repr_indep fuel u u' v v' c c' : vok L u -> vok L u' -> vok L v -> vok L v' ->
  eeq L (den L u) (den L u') -> eeq L (den L v) (den L v') ->
  v_cmp fuel u v = ROk c -> v_cmp fuel u' v' = ROk c' -> Z.sgn c = Z.sgn c'.
Proof.
  intros Hu Hu' Hv Hv' E1 E2 H1 H2.
  rewrite (v_cmp_spec _ _ _ _ Hu Hv H1), (v_cmp_spec _ _ _ _ Hu' Hv' H2).
  rewrite (ecmp_eq_l _ _ _ E1), (ecmp_eq_r _ _ _ E2). reflexivity.
Qed.

(* ------------------------------------------------------------------ 5. picking a value between two bounds *)
Definition within (lo : ext R) (slo : bool) (x : ext R) (hi : ext R) (shi : bool) : Prop :=
  (if slo then ecmp L lo x = Lt else ecmp L lo x <> Gt) /\
  (if shi then ecmp L x hi = Lt else ecmp L x hi <> Gt).
Lemma within_eeq lo lo' slo x hi hi' shi : eeq L lo lo' -> eeq L hi hi' ->
  within lo slo x hi shi -> within lo' slo x hi' shi.
Proof.
  unfold within. intros E1 E2 [H1 H2].
  rewrite <- (ecmp_eq_l lo lo' x E1), <- (ecmp_eq_r x hi hi' E2). split; assumption.
Qed.

(* the exact rational value of a representation that has one syntactically *)
Definition ratval (v : value) : option rat :=
  match v with
  | VInt z => Some (q_from_integer z)
  | VDy d => Some (q_from_dyadic d)
  | VRat q => Some q
  | VAlg (RQ q) => Some q
  | _ => None
  end.
Lemma ratval_spec v q : vok L v -> ratval v = Some q -> q_wf q /\ den L v = EFin (match v with VAlg x => Lden L x | _ => LQ L (match v with VInt z => inject_Z z | VDy d => QofD d | _ => QofR q end) end) /\ exists x, den L v = EFin x /\ x ~ LQ L (QofR q).
Proof.
  intros Hv H. destruct v as [z|d|r|x| |]; cbn in H; try discriminate.
  - injection H as <-. split; [apply q_wf_int|]. split; [reflexivity|]. eexists. split; [reflexivity|].
    apply LQ_eq. symmetry. apply QofR_int.
  - injection H as <-. destruct (q_from_dyadic_spec d) as [W V]. split; [exact W|]. split; [reflexivity|].
    eexists. split; [reflexivity|]. apply LQ_eq. symmetry. exact V.
  - injection H as <-. split; [exact Hv|]. split; [reflexivity|]. eexists. split; [reflexivity|apply Leq_refl].
  - destruct x as [r|p lo hi]; try discriminate. injection H as <-. cbn [vok] in Hv.
    pose proof (P_RQ_wf L OK _ Hv) as W. split; [exact W|]. split; [reflexivity|]. eexists. split; [reflexivity|].
    apply (D_RQ L OK _ W).
Qed.

(* what the comparison at the top of lp_value_get_value_between leaves behind: isolating intervals that
   exclude the other operand *)
Definition sepd (u v : value) : Prop :=
  match u, v with
  | VAlg (RA _ lx hx), VAlg (RA _ ly hy) => q_le hx ly || q_le hy lx = true
  | VAlg (RA _ lx hx), _ => match ratval v with Some q => q_le q lx || q_le hx q = true | None => True end
  | _, VAlg (RA _ ly hy) => match ratval u with Some q => q_le q ly || q_le hy q = true | None => True end
  | _, _ => True
  end.

Lemma refine_away_spec fuel : forall x q x', LP L x -> rn_refine_away fuel x q = Some x' ->
  LP L x' /\ Lden L x' ~ Lden L x /\
  match x' with RA _ lo hi => q_le q lo || q_le hi q = true | RQ _ => True end.
Proof.
  induction fuel as [|f IH]; intros x q x' Hx H; cbn [rn_refine_away] in H; [discriminate|].
  destruct x as [r|p lo hi].
  - injection H as <-. split; [exact Hx|]. split; [apply Leq_refl|exact I].
  - destruct (q_le q lo || q_le hi q) eqn:E.
    + injection H as <-. split; [exact Hx|]. split; [apply Leq_refl|exact E].
    + destruct (A_refine L OK _ Hx) as [P1 D1]. destruct (IH _ _ _ P1 H) as (P2 & D2 & S2).
      split; [exact P2|]. split; [eapply Leq_trans; eassumption|exact S2].
Qed.

Lemma va_sep_spec fuel : forall x y x' y', LP L x -> LP L y -> va_sep fuel x y = Some (x', y') ->
  LP L x' /\ LP L y' /\ Lden L x' ~ Lden L x /\ Lden L y' ~ Lden L y /\ sepd (VAlg x') (VAlg y').
Proof.
  induction fuel as [|f IH]; intros x y x' y' Hx Hy H; cbn [va_sep] in H; [discriminate|].
  destruct x as [a|p lo hi].
  - destruct (rn_refine_away (S f) y a) as [y1|] eqn:E; cbn in H; try discriminate. injection H as <- <-.
    destruct (refine_away_spec _ _ _ _ Hy E) as (P2 & D2 & S2).
    repeat split; try assumption; try apply Leq_refl; try (destruct y1 as [b|p' lo' hi']; cbn; [exact I|exact S2]).
  - destruct y as [b|p' lo' hi'].
    + destruct (rn_refine_away (S f) (RA p lo hi) b) as [x1|] eqn:E; cbn in H; try discriminate. injection H as <- <-.
      destruct (refine_away_spec _ _ _ _ Hx E) as (P2 & D2 & S2).
      repeat split; try assumption; try apply Leq_refl; try (destruct x1 as [a|p1 lo1 hi1]; cbn; [exact I|exact S2]).
    + destruct (q_le hi lo' || q_le hi' lo) eqn:E.
      * injection H as <- <-. repeat split; try assumption; try apply Leq_refl.
      * destruct (A_refine L OK _ Hx) as [P1 D1]. destruct (A_refine L OK _ Hy) as [P2 D2].
        destruct (IH _ _ _ _ P1 P2 H) as (P3 & P4 & D3 & D4 & S).
        repeat split; try assumption; eapply Leq_trans; eassumption.
Qed.

Lemma v_cmp_sep_spec fuel a b c a1 b1 : vok L a -> vok L b -> v_cmp_sep fuel a b = ROk (c, a1, b1) ->
  Z.sgn c = cmp_to_Z (ecmp L (den L a) (den L b)) /\ vok L a1 /\ vok L b1 /\
  eeq L (den L a1) (den L a) /\ eeq L (den L b1) (den L b) /\ (c <> 0 -> sepd a1 b1).
Proof.
  intros Ha Hb H. unfold v_cmp_sep in H. destruct (v_cmp fuel a b) as [c0| |] eqn:EC; cbn [vr_bind] in H; try discriminate.
  pose proof (v_cmp_spec _ _ _ _ Ha Hb EC) as SC.
  destruct (c0 =? 0) eqn:E0.
  { injection H as <- <- <-. apply Z.eqb_eq in E0. repeat split; try assumption; try apply eeq_refl. intros C; contradiction. }
  assert (TRIV : forall a' b', ratval a' <> None \/ v_is_infinity a' = true -> ratval b' <> None \/ v_is_infinity b' = true -> sepd a' b').
  { intros a' b' [A|A] [B|B]; destruct a' as [?|?|?|[?|? ? ?]| |], b' as [?|?|?|[?|? ? ?]| |]; cbn in *; try exact I; try congruence; try discriminate. }
  destruct a as [za|da|qa|xa| |], b as [zb|db|qb|xb| |]; cbn [v_fin_rat] in H; cbn [vok] in Ha, Hb;
    try (injection H as <- <- <-; split; [exact SC|]; split; [exact Ha|]; split; [exact Hb|];
         split; [apply eeq_refl|]; split; [apply eeq_refl|]; intros _; cbn; exact I).
  all: try (injection H as <- <- <-; split; [exact SC|]; split; [exact Ha|]; split; [exact Hb|];
         split; [apply eeq_refl|]; split; [apply eeq_refl|]; intros _;
         match goal with
         | |- sepd (VAlg ?x) _ => destruct x as [?|? ? ?]; cbn; exact I
         | |- sepd _ (VAlg ?x) => destruct x as [?|? ? ?]; cbn; exact I
         end).
  all: try (match type of H with context [rn_refine_away ?f ?x ?q] =>
         destruct (rn_refine_away f x q) as [x1|] eqn:ER; cbn in H; try discriminate; injection H as <- <- <-;
         first [ destruct (refine_away_spec _ _ _ _ Ha ER) as (P2 & D2 & S2);
                 split; [exact SC|]; split; [exact P2|]; split; [exact Hb|]; split; [exact D2|]; split; [apply eeq_refl|]
               | destruct (refine_away_spec _ _ _ _ Hb ER) as (P2 & D2 & S2);
                 split; [exact SC|]; split; [exact Ha|]; split; [exact P2|]; split; [apply eeq_refl|]; split; [exact D2|] ];
         intros _; destruct x1 as [r1|p1 l1 h1]; cbn; try exact I; exact S2 end).
  (* alg, alg *)
    destruct (va_sep fuel xa xb) as [[x1 y1]|] eqn:ES; cbn in H; try discriminate. injection H as <- <- <-.
    destruct (va_sep_spec _ _ _ _ _ Ha Hb ES) as (P1 & P2 & D1 & D2 & S).
    split; [exact SC|]. split; [exact P1|]. split; [exact P2|]. split; [exact D1|]. split; [exact D2|]. intros _. exact S.
Qed.

(* hulls *)
Lemma v_hull_upper_spec v s q s' : vok L v -> v_hull_upper v s = ROk (q, s') ->
  q_wf q /\ exists x, den L v = EFin x /\
    ((x ~ LQ L (QofR q) /\ s' = s) \/ (exists p l, v = VAlg (RA p l q) /\ s' = false)).
Proof.
  intros Hv H. destruct v as [z|d|r|x| |]; cbn [v_hull_upper] in H; try discriminate.
  - injection H as <- <-. split; [apply q_wf_int|]. eexists. split; [reflexivity|]. left. split; [|reflexivity].
    apply LQ_eq. symmetry. apply QofR_int.
  - injection H as <- <-. destruct (q_from_dyadic_spec d) as [W V]. split; [exact W|]. eexists. split; [reflexivity|].
    left. split; [|reflexivity]. apply LQ_eq. symmetry. exact V.
  - injection H as <- <-. split; [exact Hv|]. eexists. split; [reflexivity|]. left. split; [apply Leq_refl|reflexivity].
  - destruct (va_is_rational x) eqn:IR.
    + destruct (va_get_rational x) as [q0| |] eqn:E; cbn in H; try discriminate. injection H as <- <-.
      destruct (v_get_rational_spec (VAlg x) q0 Hv E) as [W D]. split; [exact W|]. eexists. split; [reflexivity|].
      left. split; [exact D|reflexivity].
    + injection H as <- <-. destruct x as [r|p l h]; [discriminate IR|]. cbn [rn_hi]. cbn [vok] in Hv.
      destruct (P_RA L OK _ _ _ Hv) as (Wl & Wh & _). split; [exact Wh|]. eexists. split; [reflexivity|].
      right. exists p, l. split; reflexivity.
Qed.
Lemma v_hull_lower_spec v s q s' : vok L v -> v_hull_lower v s = ROk (q, s') ->
  q_wf q /\ exists x, den L v = EFin x /\
    ((x ~ LQ L (QofR q) /\ s' = s) \/ (exists p h, v = VAlg (RA p q h) /\ s' = false)).
Proof.
  intros Hv H. destruct v as [z|d|r|x| |]; cbn [v_hull_lower] in H; try discriminate.
  - injection H as <- <-. split; [apply q_wf_int|]. eexists. split; [reflexivity|]. left. split; [|reflexivity].
    apply LQ_eq. symmetry. apply QofR_int.
  - injection H as <- <-. destruct (q_from_dyadic_spec d) as [W V]. split; [exact W|]. eexists. split; [reflexivity|].
    left. split; [|reflexivity]. apply LQ_eq. symmetry. exact V.
  - injection H as <- <-. split; [exact Hv|]. eexists. split; [reflexivity|]. left. split; [apply Leq_refl|reflexivity].
  - destruct (va_is_rational x) eqn:IR.
    + destruct (va_get_rational x) as [q0| |] eqn:E; cbn in H; try discriminate. injection H as <- <-.
      destruct (v_get_rational_spec (VAlg x) q0 Hv E) as [W D]. split; [exact W|]. eexists. split; [reflexivity|].
      left. split; [exact D|reflexivity].
    + injection H as <- <-. destruct x as [r|p l h]; [discriminate IR|]. cbn [rn_lo]. cbn [vok] in Hv.
      destruct (P_RA L OK _ _ _ Hv) as (Wl & Wh & _). split; [exact Wl|]. eexists. split; [reflexivity|].
      right. exists p, h. split; reflexivity.
Qed.

Lemma Llt_asym a b : Llt L a b -> Llt L b a -> False.
Proof. intros H1 H2. apply (Llt_irrefl a). eapply Llt_trans; eassumption. Qed.

(* the separated bound below an isolating interval *)
Lemma sep_below lo p ly hy xl : vok L lo -> vok L (VAlg (RA p ly hy)) -> den L lo = EFin xl ->
  Llt L xl (Lden L (RA p ly hy)) -> sepd lo (VAlg (RA p ly hy)) -> Lle L xl (LQ L (QofR ly)).
Proof.
  intros Hlo Hhi El Lt S. cbn [vok] in Hhi. destruct (P_RA L OK _ _ _ Hhi) as (Wl & Wh & B1 & B2).
  assert (CONTRA : forall q, q_wf q -> Lle L (LQ L (QofR q)) xl -> q_le hy q = true -> False).
  { intros q Wq Hq C. apply (q_le_spec _ _ Wh Wq) in C. apply LQ_le in C.
    apply (Llt_irrefl xl). eapply Llt_le_trans; [exact Lt|]. eapply Lle_trans; [apply Llt_le; exact B2|].
    eapply Lle_trans; [exact C|exact Hq]. }
  destruct lo as [z|d|r|x| |]; try discriminate El.
  1-3: (cbn [sepd] in S; match type of S with match ?rv with _ => _ end => destruct rv as [q|] eqn:ER end;
        [|discriminate ER];
        destruct (ratval_spec _ _ Hlo ER) as (Wq & _ & x0 & Ex & Dx); rewrite El in Ex; injection Ex as <-;
        apply orb_true_iff in S; destruct S as [S|S];
        [apply (q_le_spec _ _ Wq Wl) in S; eapply Lle_eq_l; [exact Dx|apply LQ_le; exact S]
        |exfalso; apply (CONTRA q Wq); [eapply Lle_eq_r; [apply Leq_le, Leq_refl|apply Leq_sym; exact Dx]|exact S]]).
  destruct x as [r|p' lx hx].
  - cbn [sepd ratval] in S. cbn [vok] in Hlo. pose proof (P_RQ_wf L OK _ Hlo) as Wq. pose proof (D_RQ L OK _ Wq) as Dx.
    cbn [den] in El. injection El as <-.
    apply orb_true_iff in S. destruct S as [S|S].
    + apply (q_le_spec _ _ Wq Wl) in S. eapply Lle_eq_l; [exact Dx|apply LQ_le; exact S].
    + exfalso. apply (CONTRA r Wq); [apply Leq_le, Leq_sym; exact Dx|exact S].
  - cbn [sepd] in S. cbn [vok] in Hlo. destruct (P_RA L OK _ _ _ Hlo) as (Wlx & Whx & C1 & C2).
    cbn [den] in El. injection El as <-.
    apply orb_true_iff in S. destruct S as [S|S].
    + apply (q_le_spec _ _ Whx Wl) in S. eapply Lle_trans; [apply Llt_le; exact C2|apply LQ_le; exact S].
    + exfalso. apply (CONTRA lx Wlx); [apply Llt_le; exact C1|exact S].
Qed.
Lemma sep_above hi p lx hx xh : vok L hi -> vok L (VAlg (RA p lx hx)) -> den L hi = EFin xh ->
  Llt L (Lden L (RA p lx hx)) xh -> sepd (VAlg (RA p lx hx)) hi -> Lle L (LQ L (QofR hx)) xh.
Proof.
  intros Hhi Hlo Eh Lt S. cbn [vok] in Hlo. destruct (P_RA L OK _ _ _ Hlo) as (Wl & Wh & B1 & B2).
  assert (CONTRA : forall q, q_wf q -> Lle L xh (LQ L (QofR q)) -> q_le q lx = true -> False).
  { intros q Wq Hq C. apply (q_le_spec _ _ Wq Wl) in C. apply LQ_le in C.
    apply (Llt_irrefl xh). eapply Lle_lt_trans; [exact Hq|]. eapply Lle_lt_trans; [exact C|].
    eapply Llt_trans; [exact B1|exact Lt]. }
  destruct hi as [z|d|r|x| |]; try discriminate Eh.
  1-3: (cbn [sepd] in S; match type of S with match ?rv with _ => _ end => destruct rv as [q|] eqn:ER end;
        [|discriminate ER];
        destruct (ratval_spec _ _ Hhi ER) as (Wq & _ & x0 & Ex & Dx); rewrite Eh in Ex; injection Ex as <-;
        apply orb_true_iff in S; destruct S as [S|S];
        [exfalso; apply (CONTRA q Wq); [apply Leq_le; exact Dx|exact S]
        |apply (q_le_spec _ _ Wh Wq) in S; eapply Lle_eq_r; [apply LQ_le; exact S|apply Leq_sym; exact Dx]]).
  destruct x as [r|p' ly hy].
  - cbn [sepd ratval] in S. cbn [vok] in Hhi. pose proof (P_RQ_wf L OK _ Hhi) as Wq. pose proof (D_RQ L OK _ Wq) as Dx.
    cbn [den] in Eh. injection Eh as <-.
    apply orb_true_iff in S. destruct S as [S|S].
    + exfalso. apply (CONTRA r Wq); [apply Leq_le; exact Dx|exact S].
    + apply (q_le_spec _ _ Wh Wq) in S. eapply Lle_eq_r; [apply LQ_le; exact S|apply Leq_sym; exact Dx].
  - cbn [sepd] in S. cbn [vok] in Hhi. destruct (P_RA L OK _ _ _ Hhi) as (Wly & Why & C1 & C2).
    cbn [den] in Eh. injection Eh as <-.
    apply orb_true_iff in S. destruct S as [S|S].
    + apply (q_le_spec _ _ Wh Wly) in S. eapply Lle_trans; [apply LQ_le; exact S|apply Llt_le; exact C1].
    + exfalso. apply (CONTRA hy Why); [apply Llt_le; exact C2|exact S].
Qed.

(* the two hull ends are ordered once the bounds are separated *)
Lemma hull_order lo slo hi shi qa sa' qb sb' xl xh :
  vok L lo -> vok L hi -> den L lo = EFin xl -> den L hi = EFin xh -> Llt L xl xh -> sepd lo hi ->
  v_hull_upper lo slo = ROk (qa, sa') -> v_hull_lower hi shi = ROk (qb, sb') ->
  (QofR qa <= QofR qb)%Q.
Proof.
  intros Hlo Hhi El Eh Lt S HU HL.
  destruct (v_hull_upper_spec _ _ _ _ Hlo HU) as (Wa & x1 & E1 & CA).
  destruct (v_hull_lower_spec _ _ _ _ Hhi HL) as (Wb & x2 & E2 & CB).
  rewrite El in E1. injection E1 as <-. rewrite Eh in E2. injection E2 as <-.
  apply Qle_alt. rewrite <- (Q_cmp L OK). change (Lle L (LQ L (QofR qa)) (LQ L (QofR qb))).
  destruct CA as [[DA _]|(pa & la & -> & _)]; destruct CB as [[DB _]|(pb & hb & -> & _)].
  - apply Llt_le. eapply Llt_eq_l; [apply Leq_sym; exact DA|]. eapply Llt_eq_r; [exact Lt|exact DB].
  - eapply Lle_eq_l; [apply Leq_sym; exact DA|]. cbn [den] in Eh. injection Eh as <-.
    exact (sep_below lo pb qb hb xl Hlo Hhi El Lt S).
  - eapply Lle_eq_r; [|exact DB]. cbn [den] in El. injection El as <-.
    exact (sep_above hi pa la qa xh Hhi Hlo Eh Lt S).
  - cbn [den] in El, Eh. injection El as <-. injection Eh as <-. cbn [vok] in Hlo, Hhi.
    destruct (P_RA L OK _ _ _ Hlo) as (Wl1 & Wh1 & A1 & A2). destruct (P_RA L OK _ _ _ Hhi) as (Wl2 & Wh2 & B1 & B2).
    cbn [sepd] in S. apply orb_true_iff in S. destruct S as [S|S].
    + apply LQ_le. apply (q_le_spec _ _ Wa Wb). exact S.
    + exfalso. apply (q_le_spec _ _ Wh2 Wl1) in S. apply LQ_le in S.
      apply (Llt_irrefl (Lden L (RA pa la qa))). eapply Llt_trans; [exact Lt|].
      eapply Llt_le_trans; [exact B2|]. eapply Lle_trans; [exact S|apply Llt_le; exact A1].
Qed.

(* from a hull end to the bound itself *)
Lemma lower_ok lo slo qa sa' xl r : vok L lo -> den L lo = EFin xl -> v_hull_upper lo slo = ROk (qa, sa') ->
  bnd_lo sa' (QofR qa) r ->
  if slo then Llt L xl (LQ L r) else Lle L xl (LQ L r).
Proof.
  intros Hlo El HU B. destruct (v_hull_upper_spec _ _ _ _ Hlo HU) as (Wa & x1 & E1 & CA).
  rewrite El in E1. injection E1 as <-.
  destruct CA as [[DA ->]|(pa & la & -> & ->)].
  - destruct slo; cbn [bnd_lo] in B.
    + eapply Llt_eq_l; [exact DA|apply LQ_lt; exact B].
    + eapply Lle_eq_l; [exact DA|apply LQ_le; exact B].
  - cbn [bnd_lo] in B. cbn [den] in El. injection El as <-. cbn [vok] in Hlo.
    destruct (P_RA L OK _ _ _ Hlo) as (_ & _ & _ & A2).
    assert (S : Llt L (Lden L (RA pa la qa)) (LQ L r)) by (eapply Llt_le_trans; [exact A2|apply LQ_le; exact B]).
    destruct slo; [exact S|apply Llt_le; exact S].
Qed.
Lemma upper_ok hi shi qb sb' xh r : vok L hi -> den L hi = EFin xh -> v_hull_lower hi shi = ROk (qb, sb') ->
  bnd_hi sb' r (QofR qb) ->
  if shi then Llt L (LQ L r) xh else Lle L (LQ L r) xh.
Proof.
  intros Hhi Eh HL B. destruct (v_hull_lower_spec _ _ _ _ Hhi HL) as (Wb & x1 & E1 & CB).
  rewrite Eh in E1. injection E1 as <-.
  destruct CB as [[DB ->]|(pb & hb & -> & ->)].
  - destruct shi; cbn [bnd_hi] in B.
    + eapply Llt_eq_r; [apply LQ_lt; exact B|apply Leq_sym; exact DB].
    + eapply Lle_eq_r; [apply LQ_le; exact B|apply Leq_sym; exact DB].
  - cbn [bnd_hi] in B. cbn [den] in Eh. injection Eh as <-. cbn [vok] in Hhi.
    destruct (P_RA L OK _ _ _ Hhi) as (_ & _ & B1 & _).
    assert (S : Llt L (LQ L r) (Lden L (RA pb qb hb))) by (eapply Lle_lt_trans; [apply LQ_le; exact B|exact B1]).
    destruct shi; [exact S|apply Llt_le; exact S].
Qed.

Lemma v_refine_bound_spec v : vok L v -> vok L (v_refine_bound v) /\ eeq L (den L (v_refine_bound v)) (den L v).
Proof.
  intros Hv. destruct v as [z|d|q|x| |]; cbn [v_refine_bound]; try (split; [exact Hv|apply eeq_refl]).
  destruct (v_is_rational (VAlg x)); [split; [exact Hv|apply eeq_refl]|].
  cbn [vok den] in *. apply (A_refine L OK _ Hv).
Qed.

Definition between_core (rec : value -> bool -> value -> bool -> vres value) (fuel : nat)
  (lo : value) (slo : bool) (hi : value) (shi : bool) : vres value :=
  match lo, hi with
  | VMinf, VPinf => ROk (VInt 0)
  | VMinf, _ => vr_bind (v_hull_lower hi shi) (fun h => ROk (VInt (int_dec None (q_floor (fst h)))))
  | _, VPinf => vr_bind (v_hull_upper lo slo) (fun h => ROk (VInt (int_inc None (q_ceiling (fst h)))))
  | _, _ =>
    vr_bind (v_hull_upper lo slo) (fun ha =>
    vr_bind (v_hull_lower hi shi) (fun hb =>
      if q_cmp (fst ha) (fst hb) =? 0 then rec (v_refine_bound lo) slo (v_refine_bound hi) shi
      else vr_map VRat (r_of_opt (v_pick fuel (fst ha) (snd ha) (fst hb) (snd hb)))))
  end.
Lemma between_rec_S k fuel a sa b sb :
  v_between_rec (S k) fuel a sa b sb =
  vr_bind (v_cmp_sep fuel a b) (fun r =>
    let '(c, a1, b1) := r in
    if c =? 0 then (if sa || sb then RUndef else ROk a)
    else let '(lo, slo, hi, shi) := if 0 <? c then (b1, sb, a1, sa) else (a1, sa, b1, sb) in
         between_core (v_between_rec k fuel) fuel lo slo hi shi).
Proof. reflexivity. Qed.

Definition rec_ok (rec : value -> bool -> value -> bool -> vres value) : Prop :=
  forall lo slo hi shi v, vok L lo -> vok L hi -> ecmp L (den L lo) (den L hi) = Lt ->
    rec lo slo hi shi = ROk v -> vok L v /\ within (den L lo) slo (den L v) (den L hi) shi.

Lemma within_fin (xl : R) (slo : bool) (r : Q) (xh : R) (shi : bool) :
  (if slo then Llt L xl (LQ L r) else Lle L xl (LQ L r)) ->
  (if shi then Llt L (LQ L r) xh else Lle L (LQ L r) xh) ->
  within (EFin xl) slo (EFin (LQ L r)) (EFin xh) shi.
Proof. intros H1 H2. split; [destruct slo|destruct shi]; assumption. Qed.

Lemma between_core_spec rec fuel lo slo hi shi v : rec_ok rec ->
  vok L lo -> vok L hi -> ecmp L (den L lo) (den L hi) = Lt -> sepd lo hi ->
  between_core rec fuel lo slo hi shi = ROk v ->
  vok L v /\ within (den L lo) slo (den L v) (den L hi) shi.
Proof.
  intros REC Hlo Hhi LT S H.
  (* the generic (finite, finite) case *)
  assert (FF : forall xl xh, den L lo = EFin xl -> den L hi = EFin xh ->
     vr_bind (v_hull_upper lo slo) (fun ha => vr_bind (v_hull_lower hi shi) (fun hb =>
       if q_cmp (fst ha) (fst hb) =? 0 then rec (v_refine_bound lo) slo (v_refine_bound hi) shi
       else vr_map VRat (r_of_opt (v_pick fuel (fst ha) (snd ha) (fst hb) (snd hb))))) = ROk v ->
     vok L v /\ within (den L lo) slo (den L v) (den L hi) shi).
  { intros xl xh El Eh H0.
    destruct (v_hull_upper lo slo) as [[qa sa']| |] eqn:HU; cbn [vr_bind] in H0; try discriminate.
    destruct (v_hull_lower hi shi) as [[qb sb']| |] eqn:HL; cbn [vr_bind fst snd] in H0; try discriminate.
    destruct (v_hull_upper_spec _ _ _ _ Hlo HU) as (Wa & _). destruct (v_hull_lower_spec _ _ _ _ Hhi HL) as (Wb & _).
    assert (LT' : Llt L xl xh) by (rewrite El, Eh in LT; exact LT).
    pose proof (hull_order _ _ _ _ _ _ _ _ _ _ Hlo Hhi El Eh LT' S HU HL) as ORD.
    destruct (q_cmp qa qb =? 0) eqn:EQ.
    - destruct (v_refine_bound_spec lo Hlo) as [Hlo' Dlo]. destruct (v_refine_bound_spec hi Hhi) as [Hhi' Dhi].
      assert (LT2 : ecmp L (den L (v_refine_bound lo)) (den L (v_refine_bound hi)) = Lt).
      { rewrite (ecmp_eq_l _ _ _ Dlo), (ecmp_eq_r _ _ _ Dhi). exact LT. }
      destruct (REC _ _ _ _ _ Hlo' Hhi' LT2 H0) as [Hv W]. split; [exact Hv|].
      eapply within_eeq; eassumption.
    - apply Z.eqb_neq in EQ. assert (LTq : (QofR qa < QofR qb)%Q).
      { apply Qle_lt_or_eq in ORD. destruct ORD as [O|O]; [exact O|]. exfalso. apply EQ. apply (q_cmp_eq0 _ _ Wa Wb). exact O. }
      destruct (v_pick fuel qa sa' qb sb') as [r|] eqn:EP; cbn in H0; try discriminate. injection H0 as <-.
      destruct (v_pick_sound _ _ _ _ _ _ Wa Wb LTq EP) as (Wr & B1 & B2).
      split; [exact Wr|]. rewrite El, Eh. cbn [den]. apply within_fin.
      + exact (lower_ok lo slo qa sa' xl (QofR r) Hlo El HU B1).
      + exact (upper_ok hi shi qb sb' xh (QofR r) Hhi Eh HL B2). }
  assert (MINF : forall xh, lo = VMinf -> den L hi = EFin xh ->
     vr_bind (v_hull_lower hi shi) (fun h => ROk (VInt (int_dec None (q_floor (fst h))))) = ROk v ->
     vok L v /\ within (den L lo) slo (den L v) (den L hi) shi).
  { intros xh -> Eh H0.
    destruct (v_hull_lower hi shi) as [[qb sb']| |] eqn:HL; cbn [vr_bind fst] in H0; try discriminate. injection H0 as <-.
    split; [exact I|]. destruct (v_hull_lower_spec _ _ _ _ Hhi HL) as (Wb & _).
    destruct (q_floor_spec _ Wb) as [F1 F2]. unfold int_dec. cbn [ring_norm]. rewrite Eh. cbn [den].
    assert (B : bnd_hi sb' (inject_Z (q_floor qb - 1)) (QofR qb)).
    { assert (inject_Z (q_floor qb - 1) < inject_Z (q_floor qb))%Q by (rewrite <- Zlt_Qlt; lia).
      destruct sb'; cbn; lra. }
    pose proof (upper_ok _ _ _ _ _ _ Hhi Eh HL B) as U.
    split; [destruct slo; cbn; [reflexivity|discriminate]|destruct shi; exact U]. }
  assert (PINF : forall xl, hi = VPinf -> den L lo = EFin xl ->
     vr_bind (v_hull_upper lo slo) (fun h => ROk (VInt (int_inc None (q_ceiling (fst h))))) = ROk v ->
     vok L v /\ within (den L lo) slo (den L v) (den L hi) shi).
  { intros xl -> El H0.
    destruct (v_hull_upper lo slo) as [[qa sa']| |] eqn:HU; cbn [vr_bind fst] in H0; try discriminate. injection H0 as <-.
    split; [exact I|]. destruct (v_hull_upper_spec _ _ _ _ Hlo HU) as (Wa & _).
    destruct (q_ceiling_spec _ Wa) as [F1 F2]. unfold int_inc. cbn [ring_norm]. rewrite El. cbn [den].
    assert (B : bnd_lo sa' (QofR qa) (inject_Z (q_ceiling qa + 1))).
    { assert (inject_Z (q_ceiling qa) < inject_Z (q_ceiling qa + 1))%Q by (rewrite <- Zlt_Qlt; lia).
      destruct sa'; cbn; lra. }
    pose proof (lower_ok _ _ _ _ _ _ Hlo El HU B) as U.
    split; [destruct slo; exact U|destruct shi; cbn; [reflexivity|discriminate]]. }
  destruct lo as [zl|dl|ql|xl| |], hi as [zh|dh|qh|xh| |]; cbn [between_core] in H; cbn [den ecmp] in LT; try discriminate LT;
    try (eapply FF; [reflexivity|reflexivity|exact H]);
    try (eapply MINF; [reflexivity|reflexivity|exact H]);
    try (eapply PINF; [reflexivity|reflexivity|exact H]).
  (* -inf, +inf *)
  injection H as <-. split; [exact I|]. split; [destruct slo; cbn; [reflexivity|discriminate]|destruct shi; cbn; [reflexivity|discriminate]].
Qed.

Lemma between_rec_ok fuel k : rec_ok (v_between_rec k fuel).
Proof.
  induction k as [|k IH]; intros lo slo hi shi v Hlo Hhi LT H; [discriminate H|].
  rewrite between_rec_S in H.
  destruct (v_cmp_sep fuel lo hi) as [[[c a1] b1]| |] eqn:ES; cbn [vr_bind] in H; try discriminate.
  destruct (v_cmp_sep_spec _ _ _ _ _ _ Hlo Hhi ES) as (SC & Ha1 & Hb1 & Da & Db & SEP).
  rewrite LT in SC. cbn in SC.
  assert (Cneg : c < 0) by (destruct c; cbn in SC; lia).
  replace (c =? 0) with false in H by (symmetry; apply Z.eqb_neq; lia).
  replace (0 <? c) with false in H by (symmetry; apply Z.ltb_ge; lia).
  assert (LT1 : ecmp L (den L a1) (den L b1) = Lt).
  { rewrite (ecmp_eq_l _ _ _ Da), (ecmp_eq_r _ _ _ Db). exact LT. }
  destruct (between_core_spec _ _ _ _ _ _ _ IH Ha1 Hb1 LT1 (SEP ltac:(lia)) H) as [Hv W].
  split; [exact Hv|]. eapply within_eeq; eassumption.
Qed.

(* the theorem: the picked value lies between the bounds, respecting the strictness of each; equal bounds
   are only supported when both are non-strict *)
Lemma v_between_spec fuel a sa b sb v : vok L a -> vok L b -> v_between fuel a sa b sb = ROk v ->
  vok L v /\
  match ecmp L (den L a) (den L b) with
  | Gt => within (den L b) sb (den L v) (den L a) sa
  | _ => within (den L a) sa (den L v) (den L b) sb
  end.
Proof.
  intros Ha Hb H. unfold v_between in H. destruct fuel as [|k]; [discriminate H|].
  rewrite between_rec_S in H.
  destruct (v_cmp_sep (S k) a b) as [[[c a1] b1]| |] eqn:ES; cbn [vr_bind] in H; try discriminate.
  destruct (v_cmp_sep_spec _ _ _ _ _ _ Ha Hb ES) as (SC & Ha1 & Hb1 & Da & Db & SEP).
  destruct (c =? 0) eqn:E0.
  - apply Z.eqb_eq in E0. subst c. cbn in SC. symmetry in SC. apply cmp_to_Z_eq0 in SC.
    destruct (sa || sb) eqn:ST; try discriminate. injection H as <-. apply orb_false_iff in ST. destruct ST as [-> ->].
    split; [exact Ha|]. rewrite SC. split; cbn.
    + rewrite ecmp_refl. discriminate.
    + rewrite SC. discriminate.
  - apply Z.eqb_neq in E0. destruct (0 <? c) eqn:EP.
    + apply Z.ltb_lt in EP. assert (GT : ecmp L (den L a) (den L b) = Gt).
      { destruct (ecmp L (den L a) (den L b)); cbn in SC; try reflexivity; destruct c; cbn in SC; lia. }
      rewrite GT. assert (LT1 : ecmp L (den L b1) (den L a1) = Lt).
      { rewrite (ecmp_eq_l _ _ _ Db), (ecmp_eq_r _ _ _ Da), (ecmp_opp (den L a) (den L b)), GT. reflexivity. }
      assert (S' : sepd b1 a1).
      { specialize (SEP E0). clear - SEP. destruct a1 as [?|?|?|[?|? ? ?]| |], b1 as [?|?|?|[?|? ? ?]| |]; cbn in *; try exact I; try exact SEP.
        rewrite orb_comm. exact SEP. }
      destruct (between_core_spec _ _ _ _ _ _ _ (between_rec_ok (S k) k) Hb1 Ha1 LT1 S' H) as [Hv W].
      split; [exact Hv|]. eapply within_eeq; eassumption.
    + apply Z.ltb_ge in EP. assert (LT : ecmp L (den L a) (den L b) = Lt).
      { destruct (ecmp L (den L a) (den L b)); cbn in SC; try reflexivity; destruct c; cbn in SC; lia. }
      rewrite LT. assert (LT1 : ecmp L (den L a1) (den L b1) = Lt).
      { rewrite (ecmp_eq_l _ _ _ Da), (ecmp_eq_r _ _ _ Db). exact LT. }
      destruct (between_core_spec _ _ _ _ _ _ _ (between_rec_ok (S k) k) Ha1 Hb1 LT1 (SEP E0) H) as [Hv W].
      split; [exact Hv|]. eapply within_eeq; eassumption.
Qed.
Lemma v_between_undef_equal fuel a sa b sb : vok L a -> vok L b -> eeq L (den L a) (den L b) ->
  v_between fuel a sa b sb = RUndef -> sa || sb = true.
Proof.
  intros Ha Hb E H. unfold v_between in H. destruct fuel as [|k]; [discriminate H|].
  rewrite between_rec_S in H.
  destruct (v_cmp_sep (S k) a b) as [[[c a1] b1]| |] eqn:ES; cbn [vr_bind] in H.
  - destruct (v_cmp_sep_spec _ _ _ _ _ _ Ha Hb ES) as (SC & _). unfold eeq in E. rewrite E in SC. cbn in SC.
    destruct c; cbn in SC; try discriminate SC. cbn in H. destruct (sa || sb); [reflexivity|discriminate].
  - exfalso. unfold v_cmp_sep in ES. destruct (v_cmp (S k) a b) as [c| |] eqn:EC; cbn in ES.
    + destruct (c =? 0); [discriminate|].
      destruct a as [?|?|?|xa| |], b as [?|?|?|xb| |]; cbn in ES; try discriminate;
        repeat match type of ES with context [r_of_opt ?o] => destruct o; cbn in ES; try discriminate end.
    + exact (v_cmp_defined _ _ _ EC).
    + discriminate.
  - discriminate.
Qed.

(* "prefers integers" for the whole function, PARTIAL: bounds whose hulls are exact (every non-algebraic kind,
   algebraic points, degree-1 algebraic numbers, infinities) *)
Definition ratlike (v : value) : Prop := v_is_rational v = true \/ v_is_infinity v = true.

Lemma rn_refine_rational x : va_is_rational x = true -> va_is_rational (rn_refine x) = true.
Proof.
  destruct x as [q|p lo hi]; cbn [rn_refine va_is_rational]; [trivial|]. intros H.
  destruct (psgn_q p (q_mid lo hi) =? 0); [reflexivity|]. destruct (_ <? 0); exact H.
Qed.
Lemma refine_away_rational fuel : forall x q x', rn_refine_away fuel x q = Some x' ->
  va_is_rational x = true -> va_is_rational x' = true.
Proof.
  induction fuel as [|f IH]; intros x q x' H R; cbn [rn_refine_away] in H; [discriminate|].
  destruct x as [r|p lo hi]; [injection H as <-; exact R|].
  destruct (q_le q lo || q_le hi q); [injection H as <-; exact R|].
  eapply IH; [exact H|]. apply rn_refine_rational. exact R.
Qed.
Lemma va_sep_rational fuel : forall x y x' y', va_sep fuel x y = Some (x', y') ->
  (va_is_rational x = true -> va_is_rational x' = true) /\ (va_is_rational y = true -> va_is_rational y' = true).
Proof.
  induction fuel as [|f IH]; intros x y x' y' H; cbn [va_sep] in H; [discriminate|].
  destruct x as [a|p lo hi].
  - destruct (rn_refine_away (S f) y a) as [y1|] eqn:E; cbn in H; try discriminate. injection H as <- <-.
    split; [trivial|]. apply (refine_away_rational _ _ _ _ E).
  - destruct y as [b|p' lo' hi'].
    + destruct (rn_refine_away (S f) (RA p lo hi) b) as [x1|] eqn:E; cbn in H; try discriminate. injection H as <- <-.
      split; [|trivial]. apply (refine_away_rational _ _ _ _ E).
    + destruct (q_le hi lo' || q_le hi' lo).
      * injection H as <- <-. split; trivial.
      * destruct (IH _ _ _ _ H) as [I1 I2]. split; intros R; [apply I1|apply I2]; apply rn_refine_rational; exact R.
Qed.
Lemma v_cmp_sep_ratlike fuel a b c a1 b1 : v_cmp_sep fuel a b = ROk (c, a1, b1) ->
  (ratlike a -> ratlike a1) /\ (ratlike b -> ratlike b1).
Proof.
  intros H. unfold v_cmp_sep in H. destruct (v_cmp fuel a b) as [c0| |]; cbn [vr_bind] in H; try discriminate.
  destruct (c0 =? 0); [injection H as <- <- <-; split; trivial|].
  destruct a as [za|da|qa|xa| |], b as [zb|db|qb|xb| |]; cbn [v_fin_rat] in H;
    try (injection H as <- <- <-; split; trivial).
  all: try (match type of H with context [rn_refine_away ?f ?x ?q] =>
         destruct (rn_refine_away f x q) as [x1|] eqn:ER; cbn in H; try discriminate; injection H as <- <- <-;
         split; trivial; intros [R|R]; [left|discriminate R]; cbn [v_is_rational] in *;
         apply (refine_away_rational _ _ _ _ ER R) end).
  destruct (va_sep fuel xa xb) as [[x1 y1]|] eqn:ES; cbn in H; try discriminate. injection H as <- <- <-.
  destruct (va_sep_rational _ _ _ _ _ ES) as [I1 I2].
  split; intros [R|R]; try discriminate R; left; cbn [v_is_rational] in *; [apply I1|apply I2]; exact R.
Qed.

Lemma hull_upper_exact v s q s' : vok L v -> v_is_rational v = true -> v_hull_upper v s = ROk (q, s') ->
  q_wf q /\ s' = s /\ exists x, den L v = EFin x /\ x ~ LQ L (QofR q).
Proof.
  intros Hv R H. destruct v as [z|d|r|x| |]; cbn [v_hull_upper] in H; try discriminate.
  - injection H as <- <-. split; [apply q_wf_int|]. split; [reflexivity|]. eexists. split; [reflexivity|].
    apply LQ_eq. symmetry. apply QofR_int.
  - injection H as <- <-. destruct (q_from_dyadic_spec d) as [W V]. split; [exact W|]. split; [reflexivity|].
    eexists. split; [reflexivity|]. apply LQ_eq. symmetry. exact V.
  - injection H as <- <-. split; [exact Hv|]. split; [reflexivity|]. eexists. split; [reflexivity|apply Leq_refl].
  - cbn [v_is_rational] in R. rewrite R in H. destruct (va_get_rational x) as [q0| |] eqn:E; cbn in H; try discriminate.
    injection H as <- <-. destruct (v_get_rational_spec (VAlg x) q0 Hv E) as [W D].
    split; [exact W|]. split; [reflexivity|]. eexists. split; [reflexivity|exact D].
Qed.
Lemma hull_lower_exact v s q s' : vok L v -> v_is_rational v = true -> v_hull_lower v s = ROk (q, s') ->
  q_wf q /\ s' = s /\ exists x, den L v = EFin x /\ x ~ LQ L (QofR q).
Proof.
  intros Hv R H. destruct v as [z|d|r|x| |]; cbn [v_hull_lower] in H; try discriminate.
  - injection H as <- <-. split; [apply q_wf_int|]. split; [reflexivity|]. eexists. split; [reflexivity|].
    apply LQ_eq. symmetry. apply QofR_int.
  - injection H as <- <-. destruct (q_from_dyadic_spec d) as [W V]. split; [exact W|]. split; [reflexivity|].
    eexists. split; [reflexivity|]. apply LQ_eq. symmetry. exact V.
  - injection H as <- <-. split; [exact Hv|]. split; [reflexivity|]. eexists. split; [reflexivity|apply Leq_refl].
  - cbn [v_is_rational] in R. rewrite R in H. destruct (va_get_rational x) as [q0| |] eqn:E; cbn in H; try discriminate.
    injection H as <- <-. destruct (v_get_rational_spec (VAlg x) q0 Hv E) as [W D].
    split; [exact W|]. split; [reflexivity|]. eexists. split; [reflexivity|exact D].
Qed.

Lemma between_core_prefers_int rec fuel lo slo hi shi v k :
  vok L lo -> vok L hi -> ratlike lo -> ratlike hi -> ecmp L (den L lo) (den L hi) = Lt ->
  between_core rec fuel lo slo hi shi = ROk v ->
  within (den L lo) slo (EFin (LQ L (inject_Z k))) (den L hi) shi ->
  v_is_integer v = true.
Proof.
  intros Hlo Hhi Rlo Rhi LT H [W1 W2].
  assert (FF : forall xl xh, den L lo = EFin xl -> den L hi = EFin xh ->
     vr_bind (v_hull_upper lo slo) (fun ha => vr_bind (v_hull_lower hi shi) (fun hb =>
       if q_cmp (fst ha) (fst hb) =? 0 then rec (v_refine_bound lo) slo (v_refine_bound hi) shi
       else vr_map VRat (r_of_opt (v_pick fuel (fst ha) (snd ha) (fst hb) (snd hb))))) = ROk v ->
     v_is_integer v = true).
  { intros xl xh El Eh H0.
    assert (Rl : v_is_rational lo = true) by (destruct Rlo as [R|R]; [exact R|destruct lo; discriminate]).
    assert (Rh : v_is_rational hi = true) by (destruct Rhi as [R|R]; [exact R|destruct hi; discriminate]).
    destruct (v_hull_upper lo slo) as [[qa sa']| |] eqn:HU; cbn [vr_bind] in H0; try discriminate.
    destruct (v_hull_lower hi shi) as [[qb sb']| |] eqn:HL; cbn [vr_bind fst snd] in H0; try discriminate.
    destruct (hull_upper_exact _ _ _ _ Hlo Rl HU) as (Wa & -> & x1 & E1 & D1).
    destruct (hull_lower_exact _ _ _ _ Hhi Rh HL) as (Wb & -> & x2 & E2 & D2).
    rewrite El in E1. injection E1 as <-. rewrite Eh in E2. injection E2 as <-.
    rewrite El, Eh in LT. cbn [ecmp] in LT.
    assert (LTq : (QofR qa < QofR qb)%Q).
    { apply LQ_lt_inv. eapply Llt_eq_l; [apply Leq_sym; exact D1|]. eapply Llt_eq_r; [exact LT|exact D2]. }
    replace (q_cmp qa qb =? 0) with false in H0.
    2:{ symmetry. apply Z.eqb_neq. intros C. apply (q_cmp_eq0 _ _ Wa Wb) in C. rewrite C in LTq. apply (Qlt_irrefl _ LTq). }
    destruct (v_pick fuel qa slo qb shi) as [r|] eqn:EP; cbn in H0; try discriminate. injection H0 as <-.
    cbn [v_is_integer]. rewrite El in W1. rewrite Eh in W2. cbn [ecmp] in W1, W2.
    apply (v_pick_prefers_int _ _ _ _ _ _ k Wa Wb LTq EP).
    - destruct slo; cbn [bnd_lo].
      + apply LQ_lt_inv. eapply Llt_eq_l; [apply Leq_sym; exact D1|exact W1].
      + apply Qle_alt. rewrite <- (Q_cmp L OK). rewrite <- (Lcmp_eq_l _ _ _ D1). exact W1.
    - destruct shi; cbn [bnd_hi].
      + apply LQ_lt_inv. eapply Llt_eq_r; [exact W2|exact D2].
      + apply Qle_alt. rewrite <- (Q_cmp L OK). rewrite <- (Lcmp_eq_r _ _ _ D2). exact W2. }
  destruct lo as [zl|dl|ql|xl| |], hi as [zh|dh|qh|xh| |]; cbn [between_core] in H; cbn [den ecmp] in LT; try discriminate LT;
    try (eapply FF; [reflexivity|reflexivity|exact H]).
  all: try (match type of H with vr_bind ?h _ = _ => destruct h as [[? ?]| |]; cbn in H; try discriminate; injection H as <-; reflexivity end).
  injection H as <-. reflexivity.
Qed.

Lemma v_between_prefers_int_partial fuel a sa b sb v k : vok L a -> vok L b -> ratlike a -> ratlike b ->
  v_between fuel a sa b sb = ROk v ->
  match ecmp L (den L a) (den L b) with
  | Lt => within (den L a) sa (EFin (LQ L (inject_Z k))) (den L b) sb
  | Gt => within (den L b) sb (EFin (LQ L (inject_Z k))) (den L a) sa
  | Eq => False
  end ->
  v_is_integer v = true.
Proof.
  intros Ha Hb Ra Rb H W. unfold v_between in H. destruct fuel as [|n]; [discriminate H|].
  rewrite between_rec_S in H.
  destruct (v_cmp_sep (S n) a b) as [[[c a1] b1]| |] eqn:ES; cbn [vr_bind] in H; try discriminate.
  destruct (v_cmp_sep_spec _ _ _ _ _ _ Ha Hb ES) as (SC & Ha1 & Hb1 & Da & Db & SEP).
  destruct (v_cmp_sep_ratlike _ _ _ _ _ _ ES) as [RA1 RB1].
  destruct (ecmp L (den L a) (den L b)) eqn:EC; [contradiction| |]; cbn in SC.
  - assert (Cneg : c < 0) by (destruct c; cbn in SC; lia).
    replace (c =? 0) with false in H by (symmetry; apply Z.eqb_neq; lia).
    replace (0 <? c) with false in H by (symmetry; apply Z.ltb_ge; lia).
    assert (LT1 : ecmp L (den L a1) (den L b1) = Lt).
    { rewrite (ecmp_eq_l _ _ _ Da), (ecmp_eq_r _ _ _ Db). exact EC. }
    eapply (between_core_prefers_int _ _ _ _ _ _ _ k Ha1 Hb1 (RA1 Ra) (RB1 Rb) LT1 H).
    eapply within_eeq; [apply eeq_sym; exact Da|apply eeq_sym; exact Db|exact W].
  - assert (Cpos : 0 < c) by (destruct c; cbn in SC; lia).
    replace (c =? 0) with false in H by (symmetry; apply Z.eqb_neq; lia).
    replace (0 <? c) with true in H by (symmetry; apply Z.ltb_lt; lia).
    assert (LT1 : ecmp L (den L b1) (den L a1) = Lt).
    { rewrite (ecmp_eq_l _ _ _ Db), (ecmp_eq_r _ _ _ Da), (ecmp_opp (den L a) (den L b)), EC. reflexivity. }
    eapply (between_core_prefers_int _ _ _ _ _ _ _ k Hb1 Ha1 (RB1 Rb) (RA1 Ra) LT1 H).
    eapply within_eeq; [apply eeq_sym; exact Db|apply eeq_sym; exact Da|exact W].
Qed.

(* "prefers integers" for ALL bounds: needs the constructor invariant int_free, which refinement preserves *)
Lemma RA_lo_lt_hi p lo hi : LP L (RA p lo hi) -> (QofR lo < QofR hi)%Q.
Proof.
  intros H. destruct (P_RA L OK _ _ _ H) as (_ & _ & B1 & B2). apply LQ_lt_inv. eapply Llt_trans; eassumption.
Qed.
Lemma rn_refine_int_free x : LP L x -> int_free (VAlg x) -> int_free (VAlg (rn_refine x)).
Proof.
  destruct x as [q|p lo hi]; [trivial|]. intros Hx F. cbn [rn_refine].
  destruct (P_RA L OK _ _ _ Hx) as (Wl & Wh & _). pose proof (RA_lo_lt_hi _ _ _ Hx) as LH.
  destruct (q_mid_spec lo hi Wl Wh) as [Wm Vm]. change (q_div_2exp (q_add lo hi) 1) with (q_mid lo hi) in *.
  assert (M0 : (2 * QofR (q_mid lo hi) == QofR lo + QofR hi)%Q) by (rewrite Vm; field).
  destruct (psgn_q p (q_mid lo hi) =? 0); [exact I|].
  destruct (psgn_q p lo * psgn_q p (q_mid lo hi) <? 0); cbn [int_free] in *; intros z [H1 H2]; apply (F z); split; lra.
Qed.
Lemma refine_away_int_free fuel : forall x q x', LP L x -> rn_refine_away fuel x q = Some x' ->
  int_free (VAlg x) -> int_free (VAlg x').
Proof.
  induction fuel as [|f IH]; intros x q x' Hx H F; cbn [rn_refine_away] in H; [discriminate|].
  destruct x as [r|p lo hi]; [injection H as <-; exact F|].
  destruct (q_le q lo || q_le hi q); [injection H as <-; exact F|].
  destruct (A_refine L OK _ Hx) as [P1 _]. eapply IH; [exact P1|exact H|]. apply rn_refine_int_free; assumption.
Qed.
Lemma va_sep_int_free fuel : forall x y x' y', LP L x -> LP L y -> va_sep fuel x y = Some (x', y') ->
  int_free (VAlg x) -> int_free (VAlg y) -> int_free (VAlg x') /\ int_free (VAlg y').
Proof.
  induction fuel as [|f IH]; intros x y x' y' Hx Hy H Fx Fy; cbn [va_sep] in H; [discriminate|].
  destruct x as [a|p lo hi].
  - destruct (rn_refine_away (S f) y a) as [y1|] eqn:E; cbn in H; try discriminate. injection H as <- <-.
    split; [exact I|]. exact (refine_away_int_free _ _ _ _ Hy E Fy).
  - destruct y as [b|p' lo' hi'].
    + destruct (rn_refine_away (S f) (RA p lo hi) b) as [x1|] eqn:E; cbn in H; try discriminate. injection H as <- <-.
      split; [|exact I]. exact (refine_away_int_free _ _ _ _ Hx E Fx).
    + destruct (q_le hi lo' || q_le hi' lo).
      * injection H as <- <-. split; assumption.
      * destruct (A_refine L OK _ Hx) as [P1 _]. destruct (A_refine L OK _ Hy) as [P2 _].
        apply (IH _ _ _ _ P1 P2 H); apply rn_refine_int_free; assumption.
Qed.
Lemma v_cmp_sep_int_free fuel a b c a1 b1 : vok L a -> vok L b -> v_cmp_sep fuel a b = ROk (c, a1, b1) ->
  int_free a -> int_free b -> int_free a1 /\ int_free b1.
Proof.
  intros Ha Hb H Fa Fb. unfold v_cmp_sep in H. destruct (v_cmp fuel a b) as [c0| |]; cbn [vr_bind] in H; try discriminate.
  destruct (c0 =? 0); [injection H as <- <- <-; split; assumption|].
  destruct a as [za|da|qa|xa| |], b as [zb|db|qb|xb| |]; cbn [v_fin_rat] in H; cbn [vok] in Ha, Hb;
    try (injection H as <- <- <-; split; assumption).
  all: try (match type of H with context [rn_refine_away ?f ?x ?q] =>
         destruct (rn_refine_away f x q) as [x1|] eqn:ER; cbn in H; try discriminate; injection H as <- <- <-;
         split; try assumption; try exact I;
         first [exact (refine_away_int_free _ _ _ _ Ha ER Fa) | exact (refine_away_int_free _ _ _ _ Hb ER Fb)] end).
  destruct (va_sep fuel xa xb) as [[x1 y1]|] eqn:ES; cbn in H; try discriminate. injection H as <- <- <-.
  exact (va_sep_int_free _ _ _ _ _ Ha Hb ES Fa Fb).
Qed.
Lemma v_refine_bound_int_free v : vok L v -> int_free v -> int_free (v_refine_bound v).
Proof.
  intros Hv F. destruct v as [z|d|q|x| |]; cbn [v_refine_bound]; try exact F.
  destruct (v_is_rational (VAlg x)); [exact F|]. apply rn_refine_int_free; assumption.
Qed.

Lemma hull_upper_int lo slo qa sa' xl k : vok L lo -> int_free lo -> den L lo = EFin xl ->
  v_hull_upper lo slo = ROk (qa, sa') ->
  (if slo then Llt L xl (LQ L (inject_Z k)) else Lle L xl (LQ L (inject_Z k))) ->
  bnd_lo sa' (QofR qa) (inject_Z k).
Proof.
  intros Hlo F El HU W. destruct (v_hull_upper_spec _ _ _ _ Hlo HU) as (Wa & x1 & E1 & CA).
  rewrite El in E1. injection E1 as <-.
  destruct CA as [[DA ->]|(pa & la & -> & ->)].
  - destruct slo; cbn [bnd_lo].
    + apply LQ_lt_inv. eapply Llt_eq_l; [apply Leq_sym; exact DA|exact W].
    + apply Qle_alt. rewrite <- (Q_cmp L OK). change (Lle L (LQ L (QofR qa)) (LQ L (inject_Z k))).
      eapply Lle_eq_l; [apply Leq_sym; exact DA|exact W].
  - cbn [bnd_lo]. cbn [den] in El. injection El as <-. cbn [vok] in Hlo. cbn [int_free] in F.
    destruct (P_RA L OK _ _ _ Hlo) as (_ & _ & B1 & B2).
    assert (W' : Lle L (Lden L (RA pa la qa)) (LQ L (inject_Z k))) by (destruct slo; [apply Llt_le; exact W|exact W]).
    apply Qnot_lt_le. intros C. apply (F k). split; [|exact C].
    apply LQ_lt_inv. eapply Llt_le_trans; [exact B1|exact W'].
Qed.
Lemma hull_lower_int hi shi qb sb' xh k : vok L hi -> int_free hi -> den L hi = EFin xh ->
  v_hull_lower hi shi = ROk (qb, sb') ->
  (if shi then Llt L (LQ L (inject_Z k)) xh else Lle L (LQ L (inject_Z k)) xh) ->
  bnd_hi sb' (inject_Z k) (QofR qb).
Proof.
  intros Hhi F Eh HL W. destruct (v_hull_lower_spec _ _ _ _ Hhi HL) as (Wb & x1 & E1 & CB).
  rewrite Eh in E1. injection E1 as <-.
  destruct CB as [[DB ->]|(pb & hb & -> & ->)].
  - destruct shi; cbn [bnd_hi].
    + apply LQ_lt_inv. eapply Llt_eq_r; [exact W|exact DB].
    + apply Qle_alt. rewrite <- (Q_cmp L OK). change (Lle L (LQ L (inject_Z k)) (LQ L (QofR qb))).
      eapply Lle_eq_r; [exact W|exact DB].
  - cbn [bnd_hi]. cbn [den] in Eh. injection Eh as <-. cbn [vok] in Hhi. cbn [int_free] in F.
    destruct (P_RA L OK _ _ _ Hhi) as (_ & _ & B1 & B2).
    assert (W' : Lle L (LQ L (inject_Z k)) (Lden L (RA pb qb hb))) by (destruct shi; [apply Llt_le; exact W|exact W]).
    apply Qnot_lt_le. intros C. apply (F k). split; [exact C|].
    apply LQ_lt_inv. eapply Lle_lt_trans; [exact W'|exact B2].
Qed.

Definition rec_int (rec : value -> bool -> value -> bool -> vres value) : Prop :=
  forall lo slo hi shi v k, vok L lo -> vok L hi -> int_free lo -> int_free hi ->
    ecmp L (den L lo) (den L hi) = Lt -> rec lo slo hi shi = ROk v ->
    within (den L lo) slo (EFin (LQ L (inject_Z k))) (den L hi) shi -> v_is_integer v = true.

Lemma between_core_int rec fuel lo slo hi shi v k : rec_int rec ->
  vok L lo -> vok L hi -> int_free lo -> int_free hi -> ecmp L (den L lo) (den L hi) = Lt -> sepd lo hi ->
  between_core rec fuel lo slo hi shi = ROk v ->
  within (den L lo) slo (EFin (LQ L (inject_Z k))) (den L hi) shi -> v_is_integer v = true.
Proof.
  intros REC Hlo Hhi Flo Fhi LT S H W.
  assert (FF : forall xl xh, den L lo = EFin xl -> den L hi = EFin xh ->
     vr_bind (v_hull_upper lo slo) (fun ha => vr_bind (v_hull_lower hi shi) (fun hb =>
       if q_cmp (fst ha) (fst hb) =? 0 then rec (v_refine_bound lo) slo (v_refine_bound hi) shi
       else vr_map VRat (r_of_opt (v_pick fuel (fst ha) (snd ha) (fst hb) (snd hb))))) = ROk v ->
     v_is_integer v = true).
  { intros xl xh El Eh H0.
    destruct (v_hull_upper lo slo) as [[qa sa']| |] eqn:HU; cbn [vr_bind] in H0; try discriminate.
    destruct (v_hull_lower hi shi) as [[qb sb']| |] eqn:HL; cbn [vr_bind fst snd] in H0; try discriminate.
    destruct (v_hull_upper_spec _ _ _ _ Hlo HU) as (Wa & _). destruct (v_hull_lower_spec _ _ _ _ Hhi HL) as (Wb & _).
    assert (LT' : Llt L xl xh) by (rewrite El, Eh in LT; exact LT).
    pose proof (hull_order _ _ _ _ _ _ _ _ _ _ Hlo Hhi El Eh LT' S HU HL) as ORD.
    destruct (q_cmp qa qb =? 0) eqn:EQ.
    - destruct (v_refine_bound_spec lo Hlo) as [Hlo' Dlo]. destruct (v_refine_bound_spec hi Hhi) as [Hhi' Dhi].
      assert (LT2 : ecmp L (den L (v_refine_bound lo)) (den L (v_refine_bound hi)) = Lt).
      { rewrite (ecmp_eq_l _ _ _ Dlo), (ecmp_eq_r _ _ _ Dhi). exact LT. }
      apply (REC _ _ _ _ _ k Hlo' Hhi' (v_refine_bound_int_free _ Hlo Flo) (v_refine_bound_int_free _ Hhi Fhi) LT2 H0).
      eapply within_eeq; [apply eeq_sym; exact Dlo|apply eeq_sym; exact Dhi|exact W].
    - apply Z.eqb_neq in EQ. assert (LTq : (QofR qa < QofR qb)%Q).
      { apply Qle_lt_or_eq in ORD. destruct ORD as [O|O]; [exact O|]. exfalso. apply EQ. apply (q_cmp_eq0 _ _ Wa Wb). exact O. }
      destruct (v_pick fuel qa sa' qb sb') as [r|] eqn:EP; cbn in H0; try discriminate. injection H0 as <-.
      cbn [v_is_integer]. destruct W as [W1 W2]. rewrite El in W1. rewrite Eh in W2. cbn [ecmp] in W1, W2.
      apply (v_pick_prefers_int _ _ _ _ _ _ k Wa Wb LTq EP).
      + apply (hull_upper_int lo slo qa sa' xl k Hlo Flo El HU). destruct slo; exact W1.
      + apply (hull_lower_int hi shi qb sb' xh k Hhi Fhi Eh HL). destruct shi; exact W2. }
  destruct lo as [zl|dl|ql|xl| |], hi as [zh|dh|qh|xh| |]; cbn [between_core] in H; cbn [den ecmp] in LT; try discriminate LT;
    try (eapply FF; [reflexivity|reflexivity|exact H]).
  all: try (match type of H with vr_bind ?h _ = _ => destruct h as [[? ?]| |]; cbn in H; try discriminate; injection H as <-; reflexivity end).
  injection H as <-. reflexivity.
Qed.

Lemma between_rec_int fuel n : rec_int (v_between_rec n fuel).
Proof.
  induction n as [|n IH]; intros lo slo hi shi v k Hlo Hhi Flo Fhi LT H W; [discriminate H|].
  rewrite between_rec_S in H.
  destruct (v_cmp_sep fuel lo hi) as [[[c a1] b1]| |] eqn:ES; cbn [vr_bind] in H; try discriminate.
  destruct (v_cmp_sep_spec _ _ _ _ _ _ Hlo Hhi ES) as (SC & Ha1 & Hb1 & Da & Db & SEP).
  destruct (v_cmp_sep_int_free _ _ _ _ _ _ Hlo Hhi ES Flo Fhi) as [Fa1 Fb1].
  rewrite LT in SC. cbn in SC.
  assert (Cneg : c < 0) by (destruct c; cbn in SC; lia).
  replace (c =? 0) with false in H by (symmetry; apply Z.eqb_neq; lia).
  replace (0 <? c) with false in H by (symmetry; apply Z.ltb_ge; lia).
  assert (LT1 : ecmp L (den L a1) (den L b1) = Lt).
  { rewrite (ecmp_eq_l _ _ _ Da), (ecmp_eq_r _ _ _ Db). exact LT. }
  apply (between_core_int _ _ _ _ _ _ _ k IH Ha1 Hb1 Fa1 Fb1 LT1 (SEP ltac:(lia)) H).
  eapply within_eeq; [apply eeq_sym; exact Da|apply eeq_sym; exact Db|exact W].
Qed.

Lemma v_between_prefers_int fuel a sa b sb v k : vok L a -> vok L b -> int_free a -> int_free b ->
  v_between fuel a sa b sb = ROk v ->
  match ecmp L (den L a) (den L b) with
  | Lt => within (den L a) sa (EFin (LQ L (inject_Z k))) (den L b) sb
  | Gt => within (den L b) sb (EFin (LQ L (inject_Z k))) (den L a) sa
  | Eq => False
  end ->
  v_is_integer v = true.
Proof.
  intros Ha Hb Fa Fb H W. unfold v_between in H. destruct fuel as [|n]; [discriminate H|].
  rewrite between_rec_S in H.
  destruct (v_cmp_sep (S n) a b) as [[[c a1] b1]| |] eqn:ES; cbn [vr_bind] in H; try discriminate.
  destruct (v_cmp_sep_spec _ _ _ _ _ _ Ha Hb ES) as (SC & Ha1 & Hb1 & Da & Db & SEP).
  destruct (v_cmp_sep_int_free _ _ _ _ _ _ Ha Hb ES Fa Fb) as [Fa1 Fb1].
  destruct (ecmp L (den L a) (den L b)) eqn:EC; [contradiction| |]; cbn in SC.
  - assert (Cneg : c < 0) by (destruct c; cbn in SC; lia).
    replace (c =? 0) with false in H by (symmetry; apply Z.eqb_neq; lia).
    replace (0 <? c) with false in H by (symmetry; apply Z.ltb_ge; lia).
    assert (LT1 : ecmp L (den L a1) (den L b1) = Lt).
    { rewrite (ecmp_eq_l _ _ _ Da), (ecmp_eq_r _ _ _ Db). exact EC. }
    apply (between_core_int _ _ _ _ _ _ _ k (between_rec_int (S n) n) Ha1 Hb1 Fa1 Fb1 LT1 (SEP ltac:(lia)) H).
    eapply within_eeq; [apply eeq_sym; exact Da|apply eeq_sym; exact Db|exact W].
  - assert (Cpos : 0 < c) by (destruct c; cbn in SC; lia).
    replace (c =? 0) with false in H by (symmetry; apply Z.eqb_neq; lia).
    replace (0 <? c) with true in H by (symmetry; apply Z.ltb_lt; lia).
    assert (LT1 : ecmp L (den L b1) (den L a1) = Lt).
    { rewrite (ecmp_eq_l _ _ _ Db), (ecmp_eq_r _ _ _ Da), (ecmp_opp (den L a) (den L b)), EC. reflexivity. }
    assert (S' : sepd b1 a1).
    { assert (SEP' : sepd a1 b1) by (apply SEP; lia). clear - SEP'.
      destruct a1 as [?|?|?|[?|? ? ?]| |], b1 as [?|?|?|[?|? ? ?]| |]; cbn in *; try exact I; try exact SEP'.
      rewrite orb_comm. exact SEP'. }
    apply (between_core_int _ _ _ _ _ _ _ k (between_rec_int (S n) n) Hb1 Ha1 Fb1 Fa1 LT1 S' H).
    eapply within_eeq; [apply eeq_sym; exact Db|apply eeq_sym; exact Da|exact W].
Qed.

(* ------------------------------------------------------------------ 6. hashing: the bisection path depends only on the number *)
Lemma hash_loop_ext prec : forall (f g : dyadic -> Z) lb m ub, (forall d, Z.sgn (f d) = Z.sgn (g d)) ->
  v_hash_loop prec f lb m ub = v_hash_loop prec g lb m ub.
Proof.
  induction prec as [|p IH]; intros f g lb m ub E; cbn [v_hash_loop]; [reflexivity|].
  set (m2 := dy_div_2exp AliasA (dy_add NoAlias m lb ub) (dy_add NoAlias m lb ub) 1).
  specialize (E m2) as E2.
  assert (Z0 : (f m2 =? 0) = (g m2 =? 0)).
  { destruct (f m2), (g m2); cbn in E2; try discriminate; reflexivity. }
  assert (ZL : (f m2 <? 0) = (g m2 <? 0)).
  { destruct (f m2), (g m2); cbn in E2; try discriminate; reflexivity. }
  rewrite Z0, ZL. destruct (g m2 =? 0); [reflexivity|]. destruct (g m2 <? 0); apply IH; exact E.
Qed.

(* what the four representations feed into the common hashing scheme *)
Definition hint (v : value) : Z :=
  match v with VInt z => z | VDy d => da d | VRat q => fst q | VAlg x => fst (rn_lo x) | _ => 0 end.
Definition hcmp (v : value) (m : dyadic) : Z :=
  match v with
  | VDy d => dy_cmp d m
  | VRat q => q_cmp_dyadic q m
  | VAlg x => rn_cmp_q x (q_from_dyadic m)
  | _ => 0
  end.
Definition hfl (v : value) : Z := match v_floor v with ROk z => z | _ => 0 end.
Definition hce (v : value) : Z := match v_ceiling v with ROk z => z | _ => 0 end.
Lemma hash_path_form prec v : fin v ->
  v_hash_path prec v = if v_is_integer v then HInt (hint v) else v_hash_frac prec (hcmp v) (hfl v) (hce v).
Proof. destruct v; intros F; try contradiction; reflexivity. Qed.

Lemma hint_spec v : vok L v -> v_is_integer v = true -> eeq L (den L v) (EFin (LQ L (inject_Z (hint v)))).
Proof.
  intros Hv H. unfold eeq. destruct v as [z|d|q|x| |]; cbn [v_is_integer den hint ecmp vok] in *; try discriminate.
  - apply Leq_refl.
  - unfold dy_is_integer in H. apply N.eqb_eq in H. apply LQ_eq. unfold QofD. rewrite H, pow2_0. field.
  - unfold q_is_integer in H. apply Z.eqb_eq in H. apply LQ_eq. unfold QofR. rewrite H. field.
  - destruct x as [q|p lo hi]; cbn [va_is_integer rn_lo] in *; try discriminate.
    pose proof (P_RQ_wf L OK _ Hv) as W. eapply Leq_trans; [apply (D_RQ L OK _ W)|].
    unfold q_is_integer in H. apply Z.eqb_eq in H. apply LQ_eq. unfold QofR. rewrite H. field.
Qed.
Lemma hcmp_spec v m x : vok L v -> v_is_integer v = false -> den L v = EFin x ->
  Z.sgn (hcmp v m) = cmp_to_Z (Lcmp L x (LQ L (QofD m))).
Proof.
  intros Hv H E. destruct v as [z|d|q|y| |]; cbn [v_is_integer den hcmp vok] in *; try discriminate; injection E as <-.
  - rewrite dy_cmp_spec, (Q_cmp L OK). reflexivity.
  - rewrite (q_cmp_dyadic_spec _ _ Hv), sgn_cmp_to_Z, (Q_cmp L OK). reflexivity.
  - rewrite (cmp_q_dy _ _ Hv), sgn_cmp_to_Z. reflexivity.
Qed.

Lemma v_hash_path_spec prec u v : vok L u -> vok L v -> int_free u -> int_free v ->
  eeq L (den L u) (den L v) -> v_hash_path prec u = v_hash_path prec v.
Proof.
  intros Hu Hv Fu Fv E.
  destruct (den L u) as [|xu|] eqn:Eu; destruct (den L v) as [|xv|] eqn:Ev; try discriminate E.
  - destruct u; try discriminate Eu. destruct v; try discriminate Ev. reflexivity.
  - assert (FU : fin u) by (destruct u; try discriminate Eu; exact I).
    assert (FV : fin v) by (destruct v; try discriminate Ev; exact I).
    rewrite (hash_path_form _ _ FU), (hash_path_form _ _ FV).
    assert (E' : eeq L (den L u) (den L v)) by (rewrite Eu, Ev; exact E).
    rewrite (is_integer_repr_indep _ _ Hu Hv Fu Fv E').
    destruct (v_is_integer v) eqn:IV.
    + f_equal. pose proof (is_integer_repr_indep _ _ Hu Hv Fu Fv E') as IU. rewrite IV in IU.
      pose proof (hint_spec _ Hu IU) as H1. pose proof (hint_spec _ Hv IV) as H2.
      assert (Q : (inject_Z (hint u) == inject_Z (hint v))%Q).
      { apply LQ_eq_inv. change (eeq L (EFin (LQ L (inject_Z (hint u)))) (EFin (LQ L (inject_Z (hint v))))).
        eapply eeq_trans; [apply eeq_sym; exact H1|]. eapply eeq_trans; [exact E'|exact H2]. }
      unfold Qeq in Q. cbn in Q. lia.
    + pose proof (is_integer_repr_indep _ _ Hu Hv Fu Fv E') as IU. rewrite IV in IU.
      assert (FL : hfl u = hfl v).
      { unfold hfl. destruct (v_floor u) as [a| |] eqn:F1; destruct (v_floor v) as [b| |] eqn:F2;
          try (exfalso; destruct u; try contradiction; discriminate F1);
          try (exfalso; destruct v; try contradiction; discriminate F2).
        exact (floor_repr_indep u v a b Hu Hv Fu Fv E' F1 F2). }
      assert (CE : hce u = hce v).
      { unfold hce. destruct (v_ceiling u) as [a| |] eqn:F1; destruct (v_ceiling v) as [b| |] eqn:F2;
          try (exfalso; destruct u; try contradiction; discriminate F1);
          try (exfalso; destruct v; try contradiction; discriminate F2).
        exact (ceiling_repr_indep u v a b Hu Hv Fu Fv E' F1 F2). }
      rewrite FL, CE. unfold v_hash_frac. f_equal. apply hash_loop_ext. intros m.
      rewrite (hcmp_spec _ m _ Hu IU Eu), (hcmp_spec _ m _ Hv IV Ev). f_equal. apply Lcmp_eq_l. exact E.
  - destruct u; try discriminate Eu. destruct v; try discriminate Ev. reflexivity.
Qed.
End Line.

(* ------------------------------------------------------------------ 7. a concrete line: Q itself, payloads = rational points.
   Shows that the premises bundled in line_ok are satisfiable, and instantiates every _cond theorem to a closed
   statement about all values whose algebraic payloads are points (every kind of value.c's dispatch occurs). *)
Definition QL : line := {|
  LR := Q; Lcmp := Qcompare; LQ := fun q => q; Ladd := Qplus; Lmul := Qmult; Lopp := Qopp;
  Lden := fun x => match x with RQ q => QofR q | RA _ _ _ => 0%Q end;
  LP := fun x => match x with RQ q => q_wf q | RA _ _ _ => False end |}.

Lemma Qcompare_refl a : (a ?= a)%Q = Eq.
Proof. apply Qeq_alt. reflexivity. Qed.

Lemma QL_ok : line_ok QL.
Proof.
  constructor; unfold Leq, Llt; cbn [QL LR Lcmp LQ Ladd Lmul Lopp Lden LP].
  - apply Qcompare_refl.
  - intros a b. symmetry. apply Qcompare_antisym.
  - intros a b c H. apply Qeq_alt in H. rewrite H. reflexivity.
  - intros a b c H1 H2. apply Qlt_alt in H1, H2. apply Qlt_alt. eapply Qlt_trans; eassumption.
  - reflexivity.
  - intros; apply Qcompare_refl.
  - intros; apply Qcompare_refl.
  - intros; apply Qcompare_refl.
  - intros a a' b b' H1 H2. apply Qeq_alt in H1, H2. apply Qeq_alt. rewrite H1, H2. reflexivity.
  - intros a a' b b' H1 H2. apply Qeq_alt in H1, H2. apply Qeq_alt. rewrite H1, H2. reflexivity.
  - intros a a' H1. apply Qeq_alt in H1. apply Qeq_alt. rewrite H1. reflexivity.
  - trivial.
  - trivial.
  - intros; apply Qcompare_refl.
  - intros p lo hi [].
  - intros [a|p lo hi] q Hx Hq; [|contradiction]. cbn [rn_cmp_q]. apply (q_cmp_spec _ _ Hx Hq).
  - intros fuel [a|? ? ?] [b|? ? ?] c Hx Hy H; try contradiction.
    unfold rn_cmp, rn_eqb in H. cbn [rn_cmp_q] in H. rewrite (q_cmp_spec _ _ Hy Hx) in H.
    rewrite <- Qcompare_antisym. destruct (QofR b ?= QofR a)%Q eqn:E; cbn [CompOpp cmp_to_Z Z.eqb] in *.
    + injection H as <-. reflexivity.
    + destruct fuel; cbn [rn_cmp_loop] in H; [discriminate|]. injection H as <-. cbn [rn_cmp_q].
      rewrite (q_cmp_spec _ _ Hy Hx), E. reflexivity.
    + destruct fuel; cbn [rn_cmp_loop] in H; [discriminate|]. injection H as <-. cbn [rn_cmp_q].
      rewrite (q_cmp_spec _ _ Hy Hx), E. reflexivity.
  - intros fuel [a|? ? ?] [b|? ? ?] z Hx Hy H; try contradiction. cbn [rn_add] in H. injection H as <-.
    destruct (q_add_spec _ _ Hx Hy) as [W V]. split; [exact W|]. apply Qeq_alt. exact V.
  - intros fuel [a|? ? ?] [b|? ? ?] z Hx Hy H; try contradiction. cbn [rn_mul] in H. injection H as <-.
    destruct (q_mul_spec _ _ Hx Hy) as [W V]. split; [exact W|]. apply Qeq_alt. exact V.
  - intros [a|? ? ?] Hx; [|contradiction]. cbn [rn_neg]. destruct (q_neg_spec _ Hx) as [W V].
    split; [exact W|]. apply Qeq_alt. exact V.
  - intros fuel [a|? ? ?] z Hx H; [|contradiction]. unfold rn_inv in H. destruct (rn_sgn (RQ a) =? 0); [discriminate|].
    destruct fuel; cbn [rn_inv_loop] in H; [discriminate|]. destruct (q_inv a) as [i|] eqn:E; [|discriminate].
    injection H as <-. destruct (q_inv_spec _ _ Hx E) as [W V]. split; [exact W|]. apply Qeq_alt. exact V.
  - intros [a|? ? ?] Hx; [|contradiction]. cbn [rn_refine]. split; [exact Hx|apply Qcompare_refl].
  - intros p lo hi [].
Qed.

(* every value whose algebraic payload is a point satisfies the integer-freeness invariant trivially *)
Lemma QL_int_free v : vok QL v -> int_free v.
Proof. destruct v as [?|?|?|[?|? ? ?]| |]; cbn; intros H; try exact I. contradiction. Qed.

(* the closed instances used by Properties_C08.v *)
Definition qden : value -> ext Q := den QL.
Definition qok : value -> Prop := vok QL.
