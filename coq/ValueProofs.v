(* Proofs for property C08 (model: Value.v).

   Semantics.  A value denotes a point of the extended number line `ext (LR L)` of an abstract ordered
   field-like structure L : line into which Q embeds (LQ).  Integers, dyadics and rationals denote
   LQ of their exact rational value (QofR / QofD of ScalarProofs.v, property C17); an algebraic payload x
   denotes Lden x.  Everything value.c takes from algebraic_number.c is stated as the interface `line_ok`
   (named premises = property C07's obligations about the payload operations rn_cmp, rn_add, ...), together
   with the order/field laws of the carrier that the statements use.  All `_cond` theorems are proved for EVERY
   L satisfying line_ok; `QL` below is a concrete instance (carrier Q, payloads = rational points), which shows
   that the premises are satisfiable and yields closed (FULL) corollaries for all values whose algebraic
   payloads are points - i.e. for every kind combination of value.c's dispatch. *)
From Coq Require Import ZArith NArith QArith Qround Qpower Znumtheory Zpow_facts List Bool Lia Lra.
From LP Require Import Scalar ScalarProofs UPoly RefAlg Value.
Local Open Scope Z_scope.
Ltac Zify.zify_post_hook ::= Z.div_mod_to_equations.

(* ------------------------------------------------------------------ the abstract number line *)
Record line : Type := {
  LR : Type;
  Lcmp : LR -> LR -> comparison;
  LQ : Q -> LR;
  Ladd : LR -> LR -> LR;
  Lmul : LR -> LR -> LR;
  Lopp : LR -> LR;
  Lden : rnum -> LR;           (* the real number an algebraic payload stands for *)
  LP : rnum -> Prop            (* the payloads the interface speaks about (valid representations) *)
}.
Definition Leq (L : line) (a b : LR L) : Prop := Lcmp L a b = Eq.
Definition Llt (L : line) (a b : LR L) : Prop := Lcmp L a b = Lt.
Definition Lle (L : line) (a b : LR L) : Prop := Lcmp L a b <> Gt.

Record line_ok (L : line) : Prop := {
  (* total order *)
  O_refl : forall a, Lcmp L a a = Eq;
  O_opp : forall a b, Lcmp L b a = CompOpp (Lcmp L a b);
  O_eq_l : forall a b c, Lcmp L a b = Eq -> Lcmp L a c = Lcmp L b c;
  O_lt_trans : forall a b c, Lcmp L a b = Lt -> Lcmp L b c = Lt -> Lcmp L a c = Lt;
  (* Q is an ordered subfield *)
  Q_cmp : forall p q, Lcmp L (LQ L p) (LQ L q) = (p ?= q)%Q;
  Q_add : forall p q, Leq L (LQ L (p + q)%Q) (Ladd L (LQ L p) (LQ L q));
  Q_mul : forall p q, Leq L (LQ L (p * q)%Q) (Lmul L (LQ L p) (LQ L q));
  Q_opp : forall p, Leq L (LQ L (- p)%Q) (Lopp L (LQ L p));
  (* the operations respect equality of numbers *)
  add_ext : forall a a' b b', Leq L a a' -> Leq L b b' -> Leq L (Ladd L a b) (Ladd L a' b');
  mul_ext : forall a a' b b', Leq L a a' -> Leq L b b' -> Leq L (Lmul L a b) (Lmul L a' b');
  opp_ext : forall a a', Leq L a a' -> Leq L (Lopp L a) (Lopp L a');
  (* ---- what value.c relies on from the algebraic-number layer (C07) *)
  P_RQ : forall q, q_wf q -> LP L (RQ q);
  P_RQ_wf : forall q, LP L (RQ q) -> q_wf q;
  D_RQ : forall q, q_wf q -> Leq L (Lden L (RQ q)) (LQ L (QofR q));
  P_RA : forall p lo hi, LP L (RA p lo hi) ->
         q_wf lo /\ q_wf hi /\ Llt L (LQ L (QofR lo)) (Lden L (RA p lo hi)) /\ Llt L (Lden L (RA p lo hi)) (LQ L (QofR hi));
  A_cmp_q : forall x q, LP L x -> q_wf q -> rn_cmp_q x q = cmp_to_Z (Lcmp L (Lden L x) (LQ L (QofR q)));
  A_cmp : forall fuel x y c, LP L x -> LP L y -> rn_cmp fuel x y = Some c -> c = cmp_to_Z (Lcmp L (Lden L x) (Lden L y));
  A_add : forall fuel x y z, LP L x -> LP L y -> rn_add fuel x y = Some z ->
          LP L z /\ Leq L (Lden L z) (Ladd L (Lden L x) (Lden L y));
  A_mul : forall fuel x y z, LP L x -> LP L y -> rn_mul fuel x y = Some z ->
          LP L z /\ Leq L (Lden L z) (Lmul L (Lden L x) (Lden L y));
  A_neg : forall x, LP L x -> LP L (rn_neg x) /\ Leq L (Lden L (rn_neg x)) (Lopp L (Lden L x));
  A_inv : forall fuel x z, LP L x -> rn_inv fuel x = Some z ->
          LP L z /\ Leq L (Lmul L (Lden L z) (Lden L x)) (LQ L 1%Q);
  A_refine : forall x, LP L x -> LP L (rn_refine x) /\ Leq L (Lden L (rn_refine x)) (Lden L x);
  A_lin : forall p lo hi, LP L (RA p lo hi) -> pdeg p = 1%nat ->
          Leq L (Lden L (RA p lo hi)) (LQ L (QofR (va_lin_root p)))
}.

(* ------------------------------------------------------------------ extended line *)
Inductive ext (R : Type) := EMinf | EFin (r : R) | EPinf.
Arguments EMinf {R}.
Arguments EFin {R} r.
Arguments EPinf {R}.

Definition ecmp (L : line) (a b : ext (LR L)) : comparison :=
  match a, b with
  | EMinf, EMinf => Eq | EMinf, _ => Lt
  | EPinf, EPinf => Eq | EPinf, _ => Gt
  | EFin _, EMinf => Gt | EFin _, EPinf => Lt
  | EFin x, EFin y => Lcmp L x y
  end.
Definition eeq (L : line) (a b : ext (LR L)) : Prop := ecmp L a b = Eq.

(* the number a value denotes *)
Definition den (L : line) (v : value) : ext (LR L) :=
  match v with
  | VInt z => EFin (LQ L (inject_Z z))
  | VDy d => EFin (LQ L (QofD d))
  | VRat q => EFin (LQ L (QofR q))
  | VAlg x => EFin (Lden L x)
  | VPinf => EPinf
  | VMinf => EMinf
  end.

(* representation invariants of the payloads (C17 canonical forms; algebraic payload in the interface's domain) *)
Definition vok (L : line) (v : value) : Prop :=
  match v with
  | VDy d => dy_wf d
  | VRat q => q_wf q
  | VAlg x => LP L x
  | _ => True
  end.

(* ------------------------------------------------------------------ small facts *)
Lemma cmp_to_Z_opp c : cmp_to_Z (CompOpp c) = - cmp_to_Z c.
Proof. destruct c; reflexivity. Qed.
Lemma sgn_cmp_to_Z c : Z.sgn (cmp_to_Z c) = cmp_to_Z c.
Proof. destruct c; reflexivity. Qed.
Lemma cmp_to_Z_inj c d : cmp_to_Z c = cmp_to_Z d -> c = d.
Proof. destruct c, d; cbn; intros H; try reflexivity; lia. Qed.
Lemma cmp_to_Z_eq0 c : cmp_to_Z c = 0 <-> c = Eq.
Proof. destruct c; cbn; split; intros H; try reflexivity; try discriminate; lia. Qed.
Lemma q_wf_int z : q_wf (q_from_integer z).
Proof. split; unfold q_from_integer; cbn [fst snd]; [lia|apply Z.gcd_1_r]. Qed.
Lemma QofR_int z : (QofR (q_from_integer z) == inject_Z z)%Q.
Proof. unfold QofR, q_from_integer; cbn [fst snd]. field. Qed.
Lemma Qcompare_inject a b : (inject_Z a ?= inject_Z b)%Q = (a ?= b).
Proof. unfold Qcompare, inject_Z; cbn. rewrite !Z.mul_1_r. reflexivity. Qed.

Section Line.
Variable L : line.
Hypothesis OK : line_ok L.

Notation R := (LR L).
Notation "a ~ b" := (Leq L a b) (at level 70).

Lemma Leq_refl a : a ~ a. Proof. apply (O_refl L OK). Qed.
Lemma Leq_sym a b : a ~ b -> b ~ a.
Proof. unfold Leq. intros H. rewrite (O_opp L OK), H. reflexivity. Qed.
Lemma Leq_trans a b c : a ~ b -> b ~ c -> a ~ c.
Proof. unfold Leq. intros H1 H2. rewrite (O_eq_l L OK a b c H1). exact H2. Qed.
Lemma Lcmp_eq_l a b c : a ~ b -> Lcmp L a c = Lcmp L b c.
Proof. apply (O_eq_l L OK). Qed.
Lemma Lcmp_eq_r a b c : b ~ c -> Lcmp L a b = Lcmp L a c.
Proof.
  intros H. rewrite (O_opp L OK b a), (O_opp L OK c a). f_equal. apply Lcmp_eq_l. exact H.
Qed.
Lemma LQ_eq p q : (p == q)%Q -> LQ L p ~ LQ L q.
Proof. intros H. unfold Leq. rewrite (Q_cmp L OK). apply Qeq_alt. exact H. Qed.
Lemma Lcmp_gt_lt a b : Lcmp L a b = Gt <-> Lcmp L b a = Lt.
Proof. rewrite (O_opp L OK a b). destruct (Lcmp L a b); cbn; split; intros H; try discriminate; reflexivity. Qed.
Lemma Llt_trans a b c : Llt L a b -> Llt L b c -> Llt L a c.
Proof. apply (O_lt_trans L OK). Qed.
Lemma Lle_lt_trans a b c : Lle L a b -> Llt L b c -> Llt L a c.
Proof.
  unfold Lle, Llt. intros H1 H2. destruct (Lcmp L a b) eqn:E.
  - rewrite (Lcmp_eq_l a b c E). exact H2.
  - eapply Llt_trans; eassumption.
  - contradiction.
Qed.
Lemma Llt_le_trans a b c : Llt L a b -> Lle L b c -> Llt L a c.
Proof.
  unfold Lle, Llt. intros H1 H2. destruct (Lcmp L b c) eqn:E.
  - rewrite <- (Lcmp_eq_r a b c E). exact H1.
  - eapply Llt_trans; eassumption.
  - contradiction.
Qed.
Lemma Lle_trans a b c : Lle L a b -> Lle L b c -> Lle L a c.
Proof.
  unfold Lle. intros H1 H2 H3. destruct (Lcmp L a b) eqn:E.
  - rewrite (Lcmp_eq_l a b c E) in H3. contradiction.
  - destruct (Lcmp L b c) eqn:E2.
    + rewrite <- (Lcmp_eq_r a b c E2) in H3. congruence.
    + pose proof (O_lt_trans L OK a b c E E2). congruence.
    + contradiction.
  - contradiction.
Qed.
Lemma Lle_antisym a b : Lle L a b -> Lle L b a -> a ~ b.
Proof.
  unfold Lle, Leq. intros H1 H2. rewrite (O_opp L OK a b) in H2. destruct (Lcmp L a b); cbn in *; congruence.
Qed.

(* the extended order is a total order as well *)
Lemma ecmp_refl a : ecmp L a a = Eq.
Proof. destruct a; cbn; try reflexivity. apply (O_refl L OK). Qed.
Lemma ecmp_opp a b : ecmp L b a = CompOpp (ecmp L a b).
Proof. destruct a, b; cbn; try reflexivity. apply (O_opp L OK). Qed.
Lemma ecmp_eq_l a b c : ecmp L a b = Eq -> ecmp L a c = ecmp L b c.
Proof. destruct a, b, c; cbn; intros H; try reflexivity; try discriminate. apply (O_eq_l L OK); exact H. Qed.
Lemma ecmp_eq_r a b c : ecmp L b c = Eq -> ecmp L a b = ecmp L a c.
Proof.
  intros H. rewrite (ecmp_opp b a), (ecmp_opp c a). f_equal. apply ecmp_eq_l. exact H.
Qed.
Lemma ecmp_lt_trans a b c : ecmp L a b = Lt -> ecmp L b c = Lt -> ecmp L a c = Lt.
Proof.
  destruct a, b, c; cbn; intros H1 H2; try reflexivity; try discriminate. eapply (O_lt_trans L OK); eassumption.
Qed.
Lemma eeq_refl a : eeq L a a. Proof. apply ecmp_refl. Qed.
Lemma eeq_sym a b : eeq L a b -> eeq L b a.
Proof. unfold eeq. intros H. rewrite ecmp_opp, H. reflexivity. Qed.
Lemma eeq_trans a b c : eeq L a b -> eeq L b c -> eeq L a c.
Proof. unfold eeq. intros H1 H2. rewrite (ecmp_eq_l a b c H1). exact H2. Qed.

(* ------------------------------------------------------------------ 1. comparison *)
Lemma den_cmp_QQ p q : cmp_to_Z (Lcmp L (LQ L p) (LQ L q)) = cmp_to_Z (p ?= q)%Q.
Proof. rewrite (Q_cmp L OK). reflexivity. Qed.

Lemma cmp_q_int x z : LP L x ->
  rn_cmp_q x (q_from_integer z) = cmp_to_Z (Lcmp L (Lden L x) (LQ L (inject_Z z))).
Proof.
  intros Hx. rewrite (A_cmp_q L OK x _ Hx (q_wf_int z)). f_equal. apply Lcmp_eq_r. apply LQ_eq, QofR_int.
Qed.
Lemma cmp_q_dy x d : LP L x ->
  rn_cmp_q x (q_from_dyadic d) = cmp_to_Z (Lcmp L (Lden L x) (LQ L (QofD d))).
Proof.
  intros Hx. destruct (q_from_dyadic_spec d) as [W V].
  rewrite (A_cmp_q L OK x _ Hx W). f_equal. apply Lcmp_eq_r. apply LQ_eq, V.
Qed.

(* the ordered half of the dispatch: v1's type above v2's *)
Lemma v_cmp_hi_spec u v c : vok L u -> vok L v -> v_cmp_hi u v = ROk c ->
  Z.sgn c = cmp_to_Z (ecmp L (den L u) (den L v)).
Proof.
  intros Hu Hv H. destruct u, v; cbn in H; try discriminate; injection H as <-; cbn [den ecmp vok] in *.
  - (* dy, int *) unfold dy_cmp_integer. rewrite dy_cmp_spec. rewrite (Q_cmp L OK).
    destruct (dy_from_integer_spec z) as [_ V]. rewrite V. reflexivity.
  - (* rat, int *) unfold q_cmp_integer. rewrite (q_cmp_spec _ _ Hu (q_wf_int z)), sgn_cmp_to_Z, (Q_cmp L OK).
    rewrite QofR_int. reflexivity.
  - (* rat, dy *) rewrite (q_cmp_dyadic_spec _ _ Hu), sgn_cmp_to_Z, (Q_cmp L OK). reflexivity.
  - (* alg, int *) rewrite (cmp_q_int _ _ Hu), sgn_cmp_to_Z. reflexivity.
  - (* alg, dy *) rewrite (cmp_q_dy _ _ Hu), sgn_cmp_to_Z. reflexivity.
  - (* alg, rat *) rewrite (A_cmp_q L OK _ _ Hu Hv), sgn_cmp_to_Z. reflexivity.
Qed.

Lemma v_cmp_spec fuel u v c : vok L u -> vok L v -> v_cmp fuel u v = ROk c ->
  Z.sgn c = cmp_to_Z (ecmp L (den L u) (den L v)).
Proof.
  intros Hu Hv H.
  assert (FLIP : forall u v c, vok L u -> vok L v -> vr_map Z.opp (v_cmp_hi v u) = ROk c ->
                 Z.sgn c = cmp_to_Z (ecmp L (den L u) (den L v))).
  { intros u0 v0 c0 Hu0 Hv0 H0. destruct (v_cmp_hi v0 u0) as [c1| |] eqn:E; cbn in H0; try discriminate.
    injection H0 as <-. rewrite Z.sgn_opp, (v_cmp_hi_spec _ _ _ Hv0 Hu0 E), (ecmp_opp (den L v0) (den L u0)).
    rewrite cmp_to_Z_opp. lia. }
  destruct u, v; unfold v_cmp in H; cbn [vtype Z.eqb Z.ltb Z.compare Pos.compare Pos.compare_cont Pos.eqb] in H;
    try (apply (FLIP _ _ _ Hu Hv H)); try (apply (v_cmp_hi_spec _ _ _ Hu Hv H));
    try (injection H as <-; cbn [den ecmp]; reflexivity).
  - (* int, int *) injection H as <-. cbn [den ecmp]. unfold int_cmp. cbn [ring_norm].
    rewrite sgn_cmp_to_Z, (Q_cmp L OK), Qcompare_inject. reflexivity.
  - (* dy, dy *) injection H as <-. cbn [den ecmp]. rewrite dy_cmp_spec, (Q_cmp L OK). reflexivity.
  - (* rat, rat *) injection H as <-. cbn [den ecmp vok] in *. rewrite (q_cmp_spec _ _ Hu Hv), sgn_cmp_to_Z, (Q_cmp L OK). reflexivity.
  - (* alg, alg *) cbn [den ecmp vok] in *. destruct (rn_cmp fuel x x0) as [c0|] eqn:E; cbn in H; try discriminate.
    injection H as <-. rewrite (A_cmp L OK _ _ _ _ Hu Hv E), sgn_cmp_to_Z. reflexivity.
Qed.

(* corollaries: the comparison is a total order on denotations *)
Definition ele (a b : ext R) : Prop := ecmp L a b <> Gt.
Lemma ele_trans a b c : ele a b -> ele b c -> ele a c.
Proof.
  unfold ele. intros H1 H2 H3. destruct (ecmp L a b) eqn:E.
  - rewrite (ecmp_eq_l a b c E) in H3. contradiction.
  - destruct (ecmp L b c) eqn:E2.
    + rewrite <- (ecmp_eq_r a b c E2) in H3. congruence.
    + pose proof (ecmp_lt_trans a b c E E2). congruence.
    + contradiction.
  - contradiction.
Qed.
Lemma sgn_le0_cmp c k : Z.sgn c = cmp_to_Z k -> (c <= 0 <-> k <> Gt).
Proof. destruct k; cbn; intros H; split; intros H1; try congruence; try lia; try discriminate; exfalso; apply H1; reflexivity. Qed.

Lemma v_cmp_antisym fuel u v c c' : vok L u -> vok L v ->
  v_cmp fuel u v = ROk c -> v_cmp fuel v u = ROk c' -> Z.sgn c' = - Z.sgn c.
Proof.
  intros Hu Hv H1 H2. rewrite (v_cmp_spec _ _ _ _ Hu Hv H1), (v_cmp_spec _ _ _ _ Hv Hu H2).
  rewrite (ecmp_opp (den L u) (den L v)), cmp_to_Z_opp. reflexivity.
Qed.
Lemma v_cmp_trans fuel u v w c1 c2 c3 : vok L u -> vok L v -> vok L w ->
  v_cmp fuel u v = ROk c1 -> v_cmp fuel v w = ROk c2 -> v_cmp fuel u w = ROk c3 ->
  c1 <= 0 -> c2 <= 0 -> c3 <= 0.
Proof.
  intros Hu Hv Hw H1 H2 H3 L1 L2.
  apply (sgn_le0_cmp _ _ (v_cmp_spec _ _ _ _ Hu Hv H1)) in L1.
  apply (sgn_le0_cmp _ _ (v_cmp_spec _ _ _ _ Hv Hw H2)) in L2.
  apply (sgn_le0_cmp _ _ (v_cmp_spec _ _ _ _ Hu Hw H3)).
  exact (ele_trans _ _ _ L1 L2).
Qed.
Lemma v_cmp_eq_iff fuel u v c : vok L u -> vok L v -> v_cmp fuel u v = ROk c ->
  (c = 0 <-> eeq L (den L u) (den L v)).
Proof.
  intros Hu Hv H. pose proof (v_cmp_spec _ _ _ _ Hu Hv H) as S. unfold eeq.
  rewrite <- cmp_to_Z_eq0, <- S. rewrite Z.sgn_null_iff. reflexivity.
Qed.
Lemma v_cmp_lt_iff fuel u v c : vok L u -> vok L v -> v_cmp fuel u v = ROk c ->
  (c < 0 <-> ecmp L (den L u) (den L v) = Lt).
Proof.
  intros Hu Hv H. pose proof (v_cmp_spec _ _ _ _ Hu Hv H) as S.
  destruct (ecmp L (den L u) (den L v)); cbn in S; split; intros H1; try discriminate; try reflexivity; lia.
Qed.
Lemma v_cmp_defined fuel u v : v_cmp fuel u v <> RUndef.
Proof.
  destruct u, v; unfold v_cmp; cbn; try discriminate.
  destruct (rn_cmp fuel x x0); cbn; discriminate.
Qed.
Definition is_alg (v : value) : bool := match v with VAlg _ => true | _ => false end.
Lemma v_cmp_total fuel u v : is_alg u && is_alg v = false -> exists c, v_cmp fuel u v = ROk c.
Proof. destruct u, v; unfold v_cmp; cbn; intros H; try discriminate; eexists; reflexivity. Qed.
Lemma v_cmp_ptr_spec fuel u : vok L u ->
  v_cmp_ptr true fuel u u = ROk 0 /\ ecmp L (den L u) (den L u) = Eq.
Proof. intros _. split; [reflexivity|apply ecmp_refl]. Qed.

(* 2. comparison with a rational, sign *)
Lemma v_cmp_rational_spec v q c : vok L v -> q_wf q -> v_cmp_rational v q = ROk c ->
  Z.sgn c = cmp_to_Z (ecmp L (den L v) (EFin (LQ L (QofR q)))).
Proof.
  intros Hv Hq H. destruct v; cbn in H; injection H as <-; cbn [den ecmp vok] in *; try reflexivity.
  - unfold q_cmp_integer. rewrite (q_cmp_spec _ _ Hq (q_wf_int z)), Z.sgn_opp, sgn_cmp_to_Z, (Q_cmp L OK).
    rewrite QofR_int, <- cmp_to_Z_opp. f_equal. apply Qcompare_antisym.
  - rewrite (q_cmp_dyadic_spec _ _ Hq), Z.sgn_opp, sgn_cmp_to_Z, (Q_cmp L OK), <- cmp_to_Z_opp.
    f_equal. apply Qcompare_antisym.
  - rewrite (q_cmp_spec _ _ Hv Hq), sgn_cmp_to_Z, (Q_cmp L OK). reflexivity.
  - rewrite (A_cmp_q L OK _ _ Hv Hq), sgn_cmp_to_Z. reflexivity.
Qed.

Definition ezero : ext R := EFin (LQ L 0%Q).
Lemma q_wf_zero : q_wf (0, 1). Proof. split; cbn; [lia|reflexivity]. Qed.
Lemma v_sgn_spec v : vok L v -> v_sgn v = cmp_to_Z (ecmp L (den L v) ezero).
Proof.
  intros Hv. destruct v; cbn [v_sgn den ecmp ezero vok] in *; try reflexivity.
  - unfold int_sgn. cbn [ring_norm]. rewrite (Q_cmp L OK). change 0%Q with (inject_Z 0). rewrite Qcompare_inject.
    destruct z; reflexivity.
  - rewrite dy_sgn_spec, (Q_cmp L OK). reflexivity.
  - rewrite (q_sgn_spec _ Hv), (Q_cmp L OK). reflexivity.
  - unfold rn_sgn. rewrite (A_cmp_q L OK _ _ Hv q_wf_zero). reflexivity.
Qed.

(* ------------------------------------------------------------------ 3. arithmetic *)
Definition fin (v : value) : Prop := match v with VPinf | VMinf => False | _ => True end.

Definition eadd (a b : ext R) : option (ext R) :=
  match a, b with
  | EFin x, EFin y => Some (EFin (Ladd L x y))
  | EPinf, EMinf | EMinf, EPinf => None
  | EPinf, _ | _, EPinf => Some EPinf
  | EMinf, _ | _, EMinf => Some EMinf
  end.
Definition eneg (a : ext R) : ext R :=
  match a with EFin x => EFin (Lopp L x) | EPinf => EMinf | EMinf => EPinf end.
Definition esub (a b : ext R) : option (ext R) := eadd a (eneg b).
Definition esgn (a : ext R) : comparison := ecmp L a ezero.
Definition emul (a b : ext R) : option (ext R) :=
  match a, b with
  | EFin x, EFin y => Some (EFin (Lmul L x y))
  | _, _ =>
    match esgn a, esgn b with
    | Eq, _ | _, Eq => None
    | Lt, Lt | Gt, Gt => Some EPinf
    | _, _ => Some EMinf
    end
  end.

(* promotion keeps the number *)
Lemma to_same_type_spec u v u' v' : fin u -> fin v -> vok L u -> vok L v -> v_to_same_type u v = Some (u', v') ->
  vok L u' /\ vok L v' /\ eeq L (den L u') (den L u) /\ eeq L (den L v') (den L v) /\ vtype u' = vtype v' /\ fin u' /\ fin v'.
Proof.
  intros Fu Fv Hu Hv H.
  destruct u, v; try contradiction; unfold v_to_same_type in H;
    cbn [vtype Z.eqb Pos.eqb] in H; injection H as <- <-; cbn [vok den eeq ecmp vtype fin va_of_rat] in *;
    repeat split; try assumption; try apply Leq_refl; try exact I;
    try (apply (P_RQ L OK)); try apply q_wf_int; try apply (proj1 (q_from_dyadic_spec _));
    try apply (proj1 (dy_from_integer_spec _)).
  all: try (apply LQ_eq; apply (proj2 (dy_from_integer_spec _))).
  all: try (apply LQ_eq; apply QofR_int).
  all: try (apply LQ_eq; apply (proj2 (q_from_dyadic_spec _))).
  all: try (eapply Leq_trans; [apply (D_RQ L OK); apply q_wf_int|apply LQ_eq; apply QofR_int]).
  all: try (eapply Leq_trans; [apply (D_RQ L OK); apply (proj1 (q_from_dyadic_spec _))|apply LQ_eq; apply (proj2 (q_from_dyadic_spec _))]).
  all: try (apply (D_RQ L OK); assumption).
  all: try assumption.
  all: try (destruct Hu; assumption); try (destruct Hv; assumption).
Qed.
Lemma to_same_type_some u v : fin u -> fin v -> exists p, v_to_same_type u v = Some p.
Proof. destruct u, v; intros Fu Fv; try contradiction; unfold v_to_same_type; cbn; eexists; reflexivity. Qed.

Definition add_same (fuel : nat) (a' b' : value) : vres value :=
  match a', b' with
  | VInt x, VInt y => ROk (VInt (int_add None x y))
  | VDy x, VDy y => ROk (VDy (dy_add NoAlias dy_fresh x y))
  | VRat x, VRat y => ROk (VRat (q_add x y))
  | VAlg x, VAlg y => vr_map VAlg (r_of_opt (rn_add fuel x y))
  | _, _ => RUndef
  end.
Lemma v_add_fin fuel a b : fin a -> fin b ->
  v_add fuel a b = match v_to_same_type a b with None => RUndef | Some (a', b') => add_same fuel a' b' end.
Proof. destruct a, b; intros Fa Fb; try contradiction; reflexivity. Qed.

Lemma add_same_spec fuel a b w : fin a -> fin b -> vtype a = vtype b -> vok L a -> vok L b -> add_same fuel a b = ROk w ->
  vok L w /\ exists x y z, den L a = EFin x /\ den L b = EFin y /\ den L w = EFin z /\ z ~ Ladd L x y.
Proof.
  intros Fa Fb T Ha Hb H. destruct a as [za|da|qa|xa| |], b as [zb|db|qb|xb| |]; try contradiction; try discriminate; cbn [add_same] in H.
  - injection H as <-. split; [exact I|]. do 3 eexists. repeat split. unfold int_add; cbn [ring_norm].
    rewrite inject_Z_plus. apply (Q_add L OK).
  - injection H as <-. rewrite (dy_add_dst NoAlias dy_fresh da db I). destruct (dy_add_spec da db) as [W V].
    split; [exact W|]. do 3 eexists. repeat split. eapply Leq_trans; [apply LQ_eq; exact V|apply (Q_add L OK)].
  - injection H as <-. cbn [vok] in *. destruct (q_add_spec _ _ Ha Hb) as [W V].
    split; [exact W|]. do 3 eexists. repeat split. eapply Leq_trans; [apply LQ_eq; exact V|apply (Q_add L OK)].
  - cbn [vok] in *. destruct (rn_add fuel xa xb) as [z|] eqn:E; cbn in H; try discriminate. injection H as <-.
    destruct (A_add L OK _ _ _ _ Ha Hb E) as [Pz Dz]. split; [exact Pz|]. do 3 eexists. repeat split. exact Dz.
Qed.

Lemma v_add_spec fuel u v w : vok L u -> vok L v -> v_add fuel u v = ROk w ->
  vok L w /\ exists e, eadd (den L u) (den L v) = Some e /\ eeq L (den L w) e.
Proof.
  intros Hu Hv H.
  assert (FIN : fin u -> fin v -> vok L w /\ exists e, eadd (den L u) (den L v) = Some e /\ eeq L (den L w) e).
  { intros Fu Fv. rewrite (v_add_fin _ _ _ Fu Fv) in H.
    destruct (v_to_same_type u v) as [[u' v']|] eqn:E; try discriminate.
    destruct (to_same_type_spec _ _ _ _ Fu Fv Hu Hv E) as (Hu' & Hv' & Du & Dv & T & Fu' & Fv').
    destruct (add_same_spec _ _ _ _ Fu' Fv' T Hu' Hv' H) as (Hw & x & y & z & Ex & Ey & Ez & Hz).
    split; [exact Hw|]. rewrite Ex in Du. rewrite Ey in Dv. rewrite Ez.
    destruct (den L u) as [|xu|] eqn:Eu; try discriminate Du. destruct (den L v) as [|yv|] eqn:Ev; try discriminate Dv.
    eexists. split; [reflexivity|]. unfold eeq in *; cbn [ecmp] in *.
    eapply Leq_trans; [exact Hz|]. apply (add_ext L OK); assumption. }
  destruct u; try (apply FIN; exact I); destruct v; try (apply FIN; exact I); cbn in H; try discriminate;
    injection H as <-; (split; [exact I|]); eexists; (split; [reflexivity|apply eeq_refl]).
Qed.
Lemma vr_map_opt_not_undef {A B} (f : A -> B) (o : option A) : vr_map f (r_of_opt o) <> RUndef.
Proof. destruct o; discriminate. Qed.
Lemma v_add_undef_iff fuel u v : v_add fuel u v = RUndef <-> eadd (den L u) (den L v) = None.
Proof.
  destruct u, v; unfold v_add; cbn [v_to_same_type vtype Z.eqb Pos.eqb den eadd va_of_rat]; split; intros H;
    try discriminate; try reflexivity; exfalso; revert H; apply vr_map_opt_not_undef.
Qed.

Lemma v_neg_spec u : vok L u -> vok L (v_neg u) /\ eeq L (den L (v_neg u)) (eneg (den L u)).
Proof.
  intros Hu. destruct u; cbn [v_neg vok den eneg eeq ecmp] in *; try (split; [exact I|reflexivity]).
  - split; [exact I|]. unfold int_neg; cbn [ring_norm]. rewrite inject_Z_opp. apply (Q_opp L OK).
  - rewrite (dy_neg_dst NoAlias dy_fresh d I). destruct (dy_neg_spec d Hu) as [W V].
    split; [exact W|]. eapply Leq_trans; [apply LQ_eq; exact V|apply (Q_opp L OK)].
  - destruct (q_neg_spec _ Hu) as [W V]. split; [exact W|]. eapply Leq_trans; [apply LQ_eq; exact V|apply (Q_opp L OK)].
  - apply (A_neg L OK _ Hu).
Qed.

Lemma eadd_ext a a' b e : eeq L a a' -> eadd a b = Some e -> exists e', eadd a' b = Some e' /\ eeq L e e'.
Proof.
  unfold eeq. intros H1 H2. destruct a, a', b; cbn in *; try discriminate; injection H2 as <-;
    eexists; (split; [reflexivity|]); cbn; try reflexivity.
  apply (add_ext L OK); [exact H1|apply Leq_refl].
Qed.
Lemma eadd_ext_r a b b' e : eeq L b b' -> eadd a b = Some e -> exists e', eadd a b' = Some e' /\ eeq L e e'.
Proof.
  unfold eeq. intros H1 H2. destruct a, b, b'; cbn in *; try discriminate; injection H2 as <-;
    eexists; (split; [reflexivity|]); cbn; try reflexivity.
  apply (add_ext L OK); [apply Leq_refl|exact H1].
Qed.

Lemma v_sub_spec fuel u v w : vok L u -> vok L v -> v_sub fuel u v = ROk w ->
  vok L w /\ exists e, esub (den L u) (den L v) = Some e /\ eeq L (den L w) e.
Proof.
  intros Hu Hv H. unfold v_sub in H. destruct (v_neg_spec v Hv) as [Hn Dn].
  destruct (v_add_spec _ _ _ _ Hu Hn H) as [Hw [e [E1 E2]]]. split; [exact Hw|].
  destruct (eadd_ext_r _ _ _ _ Dn E1) as [e' [E3 E4]]. exists e'. split; [exact E3|].
  eapply eeq_trans; eassumption.
Qed.

(* multiplication *)
Definition mul_same (fuel : nat) (a' b' : value) : vres value :=
  match a', b' with
  | VInt x, VInt y => ROk (VInt (int_mul None x y))
  | VDy x, VDy y => ROk (VDy (dy_mul NoAlias dy_fresh x y))
  | VRat x, VRat y => ROk (VRat (q_mul x y))
  | VAlg x, VAlg y => vr_map VAlg (r_of_opt (rn_mul fuel x y))
  | _, _ => RUndef
  end.
Lemma v_mul_fin fuel a b : fin a -> fin b ->
  v_mul fuel a b = match v_to_same_type a b with None => RUndef | Some (a', b') => mul_same fuel a' b' end.
Proof. destruct a, b; intros Fa Fb; try contradiction; reflexivity. Qed.

Lemma mul_same_spec fuel a b w : fin a -> fin b -> vtype a = vtype b -> vok L a -> vok L b -> mul_same fuel a b = ROk w ->
  vok L w /\ exists x y z, den L a = EFin x /\ den L b = EFin y /\ den L w = EFin z /\ z ~ Lmul L x y.
Proof.
  intros Fa Fb T Ha Hb H. destruct a as [za|da|qa|xa| |], b as [zb|db|qb|xb| |]; try contradiction; try discriminate; cbn [mul_same] in H.
  - injection H as <-. split; [exact I|]. do 3 eexists. repeat split. unfold int_mul; cbn [ring_norm].
    rewrite inject_Z_mult. apply (Q_mul L OK).
  - injection H as <-. rewrite (dy_mul_dst NoAlias dy_fresh da db I). destruct (dy_mul_spec da db) as [W V].
    split; [exact W|]. do 3 eexists. repeat split. eapply Leq_trans; [apply LQ_eq; exact V|apply (Q_mul L OK)].
  - injection H as <-. cbn [vok] in *. destruct (q_mul_spec _ _ Ha Hb) as [W V].
    split; [exact W|]. do 3 eexists. repeat split. eapply Leq_trans; [apply LQ_eq; exact V|apply (Q_mul L OK)].
  - cbn [vok] in *. destruct (rn_mul fuel xa xb) as [z|] eqn:E; cbn in H; try discriminate. injection H as <-.
    destruct (A_mul L OK _ _ _ _ Ha Hb E) as [Pz Dz]. split; [exact Pz|]. do 3 eexists. repeat split. exact Dz.
Qed.

Lemma v_sgn_esgn v : vok L v -> v_sgn v = cmp_to_Z (esgn (den L v)).
Proof. apply v_sgn_spec. Qed.

Lemma v_mul_spec fuel u v w : vok L u -> vok L v -> v_mul fuel u v = ROk w ->
  vok L w /\ exists e, emul (den L u) (den L v) = Some e /\ eeq L (den L w) e.
Proof.
  intros Hu Hv H.
  assert (FIN : fin u -> fin v -> vok L w /\ exists e, emul (den L u) (den L v) = Some e /\ eeq L (den L w) e).
  { intros Fu Fv. rewrite (v_mul_fin _ _ _ Fu Fv) in H.
    destruct (v_to_same_type u v) as [[u' v']|] eqn:E; try discriminate.
    destruct (to_same_type_spec _ _ _ _ Fu Fv Hu Hv E) as (Hu' & Hv' & Du & Dv & T & Fu' & Fv').
    destruct (mul_same_spec _ _ _ _ Fu' Fv' T Hu' Hv' H) as (Hw & x & y & z & Ex & Ey & Ez & Hz).
    split; [exact Hw|]. rewrite Ex in Du. rewrite Ey in Dv. rewrite Ez.
    destruct (den L u) as [|xu|] eqn:Eu; try discriminate Du. destruct (den L v) as [|yv|] eqn:Ev; try discriminate Dv.
    eexists. split; [reflexivity|]. unfold eeq in *; cbn [ecmp] in *.
    eapply Leq_trans; [exact Hz|]. apply (mul_ext L OK); assumption. }
  assert (INF : v_is_infinity u || v_is_infinity v = true ->
                vok L w /\ exists e, emul (den L u) (den L v) = Some e /\ eeq L (den L w) e).
  { intros I1. unfold v_mul in H. rewrite I1 in H.
    rewrite (v_sgn_esgn u Hu), (v_sgn_esgn v Hv) in H.
    assert (EM : emul (den L u) (den L v) =
                 match esgn (den L u), esgn (den L v) with
                 | Eq, _ | _, Eq => None | Lt, Lt | Gt, Gt => Some EPinf | _, _ => Some EMinf end).
    { destruct u, v; try discriminate I1; reflexivity. }
    rewrite EM. destruct (esgn (den L u)), (esgn (den L v)); cbn in H; try discriminate; injection H as <-;
      (split; [exact I|]); eexists; (split; [reflexivity|apply eeq_refl]). }
  destruct u; try (apply INF; reflexivity); destruct v; try (apply INF; reflexivity); apply FIN; exact I.
Qed.
Lemma v_mul_undef_iff fuel u v : vok L u -> vok L v -> (v_mul fuel u v = RUndef <-> emul (den L u) (den L v) = None).
Proof.
  intros Hu Hv. destruct (v_is_infinity u || v_is_infinity v) eqn:I1.
  - unfold v_mul. rewrite I1, (v_sgn_esgn u Hu), (v_sgn_esgn v Hv).
    assert (EM : emul (den L u) (den L v) =
                 match esgn (den L u), esgn (den L v) with
                 | Eq, _ | _, Eq => None | Lt, Lt | Gt, Gt => Some EPinf | _, _ => Some EMinf end).
    { destruct u, v; try discriminate I1; reflexivity. }
    rewrite EM. destruct (esgn (den L u)), (esgn (den L v)); cbn; split; intros H; try discriminate; reflexivity.
  - destruct u, v; try discriminate I1; unfold v_mul; cbn [v_is_infinity orb v_to_same_type vtype Z.eqb Pos.eqb den emul va_of_rat];
      split; intros H; try discriminate; exfalso; revert H; apply vr_map_opt_not_undef.
Qed.

(* inverse, division *)
Lemma q_inv_spec q i : q_wf q -> q_inv q = Some i -> q_wf i /\ (QofR i * QofR q == 1)%Q.
Proof.
  intros [Hd Hg] H. unfold q_inv in H.
  assert (Hn : fst q <> 0). { intros Hz. unfold q_canon in H. rewrite Hz in H. cbn in H. discriminate. }
  apply q_canon_spec in H. destruct H as [W V]. split; [exact W|].
  assert (E : (QofR i == QofR (snd q, fst q))%Q).
  { apply QofR_eq_iff; cbn [fst snd]; [destruct W; lia|exact Hn|exact V]. }
  rewrite E. unfold QofR. cbn [fst snd]. field. split; apply inj_nz; lia.
Qed.
Lemma q_inv_none_iff q : q_wf q -> (q_inv q = None <-> (QofR q == 0)%Q).
Proof.
  intros [Hd Hg]. unfold q_inv, q_canon. destruct (fst q =? 0) eqn:E.
  - apply Z.eqb_eq in E. split; [intros _|reflexivity]. unfold QofR. rewrite E. field. apply inj_nz; lia.
  - apply Z.eqb_neq in E. split; [destruct (_ <? 0); discriminate|].
    intros H. exfalso. apply E. unfold QofR, Qeq, Qdiv, Qmult, Qinv in H. cbn [Qnum Qden inject_Z] in H.
    destruct (snd q) eqn:Es; try lia. cbn in H. lia.
Qed.

Definition eone : ext R := EFin (LQ L 1%Q).
Lemma LQ_inv_pair i x : (i * x == 1)%Q -> Lmul L (LQ L i) (LQ L x) ~ LQ L 1%Q.
Proof. intros H. eapply Leq_trans; [apply Leq_sym, (Q_mul L OK)|apply LQ_eq; exact H]. Qed.

Lemma v_inv_spec fuel a w : vok L a -> v_inv fuel a = ROk w ->
  vok L w /\ match den L a with
             | EFin x => exists y, den L w = EFin y /\ Lmul L y x ~ LQ L 1%Q
             | _ => eeq L (den L w) ezero
             end.
Proof.
  intros Ha H. destruct a as [z|d|q|x| |]; cbn [v_inv den vok] in *.
  - destruct (q_inv (q_from_integer z)) as [i|] eqn:E; cbn in H; try discriminate. injection H as <-.
    destruct (q_inv_spec _ _ (q_wf_int z) E) as [W V]. split; [exact W|]. eexists. split; [reflexivity|].
    apply LQ_inv_pair. rewrite <- QofR_int. exact V.
  - destruct (q_from_dyadic_spec d) as [Wd Vd].
    destruct (q_inv (q_from_dyadic d)) as [i|] eqn:E; cbn in H; try discriminate. injection H as <-.
    destruct (q_inv_spec _ _ Wd E) as [W V]. split; [exact W|]. eexists. split; [reflexivity|].
    apply LQ_inv_pair. rewrite <- Vd. exact V.
  - destruct (q_inv q) as [i|] eqn:E; cbn in H; try discriminate. injection H as <-.
    destruct (q_inv_spec _ _ Ha E) as [W V]. split; [exact W|]. eexists. split; [reflexivity|].
    apply LQ_inv_pair. exact V.
  - destruct (rn_sgn x =? 0); try discriminate.
    destruct (rn_inv fuel x) as [z|] eqn:E; cbn in H; try discriminate. injection H as <-.
    destruct (A_inv L OK _ _ _ Ha E) as [Pz Dz]. split; [exact Pz|]. eexists. split; [reflexivity|exact Dz].
  - injection H as <-. split; [exact I|]. apply eeq_refl.
  - injection H as <-. split; [exact I|]. apply eeq_refl.
Qed.
Lemma v_inv_undef_iff fuel a : vok L a -> (v_inv fuel a = RUndef <-> eeq L (den L a) ezero).
Proof.
  intros Ha. unfold eeq, ezero. destruct a as [z|d|q|x| |]; cbn [v_inv den vok ecmp] in *.
  - rewrite (Q_cmp L OK), <- Qeq_alt, <- QofR_int, <- (q_inv_none_iff _ (q_wf_int z)).
    destruct (q_inv (q_from_integer z)); cbn; split; intros H; try discriminate; reflexivity.
  - destruct (q_from_dyadic_spec d) as [Wd Vd].
    rewrite (Q_cmp L OK), <- Qeq_alt, <- Vd, <- (q_inv_none_iff _ Wd).
    destruct (q_inv (q_from_dyadic d)); cbn; split; intros H; try discriminate; reflexivity.
  - rewrite (Q_cmp L OK), <- Qeq_alt, <- (q_inv_none_iff _ Ha).
    destruct (q_inv q); cbn; split; intros H; try discriminate; reflexivity.
  - pose proof (v_sgn_spec (VAlg x) Ha) as S. cbn [v_sgn den ecmp ezero] in S. rewrite S.
    destruct (Lcmp L (Lden L x) (LQ L 0%Q)); cbn; split; intros H; try discriminate; try reflexivity;
      exfalso; revert H; apply vr_map_opt_not_undef.
  - split; discriminate.
  - split; discriminate.
Qed.

Lemma v_div_spec fuel a b w : vok L a -> vok L b -> v_div fuel a b = ROk w ->
  vok L w /\ exists bi, v_inv fuel b = ROk bi /\ vok L bi /\
             exists e, emul (den L a) (den L bi) = Some e /\ eeq L (den L w) e.
Proof.
  intros Ha Hb H. unfold v_div in H. destruct (v_inv fuel b) as [bi| |] eqn:E; cbn in H; try discriminate.
  destruct (v_inv_spec _ _ _ Hb E) as [Hbi _].
  destruct (v_mul_spec _ _ _ _ Ha Hbi H) as [Hw He]. split; [exact Hw|]. exists bi. repeat split; assumption.
Qed.
(* finite operands: w = a * i for an i with i * b = 1 *)
Lemma v_div_fin_spec fuel a b w x y : vok L a -> vok L b -> v_div fuel a b = ROk w ->
  den L a = EFin x -> den L b = EFin y ->
  exists i z, Lmul L i y ~ LQ L 1%Q /\ den L w = EFin z /\ z ~ Lmul L x i.
Proof.
  intros Ha Hb H Ex Ey. destruct (v_div_spec _ _ _ _ Ha Hb H) as (Hw & bi & E & Hbi & e & E1 & E2).
  destruct (v_inv_spec _ _ _ Hb E) as [_ S]. rewrite Ey in S. destruct S as (i & Ei & Hi).
  rewrite Ex, Ei in E1. cbn in E1. injection E1 as <-. exists i.
  destruct (den L w) as [|z|] eqn:Ew; try discriminate E2. exists z. repeat split; assumption.
Qed.

(* powers *)
Fixpoint Lpow (x : R) (n : nat) : R :=
  match n with
  | O => LQ L 1%Q
  | S m => match m with O => x | S _ => Lmul L x (Lpow x m) end
  end.
Lemma Lpow_ext x x' n : x ~ x' -> Lpow x n ~ Lpow x' n.
Proof.
  intros H. induction n as [|[|m] IH]; cbn [Lpow]; [apply Leq_refl|exact H|].
  apply (mul_ext L OK); assumption.
Qed.
Lemma LQ_pow q n : LQ L (q ^ Z.of_nat n)%Q ~ Lpow (LQ L q) n.
Proof.
  induction n as [|[|m] IH].
  - apply Leq_refl.
  - apply LQ_eq. cbn. reflexivity.
  - change (Lpow (LQ L q) (S (S m))) with (Lmul L (LQ L q) (Lpow (LQ L q) (S m))).
    eapply Leq_trans; [|apply (mul_ext L OK); [apply Leq_refl|exact IH]].
    eapply Leq_trans; [|apply (Q_mul L OK)]. apply LQ_eq.
    rewrite (Nat2Z.inj_succ (S m)). unfold Z.succ. rewrite Z.add_comm.
    rewrite Qpower_plus' by lia. reflexivity.
Qed.
Lemma rn_pow_spec fuel x n z : LP L x -> rn_pow fuel x n = Some z -> LP L z /\ Lden L z ~ Lpow (Lden L x) n.
Proof.
  intros Hx. revert z. induction n as [|[|m] IH]; intros z H.
  - cbn in H. injection H as <-. split; [apply (P_RQ L OK), q_wf_one|].
    eapply Leq_trans; [apply (D_RQ L OK), q_wf_one|]. apply LQ_eq. unfold QofR; cbn. reflexivity.
  - cbn in H. injection H as <-. split; [exact Hx|apply Leq_refl].
  - change (rn_pow fuel x (S (S m))) with (match rn_pow fuel x (S m) with Some y => rn_mul fuel x y | None => None end) in H.
    destruct (rn_pow fuel x (S m)) as [y|] eqn:E; try discriminate.
    destruct (IH y eq_refl) as [Py Dy]. destruct (A_mul L OK _ _ _ _ Hx Py H) as [Pz Dz]. split; [exact Pz|].
    change (Lpow (Lden L x) (S (S m))) with (Lmul L (Lden L x) (Lpow (Lden L x) (S m))).
    eapply Leq_trans; [exact Dz|]. apply (mul_ext L OK); [apply Leq_refl|exact Dy].
Qed.

Lemma v_pow_spec fuel a n w : vok L a -> v_pow fuel a n = ROk w ->
  vok L w /\ match den L a with
             | EFin x => exists z, den L w = EFin z /\ z ~ Lpow x (N.to_nat n)
             | EPinf => den L w = EPinf
             | EMinf => den L w = if N.odd n then EMinf else EPinf
             end.
Proof.
  intros Ha H. destruct a as [z|d|q|x| |]; cbn [v_pow den vok] in *.
  - injection H as <-. split; [exact I|]. eexists. split; [reflexivity|]. unfold int_pow.
    eapply Leq_trans; [|apply LQ_pow]. apply LQ_eq. rewrite N_nat_Z. apply Zpower_Qpower. lia.
  - injection H as <-. rewrite (dy_pow_dst NoAlias dy_fresh d n I). destruct (dy_pow_spec d n Ha) as [W V].
    split; [exact W|]. eexists. split; [reflexivity|]. eapply Leq_trans; [|apply LQ_pow]. apply LQ_eq.
    rewrite N_nat_Z. exact V.
  - injection H as <-. destruct (q_pow_spec q n Ha) as [W V]. split; [exact W|]. eexists. split; [reflexivity|].
    eapply Leq_trans; [|apply LQ_pow]. apply LQ_eq. rewrite N_nat_Z. exact V.
  - destruct (rn_pow fuel x (N.to_nat n)) as [z|] eqn:E; cbn in H; try discriminate. injection H as <-.
    destruct (rn_pow_spec _ _ _ _ Ha E) as [Pz Dz]. split; [exact Pz|]. eexists. split; [reflexivity|exact Dz].
  - injection H as <-. split; [exact I|reflexivity].
  - destruct (N.odd n); injection H as <-; (split; [exact I|reflexivity]).
Qed.

(* ------------------------------------------------------------------ 4. floor, ceiling, integrality, extraction *)
(* constructor invariant of lp_algebraic_number_construct that floor/ceiling/is_integer rely on:
   the open isolating interval of a proper algebraic number contains no integer *)
Definition int_free (v : value) : Prop :=
  match v with
  | VAlg (RA p lo hi) => forall z, ~ (QofR lo < inject_Z z /\ inject_Z z < QofR hi)%Q
  | _ => True
  end.

Lemma LQ_le p q : (p <= q)%Q -> Lle L (LQ L p) (LQ L q).
Proof. unfold Lle. rewrite (Q_cmp L OK). apply Qle_alt. Qed.
Lemma LQ_lt p q : (p < q)%Q -> Llt L (LQ L p) (LQ L q).
Proof. unfold Llt. rewrite (Q_cmp L OK). apply Qlt_alt. Qed.
Lemma LQ_lt_inv p q : Llt L (LQ L p) (LQ L q) -> (p < q)%Q.
Proof. unfold Llt. rewrite (Q_cmp L OK). apply Qlt_alt. Qed.
Lemma LQ_eq_inv p q : LQ L p ~ LQ L q -> (p == q)%Q.
Proof. unfold Leq. rewrite (Q_cmp L OK). apply Qeq_alt. Qed.
Lemma Leq_le a b : a ~ b -> Lle L a b.
Proof. unfold Leq, Lle. intros ->. discriminate. Qed.
Lemma Llt_le a b : Llt L a b -> Lle L a b.
Proof. unfold Llt, Lle. intros ->. discriminate. Qed.
Lemma Llt_eq_r a b c : Llt L a b -> b ~ c -> Llt L a c.
Proof. unfold Llt. intros H1 H2. rewrite <- (Lcmp_eq_r a b c H2). exact H1. Qed.
Lemma Llt_eq_l a b c : a ~ b -> Llt L b c -> Llt L a c.
Proof. unfold Llt. intros H1 H2. rewrite (Lcmp_eq_l a b c H1). exact H2. Qed.
Lemma Lle_eq_r a b c : Lle L a b -> b ~ c -> Lle L a c.
Proof. unfold Lle. intros H1 H2. rewrite <- (Lcmp_eq_r a b c H2). exact H1. Qed.
Lemma Lle_eq_l a b c : a ~ b -> Lle L b c -> Lle L a c.
Proof. unfold Lle. intros H1 H2. rewrite (Lcmp_eq_l a b c H1). exact H2. Qed.
Lemma Llt_irrefl a : ~ Llt L a a.
Proof. unfold Llt. rewrite (O_refl L OK). discriminate. Qed.
Lemma Llt_not_le a b : Llt L a b -> ~ Lle L b a.
Proof. unfold Llt, Lle. intros H1 H2. apply H2. apply Lcmp_gt_lt. exact H1. Qed.

Definition is_floor (z : Z) (x : R) : Prop := Lle L (LQ L (inject_Z z)) x /\ Llt L x (LQ L (inject_Z (z + 1))).
Definition is_ceiling (z : Z) (x : R) : Prop := Llt L (LQ L (inject_Z (z - 1))) x /\ Lle L x (LQ L (inject_Z z)).

Lemma inject_lt_inv a b : (inject_Z a < inject_Z b)%Q -> a < b.
Proof. rewrite <- Zlt_Qlt. trivial. Qed.
Lemma is_floor_unique z z' x x' : is_floor z x -> is_floor z' x' -> x ~ x' -> z = z'.
Proof.
  intros [A1 A2] [B1 B2] E.
  assert (H1 : z < z' + 1).
  { apply inject_lt_inv, LQ_lt_inv. eapply Lle_lt_trans; [exact A1|]. eapply Llt_eq_l; [exact E|exact B2]. }
  assert (H2 : z' < z + 1).
  { apply inject_lt_inv, LQ_lt_inv. eapply Lle_lt_trans; [exact B1|]. eapply Llt_eq_l; [apply Leq_sym; exact E|exact A2]. }
  lia.
Qed.
Lemma is_ceiling_unique z z' x x' : is_ceiling z x -> is_ceiling z' x' -> x ~ x' -> z = z'.
Proof.
  intros [A1 A2] [B1 B2] E.
  assert (H1 : z - 1 < z').
  { apply inject_lt_inv, LQ_lt_inv. eapply Llt_le_trans; [exact A1|]. eapply Lle_eq_l; [exact E|exact B2]. }
  assert (H2 : z' - 1 < z).
  { apply inject_lt_inv, LQ_lt_inv. eapply Llt_le_trans; [exact B1|]. eapply Lle_eq_l; [apply Leq_sym; exact E|exact A2]. }
  lia.
Qed.

Lemma is_floor_Q z q : (inject_Z z <= q /\ q < inject_Z (z + 1))%Q -> is_floor z (LQ L q).
Proof. intros [H1 H2]. split; [apply LQ_le|apply LQ_lt]; assumption. Qed.
Lemma is_ceiling_Q z q : (inject_Z (z - 1) < q /\ q <= inject_Z z)%Q -> is_ceiling z (LQ L q).
Proof. intros [H1 H2]. split; [apply LQ_lt|apply LQ_le]; assumption. Qed.
Lemma is_floor_eq z x y : x ~ y -> is_floor z x -> is_floor z y.
Proof. intros E [H1 H2]. split; [eapply Lle_eq_r; eassumption|eapply Llt_eq_l; [apply Leq_sym; exact E|exact H2]]. Qed.
Lemma is_ceiling_eq z x y : x ~ y -> is_ceiling z x -> is_ceiling z y.
Proof. intros E [H1 H2]. split; [eapply Llt_eq_r; eassumption|eapply Lle_eq_l; [apply Leq_sym; exact E|exact H2]]. Qed.

Lemma v_floor_spec v z : vok L v -> int_free v -> v_floor v = ROk z ->
  exists x, den L v = EFin x /\ is_floor z x.
Proof.
  intros Hv Hf H. destruct v as [a|d|q|x| |]; cbn [v_floor den vok] in *; try discriminate; injection H as <-;
    eexists; (split; [reflexivity|]).
  - apply is_floor_Q. rewrite <- Zle_Qle, <- Zlt_Qlt. lia.
  - apply is_floor_Q. apply dy_floor_spec.
  - apply is_floor_Q. apply (q_floor_spec _ Hv).
  - destruct x as [q|p lo hi]; cbn [va_floor].
    + pose proof (P_RQ_wf L OK _ Hv) as W. eapply is_floor_eq; [apply Leq_sym, (D_RQ L OK _ W)|].
      apply is_floor_Q. apply (q_floor_spec _ W).
    + destruct (P_RA L OK _ _ _ Hv) as (Wl & Wh & B1 & B2). destruct (q_floor_spec _ Wl) as [F1 F2]. split.
      * apply Llt_le. eapply Lle_lt_trans; [apply LQ_le; exact F1|exact B1].
      * cbn [int_free] in Hf. eapply Llt_le_trans; [exact B2|]. apply LQ_le.
        destruct (Qlt_le_dec (inject_Z (q_floor lo + 1)) (QofR hi)) as [C|C]; [|exact C].
        exfalso. apply (Hf (q_floor lo + 1)). split; assumption.
Qed.
Lemma v_ceiling_spec v z : vok L v -> int_free v -> v_ceiling v = ROk z ->
  exists x, den L v = EFin x /\ is_ceiling z x.
Proof.
  intros Hv Hf H. destruct v as [a|d|q|x| |]; cbn [v_ceiling den vok] in *; try discriminate; injection H as <-;
    eexists; (split; [reflexivity|]).
  - apply is_ceiling_Q. rewrite <- Zle_Qle, <- Zlt_Qlt. lia.
  - apply is_ceiling_Q. apply dy_ceiling_spec.
  - apply is_ceiling_Q. apply (q_ceiling_spec _ Hv).
  - destruct x as [q|p lo hi]; cbn [va_ceiling].
    + pose proof (P_RQ_wf L OK _ Hv) as W. eapply is_ceiling_eq; [apply Leq_sym, (D_RQ L OK _ W)|].
      apply is_ceiling_Q. apply (q_ceiling_spec _ W).
    + destruct (P_RA L OK _ _ _ Hv) as (Wl & Wh & B1 & B2). destruct (q_ceiling_spec _ Wh) as [F1 F2]. split.
      * cbn [int_free] in Hf. eapply Lle_lt_trans; [|exact B1]. apply LQ_le.
        destruct (Qlt_le_dec (QofR lo) (inject_Z (q_ceiling hi - 1))) as [C|C]; [|exact C].
        exfalso. apply (Hf (q_ceiling hi - 1)). split; assumption.
      * apply Llt_le. eapply Llt_le_trans; [exact B2|apply LQ_le; exact F2].
Qed.
Lemma v_floor_undef_iff v : v_floor v = RUndef <-> ~ fin v.
Proof. destruct v; cbn; split; intros H; try discriminate; try tauto; exfalso; apply H; exact I. Qed.

Lemma v_is_integer_spec v : vok L v -> int_free v ->
  (v_is_integer v = true <-> exists z, eeq L (den L v) (EFin (LQ L (inject_Z z)))).
Proof.
  intros Hv Hf. unfold eeq. destruct v as [a|d|q|x| |]; cbn [v_is_integer den vok ecmp] in *.
  - split; [intros _; exists a; apply Leq_refl|reflexivity].
  - rewrite (dy_is_integer_spec _ Hv). split; intros [z Hz]; exists z; [apply LQ_eq; exact Hz|apply LQ_eq_inv; exact Hz].
  - rewrite (q_is_integer_spec _ Hv). split; intros [z Hz]; exists z; [apply LQ_eq; exact Hz|apply LQ_eq_inv; exact Hz].
  - destruct x as [q|p lo hi]; cbn [va_is_integer].
    + pose proof (P_RQ_wf L OK _ Hv) as W. pose proof (D_RQ L OK _ W) as D. rewrite (q_is_integer_spec _ W).
      split; intros [z Hz]; exists z.
      * eapply Leq_trans; [exact D|apply LQ_eq; exact Hz].
      * apply LQ_eq_inv. eapply Leq_trans; [apply Leq_sym; exact D|exact Hz].
    + split; [discriminate|]. intros [z Hz]. exfalso.
      destruct (P_RA L OK _ _ _ Hv) as (Wl & Wh & B1 & B2). cbn [int_free] in Hf. apply (Hf z). split; apply LQ_lt_inv.
      * eapply Llt_eq_r; eassumption.
      * eapply Llt_eq_l; [apply Leq_sym; exact Hz|exact B2].
  - split; [discriminate|intros [z Hz]; discriminate].
  - split; [discriminate|intros [z Hz]; discriminate].
Qed.

Lemma q_canon'_wf n d : q_wf (q_canon' (n, d)).
Proof.
  destruct (Z.eq_dec d 0) as [->|Hd].
  - unfold q_canon', q_canon. cbn. apply q_wf_zero.
  - apply (q_canon'_spec n d Hd).
Qed.
Lemma va_lin_root_wf p : q_wf (va_lin_root p).
Proof. unfold va_lin_root. apply q_neg_spec. apply q_canon'_wf. Qed.

Lemma v_get_rational_spec v q : vok L v -> v_get_rational v = ROk q ->
  q_wf q /\ eeq L (den L v) (EFin (LQ L (QofR q))).
Proof.
  intros Hv H. unfold eeq. destruct v as [a|d|r|x| |]; cbn [v_get_rational den vok ecmp] in *; try discriminate.
  - injection H as <-. split; [apply q_wf_int|]. apply LQ_eq. symmetry. apply QofR_int.
  - injection H as <-. destruct (q_from_dyadic_spec d) as [W V]. split; [exact W|]. apply LQ_eq. symmetry. exact V.
  - injection H as <-. split; [exact Hv|apply Leq_refl].
  - destruct x as [r|p lo hi]; cbn [va_get_rational] in H.
    + injection H as <-. pose proof (P_RQ_wf L OK _ Hv) as W. split; [exact W|apply (D_RQ L OK _ W)].
    + destruct (Nat.eqb (pdeg p) 1) eqn:E; try discriminate. injection H as <-. apply Nat.eqb_eq in E.
      split; [apply va_lin_root_wf|apply (A_lin L OK _ _ _ Hv E)].
Qed.
Lemma v_is_rational_sound v : vok L v -> v_is_rational v = true ->
  exists q, v_get_rational v = ROk q /\ q_wf q /\ eeq L (den L v) (EFin (LQ L (QofR q))).
Proof.
  intros Hv H.
  assert (E : exists q, v_get_rational v = ROk q).
  { destruct v as [a|d|r|x| |]; cbn in *; try discriminate; try (eexists; reflexivity).
    destruct x as [r|p lo hi]; cbn in *; [eexists; reflexivity|]. rewrite H. eexists; reflexivity. }
  destruct E as [q E]. exists q. split; [exact E|]. apply (v_get_rational_spec _ _ Hv E).
Qed.

Lemma not_div2_odd a : Z.odd a = true -> ~ (2 | a).
Proof. intros Ho [k Hk]. subst a. rewrite Z.odd_mul in Ho. cbn in Ho. rewrite andb_false_r in Ho. discriminate. Qed.
Lemma gcd_odd_pow2 a n : Z.odd a = true -> Z.gcd a (pow2 n) = 1.
Proof.
  intros Ho. apply Znumtheory.Zgcd_1_rel_prime. unfold pow2.
  apply rel_prime_Zpower_r; [lia|]. apply Znumtheory.rel_prime_sym.
  apply Znumtheory.prime_rel_prime; [apply Znumtheory.prime_2|apply not_div2_odd; exact Ho].
Qed.
Lemma dy_num_den_wf d : dy_wf d -> q_wf (dy_get_num d, dy_get_den d).
Proof.
  intros W. unfold dy_get_num, dy_get_den. split; cbn [fst snd]; [apply pow2_pos|].
  destruct W as [[W1 W2]|[W|W]].
  - rewrite W1, W2. reflexivity.
  - apply gcd_odd_pow2. exact W.
  - rewrite W, pow2_0. apply Z.gcd_1_r.
Qed.

Lemma v_get_num_den_spec v n d : vok L v -> v_get_num v = ROk n -> v_get_den v = ROk d ->
  v_is_rational v = true /\ q_wf (n, d) /\ eeq L (den L v) (EFin (LQ L (QofR (n, d)))).
Proof.
  intros Hv Hn Hd. unfold v_get_num in Hn. unfold v_get_den in Hd.
  destruct (v_is_rational v) eqn:IR; cbn [negb] in *; try discriminate. split; [reflexivity|]. unfold eeq.
  destruct v as [a|dd|r|x| |]; cbn [den vok ecmp] in *; try discriminate.
  - injection Hn as <-. injection Hd as <-. split; [apply (q_wf_int a)|]. apply LQ_eq. symmetry. apply (QofR_int a).
  - injection Hn as <-. injection Hd as <-. split; [apply dy_num_den_wf; exact Hv|apply Leq_refl].
  - injection Hn as <-. injection Hd as <-. destruct r as [rn rd]. split; [exact Hv|apply Leq_refl].
  - destruct (va_get_rational x) as [[rn rd]| |] eqn:E; cbn in Hn, Hd; try discriminate.
    injection Hn as <-. injection Hd as <-.
    apply (v_get_rational_spec (VAlg x) (rn, rd) Hv E).
Qed.
Lemma v_get_num_defined v : v_is_rational v = true -> exists n d, v_get_num v = ROk n /\ v_get_den v = ROk d.
Proof.
  intros H. unfold v_get_num, v_get_den. rewrite H. cbn [negb].
  destruct v as [a|dd|r|x| |]; cbn in *; try discriminate; try (do 2 eexists; split; reflexivity).
  destruct x as [r|p lo hi]; cbn in *; [do 2 eexists; split; reflexivity|]. rewrite H. cbn. do 2 eexists; split; reflexivity.
Qed.

(* ---- all of these depend only on the number, not on the representation *)
Lemma floor_repr_indep u v a b : vok L u -> vok L v -> int_free u -> int_free v ->
  eeq L (den L u) (den L v) -> v_floor u = ROk a -> v_floor v = ROk b -> a = b.
Proof.
  intros Hu Hv Fu Fv E H1 H2.
  destruct (v_floor_spec _ _ Hu Fu H1) as (x & Ex & Fx). destruct (v_floor_spec _ _ Hv Fv H2) as (y & Ey & Fy).
  rewrite Ex, Ey in E. eapply is_floor_unique; eassumption.
Qed.
Lemma ceiling_repr_indep u v a b : vok L u -> vok L v -> int_free u -> int_free v ->
  eeq L (den L u) (den L v) -> v_ceiling u = ROk a -> v_ceiling v = ROk b -> a = b.
Proof.
  intros Hu Hv Fu Fv E H1 H2.
  destruct (v_ceiling_spec _ _ Hu Fu H1) as (x & Ex & Fx). destruct (v_ceiling_spec _ _ Hv Fv H2) as (y & Ey & Fy).
  rewrite Ex, Ey in E. eapply is_ceiling_unique; eassumption.
Qed.
Lemma is_integer_repr_indep u v : vok L u -> vok L v -> int_free u -> int_free v ->
  eeq L (den L u) (den L v) -> v_is_integer u = v_is_integer v.
Proof.
  intros Hu Hv Fu Fv E. apply eq_true_iff_eq.
  rewrite (v_is_integer_spec _ Hu Fu), (v_is_integer_spec _ Hv Fv).
  split; intros [z Hz]; exists z; [eapply eeq_trans; [apply eeq_sym; exact E|exact Hz]|eapply eeq_trans; eassumption].
Qed.
Lemma sgn_repr_indep u v : vok L u -> vok L v -> eeq L (den L u) (den L v) -> v_sgn u = v_sgn v.
Proof. intros Hu Hv E. rewrite (v_sgn_spec _ Hu), (v_sgn_spec _ Hv). f_equal. apply ecmp_eq_l. exact E. Qed.
Lemma num_den_repr_indep u v n d n' d' : vok L u -> vok L v -> eeq L (den L u) (den L v) ->
  v_get_num u = ROk n -> v_get_den u = ROk d -> v_get_num v = ROk n' -> v_get_den v = ROk d' -> n = n' /\ d = d'.
Proof.
  intros Hu Hv E H1 H2 H3 H4.
  destruct (v_get_num_den_spec _ _ _ Hu H1 H2) as (_ & W & D). destruct (v_get_num_den_spec _ _ _ Hv H3 H4) as (_ & W' & D').
  assert (Q : (QofR (n, d) == QofR (n', d'))%Q).
  { apply LQ_eq_inv. change (eeq L (EFin (LQ L (QofR (n, d)))) (EFin (LQ L (QofR (n', d'))))).
    eapply eeq_trans; [apply eeq_sym; exact D|]. eapply eeq_trans; [exact E|exact D']. }
  pose proof (q_wf_unique _ _ W W' Q) as U. injection U as -> ->. split; reflexivity.
Qed.
Lemma cmp_repr_indep fuel u u' v v' c c' : vok L u -> vok L u' -> vok L v -> vok L v' ->
  eeq L (den L u) (den L u') -> eeq L (den L v) (den L v') ->
  v_cmp fuel u v = ROk c -> v_cmp fuel u' v' = ROk c' -> Z.sgn c = Z.sgn c'.
Proof.
  intros Hu Hu' Hv Hv' E1 E2 H1 H2.
  rewrite (v_cmp_spec _ _ _ _ Hu Hv H1), (v_cmp_spec _ _ _ _ Hu' Hv' H2).
  rewrite (ecmp_eq_l _ _ _ E1), (ecmp_eq_r _ _ _ E2). reflexivity.
Qed.
End Line.
