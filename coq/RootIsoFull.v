(* Property C06 - the faithful model of libpoly's root counting / isolation proved against the real roots.
   Part A: the square-free factor loop of the model (lp_sqfree_factors: content, power of x, gcd loop on the
           reference gcd / exact division) splits the distinct real roots of f: every factor is non-zero, divides f
           over Z, and for every real x the multiplicities of x in the factors sum to [x is a root of f]
           (so every real root of a factor is simple and the factors have pairwise disjoint real roots).
   Part B: lp_roots_count f (Some J) = number of distinct real roots of f in J  (C06_libpoly_count_full).
   Part C: the bisection (lp_isolate / lp_anum_construct) per square-free factor. *)
From Coq Require Import ZArith.
From LP Require Import Scalar UPoly RootIso RefAlg Gcd.
Set Warnings "-notation-overridden,-ambiguous-paths".
From mathcomp Require Import all_ssreflect all_algebra all_real_closed.
From mathcomp Require Import ssrZ zify.
Set Warnings "notation-overridden,ambiguous-paths".
From LP Require Import UPolySpec ScalarProofs GcdSpec FactorProofs RootIsoProofs SturmItv RefAlgSpec RefAlgSqfree RefAlgValid.
Import GRing.Theory Num.Theory Num.Def Order.TTheory.
Set Implicit Arguments.
Unset Strict Implicit.
Unset Printing Implicit Defensive.
Local Open Scope ring_scope.

(* ---------------------------------------------------------------- exact quotient *)
Lemma ri_pquoP (a b : seq Z) : Poly b != 0 -> rdvd (Poly b) (Poly a) -> Poly a = Poly b * Poly (ri_pquo a b).
Proof.
move=> b0 dv; have [q E] := RefAlgValid.pdiv_exact_complete b0 dv.
by rewrite /ri_pquo E; exact: pdiv_exact_sound E.
Qed.

Section MuR.
Variable R : rcfType.
Local Notation PR := (PR R).
Local Notation ZtoR := (ZtoR R).

Lemma eqp_mu (p q : {poly R}) x : p %= q -> \mu_x p = \mu_x q.
Proof.
have [->|p0] := eqVneq p 0; first by rewrite eqp_sym eqp0 => /eqP ->.
move=> /eqpP [[c1 c2] /= /andP[c10 c20] E].
by rewrite -(mu_mulC p x c10) E mu_mulC.
Qed.

Lemma mu_gcdp (p q : {poly R}) x : p != 0 -> q != 0 -> \mu_x (gcdp p q) = minn (\mu_x p) (\mu_x q).
Proof.
move=> p0 q0; have g0 : gcdp p q != 0 by rewrite gcdp_eq0 (negPf p0).
apply/eqP; rewrite eqn_leq; apply/andP; split.
  have h : ('X - x%:P) ^+ (\mu_x (gcdp p q)) %| gcdp p q by rewrite root_le_mu.
  rewrite leq_min -(root_le_mu _ _ p0) -(root_le_mu _ _ q0).
  by rewrite (dvdp_trans h (dvdp_gcdl p q)) (dvdp_trans h (dvdp_gcdr p q)).
by rewrite -root_le_mu // dvdp_gcd !root_le_mu // geq_minl geq_minr.
Qed.

Lemma PRM (a b c : seq Z) : Poly a = Poly b * Poly c -> PR a = PR b * PR c.
Proof. by move=> E; rewrite /RootIsoProofs.PR E rmorphM. Qed.

Lemma PR_pgcd_eqp (a b : seq Z) : Poly a != 0 -> PR (pgcd a b) %= gcdp (PR a) (PR b).
Proof. exact: (@pr_pgcd R). Qed.

Lemma root_mu1 (G : {poly R}) x : G != 0 -> (\mu_x G <= 1)%N -> (root G x : nat) = \mu_x G.
Proof. by move=> G0; rewrite -mu_gt0 //; case: (\mu_x G) => [|[|n]]. Qed.

(* ---------------------------------------------------------------- the gcd loop *)
Lemma sqfree_loopP (g0 : seq Z) (m : R -> nat) fuel (P L : seq Z) (k : nat) :
  Poly P != 0 -> Poly L != 0 ->
  (forall x : R, \mu_x (PR P) = (m x - k)%N /\ \mu_x (PR L) = (k <= m x)%N :> nat) ->
  rdvd (Poly L) (Poly g0) ->
  (size (PR L) <= 1)%N \/ (size (PR P) < fuel)%N ->
  [/\ forall gk, gk \in lp_sqfree_loop fuel P L k -> PR gk.1 != 0 /\ rdvd (Poly gk.1) (Poly g0)
    & forall x : R, (\sum_(gk <- lp_sqfree_loop fuel P L k) \mu_x (PR gk.1) = (k <= m x)%N :> nat)%N].
Proof.
have constL (L0 : seq Z) (k0 : nat) : Poly L0 != 0 -> (size (PR L0) <= 1)%N ->
    (forall x : R, \mu_x (PR L0) = (k0 <= m x)%N :> nat) -> forall x : R, (0 = (k0 <= m x)%N :> nat)%N.
  move=> L00 sz mu x; rewrite -mu muNroot //; apply/negP => rx.
  have L0R : PR L0 != 0 by rewrite PR_neq0.
  by have := root_size_gt1 L0R rx; rewrite ltnNge sz.
elim: fuel P L k => [|fuel IH] P L k P0 L0 mu dvL bound.
  rewrite /=; split=> // x; rewrite big_nil.
  case: bound => [sz|//]; apply: (constL L k) => // y; by case: (mu y).
rewrite [lp_sqfree_loop _ _ _ _]/=.
case: (boolP (Nat.leb _ _)) => [/Nat.leb_le le1|nle].
  split=> // x; rewrite big_nil; apply: (constL L k) => //.
    by rewrite size_PR; apply/ssrnat.leP.
  by move=> y; case: (mu y).
have szL : (1 < size (PR L))%N.
  by rewrite size_PR ltnNge; apply: contra nle => /ssrnat.leP/Nat.leb_le.
have szP : (size (PR P) < fuel.+1)%N by case: bound => //; rewrite leqNgt szL.
set Rg := pgcd P L.
have [dRP dRL] := pgcd_dvd P L; rewrite -/Rg in dRP dRL.
have Rg0 : Poly Rg != 0 by apply: contra_neq P0 => r0; case: dRP => u ->; rewrite r0 mul0r.
have EL := ri_pquoP Rg0 dRL; have EP := ri_pquoP Rg0 dRP.
have ELR := PRM EL; have EPR := PRM EP.
have PR0 : PR P != 0 by rewrite PR_neq0.
have LR0 : PR L != 0 by rewrite PR_neq0.
have RR0 : PR Rg != 0 by rewrite PR_neq0.
have Q0 : Poly (ri_pquo L Rg) != 0 by apply: contra_neq L0 => q0; rewrite EL q0 mulr0.
have P'0 : Poly (ri_pquo P Rg) != 0 by apply: contra_neq P0 => q0; rewrite EP q0 mulr0.
have QR0 : PR (ri_pquo L Rg) != 0 by rewrite PR_neq0.
have P'R0 : PR (ri_pquo P Rg) != 0 by rewrite PR_neq0.
have muR x : \mu_x (PR Rg) = minn (m x - k) (k <= m x)%N.
  by rewrite (eqp_mu x (PR_pgcd_eqp L P0)) mu_gcdp //; case: (mu x) => -> ->.
have muQ x : (\mu_x (PR (ri_pquo L Rg)) = (m x == k) :> nat)%N.
  have := mu_mul x (_ : PR Rg * PR (ri_pquo L Rg) != 0); rewrite -ELR => /(_ LR0).
  by rewrite muR; case: (mu x) => _ ->; lia.
have muP' x : (\mu_x (PR (ri_pquo P Rg)) = m x - k.+1)%N.
  have := mu_mul x (_ : PR Rg * PR (ri_pquo P Rg) != 0); rewrite -EPR => /(_ PR0).
  by rewrite muR; case: (mu x) => -> _; lia.
have muR' x : (\mu_x (PR Rg) = (k.+1 <= m x)%N :> nat)%N by rewrite muR; lia.
have bound' : (size (PR Rg) <= 1)%N \/ (size (PR (ri_pquo P Rg)) < fuel)%N.
  case: (leqP (size (PR Rg)) 1) => [|sz2]; [by left | right].
  have := size_mul RR0 P'R0; rewrite -EPR.
  by move: (size (PR P)) (size (PR Rg)) (size (PR (ri_pquo P Rg))) szP sz2 => a b c; lia.
have dvR : rdvd (Poly Rg) (Poly g0) := rdvd_trans dRL dvL.
have [IH1 IH2] := IH (ri_pquo P Rg) Rg k.+1 P'0 Rg0 (fun x => conj (muP' x) (muR' x)) dvR bound'.
have dvQ : rdvd (Poly (ri_pquo L Rg)) (Poly g0).
  by apply: rdvd_trans dvL; exists (Poly Rg); rewrite EL mulrC.
split.
  move=> gk; rewrite mem_cat => /orP[|/IH1 //].
  by case: ifP => // _; rewrite inE => /eqP ->.
move=> x; rewrite big_cat /= IH2.
case: ifP => [/(PR_peqb R) E|_].
  rewrite big_nil; have := muQ x.
  have := mu_mul x (_ : PR Rg * PR (ri_pquo L Rg) != 0); rewrite -ELR => /(_ LR0).
  by rewrite -E; lia.
by rewrite big_seq1 /= muQ; lia.
Qed.

End MuR.

(* ---------------------------------------------------------------- the power of x *)
Lemma ri_strip_xP (p : seq Z) :
  Poly p = Poly (ri_strip_x p).1 * 'X^(ri_strip_x p).2
  /\ (Poly (ri_strip_x p).1 != 0 -> nth 0 (ri_strip_x p).1 0 != 0).
Proof.
elim: p => [|c p [IH1 IH2]]; first by rewrite /= mul0r eqxx.
case: c => [|c|c]; rewrite ?[ri_strip_x (Zpos _ :: _)]/= ?[ri_strip_x (Zneg _ :: _)]/= ?expr0 ?mulr1 //.
rewrite [ri_strip_x _]/=.
case E: (ri_strip_x p) IH1 IH2 => [r k] /= IH1 IH2; split=> //.
by rewrite -[cons_poly _ _]/(Poly (0%ZZ :: p)) Poly_cons0 polyC0 add0r IH1 exprSr mulrA.
Qed.

Section FactorSpec.
Variable R : rcfType.
Local Notation PR := (PR R).
Local Notation ZtoR := (ZtoR R).

Lemma PR_X : PR [:: 0%ZZ; 1%ZZ] = 'X.
Proof.
rewrite !PR_cons PR_nil mul0r addr0.
have -> : ZtoR 0%ZZ = 0 by exact: (rmorph0 (ZtoR_rmorphism R)).
have -> : ZtoR 1%ZZ = 1 by exact: (rmorph1 (ZtoR_rmorphism R)).
by rewrite add0r mul1r.
Qed.

Lemma mu_X (x : R) : \mu_x ('X : {poly R}) = (x == 0) :> nat.
Proof.
have [->|x0] := eqVneq x 0; first by rewrite -['X]subr0 -polyC0 mu_XsubC.
by rewrite muNroot // rootX.
Qed.

Lemma horner0_PR (g : seq Z) : (PR g).[0] = ZtoR (nth 0%ZZ g 0).
Proof.
case: g => [|c g] /=; first by rewrite PR_nil horner0; exact: (esym (rmorph0 (ZtoR_rmorphism R))).
by rewrite PR_cons hornerD hornerC hornerMX mulr0 addr0.
Qed.

Lemma const_noroot (g : seq Z) (x : R) : PR g != 0 -> (size (PR g) <= 1)%N -> ~~ root (PR g) x.
Proof. by move=> g0 sz; apply/negP => rx; have := root_size_gt1 g0 rx; rewrite ltnNge sz. Qed.

(* THE specification of the square-free factor list of the model *)
Theorem lp_sqfree_factors_spec (f : seq Z) : PR f != 0 ->
  [/\ forall gk, gk \in lp_sqfree_factors f -> PR gk.1 != 0 /\ rdvd (Poly gk.1) (Poly f),
      forall gk, gk \in lp_sqfree_factors f -> gk.1 = [:: 0%ZZ; 1%ZZ] \/ ~~ root (PR gk.1) 0
    & forall x : R, (\sum_(gk <- lp_sqfree_factors f) \mu_x (PR gk.1) = root (PR f) x :> nat)%N].
Proof.
move=> f0; have f0' : Poly f != 0 by rewrite -(PR_neq0 R).
rewrite /lp_sqfree_factors; set fpp := ppp f.
have [c c0 fE] := PR_ppp_scale R f0'; rewrite -/fpp in fE.
have fpp0 : Poly fpp != 0 by rewrite Poly_ppp_eq0.
have dvpp : rdvd (Poly fpp) (Poly f) := ppp_dvd f.
have [sE sH] := ri_strip_xP fpp.
case E: (ri_strip_x fpp) sE sH => [g xdeg] /= sE sH.
have g0 : Poly g != 0 by apply: contra_neq fpp0 => g0; rewrite sE g0 mul0r.
have gR0 : PR g != 0 by rewrite PR_neq0.
have dvg : rdvd (Poly g) (Poly f) by apply: rdvd_trans dvpp; exists ('X^xdeg).
have g00 : ~~ root (PR g) 0.
  by rewrite /root horner0_PR ZtoR_eq0; exact: sH.
have fppE : PR fpp = PR g * 'X^xdeg.
  by rewrite /RootIsoProofs.PR sE rmorphM /= rmorphX /= map_polyX.
have rootf x : root (PR f) x = root (PR g) x || ((xdeg != 0)%N && (x == 0)).
  rewrite fE rootZ // fppE rootM; congr (_ || _).
  case: xdeg {E sE fppE dvg} => [|n]; rewrite /root ?expr0 ?hornerC ?oner_eq0 //=.
  by rewrite horner_exp hornerX expf_eq0.
set fs := (if Nat.leb _ _ then _ else _).
have [fs1 fs2] : (forall gk, gk \in fs -> [/\ PR gk.1 != 0, rdvd (Poly gk.1) (Poly f) & ~~ root (PR gk.1) 0])
    /\ forall x : R, (\sum_(gk <- fs) \mu_x (PR gk.1) = root (PR g) x :> nat)%N.
  rewrite /fs; case: (boolP (Nat.leb _ _)) => [/Nat.leb_le le1|nle].
    split=> // x; rewrite big_nil (negPf (const_noroot x gR0 _)) //.
    by rewrite size_PR; apply/ssrnat.leP.
  have szg : (1 < size (PR g))%N.
    by rewrite size_PR ltnNge; apply: contra nle => /ssrnat.leP/Nat.leb_le.
  set P := pgcd g (pderiv g).
  have [dPg _] := pgcd_dvd g (pderiv g); rewrite -/P in dPg.
  have P0 : Poly P != 0 by apply: contra_neq g0 => r0; case: dPg => u ->; rewrite r0 mul0r.
  have EL := ri_pquoP P0 dPg; have ELR := PRM R EL.
  have L0 : Poly (ri_pquo g P) != 0 by apply: contra_neq g0 => q0; rewrite EL q0 mulr0.
  have PR0 : PR P != 0 by rewrite PR_neq0.
  have g'0 : (PR g)^`() != 0.
    by rewrite -size_poly_gt0 size_deriv; move: (size (PR g)) szg => n; lia.
  have muP x : (\mu_x (PR P) = \mu_x (PR g) - 1)%N.
    rewrite (eqp_mu x (PR_pgcd_eqp R (pderiv g) g0)) PR_pderiv mu_gcdp //.
    have [rx|nrx] := boolP (root (PR g) x); first by rewrite mu_deriv //; apply/minn_idPr; exact: leq_subr.
    by rewrite (muNroot nrx) min0n.
  have muL x : (\mu_x (PR (ri_pquo g P)) = (1 <= \mu_x (PR g))%N :> nat)%N.
    have := mu_mul x (_ : PR P * PR (ri_pquo g P) != 0); rewrite -ELR => /(_ gR0).
    by rewrite muP; lia.
  have dvL : rdvd (Poly (ri_pquo g P)) (Poly g) by exists (Poly P); rewrite EL mulrC.
  have bound : (size (PR (ri_pquo g P)) <= 1)%N \/ (size (PR P) < (length g).+1)%N.
    right; rewrite ltnS.
    have h1 : (size (PR P) <= size (PR g))%N.
      by apply: dvdp_leq => //; apply: rdvd_PR.
    apply: leq_trans h1 _; rewrite size_PR.
    by have := size_Poly g; rewrite polyseq_Poly_pnorm.
  have [H1 H2] := sqfree_loopP (g0:=g) (m:=fun x : R => \mu_x (PR g)) P0 L0
                    (fun x => conj (muP x) (muL x)) dvL bound.
  split=> [gk /H1 [h1 h2]|x].
    split=> //; first exact: rdvd_trans h2 dvg.
    by apply: contra g00; exact: dvdp_root_tr (rdvd_PR R h2).
  by rewrite H2 mu_gt0.
have X_dv : (xdeg != 0)%N -> rdvd (Poly [:: 0%ZZ; 1%ZZ]) (Poly f).
  move=> xd; apply: rdvd_trans dvpp; exists (Poly g * 'X^xdeg.-1).
  have -> : Poly [:: 0%ZZ; 1%ZZ] = 'X by rewrite !Poly_cons0 /= mul0r addr0 add0r mul1r.
  by rewrite sE mulrCA -exprS prednK // lt0n.
have -> : Nat.eqb xdeg 0 = (xdeg == 0)%N by case: xdeg {E sE fppE rootf dvg X_dv}.
case: (altP (xdeg =P 0%N)) => [xd|xd]; rewrite ?xd /= in rootf *.
  split=> [gk /fs1 [] //|gk /fs1 [_ _ h]|x]; first by right.
  by rewrite fs2 rootf orbF.
split=> [gk|gk|x].
- rewrite mem_cat => /orP[/fs1 [] //|]; rewrite inE => /eqP -> /=.
  by rewrite PR_X polyX_eq0; split=> //; exact: X_dv.
- rewrite mem_cat => /orP[/fs1 [_ _ h]|]; first by right.
  by rewrite inE => /eqP -> /=; left.
rewrite big_cat /= fs2 big_seq1 /= PR_X mu_X rootf.
by have [->|] := eqVneq x 0; rewrite ?(negPf g00) ?orbF ?addn0.
Qed.

End FactorSpec.

(* ====================================================================== Part B: the interval count *)
Section CountFull.
Variable R : rcfType.
Local Notation PR := (PR R).
Local Notation QR := (QR R).
Local Notation ZtoR := (ZtoR R).

Lemma lp_sturm_sequence_cons2 (f : seq Z) :
  exists l, lp_sturm_sequence f = ppp f :: ppp (pderiv (ppp f)) :: l.
Proof.
rewrite /lp_sturm_sequence.
by have [l ->] := lp_loop_cons (length (ppp f)) (ppp f) (ppp (pderiv (ppp f))); exists l.
Qed.

(* a real root of the last member of libpoly's sequence is a MULTIPLE root of f *)
Lemma lp_last_root2 (f : seq Z) (x : R) : (1 < size (PR f))%N ->
  root (PR (last [::] (lp_sturm_sequence f))) x -> root (PR f) x /\ root (PR f)^`() x.
Proof.
move=> sf lx; have [G0 rE st lk] := lp_sturm_sequence_chain sf.
have f0 : Poly f != 0 by rewrite -(PR_neq0 R) -size_poly_gt0 (ltn_trans _ sf).
have [c c0 fE] := PR_ppp_scale R f0.
have dv := Rlinks_last_dvd lk.
have [l lE] := lp_sturm_sequence_cons2 f.
move: lx dv st; rewrite -[PR (last _ _)](last_map PR) PR_nil lE => lx dv st.
have [_ [c1 c10 E1]] := pposs_hd2 G0 st.
move: lx dv => /= lx /and3P[d0 d1 _].
have r0 := dvdp_root_tr d0 lx; have := dvdp_root_tr d1 lx; rewrite E1 rootZ ?gt_eqF // => r1.
by rewrite fE derivZ !rootZ.
Qed.

Lemma simple_noderiv (G : {poly R}) (x : R) : (1 < size G)%N -> (\mu_x G <= 1)%N -> root G x -> ~~ root G^`() x.
Proof.
move=> sG mu1 rx.
have G'0 : G^`() != 0 by rewrite -size_poly_gt0 size_deriv; move: (size G) sG => n; lia.
by rewrite -mu_gt0 // mu_deriv //; move: (\mu_x G) mu1 => n; lia.
Qed.

Lemma rootsR_const (G : {poly R}) : G != 0 -> (size G <= 1)%N -> rootsR G = [::].
Proof.
move=> G0 sz; case E: (rootsR G) => [|x s] //.
have : x \in rootsR G by rewrite E inE eqxx.
by rewrite in_rootsR // => rx; have := root_size_gt1 G0 rx; rewrite ltnNge sz.
Qed.

(* a non-zero constant "factor": libpoly's sequence is [1; 0], every count is 0 *)
Lemma lp_sturm_sequence_const (g : seq Z) : PR g != 0 -> (size (PR g) <= 1)%N ->
  lp_sturm_sequence g = [:: ppp g; [::]] /\ forall a b : Z, (0 < b)%R -> psgn_at_rat (ppp g) a b = 1%ZZ.
Proof.
move=> g0 sz; have [s00 ls0 ps0] := PR_ppp g0.
have szs0 : size (PR (ppp g)) = 1%N.
  apply/eqP; rewrite eqn_leq size_poly_gt0 s00 andbT (ppos_size ps0).
  by case: ifP => _ //; rewrite size_opp.
have d0 : ppp (pderiv (ppp g)) = [::].
  apply: ppp_zero; apply/pis_zeroP; rewrite -(PR_eq0 R) PR_pderiv -size_poly_eq0 size_deriv szs0.
  by [].
split.
  rewrite /lp_sturm_sequence d0; case: (length (ppp g)) => [|n] //.
move=> a b b0; apply: (@ZtoR_inj R).
have -> : ZtoR 1%ZZ = 1 by exact: (rmorph1 (ZtoR_rmorphism R)).
rewrite -sgr_horner_rat //.
have /size_poly1P [k k0 kE] : size (PR (ppp g)) == 1%N by rewrite szs0.
by move: ls0; rewrite kE lead_coefC hornerC => /gtr0_sg.
Qed.

Lemma lp_count_const (g : seq Z) (J : ri_itv) : PR g != 0 -> (size (PR g) <= 1)%N ->
  (0 < qlo_d J)%R -> (0 < qhi_d J)%R -> riq_lt (qlo_n J) (qlo_d J) (qhi_n J) (qhi_d J) ->
  lp_count_roots_gen true (lp_sturm_sequence g) (Some J) = 0%ZZ.
Proof.
move=> g0 sz l0 h0 lh; have [-> sg] := lp_sturm_sequence_const g0 sz.
rewrite /lp_count_roots_gen /lp_sign_changes /= !sg //=.
have -> : Z.eqb (Z.mul (qlo_n J) (qhi_d J)) (Z.mul (qhi_n J) (qlo_d J)) = false.
  by move: lh; rewrite /riq_lt => /Z.ltb_lt ?; apply/Z.eqb_neq; lia.
by rewrite /= !andbF.
Qed.

Lemma leq_sum_mem (T : eqType) (F : T -> nat) (s : seq T) (t : T) : t \in s -> (F t <= \sum_(i <- s) F i)%N.
Proof.
elim: s => [|a s IH] //; rewrite inE big_cons => /orP[/eqP ->|/IH h]; first exact: leq_addr.
exact: leq_trans h (leq_addl _ _).
Qed.

(* the real roots of F are split by the factors *)
Lemma sum_count_partition (fs : seq (seq Z * nat)) (F : {poly R}) (Pd : pred R) : F != 0 ->
  (forall gk, gk \in fs -> PR gk.1 != 0) ->
  (forall x : R, (\sum_(gk <- fs) \mu_x (PR gk.1) = root F x :> nat)%N) ->
  (\sum_(gk <- fs) count Pd (rootsR (PR gk.1)) = count Pd (rootsR F))%N.
Proof.
move=> F0 nz musum; set s := rootsR F.
have us : uniq s by apply: (@sorted_uniq _ <%R) (sorted_roots _ _ _); [exact: lt_trans | exact: ltxx].
have mule gk x : gk \in fs -> (\mu_x (PR gk.1) <= root F x)%N.
  by move=> gin; rewrite -musum; exact: (leq_sum_mem (fun gk => \mu_x (PR gk.1)) gin).
have mu1 gk x : gk \in fs -> (root (PR gk.1) x : nat) = \mu_x (PR gk.1).
  move=> gin; apply: root_mu1; first exact: nz.
  by apply: leq_trans (mule gk x gin) _; case: (root F x).
have rsum x : (\sum_(gk <- fs) (root (PR gk.1) x : nat) = root F x :> nat)%N.
  by rewrite -musum [LHS]big_seq [RHS]big_seq; apply: eq_bigr => gk gin; exact: mu1.
have step1 gk : gk \in fs -> count Pd (rootsR (PR gk.1)) = count (predI Pd (root (PR gk.1))) s.
  move=> gin; rewrite -count_filter; apply/permP.
  apply: uniq_perm; first by apply: (@sorted_uniq _ <%R) (sorted_roots _ _ _); [exact: lt_trans | exact: ltxx].
    exact: filter_uniq.
  move=> x; rewrite mem_filter !in_rootsR ?nz //.
  case rx: (root (PR gk.1) x) => //=; symmetry.
  by have := mule gk x gin; rewrite -mu1 // rx; case: (root F x).
rewrite big_seq (eq_bigr _ step1) -big_seq.
have : forall x, x \in s -> root F x by move=> x; rewrite in_rootsR.
elim: s {us step1} => [|x s IH] sub.
  by rewrite big1.
rewrite /= -IH; last by move=> y yin; apply: sub; rewrite inE yin orbT.
rewrite big_split /=; congr (_ + _)%N.
have rx : root F x by apply: sub; rewrite inE eqxx.
case: (Pd x) => /=; first by rewrite rsum rx.
by rewrite big1.
Qed.

Lemma fold_left_count (J : ri_itv) (fs : seq (seq Z * nat)) (cnt : seq Z * nat -> nat) (a : Z) :
  (forall gk, gk \in fs ->
     lp_count_roots_gen true (lp_sturm_sequence gk.1) (Some J) = Z.of_nat (cnt gk)) ->
  List.fold_left (fun acc sq => Z.add acc (lp_count_roots_gen true sq (Some J)))
    (map (fun fk : seq Z * nat => lp_sturm_sequence fk.1) fs) a
  = Z.add a (Z.of_nat (\sum_(gk <- fs) cnt gk)).
Proof.
move: (lp_count_roots_gen true) (lp_sturm_sequence) => cntf sqf.
elim: fs a => [|gk fs IH] a H /=; first by rewrite big_nil; lia.
rewrite IH; last by move=> t tin; apply: H; rewrite inE tin orbT.
by rewrite big_cons H ?inE ?eqxx //; lia.
Qed.

(* the per-factor count of the model *)
Lemma lp_factor_count (g : seq Z) (J : ri_itv) : PR g != 0 -> (forall x : R, (\mu_x (PR g) <= 1)%N) ->
  (0 < qlo_d J)%R -> (0 < qhi_d J)%R -> riq_lt (qlo_n J) (qlo_d J) (qhi_n J) (qhi_d J) ->
  lp_count_roots_gen true (lp_sturm_sequence g) (Some J) = Z.of_nat (count (@in_qitv R J) (rootsR (PR g))).
Proof.
move=> g0 simple l0 h0 lh.
case: (leqP (size (PR g)) 1) => [sz|sz].
  by rewrite lp_count_const // rootsR_const.
have lh' : QR (qlo_n J) (qlo_d J) < QR (qhi_n J) (qhi_d J) by rewrite QR_lt.
apply: lp_count_roots_sturm => //.
  rewrite -(root_rat R) //; apply/negP => /(lp_last_root2 sz) [r0 r1].
  by move: r1; apply/negP; exact: simple_noderiv.
rewrite -(root_rat R) //; apply/negP => /(lp_last_root2 sz) [r0 r1].
by move: r1; apply/negP; exact: simple_noderiv.
Qed.

(* THE count theorem: libpoly's repaired interval count (faithful model) is exact *)
Theorem lp_roots_count_full (f : seq Z) (J : ri_itv) : pis_zero f = false ->
  (0 < qlo_d J)%R -> (0 < qhi_d J)%R -> riq_lt (qlo_n J) (qlo_d J) (qhi_n J) (qhi_d J) ->
  lp_roots_count f (Some J) = Z.of_nat (size [seq x <- rootsR (PR f) | in_qitv J x]).
Proof.
move=> fz l0 h0 lh; have f0 : PR f != 0 by rewrite PR_eq0 fz.
rewrite size_filter /lp_roots_count /lp_roots_count_gen.
case: (boolP (Nat.leb _ _)) => [/Nat.leb_le le1|_].
  by rewrite rootsR_const // size_PR; apply/ssrnat.leP.
have [fs1 _ fs2] := lp_sqfree_factors_spec f0.
rewrite /lp_roots_count_seqs /lp_factor_seqs.
have -> : List.map snd (List.map (fun fk : seq Z * nat => (fst fk, lp_sturm_sequence (fst fk))) (lp_sqfree_factors f))
          = map (fun fk : seq Z * nat => lp_sturm_sequence fk.1) (lp_sqfree_factors f).
  by rewrite List.map_map.
rewrite (@fold_left_count J _ (fun gk => count (@in_qitv R J) (rootsR (PR gk.1)))).
  rewrite Z.add_0_l; congr Z.of_nat; apply: sum_count_partition => // gk /fs1 []; by [].
move=> gk gin; have [g0 _] := fs1 gk gin.
apply: lp_factor_count => // x.
have := leq_sum_mem (fun gk => \mu_x (PR gk.1)) gin; rewrite fs2 => h.
by apply: leq_trans h _; case: (root _ _).
Qed.

End CountFull.
