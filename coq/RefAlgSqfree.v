(* The reference gcd and square-free part of UPoly.v over an arbitrary real closed field R:
     pr (pgcd a b)  is associated (%=) with  gcdp (pr a) (pr b)  in R[x]      (following the primitive PRS step by step)
     pr (psqfree p) is coprime with its derivative and has the same roots in R as pr p.
   This discharges the premise psqfree_correct_premise of RefAlgArith.v. *)
From Coq Require Import ZArith Lia.
From LP Require Import Scalar UPoly Gcd RefAlg.
Set Warnings "-notation-overridden,-ambiguous-paths".
From mathcomp Require Import all_ssreflect all_algebra all_field all_real_closed.
From mathcomp Require Import ssrZ zify ring.
Set Warnings "notation-overridden,ambiguous-paths".
From LP Require Import UPolySpec ScalarProofs GcdSpec RefAlgSpec RefAlgLoops RefAlgOps RefAlgDet RefAlgArith.
Import GRing.Theory Num.Theory Num.Def Order.TTheory Pdiv.Field.
Set Implicit Arguments.
Unset Strict Implicit.
Unset Printing Implicit Defensive.
Local Open Scope ring_scope.

Section Sqfree.
Variable R : rcfType.
Local Notation zr := (@zr R).
Local Notation pr := (@pr R).
Local Notation zrm := (zr_rmorphism R).
Local Notation prP := (map_poly zrm).

Lemma prE (l : seq Z) : pr l = prP (Poly l). Proof. by []. Qed.

Lemma prP_eq0 (P : {poly Z}) : (prP P == 0) = (P == 0).
Proof. by rewrite -(polyseqK_Z P) -prE pr_eq0. Qed.

Lemma zr_neq0 (c : Z) : c != 0 -> zr c != 0.
Proof. by move=> c0; rewrite zr_eq0 ZeqbP. Qed.

Lemma pr_ppp_eqp (p : seq Z) : pr (ppp p) %= pr p.
Proof.
case: (altP (Poly p =P 0)) => [E|p0].
  by rewrite (ppp_zero E) !prE E eqpxx.
have [Ep _ _] := ppp_spec p0.
have c0 : content_Z p != 0 by apply: contra p0 => /eqP c0; rewrite Ep c0 scale0r.
rewrite eqp_sym (pr_ppp R p); exact: eqp_scale (zr_neq0 c0).
Qed.

(* one step of the primitive PRS keeps the gcd over R *)
Lemma gcdp_prs_step (a b : seq Z) : Poly b != 0 ->
  gcdp (pr b) (pr (ppp (pprem a b))) %= gcdp (pr a) (pr b).
Proof.
move=> b0; have [k [q [E _]]] := pprem_spec a b0.
have c0 : zr (plc b ^+ k) != 0 by apply: zr_neq0; apply: expf_neq0; exact: plc_neq0.
apply: eqp_trans (eqp_gcdr _ (pr_ppp_eqp _)) _.
have Er : pr (pprem a b) = - prP q * pr b + zr (plc b ^+ k) *: pr a.
  have := congr1 prP E; rewrite map_polyZ rmorphD rmorphM /= -!prE => ->.
  by rewrite mulNr addrA addNr add0r.
rewrite Er; apply: eqp_trans (gcdp_addl_mul _ _ _) _.
apply: eqp_trans (gcdp_scaler _ _ c0) _.
exact: gcdpC.
Qed.

Lemma pr_pgcd_prim_aux fuel (a b : seq Z) : (size (Poly b) < fuel)%N ->
  pr (pgcd_prim_aux fuel a b) %= gcdp (pr a) (pr b).
Proof.
elim: fuel a b => [|f IH] a b //= Hf.
case E: (pnorm b) => [|c l].
  by have /pnorm_nil_Poly Eb := E; rewrite (prE b) Eb rmorph0 gcdp0 eqpxx.
have b0 : Poly b != 0 := pnorm_cons_Poly E.
have [k [q [_ Hs]]] := pprem_spec a b0.
apply: eqp_trans (gcdp_prs_step a b0).
by apply: IH; rewrite size_ppp; apply: leq_trans Hs _.
Qed.

Lemma pr_pscale_eqp (c : Z) (p : seq Z) : c != 0 -> pr (pscale c p) %= pr p.
Proof. by move=> c0; rewrite pr_scale; exact: eqp_scale (zr_neq0 c0). Qed.

(* the reference gcd is a gcd over R *)
Theorem pr_pgcd (a b : seq Z) : Poly a != 0 -> pr (pgcd a b) %= gcdp (pr a) (pr b).
Proof.
move=> a0.
have Hn (x : seq Z) : pr (ppp (pnorm x)) %= pr x.
  by apply: eqp_trans (pr_ppp_eqp _) _; rewrite !prE Poly_pnorm eqpxx.
have Hc (x : seq Z) : Poly x != 0 -> pcontent (pnorm x) != 0.
  by move=> x0; apply/eqP; apply: pcontent_neq0; rewrite Poly_pnorm.
case: (pgcd_cases a b) => [[a0' _ _]|[a0' _ _]|[_ b0 ->]|[_ b0 [fuel [u [v [-> Hf Huv]]]]]].
- by rewrite a0' eqxx in a0.
- by rewrite a0' eqxx in a0.
- apply: eqp_trans (pr_pscale_eqp _ (Hc _ a0)) _.
  by rewrite (prE b) b0 rmorph0 gcdp0; exact: Hn.
- have g0 : Z.gcd (pcontent (pnorm a)) (pcontent (pnorm b)) != 0.
    apply/eqP => /Z.gcd_eq_0_l H; exact: (elimN eqP (Hc _ a0)).
  apply: eqp_trans (pr_pscale_eqp _ g0) _.
  apply: eqp_trans (pr_ppp_eqp _) _.
  apply: eqp_trans (pr_pgcd_prim_aux _ Hf) _.
  case: Huv => [[-> ->]|[-> ->]].
    by apply: eqp_trans (eqp_gcdl _ (Hn a)) _; exact: eqp_gcdr (Hn b).
  apply: eqp_trans (gcdpC _ _) _.
  by apply: eqp_trans (eqp_gcdl _ (Hn a)) _; exact: eqp_gcdr (Hn b).
Qed.

Lemma pdiv_exact_complete (a b : seq Z) (Q : {poly Z}) : Poly b != 0 -> Poly a = Poly b * Q ->
  exists2 q, pdiv_exact a b = Some q & Poly q = Q.
Proof.
move=> b0 Ha; rewrite /pdiv_exact.
have bn0 : pnorm b <> [::] by move/pnorm_nilP/eqP; rewrite (negbTE b0).
case Eb: (pnorm b) bn0 => [|c t] // _; rewrite -Eb.
have Hn : pnorm (pnorm b) = pnorm b by rewrite -polyseq_Poly_pnorm Poly_pnorm polyseq_Poly_pnorm.
have b0' : Poly (pnorm b) != 0 by rewrite Poly_pnorm.
have Ha' : Poly (pnorm a) = Poly (pnorm b) * Q by rewrite !Poly_pnorm.
have Hs : (size (Poly (pnorm a)) <= (length (pnorm a)).+1)%N by rewrite Poly_pnorm size_Poly_pnorm.
have [q' Eq] := pdiv_exact_aux_complete [::] Hn b0' Ha' Hs.
rewrite Eq; exists (pnorm q') => //; rewrite Poly_pnorm.
move/pdiv_exact_aux_sound: Eq; rewrite Ha' /= mul0r add0r mulrC => /(mulfI b0').
by [].
Qed.

Lemma pr_pderiv (p : seq Z) : pr (pderiv p) = (pr p)^`().
Proof. by rewrite !prE Poly_pderiv deriv_map. Qed.

Lemma pr_pmulP (A B : {poly Z}) : prP (A * B) = prP A * prP B.
Proof. exact: (rmorphM (map_poly_rmorphism zrm)). Qed.

(* the square-free part: non-zero, separable over R, same roots in R *)
Theorem psqfree_correct (p : seq Z) : Poly p != 0 ->
  [/\ Poly (psqfree p) != 0, coprimep (pr (psqfree p)) (pr (psqfree p))^`()
    & forall v : R, root (pr (psqfree p)) v = root (pr p) v].
Proof.
move=> p0; rewrite /psqfree; set p1 := ppp p; set g := pgcd p1 (pderiv p1).
have p10 : Poly p1 != 0 by rewrite Poly_ppp_eq0.
have [[Q0 EQ0] _] := pgcd_dvd p1 (pderiv p1); rewrite -/g in EQ0.
have g0 : Poly g != 0 by apply: contraNneq p10 => E; rewrite EQ0 E mul0r.
have [q -> Eq] := pdiv_exact_complete g0 EQ0.
have q0 : Poly q != 0 by apply: contraNneq p10 => E; rewrite EQ0 -Eq E mulr0.
set P := pr p1; set Gp := pr g; set Qq := pr q.
have EP : P = Gp * Qq by rewrite /P /Gp /Qq !prE EQ0 Eq pr_pmulP.
have P0 : P != 0 by rewrite /P pr_eq0.
set D := gcdp P P^`().
have HG : Gp %= D by rewrite /Gp /D /P -pr_pderiv; exact: pr_pgcd.
have Dg0 : D != 0 by rewrite /D gcdp_eq0 (negbTE P0).
have Hdiv : P %/ D %= Qq.
  case/eqpP: HG => [[c1 c2]] /= /andP[c10 c20] Ec.
  have EPD : P = D * ((c2 / c1) *: Qq).
    apply: (scalerI c10); rewrite EP scalerAl Ec -scalerAl.
    by rewrite -!scalerAr scalerA mulrCA divff // mulr1.
  by rewrite EPD mulKp //; apply: eqp_scale; rewrite mulf_neq0 ?invr_eq0.
have sepQ : coprimep Qq Qq^`().
  by have := make_separable P0; rewrite -/D (eqp_separable Hdiv).
have Hs : pr (ppp q) %= Qq := pr_ppp_eqp q.
split.
- by rewrite Poly_ppp_eq0.
- by have := sepQ; rewrite -/(separable_poly Qq) -(eqp_separable Hs).
move=> v; rewrite (eqp_root Hs) -(eqp_root (pr_ppp_eqp p)) -/P.
apply/idP/idP => [rq|rP]; first by rewrite EP rootM rq orbT.
apply: contraT => nrq.
have P'0 : P^`() != 0.
  apply/eqP => E; have := size_deriv P; rewrite E size_poly0 => /esym/eqP.
  by rewrite -subn1 subn_eq0 => Hs1; have := root_size_gt1 P0 rP; rewrite ltnNge Hs1.
have Hmu : \mu_v P = \mu_v Gp by rewrite EP mu_mul -?EP // (muNroot nrq) addn0.
have GdP' : Gp %| P^`() by rewrite (eqp_dvdl _ HG) /D dvdp_gcdr.
have Hle : (\mu_v Gp <= \mu_v P^`())%N.
  by rewrite -(root_le_mu _ _ P'0); apply: dvdp_trans GdP'; exact: root_mu.
by move: Hle; rewrite -Hmu (mu_deriv_root P0 rP) addn1 ltnn.
Qed.

(* the premise of RefAlgArith discharged *)
Theorem psqfree_correct_holds : psqfree_correct_premise R.
Proof. exact: psqfree_correct. Qed.

End Sqfree.

(* ---------------------------------------------------------------- the operations, conditional ONLY on the interval Sturm count *)
Section Final.
Variable R : rcfType.
Hypothesis count_open_correct : count_open_correct_premise R.
Local Notation rn_denotes := (@rn_denotes R).
Let sq := @psqfree_correct_holds R.

Theorem rn_add_spec_sturm (fuel : nat) (x y z : rnum) (a b : R) :
  rn_denotes x a -> rn_denotes y b -> rn_add fuel x y = Some z -> rn_denotes z (a + b).
Proof. exact: rn_add_spec_cond count_open_correct sq _ _ _ _ _ _. Qed.

Theorem rn_sub_spec_sturm (fuel : nat) (x y z : rnum) (a b : R) :
  rn_denotes x a -> rn_denotes y b -> rn_sub fuel x y = Some z -> rn_denotes z (a - b).
Proof. exact: rn_sub_spec_cond count_open_correct sq _ _ _ _ _ _. Qed.

Theorem rn_mul_spec_sturm (fuel : nat) (x y z : rnum) (a b : R) :
  rn_denotes x a -> rn_denotes y b -> rn_mul fuel x y = Some z -> rn_denotes z (a * b).
Proof. exact: rn_mul_spec_cond count_open_correct sq _ _ _ _ _ _. Qed.

(* the inverse does not use the Sturm count at all *)
Theorem rn_inv_spec (fuel : nat) (x z : rnum) (a : R) :
  rn_denotes x a -> rn_inv fuel x = Some z -> a != 0 /\ rn_denotes z a^-1.
Proof. exact: rn_inv_spec_cond sq _ _ _ _. Qed.

Theorem rn_div_spec_sturm (fuel : nat) (x y z : rnum) (a b : R) :
  rn_denotes x a -> rn_denotes y b -> rn_div fuel x y = Some z -> b != 0 /\ rn_denotes z (a / b).
Proof. exact: rn_div_spec_cond count_open_correct sq _ _ _ _ _ _. Qed.

Theorem rn_pow_spec_sturm (fuel : nat) (x z : rnum) (a : R) (n : nat) :
  rn_denotes x a -> rn_pow fuel x n = Some z -> rn_denotes z (a ^+ n).
Proof. exact: rn_pow_spec_cond count_open_correct sq _ _ _ _ _. Qed.

(* multiplication by a rational on the representation: unconditional *)
Theorem rn_mul_q_spec (x : rnum) (q : Z * Z) (v : R) :
  rn_denotes x v -> qpos q -> rn_denotes (rn_mul_q x q) (v * qr q).
Proof. exact: rn_mul_q_spec_cond sq _ _ _. Qed.

Theorem mp_eval_rn_spec_sturm (fuel : nat) (rho : MPoly.var -> rnum) (rhoR : MPoly.var -> R) (p : MPoly.mpoly)
  (z : rnum) :
  (forall v, rn_denotes (rho v) (rhoR v)) ->
  mp_eval_rn fuel rho p = Some z -> rn_denotes z (mp_evalR rhoR p).
Proof. exact: mp_eval_rn_spec_cond count_open_correct sq _ _ _ _ _. Qed.

End Final.

(* ---------------------------------------------------------------- the equality test of the reference comparison *)
Section Eqb.
Variable R : rcfType.
Hypothesis count_open_correct : count_open_correct_premise R.
Local Notation zr := (@zr R).
Local Notation pr := (@pr R).
Local Notation qr := (@qr R).
Local Notation rn_denotes := (@rn_denotes R).

Lemma rdvd_root (g p : seq Z) (w : R) : rdvd (Poly g) (Poly p) -> root (pr g) w -> root (pr p) w.
Proof.
move=> [q Eq] rg; rewrite /RefAlgSpec.pr Eq (rmorphM (map_poly_rmorphism (zr_rmorphism R))) /= rootM.
by rewrite -/(pr g) rg.
Qed.

(* soundness of the equality test for two proper algebraic numbers: gcd of the defining polynomials, square-free part,
   Sturm count on the intersection of the isolating intervals *)
Theorem rn_eqb_sound_cond (x y : rnum) (a b : R) :
  rn_denotes x a -> rn_denotes y b -> rn_eqb x y = true -> a = b.
Proof.
case: x => [qa|p lo hi] Hx; case: y => [qb|p' lo' hi'] Hy; try exact: (rn_eqb_sound_rational Hx Hy).
have [[Hlo Hhi] /andP[loa ahi] ra uniqa sgna] := Hx.
have [[Hlo' Hhi'] /andP[lob bhi] rb uniqb sgnb] := Hy.
rewrite /rn_eqb.
have [Hl El] := qr_max R Hlo Hlo'; have [Hh Eh] := qr_min R Hhi Hhi'.
set l := q_max lo lo' in Hl El *; set h := q_min hi hi' in Hh Eh *.
rewrite (q_lt_spec R Hl Hh); case: ifP => // lh.
set g := pgcd p p'; case: ifP => // _ /Nat.ltb_lt/ssrnat.ltP Hc.
have nz (P : {poly R}) (u v : R) : sgr P.[u] * sgr P.[v] = -1 -> P.[u] != 0 /\ P.[v] != 0.
  move=> H; split; apply/eqP => H0; move: H; rewrite H0 sgr0 ?mul0r ?mulr0 => /eqP;
  by rewrite eq_sym oppr_eq0 oner_eq0.
have [Pl Ph] := nz _ _ _ sgna; have [Pl' Ph'] := nz _ _ _ sgnb.
have p0 : Poly p != 0.
  by rewrite -(pr_eq0 R); apply/eqP => E; move: Pl; rewrite E horner0 eqxx.
have [Dp Dp'] := pgcd_dvd p p'; rewrite -/g in Dp Dp'.
have g0 : Poly g != 0 by case: Dp => q Eq; apply: contraNneq p0 => E; rewrite Eq E mul0r.
have [s0 Hsq Hroot] := psqfree_correct R g0.
have Hend (u : R) : (pr p).[u] != 0 \/ (pr p').[u] != 0 -> (pr (psqfree g)).[u] != 0.
  move=> H; rewrite -rootE Hroot; apply/negP => rg.
  by case: H; rewrite -rootE ?(rdvd_root Dp rg) ?(rdvd_root Dp' rg).
have Sl : (pr (psqfree g)).[qr l] != 0.
  by apply: Hend; rewrite El; case: (leP (qr lo) (qr lo')) => _; [right|left].
have Sh : (pr (psqfree g)).[qr h] != 0.
  by apply: Hend; rewrite Eh; case: (leP (qr hi) (qr hi')) => _; [left|right].
have Hsz := count_open_correct Hl Hh lh s0 Hsq Sl Sh.
move: Hc; rewrite Hsz; case Er: (roots _ _ _) => [|w ws] // _.
have : w \in roots (pr (psqfree g)) (qr l) (qr h) by rewrite Er mem_head.
rewrite in_roots Hroot in_itv /= => /and3P[rg /andP[lw wh] _].
have Hwa : qr lo < w < qr hi.
  move: lw wh; rewrite El Eh lt_maxl lt_minr => /andP[-> _] /andP[-> _].
  by [].
have Hwb : qr lo' < w < qr hi'.
  move: lw wh; rewrite El Eh lt_maxl lt_minr => /andP[_ ->] /andP[_ ->].
  by [].
by rewrite -(uniqa w (rdvd_root Dp rg) Hwa) -(uniqb w (rdvd_root Dp' rg) Hwb).
Qed.

(* the full comparison of the reference: the sign of a - b *)
Theorem rn_cmp_spec_sturm (fuel : nat) (x y : rnum) (a b : R) (s : Z) :
  rn_denotes x a -> rn_denotes y b -> rn_cmp fuel x y = Some s -> zr s = sgr (a - b).
Proof. by move=> Hx Hy; apply: (rn_cmp_spec_cond _ Hx Hy) => E; exact: (rn_eqb_sound_cond Hx Hy E). Qed.

End Eqb.

(* ---------------------------------------------------------------- validated representations denote a number *)
Section Valid.
Variable R : rcfType.
Hypothesis count_open_correct : count_open_correct_premise R.
Local Notation zr := (@zr R).
Local Notation pr := (@pr R).
Local Notation qr := (@qr R).
Local Notation rn_denotes := (@rn_denotes R).

Lemma q_is_canon_qpos (q : Z * Z) : q_is_canon q = true -> qpos q.
Proof. by rewrite /q_is_canon => /andP[/Z.ltb_lt]. Qed.

(* what the drivers check on every number read from the implementation (rn_valid) guarantees that the normalised
   representation denotes a (unique) real number *)
Theorem rn_valid_denotes_cond (x : rnum) :
  rn_valid x = true -> exists v : R, rn_denotes (rn_norm x) v.
Proof.
case: x => [q|p lo hi] /=; first by move/q_is_canon_qpos => Hq; exists (qr q).
move=> /andP[/andP[/andP[/andP[/andP[/andP[/q_is_canon_qpos Hlo /q_is_canon_qpos Hhi] Hlt] /pis_zeroP/eqP p0]]]].
rewrite !(psgn_q_neq0 R) // (q_lt_spec R Hlo Hhi) in Hlt * => Pl Ph /Nat.eqb_eq Hc.
have [s0 Hsq Hroot] := psqfree_correct R p0.
have Sl : (pr (psqfree p)).[qr lo] != 0 by rewrite -rootE Hroot rootE.
have Sh : (pr (psqfree p)).[qr hi] != 0 by rewrite -rootE Hroot rootE.
have := count_open_correct Hlo Hhi Hlt s0 Hsq Sl Sh; rewrite Hc.
case Er: (roots _ _ _) => [|v [|v' vs]] // _.
have Hin (w : R) : (w \in roots (pr (psqfree p)) (qr lo) (qr hi)) = (w == v) by rewrite Er inE.
have : v \in roots (pr (psqfree p)) (qr lo) (qr hi) by rewrite Hin.
rewrite in_roots in_itv /= => /and3P[rv Hv _].
exists v; apply: denotes_of_sqfree => // w rw Hw.
have s0' : pr (psqfree p) != 0 by rewrite pr_eq0.
by apply/eqP; rewrite -Hin in_roots rw s0' in_itv /= Hw.
Qed.

End Valid.
