(* C18 proofs, part 6: the normal form (no zero leading coefficient, no polynomial of degree 0) is kept by the
   insertion of monomials; structural comparison decides equality of trees. *)
From Coq Require Import ZArith NArith List Bool Lia Sorted Permutation.
From LP Require Import MPoly VarOrder VarOrderMPoly VarOrderProofs VarOrderDen VarOrderWf.
Import ListNotations.
Local Open Scope Z_scope.

Inductive norm : coef -> Prop :=
| norm_num : forall a, norm (CNum a)
| norm_rec : forall x cs, (2 <= length cs)%nat -> is_zero (last cs (CNum 0)) = false ->
                          (forall c, In c cs -> norm c) -> norm (CRec x cs).

Lemma strip_zeros_last : forall l s sl d, strip_zeros l = s :: sl -> is_zero (last (s :: sl) d) = false.
Proof.
  induction l as [|a l IH]; intros s sl d H; [discriminate|]. unfold strip_zeros in H; cbn [fold_right] in H. fold (strip_zeros l) in H.
  destruct (strip_zeros l) as [|s' sl'] eqn:E.
  - destruct (is_zero a) eqn:Z; [discriminate|]. inversion H; subst. exact Z.
  - inversion H; subst. specialize (IH s' sl' d eq_refl). exact IH.
Qed.

Lemma normalize_norm : forall x l, (forall c, In c l -> norm c) -> norm (normalize (CRec x l)).
Proof.
  intros x [|c0 rest] H; cbn [normalize]; [constructor|].
  destruct (strip_zeros rest) as [|s sl] eqn:E; [apply H; now left|].
  constructor.
  - cbn; lia.
  - change (last (c0 :: s :: sl) (CNum 0)) with (last (s :: sl) (CNum 0)). eapply strip_zeros_last; eauto.
  - intros c [<-|Hc]; [apply H; now left|]. apply H; right. apply In_strip_zeros. now rewrite E.
Qed.

Lemma norm_children : forall x cs c, norm (CRec x cs) -> In c cs -> norm c.
Proof. intros x cs c H; inversion H; auto. Qed.

Lemma ensure_capacity_children : forall c x cap l, norm c -> ensure_capacity c x cap = CRec x l -> forall c', In c' l -> norm c'.
Proof.
  intros c x cap l Hn He c' Hin.
  assert (Hz : forall n c', In c' (c :: zeros n) -> norm c').
  { intros n c1 [<-|H1]; auto. apply In_zeros in H1; subst; constructor. }
  destruct c as [b|y cs]; cbn [ensure_capacity] in He.
  - inversion He; subst. eapply Hz; eauto.
  - destruct (N.eqb_spec x y) as [->|Hne].
    + inversion He; subst. apply in_app_or in Hin as [Hin|Hin]; [eapply norm_children; eauto|]. apply In_zeros in Hin; subst; constructor.
    + inversion He; subst. eapply Hz; eauto.
Qed.

Lemma here_f_norm : forall x d (rec : coef -> coef) c, (forall c, norm c -> norm (rec c)) -> norm c -> norm (here_f x d rec c).
Proof.
  intros x d rec c Hrec Hn. unfold here_f.
  destruct (ensure_capacity_shape c x (S (N.to_nat d))) as (l & Hl & _). rewrite Hl.
  apply normalize_norm. intros c' Hin. apply In_upd_nth in Hin as [Hin|(c1 & Hin & ->)].
  - eapply ensure_capacity_children; eauto.
  - apply Hrec. eapply ensure_capacity_children; eauto.
Qed.

Lemma norm_head_update : forall y c0 r (f : coef -> coef), norm (CRec y (c0 :: r)) -> norm (f c0) -> norm (CRec y (f c0 :: r)).
Proof.
  intros y c0 r f H Hf. inversion H as [|? ? Hlen Hlast Hch]; subst.
  destruct r as [|c1 r]; [cbn in Hlen; lia|]. constructor; auto.
  intros c [<-|Hc]; auto. apply Hch; now right.
Qed.

Lemma add_om_norm : forall o a ms c, norm c -> norm (add_om o ms a c).
Proof.
  intros o a. induction ms as [|[x d] ms IHms].
  - induction c as [b|y cs IH] using coef_ind2; intros Hn; [rewrite add_om_nil_num; constructor|].
    destruct cs as [|c0 r]; [inversion Hn; cbn in *; lia|]. rewrite add_om_nil_rec.
    inversion IH as [|? ? H0 _]; subst. apply (norm_head_update y c0 r (add_om o [] a)); auto.
    apply H0. eapply norm_children; eauto. now left.
  - induction c as [b|y cs IH] using coef_ind2; intros Hn.
    + rewrite add_om_cons_num. apply here_f_norm; auto.
    + rewrite add_om_cons_rec. destruct (0 <=? cmp_var o x y); [apply here_f_norm; auto|].
      destruct cs as [|c0 r]; [inversion Hn; cbn in *; lia|].
      inversion IH as [|? ? H0 _]; subst. apply (norm_head_update y c0 r (add_om o ((x, d) :: ms) a)); auto.
      apply H0. eapply norm_children; eauto. now left.
Qed.

Lemma fold_add_monomial_norm : forall o l acc, norm acc -> norm (fold_left (fun acc t => add_monomial o acc (fst t) (snd t)) l acc).
Proof. induction l as [|[ms a] l IH]; intros acc H; cbn [fold_left]; auto. apply IH. now apply add_om_norm. Qed.

Theorem coef_order_norm : forall o c, norm c -> norm (coef_order o c).
Proof. intros o [a|x cs] H; [constructor|]. unfold coef_order. apply fold_add_monomial_norm. constructor. Qed.
Theorem of_mpoly_norm : forall o p, norm (of_mpoly o p).
Proof. intros. unfold of_mpoly. apply fold_add_monomial_norm. constructor. Qed.
Theorem add_monomial_norm : forall o c ms a, norm c -> norm (add_monomial o c ms a).
Proof. intros. now apply add_om_norm. Qed.

(* ---------------------------------------------------------------- coefficient_cmp == 0 is equality of trees *)
Lemma z_cmp_eq : forall a b, z_cmp a b = 0 <-> a = b.
Proof. intros a b. unfold z_cmp. destruct (Z.compare_spec a b); split; intros; subst; try lia; auto; discriminate. Qed.

Fixpoint cmp_from_top (o : order) (l1 l2 : list coef) : Z :=
  match l1, l2 with
  | a :: l1', b :: l2' => let r := cmp_from_top o l1' l2' in if r =? 0 then coef_cmp o a b else r
  | _, _ => 0
  end.

Lemma coef_cmp_rec : forall o x l1 y l2, coef_cmp o (CRec x l1) (CRec y l2) =
  let vc := cmp_var o x y in
  if vc =? 0 then
    let dc := Z.of_nat (length l1) - Z.of_nat (length l2) in
    if dc =? 0 then cmp_from_top o l1 l2 else dc
  else vc.
Proof.
  intros. cbn [coef_cmp]. cbv zeta. destruct (cmp_var o x y =? 0); [|reflexivity].
  destruct (Z.of_nat (length l1) - Z.of_nat (length l2) =? 0); [|reflexivity].
  revert l2. induction l1 as [|a l1 IH]; intros [|b l2]; try reflexivity. cbn [cmp_from_top]. rewrite <- IH. reflexivity.
Qed.

Lemma coef_cmp_eq : forall o c1 c2, coef_cmp o c1 c2 = 0 <-> c1 = c2.
Proof.
  intros o. induction c1 as [a|x l1 IH] using coef_ind2; intros [b|y l2].
  - cbn [coef_cmp]. rewrite z_cmp_eq. split; [intros ->; reflexivity|intros H; now inversion H].
  - cbn [coef_cmp]. split; [lia|discriminate].
  - cbn [coef_cmp]. split; [lia|discriminate].
  - rewrite coef_cmp_rec. cbv zeta. split.
    + destruct (Z.eqb_spec (cmp_var o x y) 0) as [Hv|Hv]; [|intros H; contradiction].
      apply cmp_var_eq in Hv; subst y.
      destruct (Z.eqb_spec (Z.of_nat (length l1) - Z.of_nat (length l2)) 0) as [Hd|Hd]; [|intros H; contradiction].
      assert (Hlen : length l1 = length l2) by lia. clear Hd. intros H. f_equal.
      revert l2 Hlen H. induction l1 as [|a l1 IHl]; intros [|b l2] Hlen H; try discriminate; auto.
      inversion IH as [|? ? Ha Hl]; subst. cbn [cmp_from_top] in H. cbn in Hlen.
      destruct (Z.eqb_spec (cmp_from_top o l1 l2) 0) as [Hr|Hr]; [|contradiction].
      f_equal; [now apply Ha|]. apply IHl; auto.
    + intros E; inversion E; subst. rewrite cmp_var_refl. cbn. rewrite Z.sub_diag. cbn.
      clear E. induction l2 as [|b l2 IHl]; [reflexivity|]. inversion IH as [|? ? Ha Hl]; subst. cbn [cmp_from_top].
      rewrite (IHl Hl). cbn. now apply Ha.
Qed.
