(* Proofs about the finite-field model (FeasSetInt.v), part 2: polynomials over Z_p - evaluation,
   brute-force roots (with the early exit justified by Lagrange's bound), certificates, constraints,
   reduce_degree.  Property statements live in Properties_C14.v. *)
From Coq Require Import ZArith List Bool Lia Znumtheory Zpow_facts Morphisms Setoid.
From LP Require Import Scalar ScalarProofs FeasSetInt FeasSetIntProofs.
Import ListNotations.
Local Open Scope Z_scope.

Ltac Zify.zify_post_hook ::= Z.div_mod_to_equations.
Set Warnings "-variable-collision".

(* ------------------------------------------------------------------ congruences *)

Notation "a == b 'modulo' M" := (eqm M a b) (at level 70, b at next level, M at next level, no associativity).

#[global] Instance eqm_equiv M : Equivalence (eqm M) := eqm_setoid M.
#[global] Instance eqm_add M : Proper (eqm M ==> eqm M ==> eqm M) Z.add := Zplus_eqm M.
#[global] Instance eqm_sub M : Proper (eqm M ==> eqm M ==> eqm M) Z.sub := Zminus_eqm M.
#[global] Instance eqm_mul M : Proper (eqm M ==> eqm M ==> eqm M) Z.mul := Zmult_eqm M.
#[global] Instance eqm_opp M : Proper (eqm M ==> eqm M) Z.opp := Zopp_eqm M.

Lemma eqm_zero_iff M a : a == 0 modulo M <-> a mod M = 0.
Proof. unfold eqm. rewrite Zmod_0_l. tauto. Qed.

Lemma norm_eqm M c : 0 < M -> ring_norm (Some M) c == c modulo M.
Proof. intros HM. apply ring_norm_cong. assumption. Qed.

Lemma norm_zero_iff M c : 0 < M -> (ring_norm (Some M) c = 0 <-> c mod M = 0).
Proof.
  intros HM. split.
  - intros H. rewrite <- (ring_norm_cong M c HM), H. apply Zmod_0_l.
  - intros H. apply ring_norm_char; [assumption| |rewrite H; apply Zmod_0_l].
    pose proof (ring_lb_ub M HM). lia.
Qed.

Lemma sgn_eqb0 x : (Z.sgn x =? 0) = (x =? 0).
Proof. destruct x; reflexivity. Qed.

Lemma int_sgn_zero_iff M v : 0 < M -> ((int_sgn (Some M) v =? 0) = true <-> v mod M = 0).
Proof.
  intros HM. unfold int_sgn. rewrite sgn_eqb0, Z.eqb_eq. apply norm_zero_iff. assumption.
Qed.
Lemma int_is_zero_iff M v : 0 < M -> (int_is_zero (Some M) v = true <-> v mod M = 0).
Proof. intros HM. unfold int_is_zero. apply (int_sgn_zero_iff M v HM). Qed.

(* ------------------------------------------------------------------ dense evaluation *)

Lemma peval_app l1 : forall l2 x, peval (l1 ++ l2) x = peval l1 x + x ^ (zlen l1) * peval l2 x.
Proof.
  induction l1 as [|c t IH]; intros l2 x.
  - unfold zlen. cbn [app peval length]. change (Z.of_nat 0) with 0. rewrite Z.pow_0_r. ring.
  - cbn [app peval]. rewrite IH. unfold zlen. cbn [length]. rewrite Nat2Z.inj_succ, Z.pow_succ_r by lia. ring.
Qed.

Lemma peval_zeros M l x : Forall (fun c => c mod M = 0) l -> peval l x == 0 modulo M.
Proof.
  induction l as [|c t IH]; intros H; [reflexivity|].
  inversion H as [|? ? Hc Ht]; subst. cbn [peval]. rewrite (IH Ht).
  apply eqm_zero_iff in Hc. rewrite Hc. unfold eqm. f_equal. ring.
Qed.

Lemma peval_cong M l1 : forall l2 x, Forall2 (eqm M) l1 l2 -> peval l1 x == peval l2 x modulo M.
Proof.
  induction l1 as [|c t IH]; intros l2 x H; inversion H as [|? d ? t2 Hc Ht]; subst; [reflexivity|].
  cbn [peval]. rewrite Hc, (IH t2 x Ht). reflexivity.
Qed.

(* ------------------------------------------------------------------ lp_upolynomial_construct / evaluate *)

Lemma eval_step_eqm M v c x i : 0 < M ->
  int_add_mul (Some M) v (ring_norm (Some M) c) (int_pow (Some M) x i) == v + c * x ^ Z.of_N i modulo M.
Proof.
  intros HM. destruct (int_add_mul_spec M HM v (ring_norm (Some M) c) (int_pow (Some M) x i)) as [_ H].
  unfold eqm. rewrite H. destruct (int_pow_spec M HM x i) as [_ H2].
  change (v + ring_norm (Some M) c * int_pow (Some M) x i == v + c * x ^ Z.of_N i modulo M).
  rewrite (norm_eqm M c HM). change (int_pow (Some M) x i == x ^ Z.of_N i modulo M) in H2. rewrite H2. reflexivity.
Qed.

Lemma fold_eval_eqm M x (HM : 0 < M) : forall p v v', v == v' modulo M ->
  fold_left (fun value m => int_add_mul (Some M) value (snd m) (int_pow (Some M) x (fst m))) p v ==
  fold_left (fun value m => int_add_mul (Some M) value (snd m) (int_pow (Some M) x (fst m))) p v' modulo M.
Proof.
  induction p as [|[d c] t IH]; intros v v' E; [exact E|].
  cbn [fold_left fst snd]. apply IH.
  destruct (int_add_mul_spec M HM v c (int_pow (Some M) x d)) as [_ H1].
  destruct (int_add_mul_spec M HM v' c (int_pow (Some M) x d)) as [_ H2].
  unfold eqm. rewrite H1, H2. change (v + c * int_pow (Some M) x d == v' + c * int_pow (Some M) x d modulo M).
  rewrite E. reflexivity.
Qed.

Lemma construct_from_eval M x (HM : 0 < M) : forall cs i v,
  fold_left (fun value m => int_add_mul (Some M) value (snd m) (int_pow (Some M) x (fst m)))
            (upoly_construct_from (Some M) i cs) v
  == v + x ^ Z.of_N i * peval cs x modulo M.
Proof.
  induction cs as [|c t IH]; intros i v.
  - cbn. unfold eqm. f_equal. ring.
  - cbn [upoly_construct_from peval].
    assert (Hpow: x ^ Z.of_N (N.succ i) = x ^ Z.of_N i * x) by (rewrite N2Z.inj_succ, Z.pow_succ_r by lia; ring).
    destruct (Z.sgn (ring_norm (Some M) c) =? 0) eqn:E.
    + rewrite sgn_eqb0, Z.eqb_eq in E. apply (norm_zero_iff M c HM), eqm_zero_iff in E.
      rewrite IH, Hpow. rewrite E. unfold eqm. f_equal. ring.
    + cbn [fold_left fst snd].
      rewrite (fold_eval_eqm M x HM _ _ _ (eval_step_eqm M v c x i HM)).
      rewrite IH, Hpow. unfold eqm. f_equal. ring.
Qed.

Lemma upoly_eval_construct M cs x : 0 < M ->
  upoly_eval (Some M) (upoly_construct (Some M) cs) x == peval cs x modulo M.
Proof.
  intros HM. unfold upoly_eval, upoly_construct.
  pose proof (construct_from_eval M x HM cs 0%N 0) as H.
  destruct (upoly_construct_from (Some M) 0 cs) as [|m t].
  - cbn [fold_left fst snd]. cbn [fold_left] in H.
    assert (E: int_add_mul (Some M) 0 0 (int_pow (Some M) x 0) == 0 modulo M).
    { destruct (int_add_mul_spec M HM 0 0 (int_pow (Some M) x 0)) as [_ H1]. unfold eqm. rewrite H1. f_equal; try ring. }
    rewrite E. etransitivity; [exact H|]. change (Z.of_N 0) with 0. rewrite Z.pow_0_r. unfold eqm. f_equal. ring.
  - rewrite H. change (Z.of_N 0) with 0. rewrite Z.pow_0_r. unfold eqm. f_equal. ring.
Qed.

(* ------------------------------------------------------------------ degree *)

(* d is the degree of the polynomial modulo M: coefficient d is non-zero, all higher ones vanish *)
Definition deg_spec (M : Z) (cs : list Z) (d : nat) : Prop :=
  nth d cs 0 mod M <> 0 /\ forall i, (d < i)%nat -> nth i cs 0 mod M = 0.

Lemma construct_from_nil M (HM : 0 < M) : forall cs i,
  (forall j, nth j cs 0 mod M = 0) -> upoly_construct_from (Some M) i cs = [].
Proof.
  induction cs as [|c t IH]; intros i H; [reflexivity|].
  cbn [upoly_construct_from]. assert (Hc := H O). cbn in Hc.
  apply (norm_zero_iff M c HM) in Hc. rewrite Hc. cbn. apply IH. intros j. exact (H (S j)).
Qed.

Lemma construct_from_degree M (HM : 0 < M) : forall cs d i, deg_spec M cs d ->
  upoly_construct_from (Some M) i cs <> [] /\
  last (map fst (upoly_construct_from (Some M) i cs)) 0%N = (i + N.of_nat d)%N.
Proof.
  induction cs as [|c t IH]; intros d i [H1 H2].
  - exfalso. apply H1. destruct d; reflexivity.
  - cbn [upoly_construct_from]. destruct d as [|d].
    + cbn in H1. rewrite (construct_from_nil M HM t (N.succ i)) by (intros j; apply (H2 (S j)); lia).
      destruct (Z.sgn (ring_norm (Some M) c) =? 0) eqn:E.
      * rewrite sgn_eqb0, Z.eqb_eq in E. apply (norm_zero_iff M c HM) in E. contradiction.
      * split; [discriminate|]. cbn. lia.
    + assert (Hd: deg_spec M t d).
      { split; [exact H1|]. intros j Hj. apply (H2 (S j)). lia. }
      destruct (IH d (N.succ i) Hd) as [A B].
      assert (Hlast: forall (a : N) l, l <> [] -> last (a :: l) 0%N = last l 0%N).
      { intros a [|b l'] Hl; [contradiction|reflexivity]. }
      destruct (Z.sgn (ring_norm (Some M) c) =? 0).
      * split; [assumption|]. rewrite B. lia.
      * split; [discriminate|]. cbn [map fst]. rewrite Hlast.
        -- rewrite B. lia.
        -- destruct (upoly_construct_from (Some M) (N.succ i) t); [contradiction|discriminate].
Qed.

Lemma upoly_degree_construct M cs d : 0 < M -> deg_spec M cs d ->
  upoly_degree (upoly_construct (Some M) cs) = N.of_nat d /\ upoly_is_zero (upoly_construct (Some M) cs) = false.
Proof.
  intros HM Hd. destruct (construct_from_degree M HM cs d 0%N Hd) as [A B].
  unfold upoly_degree, upoly_construct.
  assert (Hnz: Forall (fun m => snd m <> 0) (upoly_construct_from (Some M) 0 cs)).
  { generalize 0%N. clear. induction cs as [|c t IH]; intros i; cbn [upoly_construct_from]; [constructor|].
    destruct (Z.sgn (ring_norm (Some M) c) =? 0) eqn:E; [apply IH|].
    constructor; [|apply IH]. cbn. rewrite sgn_eqb0 in E. apply Z.eqb_neq in E. exact E. }
  destruct (upoly_construct_from (Some M) 0 cs) as [|m t]; [contradiction|].
  split; [rewrite B; lia|].
  unfold upoly_is_zero. destruct m as [dm cm]. destruct t; [|reflexivity].
  inversion Hnz as [|? ? Hc _]; subst. cbn in Hc. rewrite sgn_eqb0. apply Z.eqb_neq in Hc. rewrite Hc. apply andb_false_r.
Qed.

Lemma upoly_zero_construct M cs : 0 < M -> (forall j, nth j cs 0 mod M = 0) ->
  upoly_degree (upoly_construct (Some M) cs) = 0%N /\ upoly_is_zero (upoly_construct (Some M) cs) = true.
Proof.
  intros HM H. unfold upoly_construct. rewrite (construct_from_nil M HM cs 0%N H). split; reflexivity.
Qed.

(* either every coefficient vanishes modulo M, or there is a degree *)
Lemma deg_cases M cs : 0 < M -> (forall j, nth j cs 0 mod M = 0) \/ exists d, deg_spec M cs d.
Proof.
  intros HM. induction cs as [|c t IH].
  - left. intros [|j]; reflexivity.
  - destruct IH as [Hz|[d Hd]].
    + destruct (Z.eq_dec (c mod M) 0) as [E|E].
      * left. intros [|j]; [exact E|apply Hz].
      * right. exists O. split; [exact E|]. intros [|i] Hi; [lia|apply Hz].
    + right. exists (S d). destruct Hd as [H1 H2]. split; [exact H1|].
      intros [|i] Hi; [lia|]. apply H2. lia.
Qed.

Lemma all_zero_peval M cs x : (forall j, nth j cs 0 mod M = 0) -> peval cs x == 0 modulo M.
Proof.
  intros H. apply peval_zeros. apply Forall_forall. intros c Hc.
  destruct (In_nth cs c 0 Hc) as [j [_ <-]]. apply H.
Qed.

(* the polynomial truncated at its degree *)
Lemma peval_truncate M : forall cs d x, deg_spec M cs d ->
  peval cs x == peval (firstn (S d) cs) x modulo M /\ length (firstn (S d) cs) = S d /\
  last (firstn (S d) cs) 0 = nth d cs 0.
Proof.
  induction cs as [|c t IH]; intros d x [H1 H2].
  - exfalso. apply H1. destruct d; reflexivity.
  - destruct d as [|d].
    + cbn [firstn peval nth length last]. split; [|split; reflexivity].
      assert (Hz: peval t x == 0 modulo M) by (apply all_zero_peval; intros j; apply (H2 (S j)); lia).
      rewrite Hz. reflexivity.
    + assert (Hd: deg_spec M t d).
      { split; [exact H1|]. intros j Hj. apply (H2 (S j)). lia. }
      destruct (IH d x Hd) as (A & B & C).
      change (firstn (S (S d)) (c :: t)) with (c :: firstn (S d) t).
      cbn [peval length nth]. split; [rewrite A; reflexivity|]. split; [rewrite B; reflexivity|].
      destruct (firstn (S d) t) as [|y l'] eqn:E; [cbn in B; lia|]. exact C.
Qed.

(* ------------------------------------------------------------------ Lagrange: at most `degree` roots *)

Fixpoint psynth (l : list Z) (a : Z) : list Z :=
  match l with
  | [] => []
  | c :: t => match t with [] => [] | _ :: _ => peval t a :: psynth t a end
  end.

Lemma psynth_eval l a x : peval l x = (x - a) * peval (psynth l a) x + peval l a.
Proof.
  induction l as [|c t IH]; [cbn; ring|].
  destruct t as [|c2 t2]; [cbn; ring|].
  change (psynth (c :: c2 :: t2) a) with (peval (c2 :: t2) a :: psynth (c2 :: t2) a).
  cbn [peval] in *. rewrite IH. ring.
Qed.

Lemma psynth_shape l a : forall n, length l = S (S n) ->
  length (psynth l a) = S n /\ last (psynth l a) 0 = last l 0.
Proof.
  induction l as [|c t IH]; intros n H; [discriminate|].
  destruct t as [|c2 t2]; [discriminate|].
  change (psynth (c :: c2 :: t2) a) with (peval (c2 :: t2) a :: psynth (c2 :: t2) a).
  destruct t2 as [|c3 t3].
  - cbn in H. assert (n = O) by lia. subst. cbn. split; [reflexivity|ring].
  - destruct n as [|n]; [cbn in H; lia|].
    destruct (IH n) as [A B]; [cbn in *; lia|].
    split; [cbn [length]; rewrite A; reflexivity|].
    change (last (c :: c2 :: c3 :: t3) 0) with (last (c2 :: c3 :: t3) 0). rewrite <- B.
    destruct (psynth (c2 :: c3 :: t3) a) eqn:E; [cbn in A; lia|reflexivity].
Qed.

Fixpoint incong (M : Z) (rs : list Z) : Prop :=
  match rs with
  | [] => True
  | a :: t => Forall (fun b => b mod M <> a mod M) t /\ incong M t
  end.

Lemma lagrange M : prime M -> forall n l, length l = S n -> last l 0 mod M <> 0 ->
  forall rs, incong M rs -> Forall (fun a => peval l a mod M = 0) rs -> (length rs <= n)%nat.
Proof.
  intros HP. pose proof (prime_ge_2 M HP) as HM2.
  induction n as [|n IH]; intros l HL Hlast rs Hi Hr.
  - destruct l as [|c [|? ?]]; try discriminate. cbn in Hlast.
    destruct rs as [|a t]; [cbn; lia|]. exfalso. inversion Hr as [|? ? Ha _]; subst.
    cbn in Ha. apply Hlast. rewrite <- Ha. f_equal. ring.
  - destruct rs as [|a t]; [cbn; lia|].
    destruct Hi as [Hi1 Hi2]. inversion Hr as [|? ? Ha Ht]; subst.
    destruct (psynth_shape l a n HL) as [QL QLast].
    cbn [length]. apply le_n_S. apply (IH (psynth l a) QL); [rewrite QLast; assumption|assumption|].
    rewrite Forall_forall in *. intros b Hb.
    specialize (Hi1 b Hb). specialize (Ht b Hb).
    pose proof (psynth_eval l a b) as E.
    assert (Hdiv: (M | (b - a) * peval (psynth l a) b)).
    { apply Z.mod_divide; [lia|].
      replace ((b - a) * peval (psynth l a) b) with (peval l b - peval l a) by lia.
      rewrite Zminus_mod, Ht, Ha. reflexivity. }
    apply prime_mult in Hdiv; [|assumption]. destruct Hdiv as [Hd|Hd].
    + exfalso. apply Hi1. apply Z.mod_divide in Hd; [|lia].
      assert (Hb2: b = (b - a) + a) by ring. rewrite Hb2, Zplus_mod, Hd. cbn. apply Z.mod_mod. lia.
    + apply Z.mod_divide in Hd; [assumption|lia].
Qed.

(* ------------------------------------------------------------------ brute-force root finding *)

Definition fieldK (M : Z) : list Z := invert_loop (Z.to_nat M) (ring_lb M) [].

Lemma fieldK_spec M : 0 < M ->
  ssorted (fieldK M) /\ (forall x, In x (fieldK M) <-> InK M x) /\ zlen (fieldK M) = M.
Proof.
  intros HM. destruct (complement_spec M [] HM I (Forall_nil _)) as (A & B & C & D). unfold fieldK.
  split; [exact A|]. split; [intros x; rewrite (C x); cbn; tauto|]. unfold zlen in *. cbn [length] in D. lia.
Qed.

Lemma ssorted_filter f l : ssorted l -> ssorted (filter f l).
Proof.
  induction l as [|x t IH]; intros H; [exact I|]. destruct H as [H1 H2]. cbn.
  destruct (f x); [|auto]. split; [|auto]. rewrite Forall_forall in *. intros y Hy.
  apply filter_In in Hy. apply H1. tauto.
Qed.

Lemma ssorted_range_incong M l : 0 < M -> ssorted l -> Forall (InK M) l -> incong M l.
Proof.
  intros HM. induction l as [|x t IH]; intros Hs Hk; [exact I|].
  destruct Hs as [H1 H2]. inversion Hk as [|? ? Hx Ht]; subst. split; [|auto].
  rewrite Forall_forall in *. intros b Hb E. specialize (H1 b Hb). specialize (Ht b Hb).
  assert (b = x) by (apply (ring_range_unique M); assumption). lia.
Qed.

Lemma invert_loop_nil_cons n x : invert_loop (S n) x [] = x :: invert_loop n (x + 1) [].
Proof. reflexivity. Qed.

Lemma bf_loop_spec M f d : 0 < M ->
  forall n x found, ring_lb M <= x -> x + Z.of_nat n - 1 <= ring_ub M ->
  found + zlen (filter (fun a => int_sgn (Some M) (upoly_eval (Some M) f a) =? 0) (invert_loop n x [])) <= d ->
  bf_loop n (Some M) f d x found =
  filter (fun a => int_sgn (Some M) (upoly_eval (Some M) f a) =? 0) (invert_loop n x []).
Proof.
  intros HM. induction n as [|n IH]; intros x found Hlo Hhi Hc; [reflexivity|].
  rewrite invert_loop_nil_cons in *. cbn [bf_loop filter] in *.
  destruct (int_sgn (Some M) (upoly_eval (Some M) f x) =? 0) eqn:E.
  - assert (Hn: ring_norm (Some M) x = x).
    { unfold ring_norm. assert (Hin: in_ring (Some M) x = true) by (apply in_ring_spec; [assumption|lia]).
      rewrite Hin. reflexivity. }
    rewrite Hn. unfold zlen in Hc. cbn [length] in Hc.
    destruct (found + 1 =? d) eqn:E2.
    + apply Z.eqb_eq in E2. f_equal.
      destruct (filter _ (invert_loop n (x + 1) [])) as [|y t]; [reflexivity|cbn [length] in Hc; lia].
    + f_equal. apply IH; [lia|lia|unfold zlen; lia].
  - apply IH; [lia|lia|assumption].
Qed.

(* the early exit never loses a root: for a prime modulus the brute-force search returns every root *)
Lemma roots_brute_force_reference M cs d : prime M -> deg_spec M cs d ->
  roots_brute_force M (upoly_construct (Some M) cs) = roots_reference M (upoly_construct (Some M) cs).
Proof.
  intros HP Hd. pose proof (prime_ge_2 M HP) as HM2. assert (HM: 0 < M) by lia.
  unfold roots_brute_force, roots_reference.
  destruct (upoly_degree_construct M cs d HM Hd) as [Hdeg _]. rewrite Hdeg.
  destruct (fieldK_spec M HM) as (KA & KB & KC). unfold fieldK in *.
  apply bf_loop_spec; try assumption; try lia.
  - pose proof (ring_range_size M HM). rewrite Z2Nat.id by lia. lia.
  - set (f := upoly_construct (Some M) cs).
    set (rs := filter (fun a => int_sgn (Some M) (upoly_eval (Some M) f a) =? 0)
                      (invert_loop (Z.to_nat M) (ring_lb M) [])).
    destruct (peval_truncate M cs d 0 Hd) as (_ & TL & TLast).
    assert (Hrs: (length rs <= d)%nat).
    { apply (lagrange M HP d (firstn (S d) cs) TL).
      - rewrite TLast. destruct Hd; assumption.
      - apply ssorted_range_incong; [assumption|apply ssorted_filter; assumption|].
        apply Forall_forall. intros a Ha. apply filter_In in Ha. apply KB. tauto.
      - apply Forall_forall. intros a Ha. apply filter_In in Ha. destruct Ha as [_ Ha].
        apply (int_sgn_zero_iff M _ HM) in Ha.
        destruct (peval_truncate M cs d a Hd) as (TE & _ & _).
        apply eqm_zero_iff. rewrite <- TE, <- (upoly_eval_construct M cs a HM). apply eqm_zero_iff. exact Ha. }
    unfold zlen. rewrite nat_N_Z. lia.
Qed.

Lemma roots_reference_spec M cs : 0 < M ->
  ssorted (roots_reference M (upoly_construct (Some M) cs)) /\
  (forall a, In a (roots_reference M (upoly_construct (Some M) cs)) <-> InK M a /\ peval cs a mod M = 0).
Proof.
  intros HM. destruct (fieldK_spec M HM) as (KA & KB & KC). unfold roots_reference. fold (fieldK M).
  split; [apply ssorted_filter; assumption|].
  intros a. rewrite filter_In, KB, (int_sgn_zero_iff M _ HM).
  pose proof (upoly_eval_construct M cs a HM) as E. unfold eqm in E. rewrite E. tauto.
Qed.

(* checker for a root list of unknown provenance (the randomised branch) *)
Lemma nodup_Z_spec l : nodup_Z l = true <-> NoDup l.
Proof.
  induction l as [|x t IH]; cbn; [split; [constructor|reflexivity]|].
  rewrite andb_true_iff, negb_true_iff, IH. split.
  - intros [H1 H2]. constructor; [|assumption]. intros Hin.
    assert (existsb (Z.eqb x) t = true) by (apply existsb_exists; exists x; split; [assumption|apply Z.eqb_refl]).
    congruence.
  - intros H. inversion H as [|? ? Hn Hd]; subst. split; [|assumption].
    destruct (existsb (Z.eqb x) t) eqn:E; [|reflexivity]. exfalso.
    apply existsb_exists in E. destruct E as [y [Hy Hxy]]. apply Z.eqb_eq in Hxy. subst y. contradiction.
Qed.

Lemma roots_sound_check_spec M cs rs : 0 < M ->
  roots_sound_check M (upoly_construct (Some M) cs) rs = true ->
  NoDup rs /\ forall r, In r rs -> InK M r /\ peval cs r mod M = 0.
Proof.
  intros HM. unfold roots_sound_check. rewrite andb_true_iff, nodup_Z_spec, forallb_forall.
  intros [H1 H2]. split; [assumption|]. intros r Hr. specialize (H1 r Hr).
  rewrite andb_true_iff, (in_ring_spec M r HM), (int_sgn_zero_iff M _ HM) in H1.
  pose proof (upoly_eval_construct M cs r HM) as E. unfold eqm in E. rewrite <- E. exact H1.
Qed.

(* ------------------------------------------------------------------ constraints over Z_M *)

Section CoefInd.
  Variable P : coef -> Prop.
  Hypothesis HN : forall c, P (CNum c).
  Hypothesis HP : forall x cs, Forall P cs -> P (CPoly x cs).
  Fixpoint coef_ind' (c : coef) : P c :=
    match c with
    | CNum n => HN n
    | CPoly x cs =>
      HP x cs ((fix go (l : list coef) : Forall P l :=
                  match l with
                  | [] => Forall_nil P
                  | ci :: t => @Forall_cons coef P ci t (coef_ind' ci) (go t)
                  end) cs)
    end.
End CoefInd.

(* the integer denoted by a coefficient under an assignment (no reduction anywhere) *)
Fixpoint coef_den (m : nat -> Z) (c : coef) : Z :=
  match c with
  | CNum n => n
  | CPoly x cs => peval (map (coef_den m) cs) (m x)
  end.

Fixpoint has_var (x : nat) (c : coef) : bool :=
  match c with
  | CNum _ => false
  | CPoly y cs => Nat.eqb y x || existsb (has_var x) cs
  end.

(* the accumulation loop of coefficient_evaluate_integer, named *)
Fixpoint eval_go (K : ring) (m : nat -> Z) (xv : Z) (cs : list coef) (out exp : Z) : Z :=
  match cs with
  | [] => out
  | ci :: t => eval_go K m xv t (int_add_mul K out (coef_eval K m ci) exp) (int_mul K exp xv)
  end.

Lemma coef_eval_poly K m x cs :
  coef_eval K m (CPoly x cs) = eval_go K m (m x) cs (ring_norm K 0) (ring_norm K 1).
Proof.
  cbn [coef_eval]. generalize (ring_norm K 0) (ring_norm K 1).
  induction cs as [|ci t IH]; intros out exp; [reflexivity|]. cbn [eval_go]. apply IH.
Qed.

Lemma eval_go_den M m xv cs (HM : 0 < M) :
  Forall (fun c => coef_eval (Some M) m c == coef_den m c modulo M) cs ->
  forall out exp out' exp', out == out' modulo M -> exp == exp' modulo M ->
  eval_go (Some M) m xv cs out exp == out' + exp' * peval (map (coef_den m) cs) xv modulo M.
Proof.
  induction cs as [|ci t IH]; intros HF out exp out' exp' Eo Ee.
  - cbn. rewrite Eo. unfold eqm. f_equal. ring.
  - inversion HF as [|? ? Hc Ht]; subst. cbn [eval_go map peval].
    rewrite (IH Ht _ _ (out' + coef_den m ci * exp') (exp' * xv)).
    + unfold eqm. f_equal. ring.
    + destruct (int_add_mul_spec M HM out (coef_eval (Some M) m ci) exp) as [_ H].
      unfold eqm. rewrite H. change (out + coef_eval (Some M) m ci * exp == out' + coef_den m ci * exp' modulo M).
      rewrite Eo, Hc, Ee. reflexivity.
    + destruct (int_mul_spec M HM exp xv) as [_ H]. unfold eqm. rewrite H.
      change (exp * xv == exp' * xv modulo M). rewrite Ee. reflexivity.
Qed.

Lemma coef_eval_den M m c : 0 < M -> coef_eval (Some M) m c == coef_den m c modulo M.
Proof.
  intros HM. induction c as [n|x cs IH] using coef_ind'.
  - cbn. apply norm_eqm. assumption.
  - rewrite coef_eval_poly. cbn [coef_den].
    rewrite (eval_go_den M m (m x) cs HM IH _ _ 0 1 (norm_eqm M 0 HM) (norm_eqm M 1 HM)).
    unfold eqm. f_equal. ring.
Qed.

Lemma eval_go_ext K m m' xv cs : Forall (fun c => coef_eval K m' c = coef_eval K m c) cs ->
  forall out exp, eval_go K m' xv cs out exp = eval_go K m xv cs out exp.
Proof.
  induction cs as [|ci t IH]; intros HF out exp; [reflexivity|].
  inversion HF as [|? ? Hc Ht]; subst. cbn [eval_go]. rewrite Hc. apply IH. assumption.
Qed.

Lemma coef_eval_novar K m x v c : has_var x c = false ->
  coef_eval K (assign_set m x v) c = coef_eval K m c.
Proof.
  induction c as [n|y cs IH] using coef_ind'; intros H; [reflexivity|].
  cbn [has_var] in H. apply orb_false_iff in H. destruct H as [Hy Hcs].
  rewrite !coef_eval_poly.
  replace (assign_set m x v y) with (m y) by (unfold assign_set; rewrite Hy; reflexivity).
  apply eval_go_ext. rewrite Forall_forall in *. intros c Hc. apply IH; [assumption|].
  destruct (has_var x c) eqn:E; [|reflexivity].
  assert (existsb (has_var x) cs = true) by (apply existsb_exists; exists c; split; assumption). congruence.
Qed.

(* the value of A = sum c_i x^i at x := a is the univariate polynomial of the c_i's values at a *)
Lemma coef_eval_top M top m cs a : 0 < M -> existsb (has_var top) cs = false ->
  coef_eval (Some M) (assign_set m top a) (CPoly top cs)
  == peval (map (coef_eval (Some M) m) cs) a modulo M.
Proof.
  intros HM Hnv.
  rewrite (coef_eval_den M _ _ HM). cbn [coef_den].
  replace (assign_set m top a top) with a by (unfold assign_set; rewrite Nat.eqb_refl; reflexivity).
  apply peval_cong.
  assert (HF: Forall (fun c => has_var top c = false) cs).
  { apply Forall_forall. intros c Hc. destruct (has_var top c) eqn:E; [|reflexivity].
    assert (existsb (has_var top) cs = true) by (apply existsb_exists; exists c; split; assumption). congruence. }
  clear Hnv. induction cs as [|c t IH]; [constructor|].
  inversion HF as [|? ? Hc Ht]; subst. cbn [map]. constructor; [|apply IH; assumption].
  rewrite <- (coef_eval_den M _ _ HM). rewrite (coef_eval_novar (Some M) m top a c Hc). reflexivity.
Qed.

Lemma constraint_evaluate_spec M top m cs a cond : 0 < M -> existsb (has_var top) cs = false ->
  (constraint_evaluate_Zp M (assign_set m top a) (CPoly top cs) cond = true <->
   match cond with
   | ZpEQ => peval (map (coef_eval (Some M) m) cs) a mod M = 0
   | ZpNE => peval (map (coef_eval (Some M) m) cs) a mod M <> 0
   end).
Proof.
  intros HM Hnv. unfold constraint_evaluate_Zp.
  pose proof (coef_eval_top M top m cs a HM Hnv) as E.
  pose proof (int_is_zero_iff M (coef_eval (Some M) (assign_set m top a) (CPoly top cs)) HM) as Hz.
  unfold eqm in E. rewrite E in Hz.
  destruct (int_is_zero (Some M) (coef_eval (Some M) (assign_set m top a) (CPoly top cs))); destruct cond; cbn.
  - split; [intros _; apply Hz; reflexivity|reflexivity].
  - split; [discriminate|]. intros H. exfalso. apply H, Hz. reflexivity.
  - split; [discriminate|]. intros H. apply Hz in H. discriminate.
  - split; [intros _ H; apply Hz in H; discriminate|reflexivity].
Qed.

Lemma constraint_reference_spec M top m cs cond (negated : bool) : 0 < M -> existsb (has_var top) cs = false ->
  let A := CPoly top cs in
  let cond' := if negated then zp_negate cond else cond in
  let s := constraint_feasible_set_reference M top m A cond negated in
  wf s /\ fs_M s = M /\
  forall a, mem s a <-> InK M a /\ constraint_evaluate_Zp M (assign_set m top a) A cond' = true.
Proof.
  intros HM Hnv A cond' s.
  set (L := map (coef_eval (Some M) m) cs).
  assert (HL: univariate_coeffs (Some M) top m A = L).
  { unfold A, univariate_coeffs. rewrite Nat.eqb_refl. reflexivity. }
  assert (Hev: forall a, constraint_evaluate_Zp M (assign_set m top a) A cond' = true <->
                         match cond' with ZpEQ => peval L a mod M = 0 | ZpNE => peval L a mod M <> 0 end).
  { intros a. apply constraint_evaluate_spec; assumption. }
  unfold s, constraint_feasible_set_reference. fold cond'. unfold to_univariate_m. rewrite HL.
  destruct (wf_new_empty M HM) as [WE ME]. destruct (wf_new_full M HM) as [WF MF].
  destruct (deg_cases M L HM) as [Hz|[d Hd]].
  - destruct (upoly_zero_construct M L HM Hz) as [D0 Z0]. rewrite D0, Z0. cbn [N.eqb].
    assert (Hall: forall a, peval L a mod M = 0) by (intros a; apply eqm_zero_iff, all_zero_peval; assumption).
    destruct cond'; cbn [zp_is_eq].
    + split; [assumption|]. split; [reflexivity|]. intros a. rewrite MF, Hev. specialize (Hall a). tauto.
    + split; [assumption|]. split; [reflexivity|]. intros a. rewrite Hev. specialize (Hall a). specialize (ME a). tauto.
  - destruct (upoly_degree_construct M L d HM Hd) as [Dd Zd]. rewrite Dd, Zd.
    destruct d as [|d].
    + cbn [N.of_nat N.eqb].
      assert (Hall: forall a, peval L a mod M <> 0).
      { intros a. destruct (peval_truncate M L O a Hd) as (TE & _ & _). unfold eqm in TE. rewrite TE.
        destruct L as [|c0 t]; [destruct Hd as [Hd _]; exfalso; apply Hd; reflexivity|].
        cbn [firstn peval]. destruct Hd as [Hd _]. cbn in Hd. intros H. apply Hd. rewrite <- H. f_equal. ring. }
      destruct cond'; cbn [zp_is_eq].
      * split; [assumption|]. split; [reflexivity|]. intros a. rewrite Hev. specialize (Hall a). specialize (ME a). tauto.
      * split; [assumption|]. split; [reflexivity|]. intros a. rewrite MF, Hev. specialize (Hall a). tauto.
    + assert (Hne: (N.of_nat (S d) =? 0)%N = false) by (apply N.eqb_neq; lia). rewrite Hne.
      destruct (roots_reference_spec M L HM) as [RS RI].
      assert (RK: Forall (InK M) (roots_reference M (upoly_construct (Some M) L))).
      { apply Forall_forall. intros a Ha. apply RI in Ha. tauto. }
      split; [apply mkwf; assumption|]. split; [reflexivity|].
      intros a. unfold mem. cbn [fs_M fs_inv fs_el]. pose proof (Hev a) as He. pose proof (RI a) as Hr.
      destruct cond'; cbn [zp_is_eq negb] in *; tauto.
Qed.

(* below the brute-force limit the implementation's branch computes exactly the reference set *)
Lemma constraint_set_is_reference M top m A cond negated s : prime M ->
  constraint_feasible_set_Zp M top m A cond negated = Some s ->
  s = constraint_feasible_set_reference M top m A cond negated.
Proof.
  intros HP. pose proof (prime_ge_2 M HP) as HM2. assert (HM: 0 < M) by lia.
  unfold constraint_feasible_set_Zp, constraint_feasible_set_reference, to_univariate_m.
  set (L := univariate_coeffs (Some M) top m A).
  destruct (upoly_degree (upoly_construct (Some M) L) =? 0)%N eqn:E0.
  - destruct (upoly_is_zero (upoly_construct (Some M) L)); intros H; inversion H; reflexivity.
  - unfold roots_find_Zp. destruct (M <? field_order_limit); [|discriminate].
    intros H. inversion H. f_equal.
    destruct (deg_cases M L HM) as [Hz|[d Hd]].
    + destruct (upoly_zero_construct M L HM Hz) as [D0 _]. rewrite D0 in E0. discriminate.
    + apply (roots_brute_force_reference M L d HP Hd).
Qed.

(* ------------------------------------------------------------------ reduce_degree_Zp *)

Lemma peval_all0 l x : Forall (fun c => c = 0) l -> peval l x = 0.
Proof. induction l as [|c t IH]; intros H; [reflexivity|]. inversion H; subst. cbn. rewrite IH by assumption. ring. Qed.

Lemma strip_zeros_rev_decomp r : exists z, Forall (fun c => c = 0) z /\ r = z ++ strip_zeros_rev r.
Proof.
  induction r as [|c t [z [Hz E]]]; [exists []; split; [constructor|reflexivity]|].
  cbn. destruct (c =? 0) eqn:Ec.
  - apply Z.eqb_eq in Ec. subst c. exists (0 :: z). split; [constructor; [reflexivity|assumption]|]. cbn. f_equal. exact E.
  - exists []. split; [constructor|reflexivity].
Qed.

Lemma strip_zeros_spec l x :
  peval (strip_zeros l) x = peval l x /\ (length (strip_zeros l) <= Nat.max 1 (length l))%nat.
Proof.
  unfold strip_zeros. destruct (strip_zeros_rev_decomp (rev l)) as [z [Hz E]].
  assert (El: l = rev (strip_zeros_rev (rev l)) ++ rev z).
  { rewrite <- rev_app_distr, <- E, rev_involutive. reflexivity. }
  assert (Hz': Forall (fun c => c = 0) (rev z)).
  { apply Forall_forall. intros c Hc. apply in_rev in Hc. rewrite Forall_forall in Hz. auto. }
  assert (Hlen: (length (rev (strip_zeros_rev (rev l))) <= length l)%nat).
  { rewrite El at 2. rewrite app_length. lia. }
  destruct (rev (strip_zeros_rev (rev l))) as [|y t] eqn:Er.
  - split; [|cbn [length]; lia]. rewrite El. cbn [app]. rewrite (peval_all0 _ x Hz'). cbn. ring.
  - split; [|cbn [length] in *; lia]. rewrite El. rewrite peval_app, (peval_all0 _ x Hz'). ring.
Qed.

Lemma map_norm_eqm M cs : 0 < M -> Forall2 (eqm M) (map (ring_norm (Some M)) cs) cs.
Proof. intros HM. induction cs; cbn; constructor; [apply norm_eqm; assumption|assumption]. Qed.

Lemma dense_norm_eval M cs x : 0 < M -> peval (dense_norm M cs) x == peval cs x modulo M.
Proof.
  intros HM. unfold dense_norm. destruct (strip_zeros_spec (map (ring_norm (Some M)) cs) x) as [E _].
  rewrite E. apply peval_cong, map_norm_eqm. assumption.
Qed.

Lemma list_upd_spec l : forall j v x, (j < length l)%nat ->
  length (list_upd l j v) = length l /\
  peval (list_upd l j v) x = peval l x + (v - nth j l 0) * x ^ Z.of_nat j.
Proof.
  induction l as [|c t IH]; intros j v x Hj; [cbn in Hj; lia|].
  destruct j as [|j].
  - cbn. split; [reflexivity|ring].
  - cbn [length] in Hj. destruct (IH j v x) as [A B]; [lia|].
    cbn [list_upd length peval nth]. split; [rewrite A; reflexivity|].
    rewrite B, Nat2Z.inj_succ, Z.pow_succ_r by lia. ring.
Qed.

Definition fermat_holds (M : Z) : Prop := forall a, (a ^ M) mod M = a mod M.

Lemma pow_reduce M a : 2 <= M -> fermat_holds M ->
  forall (k : nat) j, 1 <= j -> a ^ (j + Z.of_nat k * (M - 1)) == a ^ j modulo M.
Proof.
  intros HM HF. induction k as [|k IH]; intros j Hj.
  - replace (j + Z.of_nat 0 * (M - 1)) with j by lia. reflexivity.
  - replace (j + Z.of_nat (S k) * (M - 1)) with ((j + Z.of_nat k * (M - 1) - 1) + M) by lia.
    assert (0 <= Z.of_nat k * (M - 1)) by nia.
    rewrite Z.pow_add_r by lia.
    assert (E: a ^ M == a modulo M) by (apply HF). rewrite E.
    replace (a ^ (j + Z.of_nat k * (M - 1) - 1) * a) with (a ^ (Z.succ (j + Z.of_nat k * (M - 1) - 1)))
      by (rewrite Z.pow_succ_r by lia; ring).
    replace (Z.succ (j + Z.of_nat k * (M - 1) - 1)) with (j + Z.of_nat k * (M - 1)) by lia.
    apply IH. assumption.
Qed.

Lemma red_index_spec M i : 2 <= M -> M <= i ->
  1 <= red_index M i <= M - 1 /\ exists k : nat, i = red_index M i + Z.of_nat k * (M - 1).
Proof.
  intros HM Hi. unfold red_index.
  pose proof (Z.div_mod i (M - 1) ltac:(lia)) as Hdm.
  pose proof (Z.mod_pos_bound i (M - 1) ltac:(lia)) as Hb.
  assert (Hq: 1 <= i / (M - 1)).
  { apply Z.div_le_lower_bound; lia. }
  destruct (i mod (M - 1) =? 0) eqn:E.
  - apply Z.eqb_eq in E. split; [lia|]. exists (Z.to_nat (i / (M - 1) - 1)). rewrite Z2Nat.id by lia. nia.
  - apply Z.eqb_neq in E. split; [lia|]. exists (Z.to_nat (i / (M - 1))). rewrite Z2Nat.id by lia. nia.
Qed.

Lemma red_pass_spec M a : 2 <= M -> fermat_holds M ->
  forall hi i lo, M <= i -> zlen lo = M ->
  length (red_pass (Some M) M i hi lo) = length lo /\
  peval (red_pass (Some M) M i hi lo) a == peval lo a + a ^ i * peval hi a modulo M.
Proof.
  intros HM2 HF. assert (HM: 0 < M) by lia.
  induction hi as [|c t IH]; intros i lo Hi Hlo.
  - cbn. split; [reflexivity|]. unfold eqm. f_equal. ring.
  - cbn [red_pass peval].
    destruct (red_index_spec M i HM2 Hi) as [Hj [k Hk]].
    set (j := red_index M i) in *.
    assert (Hjl: (Z.to_nat j < length lo)%nat) by (unfold zlen in Hlo; lia).
    assert (Hpow: a ^ j == a ^ i modulo M).
    { replace (a ^ i) with (a ^ (j + Z.of_nat k * (M - 1))) by (f_equal; symmetry; exact Hk).
      symmetry. apply pow_reduce; try assumption. lia. }
    assert (Hstep: forall lo', length lo' = length lo -> peval lo' a == peval lo a + c * a ^ i modulo M ->
              length (red_pass (Some M) M (i + 1) t lo') = length lo /\
              peval (red_pass (Some M) M (i + 1) t lo') a == peval lo a + a ^ i * (c + a * peval t a) modulo M).
    { intros lo' L' E'. destruct (IH (i + 1) lo') as [A B]; [lia|unfold zlen in *; lia|].
      split; [lia|]. rewrite B, E'. rewrite Z.pow_add_r by lia. unfold eqm. f_equal. ring. }
    pose proof (int_is_zero_iff M c HM) as Hzc.
    destruct (int_is_zero (Some M) c).
    + apply Hstep; [reflexivity|]. assert (Ec: c == 0 modulo M) by (apply eqm_zero_iff, Hzc; reflexivity).
      rewrite Ec. unfold eqm. f_equal. ring.
    + pose proof (int_is_zero_iff M (nth (Z.to_nat j) lo 0) HM) as Hzj.
      destruct (int_is_zero (Some M) (nth (Z.to_nat j) lo 0)).
      * destruct (list_upd_spec lo (Z.to_nat j) c a Hjl) as [A B].
        apply Hstep; [assumption|]. rewrite B, Z2Nat.id by lia.
        assert (Ej: nth (Z.to_nat j) lo 0 == 0 modulo M) by (apply eqm_zero_iff, Hzj; reflexivity).
        rewrite Ej, Hpow. unfold eqm. f_equal. ring.
      * destruct (list_upd_spec lo (Z.to_nat j) (int_add (Some M) (nth (Z.to_nat j) lo 0) c) a Hjl) as [A B].
        apply Hstep; [assumption|]. rewrite B, Z2Nat.id by lia.
        destruct (int_add_spec M HM (nth (Z.to_nat j) lo 0) c) as [_ Ea].
        change (int_add (Some M) (nth (Z.to_nat j) lo 0) c == nth (Z.to_nat j) lo 0 + c modulo M) in Ea.
        rewrite Ea, Hpow. unfold eqm. f_equal. ring.
Qed.

Lemma reduce_step_spec M l a : 2 <= M -> fermat_holds M -> M < zlen l ->
  peval (reduce_step M l) a == peval l a modulo M /\ zlen (reduce_step M l) <= M.
Proof.
  intros HM2 HF Hl. unfold reduce_step.
  set (m := Z.to_nat M).
  assert (Hfl: length (firstn m l) = m) by (apply firstn_length_le; unfold zlen in Hl; lia).
  assert (Hz: zlen (firstn m l) = M) by (unfold zlen; rewrite Hfl; unfold m; lia).
  destruct (red_pass_spec M a HM2 HF (skipn m l) M (firstn m l) ltac:(lia) Hz) as [A B].
  destruct (strip_zeros_spec (red_pass (Some M) M M (skipn m l) (firstn m l)) a) as [SE SL].
  split.
  - rewrite SE, B. rewrite <- (firstn_skipn m l) at 3. rewrite peval_app, Hz. reflexivity.
  - unfold zlen. rewrite A, Hfl in SL. subst m. lia.
Qed.

Lemma reduce_loop_spec M : 2 <= M -> fermat_holds M -> forall fuel l r,
  reduce_loop fuel M l = Some r ->
  (forall a, peval r a == peval l a modulo M) /\ zlen r <= Z.max M (zlen l) /\ (M < zlen l -> zlen r <= M).
Proof.
  intros HM2 HF. induction fuel as [|fuel IH]; intros l r H; [discriminate|].
  cbn [reduce_loop] in H. destruct (M <? zlen l) eqn:E.
  - apply Z.ltb_lt in E. destruct (IH _ _ H) as (A & B & C).
    split; [intros a; rewrite (A a); apply reduce_step_spec; assumption|].
    destruct (reduce_step_spec M l 0 HM2 HF E) as [_ HL]. lia.
  - apply Z.ltb_ge in E. inversion H; subst. split; [reflexivity|]. lia.
Qed.

Lemma reduce_loop_total M l fuel : 2 <= M -> fermat_holds M -> (2 <= fuel)%nat ->
  exists r, reduce_loop fuel M l = Some r.
Proof.
  intros HM2 HF Hf. destruct fuel as [|[|fuel]]; try lia.
  cbn [reduce_loop]. destruct (M <? zlen l) eqn:E; [|eexists; reflexivity].
  apply Z.ltb_lt in E. destruct (reduce_step_spec M l 0 HM2 HF E) as [_ HL].
  assert (E2: (M <? zlen (reduce_step M l)) = false) by (apply Z.ltb_ge; lia).
  rewrite E2. eexists; reflexivity.
Qed.

Lemma reduce_degree_spec M fuel cs r : 2 <= M -> fermat_holds M ->
  reduce_degree_Zp_uni fuel M cs = Some r ->
  (forall a, peval r a mod M = peval cs a mod M) /\ (M < zlen (dense_norm M cs) -> zlen r <= M) /\
  zlen r <= Z.max M (zlen (dense_norm M cs)).
Proof.
  intros HM2 HF H. unfold reduce_degree_Zp_uni in H.
  destruct (reduce_loop_spec M HM2 HF _ _ _ H) as (A & B & C).
  split; [|split; assumption].
  intros a. change (peval r a == peval cs a modulo M). rewrite (A a). apply dense_norm_eval. lia.
Qed.

(* ------------------------------------------------------------------ certificates (completeness oracle) *)

Lemma peval_scale c l x : peval (map (Z.mul c) l) x = c * peval l x.
Proof. induction l as [|d t IH]; cbn; [ring|]. rewrite IH. ring. Qed.

Lemma peval_padd a : forall b x, peval (padd a b) x = peval a x + peval b x.
Proof.
  induction a as [|c t IH]; intros b x; [cbn; ring|].
  destruct b as [|d tb]; [cbn; ring|]. cbn [padd peval]. rewrite IH. ring.
Qed.

Lemma peval_pmul a : forall b x, peval (pmul a b) x = peval a x * peval b x.
Proof.
  induction a as [|c t IH]; intros b x; [cbn; ring|].
  cbn [pmul]. rewrite peval_padd, peval_scale. cbn [peval]. rewrite IH. ring.
Qed.

Definition prod_lin (rs : list Z) (x : Z) : Z := fold_right (fun r p => (x - r) * p) 1 rs.
Definition prod_quad (qs : list (Z * Z)) (x : Z) : Z :=
  fold_right (fun q p => (x * x + fst q * x + snd q) * p) 1 qs.

Lemma fold_lin_eval rs : forall acc x,
  peval (fold_left (fun acc r => pmul acc [- r; 1]) rs acc) x = peval acc x * prod_lin rs x.
Proof.
  induction rs as [|r t IH]; intros acc x; [cbn; ring|].
  cbn [fold_left prod_lin fold_right]. rewrite IH, peval_pmul. fold (prod_lin t x). cbn [peval]. ring.
Qed.
Lemma fold_quad_eval qs : forall acc x,
  peval (fold_left (fun acc q => pmul acc [snd q; fst q; 1]) qs acc) x = peval acc x * prod_quad qs x.
Proof.
  induction qs as [|q t IH]; intros acc x; [cbn; ring|].
  cbn [fold_left prod_quad fold_right]. rewrite IH, peval_pmul. fold (prod_quad t x). cbn [peval]. ring.
Qed.

Lemma cert_product_eval lc rs qs x :
  peval (cert_product lc rs qs) x = lc * prod_lin rs x * prod_quad qs x.
Proof. unfold cert_product. rewrite fold_quad_eval, fold_lin_eval. cbn [peval]. ring. Qed.

Lemma all_zero_mod_eval M l x : all_zero_mod M l = true -> peval l x == 0 modulo M.
Proof.
  unfold all_zero_mod. rewrite forallb_forall. intros H. apply peval_zeros. apply Forall_forall.
  intros c Hc. apply Z.eqb_eq. apply H. assumption.
Qed.

Lemma coeffs_cong_eval M a : forall b x, coeffs_cong M a b = true -> peval a x == peval b x modulo M.
Proof.
  induction a as [|c t IH]; intros b x H.
  - cbn [coeffs_cong] in H. rewrite (all_zero_mod_eval M b x H). reflexivity.
  - destruct b as [|d tb].
    + cbn [coeffs_cong] in H. rewrite (all_zero_mod_eval M (c :: t) x H). reflexivity.
    + cbn [coeffs_cong] in H. apply andb_true_iff in H. destruct H as [H1 H2]. apply Z.eqb_eq in H1.
      cbn [peval]. rewrite (IH tb x H2).
      assert (E: c == d modulo M).
      { unfold eqm. destruct (Z.eq_dec M 0) as [->|HM]; [rewrite !Zmod_0_r in *; lia|].
        apply Z.mod_divide in H1; [|assumption]. destruct H1 as [k Hk].
        replace c with (d + k * M) by lia. apply Z_mod_plus_full. }
      rewrite E. reflexivity.
Qed.

Lemma prime_mul_zero M a b : prime M -> ((a * b) mod M = 0 <-> a mod M = 0 \/ b mod M = 0).
Proof.
  intros HP. pose proof (prime_ge_2 M HP). rewrite !Z.mod_divide by lia. split.
  - intros H0. apply prime_mult; assumption.
  - intros [H0|H0]; [apply Z.divide_mul_l|apply Z.divide_mul_r]; assumption.
Qed.

Lemma prod_lin_zero M rs a : prime M ->
  (prod_lin rs a mod M = 0 <-> exists r, In r rs /\ a mod M = r mod M).
Proof.
  intros HP. pose proof (prime_ge_2 M HP) as HM2. induction rs as [|r t IH].
  - cbn. rewrite Z.mod_1_l by lia. split; [lia|intros [r [[] _]]].
  - cbn [prod_lin fold_right]. fold (prod_lin t a). rewrite (prime_mul_zero M _ _ HP), IH. split.
    + intros [H|[r' [H1 H2]]].
      * exists r. split; [left; reflexivity|].
        assert (E: a - r == 0 modulo M) by (apply eqm_zero_iff; assumption).
        change (a == r modulo M). replace a with ((a - r) + r) by ring. rewrite E. reflexivity.
      * exists r'. split; [right; assumption|assumption].
    + intros [r' [[->|H1] H2]].
      * left. rewrite Zminus_mod, H2, Z.sub_diag. apply Zmod_0_l.
      * right. exists r'. split; assumption.
Qed.

(* Euler: a quadratic whose discriminant is a non-residue has no root *)
Lemma quad_no_root M b c a : prime M -> 2 < M -> fermat_holds M ->
  powmod (b * b - 4 * c) ((M - 1) / 2) M = M - 1 -> (a * a + b * a + c) mod M <> 0.
Proof.
  intros HP HM2 HF HE Hroot.
  assert (HM: 0 < M) by lia.
  unfold powmod in HE. rewrite Zpow_mod_correct in HE by lia.
  set (h := (M - 1) / 2) in *. set (D := b * b - 4 * c) in *. set (y := 2 * a + b).
  assert (Hodd: M - 1 = 2 * h).
  { assert (M mod 2 <> 0).
    { intros H2. apply Z.mod_divide in H2; [|lia]. apply prime_divisors in H2; [|assumption]. lia. }
    unfold h. lia. }
  assert (Hy: y * y == D modulo M).
  { replace (y * y) with (4 * (a * a + b * a + c) + D) by (unfold y, D; ring).
    apply eqm_zero_iff in Hroot. rewrite Hroot. unfold eqm. f_equal; try ring. }
  assert (HD: D ^ h mod M = y ^ (M - 1) mod M).
  { rewrite Zpower_mod by assumption. unfold eqm in Hy. rewrite <- Hy. rewrite <- Zpower_mod by assumption.
    f_equal. rewrite Hodd. rewrite Z.pow_mul_r by lia. f_equal. ring. }
  rewrite HD in HE.
  assert (Hy0: y mod M = 0 \/ y ^ (M - 1) mod M = 1).
  { pose proof (HF y) as Hf.
    assert (Hdiv: (y * (y ^ (M - 1) - 1)) mod M = 0).
    { replace (y * (y ^ (M - 1) - 1)) with (y ^ M - y).
      - rewrite Zminus_mod, Hf, Z.sub_diag. apply Zmod_0_l.
      - replace M with (Z.succ (M - 1)) at 1 by lia. rewrite Z.pow_succ_r by lia. ring. }
    apply (prime_mul_zero M _ _ HP) in Hdiv. destruct Hdiv as [H|H]; [left; assumption|right].
    assert (E: y ^ (M - 1) - 1 == 0 modulo M) by (apply eqm_zero_iff; assumption).
    replace (y ^ (M - 1)) with ((y ^ (M - 1) - 1) + 1) by ring. unfold eqm in E.
    rewrite Zplus_mod, E. cbn. rewrite Z.mod_mod by lia. apply Z.mod_1_l. lia. }
  destruct Hy0 as [H0|H1].
  - rewrite Zpower_mod, H0 in HE by assumption. rewrite Z.pow_0_l, Zmod_0_l in HE by lia. lia.
  - lia.
Qed.

Lemma prod_quad_nonzero M qs a : prime M -> 2 < M -> fermat_holds M ->
  forallb (fun q => powmod (fst q * fst q - 4 * snd q) ((M - 1) / 2) M =? M - 1) qs = true ->
  prod_quad qs a mod M <> 0.
Proof.
  intros HP HM2 HF. induction qs as [|q t IH]; intros H.
  - cbn. rewrite Z.mod_1_l by lia. lia.
  - cbn [forallb] in H. apply andb_true_iff in H. destruct H as [H1 H2]. apply Z.eqb_eq in H1.
    cbn [prod_quad fold_right]. fold (prod_quad t a). rewrite (prime_mul_zero M _ _ HP).
    intros [H|H]; [|exact (IH H2 H)].
    exact (quad_no_root M (fst q) (snd q) a HP HM2 HF H1 H).
Qed.

Lemma cert_roots_spec M rs : 0 < M ->
  ssorted (cert_roots M rs) /\ Forall (InK M) (cert_roots M rs) /\
  (forall a, InK M a -> (In a (cert_roots M rs) <-> exists r, In r rs /\ a mod M = r mod M)).
Proof.
  intros HM. destruct (fs_from_integers_spec M rs false HM) as [(_ & S & K) HI].
  unfold fs_from_integers in *. cbn [fs_el fs_M] in *. unfold cert_roots.
  split; [assumption|]. split; [assumption|].
  intros a Ha. rewrite HI. split; intros [r [H1 H2]]; exists r; (split; [assumption|]).
  - subst a. apply ring_norm_cong. assumption.
  - symmetry. apply ring_norm_char; assumption.
Qed.

(* a certificate that checks determines the root set: the oracle used for the randomised branch *)
Lemma cert_ok_complete M f lc rs qs : prime M -> fermat_holds M -> cert_ok M f lc rs qs = true ->
  forall a, InK M a -> (peval f a mod M = 0 <-> In a (cert_roots M rs)).
Proof.
  intros HP HF H a Ha. pose proof (prime_ge_2 M HP) as HM2.
  unfold cert_ok in H. repeat (apply andb_true_iff in H; destruct H as [H ?]).
  apply Z.ltb_lt in H. rename H0 into Hq. rename H1 into Hc. rename H2 into Hlc.
  apply negb_true_iff, Z.eqb_neq in Hlc.
  destruct (cert_roots_spec M rs ltac:(lia)) as (_ & _ & HR). rewrite (HR a Ha).
  pose proof (coeffs_cong_eval M f _ a Hc) as E. unfold eqm in E. rewrite E, cert_product_eval.
  rewrite (prime_mul_zero M _ _ HP), (prime_mul_zero M _ _ HP), (prod_lin_zero M rs a HP).
  pose proof (prod_quad_nonzero M qs a HP H HF Hq). tauto.
Qed.

(* ------------------------------------------------------------------ soundness step of the random splitting *)

(* Rabin's method returns -c0/c1 for a linear polynomial c1 x + c0 that divides a divisor h of f
   (f = q h, h = u (c1 x + c0) modulo M): such an element is a root of f *)
Lemma linear_factor_root M f q h u c0 c1 a :
  coeffs_cong M f (pmul q h) = true -> coeffs_cong M h (pmul u [c0; c1]) = true ->
  (c1 * a + c0) mod M = 0 -> peval f a mod M = 0.
Proof.
  intros H1 H2 H3.
  pose proof (coeffs_cong_eval M f _ a H1) as E1. pose proof (coeffs_cong_eval M h _ a H2) as E2.
  rewrite peval_pmul in E1, E2. cbn [peval] in E2.
  replace (c0 + a * (c1 + a * 0)) with (c1 * a + c0) in E2 by ring.
  assert (E3: c1 * a + c0 == 0 modulo M) by (apply eqm_zero_iff; assumption).
  enough (E4: peval f a == 0 modulo M) by (apply (proj1 (eqm_zero_iff M _)); exact E4).
  transitivity (peval q a * peval h a); [exact E1|].
  transitivity (peval q a * (peval u a * (c1 * a + c0))).
  { apply eqm_mul; [reflexivity|exact E2]. }
  transitivity (peval q a * (peval u a * 0)).
  { apply eqm_mul; [reflexivity|]. apply eqm_mul; [reflexivity|exact E3]. }
  unfold eqm. f_equal. ring.
Qed.
