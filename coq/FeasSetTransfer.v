(* C13 - why running the model on RANKS says something about the real values.
   Every order-only operation of FeasSet.v commutes with any map f between carriers that preserves the
   comparison (cmp' (f x) (f y) = cmp x y) - in particular with "rank in the pool |-> the pool value" when
   lp_value_cmp is the order of the denoted numbers (property C08).  So the interval lists / statuses /
   membership answers computed on ranks are the images of those computed on the values themselves. *)
From Coq Require Import ZArith List Bool Lia.
From LP Require Import FeasSet FeasSetSpec FeasSetProofs.
Import ListNotations.

Section Transfer.
Context {T T' : Type} (cmp : T -> T -> comparison) (cmp' : T' -> T' -> comparison) (f : T -> T').
Hypothesis Hf : forall x y, cmp' (f x) (f y) = cmp x y.

Definition map_itv (X : itv T) : itv T' :=
  mkItv (f (ia X)) (f (ib X)) (ia_open X) (ib_open X) (ipt X).
Definition map_res (r : option (rel * option (itv T))) : option (rel * option (itv T')) :=
  match r with Some (r, P) => Some (r, option_map map_itv P) | None => None end.

Lemma tr_get_ub X : get_ub (map_itv X) = f (get_ub X).
Proof. unfold get_ub, map_itv; cbn. destruct (ipt X); reflexivity. Qed.
Lemma tr_get_lb X : get_lb (map_itv X) = f (get_lb X).
Proof. reflexivity. Qed.

Lemma tr_cmp_lb X Y : cmp_lower_bounds cmp' (map_itv X) (map_itv Y) = cmp_lower_bounds cmp X Y.
Proof. unfold cmp_lower_bounds. rewrite !tr_get_lb, Hf. reflexivity. Qed.
Lemma tr_cmp_ub X Y : cmp_upper_bounds cmp' (map_itv X) (map_itv Y) = cmp_upper_bounds cmp X Y.
Proof. unfold cmp_upper_bounds. rewrite !tr_get_ub, Hf. reflexivity. Qed.

Lemma tr_construct a ao b bo :
  itv_construct cmp' (f a) ao (f b) bo = option_map map_itv (itv_construct cmp a ao b bo).
Proof. unfold itv_construct. rewrite Hf. destruct (cmp a b); [destruct (ao || bo)| |]; reflexivity. Qed.

Lemma tr_copy X : itv_construct_copy (map_itv X) = map_itv (itv_construct_copy X).
Proof. unfold itv_construct_copy, map_itv; cbn. destruct (ipt X); reflexivity. Qed.

Lemma tr_cmp_value X v : itv_cmp_value cmp' (map_itv X) (f v) = itv_cmp_value cmp X v.
Proof. unfold itv_cmp_value, map_itv; cbn. rewrite !Hf. reflexivity. Qed.

Lemma tr_set_b X b bo : itv_set_b cmp' (map_itv X) (f b) bo = option_map map_itv (itv_set_b cmp X b bo).
Proof.
  unfold itv_set_b, map_itv; cbn. rewrite Hf. destruct (cmp (ia X) b); [destruct (ia_open X || bo)| |]; reflexivity.
Qed.

Lemma tr_cmp_with_intersect w X Y :
  cmp_with_intersect cmp' w (map_itv X) (map_itv Y) = map_res (cmp_with_intersect cmp w X Y).
Proof.
  unfold cmp_with_intersect. rewrite tr_cmp_lb, tr_cmp_ub, !tr_copy, !tr_get_ub, !tr_get_lb, !Hf, !tr_construct.
  change (ia (map_itv Y)) with (f (ia Y)). change (ia (map_itv X)) with (f (ia X)).
  change (ia_open (map_itv X)) with (ia_open X). change (ia_open (map_itv Y)) with (ia_open Y).
  change (ib_open (map_itv X)) with (ib_open X). change (ib_open (map_itv Y)) with (ib_open Y).
  destruct (cmp_upper_bounds cmp X Y); destruct (cmp_lower_bounds cmp X Y); cbn [isEq isLt isGt andb negb];
    try (destruct w; reflexivity).
  - destruct (cmp (get_ub X) (get_lb Y)); cbn [isEq andb]; destruct (ib_open X || ia_open Y); cbn;
      try (destruct w; reflexivity);
      try (destruct w; [destruct (itv_construct cmp (get_lb Y) (ia_open Y) (get_ub X) (ib_open X))|]; reflexivity).
  - destruct (cmp (get_lb X) (get_ub Y)); cbn [isEq andb]; destruct (ia_open X || ib_open Y); cbn;
      try (destruct w; reflexivity);
      try (destruct w; [destruct (itv_construct cmp (get_lb X) (ia_open X) (get_ub Y) (ib_open Y))|]; reflexivity).
Qed.

Lemma tr_itv_cmp X Y : itv_cmp cmp' (map_itv X) (map_itv Y) = itv_cmp cmp X Y.
Proof.
  unfold itv_cmp. rewrite tr_cmp_with_intersect. destruct (cmp_with_intersect cmp false X Y) as [[r P]|]; reflexivity.
Qed.

(* ---- intersection *)
Definition map_loop (r : option (list (itv T) * bool * bool)) : option (list (itv T') * bool * bool) :=
  match r with Some (l, f1, f2) => Some (map map_itv l, f1, f2) | None => None end.

Lemma tr_isect_step take P k1 k2 rest :
  isect_step take (option_map map_itv P) k1 k2 (map_loop rest) = map_loop (isect_step take P k1 k2 rest).
Proof. destruct rest as [[[l f1] f2]|]; cbn; [|reflexivity]. destruct take; [destruct P|]; reflexivity. Qed.

Lemma tr_isect_loop : forall n s1 s2, (length s1 + length s2 <= n)%nat ->
  isect_loop cmp' (map map_itv s1) (map map_itv s2) = map_loop (isect_loop cmp s1 s2).
Proof.
  induction n as [|n IH]; intros s1 s2 Hn; rewrite !isect_loop_eq.
  - destruct s1, s2; cbn in Hn; try lia. reflexivity.
  - destruct s1 as [|X t1]; [destruct s2; reflexivity|]. destruct s2 as [|Y t2]; [reflexivity|].
    cbn [map]. rewrite tr_cmp_with_intersect. cbn in Hn.
    destruct (cmp_with_intersect cmp true X Y) as [[r P]|]; [|reflexivity]. cbn [map_res].
    change (map_itv X :: map map_itv t1) with (map map_itv (X :: t1)).
    change (map_itv Y :: map map_itv t2) with (map map_itv (Y :: t2)).
    destruct r; rewrite IH by (cbn; lia); apply tr_isect_step.
Qed.

Definition map_isect (r : option (list (itv T) * status)) : option (list (itv T') * status) :=
  match r with Some (l, st) => Some (map map_itv l, st) | None => None end.

Theorem tr_intersect s1 s2 :
  fs_intersect cmp' (map map_itv s1) (map map_itv s2) = map_isect (fs_intersect cmp s1 s2).
Proof.
  unfold fs_intersect. destruct s1 as [|X t1]; [reflexivity|]. destruct s2 as [|Y t2]; [reflexivity|].
  pose proof (tr_isect_loop _ (X :: t1) (Y :: t2) (le_n _)) as E. cbn [map] in E |- *. rewrite E.
  destruct (isect_loop cmp (X :: t1) (Y :: t2)) as [[[l f1] f2]|]; [|reflexivity]. cbn.
  destruct f1; [reflexivity|]. destruct f2; [reflexivity|]. destruct l; reflexivity.
Qed.

(* ---- membership *)
Lemma tr_bsearch s v : forall fuel l r,
  bsearch cmp' fuel (map map_itv s) (f v) l r = bsearch cmp fuel s v l r.
Proof.
  induction fuel as [|fuel IH]; intros l r; [reflexivity|]. cbn [bsearch].
  destruct (Nat.leb r l); [reflexivity|]. rewrite nth_error_map.
  destruct (nth_error s (l + Nat.div (r - l) 2)) as [X|]; [|reflexivity]. cbn [option_map].
  rewrite tr_cmp_value. destruct (itv_cmp_value cmp X v); auto.
Qed.

Theorem tr_contains s v : fs_contains cmp' (map map_itv s) (f v) = fs_contains cmp s v.
Proof. unfold fs_contains. rewrite map_length. apply tr_bsearch. Qed.

(* ---- union *)
Lemma tr_sort_for_union X Y : sort_for_union cmp' (map_itv X) (map_itv Y) = sort_for_union cmp X Y.
Proof. unfold sort_for_union. rewrite tr_itv_cmp. reflexivity. Qed.

Lemma tr_sort_insert x l :
  sort_insert cmp' (map_itv x) (map map_itv l) = option_map (map map_itv) (sort_insert cmp x l).
Proof.
  induction l as [|y t IH]; [reflexivity|]. cbn [map sort_insert]. rewrite tr_sort_for_union.
  destruct (sort_for_union cmp x y) as [[| |]|]; try reflexivity.
  rewrite IH. destruct (sort_insert cmp x t); reflexivity.
Qed.

Lemma tr_sort_intervals l :
  sort_intervals cmp' (map map_itv l) = option_map (map map_itv) (sort_intervals cmp l).
Proof.
  induction l as [|x t IH]; [reflexivity|]. cbn [map sort_intervals]. rewrite IH.
  destruct (sort_intervals cmp t) as [t'|]; [|reflexivity]. cbn [option_map]. apply tr_sort_insert.
Qed.

Lemma tr_fuse : forall rest cur,
  fuse cmp' (map_itv cur) (map map_itv rest) = option_map (map map_itv) (fuse cmp cur rest).
Proof.
  induction rest as [|Y t IH]; intro cur; [reflexivity|]. cbn [map fuse].
  rewrite tr_itv_cmp. destruct (itv_cmp cmp cur Y) as [r|]; [|reflexivity].
  rewrite !tr_get_ub, tr_get_lb, Hf, tr_set_b.
  change (ib_open (map_itv Y)) with (ib_open Y). change (ib_open (map_itv cur)) with (ib_open cur).
  change (ia_open (map_itv Y)) with (ia_open Y).
  assert (M : match option_map map_itv (itv_set_b cmp cur (get_ub Y) (ib_open Y)) with
              | Some cur' => fuse cmp' cur' (map map_itv t) | None => None end =
              option_map (map map_itv) match itv_set_b cmp cur (get_ub Y) (ib_open Y) with
              | Some cur' => fuse cmp cur' t | None => None end).
  { destruct (itv_set_b cmp cur (get_ub Y) (ib_open Y)); cbn; [apply IH|reflexivity]. }
  assert (K : match fuse cmp' (map_itv Y) (map map_itv t) with Some r' => Some (map_itv cur :: r') | None => None end =
              option_map (map map_itv) match fuse cmp Y t with Some r' => Some (cur :: r') | None => None end).
  { rewrite IH. destruct (fuse cmp Y t); reflexivity. }
  destruct r; try reflexivity; try exact M; try apply IH.
  destruct (isEq (cmp (get_ub cur) (get_lb Y)) && (negb (ib_open cur) || negb (ia_open Y))); [exact M|exact K].
Qed.

Theorem tr_add minf pinf s from :
  fs_add cmp' (f minf) (f pinf) (map map_itv s) (map map_itv from) =
  option_map (map map_itv) (fs_add cmp minf pinf s from).
Proof.
  unfold fs_add. destruct from as [|Y from']; [reflexivity|]. cbn [map fs_is_empty].
  assert (E : fs_is_full cmp' (f minf) (f pinf) (map map_itv s) = fs_is_full cmp minf pinf s).
  { unfold fs_is_full. destruct s as [|X [|? ?]]; try reflexivity. cbn [map]. rewrite tr_get_lb, tr_get_ub, !Hf. reflexivity. }
  rewrite E. destruct (fs_is_full cmp minf pinf s); [reflexivity|].
  change (map_itv Y :: map map_itv from') with (map map_itv (Y :: from')).
  rewrite <- map_app, tr_sort_intervals.
  destruct (sort_intervals cmp (s ++ Y :: from')) as [l|]; [|reflexivity]. cbn [option_map].
  unfold fuse_sorted. destruct l as [|c rest]; [reflexivity|]. cbn [map]. apply tr_fuse.
Qed.

End Transfer.
