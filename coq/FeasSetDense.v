(* C13 - a dense carrier exists: the canonical rationals Qc with Qccompare are a total order with Leibniz
   equality in which between any two values there is a third (non-vacuity of the `dense` premises). *)
From Coq Require Import QArith Qcanon Lqa.
From LP Require Import FeasSetSpec.

Lemma Qc_total_order : total_order Qccompare.
Proof.
  constructor.
  - intros x y. symmetry. apply Qceq_alt.
  - intros x y. unfold Qccompare. symmetry. apply Qcompare_antisym.
  - intros x y z. rewrite <- !Qclt_alt. apply Qclt_trans.
Qed.

Lemma Qc_dense : dense Qccompare.
Proof.
  intros x y. rewrite <- Qclt_alt. intro Hlt.
  exists (Q2Qc ((this x + this y) * (1 # 2))). rewrite <- !Qclt_alt. unfold Qclt in *. cbn [this Q2Qc].
  rewrite !Qred_correct. split; lra.
Qed.

(* the extended canonical rationals: a dense total order with a least element -inf and a greatest element +inf
   whose finite part has neither (non-vacuity of the `dense` + `bounds` premises) *)
Inductive xqc := CMinf | CFin (q : Qc) | CPinf.
Definition xqc_cmp (x y : xqc) : comparison :=
  match x, y with
  | CMinf, CMinf => Eq | CMinf, _ => Lt | _, CMinf => Gt
  | CPinf, CPinf => Eq | CPinf, _ => Gt | _, CPinf => Lt
  | CFin p, CFin q => Qccompare p q
  end.

Lemma xqc_total_order : total_order xqc_cmp.
Proof.
  pose proof Qc_total_order as TQ. constructor.
  - intros [|p|] [|q|]; cbn; split; intro E; try discriminate; try reflexivity.
    + f_equal. apply (to_eq _ TQ). exact E.
    + inversion E. apply (to_eq _ TQ). reflexivity.
  - intros [|p|] [|q|]; cbn; try reflexivity. apply (to_antisym _ TQ).
  - intros [|p|] [|q|] [|r|]; cbn; intros A B; try discriminate; try reflexivity.
    eapply (to_trans _ TQ); eauto.
Qed.

Lemma Qc_below (q : Qc) : exists p : Qc, Qccompare p q = Lt.
Proof.
  exists (Q2Qc (this q - 1)). rewrite <- Qclt_alt. unfold Qclt. cbn [this Q2Qc]. rewrite Qred_correct. lra.
Qed.
Lemma Qc_above (q : Qc) : exists p : Qc, Qccompare q p = Lt.
Proof.
  exists (Q2Qc (this q + 1)). rewrite <- Qclt_alt. unfold Qclt. cbn [this Q2Qc]. rewrite Qred_correct. lra.
Qed.

Lemma xqc_dense : dense xqc_cmp.
Proof.
  intros [|p|] [|q|]; cbn; intro E; try discriminate.
  - destruct (Qc_below q) as (r & Hr). exists (CFin r). cbn. auto.
  - exists (CFin (Q2Qc 0)). cbn. auto.
  - destruct (Qc_dense p q E) as (r & A & B). exists (CFin r). cbn. auto.
  - destruct (Qc_above p) as (r & Hr). exists (CFin r). cbn. auto.
Qed.

Lemma xqc_bounds : bounds xqc_cmp CMinf CPinf.
Proof.
  constructor.
  - intros [|q|]; cbn; discriminate.
  - intros [|q|]; cbn; discriminate.
  - discriminate.
  - intros [|q|] N; [congruence| |].
    + destruct (Qc_below q) as (r & Hr). exists (CFin r). split; [discriminate|exact Hr].
    + exists (CFin (Q2Qc 0)). split; [discriminate|reflexivity].
  - intros [|q|] N; [| |congruence].
    + exists (CFin (Q2Qc 0)). split; [discriminate|reflexivity].
    + destruct (Qc_above q) as (r & Hr). exists (CFin r). split; [discriminate|exact Hr].
Qed.
