(* G4: the field operations of the reference algebraic numbers (RefAlg.rn_add / rn_sub / rn_mul / ...), built from the
   annihilating polynomials of RefAlgAnn.v, the interval enclosures iv_add / iv_mul and the "refine until the enclosure
   isolates a root" loop rn_select, denote the sum / difference / product of the denoted numbers.
   COND: two named premises, stated for the real closed field R at hand (Section hypotheses below):
     count_open_correct  - the interval Sturm count (C06, in progress elsewhere)
     psqfree_correct     - the square-free part is square-free and has the same real roots. *)
From Coq Require Import ZArith Lia.
From LP Require Import Scalar UPoly RefAlg.
Set Warnings "-notation-overridden,-ambiguous-paths".
From mathcomp Require Import all_ssreflect all_algebra all_real_closed.
From mathcomp Require Import ssrZ zify ring.
Set Warnings "notation-overridden,ambiguous-paths".
From LP Require Import UPolySpec ScalarProofs RefAlgSpec RefAlgLoops RefAlgOps RefAlgAnn.
Import GRing.Theory Num.Theory Num.Def Order.TTheory.
Set Implicit Arguments.
Unset Strict Implicit.
Unset Printing Implicit Defensive.
Local Open Scope ring_scope.

Section Rationals.
Variable R : rcfType.
Local Notation zr := (@zr R).
Local Notation pr := (@pr R).
Local Notation qr := (@qr R).

Lemma q_eq_spec (a b : Z * Z) : qpos a -> qpos b -> q_eq a b = (qr a == qr b).
Proof.
move=> Ha Hb; rewrite /q_eq -subr_eq0 -sgr_eq0 -q_cmp_sgn // zr_eq0.
by [].
Qed.

Lemma q_lt_spec (a b : Z * Z) : qpos a -> qpos b -> q_lt a b = (qr a < qr b).
Proof.
move=> Ha Hb; rewrite /q_lt -subr_lt0 -sgr_lt0 -q_cmp_sgn // zr_lt0.
by [].
Qed.

Lemma qr_mul (a b : Z * Z) : qpos a -> qpos b -> qpos (q_mul a b) /\ qr (q_mul a b) = qr a * qr b.
Proof.
move=> Ha Hb; rewrite /q_mul.
have Hd : Z.mul a.2 b.2 <> Z0 by move: Ha Hb; rewrite /qpos; lia.
have [Hp ->] := qr_canon' R (Z.mul a.1 b.1) Hd; split=> //.
rewrite !zrM /RefAlgSpec.qr; field.
by rewrite !gt_eqF // zr_gt0.
Qed.

Lemma qr_min (a b : Z * Z) : qpos a -> qpos b -> qpos (q_min a b) /\ qr (q_min a b) = Num.min (qr a) (qr b).
Proof.
move=> Ha Hb; rewrite /q_min (q_le_spec R) //; case: (lerP (qr a) (qr b)) => H; split=> //.
Qed.

Lemma qr_max (a b : Z * Z) : qpos a -> qpos b -> qpos (q_max a b) /\ qr (q_max a b) = Num.max (qr a) (qr b).
Proof.
move=> Ha Hb; rewrite /q_max (q_le_spec R) //; case: (lerP (qr a) (qr b)) => H; split=> //.
Qed.

End Rationals.

Section Select.
Variable R : rcfType.
Local Notation zr := (@zr R).
Local Notation pr := (@pr R).
Local Notation qr := (@qr R).
Local Notation rn_denotes := (@rn_denotes R).

(* a square-free polynomial changes sign across an interval that contains exactly one root and no root at the ends *)
Lemma sqfree_sign_change (P : {poly R}) (l h v : R) :
  coprimep P P^`() -> l < v < h -> root P v ->
  (forall w, root P w -> l < w < h -> w = v) -> P.[l] != 0 -> P.[h] != 0 ->
  sgr P.[l] * sgr P.[h] = -1.
Proof.
move=> Hsq /andP[lv vh] rv uniq Pl Ph.
have /factor_theorem[S ES] := rv.
have Sv : S.[v] != 0.
  apply/negP => /eqP Sv0; move/Pdiv.Idomain.coprimep_root: Hsq => /(_ v rv).
  by rewrite ES derivM derivXsubC mulr1 hornerD hornerM hornerXsubC subrr mulr0 add0r Sv0 eqxx.
have HSl : S.[l] != 0 by apply: contraNneq Pl => E; rewrite ES hornerM E mul0r.
have HSh : S.[h] != 0 by apply: contraNneq Ph => E; rewrite ES hornerM E mul0r.
have Hss : sgr S.[l] * sgr S.[h] = 1.
  have: sgr S.[l] * sgr S.[h] != -1.
    apply/negP => /eqP H; have [w] := ivt_sign (ltW (lt_trans lv vh)) H.
    rewrite in_itv /= => Hw rw.
    have rPw : root P w by rewrite ES rootM rw.
    by move: rw; rewrite (uniq w rPw Hw) rootE (negbTE Sv).
  have Hn0 : S.[l] * S.[h] != 0 by rewrite mulf_neq0.
  by rewrite -sgrM; case: sgrP Hn0 => //; rewrite eqxx.
rewrite ES !hornerM !hornerXsubC !sgrM mulrACA Hss mul1r.
by rewrite ltr0_sg ?subr_lt0 // gtr0_sg ?subr_gt0 // mulr1.
Qed.

Lemma denotes_of_sqfree (r : seq Z) (l h : Z * Z) (v : R) :
  qpos l -> qpos h -> coprimep (pr r) (pr r)^`() -> qr l < v < qr h -> root (pr r) v ->
  (forall w, root (pr r) w -> qr l < w < qr h -> w = v) ->
  (pr r).[qr l] != 0 -> (pr r).[qr h] != 0 -> rn_denotes (RA r l h) v.
Proof.
move=> Hl Hh Hsq Hv rv uniq Pl Ph.
by split; [split|exact: Hv|exact: rv|exact: uniq|exact: (sqfree_sign_change Hsq Hv rv uniq Pl Ph)].
Qed.

(* ---- the two named premises *)
Definition count_open_correct_premise : Prop :=
  forall (r : seq Z) (l h : Z * Z), qpos l -> qpos h -> qr l < qr h -> Poly r != 0 ->
    coprimep (pr r) (pr r)^`() -> (pr r).[qr l] != 0 -> (pr r).[qr h] != 0 ->
    count_open r l h = size (roots (pr r) (qr l) (qr h)).

Definition psqfree_correct_premise : Prop :=
  forall (p : seq Z), Poly p != 0 ->
    [/\ Poly (psqfree p) != 0, coprimep (pr (psqfree p)) (pr (psqfree p))^`()
      & forall v : R, root (pr (psqfree p)) v = root (pr p) v].

Hypothesis count_open_correct : count_open_correct_premise.

Lemma psgn_q_neq0 (r : seq Z) (q : Z * Z) : qpos q -> (Z.eqb (psgn_q r q) Z0) = ((pr r).[qr q] == 0).
Proof. by move=> Hq; rewrite -(zr_eq0 R) (psgn_qP R r Hq) sgr_eq0. Qed.

(* generic selection loop: the enclosure either is the point v or strictly contains v *)
Definition encl_ok (encl : rnum -> rnum -> (Z * Z) * (Z * Z)) (a b v : R) : Prop :=
  forall x y, rn_denotes x a -> rn_denotes y b ->
    [/\ qpos (encl x y).1, qpos (encl x y).2 &
        (qr (encl x y).1 = v /\ qr (encl x y).2 = v) \/ (qr (encl x y).1 < v < qr (encl x y).2)].

Theorem rn_select_spec_cond (fuel : nat) (r : seq Z) encl (x y z : rnum) (a b v : R) :
  Poly r != 0 -> coprimep (pr r) (pr r)^`() -> root (pr r) v -> encl_ok encl a b v ->
  rn_denotes x a -> rn_denotes y b -> rn_select fuel r encl x y = Some z -> rn_denotes z v.
Proof.
move=> r0 Hsq rv Henc; elim: fuel x y => [|f IH] x y //= Hx Hy.
have [] := Henc x y Hx Hy; case: (encl x y) => l h /= Hl Hh Hlh.
rewrite (q_eq_spec R) //; case: (altP (qr l =P qr h)) => [Elh|Nlh].
  case=> <-; split=> //.
  by case: Hlh => [[]//|/andP[H1 H2]]; move: (lt_trans H1 H2); rewrite Elh ltxx.
case: Hlh => [[E1 E2]|Hv]; first by move: Nlh; rewrite E1 E2 eqxx.
rewrite !psgn_q_neq0 //.
case: ifP => [/andP[/andP[Pl Ph] /Nat.eqb_eq Hc]|_]; last first.
  by apply: IH; exact: rn_refine_spec.
case=> <-.
have lh : qr l < qr h by case/andP: Hv => H1 H2; exact: lt_trans H1 H2.
have Hsz := count_open_correct Hl Hh lh r0 Hsq Pl Ph.
have pr0 : pr r != 0 by rewrite pr_eq0.
apply: denotes_of_sqfree => // w rw Hw.
have Hin (u : R) : root (pr r) u -> qr l < u < qr h -> u \in roots (pr r) (qr l) (qr h).
  by move=> ru Hu; rewrite in_roots ru pr0 in_itv /= Hu.
have := Hin w rw Hw; have := Hin v rv Hv.
move: Hsz; rewrite Hc; case: (roots _ _ _) => [|u [|u' s]] //= _.
by rewrite !inE => /eqP -> /eqP ->.
Qed.

End Select.

Section Ops.
Variable R : rcfType.
Local Notation zr := (@zr R).
Local Notation pr := (@pr R).
Local Notation qr := (@qr R).
Local Notation rn_denotes := (@rn_denotes R).

Hypothesis count_open_correct : count_open_correct_premise R.
Hypothesis psqfree_correct : psqfree_correct_premise R.

(* the defining polynomial of a number is non-zero and vanishes at the number *)
Lemma rn_poly_spec (x : rnum) (a : R) : rn_denotes x a -> Poly (rn_poly x) != 0 /\ root (pr (rn_poly x)) a.
Proof.
case: x => [q|p lo hi].
  case=> Hq ->; have d0 : zr q.2 != 0 by rewrite gt_eqF // zr_gt0.
  rewrite [rn_poly _]/=; split.
    apply/eqP => /(congr1 (fun u : {poly Z} => u`_1)); rewrite coef_Poly_nth coef0 /= => E.
    by move: Hq; rewrite /qpos E.
  rewrite rootE !pr_cons pr_nil mul0r addr0 hornerD hornerC hornerMX hornerC zrN /RefAlgSpec.qr.
  by rewrite mulrCA divff // mulr1 addNr.
move=> /= [_ _ rv _ sgn]; split=> //.
rewrite -(pr_eq0 R); apply/eqP => E.
by move: sgn; rewrite E !horner0 sgr0 mulr0 => /eqP; rewrite eq_sym oppr_eq0 oner_eq0.
Qed.

(* the current enclosure of a number: a point (rational) or an open interval around it *)
Lemma rn_lo_hi_spec (x : rnum) (a : R) : rn_denotes x a ->
  [/\ qpos (rn_lo x), qpos (rn_hi x) &
      (qr (rn_lo x) = a /\ qr (rn_hi x) = a) \/ (qr (rn_lo x) < a < qr (rn_hi x))].
Proof.
case: x => [q|p lo hi] /=; first by case=> Hq ->; split=> //; left.
by move=> [[Hlo Hhi] Ha _ _ _]; split=> //; right.
Qed.

Lemma encl_add_ok (a b : R) :
  encl_ok (fun x y => iv_add (rn_lo x) (rn_hi x) (rn_lo y) (rn_hi y)) a b (a + b).
Proof.
move=> x y /rn_lo_hi_spec[Hl Hh Ha] /rn_lo_hi_spec[Hl' Hh' Hb]; rewrite /iv_add /=.
have [H1 E1] := qr_add R Hl Hl'; have [H2 E2] := qr_add R Hh Hh'.
split=> //; rewrite E1 E2.
case: Ha => [[-> ->]|/andP[a1 a2]]; case: Hb => [[-> ->]|/andP[b1 b2]].
- by left.
- by right; rewrite !ltr_add2l b1 b2.
- by right; rewrite !ltr_add2r a1 a2.
- by right; rewrite !ltr_add.
Qed.

(* ---- addition *)
Theorem rn_add_spec_cond (fuel : nat) (x y z : rnum) (a b : R) :
  rn_denotes x a -> rn_denotes y b -> rn_add fuel x y = Some z -> rn_denotes z (a + b).
Proof.
move=> Hx Hy.
have Hgen : rn_select fuel (psqfree (ann_add (rn_poly x) (rn_poly y)))
              (fun x y => iv_add (rn_lo x) (rn_hi x) (rn_lo y) (rn_hi y)) x y = Some z ->
            rn_denotes z (a + b).
  have [px0 rx] := rn_poly_spec Hx; have [py0 ry] := rn_poly_spec Hy.
  have ann0 := ann_add_neq0 px0 py0.
  have [r0 Hsq Hroot] := psqfree_correct ann0.
  apply: (rn_select_spec_cond count_open_correct r0 Hsq _ (@encl_add_ok a b) Hx Hy).
  by rewrite Hroot; exact: ann_add_root.
case: x Hx Hgen => [qa|p lo hi] Hx Hgen; case: y Hy Hgen => [qb|p' lo' hi'] Hy Hgen //=.
case=> <-; case: Hx => Hqa ->; case: Hy => Hqb ->.
by have [H1 H2] := qr_add R Hqa Hqb.
Qed.

(* ---- subtraction *)
Theorem rn_sub_spec_cond (fuel : nat) (x y z : rnum) (a b : R) :
  rn_denotes x a -> rn_denotes y b -> rn_sub fuel x y = Some z -> rn_denotes z (a - b).
Proof. by move=> Hx Hy; apply: rn_add_spec_cond Hx (rn_neg_spec Hy). Qed.

(* ---- multiplication *)
Lemma lin_closed (c x y t : R) : x <= t <= y ->
  Num.min (x * c) (y * c) <= t * c <= Num.max (x * c) (y * c).
Proof.
move=> /andP[xt ty]; rewrite le_minl le_maxr.
case: (lerP 0 c) => Hc.
  by rewrite (ler_wpmul2r Hc xt) (ler_wpmul2r Hc ty) orbT.
by rewrite (ler_wnmul2r (ltW Hc) ty) (ler_wnmul2r (ltW Hc) xt) orbT.
Qed.

Lemma lin_open (c x y t : R) : c != 0 -> x < t < y ->
  Num.min (x * c) (y * c) < t * c < Num.max (x * c) (y * c).
Proof.
move=> c0 /andP[xt ty]; rewrite lt_minl lt_maxr.
case: (ltrgt0P c) c0 => // Hc _.
  by rewrite !(ltr_pmul2r Hc) xt ty orbT.
by rewrite !(ltr_nmul2r Hc) ty xt orbT.
Qed.

Lemma mul_encl (lo hi lo' hi' a b : R) : a != 0 -> b != 0 ->
  (lo = a /\ hi = a) \/ lo < a < hi -> (lo' = b /\ hi' = b) \/ lo' < b < hi' ->
  let m := Num.min (Num.min (lo * lo') (lo * hi')) (Num.min (hi * lo') (hi * hi')) in
  let M := Num.max (Num.max (lo * lo') (lo * hi')) (Num.max (hi * lo') (hi * hi')) in
  (m = a * b /\ M = a * b) \/ m < a * b < M.
Proof.
move=> a0 b0 Ha Hb m M.
have Hca : lo <= a <= hi.
  by case: Ha => [[-> ->]|/andP[/ltW -> /ltW ->]] //; rewrite lexx.
case: Hb => [[El' Eh']|Hb].
  case: Ha => [[El Eh]|Ha].
    by left; rewrite /m /M El Eh El' Eh' !minxx !maxxx.
  right; have := lin_open b0 Ha; rewrite /m /M El' Eh' !minxx !maxxx.
  by [].
right.
have /andP[H1 H2] := lin_closed lo' Hca.
have /andP[H3 H4] := lin_closed hi' Hca.
have := lin_open a0 Hb; rewrite ![_ * a]mulrC => /andP[H5 H6].
apply/andP; split.
  apply: le_lt_trans H5; rewrite le_minr /m !le_minl.
  rewrite -!le_minl in H1 H3 *.
  move: H1 H3; rewrite !le_minl => /orP[H1|H1] /orP[H3|H3]; rewrite ?H1 ?H3 ?orbT //=.
apply: lt_le_trans H6 _; rewrite le_maxl /M !le_maxr.
by move: H2 H4; rewrite !le_maxr => /orP[H2|H2] /orP[H4|H4]; rewrite ?H2 ?H4 ?orbT //=.
Qed.

Lemma encl_mul_ok (a b : R) : a != 0 -> b != 0 ->
  encl_ok (fun x y => iv_mul (rn_lo x) (rn_hi x) (rn_lo y) (rn_hi y)) a b (a * b).
Proof.
move=> a0 b0 x y /rn_lo_hi_spec[Hl Hh Ha] /rn_lo_hi_spec[Hl' Hh' Hb]; rewrite /iv_mul /=.
have [H1 E1] := qr_mul R Hl Hl'; have [H2 E2] := qr_mul R Hl Hh'.
have [H3 E3] := qr_mul R Hh Hl'; have [H4 E4] := qr_mul R Hh Hh'.
have [H12 E12] := qr_min R H1 H2; have [H34 E34] := qr_min R H3 H4.
have [G12 F12] := qr_max R H1 H2; have [G34 F34] := qr_max R H3 H4.
have [Hm Em] := qr_min R H12 H34; have [HM EM] := qr_max R G12 G34.
split=> //; rewrite Em EM E12 E34 F12 F34 E1 E2 E3 E4.
exact: mul_encl.
Qed.

Lemma rn_sgn_spec (x : rnum) (a : R) : rn_denotes x a -> zr (rn_sgn x) = sgr a.
Proof.
move=> Hx; have Hq : qpos (Z0, Zpos xH) by [].
by rewrite /rn_sgn (rn_cmp_q_spec Hx Hq) /RefAlgSpec.qr /= zr0 mul0r subr0.
Qed.

Lemma rn_sgn_eq0 (x : rnum) (a : R) : rn_denotes x a -> (Z.eqb (rn_sgn x) Z0) = (a == 0).
Proof. by move=> Hx; rewrite -(zr_eq0 R) (rn_sgn_spec Hx) sgr_eq0. Qed.

Lemma denotes_zero : rn_denotes (RQ (Z0, Zpos xH)) 0.
Proof. by split=> //; rewrite /RefAlgSpec.qr /= zr0 mul0r. Qed.

Theorem rn_mul_spec_cond (fuel : nat) (x y z : rnum) (a b : R) :
  rn_denotes x a -> rn_denotes y b -> rn_mul fuel x y = Some z -> rn_denotes z (a * b).
Proof.
move=> Hx Hy.
have Hgen : (if (Z.eqb (rn_sgn x) Z0) || (Z.eqb (rn_sgn y) Z0) then Some (RQ (Z0, Zpos xH)) else
             rn_select fuel (psqfree (ann_mul (rn_poly x) (rn_poly y)))
              (fun x y => iv_mul (rn_lo x) (rn_hi x) (rn_lo y) (rn_hi y)) x y) = Some z ->
            rn_denotes z (a * b).
  rewrite (rn_sgn_eq0 Hx) (rn_sgn_eq0 Hy).
  case: (altP (a =P 0)) => [->|a0] /=; first by case=> <-; rewrite mul0r; exact: denotes_zero.
  case: (altP (b =P 0)) => [->|b0] /=; first by case=> <-; rewrite mulr0; exact: denotes_zero.
  have [px0 rx] := rn_poly_spec Hx; have [py0 ry] := rn_poly_spec Hy.
  have ann0 := ann_mul_neq0 px0 py0.
  have [r0 Hsq Hroot] := psqfree_correct ann0.
  apply: (rn_select_spec_cond count_open_correct r0 Hsq _ (encl_mul_ok a0 b0) Hx Hy).
  by rewrite Hroot; exact: ann_mul_root.
case: x Hx Hgen => [qa|p lo hi] Hx Hgen; case: y Hy Hgen => [qb|p' lo' hi'] Hy Hgen //=.
case=> <-; case: Hx => Hqa ->; case: Hy => Hqb ->.
by have [H1 H2] := qr_mul R Hqa Hqb.
Qed.

(* ---- inverse *)
Lemma horner_pr_rcons (s : seq Z) (c : Z) (w : R) :
  (pr (rcons s c)).[w] = (pr s).[w] + zr c * w ^+ size s.
Proof.
elim: s => [|a s IH] /=.
  by rewrite pr_cons pr_nil mul0r addr0 hornerC horner0 add0r expr0 mulr1.
rewrite !pr_cons !hornerD !hornerC !hornerMX IH mulrDl exprSr mulrA addrA.
by [].
Qed.

Lemma horner_pr_rev (l : seq Z) (w : R) : w != 0 ->
  (pr (rev l)).[w] * w = w ^+ size l * (pr l).[w^-1].
Proof.
move=> w0; elim: l => [|c l IH] /=; first by rewrite pr_nil !horner0 mul0r mulr0.
rewrite rev_cons horner_pr_rcons size_rev mulrDl IH pr_cons hornerD hornerC hornerMX.
rewrite exprS; move: ((pr l).[w^-1]) (w ^+ size l) (zr c) => A B C.
by field.
Qed.

Lemma root_pr_rev (l : seq Z) (w : R) : w != 0 -> root (pr (rev l)) w = root (pr l) w^-1.
Proof.
move=> w0; rewrite !rootE.
have -> : ((pr (rev l)).[w] == 0) = ((pr (rev l)).[w] * w == 0) by rewrite mulf_eq0 (negbTE w0) orbF.
by rewrite horner_pr_rev // mulf_eq0 expf_eq0 (negbTE w0) andbF.
Qed.

Lemma qr_inv (q i : Z * Z) : qpos q -> q_inv q = Some i -> [/\ qpos i, qr q != 0 & qr i = (qr q)^-1].
Proof.
move=> Hq; rewrite /q_inv; case: q Hq => n d /= Hd Hi.
have n0 : n <> Z0 by move=> E; move: Hi; rewrite /q_canon E.
have [[Hpos _] Heq] := ScalarProofs.q_canon_spec d n i Hi.
have zn0 : zr n != 0 by rewrite zr_eq0; apply/negP => /Z.eqb_eq.
have zd0 : zr d != 0 by rewrite gt_eqF // zr_gt0.
have zi0 : zr i.2 != 0 by rewrite gt_eqF // zr_gt0.
split=> //; first by rewrite /RefAlgSpec.qr /= mulf_neq0 ?invr_eq0.
rewrite /RefAlgSpec.qr /= invf_div; apply/eqP; rewrite eqr_div //.
by rewrite -!zrM Heq.
Qed.

Lemma q_sgn_mul_gt0 (lo hi : Z * Z) : qpos lo -> qpos hi ->
  Z.ltb Z0 (Z.mul (q_sgn lo) (q_sgn hi)) = (0 < qr lo * qr hi).
Proof.
move=> Hlo Hhi.
have Hs (q : Z * Z) : qpos q -> zr (q_sgn q) = sgr (qr q).
  move=> Hq; rewrite /q_sgn -zr_sgn /RefAlgSpec.qr sgrM sgrV.
  by rewrite [sgr (zr q.2)]gtr0_sg ?zr_gt0 // mulr1.
rewrite -sgr_gt0 sgrM -!Hs // -zrM -(zr0 R) (zr_lt R).
by [].
Qed.

Lemma inv_lt (x y : R) : 0 < x * y -> (x^-1 < y^-1) = (y < x).
Proof.
case: (ltrgt0P x) => [x0|x0|->]; last by rewrite mul0r ltxx.
  by rewrite pmulr_rgt0 // => y0; rewrite ltf_pinv.
by rewrite nmulr_rgt0 // => y0; rewrite ltf_ninv.
Qed.

Lemma same_sign_between (lo hi a : R) : 0 < lo * hi -> lo < a < hi -> 0 < lo * a /\ 0 < a * hi.
Proof.
move=> Hs /andP[la ah]; case: (ltrgt0P lo) Hs => [l0|l0|->]; last by rewrite mul0r ltxx.
  rewrite pmulr_rgt0 // => h0; have a0 := lt_trans l0 la.
  by rewrite !pmulr_rgt0.
rewrite nmulr_rgt0 // => h0; have a0 := lt_trans ah h0.
by rewrite nmulr_rgt0 // a0 nmulr_rgt0.
Qed.

Theorem rn_inv_loop_spec_cond (fuel : nat) (x z : rnum) (a : R) :
  rn_denotes x a -> a != 0 -> rn_inv_loop fuel x = Some z -> rn_denotes z a^-1.
Proof.
elim: fuel x => [|f IH] x //= Hx a0.
case: x Hx => [q|p lo hi] Hx.
  case: Hx => Hq Ea; case Ei: (q_inv q) => [i|] // [<-].
  by have [Hi _ Ei'] := qr_inv Hq Ei; split=> //; rewrite Ea.
have [[Hlo Hhi] /andP[lov vhi] rv uniq sgn] := Hx.
rewrite q_sgn_mul_gt0 //; case: ifP => [Hs|_]; last by apply: IH => //; exact: rn_refine_spec.
case El: (q_inv hi) => [l|] //; case Eh: (q_inv lo) => [h|] // [<-].
have [Hl hi0 Eql] := qr_inv Hhi El; have [Hh lo0 Eqh] := qr_inv Hlo Eh.
have [Hla Hah] := same_sign_between Hs (introT andP (conj lov vhi)).
have p0 : Poly p != 0.
  rewrite -(pr_eq0 R); apply/eqP => E.
  by move: sgn; rewrite E !horner0 sgr0 mulr0 => /eqP; rewrite eq_sym oppr_eq0 oner_eq0.
have Epn : pr (pnorm p) = pr p by rewrite /RefAlgSpec.pr Poly_pnorm.
have Hrev (w : R) : w != 0 -> root (pr (List.rev (pnorm p))) w = root (pr p) w^-1.
  by move=> w0; rewrite List_rev_rev root_pr_rev // Epn.
have Pl : (pr p).[qr lo] != 0.
  by apply/eqP => H0; move: sgn; rewrite H0 sgr0 mul0r => /eqP; rewrite eq_sym oppr_eq0 oner_eq0.
have Ph : (pr p).[qr hi] != 0.
  by apply/eqP => H0; move: sgn; rewrite H0 sgr0 mulr0 => /eqP; rewrite eq_sym oppr_eq0 oner_eq0.
have rev0 : Poly (List.rev (pnorm p)) != 0.
  rewrite -(pr_eq0 R); apply/eqP => E.
  have := Hrev _ (invr_neq0 lo0); rewrite E root0 invrK => /esym.
  by rewrite rootE (negbTE Pl).
have [r0 Hsq Hroot] := psqfree_correct rev0.
apply: denotes_of_sqfree => //.
- rewrite Eql Eqh inv_lt; last by rewrite mulrC.
  by rewrite inv_lt; [rewrite vhi lov|rewrite mulrC].
- by rewrite Hroot Hrev ?invr_neq0 // invrK.
- move=> w; rewrite Hroot Eql Eqh => rw /andP[h1 h2].
  have Hs' : 0 < (qr hi)^-1 * (qr lo)^-1 by rewrite -invfM invr_gt0 mulrC.
  have [Hw1 Hw2] := same_sign_between Hs' (introT andP (conj h1 h2)).
  have w0 : w != 0 by apply/eqP => E; move: Hw1; rewrite E mulr0 ltxx.
  move: rw; rewrite Hrev // => rw.
  have Hin : qr lo < w^-1 < qr hi.
    rewrite -[qr lo]invrK -[qr hi]invrK inv_lt; last by rewrite mulrC.
    by rewrite inv_lt; [rewrite h2 h1|rewrite mulrC].
  by rewrite -(uniq _ rw Hin) invrK.
- by rewrite -rootE Hroot Eql Hrev ?invr_neq0 // invrK rootE.
- by rewrite -rootE Hroot Eqh Hrev ?invr_neq0 // invrK rootE.
Qed.

Theorem rn_inv_spec_cond (fuel : nat) (x z : rnum) (a : R) :
  rn_denotes x a -> rn_inv fuel x = Some z -> a != 0 /\ rn_denotes z a^-1.
Proof.
move=> Hx; rewrite /rn_inv (rn_sgn_eq0 Hx); case: (altP (a =P 0)) => // a0 Hz.
by split=> //; exact: rn_inv_loop_spec_cond Hz.
Qed.

Theorem rn_div_spec_cond (fuel : nat) (x y z : rnum) (a b : R) :
  rn_denotes x a -> rn_denotes y b -> rn_div fuel x y = Some z -> b != 0 /\ rn_denotes z (a / b).
Proof.
move=> Hx Hy; rewrite /rn_div; case Ei: (rn_inv fuel y) => [i|] // Hz.
have [b0 Hi] := rn_inv_spec_cond Hy Ei.
by split=> //; exact: rn_mul_spec_cond Hz.
Qed.

Lemma denotes_one : rn_denotes (RQ (Zpos xH, Zpos xH)) 1.
Proof. by split=> //; rewrite /RefAlgSpec.qr /= zr1 divr1. Qed.

Lemma rn_pow_SS (fuel : nat) (x : rnum) (n : nat) :
  rn_pow fuel x n.+2 = match rn_pow fuel x n.+1 with Some y => rn_mul fuel x y | None => None end.
Proof. by []. Qed.

Theorem rn_pow_spec_cond (fuel : nat) (x z : rnum) (a : R) (n : nat) :
  rn_denotes x a -> rn_pow fuel x n = Some z -> rn_denotes z (a ^+ n).
Proof.
move=> Hx; elim: n z => [|[|n] IH] z.
- by case=> <-; rewrite expr0; exact: denotes_one.
- by case=> <-; rewrite expr1.
- rewrite rn_pow_SS; case Ey: (rn_pow fuel x n.+1) => [y|] // Hz.
  by rewrite exprS; exact: rn_mul_spec_cond Hx (IH _ Ey) Hz.
Qed.

(* ---- multiplication by a rational, directly on the representation *)
Lemma horner_pr_nth (x : seq Z) (w : R) : (pr x).[w] = \sum_(k < size x) zr (nth Z0 x k) * w ^+ k.
Proof.
elim: x => [|c x IH]; first by rewrite pr_nil horner0 big_ord0.
rewrite pr_cons hornerD hornerC hornerMX IH /= big_ord_recl /= expr0 mulr1; congr (_ + _).
by rewrite mulr_suml; apply: eq_bigr => k _; rewrite /bump /= add1n exprSr mulrA.
Qed.

Lemma q_sgn_spec (q : Z * Z) : qpos q -> zr (q_sgn q) = sgr (qr q).
Proof.
move=> Hq; rewrite /q_sgn -zr_sgn /RefAlgSpec.qr sgrM sgrV.
by rewrite [sgr (zr q.2)]gtr0_sg ?zr_gt0 // mulr1.
Qed.

Definition scaled_poly (pn : seq Z) (a b : Z) : seq Z :=
  List.map (fun kc : nat * Z => Z.mul (Z.mul kc.2 (Z.pow b (Z.of_nat kc.1)))
                                 (Z.pow a (Z.of_nat (Nat.pred (length pn) - kc.1))))
           (List.combine (List.seq 0 (length pn)) pn).

Lemma zr_pow (x : Z) (k : nat) : zr (Z.pow x (Z.of_nat k)) = zr x ^+ k.
Proof. by rewrite GcdSpec.Zpow_exp (rmorphX (zr_rmorphism R)). Qed.

Lemma horner_scaled (pn : seq Z) (a b : Z) (w : R) : zr a != 0 ->
  (pr (scaled_poly pn a b)).[w] = zr a ^+ (size pn).-1 * (pr pn).[w * zr b / zr a].
Proof.
move=> a0; rewrite !horner_pr_nth /scaled_poly.
have Es : size (List.map (fun kc : nat * Z => Z.mul (Z.mul kc.2 (Z.pow b (Z.of_nat kc.1)))
              (Z.pow a (Z.of_nat (Nat.pred (length pn) - kc.1))))
              (List.combine (List.seq 0 (length pn)) pn)) = size pn.
  by rewrite RefAlgDet.combine_zip size_map size_zip SylvesterProofs.List_seq_iota size_iota minnn.
rewrite Es mulr_sumr; apply: eq_bigr => k _.
rewrite RefAlgDet.combine_zip SylvesterProofs.List_seq_iota.
rewrite (nth_map (0%N, Z0)); last by rewrite size_zip size_iota minnn.
rewrite nth_zip ?size_iota // nth_iota // add0n /= !zrM !zr_pow.
have Hk : (k <= (size pn).-1)%N by rewrite -ltnS (leq_trans (ltn_ord k)) // leqSpred.
have -> : zr a ^+ (size pn).-1 = zr a ^+ ((size pn).-1 - k) * zr a ^+ k by rewrite -exprD subnK.
rewrite ?minusE; change (length pn) with (size pn).
rewrite !exprMn exprVn.
have ak : zr a ^+ k != 0 by rewrite expf_neq0.
move: (zr (nth Z0 pn k)) (zr a ^+ (_ - _)) (w ^+ k) (zr b ^+ k) (zr a ^+ k) ak => C A1 W B AK ak.
by field.
Qed.

Theorem rn_mul_q_spec_cond (x : rnum) (q : Z * Z) (v : R) :
  rn_denotes x v -> qpos q -> rn_denotes (rn_mul_q x q) (v * qr q).
Proof.
case: x => [r|p lo hi] Hx Hq.
  by case: Hx => Hr ->; have [H1 H2] := qr_mul R Hr Hq.
rewrite /rn_mul_q -(zr_eq0 R) (q_sgn_spec Hq) sgr_eq0.
case: (altP (qr q =P 0)) => [->|k0]; first by rewrite mulr0; exact: denotes_zero.
have [[Hlo Hhi] /andP[lov vhi] rv uniq sgn] := Hx.
have a0 : zr q.1 != 0.
  by apply: contraNneq k0 => E; rewrite /RefAlgSpec.qr E mul0r.
have b0 : zr q.2 != 0 by rewrite gt_eqF // zr_gt0.
set pn := pnorm p.
have Epn : pr pn = pr p by rewrite /RefAlgSpec.pr Poly_pnorm.
rewrite -/(scaled_poly pn q.1 q.2); set p' := scaled_poly pn q.1 q.2.
have Hr (w : R) : root (pr p') w = root (pr p) (w / qr q).
  rewrite !rootE horner_scaled // mulf_eq0 expf_eq0 (negbTE a0) andbF /= Epn.
  by rewrite /RefAlgSpec.qr invf_div mulrA.
have Pl : ~~ root (pr p) (qr lo).
  by rewrite rootE; apply/eqP => H0; move: sgn; rewrite H0 sgr0 mul0r => /eqP; rewrite eq_sym oppr_eq0 oner_eq0.
have Ph : ~~ root (pr p) (qr hi).
  by rewrite rootE; apply/eqP => H0; move: sgn; rewrite H0 sgr0 mulr0 => /eqP; rewrite eq_sym oppr_eq0 oner_eq0.
have p'0 : Poly p' != 0.
  rewrite -(pr_eq0 R); apply/eqP => E; have := Hr (qr lo * qr q).
  by rewrite E root0 mulfK // (negbTE Pl).
have [r0 Hsq Hroot] := psqfree_correct p'0.
have [Hl El] := qr_mul R Hlo Hq; have [Hh Eh] := qr_mul R Hhi Hq.
have -> : Z.ltb Z0 (q_sgn q) = (0 < qr q).
  by rewrite -sgr_gt0 -(q_sgn_spec Hq) -(zr0 R) (zr_lt R).
case: (ltrgt0P (qr q)) k0 => // kpos _.
- apply: denotes_of_sqfree => //.
  + by rewrite El Eh !ltr_pmul2r // lov vhi.
  + by rewrite Hroot Hr mulfK // gt_eqF.
  + move=> w; rewrite Hroot Hr El Eh => rw /andP[h1 h2].
    have Hin : qr lo < w / qr q < qr hi by rewrite ltr_pdivl_mulr // ltr_pdivr_mulr // h1 h2.
    by rewrite -(uniq _ rw Hin) divfK // gt_eqF.
  + by rewrite -rootE Hroot Hr El mulfK // gt_eqF.
  + by rewrite -rootE Hroot Hr Eh mulfK // gt_eqF.
- apply: denotes_of_sqfree => //.
  + by rewrite El Eh !ltr_nmul2r // lov vhi.
  + by rewrite Hroot Hr mulfK // lt_eqF.
  + move=> w; rewrite Hroot Hr El Eh => rw /andP[h1 h2].
    have Hin : qr lo < w / qr q < qr hi by rewrite ltr_ndivl_mulr // ltr_ndivr_mulr // h1 h2.
    by rewrite -(uniq _ rw Hin) divfK // lt_eqF.
  + by rewrite -rootE Hroot Hr Eh mulfK // lt_eqF.
  + by rewrite -rootE Hroot Hr El mulfK // lt_eqF.
Qed.

(* ---- exact evaluation of a reference multivariate polynomial at real algebraic points.
   mono_evalR / mp_evalR: the value in R, by the same formulas as MPoly.mono_eval / MPoly.mp_eval over Z *)
Definition mono_evalR (rho : MPoly.var -> R) (m : MPoly.mono) : R :=
  foldr (fun ve acc => rho ve.1 ^+ (N.to_nat ve.2) * acc) 1 m.
Definition mp_evalR (rho : MPoly.var -> R) (p : MPoly.mpoly) : R :=
  foldr (fun t acc => zr t.2 * mono_evalR rho t.1 + acc) 0 p.

Theorem mono_eval_rn_spec_cond (fuel : nat) (rho : MPoly.var -> rnum) (rhoR : MPoly.var -> R) (m : MPoly.mono) (z : rnum) :
  (forall v, rn_denotes (rho v) (rhoR v)) ->
  mono_eval_rn fuel rho m = Some z -> rn_denotes z (mono_evalR rhoR m).
Proof.
move=> Hrho; rewrite /mono_eval_rn; elim: m z => [|[v e] m IH] z /=.
  by case=> <-; exact: denotes_one.
case Ea: (List.fold_right _ _ m) => [a|] //=.
case Eb: (rn_pow fuel (rho v) (N.to_nat e)) => [b|] //= Hz.
exact: rn_mul_spec_cond (rn_pow_spec_cond (Hrho v) Eb) (IH _ Ea) Hz.
Qed.

Theorem mp_eval_rn_spec_cond (fuel : nat) (rho : MPoly.var -> rnum) (rhoR : MPoly.var -> R) (p : MPoly.mpoly) (z : rnum) :
  (forall v, rn_denotes (rho v) (rhoR v)) ->
  mp_eval_rn fuel rho p = Some z -> rn_denotes z (mp_evalR rhoR p).
Proof.
move=> Hrho; rewrite /mp_eval_rn; elim: p z => [|[m c] p IH] z /=.
  by case=> <-; exact: denotes_zero.
case Ea: (List.fold_right _ _ p) => [a|] //=.
case Em: (mono_eval_rn fuel rho m) => [mv|] //= Hz.
have Hmv := mono_eval_rn_spec_cond Hrho Em.
have Hq : qpos (c, Zpos xH) by [].
have := rn_mul_q_spec_cond Hmv Hq; rewrite /RefAlgSpec.qr /= zr1 divr1 mulrC => Hc.
exact: rn_add_spec_cond Hc (IH _ Ea) Hz.
Qed.

End Ops.
