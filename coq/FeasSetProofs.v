(* C13 - lemmas about the model FeasSet.v against the specification FeasSetSpec.v.
   Method: every end point with its open/closed flag is a CUT of the carrier - a position just below (SL), at
   (SM) or just above (SR) a carrier value - and cuts are totally ordered lexicographically.  An interval is
   the half-open range [L X, H X) of cuts, v belongs to X iff L X < (v,SM) < H X, the three comparisons of
   lp_interval_cmp_with_intersect are comparisons of cuts, and a list is in normal form iff
   L X1 < H X1 < L X2 < H X2 < ...  All list-level proofs are order reasoning on cuts ([ord]). *)
From Coq Require Import ZArith List Bool Lia Permutation Sorted.
From LP Require Import Scalar FeasSet FeasSetSpec.
Import ListNotations.

(* ------------------------------------------------------------------ generic facts about a total_order *)
Section OrderFacts.
Context {T : Type} {cmp : T -> T -> comparison} (TO : total_order cmp).

Lemma to_refl x : cmp x x = Eq.
Proof. apply (to_eq _ TO). reflexivity. Qed.
Lemma to_gt_lt x y : cmp x y = Gt -> cmp y x = Lt.
Proof. intro H. rewrite (to_antisym _ TO x y), H. reflexivity. Qed.
Lemma to_lt_gt x y : cmp x y = Lt -> cmp y x = Gt.
Proof. intro H. rewrite (to_antisym _ TO x y), H. reflexivity. Qed.
Lemma to_eq1 x y : cmp x y = Eq -> x = y.
Proof. apply (to_eq _ TO). Qed.
Lemma to_lt_irrefl x : cmp x x = Lt -> False.
Proof. rewrite to_refl. discriminate. Qed.
Lemma to_nlt_le x y : cmp x y <> Lt -> cmp y x <> Gt.
Proof. intros H G. apply H. apply to_gt_lt. exact G. Qed.
Lemma to_ngt_cases x y : cmp x y <> Gt -> cmp x y = Lt \/ x = y.
Proof. destruct (cmp x y) eqn:E; intro H; [right; apply to_eq1; exact E | left; reflexivity | congruence]. Qed.
Lemma to_le_lt_trans x y z : cmp x y <> Gt -> cmp y z = Lt -> cmp x z = Lt.
Proof. intros H1 H2. destruct (to_ngt_cases _ _ H1) as [H|H]; [eapply (to_trans _ TO); eauto | subst; auto]. Qed.
Lemma to_lt_le_trans x y z : cmp x y = Lt -> cmp y z <> Gt -> cmp x z = Lt.
Proof. intros H1 H2. destruct (to_ngt_cases _ _ H2) as [H|H]; [eapply (to_trans _ TO); eauto | subst; auto]. Qed.
Lemma to_le_trans x y z : cmp x y <> Gt -> cmp y z <> Gt -> cmp x z <> Gt.
Proof.
  intros H1 H2. destruct (to_ngt_cases _ _ H2) as [H|H]; [|subst; auto].
  rewrite (to_le_lt_trans _ _ _ H1 H). discriminate.
Qed.
Lemma to_le_antisym x y : cmp x y <> Gt -> cmp y x <> Gt -> x = y.
Proof.
  intros H1 H2. destruct (to_ngt_cases _ _ H1) as [H|H]; auto.
  exfalso. apply H2. apply to_lt_gt. exact H.
Qed.
Lemma to_neq_cases x y : cmp x y <> Eq -> cmp x y = Lt \/ cmp y x = Lt.
Proof. destruct (cmp x y) eqn:E; intro H; [congruence | auto | right; apply to_gt_lt; exact E]. Qed.
Lemma to_lt_le x y : cmp x y = Lt -> cmp x y <> Gt.
Proof. congruence. Qed.
Lemma to_total x y : cmp x y = Lt \/ x = y \/ cmp y x = Lt.
Proof. destruct (cmp x y) eqn:E; [right; left; apply to_eq1; exact E | auto | right; right; apply to_gt_lt; exact E]. Qed.
Lemma to_le_refl x : cmp x x <> Gt.
Proof. rewrite to_refl. discriminate. Qed.
Lemma to_lt_by_contra x y : (cmp y x <> Gt -> False) -> cmp x y = Lt.
Proof.
  intro K. destruct (cmp x y) eqn:E; auto; exfalso; apply K.
  - apply to_eq1 in E. subst. apply to_le_refl.
  - apply to_gt_lt in E. congruence.
Qed.
Lemma to_gt_by_contra x y : (cmp x y <> Gt -> False) -> cmp x y = Gt.
Proof. intro K. destruct (cmp x y) eqn:E; auto; exfalso; apply K; discriminate. Qed.
Lemma to_eq2 x y : x = y -> cmp x y = Eq.
Proof. apply (to_eq _ TO). Qed.
End OrderFacts.

(* ---- the decision tactic for goals that follow from the hypotheses by the laws of a total order.
   Literals: c x y = Lt/Eq/Gt, c x y <> Lt/Eq/Gt, x = y; a `total_order c` must be in the context. *)
Ltac ord_find c k := lazymatch goal with TO : total_order c |- _ => k TO end.

Ltac ord_subst_eq H x y :=
  first [ subst x | subst y | (rewrite H in *; clear H) | (rewrite <- H in *; clear H) | clear H ].

Ltac ord_norm :=
  repeat match goal with
  | H : ?c ?x ?y = Gt |- _ => ord_find c ltac:(fun TO => apply (to_gt_lt TO) in H)
  | H : ?c ?x ?y = Eq |- _ => ord_find c ltac:(fun TO => apply (to_eq1 TO) in H; ord_subst_eq H x y)
  | H : ?c ?x ?y <> Lt |- _ => ord_find c ltac:(fun TO => apply (to_nlt_le TO) in H)
  | H : ?c ?x ?y <> Eq |- _ => ord_find c ltac:(fun TO => apply (to_neq_cases TO) in H; destruct H as [H|H])
  | H : ?c ?x ?x <> Gt |- _ => ord_find c ltac:(fun TO => clear H)
  | H : @eq ?A ?x ?y |- _ =>
      lazymatch goal with
      | TO : @total_order A _ |- _ => ord_subst_eq H x y
      end
  end.

Ltac ord_sat :=
  repeat match goal with
  | H : ?c ?x ?x = Lt |- _ => exfalso; ord_find c ltac:(fun TO => exact (to_lt_irrefl TO _ H))
  | H1 : ?c ?x ?y = Lt, H2 : ?c ?y ?z = Lt |- _ =>
      lazymatch goal with
      | _ : c x z = Lt |- _ => fail
      | _ => ord_find c ltac:(fun TO => pose proof (to_trans _ TO _ _ _ H1 H2))
      end
  | H1 : ?c ?x ?y <> Gt, H2 : ?c ?y ?z = Lt |- _ =>
      lazymatch goal with
      | _ : c x z = Lt |- _ => fail
      | _ => ord_find c ltac:(fun TO => pose proof (to_le_lt_trans TO _ _ _ H1 H2))
      end
  | H1 : ?c ?x ?y = Lt, H2 : ?c ?y ?z <> Gt |- _ =>
      lazymatch goal with
      | _ : c x z = Lt |- _ => fail
      | _ => ord_find c ltac:(fun TO => pose proof (to_lt_le_trans TO _ _ _ H1 H2))
      end
  | H1 : ?c ?x ?y <> Gt, H2 : ?c ?y ?x <> Gt |- _ =>
      ord_find c ltac:(fun TO => let E := fresh "E" in
        pose proof (to_le_antisym TO _ _ H1 H2) as E; clear H2; ord_subst_eq E x y; ord_norm)
  | H1 : ?c ?x ?y <> Gt, H2 : ?c ?y ?z <> Gt |- _ =>
      lazymatch goal with
      | _ : c x z <> Gt |- _ => fail
      | _ : c x z = Lt |- _ => fail
      | _ => ord_find c ltac:(fun TO => pose proof (to_le_trans TO _ _ _ H1 H2))
      end
  end.

Ltac ord_eq_goal :=
  lazymatch goal with
  | |- @eq ?A ?x ?y =>
      lazymatch goal with
      | TO : @total_order A ?c |- _ =>
          let Hc := fresh "Hc" in destruct (to_total TO x y) as [Hc|[Hc|Hc]]; [exfalso | exact Hc | exfalso]
      end
  end.

Ltac ord :=
  intros; ord_norm;
  lazymatch goal with
  | |- ?c ?x ?y = Lt => ord_find c ltac:(fun TO => apply (to_lt_by_contra TO); intro); ord_norm; solve [ord_sat]
  | |- ?c ?x ?y = Gt => ord_find c ltac:(fun TO => apply (to_gt_by_contra TO); intro); ord_norm; solve [ord_sat]
  | |- ?c ?x ?y = Eq => ord_find c ltac:(fun TO => apply (to_eq2 TO)); first [reflexivity | ord_eq_goal; ord_norm; solve [ord_sat]]
  | |- ?c ?x ?y <> _ => let E := fresh "E" in intro E; ord_norm; solve [ord_sat]
  | |- False => solve [ord_sat]
  | |- @eq comparison _ _ => fail "ord: unsupported goal"
  | |- @eq _ _ _ => first [reflexivity | ord_eq_goal; ord_norm; solve [ord_sat]]
  | |- _ => exfalso; solve [ord_sat]
  end.

Section TestOrd.
Context {T : Type} {cmp : T -> T -> comparison} (TO : total_order cmp).
Goal forall a b c d, cmp a b = Lt -> cmp b c <> Gt -> cmp d c = Gt -> cmp a d = Lt.
Proof. ord. Qed.
Goal forall a b, cmp a b <> Gt -> cmp a b <> Lt -> a = b.
Proof. ord. Qed.
Goal forall a b c, cmp a b <> Gt -> cmp b c <> Gt -> cmp c a <> Gt -> a = c.
Proof. ord. Qed.
Goal forall a b c, cmp a b = Lt -> cmp b c = Eq -> cmp c a <> Lt.
Proof. ord. Qed.
End TestOrd.

(* ------------------------------------------------------------------ lexicographic and reversed orders *)
Section LexOrder.
Context {A B : Type} {ca : A -> A -> comparison} {cb : B -> B -> comparison}.
Definition lex_cmp (x y : A * B) : comparison :=
  match ca (fst x) (fst y) with Eq => cb (snd x) (snd y) | c => c end.
Lemma lex_TO : total_order ca -> total_order cb -> total_order lex_cmp.
Proof.
  intros TA TB. constructor.
  - intros [x s] [y t]; unfold lex_cmp; cbn [fst snd]. split.
    + destruct (ca x y) eqn:E; try discriminate. apply (to_eq1 TA) in E. subst.
      intro E. apply (to_eq1 TB) in E. congruence.
    + intro E. inversion E; subst. rewrite (to_refl TA). apply (to_refl TB).
  - intros [x s] [y t]; unfold lex_cmp; cbn [fst snd].
    rewrite (to_antisym _ TA x y). destruct (ca x y); cbn; try reflexivity. apply (to_antisym _ TB).
  - intros [x s] [y t] [z u]; unfold lex_cmp; cbn [fst snd].
    destruct (ca x y) eqn:E1; destruct (ca y z) eqn:E2; try discriminate; intros H1 H2.
    + apply (to_eq1 TA) in E1, E2. subst. rewrite (to_refl TA). eapply (to_trans _ TB); eauto.
    + apply (to_eq1 TA) in E1. subst. rewrite E2. reflexivity.
    + apply (to_eq1 TA) in E2. subst. rewrite E1. reflexivity.
    + rewrite (to_trans _ TA _ _ _ E1 E2). reflexivity.
Qed.
Definition flip_cmp (x y : A) : comparison := ca y x.
Lemma flip_TO : total_order ca -> total_order flip_cmp.
Proof.
  intro TA. constructor; unfold flip_cmp.
  - intros x y. rewrite (to_eq _ TA). split; congruence.
  - intros x y. apply (to_antisym _ TA).
  - intros x y z H1 H2. eapply (to_trans _ TA); eauto.
Qed.
End LexOrder.

Lemma last_nondefault {A : Type} (l : list A) : l <> [] -> forall d d', last l d = last l d'.
Proof.
  induction l as [|a l IH]; [congruence|]. intros _ d d'. destruct l as [|b l]; [reflexivity|].
  change (last (b :: l) d = last (b :: l) d'). apply IH. discriminate.
Qed.

(* ------------------------------------------------------------------ cuts *)
Inductive side := SL | SM | SR.
Definition side_cmp (a b : side) : comparison :=
  match a, b with
  | SL, SL => Eq | SL, _ => Lt
  | SM, SL => Gt | SM, SM => Eq | SM, SR => Lt
  | SR, SR => Eq | SR, _ => Gt
  end.

Section Main.
Context {T : Type} {cmp : T -> T -> comparison} (TO : total_order cmp).

Definition cut := (T * side)%type.
Definition cmpc (a b : cut) : comparison :=
  match cmp (fst a) (fst b) with Eq => side_cmp (snd a) (snd b) | c => c end.

Lemma cmpc_TO : total_order cmpc.
Proof.
  constructor.
  - intros [x s] [y t]; unfold cmpc; cbn [fst snd]. split.
    + destruct (cmp x y) eqn:E; try discriminate. apply (to_eq1 TO) in E. subst.
      destruct s, t; cbn; intro; congruence.
    + intro H. inversion H; subst. rewrite (to_refl TO). destruct t; reflexivity.
  - intros [x s] [y t]; unfold cmpc; cbn [fst snd].
    rewrite (to_antisym _ TO x y). destruct (cmp x y); cbn; try reflexivity. destruct s, t; reflexivity.
  - intros [x s] [y t] [z u]; unfold cmpc; cbn [fst snd].
    destruct (cmp x y) eqn:E1; destruct (cmp y z) eqn:E2; try discriminate; intros H1 H2.
    + apply (to_eq1 TO) in E1, E2. subst. rewrite (to_refl TO). destruct s, t, u; cbn in *; congruence.
    + apply (to_eq1 TO) in E1. subst. rewrite E2. reflexivity.
    + apply (to_eq1 TO) in E2. subst. rewrite E1. reflexivity.
    + rewrite (to_trans _ TO _ _ _ E1 E2). reflexivity.
Qed.
Let TOc := cmpc_TO.

Definition L (X : itv T) : cut := (ia X, if ia_open X then SR else SL).
Definition H (X : itv T) : cut := (get_ub X, if ib_open X then SL else SR).
Definition pt (v : T) : cut := (v, SM).

(* membership of a cut in the half-open range of an interval *)
Definition cmem (c : cut) (X : itv T) : Prop := cmpc (L X) c <> Gt /\ cmpc c (H X) = Lt.
Definition cmem_set (c : cut) (s : list (itv T)) : Prop := exists X, In X s /\ cmem c X.

Lemma clb_cut X Y : cmp_lower_bounds cmp X Y = cmpc (L X) (L Y).
Proof.
  unfold cmp_lower_bounds, cmpc, L, get_lb; cbn [fst snd].
  destruct (cmp (ia X) (ia Y)); try reflexivity. destruct (ia_open X), (ia_open Y); reflexivity.
Qed.
Lemma cub_cut X Y : cmp_upper_bounds cmp X Y = cmpc (H X) (H Y).
Proof.
  unfold cmp_upper_bounds, cmpc, H; cbn [fst snd].
  destruct (cmp (get_ub X) (get_ub Y)); try reflexivity. destruct (ib_open X), (ib_open Y); reflexivity.
Qed.

Lemma WF_cut X : WF cmp X -> cmpc (L X) (H X) = Lt.
Proof.
  unfold WF, cmpc, L, H, get_ub, lt; cbn [fst snd]. destruct (ipt X).
  - intros (Ha & Hb & _). rewrite Ha, Hb, (to_refl TO). reflexivity.
  - intro E. rewrite E. reflexivity.
Qed.

Lemma mem_cut v X : mem cmp v X <-> cmpc (L X) (pt v) = Lt /\ cmpc (pt v) (H X) = Lt.
Proof.
  unfold mem, cmpc, L, H, pt, lt, le; cbn [fst snd].
  destruct (ia_open X), (ib_open X);
    destruct (cmp (ia X) v) eqn:E1; destruct (cmp v (get_ub X)) eqn:E2; cbn;
    intuition (try discriminate; try congruence).
Qed.

Lemma mem_cmem v X : mem cmp v X <-> cmem (pt v) X.
Proof.
  rewrite mem_cut. unfold cmem. split; intros [H1 H2]; split; auto.
  - congruence.
  - destruct (cmpc (L X) (pt v)) eqn:E; auto; [|congruence].
    apply (to_eq1 TOc) in E. unfold L, pt in E. inversion E. destruct (ia_open X); discriminate.
Qed.

Lemma mem_set_cmem v s : mem_set cmp v s <-> cmem_set (pt v) s.
Proof.
  unfold mem_set, cmem_set. split; intros (X & HX & Hm); exists X; split; auto; apply mem_cmem; auto.
Qed.

(* an interval contains its own lower cut *)
Lemma cmem_L X : WF cmp X -> cmem (L X) X.
Proof. intro W. split; [apply (to_le_refl TOc) | apply WF_cut; auto]. Qed.

Lemma WF_ext X Y : WF cmp X -> WF cmp Y -> L X = L Y -> H X = H Y -> X = Y.
Proof.
  destruct X as [a b ao bo p], Y as [a' b' ao' bo' p'].
  unfold WF, L, H, get_ub, lt; cbn. intros W1 W2 E1 E2.
  inversion E1; subst a'. clear E1.
  assert (ao = ao') by (destruct ao, ao'; congruence). subst ao'.
  assert (bo = bo') by (destruct bo, bo'; inversion E2; congruence). subst bo'.
  destruct p, p'.
  - destruct W1 as (? & ? & ?), W2 as (? & ? & ?). subst. reflexivity.
  - destruct W1 as (? & ? & ?). subst. inversion E2. subst. exfalso. ord.
  - destruct W2 as (? & ? & ?). subst. inversion E2. subst. exfalso. ord.
  - inversion E2. subst. reflexivity.
Qed.

Lemma copy_id X : WF cmp X -> itv_construct_copy X = X.
Proof.
  destruct X as [a b ao bo p]; unfold WF, itv_construct_copy; cbn. destruct p; auto.
  intros (? & ? & ?). subst. reflexivity.
Qed.

Lemma WF_point a : WF cmp (itv_construct_point a).
Proof. cbn. auto. Qed.

Lemma construct_spec a ao b bo :
  cmp a b = Lt ->
  exists X, itv_construct cmp a ao b bo = Some X /\ WF cmp X /\
            L X = (a, if ao then SR else SL) /\ H X = (b, if bo then SL else SR).
Proof.
  intro E. unfold itv_construct. rewrite E. eexists. split; [reflexivity|].
  unfold WF, L, H, get_ub, lt; cbn. auto.
Qed.

(* lp_interval_cmp_value in terms of cuts *)
Lemma cmpval_cut X v : WF cmp X ->
  match itv_cmp_value cmp X v with
  | Gt => cmpc (pt v) (L X) = Lt
  | Lt => cmpc (H X) (pt v) = Lt
  | Eq => cmpc (L X) (pt v) = Lt /\ cmpc (pt v) (H X) = Lt
  end.
Proof.
  destruct X as [a b ao bo p]. unfold WF, itv_cmp_value, cmpc, L, H, pt, get_ub, lt; cbn.
  destruct p.
  - intros (? & ? & ?). subst. rewrite (to_antisym _ TO a v). destruct (cmp a v); cbn; auto.
  - intro W. rewrite (to_antisym _ TO a v), (to_antisym _ TO v b).
    destruct (cmp a v) eqn:E1; destruct (cmp v b) eqn:E2; destruct ao, bo; cbn; auto;
      exfalso; ord.
Qed.

(* ------------------------------------------------------------------ the nine relations on cuts *)
Definition rel_cut (r : rel) (l1 h1 l2 h2 : cut) : Prop :=
  match r with
  | LT_NO     => cmpc h1 l2 <> Gt
  | LT_WI     => cmpc l1 l2 = Lt /\ cmpc l2 h1 = Lt /\ cmpc h1 h2 = Lt
  | LT_WI_I1  => cmpc l2 l1 <> Gt /\ cmpc h1 h2 = Lt
  | LEQ_WI_I2 => cmpc l1 l2 = Lt /\ h1 = h2
  | REQ       => l1 = l2 /\ h1 = h2
  | GEQ_WI_I1 => cmpc l2 l1 = Lt /\ h1 = h2
  | GT_WI_I2  => cmpc l1 l2 <> Gt /\ cmpc h2 h1 = Lt
  | GT_WI     => cmpc l2 l1 = Lt /\ cmpc l1 h2 = Lt /\ cmpc h2 h1 = Lt
  | GT_NO     => cmpc h2 l1 <> Gt
  end.

Definition P_cut (w : bool) (r : rel) (P : option (itv T)) (X Y : itv T) : Prop :=
  if w then
    match r with
    | LT_NO | GT_NO => P = None
    | LT_WI_I1 | REQ | GEQ_WI_I1 => P = Some X
    | LEQ_WI_I2 | GT_WI_I2 => P = Some Y
    | LT_WI => exists p, P = Some p /\ WF cmp p /\ L p = L Y /\ H p = H X
    | GT_WI => exists p, P = Some p /\ WF cmp p /\ L p = L X /\ H p = H Y
    end
  else P = None.

(* the third comparison of lp_interval_cmp_with_intersect: upper end of X against lower end of Y *)
Lemma third_cmp X Y :
  let c0 := cmp (get_ub X) (get_lb Y) in
  let c := if isEq c0 && (ib_open X || ia_open Y) then Lt else c0 in
  match c with
  | Lt => cmpc (H X) (L Y) <> Gt
  | Eq => cmpc (H X) (L Y) = Gt /\ get_ub X = ia Y /\ ib_open X = false /\ ia_open Y = false
  | Gt => cmpc (H X) (L Y) = Gt /\ cmp (ia Y) (get_ub X) = Lt
  end.
Proof.
  unfold cmpc, H, L, get_lb; cbn [fst snd].
  destruct (cmp (get_ub X) (ia Y)) eqn:E; cbn.
  - apply (to_eq1 TO) in E. destruct (ib_open X), (ia_open Y); cbn; auto; discriminate.
  - discriminate.
  - split; auto. apply (to_gt_lt TO); auto.
Qed.

Lemma third_cmp' X Y :
  let c0 := cmp (get_lb X) (get_ub Y) in
  let c := if isEq c0 && (ia_open X || ib_open Y) then Gt else c0 in
  match c with
  | Gt => cmpc (H Y) (L X) <> Gt
  | Eq => cmpc (H Y) (L X) = Gt /\ get_ub Y = ia X /\ ib_open Y = false /\ ia_open X = false
  | Lt => cmpc (H Y) (L X) = Gt /\ cmp (ia X) (get_ub Y) = Lt
  end.
Proof.
  unfold cmpc, H, L, get_lb; cbn [fst snd]. rewrite (to_antisym _ TO (ia X) (get_ub Y)).
  destruct (cmp (ia X) (get_ub Y)) eqn:E; cbn.
  - apply (to_eq1 TO) in E. destruct (ia_open X), (ib_open Y); cbn; auto; discriminate.
  - auto.
  - discriminate.
Qed.

Lemma cwi_spec w X Y : WF cmp X -> WF cmp Y ->
  exists r P, cmp_with_intersect cmp w X Y = Some (r, P) /\
              rel_cut r (L X) (H X) (L Y) (H Y) /\ P_cut w r P X Y.
Proof.
  intros WX WY.
  pose proof (WF_cut _ WX) as W1. pose proof (WF_cut _ WY) as W2.
  unfold cmp_with_intersect. rewrite clb_cut, cub_cut, !copy_id by assumption.
  pose proof (third_cmp X Y) as T1. pose proof (third_cmp' X Y) as T2. cbv zeta in T1, T2.
  destruct (cmpc (H X) (H Y)) eqn:Eh; destruct (cmpc (L X) (L Y)) eqn:El; cbn [isEq isLt isGt andb negb].
  - (* Eq Eq *) exists REQ. eexists. split; [reflexivity|]. split; [split; ord|]. unfold P_cut. destruct w; reflexivity.
  - (* Eq Lt *) exists LEQ_WI_I2. eexists. split; [reflexivity|]. split; [split; ord|]. unfold P_cut. destruct w; reflexivity.
  - (* Eq Gt *) exists GEQ_WI_I1. eexists. split; [reflexivity|]. split; [split; ord|]. unfold P_cut. destruct w; reflexivity.
  - (* Lt Eq *) exists LT_WI_I1. eexists. split; [reflexivity|]. split; [split; ord|]. unfold P_cut. destruct w; reflexivity.
  - (* Lt Lt *)
    destruct (if isEq (cmp (get_ub X) (get_lb Y)) && (ib_open X || ia_open Y) then Lt else cmp (get_ub X) (get_lb Y)) eqn:Ec.
    + destruct T1 as (G & E & O1 & O2). rewrite O1, O2. cbn.
      exists LT_WI. eexists. split; [reflexivity|]. split; [cbn; repeat split; ord|].
      unfold P_cut. destruct w; auto. eexists. split; [reflexivity|]. split; [apply WF_point|].
      unfold L, H. rewrite O1, O2, E. split; reflexivity.
    + exists LT_NO, None. split; [reflexivity|]. split; [exact T1|]. unfold P_cut. destruct w; reflexivity.
    + destruct T1 as (G & E).
      destruct w.
      * destruct (construct_spec (get_lb Y) (ia_open Y) (get_ub X) (ib_open X) E) as (p & Hp & Wp & Lp & Hp').
        rewrite Hp. exists LT_WI. eexists. split; [reflexivity|]. split; [cbn; repeat split; ord|].
        cbn. exists p. repeat split; auto.
      * exists LT_WI, None. split; [reflexivity|]. split; [cbn; repeat split; ord|]. reflexivity.
  - (* Lt Gt *) exists LT_WI_I1. eexists. split; [reflexivity|]. split; [split; ord|]. unfold P_cut. destruct w; reflexivity.
  - (* Gt Eq *) exists GT_WI_I2. eexists. split; [reflexivity|]. split; [split; ord|]. unfold P_cut. destruct w; reflexivity.
  - (* Gt Lt *) exists GT_WI_I2. eexists. split; [reflexivity|]. split; [split; ord|]. unfold P_cut. destruct w; reflexivity.
  - (* Gt Gt *)
    destruct (if isEq (cmp (get_lb X) (get_ub Y)) && (ia_open X || ib_open Y) then Gt else cmp (get_lb X) (get_ub Y)) eqn:Ec.
    + destruct T2 as (G & E & O1 & O2). rewrite O1, O2. cbn.
      exists GT_WI. eexists. split; [reflexivity|]. split; [cbn; repeat split; ord|].
      unfold P_cut. destruct w; auto. eexists. split; [reflexivity|]. split; [apply WF_point|].
      unfold L, H. rewrite O1, O2, E. split; reflexivity.
    + destruct T2 as (G & E).
      destruct w.
      * destruct (construct_spec (get_lb X) (ia_open X) (get_ub Y) (ib_open Y) E) as (p & Hp & Wp & Lp & Hp').
        rewrite Hp. exists GT_WI. eexists. split; [reflexivity|]. split; [cbn; repeat split; ord|].
        cbn. exists p. repeat split; auto.
      * exists GT_WI, None. split; [reflexivity|]. split; [cbn; repeat split; ord|]. reflexivity.
    + exists GT_NO, None. split; [reflexivity|]. split; [exact T2|]. unfold P_cut. destruct w; reflexivity.
Qed.

(* ------------------------------------------------------------------ lists: normal form on cuts *)
Lemma sep_cut X Y : sep cmp X Y <-> cmpc (H X) (L Y) = Lt.
Proof.
  unfold sep, cmpc, H, L, lt; cbn [fst snd]. split.
  - intros [E | (E & O1 & O2)]; [rewrite E; reflexivity|]. rewrite E, (to_refl TO), O1, O2. reflexivity.
  - destruct (cmp (get_ub X) (ia Y)) eqn:E; try discriminate; auto.
    apply (to_eq1 TO) in E. destruct (ib_open X), (ia_open Y); cbn; try discriminate. auto.
Qed.

Lemma cmem_set_nil c : cmem_set c [] <-> False.
Proof. unfold cmem_set. split; [intros (X & [] & _) | tauto]. Qed.
Lemma cmem_set_cons c X t : cmem_set c (X :: t) <-> cmem c X \/ cmem_set c t.
Proof.
  unfold cmem_set. split.
  - intros (Y & [E|HIn] & Hm); [subst; auto | right; eauto].
  - intros [Hm | (Y & HIn & Hm)]; [exists X | exists Y]; cbn; auto.
Qed.

Lemma NF_tail X t : NF cmp (X :: t) -> NF cmp t.
Proof. cbn. tauto. Qed.
Lemma NF_head X t : NF cmp (X :: t) -> WF cmp X.
Proof. cbn. tauto. Qed.
Lemma NF_Forall s : NF cmp s -> Forall (WF cmp) s.
Proof. induction s as [|X t IH]; constructor; [eapply NF_head | apply IH; eapply NF_tail]; eauto. Qed.

(* everything in the tail lies strictly above the upper cut of the head *)
Lemma NF_above t : forall X, NF cmp (X :: t) -> forall c, cmem_set c t -> cmpc (H X) c = Lt.
Proof.
  induction t as [|Y t IH]; intros X N c Hc.
  - apply cmem_set_nil in Hc. tauto.
  - destruct N as (WX & S & N). apply sep_cut in S.
    pose proof (WF_cut _ (NF_head _ _ N)) as WY.
    apply cmem_set_cons in Hc. destruct Hc as [[H1 H2] | Hc].
    + ord.
    + pose proof (IH Y N c Hc). ord.
Qed.

Lemma NF_cons_intro P r : WF cmp P -> NF cmp r -> (forall c, cmem_set c r -> cmpc (H P) c = Lt) -> NF cmp (P :: r).
Proof.
  intros WP N A. cbn. split; auto. split; auto.
  destruct r as [|J r']; auto. apply sep_cut. apply A. apply cmem_set_cons. left.
  apply cmem_L. eapply NF_head; eauto.
Qed.

Lemma NF_single X : WF cmp X -> NF cmp [X].
Proof. cbn. tauto. Qed.

(* what the comparison leaves in P, as a set of cuts *)
Lemma P_meet r P X Y : WF cmp X -> WF cmp Y ->
  rel_cut r (L X) (H X) (L Y) (H Y) -> P_cut true r P X Y ->
  match r with
  | LT_NO | GT_NO => P = None /\ forall c, cmem c X -> cmem c Y -> False
  | _ => exists p, P = Some p /\ WF cmp p /\ (forall c, cmem c p <-> cmem c X /\ cmem c Y) /\
                   cmpc (H p) (H X) <> Gt /\ cmpc (H p) (H Y) <> Gt /\
                   ((L p = L X /\ H p = H X) \/ L p <> L X \/ H p <> H X) 
  end.
Proof.
  intros WX WY R PC. pose proof (WF_cut _ WX) as W1. pose proof (WF_cut _ WY) as W2.
  unfold P_cut in PC. unfold cmem.
  destruct r; cbn in R; try (destruct R as (R1 & R2 & R3)); try (destruct R as (R1 & R2)).
  - split; auto. intros c [A1 A2] [B1 B2]. ord.
  - destruct PC as (p & -> & Wp & Lp & Hp). exists p. rewrite Lp, Hp. repeat split; auto; intros; try ord.
    + destruct H0; ord. + destruct H0; ord. + destruct H0; ord. + destruct H0; ord.
    + destruct H0 as [[? ?] [? ?]]; ord. + destruct H0 as [[? ?] [? ?]]; ord.
    + right. left. intro E. rewrite E in R1. ord.
  - subst P. exists X. repeat split; auto; intros; try ord.
    + destruct H0; ord. + destruct H0; ord. + destruct H0; ord. + destruct H0; ord.
    + destruct H0 as [[? ?] [? ?]]; ord. + destruct H0 as [[? ?] [? ?]]; ord.
  - subst P. exists Y. rewrite <- R2. repeat split; auto; intros; try ord.
    + destruct H0; ord. + destruct H0; ord. + destruct H0; ord. + destruct H0; ord.
    + destruct H0 as [[? ?] [? ?]]; ord. + destruct H0 as [[? ?] [? ?]]; ord.
    + right. left. intro E. rewrite E in R1. ord.
  - subst P. exists X. rewrite <- R1, <- R2. repeat split; auto; intros; try ord; tauto.
  - subst P. exists X. rewrite <- R2. repeat split; auto; intros; try ord.
    + destruct H0; ord. + destruct H0; ord. + destruct H0; ord. + destruct H0; ord.
    + destruct H0 as [[? ?] [? ?]]; ord. + destruct H0 as [[? ?] [? ?]]; ord.
  - subst P. exists Y. repeat split; auto; intros; try ord.
    + destruct H0; ord. + destruct H0; ord. + destruct H0; ord. + destruct H0; ord.
    + destruct H0 as [[? ?] [? ?]]; ord. + destruct H0 as [[? ?] [? ?]]; ord.
    + right. right. intro E. rewrite E in R2. ord.
  - destruct PC as (p & -> & Wp & Lp & Hp). exists p. rewrite Lp, Hp. repeat split; auto; intros; try ord.
    + destruct H0; ord. + destruct H0; ord. + destruct H0; ord. + destruct H0; ord.
    + destruct H0 as [[? ?] [? ?]]; ord. + destruct H0 as [[? ?] [? ?]]; ord.
    + right. right. intro E. rewrite E in R3. ord.
  - split; auto. intros c [A1 A2] [B1 B2]. ord.
Qed.

(* ------------------------------------------------------------------ intersection *)
Lemma isect_loop_eq s1 s2 :
  isect_loop cmp s1 s2 =
  match s1, s2 with
  | [], [] => Some ([], true, true)
  | [], _ :: _ => Some ([], true, false)
  | _ :: _, [] => Some ([], false, true)
  | I1 :: t1, I2 :: t2 =>
    match cmp_with_intersect cmp true I1 I2 with
    | None => None
    | Some (r, P) =>
      match r with
      | LT_NO     => isect_step false P false true  (isect_loop cmp t1 s2)
      | LT_WI     => isect_step true  P false false (isect_loop cmp t1 s2)
      | LT_WI_I1  => isect_step true  P true  false (isect_loop cmp t1 s2)
      | LEQ_WI_I2 => isect_step true  P false true  (isect_loop cmp t1 t2)
      | REQ       => isect_step true  P true  true  (isect_loop cmp t1 t2)
      | GEQ_WI_I1 => isect_step true  P true  false (isect_loop cmp t1 t2)
      | GT_WI_I2  => isect_step true  P false true  (isect_loop cmp s1 t2)
      | GT_WI     => isect_step true  P false false (isect_loop cmp s1 t2)
      | GT_NO     => isect_step false P true  false (isect_loop cmp s1 t2)
      end
    end
  end.
Proof. destruct s1; destruct s2; reflexivity. Qed.

Definition isect_post (s1 s2 : list (itv T)) (res : option (list (itv T) * bool * bool)) : Prop :=
  exists r f1 f2, res = Some (r, f1, f2) /\ NF cmp r /\
    (forall c, cmem_set c r <-> cmem_set c s1 /\ cmem_set c s2) /\
    (f1 = true <-> r = s1) /\ (f2 = true <-> r = s2).

Lemma L_neq X Y : L X <> L Y -> X <> Y.
Proof. congruence. Qed.
Lemma H_neq X Y : H X <> H Y -> X <> Y.
Proof. congruence. Qed.
Lemma cut_lt_neq (a b : cut) : cmpc a b = Lt -> a <> b.
Proof. intros E1 E2. subst. ord. Qed.
Lemma cut_lt_neq' (a b : cut) : cmpc a b = Lt -> b <> a.
Proof. intros E1 E2. subst. ord. Qed.

Lemma andb_true_r' b : b && true = b. Proof. destruct b; reflexivity. Qed.

(* [den D] proves  forall c, cmem_set c (result) <-> cmem_set c s1 /\ cmem_set c s2  from the denotation D of the
   recursive result, the meaning of P, and the disjointness facts in the context *)
Ltac den D :=
  let c := fresh "c" in
  intro c; rewrite ?cmem_set_cons; rewrite (D c); rewrite ?cmem_set_cons;
  repeat match goal with
         | Hx : forall c : cut, _ |- _ => pose proof (Hx c); clear Hx
         end;
  tauto.

Lemma isect_loop_spec : forall n s1 s2, (length s1 + length s2 <= n)%nat ->
  NF cmp s1 -> NF cmp s2 -> isect_post s1 s2 (isect_loop cmp s1 s2).
Proof.
  induction n as [|n IH]; intros s1 s2 Hn N1 N2; rewrite isect_loop_eq.
  { destruct s1, s2; cbn in Hn; try lia. exists [], true, true.
    split; [reflexivity|]. split; [exact I|]. split; [|tauto].
    intro c. rewrite cmem_set_nil. tauto. }
  destruct s1 as [|I1 t1]; [|destruct s2 as [|I2 t2]].
  - destruct s2.
    + exists [], true, true. split; [reflexivity|]. split; [exact I|]. split; [|tauto].
      intro c. rewrite cmem_set_nil. tauto.
    + exists [], true, false. split; [reflexivity|]. split; [exact I|]. split; [|split; [tauto|split; discriminate]].
      intro c. rewrite cmem_set_nil. tauto.
  - exists [], false, true. split; [reflexivity|]. split; [exact I|]. split; [|split; [split; discriminate|tauto]].
    intro c. rewrite !cmem_set_nil. tauto.
  - pose proof (NF_head _ _ N1) as WX. pose proof (NF_head _ _ N2) as WY.
    pose proof (NF_tail _ _ N1) as Nt1. pose proof (NF_tail _ _ N2) as Nt2.
    pose proof (NF_above _ _ N1) as A1. pose proof (NF_above _ _ N2) as A2.
    pose proof (WF_cut _ WX) as W1. pose proof (WF_cut _ WY) as W2.
    destruct (cwi_spec true I1 I2 WX WY) as (r0 & P & Ecw & R & PC). rewrite Ecw.
    pose proof (P_meet _ _ _ _ WX WY R PC) as PM.
    cbn in Hn.
    assert (IHa : isect_post t1 (I2 :: t2) (isect_loop cmp t1 (I2 :: t2))) by (apply IH; cbn; auto; lia).
    assert (IHb : isect_post t1 t2 (isect_loop cmp t1 t2)) by (apply IH; auto; lia).
    assert (IHc : isect_post (I1 :: t1) t2 (isect_loop cmp (I1 :: t1) t2)) by (apply IH; cbn; auto; lia).
    assert (InL1 : cmem_set (L I1) (I1 :: t1)) by (apply cmem_set_cons; left; apply cmem_L; auto).
    assert (InL2 : cmem_set (L I2) (I2 :: t2)) by (apply cmem_set_cons; left; apply cmem_L; auto).
    destruct r0; cbn in R, PM.
    + (* LT_NO *)
      destruct PM as (-> & Dj). destruct IHa as (r & f1 & f2 & -> & Nr & D & F1 & F2). clear IHb IHc.
      assert (E12 : forall c, cmem c I1 -> cmem_set c t2 -> False)
        by (intros c [? ?] Hc; pose proof (A2 _ Hc); ord).
      exists r, false, f2. cbn. rewrite ?andb_false_r, ?andb_true_r'.
      split; [reflexivity|]. split; [exact Nr|]. split; [|split; [|exact F2]].
      * clear InL1 InL2. den D.
      * split; [destruct f1; discriminate|]. intro E. exfalso. subst r.
        apply D in InL1. destruct InL1 as [Hc _]. pose proof (A1 _ Hc). ord.
    + (* LT_WI *)
      destruct R as (R1 & R2 & R3).
      destruct PM as (p & -> & Wp & Mp & Hp1 & Hp2 & _). destruct IHa as (r & f1 & f2 & -> & Nr & D & F1 & F2).
      clear IHb IHc.
      destruct PC as (p' & Ep & _ & Lp & Hp). inversion Ep; subst p'. clear Ep.
      assert (E12 : forall c, cmem c I1 -> cmem_set c t2 -> False)
        by (intros c [? ?] Hc; pose proof (A2 _ Hc); ord).
      exists (p :: r), false, false. cbn. rewrite ?andb_false_r, ?andb_true_r'.
      split; [reflexivity|]. split; [|split; [|split]].
      * apply NF_cons_intro; auto. intros c Hc. apply D in Hc. destruct Hc as [Hc _]. pose proof (A1 _ Hc). ord.
      * clear InL1 InL2. den D.
      * split; [discriminate|]. intro E. exfalso. inversion E. subst p. rewrite Lp in R1. ord.
      * split; [discriminate|]. intro E. exfalso. inversion E. subst p. rewrite Hp in R3. ord.
    + (* LT_WI_I1 *)
      destruct R as (R1 & R2).
      destruct PM as (p & -> & Wp & Mp & Hp1 & Hp2 & _). destruct IHa as (r & f1 & f2 & -> & Nr & D & F1 & F2).
      clear IHb IHc.
      cbn in PC. inversion PC; subst p. clear PC.
      assert (E12 : forall c, cmem c I1 -> cmem_set c t2 -> False)
        by (intros c [? ?] Hc; pose proof (A2 _ Hc); ord).
      exists (I1 :: r), f1, false. cbn. rewrite ?andb_false_r, ?andb_true_r'.
      split; [reflexivity|]. split; [|split; [|split]].
      * apply NF_cons_intro; auto. intros c Hc. apply D in Hc. destruct Hc as [Hc _]. apply A1; auto.
      * clear InL1 InL2. den D.
      * split; intro E; [apply F1 in E; congruence | apply F1; congruence].
      * split; [discriminate|]. intro E. exfalso. inversion E. subst I2. ord.
    + (* LEQ_WI_I2 *)
      destruct R as (R1 & R2).
      destruct PM as (p & -> & Wp & Mp & Hp1 & Hp2 & _). destruct IHb as (r & f1 & f2 & -> & Nr & D & F1 & F2).
      clear IHa IHc.
      cbn in PC. inversion PC; subst p. clear PC.
      assert (E12 : forall c, cmem c I1 -> cmem_set c t2 -> False)
        by (intros c [? ?] Hc; pose proof (A2 _ Hc); rewrite <- R2 in *; ord).
      assert (E21 : forall c, cmem_set c t1 -> cmem c I2 -> False)
        by (intros c Hc [? ?]; pose proof (A1 _ Hc); rewrite <- R2 in *; ord).
      exists (I2 :: r), false, f2. cbn. rewrite ?andb_false_r, ?andb_true_r'.
      split; [reflexivity|]. split; [|split; [|split]].
      * apply NF_cons_intro; auto. intros c Hc. apply D in Hc. destruct Hc as [_ Hc]. apply A2; auto.
      * clear InL1 InL2. den D.
      * split; [discriminate|]. intro E. exfalso. inversion E. subst I2. ord.
      * split; intro E; [apply F2 in E; congruence | apply F2; congruence].
    + (* REQ *)
      destruct R as (R1 & R2).
      assert (I1 = I2) by (apply WF_ext; auto). subst I2.
      destruct PM as (p & -> & Wp & Mp & Hp1 & Hp2 & _). destruct IHb as (r & f1 & f2 & -> & Nr & D & F1 & F2).
      clear IHa IHc.
      cbn in PC. inversion PC; subst p. clear PC.
      assert (E12 : forall c, cmem c I1 -> cmem_set c t2 -> False)
        by (intros c [? ?] Hc; pose proof (A2 _ Hc); ord).
      assert (E21 : forall c, cmem_set c t1 -> cmem c I1 -> False)
        by (intros c Hc [? ?]; pose proof (A1 _ Hc); ord).
      exists (I1 :: r), f1, f2. cbn. rewrite ?andb_false_r, ?andb_true_r'.
      split; [reflexivity|]. split; [|split; [|split]].
      * apply NF_cons_intro; auto. intros c Hc. apply D in Hc. destruct Hc as [_ Hc]. apply A2; auto.
      * clear InL1 InL2. den D.
      * split; intro E; [apply F1 in E; congruence | apply F1; congruence].
      * split; intro E; [apply F2 in E; congruence | apply F2; congruence].
    + (* GEQ_WI_I1 *)
      destruct R as (R1 & R2).
      destruct PM as (p & -> & Wp & Mp & Hp1 & Hp2 & _). destruct IHb as (r & f1 & f2 & -> & Nr & D & F1 & F2).
      clear IHa IHc.
      cbn in PC. inversion PC; subst p. clear PC.
      assert (E12 : forall c, cmem c I1 -> cmem_set c t2 -> False)
        by (intros c [? ?] Hc; pose proof (A2 _ Hc); rewrite <- R2 in *; ord).
      assert (E21 : forall c, cmem_set c t1 -> cmem c I2 -> False)
        by (intros c Hc [? ?]; pose proof (A1 _ Hc); rewrite <- R2 in *; ord).
      exists (I1 :: r), f1, false. cbn. rewrite ?andb_false_r, ?andb_true_r'.
      split; [reflexivity|]. split; [|split; [|split]].
      * apply NF_cons_intro; auto. intros c Hc. apply D in Hc. destruct Hc as [Hc _]. apply A1; auto.
      * clear InL1 InL2. den D.
      * split; intro E; [apply F1 in E; congruence | apply F1; congruence].
      * split; [discriminate|]. intro E. exfalso. inversion E. subst I2. ord.
    + (* GT_WI_I2 *)
      destruct R as (R1 & R2).
      destruct PM as (p & -> & Wp & Mp & Hp1 & Hp2 & _). destruct IHc as (r & f1 & f2 & -> & Nr & D & F1 & F2).
      clear IHa IHb.
      cbn in PC. inversion PC; subst p. clear PC.
      assert (E21 : forall c, cmem_set c t1 -> cmem c I2 -> False)
        by (intros c Hc [? ?]; pose proof (A1 _ Hc); ord).
      exists (I2 :: r), false, f2. cbn. rewrite ?andb_false_r, ?andb_true_r'.
      split; [reflexivity|]. split; [|split; [|split]].
      * apply NF_cons_intro; auto. intros c Hc. apply D in Hc. destruct Hc as [_ Hc]. apply A2; auto.
      * clear InL1 InL2. den D.
      * split; [discriminate|]. intro E. exfalso. inversion E. subst I2. ord.
      * split; intro E; [apply F2 in E; congruence | apply F2; congruence].
    + (* GT_WI *)
      destruct R as (R1 & R2 & R3).
      destruct PM as (p & -> & Wp & Mp & Hp1 & Hp2 & _). destruct IHc as (r & f1 & f2 & -> & Nr & D & F1 & F2).
      clear IHa IHb.
      destruct PC as (p' & Ep & _ & Lp & Hp). inversion Ep; subst p'. clear Ep.
      assert (E21 : forall c, cmem_set c t1 -> cmem c I2 -> False)
        by (intros c Hc [? ?]; pose proof (A1 _ Hc); ord).
      exists (p :: r), false, false. cbn. rewrite ?andb_false_r, ?andb_true_r'.
      split; [reflexivity|]. split; [|split; [|split]].
      * apply NF_cons_intro; auto. intros c Hc. apply D in Hc. destruct Hc as [_ Hc]. pose proof (A2 _ Hc). ord.
      * clear InL1 InL2. den D.
      * split; [discriminate|]. intro E. exfalso. inversion E. subst p. rewrite Hp in R3. ord.
      * split; [discriminate|]. intro E. exfalso. inversion E. subst p. rewrite Lp in R1. ord.
    + (* GT_NO *)
      destruct PM as (-> & Dj). destruct IHc as (r & f1 & f2 & -> & Nr & D & F1 & F2). clear IHa IHb.
      assert (E21 : forall c, cmem_set c t1 -> cmem c I2 -> False)
        by (intros c Hc [? ?]; pose proof (A1 _ Hc); ord).
      exists r, f1, false. cbn. rewrite ?andb_false_r, ?andb_true_r'.
      split; [reflexivity|]. split; [exact Nr|]. split; [|split; [exact F1|]].
      * clear InL1 InL2. den D.
      * split; [discriminate|]. intro E. exfalso. subst r.
        apply D in InL2. destruct InL2 as [_ Hc]. pose proof (A2 _ Hc). ord.
Qed.

Lemma fs_intersect_cut s1 s2 : NF cmp s1 -> NF cmp s2 ->
  exists r st, fs_intersect cmp s1 s2 = Some (r, st) /\ NF cmp r /\
    (forall c, cmem_set c r <-> cmem_set c s1 /\ cmem_set c s2) /\ status_spec st s1 s2 r.
Proof.
  intros N1 N2. unfold fs_intersect.
  destruct s1 as [|X t1].
  { exists [], ST_EMPTY. split; [reflexivity|]. split; [exact I|]. split; [|reflexivity].
    intro c. rewrite cmem_set_nil. tauto. }
  destruct s2 as [|Y t2].
  { exists [], ST_EMPTY. split; [reflexivity|]. split; [exact I|]. split; [|reflexivity].
    intro c. rewrite !cmem_set_nil. tauto. }
  destruct (isect_loop_spec _ _ _ (le_n _) N1 N2) as (r & f1 & f2 & -> & Nr & D & F1 & F2).
  eexists r, _. split; [reflexivity|]. split; [exact Nr|]. split; [exact D|].
  unfold status_spec. destruct f1.
  - apply F1. reflexivity.
  - assert (r <> X :: t1) by (intro E; apply F1 in E; discriminate).
    destruct f2.
    + split; auto. apply F2. reflexivity.
    + assert (r <> Y :: t2) by (intro E; apply F2 in E; discriminate).
      destruct r; repeat split; auto; discriminate.
Qed.

(* ------------------------------------------------------------------ membership by binary search *)
Lemma NF_nth s : NF cmp s -> forall i j X Y, nth_error s i = Some X -> nth_error s j = Some Y -> (i < j)%nat ->
  cmpc (H X) (L Y) = Lt.
Proof.
  induction s as [|Z t IH]; intros N i j X Y Hi Hj Hij.
  - destruct i; discriminate.
  - destruct j as [|j]; [lia|]. cbn in Hj.
    destruct i as [|i]; cbn in Hi.
    + inversion Hi; subst Z. apply (NF_above _ _ N). exists Y. split; [eapply nth_error_In; eauto|].
      apply cmem_L. pose proof (NF_Forall _ (NF_tail _ _ N)) as F. rewrite Forall_forall in F. apply F.
      eapply nth_error_In; eauto.
    + apply (IH (NF_tail _ _ N) i j); auto. lia.
Qed.

Lemma NF_nth_WF s i X : NF cmp s -> nth_error s i = Some X -> WF cmp X.
Proof.
  intros N Hi. pose proof (NF_Forall _ N) as F. rewrite Forall_forall in F. apply F. eapply nth_error_In; eauto.
Qed.

Lemma bsearch_spec s v : NF cmp s -> forall fuel l r, (l <= r <= length s)%nat -> (r - l < fuel)%nat ->
  exists b, bsearch cmp fuel s v l r = Some b /\
    (b = true <-> exists i X, (l <= i < r)%nat /\ nth_error s i = Some X /\ mem cmp v X).
Proof.
  intro N. induction fuel as [|fuel IH]; intros l r Hlr Hf; [lia|].
  cbn [bsearch]. destruct (Nat.leb r l) eqn:Erl.
  - apply Nat.leb_le in Erl. exists false. split; [reflexivity|]. split; [discriminate|].
    intros (i & X & Hi & _). lia.
  - apply Nat.leb_gt in Erl.
    assert (Hd : (Nat.div (r - l) 2 < r - l)%nat) by (apply Nat.div_lt; lia).
    set (m := (l + Nat.div (r - l) 2)%nat) in *.
    assert (Hm : (l <= m < r)%nat) by (unfold m; lia).
    destruct (nth_error s m) as [X|] eqn:Em.
    2:{ apply nth_error_None in Em. lia. }
    pose proof (NF_nth_WF _ _ _ N Em) as WX. pose proof (WF_cut _ WX) as W1.
    pose proof (cmpval_cut X v WX) as CV.
    destruct (itv_cmp_value cmp X v) eqn:Ecv.
    + exists true. split; [reflexivity|]. split; [|reflexivity]. intros _. exists m, X. split; [lia|]. split; [exact Em|]. apply mem_cut. exact CV.
    + (* v above X *)
      destruct (IH (S m) r) as (b & Eb & Hb); [lia|lia|]. exists b. split; [exact Eb|]. rewrite Hb. split.
      * intros (i & Y & Hi & Ei & Mi). exists i, Y. split; [lia|]. split; auto.
      * intros (i & Y & Hi & Ei & Mi). exists i, Y. split; [|split; auto].
        apply mem_cut in Mi. destruct Mi as [M1 M2].
        destruct (Nat.lt_trichotomy i m) as [Hlt|[Heq|Hgt]]; [|subst i|lia].
        -- exfalso. pose proof (NF_nth _ N _ _ _ _ Ei Em Hlt). ord.
        -- exfalso. rewrite Em in Ei. inversion Ei; subst Y. ord.
    + (* v below X *)
      destruct (IH l m) as (b & Eb & Hb); [lia|lia|]. exists b. split; [exact Eb|]. rewrite Hb. split.
      * intros (i & Y & Hi & Ei & Mi). exists i, Y. split; [lia|]. split; auto.
      * intros (i & Y & Hi & Ei & Mi). exists i, Y. split; [|split; auto].
        apply mem_cut in Mi. destruct Mi as [M1 M2].
        destruct (Nat.lt_trichotomy i m) as [Hlt|[Heq|Hgt]]; [lia|subst i|].
        -- exfalso. rewrite Em in Ei. inversion Ei; subst Y. ord.
        -- exfalso. pose proof (NF_nth _ N _ _ _ _ Em Ei Hgt). ord.
Qed.

Lemma fs_contains_spec s v : NF cmp s ->
  exists b, fs_contains cmp s v = Some b /\ (b = true <-> mem_set cmp v s).
Proof.
  intro N. unfold fs_contains.
  destruct (bsearch_spec s v N (S (length s)) 0 (length s)) as (b & Eb & Hb); [lia|lia|].
  exists b. split; [exact Eb|]. rewrite Hb. unfold mem_set. split.
  - intros (i & X & _ & Ei & Mi). exists X. split; auto. eapply nth_error_In; eauto.
  - intros (X & HIn & Mi). apply In_nth_error in HIn. destruct HIn as (i & Ei). exists i, X.
    split; [|split; auto]. split; [lia|]. apply nth_error_Some. congruence.
Qed.

(* ------------------------------------------------------------------ union: the sort order *)
(* key of an interval for interval_sort_for_union: lower cut ascending, then upper cut DESCENDING *)
Definition key (X : itv T) : cut * cut := (L X, H X).
Definition cmpk : cut * cut -> cut * cut -> comparison := @lex_cmp cut cut cmpc (@flip_cmp cut cmpc).
Lemma cmpk_TO : total_order cmpk.
Proof. apply lex_TO; [exact TOc | apply flip_TO; exact TOc]. Qed.
Let TOk := cmpk_TO.

Lemma cmpk_unfold X Y :
  cmpk (key X) (key Y) = match cmpc (L X) (L Y) with Eq => cmpc (H Y) (H X) | c => c end.
Proof. reflexivity. Qed.

Lemma key_inj X Y : WF cmp X -> WF cmp Y -> key X = key Y -> X = Y.
Proof.
  intros WX WY E. apply WF_ext; auto; [exact (f_equal fst E) | exact (f_equal snd E)].
Qed.

Lemma sort_for_union_spec X Y : WF cmp X -> WF cmp Y ->
  sort_for_union cmp X Y = Some (cmpk (key X) (key Y)).
Proof.
  intros WX WY. pose proof (WF_cut _ WX) as W1. pose proof (WF_cut _ WY) as W2.
  unfold sort_for_union, itv_cmp.
  destruct (cwi_spec false X Y WX WY) as (r & P & -> & R & _). f_equal. rewrite cmpk_unfold.
  destruct r; cbn in R; try (destruct R as (R1 & R2 & R3)); try (destruct R as (R1 & R2));
    destruct (cmpc (L X) (L Y)) eqn:E1; try reflexivity;
    try (destruct (cmpc (H Y) (H X)) eqn:E2; try reflexivity); exfalso; try congruence; ord.
Qed.

Definition lexle (X Y : itv T) : Prop := cmpk (key X) (key Y) <> Gt.

Lemma sort_insert_spec x : WF cmp x -> forall l, Forall (WF cmp) l -> Sorted lexle l ->
  exists l', sort_insert cmp x l = Some l' /\ Permutation (x :: l) l' /\ Sorted lexle l' /\
             (forall y, HdRel lexle y l -> lexle y x -> HdRel lexle y l').
Proof.
  intros Wx. induction l as [|y t IH]; intros F S.
  - exists [x]. cbn. repeat split; auto.
  - inversion F as [|? ? Wy Ft]; subst. inversion S as [|? ? St Hd]; subst.
    cbn [sort_insert]. rewrite (sort_for_union_spec x y Wx Wy).
    destruct (cmpk (key x) (key y)) eqn:E.
    + exists (x :: y :: t). repeat split; auto. constructor; auto. constructor. unfold lexle. rewrite E. discriminate.
    + exists (x :: y :: t). repeat split; auto. constructor; auto. constructor. unfold lexle. rewrite E. discriminate.
    + destruct (IH Ft St) as (t' & -> & Pt & St' & Hd').
      exists (y :: t'). split; [reflexivity|]. split; [|split].
      * rewrite perm_swap. constructor. exact Pt.
      * constructor; auto. apply Hd'; auto. unfold lexle. ord.
      * intros z Hz Hzx. constructor. inversion Hz; auto.
Qed.

Lemma sort_intervals_spec l : Forall (WF cmp) l ->
  exists l', sort_intervals cmp l = Some l' /\ Permutation l l' /\ Sorted lexle l'.
Proof.
  induction l as [|x t IH]; intro F.
  - exists []. cbn. auto.
  - inversion F as [|? ? Wx Ft]; subst. destruct (IH Ft) as (t' & Et & Pt & St).
    cbn [sort_intervals]. rewrite Et.
    assert (Ft' : Forall (WF cmp) t') by (rewrite Forall_forall in *; intros z Hz; apply Ft; eapply Permutation_in; [symmetry; eauto|auto]).
    destruct (sort_insert_spec x Wx t' Ft' St) as (l' & El & Pl & Sl & _).
    exists l'. split; [exact El|]. split; auto. rewrite <- Pl. constructor. exact Pt.
Qed.

Lemma lexle_trans : Relations_1.Transitive lexle.
Proof. intros x y z. unfold lexle. intros. ord. Qed.

Lemma sorted_perm_unique : forall l l', Forall (WF cmp) l -> Permutation l l' ->
  StronglySorted lexle l -> StronglySorted lexle l' -> l = l'.
Proof.
  induction l as [|x t IH]; intros l' F P S S'.
  - apply Permutation_nil in P. auto.
  - destruct l' as [|y t']; [apply Permutation_sym, Permutation_nil in P; discriminate|].
    inversion S as [|? ? St Hx]; subst. inversion S' as [|? ? St' Hy]; subst.
    rewrite Forall_forall in Hx, Hy.
    assert (Fl' : Forall (WF cmp) (y :: t')) by (rewrite Forall_forall in *; intros z Hz; apply F; eapply Permutation_in; [symmetry; eauto|auto]).
    assert (x = y).
    { assert (Hxy : lexle x y).
      { assert (In y (x :: t)) by (eapply Permutation_in; [symmetry; eauto|left; auto]).
        destruct H0; [subst; unfold lexle; ord | apply Hx; auto]. }
      assert (Hyx : lexle y x).
      { assert (In x (y :: t')) by (eapply Permutation_in; [eauto|left; auto]).
        destruct H0; [subst; unfold lexle; ord | apply Hy; auto]. }
      apply key_inj; [inversion F; auto | inversion Fl'; auto|]. unfold lexle in *. ord. }
    subst y. f_equal. apply IH; auto.
    + inversion F; auto.
    + eapply Permutation_cons_inv; eauto.
Qed.

(* ------------------------------------------------------------------ union: the fusing scan *)
Lemma set_b_spec X b (bo : bool) : WF cmp X -> cmpc (L X) (b, if bo then SL else SR) = Lt ->
  exists X', itv_set_b cmp X b bo = Some X' /\ WF cmp X' /\ L X' = L X /\ H X' = (b, if bo then SL else SR).
Proof.
  intros WX. unfold itv_set_b, cmpc, L; cbn [fst snd]. destruct (cmp (ia X) b) eqn:E; intro C; try discriminate.
  - apply (to_eq1 TO) in E. destruct (ia_open X) eqn:Oa, bo; cbn in C; try discriminate. cbn.
    eexists. split; [reflexivity|]. unfold WF, H, get_ub; cbn. rewrite E. auto.
  - eexists. split; [reflexivity|]. unfold WF, H, get_ub, lt; cbn. auto.
Qed.

Lemma touch_cut X Y : cmpc (H X) (L Y) <> Gt ->
  (isEq (cmp (get_ub X) (get_lb Y)) && (negb (ib_open X) || negb (ia_open Y)) = true <-> H X = L Y).
Proof.
  unfold cmpc, H, L, get_lb; cbn [fst snd]. destruct (cmp (get_ub X) (ia Y)) eqn:E; cbn.
  - apply (to_eq1 TO) in E. rewrite E. destruct (ib_open X), (ia_open Y); cbn; intro C; split; intro K;
      try reflexivity; try discriminate; try congruence.
  - intros _. split; [discriminate|]. intro K. apply (f_equal fst) in K. cbn [fst] in K. rewrite K, (to_refl TO) in E. discriminate.
  - intros K. congruence.
Qed.

Lemma lexle_cases X Y : lexle X Y ->
  cmpc (L X) (L Y) = Lt \/ (L X = L Y /\ cmpc (H Y) (H X) <> Gt).
Proof.
  unfold lexle. rewrite cmpk_unfold. destruct (cmpc (L X) (L Y)) eqn:E; intro K; auto; [|congruence].
  right. split; auto. apply (to_eq1 TOc). exact E.
Qed.
Lemma lexle_intro X Y :
  cmpc (L X) (L Y) = Lt \/ (L X = L Y /\ cmpc (H Y) (H X) <> Gt) -> lexle X Y.
Proof.
  unfold lexle. rewrite cmpk_unfold. intros [E | [E K]].
  - rewrite E. discriminate.
  - rewrite E, (to_refl TOc). exact K.
Qed.

Lemma fuse_spec : forall rest cur, WF cmp cur -> Forall (WF cmp) rest ->
  StronglySorted lexle rest -> Forall (lexle cur) rest ->
  exists r, fuse cmp cur rest = Some r /\ NF cmp r /\
            (forall c, cmem_set c r <-> cmem c cur \/ cmem_set c rest) /\
            (exists X t, r = X :: t /\ L X = L cur).
Proof.
  induction rest as [|Y t IH]; intros cur Wc F S D.
  - exists [cur]. split; [reflexivity|]. split; [apply NF_single; auto|]. split.
    + intro c. rewrite cmem_set_cons, !cmem_set_nil. tauto.
    + eauto.
  - inversion F as [|? ? WY Ft]; subst. inversion S as [|? ? St DY]; subst. inversion D as [|? ? DcY Dct]; subst.
    pose proof (WF_cut _ Wc) as W1. pose proof (WF_cut _ WY) as W2.
    apply lexle_cases in DcY.
    cbn [fuse]. unfold itv_cmp.
    destruct (cwi_spec false cur Y Wc WY) as (r0 & P & -> & R & _).
    (* the three continuations *)
    assert (MERGE : cmpc (H cur) (H Y) <> Gt -> cmpc (L Y) (H cur) <> Gt ->
      exists r, match itv_set_b cmp cur (get_ub Y) (ib_open Y) with Some cur' => fuse cmp cur' t | None => None end = Some r /\
        NF cmp r /\ (forall c, cmem_set c r <-> cmem c cur \/ cmem_set c (Y :: t)) /\
        (exists X t', r = X :: t' /\ L X = L cur)).
    { intros K1 K2.
      destruct (set_b_spec cur (get_ub Y) (ib_open Y) Wc) as (cur' & -> & Wc' & Lc' & Hc').
      { change (cmpc (L cur) (H Y) = Lt). destruct DcY as [K|[K1' K2']]; ord. }
      change (H cur' = H Y) in Hc'.
      destruct (IH cur' Wc' Ft St) as (r & -> & Nr & Dr & X & t' & Er & LX).
      { rewrite Forall_forall in *. intros Z HZ. apply lexle_intro.
        pose proof (lexle_cases _ _ (Dct Z HZ)) as C1. pose proof (lexle_cases _ _ (DY Z HZ)) as C2.
        rewrite Lc', Hc'.
        destruct C1 as [C1|[C1 C1']]; [left; exact C1|]. right. split; [exact C1|].
        destruct C2 as [C2|[C2 C2']]; [|exact C2'].
        exfalso. rewrite <- C1 in C2. destruct DcY as [K|[K K']]; ord. }
      exists r. split; [reflexivity|]. split; [exact Nr|]. split.
      - intro c. rewrite Dr, cmem_set_cons. unfold cmem. rewrite Lc', Hc'.
        split.
        + intros [[A B]|A]; [|tauto].
          destruct (cmpc c (H cur)) eqn:E; [right; left; split; [|exact B]; ord | left; split; auto | right; left; split; [|exact B]; ord].
        + intros [[A B]|[[A B]|A]]; [left; split; [exact A|ord] | left; split; [|exact B] | tauto].
          destruct DcY as [K|[K K']]; ord.
      - exists X, t'. split; auto. congruence. }
    assert (KEEP : cmpc (H cur) (L Y) = Lt ->
      exists r, match fuse cmp Y t with Some r' => Some (cur :: r') | None => None end = Some r /\
        NF cmp r /\ (forall c, cmem_set c r <-> cmem c cur \/ cmem_set c (Y :: t)) /\
        (exists X t', r = X :: t' /\ L X = L cur)).
    { intro K.
      destruct (IH Y WY Ft St DY) as (r & -> & Nr & Dr & X & t' & Er & LX).
      exists (cur :: r). split; [reflexivity|]. split; [|split].
      - subst r. cbn. split; [exact Wc|]. split; [|exact Nr]. apply sep_cut. rewrite LX. exact K.
      - intro c. rewrite !cmem_set_cons, Dr. tauto.
      - eauto. }
    assert (IGNORE : cmpc (L cur) (L Y) <> Gt -> cmpc (H Y) (H cur) = Lt ->
      exists r, fuse cmp cur t = Some r /\
        NF cmp r /\ (forall c, cmem_set c r <-> cmem c cur \/ cmem_set c (Y :: t)) /\
        (exists X t', r = X :: t' /\ L X = L cur)).
    { intros K1 K2.
      destruct (IH cur Wc Ft St Dct) as (r & -> & Nr & Dr & X & t' & Er & LX).
      exists r. split; [reflexivity|]. split; [exact Nr|]. split; [|eauto].
      intro c. rewrite Dr, cmem_set_cons. split; [tauto|].
      intros [A|[[A B]|A]]; [tauto | left; split; ord | tauto]. }
    destruct r0; cbn in R.
    + (* LT_NO *)
      destruct (isEq (cmp (get_ub cur) (get_lb Y)) && (negb (ib_open cur) || negb (ia_open Y))) eqn:Et.
      * apply (touch_cut cur Y R) in Et. apply MERGE; rewrite Et; ord.
      * apply KEEP. destruct (to_ngt_cases TOc _ _ R) as [K|K]; [exact K|].
        exfalso. apply (touch_cut cur Y R) in K. congruence.
    + destruct R as (R1 & R2 & R3). apply MERGE; ord.
    + destruct R as (R1 & R2). exfalso. destruct DcY as [K|[K K']]; ord.
    + destruct R as (R1 & R2). apply MERGE; rewrite R2; ord.
    + destruct R as (R1 & R2). apply MERGE; rewrite R2; ord.
    + destruct R as (R1 & R2). exfalso. destruct DcY as [K|[K K']]; ord.
    + destruct R as (R1 & R2). apply IGNORE; auto.
    + destruct R as (R1 & R2 & R3). exfalso. destruct DcY as [K|[K K']]; ord.
    + exfalso. destruct DcY as [K|[K K']]; ord.
Qed.

(* ------------------------------------------------------------------ union: lp_feasibility_set_add *)
Lemma perm_cmem_set c l l' : Permutation l l' -> (cmem_set c l <-> cmem_set c l').
Proof.
  intro P. unfold cmem_set. split; intros (X & HX & Hm); exists X; split; auto.
  - eapply Permutation_in; eauto.
  - eapply Permutation_in; [symmetry|]; eauto.
Qed.

Lemma cmem_set_app c l l' : cmem_set c (l ++ l') <-> cmem_set c l \/ cmem_set c l'.
Proof.
  unfold cmem_set. split.
  - intros (X & HX & Hm). apply in_app_or in HX. destruct HX; [left|right]; eauto.
  - intros [(X & HX & Hm)|(X & HX & Hm)]; exists X; split; auto; apply in_or_app; auto.
Qed.

Lemma fuse_sorted_spec l : Forall (WF cmp) l -> StronglySorted lexle l ->
  exists r, fuse_sorted cmp l = Some r /\ NF cmp r /\ (forall c, cmem_set c r <-> cmem_set c l).
Proof.
  intros F S. destruct l as [|x rest].
  - exists []. cbn. repeat split; auto.
  - inversion F; subst. inversion S; subst.
    destruct (fuse_spec rest x) as (r & Er & Nr & Dr & _); auto.
    exists r. split; [exact Er|]. split; [exact Nr|]. intro c. rewrite Dr, cmem_set_cons. tauto.
Qed.

Lemma qsorted_lexle l : Forall (WF cmp) l -> qsorted cmp l -> StronglySorted lexle l.
Proof.
  unfold qsorted. induction l as [|x t IH]; intros F S; [constructor|].
  inversion F as [|? ? Wx Ft]; subst. inversion S as [|? ? St Hx]; subst. constructor; [apply IH; auto|].
  rewrite Forall_forall in *. intros y Hy. destruct (Hx y Hy) as (c & Ec & Hc).
  rewrite (sort_for_union_spec x y Wx (Ft y Hy)) in Ec. inversion Ec. unfold lexle. congruence.
Qed.

Lemma Forall_perm (P : itv T -> Prop) l l' : Permutation l l' -> Forall P l -> Forall P l'.
Proof. intros Pm F. rewrite Forall_forall in *. intros x Hx. apply F. eapply Permutation_in; [symmetry|]; eauto. Qed.

Lemma fs_add_main s from : Forall (WF cmp) s -> Forall (WF cmp) from ->
  exists l r, sort_intervals cmp (s ++ from) = Some l /\ fuse_sorted cmp l = Some r /\ NF cmp r /\
    (forall c, cmem_set c r <-> cmem_set c s \/ cmem_set c from) /\
    (forall l', Permutation l' (s ++ from) -> qsorted cmp l' -> l' = l).
Proof.
  intros Fs Ff.
  assert (F : Forall (WF cmp) (s ++ from)) by (apply Forall_app; auto).
  destruct (sort_intervals_spec _ F) as (l & El & Pl & Sl).
  apply (Sorted_StronglySorted lexle_trans) in Sl.
  pose proof (Forall_perm _ _ _ Pl F) as Fl.
  destruct (fuse_sorted_spec l Fl Sl) as (r & Er & Nr & Dr).
  exists l, r. split; [exact El|]. split; [exact Er|]. split; [exact Nr|]. split.
  - intro c. rewrite Dr, <- (perm_cmem_set c _ _ Pl). apply cmem_set_app.
  - intros l' Pl' Ql'.
    assert (Fl' : Forall (WF cmp) l') by (eapply Forall_perm; [symmetry; eauto|auto]).
    apply sorted_perm_unique; auto.
    + rewrite Pl'. exact Pl.
    + apply qsorted_lexle; auto.
Qed.


Lemma is_full_mem minf pinf s : fs_is_full cmp minf pinf s = true ->
  forall v, finite cmp minf pinf v -> mem_set cmp v s.
Proof.
  unfold fs_is_full. destruct s as [|X [|? ?]]; try discriminate.
  intros E v [F1 F2]. apply andb_prop in E. destruct E as [E1 E2].
  unfold isEq in *. destruct (cmp (get_lb X) minf) eqn:Ea; try discriminate.
  destruct (cmp (get_ub X) pinf) eqn:Eb; try discriminate.
  apply (to_eq1 TO) in Ea, Eb. unfold get_lb in Ea.
  exists X. split; [left; auto|]. unfold mem, lt, le. rewrite Ea, Eb, F1, F2.
  destruct (ia_open X), (ib_open X); split; congruence.
Qed.

Lemma fs_add_point minf pinf s from : NF cmp s -> Forall (WF cmp) from ->
  exists r, fs_add cmp minf pinf s from = Some r /\ NF cmp r /\
    (forall v, (fs_is_full cmp minf pinf s = true -> finite cmp minf pinf v) ->
       (mem_set cmp v r <-> mem_set cmp v s \/ mem_set cmp v from)).
Proof.
  intros Ns Ff. unfold fs_add. destruct from as [|Y from'].
  { exists s. cbn. split; [reflexivity|]. split; [exact Ns|]. intros v _. unfold mem_set at 3. split; [tauto|].
    intros [K|(X & [] & _)]; exact K. }
  cbn [fs_is_empty]. destruct (fs_is_full cmp minf pinf s) eqn:Efull.
  { exists s. split; [reflexivity|]. split; [exact Ns|]. intros v Fv. split; [tauto|]. intros _.
    eapply is_full_mem; eauto. }
  destruct (fs_add_main s (Y :: from') (NF_Forall _ Ns) Ff) as (l & r & -> & Er & Nr & Dr & _).
  exists r. split; [exact Er|]. split; [exact Nr|]. intros v _.
  rewrite !mem_set_cmem. apply Dr.
Qed.

(* the result does not depend on which comparator-sorted arrangement qsort produced *)
Lemma fs_add_any_sort minf pinf s from l : NF cmp s -> Forall (WF cmp) from ->
  from <> [] -> fs_is_full cmp minf pinf s = false ->
  Permutation l (s ++ from) -> qsorted cmp l ->
  fuse_sorted cmp l = fs_add cmp minf pinf s from.
Proof.
  intros Ns Ff Hne Efull Pl Ql. unfold fs_add. destruct from as [|Y from']; [congruence|].
  cbn [fs_is_empty]. rewrite Efull.
  destruct (fs_add_main s (Y :: from') (NF_Forall _ Ns) Ff) as (l0 & r & -> & Er & _ & _ & U).
  rewrite (U l Pl Ql). reflexivity.
Qed.

(* ------------------------------------------------------------------ point-level statements *)
Lemma fs_intersect_point s1 s2 : NF cmp s1 -> NF cmp s2 ->
  exists r st, fs_intersect cmp s1 s2 = Some (r, st) /\ NF cmp r /\
    (forall v, mem_set cmp v r <-> mem_set cmp v s1 /\ mem_set cmp v s2) /\ status_spec st s1 s2 r.
Proof.
  intros N1 N2. destruct (fs_intersect_cut s1 s2 N1 N2) as (r & st & E & Nr & D & St).
  exists r, st. split; [exact E|]. split; [exact Nr|]. split; [|exact St].
  intro v. rewrite !mem_set_cmem. apply D.
Qed.

Lemma lb_lt_cut X Y : lb_lt cmp X Y <-> cmpc (L X) (L Y) = Lt.
Proof.
  unfold lb_lt, cmpc, L, lt; cbn [fst snd]. split.
  - intros [E|(E & O1 & O2)]; [rewrite E; reflexivity|]. rewrite E, (to_refl TO), O1, O2. reflexivity.
  - destruct (cmp (ia X) (ia Y)) eqn:E; try discriminate; auto. apply (to_eq1 TO) in E.
    destruct (ia_open X), (ia_open Y); cbn; try discriminate. auto.
Qed.
Lemma lb_eq_cut X Y : lb_eq X Y <-> L X = L Y.
Proof.
  unfold lb_eq, L. split.
  - intros [E O]. rewrite E, O. reflexivity.
  - intro E. inversion E as [[E1 E2]]. split; auto. destruct (ia_open X), (ia_open Y); congruence.
Qed.
Lemma ub_lt_cut X Y : ub_lt cmp X Y <-> cmpc (H X) (H Y) = Lt.
Proof.
  unfold ub_lt, cmpc, H, lt; cbn [fst snd]. split.
  - intros [E|(E & O1 & O2)]; [rewrite E; reflexivity|]. rewrite E, (to_refl TO), O1, O2. reflexivity.
  - destruct (cmp (get_ub X) (get_ub Y)) eqn:E; try discriminate; auto. apply (to_eq1 TO) in E.
    destruct (ib_open X), (ib_open Y); cbn; try discriminate. auto.
Qed.
Lemma ub_eq_cut X Y : ub_eq X Y <-> H X = H Y.
Proof.
  unfold ub_eq, H. split.
  - intros [E O]. rewrite E, O. reflexivity.
  - intro E. inversion E as [[E1 E2]]. split; auto. destruct (ib_open X), (ib_open Y); congruence.
Qed.
Lemma below_cut X Y : below cmp X Y <-> cmpc (H X) (L Y) <> Gt.
Proof.
  unfold below, cmpc, H, L, lt; cbn [fst snd]. split.
  - intros [E|(E & O)]; [rewrite E; discriminate|]. rewrite E, (to_refl TO).
    destruct O as [O|O]; rewrite O; [destruct (ia_open Y)|destruct (ib_open X)]; cbn; discriminate.
  - destruct (cmp (get_ub X) (ia Y)) eqn:E; auto; [|congruence]. apply (to_eq1 TO) in E.
    destruct (ib_open X), (ia_open Y); cbn; auto. congruence.
Qed.

Lemma rel_spec_cut r X Y : WF cmp X -> WF cmp Y ->
  (rel_spec cmp r X Y <-> rel_cut r (L X) (H X) (L Y) (H Y)).
Proof.
  intros WX WY. pose proof (WF_cut _ WX) as W1. pose proof (WF_cut _ WY) as W2.
  destruct r; cbn [rel_spec rel_cut];
    rewrite ?lb_lt_cut, ?lb_eq_cut, ?ub_lt_cut, ?ub_eq_cut, ?below_cut; try tauto.
  - split; intros (A & B & C); (split; [exact A|]).
    + split; [|exact B]. apply (to_lt_by_contra TOc). intro K. apply C. exact K.
    + split; [exact C|]. intro K. ord.
  - split; [intros ([A|A] & B); split; auto; ord | intros (A & B); split; auto].
    destruct (to_ngt_cases TOc _ _ A) as [K|K]; auto.
  - split; [intros ([A|A] & B); split; auto; ord | intros (A & B); split; auto].
    destruct (to_ngt_cases TOc _ _ A) as [K|K]; auto.
  - split; intros (A & B & C); (split; [exact A|]).
    + split; [|exact B]. apply (to_lt_by_contra TOc). intro K. apply C. exact K.
    + split; [exact C|]. intro K. ord.
Qed.

Lemma rel_cut_exclusive r r' (l1 h1 l2 h2 : cut) : cmpc l1 h1 = Lt -> cmpc l2 h2 = Lt ->
  rel_cut r l1 h1 l2 h2 -> rel_cut r' l1 h1 l2 h2 -> r = r'.
Proof.
  intros W1 W2. destruct r, r'; cbn; intros A B; try reflexivity; exfalso;
    repeat match goal with Hx : _ /\ _ |- _ => destruct Hx end; ord.
Qed.

Lemma cmpc_pt v w : cmpc (pt v) (pt w) = cmp v w.
Proof. unfold cmpc, pt; cbn. destruct (cmp v w); reflexivity. Qed.

Lemma cmp_classifies X Y : WF cmp X -> WF cmp Y ->
  exists r P, cmp_with_intersect cmp true X Y = Some (r, P) /\ itv_cmp cmp X Y = Some r /\
              rel_spec cmp r X Y /\ P_spec cmp r P X Y.
Proof.
  intros WX WY.
  destruct (cwi_spec true X Y WX WY) as (r & P & E1 & R1 & PC1).
  destruct (cwi_spec false X Y WX WY) as (r' & P' & E2 & R2 & PC2).
  assert (r' = r) by (exact (rel_cut_exclusive r' r _ _ _ _ (WF_cut _ WX) (WF_cut _ WY) R2 R1)). subst r'.
  exists r, P. split; [exact E1|]. split; [unfold itv_cmp; rewrite E2; reflexivity|].
  split; [apply rel_spec_cut; auto|].
  pose proof (P_meet _ _ _ _ WX WY R1 PC1) as PM.
  assert (MP : forall p, (forall c, cmem c p <-> cmem c X /\ cmem c Y) ->
                         forall v, mem cmp v p <-> mem cmp v X /\ mem cmp v Y)
    by (intros p Mp v; rewrite !mem_cmem; apply Mp).
  unfold P_spec. destruct r; cbn in PM, PC1.
  - destruct PM as (-> & Dj). split; auto. intros v [A B]. apply mem_cmem in A, B. eauto.
  - destruct PM as (p & -> & Wp & Mp & _). exists p. split; [reflexivity|]. split; [exact Wp|]. split; [apply MP; exact Mp|exact I].
  - destruct PM as (p & -> & Wp & Mp & _). exists p. split; [reflexivity|]. split; [exact Wp|]. split; [apply MP; exact Mp|congruence].
  - destruct PM as (p & -> & Wp & Mp & _). exists p. split; [reflexivity|]. split; [exact Wp|]. split; [apply MP; exact Mp|congruence].
  - destruct PM as (p & -> & Wp & Mp & _). exists p. split; [reflexivity|]. split; [exact Wp|]. split; [apply MP; exact Mp|congruence].
  - destruct PM as (p & -> & Wp & Mp & _). exists p. split; [reflexivity|]. split; [exact Wp|]. split; [apply MP; exact Mp|congruence].
  - destruct PM as (p & -> & Wp & Mp & _). exists p. split; [reflexivity|]. split; [exact Wp|]. split; [apply MP; exact Mp|congruence].
  - destruct PM as (p & -> & Wp & Mp & _). exists p. split; [reflexivity|]. split; [exact Wp|]. split; [apply MP; exact Mp|exact I].
  - destruct PM as (-> & Dj). split; auto. intros v [A B]. apply mem_cmem in A, B. eauto.
Qed.

Lemma rel_spec_exclusive X Y r r' : WF cmp X -> WF cmp Y ->
  rel_spec cmp r X Y -> rel_spec cmp r' X Y -> r = r'.
Proof.
  intros WX WY A B. apply rel_spec_cut in A, B; auto.
  exact (rel_cut_exclusive r r' _ _ _ _ (WF_cut _ WX) (WF_cut _ WY) A B).
Qed.

(* what the NO_INTERSECT relations and the lower/upper-bound comparisons mean for members *)
Lemma below_mem X Y : below cmp X Y -> forall v w, mem cmp v X -> mem cmp w Y -> cmp v w = Lt.
Proof.
  intros B v w Mv Mw. apply below_cut in B. apply mem_cut in Mv, Mw.
  destruct Mv as [_ Mv], Mw as [Mw _]. rewrite <- cmpc_pt. ord.
Qed.

Lemma cmp_value_spec X v : WF cmp X ->
  match itv_cmp_value cmp X v with
  | Eq => mem cmp v X
  | Gt => forall w, mem cmp w X -> cmp v w = Lt
  | Lt => forall w, mem cmp w X -> cmp w v = Lt
  end.
Proof.
  intro WX. pose proof (cmpval_cut X v WX) as C. destruct (itv_cmp_value cmp X v).
  - apply mem_cut. exact C.
  - intros w Mw. apply mem_cut in Mw. destruct Mw. rewrite <- cmpc_pt. ord.
  - intros w Mw. apply mem_cut in Mw. destruct Mw. rewrite <- cmpc_pt. ord.
Qed.

(* ------------------------------------------------------------------ is_empty / is_point / to_interval *)
Lemma is_empty_spec s : fs_is_empty s = true -> forall v, ~ mem_set cmp v s.
Proof. destruct s; [|discriminate]. intros _ v (X & [] & _). Qed.

Lemma is_empty_iff_nil (s : list (itv T)) : fs_is_empty s = true <-> s = [].
Proof. destruct s; cbn; split; congruence. Qed.

Lemma WF_inhabited X : dense cmp -> WF cmp X -> exists v, mem cmp v X.
Proof.
  intros Dn WX. unfold WF in WX. unfold mem, get_ub, lt, le. destruct (ipt X) eqn:Ep.
  - destruct WX as (Oa & Ob & _). exists (ia X). rewrite Oa, Ob, (to_refl TO). split; discriminate.
  - destruct (Dn _ _ WX) as (z & Z1 & Z2). exists z. rewrite Z1, Z2.
    destruct (ia_open X), (ib_open X); split; congruence.
Qed.

Lemma is_empty_dense s : dense cmp -> NF cmp s -> (forall v, ~ mem_set cmp v s) -> fs_is_empty s = true.
Proof.
  intros Dn N E. destruct s as [|X t]; [reflexivity|]. exfalso.
  destruct (WF_inhabited X Dn (NF_head _ _ N)) as (v & Mv). apply (E v). exists X. split; [left; auto|exact Mv].
Qed.

Lemma is_point_spec s : NF cmp s -> fs_is_point s = true -> exists a, forall v, mem_set cmp v s <-> v = a.
Proof.
  intros N E. destruct s as [|X [|? ?]]; try discriminate. cbn in E.
  pose proof (NF_head _ _ N) as WX. unfold WF in WX. rewrite E in WX. destruct WX as (Oa & Ob & _).
  exists (ia X). intro v. split.
  - intros (Z & [<-|[]] & A & B). unfold get_ub, lt, le in *. rewrite Oa in A. rewrite Ob, E in B. ord.
  - intros ->. exists X. split; [left; auto|]. unfold mem, get_ub, lt, le. rewrite E, Oa, Ob, (to_refl TO). split; discriminate.
Qed.

Lemma NF_hull X t : NF cmp (X :: t) ->
  forall Z, In Z (X :: t) -> cmpc (L X) (L Z) <> Gt /\ cmpc (H Z) (H (last (X :: t) X)) <> Gt.
Proof.
  revert X. induction t as [|Y t IH]; intros X N Z HZ.
  - destruct HZ as [<-|[]]. cbn. split; apply (to_le_refl TOc).
  - pose proof (NF_head _ _ N) as WX. pose proof (WF_cut _ WX) as W1.
    destruct N as (_ & S & N). apply sep_cut in S.
    pose proof (WF_cut _ (NF_head _ _ N)) as W2.
    change (last (X :: Y :: t) X) with (last (Y :: t) X).
    assert (EL : last (Y :: t) X = last (Y :: t) Y) by (apply last_nondefault; discriminate).
    rewrite EL.
    pose proof (IH Y N) as K.
    destruct HZ as [<-|HZ].
    + split; [apply (to_le_refl TOc)|]. destruct (K Y (or_introl eq_refl)) as [_ K2]. ord.
    + destruct (K Z HZ) as [K1 K2]. split; [ord|exact K2].
Qed.

Lemma to_interval_spec s : NF cmp s -> s <> [] ->
  exists J, fs_to_interval cmp s = Some J /\ WF cmp J /\ (forall v, mem_set cmp v s -> mem cmp v J) /\
            exists X, In X s /\ lb_eq J X.
Proof.
  intros N Hne. destruct s as [|X t]; [congruence|]. clear Hne.
  unfold fs_to_interval. set (Z := last (X :: t) X).
  assert (HZ : In Z (X :: t)).
  { unfold Z. clear. revert X. induction t as [|Y t IH]; intro X; [left; reflexivity|].
    change (last (X :: Y :: t) X) with (last (Y :: t) X).
    assert (EL : last (Y :: t) X = last (Y :: t) Y) by (apply last_nondefault; discriminate).
    rewrite EL. right. apply IH. }
  pose proof (NF_hull X t N) as K.
  pose proof (NF_Forall _ N) as F. rewrite Forall_forall in F.
  pose proof (WF_cut _ (F Z HZ)) as WZ. pose proof (WF_cut _ (F X (or_introl eq_refl))) as W1.
  destruct (K Z HZ) as [K1 _].
  assert (C : cmp (ia X) (get_ub Z) <> Gt).
  { intro G. assert (cmpc (L X) (H Z) = Lt) by ord. unfold cmpc, L, H in H0; cbn [fst snd] in H0. rewrite G in H0. discriminate. }
  unfold itv_construct. destruct (cmp (ia X) (get_ub Z)) eqn:E; [|clear C|congruence].
  - (* a single point *)
    apply (to_eq1 TO) in E.
    assert (CL : cmpc (L X) (H Z) = Lt) by ord.
    unfold cmpc, L, H in CL; cbn [fst snd] in CL. rewrite E, (to_refl TO) in CL.
    destruct (ia_open X) eqn:Oa, (ib_open Z) eqn:Ob; cbn in CL; try discriminate. cbn.
    eexists. split; [reflexivity|]. split; [cbn; auto|]. split.
    + intros v (Y & HY & Mv). apply mem_cut in Mv. destruct Mv as [M1 M2].
      destruct (K Y HY) as [K2 K3]. apply mem_cut. unfold L, H, get_ub; cbn.
      fold Z in K3. split.
      * assert (cmpc (L X) (pt v) = Lt) by ord. unfold L in H0. rewrite Oa in H0. exact H0.
      * assert (cmpc (pt v) (H Z) = Lt) by ord. unfold H in H0. rewrite Ob, <- E in H0. exact H0.
    + exists X. split; [left; auto|]. unfold lb_eq; cbn. auto.
  - eexists. split; [reflexivity|]. split; [exact E|]. split.
    + intros v (Y & HY & Mv). apply mem_cut in Mv. destruct Mv as [M1 M2].
      destruct (K Y HY) as [K2 K3]. fold Z in K3. apply mem_cut.
      change (cmpc (L X) (pt v) = Lt /\ cmpc (pt v) (H Z) = Lt). split; ord.
    + exists X. split; [left; auto|]. unfold lb_eq; cbn. auto.
Qed.

(* interval_sort_for_union is a total order on well-formed intervals: lower bound ascending, then upper bound
   descending; it answers 0 only for identical intervals (so qsort has exactly one possible result) *)
Lemma sort_comparator X Y : WF cmp X -> WF cmp Y ->
  exists c, sort_for_union cmp X Y = Some c /\ (c <> Gt <-> union_le cmp X Y) /\ (c = Eq <-> X = Y) /\
            sort_for_union cmp Y X = Some (CompOpp c).
Proof.
  intros WX WY. exists (cmpk (key X) (key Y)).
  split; [apply sort_for_union_spec; auto|]. split; [|split].
  - unfold union_le. rewrite lb_lt_cut, lb_eq_cut, ub_eq_cut, ub_lt_cut. split.
    + intro K. destruct (lexle_cases X Y K) as [A|[A B]]; [left; exact A|]. right. split; [exact A|].
      destruct (to_ngt_cases TOc _ _ B) as [C|C]; [right; exact C | left; congruence].
    + intro K. apply lexle_intro. destruct K as [A|[A [B|B]]]; [left; exact A| |].
      * right. split; [exact A|]. rewrite B. apply (to_le_refl TOc).
      * right. split; [exact A|]. congruence.
  - split.
    + intro E. apply (to_eq1 TOk) in E. apply key_inj; auto.
    + intros ->. apply (to_refl TOk).
  - rewrite (sort_for_union_spec Y X WY WX). f_equal. apply (to_antisym _ TOk).
Qed.

Lemma sort_comparator_trans X Y Z : WF cmp X -> WF cmp Y -> WF cmp Z ->
  sort_for_union cmp X Y = Some Lt -> sort_for_union cmp Y Z = Some Lt -> sort_for_union cmp X Z = Some Lt.
Proof.
  intros WX WY WZ. rewrite !sort_for_union_spec by assumption. intros A B. f_equal.
  injection A as A'. injection B as B'. ord.
Qed.

(* ------------------------------------------------------------------ completeness of is_point / is_full on a dense carrier *)
Lemma L_pt_le X v : cmpc (L X) (pt v) = Lt -> cmp (ia X) v <> Gt.
Proof.
  unfold cmpc, L, pt; cbn [fst snd]. destruct (cmp (ia X) v); try discriminate; intros; discriminate.
Qed.
Lemma pt_H_le X v : cmpc (pt v) (H X) = Lt -> cmp v (get_ub X) <> Gt.
Proof.
  unfold cmpc, H, pt; cbn [fst snd]. destruct (cmp v (get_ub X)); try discriminate; intros; discriminate.
Qed.
Lemma WF_ia_le_ub X : WF cmp X -> cmp (ia X) (get_ub X) <> Gt.
Proof.
  unfold WF, get_ub, lt. destruct (ipt X).
  - intros _. apply (to_le_refl TO).
  - intro E. rewrite E. discriminate.
Qed.
Lemma strictly_inside X z : ipt X = false -> cmp (ia X) z = Lt -> cmp z (ib X) = Lt -> mem cmp z X.
Proof.
  intros Ep A B. unfold mem, get_ub, lt, le. rewrite Ep, A, B. destruct (ia_open X), (ib_open X); split; congruence.
Qed.

Lemma is_point_dense s : dense cmp -> NF cmp s ->
  (exists a, forall v, mem_set cmp v s <-> v = a) -> fs_is_point s = true.
Proof.
  intros Dn N (a & Ha).
  destruct s as [|X t].
  { exfalso. assert (K : mem_set cmp a []) by (apply Ha; reflexivity). destruct K as (Z & [] & _). }
  pose proof (NF_head _ _ N) as WX.
  assert (Ep : ipt X = true).
  { destruct (ipt X) eqn:Ep; [reflexivity|exfalso].
    unfold WF in WX. rewrite Ep in WX. unfold lt in WX.
    destruct (Dn _ _ WX) as (z1 & A1 & B1). destruct (Dn _ _ B1) as (z2 & A2 & B2).
    assert (M1 : mem_set cmp z1 (X :: t)) by (exists X; split; [left; auto|apply strictly_inside; auto]).
    assert (M2 : mem_set cmp z2 (X :: t)).
    { exists X; split; [left; auto|apply strictly_inside; auto]. ord. }
    apply Ha in M1, M2. subst. ord. }
  destruct t as [|Y t']; [exact Ep|exfalso].
  pose proof (NF_head _ _ (NF_tail _ _ N)) as WY.
  destruct N as (_ & S & _). apply sep_cut in S.
  destruct (WF_inhabited Y Dn WY) as (w & Mw).
  assert (Mw' : mem_set cmp w (X :: Y :: t')) by (exists Y; split; [right; left; auto|exact Mw]).
  apply Ha in Mw'. subst w.
  assert (Mx : mem cmp (ia X) X).
  { unfold WF in WX. rewrite Ep in WX. destruct WX as (Oa & Ob & _).
    unfold mem, get_ub, lt, le. rewrite Ep, Oa, Ob, (to_refl TO). split; discriminate. }
  assert (Mx' : mem_set cmp (ia X) (X :: Y :: t')) by (exists X; split; [left; auto|exact Mx]).
  apply Ha in Mx'. rewrite Mx' in Mx.
  apply mem_cut in Mx, Mw. destruct Mx as [_ M1], Mw as [M2 _]. ord.
Qed.

Lemma is_full_dense minf pinf s : dense cmp -> bounds cmp minf pinf -> NF cmp s ->
  (forall v, finite cmp minf pinf v -> mem_set cmp v s) -> fs_is_full cmp minf pinf s = true.
Proof.
  intros Dn [Bmin Bmax Bne Bbelow Babove] N Hall.
  assert (FIN : forall y, y <> minf -> y <> pinf -> finite cmp minf pinf y).
  { intros y N1 N2. split; unfold lt.
    - destruct (to_ngt_cases TO _ _ (Bmin y)) as [K|K]; [exact K|congruence].
    - destruct (to_ngt_cases TO _ _ (Bmax y)) as [K|K]; [exact K|congruence]. }
  (* the set is not empty *)
  destruct (Bbelow pinf (fun E => Bne (eq_sym E))) as (y0 & Ny0 & Ly0).
  assert (F0 : finite cmp minf pinf y0) by (apply FIN; auto; intro E; subst; ord).
  destruct s as [|X t].
  { destruct (Hall y0 F0) as (Z & [] & _). }
  pose proof (NF_head _ _ N) as WX. pose proof (WF_cut _ WX) as W1.
  pose proof (NF_hull X t N) as HULL.
  pose proof (WF_ia_le_ub X WX) as LEX.
  (* (a) the first interval starts at -inf *)
  assert (Ea : ia X = minf).
  { destruct (to_total TO (ia X) minf) as [K|[K|K]]; [exfalso; pose proof (Bmin (ia X)); ord | exact K | exfalso].
    destruct (Bbelow (ia X)) as (y & Ny & Ly); [intro E; rewrite E in K; ord|].
    assert (Fy : finite cmp minf pinf y).
    { apply FIN; auto. intro E. subst y. pose proof (Bmax (ia X)). ord. }
    destruct (Hall y Fy) as (Z & HZ & Mz). apply mem_cut in Mz. destruct Mz as [M1 _].
    destruct (HULL Z HZ) as [K1 _].
    assert (C : cmpc (L X) (pt y) = Lt) by ord. apply L_pt_le in C. ord. }
  (* (b) there is no second interval *)
  assert (Et : t = []).
  { destruct t as [|Y t']; [reflexivity|exfalso].
    pose proof (NF_tail _ _ N) as Nt. pose proof (NF_head _ _ Nt) as WY. pose proof (WF_cut _ WY) as W2.
    pose proof (NF_hull Y t' Nt) as HULLY. pose proof (WF_ia_le_ub Y WY) as LEY.
    destruct N as (_ & S & _). pose proof S as S'. apply sep_cut in S'.
    assert (NOT : forall z, finite cmp minf pinf z -> cmpc (H X) (pt z) = Lt -> cmpc (pt z) (L Y) = Lt -> False).
    { intros z Fz A B. destruct (Hall z Fz) as (Z & [<-|HZ] & Mz); apply mem_cut in Mz; destruct Mz as [M1 M2].
      - ord.
      - destruct (HULLY Z HZ) as [K1 _]. ord. }
    destruct S as [S|(S & Ob & Oa)].
    - (* ub X < lb Y: a value strictly between *)
      destruct (Dn _ _ S) as (z & A & B).
      apply (NOT z).
      + apply FIN; intro E; subst z.
        * rewrite <- Ea in A. ord.
        * pose proof (Bmax (ia Y)). ord.
      + unfold cmpc, H, pt; cbn [fst snd]. unfold lt in A. rewrite A. reflexivity.
      + unfold cmpc, L, pt; cbn [fst snd]. unfold lt in B. rewrite B. reflexivity.
    - (* they meet in a value that belongs to neither *)
      assert (PX : ipt X = false).
      { destruct (ipt X) eqn:Ep; [|reflexivity]. unfold WF in WX. rewrite Ep in WX. destruct WX as (_ & K & _). congruence. }
      assert (PY : ipt Y = false).
      { destruct (ipt Y) eqn:Ep; [|reflexivity]. unfold WF in WY. rewrite Ep in WY. destruct WY as (K & _ & _). congruence. }
      apply (NOT (ia Y)).
      + apply FIN; intro E.
        * unfold WF in WX. rewrite PX in WX. unfold lt in WX. unfold get_ub in S. rewrite PX in S.
          rewrite S, E, Ea in WX. ord.
        * unfold WF in WY. rewrite PY in WY. unfold lt in WY. rewrite E in WY. pose proof (Bmax (ib Y)). ord.
      + unfold cmpc, H, pt; cbn [fst snd]. rewrite S, (to_refl TO), Ob. reflexivity.
      + unfold cmpc, L, pt; cbn [fst snd]. rewrite (to_refl TO), Oa. reflexivity. }
  subst t.
  (* (c) the interval ends at +inf *)
  assert (Eb : get_ub X = pinf).
  { destruct (to_total TO (get_ub X) pinf) as [K|[K|K]]; [exfalso | exact K | exfalso; pose proof (Bmax (get_ub X)); ord].
    destruct (Babove (get_ub X)) as (y & Ny & Ly); [intro E; rewrite E in K; ord|].
    assert (Fy : finite cmp minf pinf y).
    { apply FIN; auto. intro E. subst y. rewrite <- Ea in Ly. ord. }
    destruct (Hall y Fy) as (Z & [<-|[]] & Mz). apply mem_cut in Mz. destruct Mz as [_ M2].
    apply pt_H_le in M2. ord. }
  unfold fs_is_full, get_lb. rewrite Ea, Eb, !(to_refl TO). reflexivity.
Qed.

End Main.

(* ------------------------------------------------------------------ the rank instance *)
Lemma Z_total_order : total_order Z.compare.
Proof.
  constructor.
  - intros x y. apply Z.compare_eq_iff.
  - intros x y. apply Z.compare_antisym.
  - intros x y z. rewrite !Z.compare_lt_iff. lia.
Qed.

(* ------------------------------------------------------------------ integer queries on rational end points *)
Section IntOps.
Local Open Scope Z_scope.

Lemma floor_le n d z : 0 < d -> (z <= n / d <-> z * d <= n).
Proof.
  intro Hd. split; intro K.
  - pose proof (Z.mul_div_le n d Hd). nia.
  - apply Z.div_le_lower_bound; lia.
Qed.
Lemma ceil_le n d z : 0 < d -> (z_cdiv n d <= z <-> n <= z * d).
Proof.
  intro Hd. unfold z_cdiv. pose proof (floor_le (- n) d (- z) Hd). lia.
Qed.
Lemma div_1 n : n / 1 = n. Proof. apply Z.div_1_r. Qed.
Lemma cdiv_1 n : z_cdiv n 1 = n. Proof. unfold z_cdiv. rewrite Z.div_1_r. lia. Qed.

Lemma not_multiple n d z : 0 < d -> Z.gcd n d = 1 -> d <> 1 -> n <> z * d.
Proof.
  intros Hd G Hn E. subst n. rewrite Z.gcd_comm, Z.mul_comm, Z.gcd_mul_diag_l in G by lia. lia.
Qed.

Definition LBq (q : rat) (o : bool) : Z :=
  if q_is_integer q then fst q + (if o then 1 else 0) else q_ceiling q.
Definition UBq (q : rat) (o : bool) : Z :=
  if q_is_integer q then fst q - (if o then 1 else 0) else q_floor q.

Lemma lower_int q (o : bool) z : xq_ok (XQFin q) ->
  ((if o then lt xq_cmp (XQFin q) (zq z) else le xq_cmp (XQFin q) (zq z)) <-> LBq q o <= z).
Proof.
  destruct q as [n d]. cbn [xq_ok fst snd]. intros [Hd G].
  unfold lt, le, zq, xq_cmp, LBq, q_is_integer, q_ceiling; cbn [fst snd].
  rewrite Z.mul_1_r. destruct (d =? 1) eqn:E.
  - apply Z.eqb_eq in E. subst d. rewrite Z.mul_1_r. destruct o.
    + rewrite Z.compare_lt_iff. lia.
    + rewrite Z.compare_gt_iff. lia.
  - apply Z.eqb_neq in E. pose proof (not_multiple n d z Hd G E) as NM.
    rewrite (ceil_le n d z Hd). destruct o.
    + rewrite Z.compare_lt_iff. lia.
    + rewrite Z.compare_gt_iff. lia.
Qed.

Lemma upper_int q (o : bool) z : xq_ok (XQFin q) ->
  ((if o then lt xq_cmp (zq z) (XQFin q) else le xq_cmp (zq z) (XQFin q)) <-> z <= UBq q o).
Proof.
  destruct q as [n d]. cbn [xq_ok fst snd]. intros [Hd G].
  unfold lt, le, zq, xq_cmp, UBq, q_is_integer, q_floor; cbn [fst snd].
  rewrite Z.mul_1_r. destruct (d =? 1) eqn:E.
  - apply Z.eqb_eq in E. subst d. rewrite Z.mul_1_r. destruct o.
    + rewrite Z.compare_lt_iff. lia.
    + rewrite Z.compare_gt_iff. lia.
  - apply Z.eqb_neq in E. pose proof (not_multiple n d z Hd G E) as NM.
    rewrite (floor_le n d z Hd). destruct o.
    + rewrite Z.compare_lt_iff. lia.
    + rewrite Z.compare_gt_iff. lia.
Qed.

(* integers of a bounded non-point interval form the range LBq .. UBq *)
Lemma int_mem_finite a b (ao bo : bool) z : xq_ok (XQFin a) -> xq_ok (XQFin b) ->
  (int_mem z (mkItv (XQFin a) (XQFin b) ao bo false) <-> LBq a ao <= z <= UBq b bo).
Proof.
  intros Oa Ob. unfold int_mem, mem, get_ub; cbn [ia ib ia_open ib_open ipt].
  rewrite (lower_int a ao z Oa), (upper_int b bo z Ob). tauto.
Qed.

(* a < b leaves room: the smallest integer above a is at most one more than the largest integer below b *)
Lemma strict_gap a b : xq_ok (XQFin a) -> xq_ok (XQFin b) -> xq_cmp (XQFin a) (XQFin b) = Lt ->
  LBq a true <= UBq b true + 1.
Proof.
  intros Oa Ob Hlt.
  pose proof (lower_int a true (LBq a true - 1) Oa) as C1.
  pose proof (upper_int b true (UBq b true + 1) Ob) as F1.
  destruct a as [n d], b as [n' d']. cbn [xq_ok fst snd] in Oa, Ob. destruct Oa as [Hd G], Ob as [Hd' G'].
  set (x := LBq (n, d) true - 1) in *. set (y := UBq (n', d') true + 1) in *.
  unfold lt, zq, xq_cmp in C1, F1, Hlt; cbn [fst snd] in C1, F1, Hlt.
  rewrite Z.compare_lt_iff in C1, F1, Hlt. rewrite Z.mul_1_r in C1, F1.
  assert (C2 : x * d <= n) by lia. assert (F2 : n' <= y * d') by lia.
  assert (P1 : x * d * d' <= n * d') by (apply Z.mul_le_mono_nonneg_r; lia).
  assert (P2 : n' * d <= y * d' * d) by (apply Z.mul_le_mono_nonneg_r; lia).
  assert (P3 : 0 < d * d') by lia.
  assert (K : x < y).
  { apply (Z.mul_lt_mono_pos_r (d * d')); [exact P3|].
    replace (x * (d * d')) with (x * d * d') by ring. replace (y * (d * d')) with (y * d' * d) by ring. lia. }
  lia.
Qed.

Lemma LBq_closed a : LBq a false = LBq a true - (if q_is_integer a then 1 else 0).
Proof. unfold LBq. destruct (q_is_integer a); lia. Qed.
Lemma UBq_closed b : UBq b false = UBq b true + (if q_is_integer b then 1 else 0).
Proof. unfold UBq. destruct (q_is_integer b); lia. Qed.
Lemma LBq_true a : LBq a true = (if q_is_integer a then q_ceiling a + 1 else q_ceiling a).
Proof.
  unfold LBq, q_is_integer, q_ceiling. destruct a as [n d]; cbn [fst snd].
  destruct (d =? 1) eqn:E; auto. apply Z.eqb_eq in E. subst. rewrite cdiv_1. reflexivity.
Qed.
Lemma UBq_true b : UBq b true = (if q_is_integer b then q_floor b - 1 else q_floor b).
Proof.
  unfold UBq, q_is_integer, q_floor. destruct b as [n d]; cbn [fst snd].
  destruct (d =? 1) eqn:E; auto. apply Z.eqb_eq in E. subst. rewrite div_1. reflexivity.
Qed.

Lemma int_mem_minf_fin b (ao bo : bool) z : xq_ok (XQFin b) ->
  (int_mem z (mkItv XQMinf (XQFin b) ao bo false) <-> z <= UBq b bo).
Proof.
  intros Ob. unfold int_mem, mem, get_ub; cbn [ia ib ia_open ib_open ipt].
  rewrite (upper_int b bo z Ob). unfold lt, le, zq; cbn. destruct ao; split; intros; try tauto; split; auto; discriminate.
Qed.
Lemma int_mem_fin_pinf a (ao bo : bool) z : xq_ok (XQFin a) ->
  (int_mem z (mkItv (XQFin a) XQPinf ao bo false) <-> LBq a ao <= z).
Proof.
  intros Oa. unfold int_mem, mem, get_ub; cbn [ia ib ia_open ib_open ipt].
  rewrite (lower_int a ao z Oa). unfold lt, le, zq; cbn. destruct bo; split; intros; try tauto; split; auto; discriminate.
Qed.
Lemma int_mem_minf_pinf (ao bo : bool) z : int_mem z (mkItv XQMinf XQPinf ao bo false).
Proof. unfold int_mem, mem, get_ub, lt, le, zq; cbn. destruct ao, bo; split; congruence. Qed.
Lemma int_mem_point a b z : xq_ok (XQFin a) ->
  (int_mem z (mkItv (XQFin a) b false false true) <-> LBq a false <= z <= UBq a false).
Proof.
  intros Oa. unfold int_mem, mem, get_ub; cbn [ia ib ia_open ib_open ipt].
  rewrite (lower_int a false z Oa), (upper_int a false z Oa). tauto.
Qed.
Lemma point_int_range a : xq_ok (XQFin a) ->
  if q_is_integer a then LBq a false = fst a /\ UBq a false = fst a else UBq a false < LBq a false.
Proof.
  intros Oa. pose proof (lower_int a false) as L1. pose proof (upper_int a false) as U1.
  unfold LBq, UBq in *. destruct (q_is_integer a) eqn:E; [lia|].
  destruct a as [n d]. destruct Oa as [Hd G]. cbn [fst snd] in *.
  unfold q_is_integer in E; cbn [snd] in E. apply Z.eqb_neq in E.
  destruct (Z_lt_le_dec (q_floor (n, d)) (q_ceiling (n, d))) as [K|K]; [exact K|exfalso].
  set (z := q_ceiling (n, d)) in *.
  assert (A : le xq_cmp (XQFin (n, d)) (zq z)) by (apply (L1 z); [split; auto | lia]).
  assert (B : le xq_cmp (zq z) (XQFin (n, d))) by (apply (U1 z); [split; auto | lia]).
  unfold le, zq, xq_cmp in A, B; cbn [fst snd] in A, B. rewrite Z.compare_gt_iff in A, B.
  apply (not_multiple n d z Hd G E). lia.
Qed.

Theorem itv_contains_int_spec X : WFx X -> (itv_contains_int X = true <-> exists z, int_mem z X).
Proof.
  destruct X as [a b ao bo p]. unfold WFx, WF; cbn [ia ib ia_open ib_open ipt].
  intros (W & Oa & Ob & Fp). unfold itv_contains_int; cbn [ia ib ia_open ib_open ipt].
  destruct a as [|qa|]; cbn [xq_is_infinity].
  - (* a = -inf *)
    split; [intros _|reflexivity]. destruct p; [exfalso; apply Fp; reflexivity|].
    destruct b as [|qb|]; [discriminate W| |].
    + exists (UBq qb bo). apply int_mem_minf_fin; auto. lia.
    + exists 0. apply int_mem_minf_pinf.
  - cbn [xq_is_integer].
    destruct p.
    + (* point *)
      destruct W as (-> & -> & ->). pose proof (point_int_range qa Oa) as PR.
      destruct (q_is_integer qa).
      * split; [intros _|reflexivity]. exists (fst qa). apply int_mem_point; auto. lia.
      * split; [discriminate|]. intros (z & Hz). apply int_mem_point in Hz; auto. lia.
    + unfold lt in W.
      destruct (negb ao && q_is_integer qa) eqn:E1.
      { split; [intros _|reflexivity]. apply andb_prop in E1. destruct E1 as [E1 E2].
        apply negb_true_iff in E1. subst ao. exists (fst qa).
        destruct b as [|qb|]; [discriminate W| |].
        - apply int_mem_finite; auto. pose proof (strict_gap qa qb Oa Ob W) as SG.
          rewrite (LBq_closed qa), E2. unfold LBq in *. rewrite E2 in *.
          destruct bo; [lia|]. rewrite (UBq_closed qb). destruct (q_is_integer qb); lia.
        - apply int_mem_fin_pinf; auto. unfold LBq. rewrite E2. lia. }
      destruct b as [|qb|]; [discriminate W| |]; cbn [xq_is_infinity xq_is_integer].
      2:{ split; [intros _|reflexivity]. exists (LBq qa ao). apply int_mem_fin_pinf; auto. lia. }
      destruct (negb bo && q_is_integer qb) eqn:E2.
      { split; [intros _|reflexivity]. apply andb_prop in E2. destruct E2 as [E2 E3].
        apply negb_true_iff in E2. subst bo. exists (fst qb).
        apply int_mem_finite; auto. pose proof (strict_gap qa qb Oa Ob W) as SG.
        rewrite (UBq_closed qb), E3. unfold UBq in *. rewrite E3 in *.
        destruct ao; [lia|]. rewrite (LBq_closed qa). destruct (q_is_integer qa); lia. }
      (* the general case *)
      cbn [xq_ceiling xq_floor].
      assert (EL : LBq qa ao = (if q_is_integer qa then q_ceiling qa + 1 else q_ceiling qa)).
      { rewrite <- LBq_true. destruct ao; [reflexivity|]. rewrite LBq_closed. cbn in E1. rewrite E1. lia. }
      assert (EU : UBq qb bo = (if q_is_integer qb then q_floor qb - 1 else q_floor qb)).
      { rewrite <- UBq_true. destruct bo; [reflexivity|]. rewrite UBq_closed. cbn in E2. rewrite E2. lia. }
      rewrite Z.geb_le. rewrite <- EL, <- EU. split.
      * intro K. exists (LBq qa ao). apply int_mem_finite; auto. lia.
      * intros (z & Hz). apply int_mem_finite in Hz; auto. lia.
  - (* a = +inf: not well-formed *)
    destruct p; [exfalso; apply Fp; reflexivity|]. unfold lt in W. destruct b; discriminate W.
Qed.

Theorem itv_count_int_spec X : WFx X ->
  0 <= itv_count_int X <= LONG_MAX /\
  (itv_count_int X < LONG_MAX -> exists lo, forall z, int_mem z X <-> lo <= z < lo + itv_count_int X) /\
  (itv_count_int X = LONG_MAX -> exists lo, forall z, lo <= z < lo + LONG_MAX -> int_mem z X).
Proof.
  destruct X as [a b ao bo p]. unfold WFx, WF; cbn [ia ib ia_open ib_open ipt].
  intros (W & Oa & Ob & Fp). unfold itv_count_int; cbn [ia ib ia_open ib_open ipt].
  assert (LM : LONG_MAX = 9223372036854775807) by reflexivity.
  destruct a as [|qa|]; cbn [xq_is_infinity].
  - (* a = -inf *)
    destruct p; [exfalso; apply Fp; reflexivity|].
    split; [lia|]. split; [lia|]. intros _.
    destruct b as [|qb|]; [discriminate W| |].
    + exists (UBq qb bo - LONG_MAX). intros z Hz. apply int_mem_minf_fin; auto. lia.
    + exists 0. intros z _. apply int_mem_minf_pinf.
  - cbn [xq_is_integer].
    destruct p.
    + destruct W as (-> & -> & ->). pose proof (point_int_range qa Oa) as PR.
      destruct (q_is_integer qa).
      * split; [lia|]. split; [|lia]. intros _. exists (fst qa). intro z. rewrite int_mem_point by auto. lia.
      * split; [lia|]. split; [|lia]. intros _. exists 0. intro z. rewrite int_mem_point by auto. lia.
    + unfold lt in W.
      destruct b as [|qb|]; [discriminate W| |]; cbn [xq_is_infinity xq_is_integer xq_ceiling xq_floor].
      2:{ split; [lia|]. split; [lia|]. intros _. exists (LBq qa ao). intros z Hz. apply int_mem_fin_pinf; auto. lia. }
      pose proof (strict_gap qa qb Oa Ob W) as SG.
      rewrite <- LBq_true, <- UBq_true.
      set (m := LBq qa true) in *. set (u := UBq qb true) in *.
      set (ca := negb ao && q_is_integer qa). set (cb := negb bo && q_is_integer qb).
      assert (EL : LBq qa ao = m - (if ca then 1 else 0)).
      { unfold ca, m. destruct ao; cbn [negb andb]; [lia|]. rewrite LBq_closed. reflexivity. }
      assert (EU : UBq qb bo = u + (if cb then 1 else 0)).
      { unfold cb, u. destruct bo; cbn [negb andb]; [lia|]. rewrite UBq_closed. reflexivity. }
      assert (MEM : forall z, int_mem z (mkItv (XQFin qa) (XQFin qb) ao bo false) <->
                              m - (if ca then 1 else 0) <= z <= u + (if cb then 1 else 0)).
      { intro z. rewrite int_mem_finite by auto. rewrite EL, EU. tauto. }
      unfold fits_int. assert (LMn : LONG_MIN = -9223372036854775808) by reflexivity.
      destruct (0 <=? u - m) eqn:E0; [apply Z.leb_le in E0 | apply Z.leb_gt in E0].
      * destruct ((LONG_MIN <=? u - m) && (u - m <=? LONG_MAX)) eqn:E1.
        -- apply andb_prop in E1. destruct E1 as [_ E1]. apply Z.leb_le in E1.
           destruct (u - m >=? LONG_MAX - ((if ca then 1 else 0) + (if cb then 1 else 0))) eqn:E2;
             [apply Z.geb_le in E2 | rewrite Z.geb_leb in E2; apply Z.leb_gt in E2].
           ++ split; [lia|]. split; [lia|]. intros _. exists (m - (if ca then 1 else 0)). intros z Hz. apply MEM.
              destruct ca, cb; lia.
           ++ split; [destruct ca, cb; lia|]. split.
              ** intros _. exists (m - (if ca then 1 else 0)). intro z. rewrite MEM. destruct ca, cb; lia.
              ** intro Heq. exists (m - (if ca then 1 else 0)). intros z Hz. apply MEM. destruct ca, cb; lia.
        -- apply andb_false_iff in E1. destruct E1 as [E1|E1]; [apply Z.leb_gt in E1; lia|]. apply Z.leb_gt in E1.
           split; [lia|]. split; [lia|]. intros _. exists (m - (if ca then 1 else 0)). intros z Hz. apply MEM.
           destruct ca, cb; lia.
      * split; [destruct ca, cb; lia|]. split; [|destruct ca, cb; lia]. intros _.
        exists (m - (if ca then 1 else 0)). intro z. rewrite MEM. destruct ca, cb; lia.
  - destruct p; [exfalso; apply Fp; reflexivity|]. unfold lt in W. destruct b; discriminate W.
Qed.

Lemma xs_contains_int_spec s : Forall WFx s -> (xs_contains_int s = true <-> exists z, int_mem_set z s).
Proof.
  induction s as [|X t IH]; intro F.
  - cbn. split; [discriminate|]. intros (z & Y & [] & _).
  - inversion F as [|? ? WX Ft]; subst. cbn [xs_contains_int].
    destruct (itv_contains_int X) eqn:E.
    + split; [intros _|reflexivity]. apply (itv_contains_int_spec X WX) in E. destruct E as (z & Hz).
      exists z, X. split; [left; auto|exact Hz].
    + rewrite (IH Ft). split.
      * intros (z & Y & HY & Hz). exists z, Y. split; [right; auto|exact Hz].
      * intros (z & Y & [<-|HY] & Hz).
        -- exfalso. assert (itv_contains_int X = true) by (apply itv_contains_int_spec; eauto). congruence.
        -- exists z, Y. split; auto.
Qed.

(* lp_interval_contains = membership; only the antisymmetry of the comparison is needed *)
Lemma itv_contains_mem {T : Type} (cmp : T -> T -> comparison) (X : itv T) v :
  (forall x y, cmp y x = CompOpp (cmp x y)) ->
  (ipt X = true -> ia_open X = false /\ ib_open X = false) ->
  (itv_contains cmp X v = true <-> mem cmp v X).
Proof.
  intros AS WP. unfold itv_contains, itv_cmp_value, mem, get_ub, lt, le.
  destruct (ipt X) eqn:Ep.
  - destruct (WP eq_refl) as [-> ->]. rewrite (AS (ia X) v).
    destruct (cmp (ia X) v); cbn; split; intros K; try discriminate; try reflexivity;
      try (split; discriminate); try (destruct K; congruence).
  - destruct (ia_open X), (ib_open X); destruct (cmp (ia X) v) eqn:E1; destruct (cmp v (ib X)) eqn:E2; cbn;
      split; intros K; try discriminate; try reflexivity; try (destruct K; congruence); try (split; congruence).
Qed.

Lemma xs_mem_spec s v : Forall WFx s -> (xs_mem s v = true <-> mem_set xq_cmp v s).
Proof.
  intro F. unfold xs_mem, mem_set. rewrite existsb_exists. rewrite Forall_forall in F.
  assert (AS : forall x y, xq_cmp y x = CompOpp (xq_cmp x y)).
  { intros [|[n d]|] [|[n' d']|]; cbn; try reflexivity. apply Z.compare_antisym. }
  split; intros (X & HX & K); exists X; split; auto.
  - apply (itv_contains_mem xq_cmp X v AS); auto. destruct (F X HX) as (W & _). unfold WF in W. intro Ep. rewrite Ep in W. tauto.
  - apply (itv_contains_mem xq_cmp X v AS); auto. destruct (F X HX) as (W & _). unfold WF in W. intro Ep. rewrite Ep in W. tauto.
Qed.

(* the checker run on lp_feasibility_set_pick_value's answer accepts exactly the values that belong to the set
   and are integers whenever the set contains an integer *)
Theorem xs_pick_ok_spec s v : Forall WFx s ->
  (xs_pick_ok s v = true <->
   mem_set xq_cmp v s /\ ((exists z, int_mem_set z s) -> xq_is_integer v = true)).
Proof.
  intro F. unfold xs_pick_ok. rewrite andb_true_iff, (xs_mem_spec s v F).
  pose proof (xs_contains_int_spec s F) as CI. destruct (xs_contains_int s).
  - split; intros [A B]; split; auto. apply B. apply CI. reflexivity.
  - split; intros [A B]; split; auto. intro K. apply CI in K. discriminate.
Qed.

Lemma xq_is_integer_zq v : xq_ok v -> (xq_is_integer v = true <-> exists z, v = zq z).
Proof.
  destruct v as [|[n d]|]; cbn; intro Ok.
  - split; [discriminate|]. intros (z & E). discriminate.
  - unfold q_is_integer, zq; cbn. rewrite Z.eqb_eq. split.
    + intros ->. exists n. reflexivity.
    + intros (z & E). inversion E. reflexivity.
  - split; [discriminate|]. intros (z & E). discriminate.
Qed.

(* set level: the running sums of lp_feasibility_set_count_int / _is_point_int *)

Lemma sum_counts_nonneg s : Forall WFx s -> 0 <= sum_counts s.
Proof.
  induction s as [|X t IH]; intro F; cbn [sum_counts fold_right]; [lia|]. inversion F as [|? ? WX Ft]; subst.
  pose proof (itv_count_int_spec X WX) as (R & _). specialize (IH Ft). unfold sum_counts in IH. lia.
Qed.

Lemma xs_count_int_from_spec s : Forall WFx s -> forall cnt, 0 <= cnt <= LONG_MAX ->
  cnt <= xs_count_int_from cnt s <= LONG_MAX /\
  (xs_count_int_from cnt s < LONG_MAX -> xs_count_int_from cnt s = cnt + sum_counts s) /\
  (xs_count_int_from cnt s = LONG_MAX -> LONG_MAX <= cnt + sum_counts s).
Proof.
  induction s as [|X t IH]; intros F cnt Hc; cbn [xs_count_int_from sum_counts fold_right].
  - lia.
  - inversion F as [|? ? WX Ft]; subst. pose proof (itv_count_int_spec X WX) as (R & _).
    pose proof (sum_counts_nonneg t Ft) as SN. fold (sum_counts t).
    destruct (itv_count_int X >=? LONG_MAX - cnt) eqn:E; [apply Z.geb_le in E | rewrite Z.geb_leb in E; apply Z.leb_gt in E].
    + lia.
    + destruct (IH Ft (cnt + itv_count_int X)) as (A & B & C); [lia|]. lia.
Qed.

Theorem xs_count_int_sum s : Forall WFx s ->
  0 <= xs_count_int s <= LONG_MAX /\
  (xs_count_int s < LONG_MAX -> xs_count_int s = sum_counts s) /\
  (xs_count_int s = LONG_MAX -> LONG_MAX <= sum_counts s).
Proof.
  intro F. unfold xs_count_int. assert (LM : LONG_MAX = 9223372036854775807) by reflexivity.
  destruct (xs_count_int_from_spec s F 0) as (A & B & C); [lia|]. lia.
Qed.

Lemma xs_is_point_int_from_spec s : Forall WFx s -> forall cnt, 0 <= cnt ->
  (xs_is_point_int_from cnt s = true <-> cnt + sum_counts s = 1).
Proof.
  induction s as [|X t IH]; intros F cnt Hc; cbn [xs_is_point_int_from sum_counts fold_right].
  - rewrite Z.eqb_eq. lia.
  - inversion F as [|? ? WX Ft]; subst. pose proof (itv_count_int_spec X WX) as (R & _).
    pose proof (sum_counts_nonneg t Ft) as SN. fold (sum_counts t).
    destruct ((1 <? itv_count_int X) || (1 <? itv_count_int X + cnt)) eqn:E.
    + apply orb_prop in E. split; [discriminate|]. destruct E as [E|E]; apply Z.ltb_lt in E; lia.
    + apply orb_false_iff in E. destruct E as [E1 E2]. rewrite (IH Ft (cnt + itv_count_int X)) by lia. lia.
Qed.

Theorem xs_is_point_int_sum s : Forall WFx s -> (xs_is_point_int s = true <-> sum_counts s = 1).
Proof. intro F. unfold xs_is_point_int. rewrite (xs_is_point_int_from_spec s F 0) by lia. lia. Qed.

Lemma rk_pick_ok_spec s v : NF Z.compare s -> (rk_pick_ok s v = true <-> mem_set Z.compare v s).
Proof.
  intro N. unfold rk_pick_ok, rk_contains.
  destruct (fs_contains_spec Z_total_order s v N) as (b & -> & Hb). destruct b; split; intro K; auto; try discriminate.
  - apply Hb. reflexivity.
  - apply Hb in K. discriminate.
Qed.

(* the integer queries depend on the end points only through (is_infinity, is_integer, floor, ceiling) *)
Lemma itv_contains_int_epi X : itv_contains_int X = ei_contains_int (epi_itv X).
Proof.
  destruct X as [a b ao bo p]. unfold itv_contains_int, ei_contains_int, epi_itv; cbn [ia ib ia_open ib_open ipt].
  destruct a as [|qa|], b as [|qb|]; reflexivity.
Qed.
Lemma itv_count_int_epi X : itv_count_int X = ei_count_int (epi_itv X).
Proof.
  destruct X as [a b ao bo p]. unfold itv_count_int, ei_count_int, epi_itv; cbn [ia ib ia_open ib_open ipt].
  destruct a as [|qa|], b as [|qb|]; reflexivity.
Qed.
Lemma xs_int_queries_epi s :
  xs_contains_int s = es_contains_int (map epi_itv s) /\
  xs_count_int s = es_count_int (map epi_itv s) /\
  xs_is_point_int s = es_is_point_int (map epi_itv s).
Proof.
  split; [|split].
  - induction s as [|X t IH]; [reflexivity|]. cbn [map xs_contains_int es_contains_int].
    rewrite itv_contains_int_epi, IH. reflexivity.
  - unfold xs_count_int, es_count_int. generalize 0. induction s as [|X t IH]; intro c; [reflexivity|].
    cbn [map xs_count_int_from es_count_int_from]. rewrite itv_count_int_epi, IH. reflexivity.
  - unfold xs_is_point_int, es_is_point_int. generalize 0. induction s as [|X t IH]; intro c; [reflexivity|].
    cbn [map xs_is_point_int_from es_is_point_int_from]. rewrite itv_count_int_epi, IH. reflexivity.
Qed.

(* ------------------------------------------------------------------ set level: the count is a cardinality *)
Lemma cross_lt_le a b c da db dc : 0 < da -> 0 < db -> 0 < dc ->
  a * db < b * da -> b * dc <= c * db -> a * dc < c * da.
Proof.
  intros Ha Hb Hc H1 H2.
  assert (P1 : a * db * dc < b * da * dc) by (apply Z.mul_lt_mono_pos_r; lia).
  assert (P2 : b * dc * da <= c * db * da) by (apply Z.mul_le_mono_nonneg_r; lia).
  apply (Z.mul_lt_mono_pos_r db); [lia|].
  replace (a * dc * db) with (a * db * dc) by ring. replace (c * da * db) with (c * db * da) by ring.
  replace (b * da * dc) with (b * dc * da) in P1 by ring. lia.
Qed.
Lemma cross_le_lt a b c da db dc : 0 < da -> 0 < db -> 0 < dc ->
  a * db <= b * da -> b * dc < c * db -> a * dc < c * da.
Proof.
  intros Ha Hb Hc H1 H2.
  assert (P1 : a * db * dc <= b * da * dc) by (apply Z.mul_le_mono_nonneg_r; lia).
  assert (P2 : b * dc * da < c * db * da) by (apply Z.mul_lt_mono_pos_r; lia).
  apply (Z.mul_lt_mono_pos_r db); [lia|].
  replace (a * dc * db) with (a * db * dc) by ring. replace (c * da * db) with (c * db * da) by ring.
  replace (b * da * dc) with (b * dc * da) in P1 by ring. lia.
Qed.

Definition xq_pos (x : xq) : Prop := match x with XQFin q => 0 < snd q | _ => True end.
Lemma xq_ok_pos x : xq_ok x -> xq_pos x.
Proof. destruct x as [|q|]; cbn; tauto. Qed.
Lemma zq_pos z : xq_pos (zq z).
Proof. cbn. lia. Qed.
Lemma xq_cmp_refl x : xq_cmp x x = Eq.
Proof. destruct x as [|[n d]|]; cbn; auto. apply Z.compare_refl. Qed.

Lemma xq_lt_le_trans x y z : xq_pos x -> xq_pos y -> xq_pos z ->
  xq_cmp x y = Lt -> xq_cmp y z <> Gt -> xq_cmp x z = Lt.
Proof.
  destruct x as [|[a da]|], y as [|[b db]|], z as [|[c dc]|]; cbn; intros Px Py Pz H1 H2;
    try reflexivity; try discriminate; try congruence.
  rewrite Z.compare_lt_iff in *. rewrite Z.compare_gt_iff in H2. apply (cross_lt_le a b c da db dc); auto; lia.
Qed.
Lemma xq_le_lt_trans x y z : xq_pos x -> xq_pos y -> xq_pos z ->
  xq_cmp x y <> Gt -> xq_cmp y z = Lt -> xq_cmp x z = Lt.
Proof.
  destruct x as [|[a da]|], y as [|[b db]|], z as [|[c dc]|]; cbn; intros Px Py Pz H1 H2;
    try reflexivity; try discriminate; try congruence.
  rewrite Z.compare_lt_iff in *. rewrite Z.compare_gt_iff in H1. apply (cross_le_lt a b c da db dc); auto; lia.
Qed.

(* X lies to the left of Y (no common value) *)
Definition xbelow (X Y : itv xq) : Prop :=
  xq_cmp (get_ub X) (ia Y) = Lt \/ (xq_cmp (get_ub X) (ia Y) = Eq /\ ib_open X = true /\ ia_open Y = true).

Lemma WFx_ub_ok X : WFx X -> xq_pos (ia X) /\ xq_pos (get_ub X) /\ xq_cmp (ia X) (get_ub X) <> Gt.
Proof.
  intros (W & Oa & Ob & _). unfold get_ub, WF, lt in *. destruct (ipt X).
  - repeat split; auto using xq_ok_pos. rewrite xq_cmp_refl. discriminate.
  - repeat split; auto using xq_ok_pos. rewrite W. discriminate.
Qed.

Lemma NF_xbelow : forall t X, NF xq_cmp (X :: t) -> Forall WFx (X :: t) -> forall Y, In Y t -> xbelow X Y.
Proof.
  induction t as [|X1 t' IH]; intros X N F Y HY; [destruct HY|].
  inversion F as [|? ? WX F1]; subst. inversion F1 as [|? ? WX1 F2]; subst.
  destruct N as (_ & S & N1).
  assert (B1 : xbelow X X1).
  { destruct S as [S|(S & O1 & O2)]; [left; exact S|]. right. rewrite S, xq_cmp_refl. auto. }
  destruct HY as [<-|HY]; [exact B1|].
  pose proof (IH X1 N1 F1 Y HY) as B2.
  destruct (WFx_ub_ok X WX) as (_ & PuX & _). destruct (WFx_ub_ok X1 WX1) as (PaX1 & PuX1 & LE1).
  assert (PY : xq_pos (ia Y)).
  { rewrite Forall_forall in F2. destruct (F2 Y HY) as (_ & Oa & _). apply xq_ok_pos; auto. }
  left.
  (* ub X < ub X1 *)
  assert (L1 : xq_cmp (get_ub X) (get_ub X1) = Lt).
  { destruct B1 as [B1|(B1 & _ & O2)].
    - apply (xq_lt_le_trans (get_ub X) (ia X1) (get_ub X1)); auto.
    - (* X1 is open at its lower end, hence not a point: ia X1 < ub X1 *)
      destruct WX1 as (W1 & _). unfold WF, lt in W1. unfold get_ub in *. destruct (ipt X1).
      + destruct W1 as (K & _). congruence.
      + apply (xq_le_lt_trans (if ipt X then ia X else ib X) (ia X1) (ib X1)); auto. congruence. }
  apply (xq_lt_le_trans (get_ub X) (get_ub X1) (ia Y)); auto. destruct B2 as [B2|(B2 & _)]; congruence.
Qed.

Lemma xbelow_disjoint X Y z : WFx X -> WFx Y -> xbelow X Y -> int_mem z X -> int_mem z Y -> False.
Proof.
  intros WX WY B (_ & U) (Lo & _).
  destruct (WFx_ub_ok X WX) as (_ & PuX & _). destruct (WFx_ub_ok Y WY) as (PaY & _ & _).
  pose proof (zq_pos z) as Pz. unfold lt, le in *.
  assert (K : xq_cmp (zq z) (zq z) = Lt); [|rewrite xq_cmp_refl in K; discriminate].
  destruct B as [B|(B & O1 & O2)].
  - assert (A : xq_cmp (zq z) (ia Y) = Lt).
    { apply (xq_le_lt_trans (zq z) (get_ub X) (ia Y)); auto. destruct (ib_open X); congruence. }
    apply (xq_lt_le_trans (zq z) (ia Y) (zq z)); auto. destruct (ia_open Y); congruence.
  - rewrite O1 in U. rewrite O2 in Lo.
    assert (A : xq_cmp (zq z) (ia Y) = Lt) by (apply (xq_lt_le_trans (zq z) (get_ub X) (ia Y)); auto; congruence).
    apply (xq_lt_le_trans (zq z) (ia Y) (zq z)); auto. congruence.
Qed.

(* a block of consecutive integers *)
Definition zrange (lo : Z) (n : nat) : list Z := map (fun i => lo + Z.of_nat i) (seq 0 n).
Lemma zrange_In lo n z : In z (zrange lo n) <-> lo <= z < lo + Z.of_nat n.
Proof.
  unfold zrange. rewrite in_map_iff. split.
  - intros (i & <- & Hi). apply in_seq in Hi. lia.
  - intros H. exists (Z.to_nat (z - lo)). split; [lia|]. apply in_seq. lia.
Qed.
Lemma zrange_length lo n : length (zrange lo n) = n.
Proof. unfold zrange. rewrite map_length, seq_length. reflexivity. Qed.
Lemma zrange_NoDup lo n : NoDup (zrange lo n).
Proof.
  unfold zrange. apply FinFun.Injective_map_NoDup; [|apply seq_NoDup]. intros i j H. lia.
Qed.

Lemma NoDup_app_disjoint {A : Type} (l1 l2 : list A) :
  NoDup l1 -> NoDup l2 -> (forall x, In x l1 -> In x l2 -> False) -> NoDup (l1 ++ l2).
Proof.
  induction l1 as [|a l1 IH]; intros N1 N2 D; [exact N2|]. inversion N1; subst. cbn. constructor.
  - intro K. apply in_app_or in K. destruct K as [K|K]; [auto|]. apply (D a); [left; auto|exact K].
  - apply IH; auto. intros x H1 H2'. apply (D x); [right; auto|auto].
Qed.

Lemma In_firstn' {A : Type} (x : A) : forall n l, In x (firstn n l) -> In x l.
Proof.
  induction n as [|n IH]; intros l H; [destruct H|]. destruct l as [|a l]; [destruct H|].
  cbn in H. destruct H as [H|H]; [left; exact H|right; apply IH; exact H].
Qed.
Lemma NoDup_firstn' {A : Type} : forall n (l : list A), NoDup l -> NoDup (firstn n l).
Proof.
  induction n as [|n IH]; intros l N; [constructor|]. destruct l as [|a l]; [constructor|].
  inversion N as [|? ? Na Nl]; subst. cbn. constructor; [|apply IH; exact Nl].
  intro K. apply Na. eapply In_firstn'; eauto.
Qed.

(* exact enumeration when no interval saturates *)
Lemma count_enumeration : forall s, NF xq_cmp s -> Forall WFx s ->
  Forall (fun X => itv_count_int X < LONG_MAX) s ->
  exists l, NoDup l /\ (forall z, In z l <-> int_mem_set z s) /\ Z.of_nat (length l) = sum_counts s.
Proof.
  induction s as [|X t IH]; intros N F C.
  - exists []. split; [constructor|]. split; [|reflexivity]. intro z. split; [intros []|intros (Y & [] & _)].
  - inversion F as [|? ? WX Ft]; subst. inversion C as [|? ? CX Ct]; subst.
    destruct (IH (proj2 (proj2 N)) Ft Ct) as (l & Nl & Ml & Ll).
    destruct (itv_count_int_spec X WX) as (R & EX & _). destruct (EX CX) as (lo & Hlo).
    exists (zrange lo (Z.to_nat (itv_count_int X)) ++ l). split; [|split].
    + apply NoDup_app_disjoint; [apply zrange_NoDup|exact Nl|].
      intros z H1 H2'. apply zrange_In in H1. rewrite Z2Nat.id in H1 by lia. apply Hlo in H1.
      apply Ml in H2'. destruct H2' as (Y & HY & MY).
      rewrite Forall_forall in Ft.
      exact (xbelow_disjoint X Y z WX (Ft Y HY) (NF_xbelow t X N F Y HY) H1 MY).
    + intro z. rewrite in_app_iff, zrange_In, Z2Nat.id by lia. rewrite <- Hlo, Ml. unfold int_mem_set, mem_set. split.
      * intros [H|(Y & HY & MY)]; [exists X; split; [left; auto|exact H] | exists Y; split; [right; auto|exact MY]].
      * intros (Y & [<-|HY] & MY); [left; exact MY | right; exists Y; auto].
    + rewrite app_length, zrange_length, Nat2Z.inj_add, Z2Nat.id, Ll by lia. reflexivity.
Qed.

Lemma sum_counts_bound s : Forall WFx s -> Forall (fun X => itv_count_int X <= sum_counts s) s.
Proof.
  induction s as [|X t IH]; intro F; [constructor|]. inversion F as [|? ? WX Ft]; subst.
  pose proof (sum_counts_nonneg t Ft) as SN. pose proof (itv_count_int_spec X WX) as (R & _).
  cbn [sum_counts fold_right]. fold (sum_counts t). constructor; [lia|].
  specialize (IH Ft). rewrite Forall_forall in *. intros Y HY. specialize (IH Y HY). lia.
Qed.

(* lp_feasibility_set_count_int below LONG_MAX is the number of integers in the set *)
Theorem xs_count_int_card s : NF xq_cmp s -> Forall WFx s -> xs_count_int s < LONG_MAX ->
  exists l, NoDup l /\ (forall z, In z l <-> int_mem_set z s) /\ Z.of_nat (length l) = xs_count_int s.
Proof.
  intros N F C. destruct (xs_count_int_sum s F) as (_ & E & _). specialize (E C). rewrite E in *.
  apply count_enumeration; auto.
  pose proof (sum_counts_bound s F) as B. rewrite Forall_forall in *. intros X HX. specialize (B X HX). lia.
Qed.

(* LONG_MAX means: at least LONG_MAX integers in the set *)
Theorem xs_count_int_saturated s : NF xq_cmp s -> Forall WFx s -> xs_count_int s = LONG_MAX ->
  exists l, NoDup l /\ (forall z, In z l -> int_mem_set z s) /\ Z.of_nat (length l) = LONG_MAX.
Proof.
  intros N F C. destruct (xs_count_int_sum s F) as (_ & _ & E). specialize (E C).
  assert (LM : 0 <= LONG_MAX) by (unfold LONG_MAX; lia).
  destruct (Forall_Exists_dec (fun X => itv_count_int X < LONG_MAX) (fun X => Z_lt_dec (itv_count_int X) LONG_MAX) s) as [A|A].
  - destruct (count_enumeration s N F A) as (l & Nl & Ml & Ll).
    exists (firstn (Z.to_nat LONG_MAX) l). split; [|split].
    + apply NoDup_firstn'. exact Nl.
    + intros z Hz. apply Ml. eapply In_firstn'; eauto.
    + rewrite firstn_length. lia.
  - apply Exists_exists in A. destruct A as (X & HX & CX).
    rewrite Forall_forall in F. pose proof (F X HX) as WX.
    destruct (itv_count_int_spec X WX) as (R & _ & SAT).
    assert (EX : itv_count_int X = LONG_MAX) by lia.
    destruct (SAT EX) as (lo & Hlo).
    exists (zrange lo (Z.to_nat LONG_MAX)). split; [apply zrange_NoDup|]. split.
    + intros z Hz. apply zrange_In in Hz. rewrite Z2Nat.id in Hz by lia. exists X. split; [exact HX|apply Hlo; exact Hz].
    + rewrite zrange_length, Z2Nat.id by lia. reflexivity.
Qed.

(* an infinite end makes the count LONG_MAX *)
Lemma itv_count_int_infinite X : WFx X -> (ia X = XQMinf \/ ib X = XQPinf) -> itv_count_int X = LONG_MAX.
Proof.
  destruct X as [a b ao bo p]. unfold WFx, WF; cbn [ia ib ia_open ib_open ipt]. intros (W & _ & _ & Fp) [E|E]; subst.
  - reflexivity.
  - unfold itv_count_int; cbn [ia ib ia_open ib_open ipt]. destruct a as [|qa|]; [reflexivity| |reflexivity].
    cbn [xq_is_infinity]. destruct p; [|reflexivity]. destruct W as (_ & _ & K). discriminate K.
Qed.

Theorem xs_count_int_infinite s : Forall WFx s -> (exists X, In X s /\ (ia X = XQMinf \/ ib X = XQPinf)) ->
  xs_count_int s = LONG_MAX.
Proof.
  intros F (X & HX & E).
  assert (LM : LONG_MAX = 9223372036854775807) by reflexivity.
  destruct (xs_count_int_sum s F) as (R & EQ & _).
  destruct (Z_lt_dec (xs_count_int s) LONG_MAX) as [C|C]; [exfalso|lia].
  specialize (EQ C). pose proof (sum_counts_bound s F) as B. rewrite Forall_forall in *.
  specialize (B X HX). rewrite (itv_count_int_infinite X (F X HX) E) in B. lia.
Qed.

(* lp_feasibility_set_is_point_int: exactly one integer in the set *)
Theorem xs_is_point_int_card s : NF xq_cmp s -> Forall WFx s ->
  (xs_is_point_int s = true <-> exists z, int_mem_set z s /\ forall z', int_mem_set z' s -> z' = z).
Proof.
  intros N F. rewrite (xs_is_point_int_sum s F).
  assert (LM : LONG_MAX = 9223372036854775807) by reflexivity.
  pose proof (sum_counts_bound s F) as B.
  split.
  - intro E.
    assert (A : Forall (fun X => itv_count_int X < LONG_MAX) s).
    { rewrite Forall_forall in *. intros X HX. specialize (B X HX). lia. }
    destruct (count_enumeration s N F A) as (l & Nl & Ml & Ll). rewrite E in Ll.
    destruct l as [|z [|z2 l']]; cbn in Ll; try lia.
    exists z. split; [apply Ml; left; auto|]. intros z' Hz'. apply Ml in Hz'. destruct Hz' as [<-|[]]. reflexivity.
  - intros (z & Hz & U).
    destruct (Forall_Exists_dec (fun X => itv_count_int X < LONG_MAX) (fun X => Z_lt_dec (itv_count_int X) LONG_MAX) s) as [A|A].
    + destruct (count_enumeration s N F A) as (l & Nl & Ml & Ll). rewrite <- Ll.
      destruct l as [|a [|b l']].
      * exfalso. apply Ml in Hz. destruct Hz.
      * reflexivity.
      * exfalso. inversion Nl as [|? ? NA _]; subst. apply NA.
        assert (a = z) by (apply U; apply Ml; left; auto).
        assert (b = z) by (apply U; apply Ml; right; left; auto). subst. left. reflexivity.
    + exfalso. apply Exists_exists in A. destruct A as (X & HX & CX).
      rewrite Forall_forall in F. pose proof (F X HX) as WX.
      destruct (itv_count_int_spec X WX) as (R & _ & SAT).
      assert (EX : itv_count_int X = LONG_MAX) by lia.
      destruct (SAT EX) as (lo & Hlo).
      assert (M1 : int_mem_set lo s) by (exists X; split; auto; apply Hlo; lia).
      assert (M2 : int_mem_set (lo + 1) s) by (exists X; split; auto; apply Hlo; lia).
      apply U in M1, M2. lia.
Qed.

(* ------------------------------------------------------------------ the integer queries on views (any kind of end point) *)
Theorem ei_contains_int_core X : view_wf X -> (ei_contains_int X = true <-> exists z, ei_mem z X).
Proof.
  destruct X as [a b ao bo p]. unfold view_wf, ei_contains_int, ei_mem; cbn [ia ib ia_open ib_open ipt].
  destruct a as [|ba fa ca], b as [|bb fb cb], p;
    cbn [epi_wf epi_is_infinity epi_is_integer epi_floor epi_ceiling epi_low epi_up]; intros (Wa & Wb & W).
  - destruct W as (_ & _ & K); congruence.
  - split; [intros _; exists 0; tauto|reflexivity].
  - destruct W as (_ & _ & K); congruence.
  - split; [intros _|reflexivity]. exists (if bb then fb - (if bo then 1 else 0) else fb). split; [exact I|lia].
  - destruct W as (-> & -> & _). destruct ba; cbn; split; intro K; try reflexivity; try discriminate.
    + exists fa. lia. + destruct K as (z & K). lia.
  - destruct ao, ba; cbn; (split; [intros _|try reflexivity]);
      try (exists (fa + 1); lia); try (exists fa; lia); try (exists ca; lia).
  - destruct W as (-> & -> & _). destruct ba; cbn; split; intro K; try reflexivity; try discriminate.
    + exists fa. lia. + destruct K as (z & K). lia.
  - destruct ao, bo, ba, bb; cbn in *; rewrite ?Z.geb_le;
      (split; [intro K | intros (z & K); try reflexivity; lia]);
      try (exists (fa + 1); lia); try (exists fa; lia); try (exists ca; lia).
Qed.

Theorem ei_count_int_core X : view_wf X ->
  0 <= ei_count_int X <= LONG_MAX /\
  (ei_count_int X < LONG_MAX -> exists lo, forall z, ei_mem z X <-> lo <= z < lo + ei_count_int X) /\
  (ei_count_int X = LONG_MAX -> exists lo, forall z, lo <= z < lo + LONG_MAX -> ei_mem z X).
Proof.
  destruct X as [a b ao bo p]. unfold view_wf, ei_count_int, ei_mem, fits_int; cbn [ia ib ia_open ib_open ipt].
  assert (LM : LONG_MAX = 9223372036854775807) by reflexivity.
  assert (LMn : LONG_MIN = -9223372036854775808) by reflexivity.
  destruct a as [|ba fa ca], b as [|bb fb cb], p;
    cbn [epi_wf epi_is_infinity epi_is_integer epi_floor epi_ceiling epi_low epi_up]; intros (Wa & Wb & W).
  - destruct W as (_ & _ & K); congruence.
  - split; [lia|]. split; [lia|]. intros _. exists 0. tauto.
  - destruct W as (_ & _ & K); congruence.
  - split; [lia|]. split; [lia|]. intros _.
    exists ((if bb then fb - (if bo then 1 else 0) else fb) - LONG_MAX). intros z Hz. split; [exact I|lia].
  - destruct W as (-> & -> & _). destruct ba; cbn; (split; [lia|]); (split; [|lia]); intros _.
    + exists fa. intro z. lia. + exists 0. intro z. lia.
  - split; [lia|]. split; [lia|]. intros _.
    exists (if ba then fa + (if ao then 1 else 0) else ca). intros z Hz. split; [lia|exact I].
  - destruct W as (-> & -> & _). destruct ba; cbn; (split; [lia|]); (split; [|lia]); intros _.
    + exists fa. intro z. lia. + exists 0. intro z. lia.
  - destruct ao, bo, ba, bb; cbn [negb andb] in *;
      repeat match goal with
             | |- context [Z.leb ?x ?y] => destruct (Z.leb_spec x y)
             | |- context [Z.geb ?x ?y] => rewrite (Z.geb_leb x y)
             end; cbn [andb];
      (split; [lia|]); (split; [intro C; try lia | intro C; try lia]);
      try (exists (fa + 1); intro z; lia); try (exists fa; intro z; lia); try (exists ca; intro z; lia).
Qed.

End IntOps.
