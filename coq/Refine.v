(* C09 model: libpoly's algebraic numbers AS REPRESENTED (src/number/algebraic_number.c) and the lazy refinement
   that happens behind const interfaces, as a STATE MACHINE over a pool of numbers.
   Executable, stdlib only, no proofs here (RefineProofs.v).

   anum  = struct lp_algebraic_number_struct { f; I = (a, b); sgn_at_a; sgn_at_b }   (point when f = NULL)
   End points are dyadic rationals num / 2^exp.  They are NOT kept normalised here: every comparison below is by
   value and the correspondence compares end points by value (libpoly's own dyadic arithmetic is C17's subject).

   Each function mirrors one C function, case split by case split:
     an_narrow               the three-way split shared by refine_const_internal and refine_with_point
     an_refine_dir           lp_algebraic_number_refine_const_internal (returns the direction -1 / 0 / +1)
     an_refine_with_point    lp_algebraic_number_refine_with_point
     an_cmp_q                lp_algebraic_number_cmp_integer / _cmp_dyadic_rational / _cmp_rational (same code)
     an_cmp                  lp_algebraic_number_cmp (the gcd computed by lp_upolynomial_gcd is an argument)
     an_floor                lp_algebraic_number_floor
     an_remember/an_restore  algebraic_interval_remember / algebraic_interval_restore of coefficient.c, per value
   The state machine `step` runs them on a pool with destroyed slots and a stack of remembered intervals. *)
From Coq Require Import ZArith NArith List Bool.
From LP Require Import UPoly.
Import ListNotations.
Local Open Scope Z_scope.

(* ---------------------------------------------------------------- dyadic end points, by value *)
Definition dyq := (Z * N)%type.                      (* (a, n) denotes a / 2^n *)
Definition p2 (n : N) : Z := Z.pow 2 (Z.of_N n).
Definition dyq_cmp (x y : dyq) : Z := Z.sgn (fst x * p2 (snd y) - fst y * p2 (snd x)).
Definition dyq_lt (x y : dyq) : bool := dyq_cmp x y <? 0.
Definition dyq_le (x y : dyq) : bool := dyq_cmp x y <=? 0.
Definition dyq_eq (x y : dyq) : bool := dyq_cmp x y =? 0.
Definition dyq_max (x y : dyq) : dyq := if dyq_lt x y then y else x.
Definition dyq_min (x y : dyq) : dyq := if dyq_lt y x then y else x.
(* (x + y) / 2 with the exponent max(nx, ny) + 1 *)
Definition dyq_mid (x y : dyq) : dyq :=
  let k := N.max (snd x) (snd y) in
  (fst x * p2 (k - snd x) + fst y * p2 (k - snd y), (k + 1)%N).
Definition dyq_floor (x : dyq) : Z := fst x / p2 (snd x).
(* comparison with a rational (num, den), den > 0 *)
Definition dyq_cmp_q (x : dyq) (q : Z * Z) : Z := Z.sgn (fst x * snd q - fst q * p2 (snd x)).

Definition psgn_dy (p : poly) (x : dyq) : Z := psgn_at_rat p (fst x) (p2 (snd x)).
Definition psgn_rat (p : poly) (q : Z * Z) : Z := psgn_at_rat p (fst q) (snd q).

(* ---------------------------------------------------------------- the representation *)
Record anum := mkAnum { af : option poly; aa : dyq; ab : dyq; asa : Z; asb : Z }.

Definition an_point (q : dyq) : anum := mkAnum None q q 0 0.          (* collapse_to_point *)
Definition an_is_point (x : anum) : bool := match af x with None => true | Some _ => false end.
Definition an_set_a (x : anum) (q : dyq) : anum := mkAnum (af x) q (ab x) (asa x) (asb x).
Definition an_set_b (x : anum) (q : dyq) : anum := mkAnum (af x) (aa x) q (asa x) (asb x).
Definition an_set_I (x : anum) (a b : dyq) : anum := mkAnum (af x) a b (asa x) (asb x).

(* sign of f at m, then: collapse (0) | keep the right part (+1: sign as at a) | keep the left part (-1) *)
Definition an_narrow (x : anum) (p : poly) (m : dyq) : anum * Z :=
  let s := psgn_dy p m in
  if s =? 0 then (an_point m, 0)
  else if 0 <? s * asa x then (an_set_a x m, 1)
  else (an_set_b x m, -1).

Definition an_refine_dir (x : anum) : anum * Z :=
  match af x with
  | None => (x, 0)
  | Some p => an_narrow x p (dyq_mid (aa x) (ab x))
  end.
Definition an_refine (x : anum) : anum := fst (an_refine_dir x).

Definition an_contains_open (x : anum) (q : dyq) : bool := dyq_lt (aa x) q && dyq_lt q (ab x).
Definition an_contains (x : anum) (q : dyq) : bool :=
  if an_is_point x then dyq_eq (aa x) q else an_contains_open x q.

Definition an_refine_with_point (x : anum) (q : dyq) : anum :=
  match af x with
  | None => x
  | Some p => if an_contains_open x q then fst (an_narrow x p q) else x
  end.

(* ---------------------------------------------------------------- comparison with a rational *)
(* lp_dyadic_interval_cmp_{integer,dyadic_rational,rational} on I (open, or a point) *)
Definition an_ivl_cmp_q (x : anum) (q : Z * Z) : Z :=
  if an_is_point x then dyq_cmp_q (aa x) q
  else if 0 <=? dyq_cmp_q (aa x) q then 1
  else if dyq_cmp_q (ab x) q <=? 0 then -1
  else 0.

Fixpoint an_cmp_q_loop (fuel : nat) (x : anum) (q : Z * Z) : option (anum * Z) :=
  match fuel with
  | O => None
  | S f =>
    let x' := an_refine x in
    let c := an_ivl_cmp_q x' q in
    if c =? 0 then an_cmp_q_loop f x' q else Some (x', c)
  end.

Definition an_cmp_q (fuel : nat) (x : anum) (q : Z * Z) : option (anum * Z) :=
  match af x with
  | None => Some (x, dyq_cmp_q (aa x) q)
  | Some p =>
    let c := an_ivl_cmp_q x q in
    if negb (c =? 0) then Some (x, c)
    else if psgn_rat p q =? 0 then Some (x, 0)
    else an_cmp_q_loop fuel x q
  end.

Definition an_floor (x : anum) : Z := dyq_floor (aa x).

(* ---------------------------------------------------------------- comparison of two numbers *)
Definition an_disjoint (x y : anum) : bool :=
  if an_is_point x then negb (an_contains y (aa x))
  else if an_is_point y then negb (an_contains x (aa y))
  else dyq_le (ab x) (aa y) || dyq_le (ab y) (aa x).

(* lp_dyadic_interval_construct_intersection of two intersecting intervals: (lo, hi, is_point) *)
Definition an_intersection (x y : anum) : dyq * dyq * bool :=
  if an_is_point x then (aa x, aa x, true)
  else if an_is_point y then (aa y, aa y, true)
  else (dyq_max (aa x) (aa y), dyq_min (ab x) (ab y), false).

Definition an_same_interval (x y : anum) : bool :=
  negb (an_is_point x) && negb (an_is_point y) && dyq_eq (aa x) (aa y) && dyq_eq (ab x) (ab y).

Definition an_reduce (x : anum) (g : poly) (sa sb : Z) : anum := mkAnum (Some g) (aa x) (ab x) sa sb.

(* "bisect away": refine both until the directions differ or one of them collapses *)
Fixpoint an_bisect_away (fuel : nat) (x y : anum) : option (anum * anum) :=
  match fuel with
  | O => None
  | S f =>
    let '(x', d1) := an_refine_dir x in
    let '(y', d2) := an_refine_dir y in
    if (d1 =? d2) && negb (d1 =? 0) then an_bisect_away f x' y' else Some (x', y')
  end.

(* the final comparison of the (now separated) intervals by their lower ends and open/closed flags *)
Definition an_cmp_ends (x y : anum) : Z :=
  let c := dyq_cmp (aa x) (aa y) in
  if c =? 0 then
    if negb (an_is_point x) && an_is_point y then 1
    else if an_is_point x && negb (an_is_point y) then -1
    else c
  else c.

Definition an_cmp_prepare (x y : anum) : anum * anum :=
  if an_disjoint x y then (x, y)
  else
    let '(lo, hi, pt) := an_intersection x y in
    let x1 := an_refine_with_point x lo in
    let y1 := an_refine_with_point y lo in
    if pt then (x1, y1) else (an_refine_with_point x1 hi, an_refine_with_point y1 hi).

(* g = lp_upolynomial_gcd(a1->f, a2->f), used only when both are proper and the intervals have become equal *)
Definition an_cmp (fuel : nat) (x y : anum) (g : poly) : option ((anum * anum) * Z) :=
  let '(x1, y1) := an_cmp_prepare x y in
  if an_same_interval x1 y1 then
    let sa := psgn_dy g (aa x1) in
    let sb := psgn_dy g (ab x1) in
    if sa * sb <? 0 then Some ((an_reduce x1 g sa sb, an_reduce y1 g sa sb), 0)
    else match an_bisect_away fuel x1 y1 with
         | Some (x2, y2) => Some ((x2, y2), an_cmp_ends x2 y2)
         | None => None
         end
  else Some ((x1, y1), an_cmp_ends x1 y1).

(* ---------------------------------------------------------------- remember / restore (coefficient.c), as repaired *)
(* lp_value_is_rational on an algebraic value: a point, or a defining polynomial of degree 1 *)
Definition an_is_rational (x : anum) : bool :=
  match af x with None => true | Some p => Nat.eqb (pdeg p) 1 end.
(* algebraic_interval_remember: the interval of a non-rational value, else the "zero interval" placeholder *)
Definition an_remember (x : anum) : option (dyq * dyq) :=
  if an_is_rational x then None else Some (aa x, ab x).
(* algebraic_interval_restore AS REPAIRED (fixes/C09-restore-rational.patch): nothing is restored into a value
   that collapsed to a point, and the placeholder of a value that was not remembered is never written *)
Definition an_restore (x : anum) (c : option (dyq * dyq)) : anum :=
  match c with
  | None => x
  | Some (a, b) => if an_is_point x then x else an_set_I x a b
  end.

(* ---------------------------------------------------------------- the state machine *)
Inductive op :=
| ORefine (i : nat)                          (* lp_algebraic_number_refine_const *)
| ORefinePt (i : nat) (q : dyq)              (* lp_algebraic_number_refine_with_point *)
| OCmpQ (i : nat) (q : Z * Z)                (* cmp_integer / cmp_dyadic_rational / cmp_rational *)
| OSgn (i : nat)                             (* lp_algebraic_number_sgn = cmp_integer with 0 *)
| OCmp (i j : nat) (g : poly)                (* lp_algebraic_number_cmp; g = the gcd the library computes *)
| OFloor (i : nat)
| OCopy (i j : nat)                          (* slot j := construct_copy(slot i) *)
| ODestroy (i : nat)
| ORemember (i : nat)                        (* push the interval of slot i *)
| ORestore (i : nat).                        (* pop the most recent remembered interval of slot i, put it back *)

Inductive obs := ONone | OInt (z : Z).

Record state := mkState { pool : list (option anum); saved : list (nat * option (dyq * dyq)) }.

Definition get (s : state) (i : nat) : option anum := nth i (pool s) None.
Fixpoint set_nth (l : list (option anum)) (i : nat) (v : option anum) : list (option anum) :=
  match l, i with
  | [], _ => []
  | _ :: t, O => v :: t
  | h :: t, S i' => h :: set_nth t i' v
  end.
Definition put (s : state) (i : nat) (v : option anum) : state := mkState (set_nth (pool s) i v) (saved s).
Definition has_saved (s : state) (i : nat) : bool := existsb (fun e => Nat.eqb (fst e) i) (saved s).
(* first remembered entry of slot i and the stack without it *)
Fixpoint take_saved (l : list (nat * option (dyq * dyq))) (i : nat)
  : option (option (dyq * dyq) * list (nat * option (dyq * dyq))) :=
  match l with
  | [] => None
  | e :: t =>
    if Nat.eqb (fst e) i then Some (snd e, t)
    else match take_saved t i with
         | Some (c, t') => Some (c, e :: t')
         | None => None
         end
  end.

(* None = fuel exhausted, or the operation is outside the API's contract: it reads a destroyed slot, overwrites or
   destroys a slot whose interval is currently remembered, compares a slot with itself, restores nothing *)
Definition step (fuel : nat) (s : state) (o : op) : option (state * obs) :=
  match o with
  | ORefine i =>
    match get s i with Some x => Some (put s i (Some (an_refine x)), ONone) | None => None end
  | ORefinePt i q =>
    match get s i with Some x => Some (put s i (Some (an_refine_with_point x q)), ONone) | None => None end
  | OCmpQ i q =>
    match get s i with
    | Some x => match an_cmp_q fuel x q with Some (x', c) => Some (put s i (Some x'), OInt c) | None => None end
    | None => None
    end
  | OSgn i =>
    match get s i with
    | Some x => match an_cmp_q fuel x (0, 1) with Some (x', c) => Some (put s i (Some x'), OInt c) | None => None end
    | None => None
    end
  | OCmp i j g =>
    if Nat.eqb i j then None else
    match get s i, get s j with
    | Some x, Some y =>
      match an_cmp fuel x y g with
      | Some ((x', y'), c) => Some (put (put s i (Some x')) j (Some y'), OInt c)
      | None => None
      end
    | _, _ => None
    end
  | OFloor i =>
    match get s i with Some x => Some (s, OInt (an_floor x)) | None => None end
  | OCopy i j =>
    if has_saved s j || negb (Nat.ltb j (length (pool s))) then None else
    match get s i with Some x => Some (put s j (Some x), ONone) | None => None end
  | ODestroy i =>
    if has_saved s i then None else
    match get s i with Some _ => Some (put s i None, ONone) | None => None end
  | ORemember i =>
    match get s i with
    | Some x => Some (mkState (pool s) ((i, an_remember x) :: saved s), ONone)
    | None => None
    end
  | ORestore i =>
    match get s i, take_saved (saved s) i with
    | Some x, Some (c, rest) => Some (mkState (set_nth (pool s) i (Some (an_restore x c))) rest, ONone)
    | _, _ => None
    end
  end.

(* a history: the final state and the list of observations, in order *)
Fixpoint run (fuel : nat) (s : state) (ops : list op) : option (state * list obs) :=
  match ops with
  | [] => Some (s, [])
  | o :: rest =>
    match step fuel s o with
    | Some (s', b) =>
      match run fuel s' rest with
      | Some (s'', bs) => Some (s'', b :: bs)
      | None => None
      end
    | None => None
    end
  end.

(* the slots an operation (re-)assigns: their denotation may change; every other slot keeps its own *)
Definition assigns (o : op) (k : nat) : bool :=
  match o with
  | OCopy _ j => Nat.eqb j k
  | ODestroy i => Nat.eqb i k
  | _ => false
  end.
