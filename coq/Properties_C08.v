(* Property C08 - one consistent ordered number line for all value kinds.
   ONLY theorem statements, each closed by `exact` of a lemma from ValueProofs.v, with Print Assumptions beneath,
   and non-vacuity Examples.  Model: Value.v (the dispatch logic of src/number/value.c).

   Reading guide.  `line` is an abstract ordered number line into which Q embeds (LQ) and where the algebraic
   payloads live (Lden); `line_ok L` bundles the NAMED PREMISES of all `_cond` theorems: the total-order laws,
   Q being an ordered subfield, congruence of + * -, and the C07 obligations about the reference operations on
   algebraic payloads (A_cmp_q, A_cmp, A_add, A_mul, A_neg, A_inv, A_refine, A_lin, P_RA, D_RQ ...), see the
   Record in ValueProofs.v.  `den L v` is the extended number a value denotes, `vok L v` the representation
   invariant (canonical rational / normalised dyadic / payload in the interface's domain), `int_free v` the
   constructor invariant of algebraic numbers (no integer inside the open isolating interval).
   `C08_line_instance` proves the premises satisfiable (carrier Q, payloads = points), and the `_points_full`
   theorems are the closed instances: all six kinds, algebraic payloads restricted to points. *)
From Coq Require Import ZArith NArith QArith List Bool Lia.
From LP Require Import Scalar ScalarProofs UPoly RefAlg Value ValueProofs.
Import ListNotations.

(* 1. comparison: cmp u v is the sign of compare (den u) (den v) for ALL 6x6 kind pairs (COND: line_ok = order laws + C07 interface) *)
Theorem C08_cmp_cond :
  forall L : line,
  line_ok L ->
  forall (fuel : nat) (u v : value) (c : Z),
  vok L u -> vok L v -> v_cmp fuel u v = ROk c -> Z.sgn c = cmp_to_Z (ecmp L (den L u) (den L v)).
Proof. exact v_cmp_spec. Qed.
Print Assumptions C08_cmp_cond.
Theorem C08_cmp_antisym_cond :
  forall L : line,
  line_ok L ->
  forall (fuel : nat) (u v : value) (c c' : Z),
  vok L u -> vok L v -> v_cmp fuel u v = ROk c -> v_cmp fuel v u = ROk c' -> Z.sgn c' = (- Z.sgn c)%Z.
Proof. exact v_cmp_antisym. Qed.
Print Assumptions C08_cmp_antisym_cond.
Theorem C08_cmp_trans_cond :
  forall L : line,
  line_ok L ->
  forall (fuel : nat) (u v w : value) (c1 c2 c3 : Z),
  vok L u ->
  vok L v ->
  vok L w ->
  v_cmp fuel u v = ROk c1 ->
  v_cmp fuel v w = ROk c2 -> v_cmp fuel u w = ROk c3 -> (c1 <= 0)%Z -> (c2 <= 0)%Z -> (c3 <= 0)%Z.
Proof. exact v_cmp_trans. Qed.
Print Assumptions C08_cmp_trans_cond.
(* equal numbers in different representations compare equal, and only those *)
Theorem C08_cmp_eq_iff_cond :
  forall L : line,
  line_ok L ->
  forall (fuel : nat) (u v : value) (c : Z),
  vok L u -> vok L v -> v_cmp fuel u v = ROk c -> c = 0%Z <-> eeq L (den L u) (den L v).
Proof. exact v_cmp_eq_iff. Qed.
Print Assumptions C08_cmp_eq_iff_cond.
Theorem C08_cmp_lt_iff_cond :
  forall L : line,
  line_ok L ->
  forall (fuel : nat) (u v : value) (c : Z),
  vok L u -> vok L v -> v_cmp fuel u v = ROk c -> (c < 0)%Z <-> ecmp L (den L u) (den L v) = Lt.
Proof. exact v_cmp_lt_iff. Qed.
Print Assumptions C08_cmp_lt_iff_cond.
(* the result depends only on the two numbers *)
Theorem C08_cmp_repr_indep_cond :
  forall L : line,
  line_ok L ->
  forall (fuel : nat) (u u' v v' : value) (c c' : Z),
  vok L u ->
  vok L u' ->
  vok L v ->
  vok L v' ->
  eeq L (den L u) (den L u') ->
  eeq L (den L v) (den L v') -> v_cmp fuel u v = ROk c -> v_cmp fuel u' v' = ROk c' -> Z.sgn c = Z.sgn c'.
Proof. exact cmp_repr_indep. Qed.
Print Assumptions C08_cmp_repr_indep_cond.
(* the `v1 == v2` shortcut agrees with the order *)
Theorem C08_cmp_same_object_cond :
  forall L : line,
  line_ok L ->
  forall (fuel : nat) (u : value),
  vok L u -> v_cmp_ptr true fuel u u = ROk 0%Z /\ ecmp L (den L u) (den L u) = Eq.
Proof. exact v_cmp_ptr_spec. Qed.
Print Assumptions C08_cmp_same_object_cond.
(* FULL: no assert(0) of the dispatch is reachable *)
Theorem C08_cmp_never_undefined :
  forall (fuel : nat) (u v : value), v_cmp fuel u v <> RUndef.
Proof. exact v_cmp_defined. Qed.
Print Assumptions C08_cmp_never_undefined.
(* FULL: fuel matters only for algebraic x algebraic *)
Theorem C08_cmp_total :
  forall (fuel : nat) (u v : value), is_alg u && is_alg v = false -> exists c : Z, v_cmp fuel u v = ROk c.
Proof. exact v_cmp_total. Qed.
Print Assumptions C08_cmp_total.
Theorem C08_cmp_rational_cond :
  forall L : line,
  line_ok L ->
  forall (v : value) (q : rat) (c : Z),
  vok L v ->
  q_wf q -> v_cmp_rational v q = ROk c -> Z.sgn c = cmp_to_Z (ecmp L (den L v) (EFin (LQ L (QofR q)))).
Proof. exact v_cmp_rational_spec. Qed.
Print Assumptions C08_cmp_rational_cond.
Theorem C08_sgn_cond :
  forall L : line, line_ok L -> forall v : value, vok L v -> v_sgn v = cmp_to_Z (ecmp L (den L v) (ezero L)).
Proof. exact v_sgn_spec. Qed.
Print Assumptions C08_sgn_cond.
Theorem C08_sgn_repr_indep_cond :
  forall L : line,
  line_ok L -> forall u v : value, vok L u -> vok L v -> eeq L (den L u) (den L v) -> v_sgn u = v_sgn v.
Proof. exact sgn_repr_indep. Qed.
Print Assumptions C08_sgn_repr_indep_cond.

(* 2. arithmetic incl. the infinity tables (eadd / emul / eneg), and exactly which cases are undefined *)
Theorem C08_add_cond :
  forall L : line,
  line_ok L ->
  forall (fuel : nat) (u v w : value),
  vok L u ->
  vok L v ->
  v_add fuel u v = ROk w ->
  vok L w /\ (exists e : ext (LR L), eadd L (den L u) (den L v) = Some e /\ eeq L (den L w) e).
Proof. exact v_add_spec. Qed.
Print Assumptions C08_add_cond.
(* undefined exactly for (+inf)+(-inf) and (-inf)+(+inf) *)
Theorem C08_add_undef_iff :
  forall (L : line) (fuel : nat) (u v : value), v_add fuel u v = RUndef <-> eadd L (den L u) (den L v) = None.
Proof. exact v_add_undef_iff. Qed.
Print Assumptions C08_add_undef_iff.
Theorem C08_neg_cond :
  forall L : line,
  line_ok L -> forall u : value, vok L u -> vok L (v_neg u) /\ eeq L (den L (v_neg u)) (eneg L (den L u)).
Proof. exact v_neg_spec. Qed.
Print Assumptions C08_neg_cond.
Theorem C08_sub_cond :
  forall L : line,
  line_ok L ->
  forall (fuel : nat) (u v w : value),
  vok L u ->
  vok L v ->
  v_sub fuel u v = ROk w ->
  vok L w /\ (exists e : ext (LR L), esub L (den L u) (den L v) = Some e /\ eeq L (den L w) e).
Proof. exact v_sub_spec. Qed.
Print Assumptions C08_sub_cond.
Theorem C08_mul_cond :
  forall L : line,
  line_ok L ->
  forall (fuel : nat) (u v w : value),
  vok L u ->
  vok L v ->
  v_mul fuel u v = ROk w ->
  vok L w /\ (exists e : ext (LR L), emul L (den L u) (den L v) = Some e /\ eeq L (den L w) e).
Proof. exact v_mul_spec. Qed.
Print Assumptions C08_mul_cond.
(* undefined exactly for 0 * inf *)
Theorem C08_mul_undef_iff_cond :
  forall L : line,
  line_ok L ->
  forall (fuel : nat) (u v : value),
  vok L u -> vok L v -> v_mul fuel u v = RUndef <-> emul L (den L u) (den L v) = None.
Proof. exact v_mul_undef_iff. Qed.
Print Assumptions C08_mul_undef_iff_cond.
Theorem C08_inv_cond :
  forall L : line,
  line_ok L ->
  forall (fuel : nat) (a w : value),
  vok L a ->
  v_inv fuel a = ROk w ->
  vok L w /\
  match den L a with
  | EFin x => exists y : LR L, den L w = EFin y /\ Leq L (Lmul L y x) (LQ L 1)
  | _ => eeq L (den L w) (ezero L)
  end.
Proof. exact v_inv_spec. Qed.
Print Assumptions C08_inv_cond.
(* undefined exactly for 0 *)
Theorem C08_inv_undef_iff_cond :
  forall L : line,
  line_ok L -> forall (fuel : nat) (a : value), vok L a -> v_inv fuel a = RUndef <-> eeq L (den L a) (ezero L).
Proof. exact v_inv_undef_iff. Qed.
Print Assumptions C08_inv_undef_iff_cond.
Theorem C08_div_cond :
  forall L : line,
  line_ok L ->
  forall (fuel : nat) (a b w : value),
  vok L a ->
  vok L b ->
  v_div fuel a b = ROk w ->
  vok L w /\
  (exists bi : value,
  v_inv fuel b = ROk bi /\
  vok L bi /\ (exists e : ext (LR L), emul L (den L a) (den L bi) = Some e /\ eeq L (den L w) e)).
Proof. exact v_div_spec. Qed.
Print Assumptions C08_div_cond.
Theorem C08_div_fin_cond :
  forall L : line,
  line_ok L ->
  forall (fuel : nat) (a b w : value) (x y : LR L),
  vok L a ->
  vok L b ->
  v_div fuel a b = ROk w ->
  den L a = EFin x ->
  den L b = EFin y -> exists i z : LR L, Leq L (Lmul L i y) (LQ L 1) /\ den L w = EFin z /\ Leq L z (Lmul L x i).
Proof. exact v_div_fin_spec. Qed.
Print Assumptions C08_div_fin_cond.
(* repaired code: (+inf)^n = +inf; see History_C08.v for the pinned one *)
Theorem C08_pow_cond :
  forall L : line,
  line_ok L ->
  forall (fuel : nat) (a : value) (n : N) (w : value),
  vok L a ->
  v_pow fuel a n = ROk w ->
  vok L w /\
  match den L a with
  | EMinf => den L w = (if N.odd n then EMinf else EPinf)
  | EFin x => exists z : LR L, den L w = EFin z /\ Leq L z (Lpow L x (N.to_nat n))
  | EPinf => den L w = EPinf
  end.
Proof. exact v_pow_spec. Qed.
Print Assumptions C08_pow_cond.

(* 3. floor, ceiling, integrality, rational extraction *)
Theorem C08_floor_cond :
  forall L : line,
  line_ok L ->
  forall (v : value) (z : Z),
  vok L v -> int_free v -> v_floor v = ROk z -> exists x : LR L, den L v = EFin x /\ is_floor L z x.
Proof. exact v_floor_spec. Qed.
Print Assumptions C08_floor_cond.
Theorem C08_ceiling_cond :
  forall L : line,
  line_ok L ->
  forall (v : value) (z : Z),
  vok L v -> int_free v -> v_ceiling v = ROk z -> exists x : LR L, den L v = EFin x /\ is_ceiling L z x.
Proof. exact v_ceiling_spec. Qed.
Print Assumptions C08_ceiling_cond.
Theorem C08_floor_undef_iff :
  forall v : value, v_floor v = RUndef <-> ~ fin v.
Proof. exact v_floor_undef_iff. Qed.
Print Assumptions C08_floor_undef_iff.
Theorem C08_is_integer_cond :
  forall L : line,
  line_ok L ->
  forall v : value,
  vok L v -> int_free v -> v_is_integer v = true <-> (exists z : Z, eeq L (den L v) (EFin (LQ L (inject_Z z)))).
Proof. exact v_is_integer_spec. Qed.
Print Assumptions C08_is_integer_cond.
(* one-sided: the code documents is_rational as incomplete for algebraic numbers *)
Theorem C08_is_rational_sound_cond :
  forall L : line,
  line_ok L ->
  forall v : value,
  vok L v ->
  v_is_rational v = true ->
  exists q : rat, v_get_rational v = ROk q /\ q_wf q /\ eeq L (den L v) (EFin (LQ L (QofR q))).
Proof. exact v_is_rational_sound. Qed.
Print Assumptions C08_is_rational_sound_cond.
Theorem C08_get_rational_cond :
  forall L : line,
  line_ok L ->
  forall (v : value) (q : rat),
  vok L v -> v_get_rational v = ROk q -> q_wf q /\ eeq L (den L v) (EFin (LQ L (QofR q))).
Proof. exact v_get_rational_spec. Qed.
Print Assumptions C08_get_rational_cond.
(* num/den is THE canonical fraction of the number *)
Theorem C08_num_den_cond :
  forall L : line,
  line_ok L ->
  forall (v : value) (n d : Z),
  vok L v ->
  v_get_num v = ROk n ->
  v_get_den v = ROk d -> v_is_rational v = true /\ q_wf (n, d) /\ eeq L (den L v) (EFin (LQ L (QofR (n, d)))).
Proof. exact v_get_num_den_spec. Qed.
Print Assumptions C08_num_den_cond.
(* FULL *)
Theorem C08_num_den_defined :
  forall v : value, v_is_rational v = true -> exists n d : Z, v_get_num v = ROk n /\ v_get_den v = ROk d.
Proof. exact v_get_num_defined. Qed.
Print Assumptions C08_num_den_defined.
Theorem C08_floor_repr_indep_cond :
  forall L : line,
  line_ok L ->
  forall (u v : value) (a b : Z),
  vok L u ->
  vok L v ->
  int_free u -> int_free v -> eeq L (den L u) (den L v) -> v_floor u = ROk a -> v_floor v = ROk b -> a = b.
Proof. exact floor_repr_indep. Qed.
Print Assumptions C08_floor_repr_indep_cond.
Theorem C08_ceiling_repr_indep_cond :
  forall L : line,
  line_ok L ->
  forall (u v : value) (a b : Z),
  vok L u ->
  vok L v ->
  int_free u -> int_free v -> eeq L (den L u) (den L v) -> v_ceiling u = ROk a -> v_ceiling v = ROk b -> a = b.
Proof. exact ceiling_repr_indep. Qed.
Print Assumptions C08_ceiling_repr_indep_cond.
Theorem C08_is_integer_repr_indep_cond :
  forall L : line,
  line_ok L ->
  forall u v : value,
  vok L u -> vok L v -> int_free u -> int_free v -> eeq L (den L u) (den L v) -> v_is_integer u = v_is_integer v.
Proof. exact is_integer_repr_indep. Qed.
Print Assumptions C08_is_integer_repr_indep_cond.
Theorem C08_num_den_repr_indep_cond :
  forall L : line,
  line_ok L ->
  forall (u v : value) (n d n' d' : Z),
  vok L u ->
  vok L v ->
  eeq L (den L u) (den L v) ->
  v_get_num u = ROk n -> v_get_den u = ROk d -> v_get_num v = ROk n' -> v_get_den v = ROk d' -> n = n' /\ d = d'.
Proof. exact num_den_repr_indep. Qed.
Print Assumptions C08_num_den_repr_indep_cond.

(* 4. picking a value between two bounds *)
(* FULL (pure Q): the rational picker respects both strictness flags *)
Theorem C08_pick_sound :
  forall (fuel : nat) (a : rat) (sa : bool) (b : rat) (sb : bool) (r : rat),
  q_wf a ->
  q_wf b ->
  QofR a < QofR b ->
  v_pick fuel a sa b sb = Some r -> q_wf r /\ bnd_lo sa (QofR a) (QofR r) /\ bnd_hi sb (QofR r) (QofR b).
Proof. exact v_pick_sound. Qed.
Print Assumptions C08_pick_sound.
(* FULL (pure Q): an integer whenever the hulls admit one *)
Theorem C08_pick_prefers_int :
  forall (fuel : nat) (a : rat) (sa : bool) (b : rat) (sb : bool) (r : rat) (k : Z),
  q_wf a ->
  q_wf b ->
  QofR a < QofR b ->
  v_pick fuel a sa b sb = Some r ->
  bnd_lo sa (QofR a) (inject_Z k) -> bnd_hi sb (inject_Z k) (QofR b) -> q_is_integer r = true.
Proof. exact v_pick_prefers_int. Qed.
Print Assumptions C08_pick_prefers_int.
Theorem C08_cmp_sep_cond :
  forall L : line,
  line_ok L ->
  forall (fuel : nat) (a b : value) (c : Z) (a1 b1 : value),
  vok L a ->
  vok L b ->
  v_cmp_sep fuel a b = ROk (c, a1, b1) ->
  Z.sgn c = cmp_to_Z (ecmp L (den L a) (den L b)) /\
  vok L a1 /\ vok L b1 /\ eeq L (den L a1) (den L a) /\ eeq L (den L b1) (den L b) /\ (c <> 0%Z -> sepd a1 b1).
Proof. exact v_cmp_sep_spec. Qed.
Print Assumptions C08_cmp_sep_cond.
Theorem C08_between_cond :
  forall L : line,
  line_ok L ->
  forall (fuel : nat) (a : value) (sa : bool) (b : value) (sb : bool) (v : value),
  vok L a ->
  vok L b ->
  v_between fuel a sa b sb = ROk v ->
  vok L v /\
  match ecmp L (den L a) (den L b) with
  | Gt => within L (den L b) sb (den L v) (den L a) sa
  | _ => within L (den L a) sa (den L v) (den L b) sb
  end.
Proof. exact v_between_spec. Qed.
Print Assumptions C08_between_cond.
Theorem C08_between_undef_equal_cond :
  forall L : line,
  line_ok L ->
  forall (fuel : nat) (a : value) (sa : bool) (b : value) (sb : bool),
  vok L a -> vok L b -> eeq L (den L a) (den L b) -> v_between fuel a sa b sb = RUndef -> sa || sb = true.
Proof. exact v_between_undef_equal. Qed.
Print Assumptions C08_between_undef_equal_cond.

(* "an integer whenever the bounds admit one" for ALL kinds of bounds, proper algebraic numbers included: needs the
   constructor invariant int_free of the bounds, which every refinement step preserves *)
Theorem C08_between_prefers_int_cond :
  forall L : line,
  line_ok L ->
  forall (fuel : nat) (a : value) (sa : bool) (b : value) (sb : bool) (v : value) (k : Z),
  vok L a ->
  vok L b ->
  int_free a ->
  int_free b ->
  v_between fuel a sa b sb = ROk v ->
  match ecmp L (den L a) (den L b) with
  | Eq => False
  | Lt => within L (den L a) sa (EFin (LQ L (inject_Z k))) (den L b) sb
  | Gt => within L (den L b) sb (EFin (LQ L (inject_Z k))) (den L a) sa
  end -> v_is_integer v = true.
Proof. exact v_between_prefers_int. Qed.
Print Assumptions C08_between_prefers_int_cond.
(* the same without int_free, for bounds whose hulls are exact (all non-algebraic kinds,
   algebraic points, degree-1 algebraic numbers, infinities) *)
Theorem C08_between_prefers_int_exact_hulls_cond :
  forall L : line,
  line_ok L ->
  forall (fuel : nat) (a : value) (sa : bool) (b : value) (sb : bool) (v : value) (k : Z),
  vok L a ->
  vok L b ->
  ratlike a ->
  ratlike b ->
  v_between fuel a sa b sb = ROk v ->
  match ecmp L (den L a) (den L b) with
  | Eq => False
  | Lt => within L (den L a) sa (EFin (LQ L (inject_Z k))) (den L b) sb
  | Gt => within L (den L b) sb (EFin (LQ L (inject_Z k))) (den L a) sa
  end -> v_is_integer v = true.
Proof. exact v_between_prefers_int_partial. Qed.
Print Assumptions C08_between_prefers_int_exact_hulls_cond.
Theorem C08_between_prefers_int_points_full :
  forall (fuel : nat) (a : value) (sa : bool) (b : value) (sb : bool) (v : value) (k : Z),
  vok QL a ->
  vok QL b ->
  ratlike a ->
  ratlike b ->
  v_between fuel a sa b sb = ROk v ->
  match ecmp QL (den QL a) (den QL b) with
  | Eq => False
  | Lt => within QL (den QL a) sa (EFin (LQ QL (inject_Z k))) (den QL b) sb
  | Gt => within QL (den QL b) sb (EFin (LQ QL (inject_Z k))) (den QL a) sa
  end -> v_is_integer v = true.
Proof. exact (v_between_prefers_int_partial QL QL_ok). Qed.
Print Assumptions C08_between_prefers_int_points_full.

(* 5. hashing: the bisection path depends only on the number *)
Theorem C08_hash_path_cond :
  forall L : line,
  line_ok L ->
  forall (prec : N) (u v : value),
  vok L u ->
  vok L v -> int_free u -> int_free v -> eeq L (den L u) (den L v) -> v_hash_path prec u = v_hash_path prec v.
Proof. exact v_hash_path_spec. Qed.
Print Assumptions C08_hash_path_cond.

(* 6. the premises are satisfiable: Q with point payloads is a line; closed (FULL) instances for every kind of value *)
(* FULL *)
Theorem C08_line_instance :
  line_ok QL.
Proof. exact QL_ok. Qed.
Print Assumptions C08_line_instance.
Theorem C08_cmp_points_full :
  forall (fuel : nat) (u v : value) (c : Z),
  vok QL u -> vok QL v -> v_cmp fuel u v = ROk c -> Z.sgn c = cmp_to_Z (ecmp QL (den QL u) (den QL v)).
Proof. exact (v_cmp_spec QL QL_ok). Qed.
Print Assumptions C08_cmp_points_full.
Theorem C08_cmp_trans_points_full :
  forall (fuel : nat) (u v w : value) (c1 c2 c3 : Z),
  vok QL u ->
  vok QL v ->
  vok QL w ->
  v_cmp fuel u v = ROk c1 ->
  v_cmp fuel v w = ROk c2 -> v_cmp fuel u w = ROk c3 -> (c1 <= 0)%Z -> (c2 <= 0)%Z -> (c3 <= 0)%Z.
Proof. exact (v_cmp_trans QL QL_ok). Qed.
Print Assumptions C08_cmp_trans_points_full.
Theorem C08_cmp_eq_iff_points_full :
  forall (fuel : nat) (u v : value) (c : Z),
  vok QL u -> vok QL v -> v_cmp fuel u v = ROk c -> c = 0%Z <-> eeq QL (den QL u) (den QL v).
Proof. exact (v_cmp_eq_iff QL QL_ok). Qed.
Print Assumptions C08_cmp_eq_iff_points_full.
Theorem C08_add_points_full :
  forall (fuel : nat) (u v w : value),
  vok QL u ->
  vok QL v ->
  v_add fuel u v = ROk w ->
  vok QL w /\ (exists e : ext (LR QL), eadd QL (den QL u) (den QL v) = Some e /\ eeq QL (den QL w) e).
Proof. exact (v_add_spec QL QL_ok). Qed.
Print Assumptions C08_add_points_full.
Theorem C08_sub_points_full :
  forall (fuel : nat) (u v w : value),
  vok QL u ->
  vok QL v ->
  v_sub fuel u v = ROk w ->
  vok QL w /\ (exists e : ext (LR QL), esub QL (den QL u) (den QL v) = Some e /\ eeq QL (den QL w) e).
Proof. exact (v_sub_spec QL QL_ok). Qed.
Print Assumptions C08_sub_points_full.
Theorem C08_mul_points_full :
  forall (fuel : nat) (u v w : value),
  vok QL u ->
  vok QL v ->
  v_mul fuel u v = ROk w ->
  vok QL w /\ (exists e : ext (LR QL), emul QL (den QL u) (den QL v) = Some e /\ eeq QL (den QL w) e).
Proof. exact (v_mul_spec QL QL_ok). Qed.
Print Assumptions C08_mul_points_full.
Theorem C08_inv_points_full :
  forall (fuel : nat) (a w : value),
  vok QL a ->
  v_inv fuel a = ROk w ->
  vok QL w /\
  match den QL a with
  | EFin x => exists y : LR QL, den QL w = EFin y /\ Leq QL (Lmul QL y x) (LQ QL 1)
  | _ => eeq QL (den QL w) (ezero QL)
  end.
Proof. exact (v_inv_spec QL QL_ok). Qed.
Print Assumptions C08_inv_points_full.
Theorem C08_pow_points_full :
  forall (fuel : nat) (a : value) (n : N) (w : value),
  vok QL a ->
  v_pow fuel a n = ROk w ->
  vok QL w /\
  match den QL a with
  | EMinf => den QL w = (if N.odd n then EMinf else EPinf)
  | EFin x => exists z : LR QL, den QL w = EFin z /\ Leq QL z (Lpow QL x (N.to_nat n))
  | EPinf => den QL w = EPinf
  end.
Proof. exact (v_pow_spec QL QL_ok). Qed.
Print Assumptions C08_pow_points_full.
Theorem C08_floor_points_full :
  forall (v : value) (z : Z),
  vok QL v -> int_free v -> v_floor v = ROk z -> exists x : LR QL, den QL v = EFin x /\ is_floor QL z x.
Proof. exact (v_floor_spec QL QL_ok). Qed.
Print Assumptions C08_floor_points_full.
Theorem C08_ceiling_points_full :
  forall (v : value) (z : Z),
  vok QL v -> int_free v -> v_ceiling v = ROk z -> exists x : LR QL, den QL v = EFin x /\ is_ceiling QL z x.
Proof. exact (v_ceiling_spec QL QL_ok). Qed.
Print Assumptions C08_ceiling_points_full.
Theorem C08_is_integer_points_full :
  forall v : value,
  vok QL v ->
  int_free v -> v_is_integer v = true <-> (exists z : Z, eeq QL (den QL v) (EFin (LQ QL (inject_Z z)))).
Proof. exact (v_is_integer_spec QL QL_ok). Qed.
Print Assumptions C08_is_integer_points_full.
Theorem C08_num_den_points_full :
  forall (v : value) (n d : Z),
  vok QL v ->
  v_get_num v = ROk n ->
  v_get_den v = ROk d -> v_is_rational v = true /\ q_wf (n, d) /\ eeq QL (den QL v) (EFin (LQ QL (QofR (n, d)))).
Proof. exact (v_get_num_den_spec QL QL_ok). Qed.
Print Assumptions C08_num_den_points_full.
Theorem C08_between_points_full :
  forall (fuel : nat) (a : value) (sa : bool) (b : value) (sb : bool) (v : value),
  vok QL a ->
  vok QL b ->
  v_between fuel a sa b sb = ROk v ->
  vok QL v /\
  match ecmp QL (den QL a) (den QL b) with
  | Gt => within QL (den QL b) sb (den QL v) (den QL a) sa
  | _ => within QL (den QL a) sa (den QL v) (den QL b) sb
  end.
Proof. exact (v_between_spec QL QL_ok). Qed.
Print Assumptions C08_between_points_full.
Theorem C08_hash_path_points_full :
  forall (prec : N) (u v : value),
  vok QL u ->
  vok QL v ->
  int_free u -> int_free v -> eeq QL (den QL u) (den QL v) -> v_hash_path prec u = v_hash_path prec v.
Proof. exact (v_hash_path_spec QL QL_ok). Qed.
Print Assumptions C08_hash_path_points_full.

(* ---- non-vacuity: the hypotheses are satisfiable and the functions compute *)
Local Open Scope Z_scope.
Definition ex_sqrt2 := VAlg (RA [-2; 0; 1] (1, 1) (2, 1)).
Definition ex_sqrt3 := VAlg (RA [-3; 0; 1] (1, 1) (2, 1)).
Example C08_ex_ok : vok QL (VAlg (RQ (3, 1))) /\ vok QL (VDy (mkDy 1 1)) /\ vok QL (VRat (1, 3)) /\ int_free ex_sqrt2.
Proof.
  repeat split; cbn; try lia; try reflexivity.
  - right; left; reflexivity.
  - intros z [H1 H2]. unfold QofR, Qlt in *. cbn in *. lia.
Qed.
Example C08_ex_cmp :
  v_cmp 10 (VInt 3) (VAlg (RQ (3, 1))) = ROk 0 /\ v_cmp 10 (VDy (mkDy 1 1)) (VRat (1, 3)) = ROk 1 /\
  v_cmp 50 ex_sqrt2 ex_sqrt3 = ROk (-1) /\ v_cmp 10 VMinf (VInt 0) = ROk (-1).
Proof. vm_compute. repeat split. Qed.
Example C08_ex_between :
  v_between 10 (VRat (1, 3)) true (VDy (mkDy 1 1)) true = ROk (VRat (3, 8)) /\
  v_between 60 ex_sqrt2 false ex_sqrt3 false = ROk (VRat (25, 16)) /\
  v_between 60 ex_sqrt3 true ex_sqrt2 true = ROk (VRat (25, 16)) /\
  v_between 60 (VInt 1) false ex_sqrt2 true = ROk (VRat (1, 1)) /\
  v_between 60 (VInt 1) true ex_sqrt2 true = ROk (VRat (9, 8)).
Proof. vm_compute. repeat split. Qed.
Example C08_ex_arith :
  v_add 60 (VInt 1) (VDy (mkDy 1 1)) = ROk (VDy (mkDy 3 1)) /\ v_mul 60 VMinf (VRat (-1, 3)) = ROk VPinf /\
  v_mul 60 VPinf (VInt 0) = RUndef /\ v_div 60 (VInt 1) (VInt 3) = ROk (VRat (1, 3)) /\
  v_pow 10 VPinf 2 = ROk VPinf /\ v_pow 10 VMinf 3 = ROk VMinf.
Proof. vm_compute. repeat split. Qed.
Example C08_ex_hash :
  v_hash_path 5 (VRat (1, 3)) = v_hash_path 5 (VAlg (RA [-1; 3] (0, 1) (1, 1))) /\
  v_hash_path 3 (VInt 3) = v_hash_path 3 (VDy (mkDy 3 0)).
Proof. vm_compute. repeat split. Qed.
Example C08_ex_floor :
  v_floor ex_sqrt2 = ROk 1 /\ v_ceiling ex_sqrt2 = ROk 2 /\ v_is_integer ex_sqrt2 = false /\
  v_get_num (VDy (mkDy 3 2)) = ROk 3 /\ v_get_den (VDy (mkDy 3 2)) = ROk 4.
Proof. vm_compute. repeat split. Qed.
