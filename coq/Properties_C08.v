(* Property C08 - one consistent ordered number line for all value kinds.
   ONLY theorem statements, each closed by `exact` of a lemma from ValueProofs.v, with Print Assumptions beneath,
   and non-vacuity Examples.  Model: Value.v (the dispatch logic of src/number/value.c).

   Reading guide.  `line` is an abstract ordered number line into which Q embeds (LQ) and where the algebraic
   payloads live (Lden); `line_ok L` bundles the NAMED PREMISES of all `_cond` theorems: the total-order laws,
   Q being an ordered subfield, congruence of + * -, and the C07 obligations about the reference operations on
   algebraic payloads (A_cmp_q, A_cmp, A_add, A_mul, A_neg, A_inv, A_refine, A_lin, P_RA, D_RQ ...), see the
   Record in ValueProofs.v.  `den L v` is the extended number a value denotes, `vok L v` the representation
   invariant (canonical rational / normalised dyadic / payload in the interface's domain), `int_free v` the
   constructor invariant of algebraic numbers (no integer inside the open isolating interval).
   `C08_line_instance` proves the premises satisfiable (carrier Q, payloads = points), and the `_points_full`
   theorems are the closed instances: all six kinds, algebraic payloads restricted to points. *)
From Coq Require Import ZArith NArith QArith List Bool Lia.
From LP Require Import Scalar ScalarProofs UPoly RefAlg Value ValueProofs.
Import ListNotations.

(* 1. comparison: cmp u v is the sign of compare (den u) (den v) for ALL 6x6 kind pairs (COND: line_ok = order laws + C07 interface) *)
Theorem C08_cmp_cond :
  forall L : line,
  line_ok L ->
  forall (fuel : nat) (u v : value) (c : Z),
  vok L u -> vok L v -> v_cmp fuel u v = ROk c -> Z.sgn c = cmp_to_Z (ecmp L (den L u) (den L v)).
Proof. exact v_cmp_spec. Qed.
Print Assumptions C08_cmp_cond.
Theorem C08_cmp_antisym_cond :
  forall L : line,
  line_ok L ->
  forall (fuel : nat) (u v : value) (c c' : Z),
  vok L u -> vok L v -> v_cmp fuel u v = ROk c -> v_cmp fuel v u = ROk c' -> Z.sgn c' = (- Z.sgn c)%Z.
Proof. exact v_cmp_antisym. Qed.
Print Assumptions C08_cmp_antisym_cond.
Theorem C08_cmp_trans_cond :
  forall L : line,
  line_ok L ->
  forall (fuel : nat) (u v w : value) (c1 c2 c3 : Z),
  vok L u ->
  vok L v ->
  vok L w ->
  v_cmp fuel u v = ROk c1 ->
  v_cmp fuel v w = ROk c2 -> v_cmp fuel u w = ROk c3 -> (c1 <= 0)%Z -> (c2 <= 0)%Z -> (c3 <= 0)%Z.
Proof. exact v_cmp_trans. Qed.
Print Assumptions C08_cmp_trans_cond.
(* equal numbers in different representations compare equal, and only those *)
Theorem C08_cmp_eq_iff_cond :
  forall L : line,
  line_ok L ->
  forall (fuel : nat) (u v : value) (c : Z),
  vok L u -> vok L v -> v_cmp fuel u v = ROk c -> c = 0%Z <-> eeq L (den L u) (den L v).
Proof. exact v_cmp_eq_iff. Qed.
Print Assumptions C08_cmp_eq_iff_cond.
Theorem C08_cmp_lt_iff_cond :
  forall L : line,
  line_ok L ->
  forall (fuel : nat) (u v : value) (c : Z),
  vok L u -> vok L v -> v_cmp fuel u v = ROk c -> (c < 0)%Z <-> ecmp L (den L u) (den L v) = Lt.
Proof. exact v_cmp_lt_iff. Qed.
Print Assumptions C08_cmp_lt_iff_cond.
(* the result depends only on the two numbers *)
Theorem C08_cmp_repr_indep_cond :
  forall L : line,
  line_ok L ->
  forall (fuel : nat) (u u' v v' : value) (c c' : Z),
  vok L u ->
  vok L u' ->
  vok L v ->
  vok L v' ->
  eeq L (den L u) (den L u') ->
  eeq L (den L v) (den L v') -> v_cmp fuel u v = ROk c -> v_cmp fuel u' v' = ROk c' -> Z.sgn c = Z.sgn c'.
Proof. exact cmp_repr_indep. Qed.
Print Assumptions C08_cmp_repr_indep_cond.
(* the `v1 == v2` shortcut agrees with the order *)
Theorem C08_cmp_same_object_cond :
  forall L : line,
  line_ok L ->
  forall (fuel : nat) (u : value),
  vok L u -> v_cmp_ptr true fuel u u = ROk 0%Z /\ ecmp L (den L u) (den L u) = Eq.
Proof. exact v_cmp_ptr_spec. Qed.
Print Assumptions C08_cmp_same_object_cond.
(* FULL: no assert(0) of the dispatch is reachable *)
Theorem C08_cmp_never_undefined :
  forall (fuel : nat) (u v : value), v_cmp fuel u v <> RUndef.
Proof. exact v_cmp_defined. Qed.
Print Assumptions C08_cmp_never_undefined.
(* FULL: fuel matters only for algebraic x algebraic *)
Theorem C08_cmp_total :
  forall (fuel : nat) (u v : value), is_alg u && is_alg v = false -> exists c : Z, v_cmp fuel u v = ROk c.
Proof. exact v_cmp_total. Qed.
Print Assumptions C08_cmp_total.
Theorem C08_cmp_rational_cond :
  forall L : line,
  line_ok L ->
  forall (v : value) (q : rat) (c : Z),
  vok L v ->
  q_wf q -> v_cmp_rational v q = ROk c -> Z.sgn c = cmp_to_Z (ecmp L (den L v) (EFin (LQ L (QofR q)))).
Proof. exact v_cmp_rational_spec. Qed.
Print Assumptions C08_cmp_rational_cond.
Theorem C08_sgn_cond :
  forall L : line, line_ok L -> forall v : value, vok L v -> v_sgn v = cmp_to_Z (ecmp L (den L v) (ezero L)).
Proof. exact v_sgn_spec. Qed.
Print Assumptions C08_sgn_cond.
Theorem C08_sgn_repr_indep_cond :
  forall L : line,
  line_ok L -> forall u v : value, vok L u -> vok L v -> eeq L (den L u) (den L v) -> v_sgn u = v_sgn v.
Proof. exact sgn_repr_indep. Qed.
Print Assumptions C08_sgn_repr_indep_cond.

(* 2. arithmetic incl. the infinity tables (eadd / emul / eneg), and exactly which cases are undefined *)
Theorem C08_add_cond :
  forall L : line,
  line_ok L ->
  forall (fuel : nat) (u v w : value),
  vok L u ->
  vok L v ->
  v_add fuel u v = ROk w ->
  vok L w /\ (exists e : ext (LR L), eadd L (den L u) (den L v) = Some e /\ eeq L (den L w) e).
Proof. exact v_add_spec. Qed.
Print Assumptions C08_add_cond.
(* undefined exactly for (+inf)+(-inf) and (-inf)+(+inf) *)
Theorem C08_add_undef_iff :
  forall (L : line) (fuel : nat) (u v : value), v_add fuel u v = RUndef <-> eadd L (den L u) (den L v) = None.
Proof. exact v_add_undef_iff. Qed.
Print Assumptions C08_add_undef_iff.
Theorem C08_neg_cond :
  forall L : line,
  line_ok L -> forall u : value, vok L u -> vok L (v_neg u) /\ eeq L (den L (v_neg u)) (eneg L (den L u)).
Proof. exact v_neg_spec. Qed.
Print Assumptions C08_neg_cond.
Theorem C08_sub_cond :
  forall L : line,
  line_ok L ->
  forall (fuel : nat) (u v w : value),
  vok L u ->
  vok L v ->
  v_sub fuel u v = ROk w ->
  vok L w /\ (exists e : ext (LR L), esub L (den L u) (den L v) = Some e /\ eeq L (den L w) e).
Proof. exact v_sub_spec. Qed.
Print Assumptions C08_sub_cond.
Theorem C08_mul_cond :
  forall L : line,
  line_ok L ->
  forall (fuel : nat) (u v w : value),
  vok L u ->
  vok L v ->
  v_mul fuel u v = ROk w ->
  vok L w /\ (exists e : ext (LR L), emul L (den L u) (den L v) = Some e /\ eeq L (den L w) e).
Proof. exact v_mul_spec. Qed.
Print Assumptions C08_mul_cond.
(* undefined exactly for 0 * inf *)
Theorem C08_mul_undef_iff_cond :
  forall L : line,
  line_ok L ->
  forall (fuel : nat) (u v : value),
  vok L u -> vok L v -> v_mul fuel u v = RUndef <-> emul L (den L u) (den L v) = None.
Proof. exact v_mul_undef_iff. Qed.
Print Assumptions C08_mul_undef_iff_cond.
Theorem C08_inv_cond :
  forall L : line,
  line_ok L ->
  forall (fuel : nat) (a w : value),
  vok L a ->
  v_inv fuel a = ROk w ->
  vok L w /\
  match den L a with
  | EFin x => exists y : LR L, den L w = EFin y /\ Leq L (Lmul L y x) (LQ L 1)
  | _ => eeq L (den L w) (ezero L)
  end.
Proof. exact v_inv_spec. Qed.
Print Assumptions C08_inv_cond.
(* undefined exactly for 0 *)
Theorem C08_inv_undef_iff_cond :
  forall L : line,
  line_ok L -> forall (fuel : nat) (a : value), vok L a -> v_inv fuel a = RUndef <-> eeq L (den L a) (ezero L).
Proof. exact v_inv_undef_iff. Qed.
Print Assumptions C08_inv_undef_iff_cond.
Theorem C08_div_cond :
  forall L : line,
  line_ok L ->
  forall (fuel : nat) (a b w : value),
  vok L a ->
  vok L b ->
  v_div fuel a b = ROk w ->
  vok L w /\
  (exists bi : value,
  v_inv fuel b = ROk bi /\
  vok L bi /\ (exists e : ext (LR L), emul L (den L a) (den L bi) = Some e /\ eeq L (den L w) e)).
Proof. exact v_div_spec. Qed.
Print Assumptions C08_div_cond.
Theorem C08_div_fin_cond :
  forall L : line,
  line_ok L ->
  forall (fuel : nat) (a b w : value) (x y : LR L),
  vok L a ->
  vok L b ->
  v_div fuel a b = ROk w ->
  den L a = EFin x ->
  den L b = EFin y -> exists i z : LR L, Leq L (Lmul L i y) (LQ L 1) /\ den L w = EFin z /\ Leq L z (Lmul L x i).
Proof. exact v_div_fin_spec. Qed.
Print Assumptions C08_div_fin_cond.
(* repaired code: (+inf)^n = +inf; see History_C08.v for the pinned one *)
Theorem C08_pow_cond :
  forall L : line,
  line_ok L ->
  forall (fuel : nat) (a : value) (n : N) (w : value),
  vok L a ->
  v_pow fuel a n = ROk w ->
  vok L w /\
  match den L a with
  | EMinf => den L w = (if N.odd n then EMinf else EPinf)
  | EFin x => exists z : LR L, den L w = EFin z /\ Leq L z (Lpow L x (N.to_nat n))
  | EPinf => den L w = EPinf
  end.
Proof. exact v_pow_spec. Qed.
Print Assumptions C08_pow_cond.

(* 3. floor, ceiling, integrality, rational extraction *)
Theorem C08_floor_cond :
  forall L : line,
  line_ok L ->
  forall (v : value) (z : Z),
  vok L v -> int_free v -> v_floor v = ROk z -> exists x : LR L, den L v = EFin x /\ is_floor L z x.
Proof. exact v_floor_spec. Qed.
Print Assumptions C08_floor_cond.
Theorem C08_ceiling_cond :
  forall L : line,
  line_ok L ->
  forall (v : value) (z : Z),
  vok L v -> int_free v -> v_ceiling v = ROk z -> exists x : LR L, den L v = EFin x /\ is_ceiling L z x.
Proof. exact v_ceiling_spec. Qed.
Print Assumptions C08_ceiling_cond.
Theorem C08_floor_undef_iff :
  forall v : value, v_floor v = RUndef <-> ~ fin v.
Proof. exact v_floor_undef_iff. Qed.
Print Assumptions C08_floor_undef_iff.
Theorem C08_is_integer_cond :
  forall L : line,
  line_ok L ->
  forall v : value,
  vok L v -> int_free v -> v_is_integer v = true <-> (exists z : Z, eeq L (den L v) (EFin (LQ L (inject_Z z)))).
Proof. exact v_is_integer_spec. Qed.
Print Assumptions C08_is_integer_cond.
(* one-sided: the code documents is_rational as incomplete for algebraic numbers *)
Theorem C08_is_rational_sound_cond :
  forall L : line,
  line_ok L ->
  forall v : value,
  vok L v ->
  v_is_rational v = true ->
  exists q : rat, v_get_rational v = ROk q /\ q_wf q /\ eeq L (den L v) (EFin (LQ L (QofR q))).
Proof. exact v_is_rational_sound. Qed.
Print Assumptions C08_is_rational_sound_cond.
Theorem C08_get_rational_cond :
  forall L : line,
  line_ok L ->
  forall (v : value) (q : rat),
  vok L v -> v_get_rational v = ROk q -> q_wf q /\ eeq L (den L v) (EFin (LQ L (QofR q))).
Proof. exact v_get_rational_spec. Qed.
Print Assumptions C08_get_rational_cond.
(* num/den is THE canonical fraction of the number *)
Theorem C08_num_den_cond :
  forall L : line,
  line_ok L ->
  forall (v : value) (n d : Z),
  vok L v ->
  v_get_num v = ROk n ->
  v_get_den v = ROk d -> v_is_rational v = true /\ q_wf (n, d) /\ eeq L (den L v) (EFin (LQ L (QofR (n, d)))).
Proof. exact v_get_num_den_spec. Qed.
Print Assumptions C08_num_den_cond.
(* FULL *)
Theorem C08_num_den_defined :
  forall v : value, v_is_rational v = true -> exists n d : Z, v_get_num v = ROk n /\ v_get_den v = ROk d.
Proof. exact v_get_num_defined. Qed.
Print Assumptions C08_num_den_defined.
Theorem C08_floor_repr_indep_cond :
  forall L : line,
  line_ok L ->
  forall (u v : value) (a b : Z),
  vok L u ->
  vok L v ->
  int_free u -> int_free v -> eeq L (den L u) (den L v) -> v_floor u = ROk a -> v_floor v = ROk b -> a = b.
Proof. exact floor_repr_indep. Qed.
Print Assumptions C08_floor_repr_indep_cond.
Theorem C08_ceiling_repr_indep_cond :
  forall L : line,
  line_ok L ->
  forall (u v : value) (a b : Z),
  vok L u ->
  vok L v ->
  int_free u -> int_free v -> eeq L (den L u) (den L v) -> v_ceiling u = ROk a -> v_ceiling v = ROk b -> a = b.
Proof. exact ceiling_repr_indep. Qed.
Print Assumptions C08_ceiling_repr_indep_cond.
Theorem C08_is_integer_repr_indep_cond :
  forall L : line,
  line_ok L ->
  forall u v : value,
  vok L u -> vok L v -> int_free u -> int_free v -> eeq L (den L u) (den L v) -> v_is_integer u = v_is_integer v.
Proof. exact is_integer_repr_indep. Qed.
Print Assumptions C08_is_integer_repr_indep_cond.
Theorem C08_num_den_repr_indep_cond :
  forall L : line,
  line_ok L ->
  forall (u v : value) (n d n' d' : Z),
  vok L u ->
  vok L v ->
  eeq L (den L u) (den L v) ->
  v_get_num u = ROk n -> v_get_den u = ROk d -> v_get_num v = ROk n' -> v_get_den v = ROk d' -> n = n' /\ d = d'.
Proof. exact num_den_repr_indep. Qed.
Print Assumptions C08_num_den_repr_indep_cond.

(* 4. picking a value between two bounds *)
(* FULL (pure Q): the rational picker respects both strictness flags *)
Theorem C08_pick_sound :
  forall (fuel : nat) (a : rat) (sa : bool) (b : rat) (sb : bool) (r : rat),
  q_wf a ->
  q_wf b ->
  QofR a < QofR b ->
  v_pick fuel a sa b sb = Some r -> q_wf r /\ bnd_lo sa (QofR a) (QofR r) /\ bnd_hi sb (QofR r) (QofR b).
Proof. exact v_pick_sound. Qed.
Print Assumptions C08_pick_sound.
(* FULL (pure Q): an integer whenever the hulls admit one *)
Theorem C08_pick_prefers_int :
  forall (fuel : nat) (a : rat) (sa : bool) (b : rat) (sb : bool) (r : rat) (k : Z),
  q_wf a ->
  q_wf b ->
  QofR a < QofR b ->
  v_pick fuel a sa b sb = Some r ->
  bnd_lo sa (QofR a) (inject_Z k) -> bnd_hi sb (inject_Z k) (QofR b) -> q_is_integer r = true.
Proof. exact v_pick_prefers_int. Qed.
Print Assumptions C08_pick_prefers_int.
Theorem C08_cmp_sep_cond :
  forall L : line,
  line_ok L ->
  forall (fuel : nat) (a b : value) (c : Z) (a1 b1 : value),
  vok L a ->
  vok L b ->
  v_cmp_sep fuel a b = ROk (c, a1, b1) ->
  Z.sgn c = cmp_to_Z (ecmp L (den L a) (den L b)) /\
  vok L a1 /\ vok L b1 /\ eeq L (den L a1) (den L a) /\ eeq L (den L b1) (den L b) /\ (c <> 0%Z -> sepd a1 b1).
Proof. exact v_cmp_sep_spec. Qed.
Print Assumptions C08_cmp_sep_cond.
Theorem C08_between_cond :
  forall L : line,
  line_ok L ->
  forall (fuel : nat) (a : value) (sa : bool) (b : value) (sb : bool) (v : value),
  vok L a ->
  vok L b ->
  v_between fuel a sa b sb = ROk v ->
  vok L v /\
  match ecmp L (den L a) (den L b) with
  | Gt => within L (den L b) sb (den L v) (den L a) sa
  | _ => within L (den L a) sa (den L v) (den L b) sb
  end.
Proof. exact v_between_spec. Qed.
Print Assumptions C08_between_cond.
Theorem C08_between_undef_equal_cond :
  forall L : line,
  line_ok L ->
  forall (fuel : nat) (a : value) (sa : bool) (b : value) (sb : bool),
  vok L a -> vok L b -> eeq L (den L a) (den L b) -> v_between fuel a sa b sb = RUndef -> sa || sb = true.
Proof. exact v_between_undef_equal. Qed.
Print Assumptions C08_between_undef_equal_cond.

(* "an integer whenever the bounds admit one" for ALL kinds of bounds, proper algebraic numbers included: needs the
   constructor invariant int_free of the bounds, which every refinement step preserves *)
Theorem C08_between_prefers_int_cond :
  forall L : line,
  line_ok L ->
  forall (fuel : nat) (a : value) (sa : bool) (b : value) (sb : bool) (v : value) (k : Z),
  vok L a ->
  vok L b ->
  int_free a ->
  int_free b ->
  v_between fuel a sa b sb = ROk v ->
  match ecmp L (den L a) (den L b) with
  | Eq => False
  | Lt => within L (den L a) sa (EFin (LQ L (inject_Z k))) (den L b) sb
  | Gt => within L (den L b) sb (EFin (LQ L (inject_Z k))) (den L a) sa
  end -> v_is_integer v = true.
Proof. exact v_between_prefers_int. Qed.
Print Assumptions C08_between_prefers_int_cond.
(* the same without int_free, for bounds whose hulls are exact (all non-algebraic kinds,
   algebraic points, degree-1 algebraic numbers, infinities) *)
Theorem C08_between_prefers_int_exact_hulls_cond :
  forall L : line,
  line_ok L ->
  forall (fuel : nat) (a : value) (sa : bool) (b : value) (sb : bool) (v : value) (k : Z),
  vok L a ->
  vok L b ->
  ratlike a ->
  ratlike b ->
  v_between fuel a sa b sb = ROk v ->
  match ecmp L (den L a) (den L b) with
  | Eq => False
  | Lt => within L (den L a) sa (EFin (LQ L (inject_Z k))) (den L b) sb
  | Gt => within L (den L b) sb (EFin (LQ L (inject_Z k))) (den L a) sa
  end -> v_is_integer v = true.
Proof. exact v_between_prefers_int_partial. Qed.
Print Assumptions C08_between_prefers_int_exact_hulls_cond.
Theorem C08_between_prefers_int_points_full :
  forall (fuel : nat) (a : value) (sa : bool) (b : value) (sb : bool) (v : value) (k : Z),
  vok QL a ->
  vok QL b ->
  ratlike a ->
  ratlike b ->
  v_between fuel a sa b sb = ROk v ->
  match ecmp QL (den QL a) (den QL b) with
  | Eq => False
  | Lt => within QL (den QL a) sa (EFin (LQ QL (inject_Z k))) (den QL b) sb
  | Gt => within QL (den QL b) sb (EFin (LQ QL (inject_Z k))) (den QL a) sa
  end -> v_is_integer v = true.
Proof. exact (v_between_prefers_int_partial QL QL_ok). Qed.
Print Assumptions C08_between_prefers_int_points_full.

(* 5. hashing: the bisection path depends only on the number *)
Theorem C08_hash_path_cond :
  forall L : line,
  line_ok L ->
  forall (prec : N) (u v : value),
  vok L u ->
  vok L v -> int_free u -> int_free v -> eeq L (den L u) (den L v) -> v_hash_path prec u = v_hash_path prec v.
Proof. exact v_hash_path_spec. Qed.
Print Assumptions C08_hash_path_cond.

(* 6. the premises are satisfiable: Q with point payloads is a line; closed (FULL) instances for every kind of value *)
(* FULL *)
Theorem C08_line_instance :
  line_ok QL.
Proof. exact QL_ok. Qed.
Print Assumptions C08_line_instance.
Theorem C08_cmp_points_full :
  forall (fuel : nat) (u v : value) (c : Z),
  vok QL u -> vok QL v -> v_cmp fuel u v = ROk c -> Z.sgn c = cmp_to_Z (ecmp QL (den QL u) (den QL v)).
Proof. exact (v_cmp_spec QL QL_ok). Qed.
Print Assumptions C08_cmp_points_full.
Theorem C08_cmp_trans_points_full :
  forall (fuel : nat) (u v w : value) (c1 c2 c3 : Z),
  vok QL u ->
  vok QL v ->
  vok QL w ->
  v_cmp fuel u v = ROk c1 ->
  v_cmp fuel v w = ROk c2 -> v_cmp fuel u w = ROk c3 -> (c1 <= 0)%Z -> (c2 <= 0)%Z -> (c3 <= 0)%Z.
Proof. exact (v_cmp_trans QL QL_ok). Qed.
Print Assumptions C08_cmp_trans_points_full.
Theorem C08_cmp_eq_iff_points_full :
  forall (fuel : nat) (u v : value) (c : Z),
  vok QL u -> vok QL v -> v_cmp fuel u v = ROk c -> c = 0%Z <-> eeq QL (den QL u) (den QL v).
Proof. exact (v_cmp_eq_iff QL QL_ok). Qed.
Print Assumptions C08_cmp_eq_iff_points_full.
Theorem C08_add_points_full :
  forall (fuel : nat) (u v w : value),
  vok QL u ->
  vok QL v ->
  v_add fuel u v = ROk w ->
  vok QL w /\ (exists e : ext (LR QL), eadd QL (den QL u) (den QL v) = Some e /\ eeq QL (den QL w) e).
Proof. exact (v_add_spec QL QL_ok). Qed.
Print Assumptions C08_add_points_full.
Theorem C08_sub_points_full :
  forall (fuel : nat) (u v w : value),
  vok QL u ->
  vok QL v ->
  v_sub fuel u v = ROk w ->
  vok QL w /\ (exists e : ext (LR QL), esub QL (den QL u) (den QL v) = Some e /\ eeq QL (den QL w) e).
Proof. exact (v_sub_spec QL QL_ok). Qed.
Print Assumptions C08_sub_points_full.
Theorem C08_mul_points_full :
  forall (fuel : nat) (u v w : value),
  vok QL u ->
  vok QL v ->
  v_mul fuel u v = ROk w ->
  vok QL w /\ (exists e : ext (LR QL), emul QL (den QL u) (den QL v) = Some e /\ eeq QL (den QL w) e).
Proof. exact (v_mul_spec QL QL_ok). Qed.
Print Assumptions C08_mul_points_full.
Theorem C08_inv_points_full :
  forall (fuel : nat) (a w : value),
  vok QL a ->
  v_inv fuel a = ROk w ->
  vok QL w /\
  match den QL a with
  | EFin x => exists y : LR QL, den QL w = EFin y /\ Leq QL (Lmul QL y x) (LQ QL 1)
  | _ => eeq QL (den QL w) (ezero QL)
  end.
Proof. exact (v_inv_spec QL QL_ok). Qed.
Print Assumptions C08_inv_points_full.
Theorem C08_pow_points_full :
  forall (fuel : nat) (a : value) (n : N) (w : value),
  vok QL a ->
  v_pow fuel a n = ROk w ->
  vok QL w /\
  match den QL a with
  | EMinf => den QL w = (if N.odd n then EMinf else EPinf)
  | EFin x => exists z : LR QL, den QL w = EFin z /\ Leq QL z (Lpow QL x (N.to_nat n))
  | EPinf => den QL w = EPinf
  end.
Proof. exact (v_pow_spec QL QL_ok). Qed.
Print Assumptions C08_pow_points_full.
Theorem C08_floor_points_full :
  forall (v : value) (z : Z),
  vok QL v -> int_free v -> v_floor v = ROk z -> exists x : LR QL, den QL v = EFin x /\ is_floor QL z x.
Proof. exact (v_floor_spec QL QL_ok). Qed.
Print Assumptions C08_floor_points_full.
Theorem C08_ceiling_points_full :
  forall (v : value) (z : Z),
  vok QL v -> int_free v -> v_ceiling v = ROk z -> exists x : LR QL, den QL v = EFin x /\ is_ceiling QL z x.
Proof. exact (v_ceiling_spec QL QL_ok). Qed.
Print Assumptions C08_ceiling_points_full.
Theorem C08_is_integer_points_full :
  forall v : value,
  vok QL v ->
  int_free v -> v_is_integer v = true <-> (exists z : Z, eeq QL (den QL v) (EFin (LQ QL (inject_Z z)))).
Proof. exact (v_is_integer_spec QL QL_ok). Qed.
Print Assumptions C08_is_integer_points_full.
Theorem C08_num_den_points_full :
  forall (v : value) (n d : Z),
  vok QL v ->
  v_get_num v = ROk n ->
  v_get_den v = ROk d -> v_is_rational v = true /\ q_wf (n, d) /\ eeq QL (den QL v) (EFin (LQ QL (QofR (n, d)))).
Proof. exact (v_get_num_den_spec QL QL_ok). Qed.
Print Assumptions C08_num_den_points_full.
Theorem C08_between_points_full :
  forall (fuel : nat) (a : value) (sa : bool) (b : value) (sb : bool) (v : value),
  vok QL a ->
  vok QL b ->
  v_between fuel a sa b sb = ROk v ->
  vok QL v /\
  match ecmp QL (den QL a) (den QL b) with
  | Gt => within QL (den QL b) sb (den QL v) (den QL a) sa
  | _ => within QL (den QL a) sa (den QL v) (den QL b) sb
  end.
Proof. exact (v_between_spec QL QL_ok). Qed.
Print Assumptions C08_between_points_full.
Theorem C08_hash_path_points_full :
  forall (prec : N) (u v : value),
  vok QL u ->
  vok QL v ->
  int_free u -> int_free v -> eeq QL (den QL u) (den QL v) -> v_hash_path prec u = v_hash_path prec v.
Proof. exact (v_hash_path_spec QL QL_ok). Qed.
Print Assumptions C08_hash_path_points_full.

(* 7. THE REAL NUMBERS.  The line is instantiated with an arbitrary real closed field R (`realfield` = MathComp's rcfType):
   carrier R, order and field operations of R, integers / dyadics / rationals embedded as ring elements, an algebraic payload
   denoting THE real number given by the reference semantics rn_denotes (ValueReal.rden).  C08_real_line discharges
   EVERY premise of `line_ok` - the order/field laws from R, the payload obligations (A_cmp_q A_cmp A_add A_mul A_neg A_inv
   A_refine A_lin P_RA D_RQ) from the proved reference (Properties_Base: Base_rn_cmp_q Base_rn_cmp Base_rn_add Base_rn_mul
   Base_rn_neg Base_rn_inv Base_rn_refine) - so the `_real_full` theorems below carry NO premise besides the
   representation invariants (`vok (real_line R) v`: canonical rational / normalised dyadic / a payload that denotes a
   real number with canonical interval ends, which C08_real_valid derives from the drivers' check rn_valid; `int_free`
   where the code relies on it).  Fuelled reference operations: every statement is "whenever the model answers".
   The names real_* are plain-syntax aliases defined in ValueReal.v (real_lt R a b := a < b in R, ...). *)
From LP Require Import ValueReal.
(* every real closed field is a line: ALL premises of the _cond theorems hold, the payload obligations by Properties_Base *)
Theorem C08_real_line :
  forall R : realfield, line_ok (real_line R).
Proof. exact (real_line_ok). Qed.
Print Assumptions C08_real_line.
(* its operations are the field operations *)
Theorem C08_real_line_ops :
  forall (R : realfield) (a b : LR (real_line R)),
  Ladd (real_line R) a b = real_add (R:=R) a b /\
  Lmul (real_line R) a b = real_mul (R:=R) a b /\ Lopp (real_line R) a = real_opp (R:=R) a.
Proof. exact (real_line_ops). Qed.
Print Assumptions C08_real_line_ops.
(* its order is the order of the field *)
Theorem C08_real_line_lt :
  forall (R : realfield) (a b : LR (real_line R)), Lcmp (real_line R) a b = Lt <-> real_lt (R:=R) a b.
Proof. exact (real_line_lt). Qed.
Print Assumptions C08_real_line_lt.
Theorem C08_real_line_eq :
  forall (R : realfield) (a b : LR (real_line R)), Lcmp (real_line R) a b = Eq <-> a = b.
Proof. exact (real_line_eq). Qed.
Print Assumptions C08_real_line_eq.
(* an algebraic payload denotes THE real number the reference semantics (RefAlgSpec.rn_denotes) gives it *)
Theorem C08_real_den_alg :
  forall (R : realfield) (x : rnum) (v : LR (real_line R)),
  real_denotes (R:=R) x v -> rn_canon x -> vok (real_line R) (VAlg x) /\ den (real_line R) (VAlg x) = EFin v.
Proof. exact (real_line_den_alg). Qed.
Print Assumptions C08_real_den_alg.
(* every representation accepted by the drivers' validity check (rn_valid) is covered *)
Theorem C08_real_valid :
  forall (R : realfield) (x : rnum), rn_valid x = true -> vok (real_line R) (VAlg (rn_norm x)).
Proof. exact (real_line_valid). Qed.
Print Assumptions C08_real_valid.
Theorem C08_real_den_int :
  forall (R : realfield) (z : Z), den (real_line R) (VInt z) = EFin (real_of_Z R z).
Proof. exact (real_line_den_int). Qed.
Print Assumptions C08_real_den_int.
Theorem C08_real_den_rat :
  forall (R : realfield) (q : Z * Z), q_wf q -> den (real_line R) (VRat q) = EFin (real_of_rat R q).
Proof. exact (real_line_den_rat). Qed.
Print Assumptions C08_real_den_rat.
Theorem C08_cmp_real_full :
  forall (R : realfield) (fuel : nat) (u v : value) (c : Z),
  vok (real_line R) u ->
  vok (real_line R) v ->
  v_cmp fuel u v = ROk c -> Z.sgn c = cmp_to_Z (ecmp (real_line R) (den (real_line R) u) (den (real_line R) v)).
Proof. exact (fun R : realfield => v_cmp_spec (real_line R) (real_line_ok R)). Qed.
Print Assumptions C08_cmp_real_full.
Theorem C08_cmp_antisym_real_full :
  forall (R : realfield) (fuel : nat) (u v : value) (c c' : Z),
  vok (real_line R) u ->
  vok (real_line R) v -> v_cmp fuel u v = ROk c -> v_cmp fuel v u = ROk c' -> Z.sgn c' = (- Z.sgn c)%Z.
Proof. exact (fun R : realfield => v_cmp_antisym (real_line R) (real_line_ok R)). Qed.
Print Assumptions C08_cmp_antisym_real_full.
Theorem C08_cmp_trans_real_full :
  forall (R : realfield) (fuel : nat) (u v w : value) (c1 c2 c3 : Z),
  vok (real_line R) u ->
  vok (real_line R) v ->
  vok (real_line R) w ->
  v_cmp fuel u v = ROk c1 ->
  v_cmp fuel v w = ROk c2 -> v_cmp fuel u w = ROk c3 -> (c1 <= 0)%Z -> (c2 <= 0)%Z -> (c3 <= 0)%Z.
Proof. exact (fun R : realfield => v_cmp_trans (real_line R) (real_line_ok R)). Qed.
Print Assumptions C08_cmp_trans_real_full.
Theorem C08_cmp_eq_iff_real_full :
  forall (R : realfield) (fuel : nat) (u v : value) (c : Z),
  vok (real_line R) u ->
  vok (real_line R) v ->
  v_cmp fuel u v = ROk c -> c = 0%Z <-> eeq (real_line R) (den (real_line R) u) (den (real_line R) v).
Proof. exact (fun R : realfield => v_cmp_eq_iff (real_line R) (real_line_ok R)). Qed.
Print Assumptions C08_cmp_eq_iff_real_full.
Theorem C08_cmp_lt_iff_real_full :
  forall (R : realfield) (fuel : nat) (u v : value) (c : Z),
  vok (real_line R) u ->
  vok (real_line R) v ->
  v_cmp fuel u v = ROk c -> (c < 0)%Z <-> ecmp (real_line R) (den (real_line R) u) (den (real_line R) v) = Lt.
Proof. exact (fun R : realfield => v_cmp_lt_iff (real_line R) (real_line_ok R)). Qed.
Print Assumptions C08_cmp_lt_iff_real_full.
Theorem C08_cmp_repr_indep_real_full :
  forall (R : realfield) (fuel : nat) (u u' v v' : value) (c c' : Z),
  vok (real_line R) u ->
  vok (real_line R) u' ->
  vok (real_line R) v ->
  vok (real_line R) v' ->
  eeq (real_line R) (den (real_line R) u) (den (real_line R) u') ->
  eeq (real_line R) (den (real_line R) v) (den (real_line R) v') ->
  v_cmp fuel u v = ROk c -> v_cmp fuel u' v' = ROk c' -> Z.sgn c = Z.sgn c'.
Proof. exact (fun R : realfield => cmp_repr_indep (real_line R) (real_line_ok R)). Qed.
Print Assumptions C08_cmp_repr_indep_real_full.
Theorem C08_cmp_rational_real_full :
  forall (R : realfield) (v : value) (q : rat) (c : Z),
  vok (real_line R) v ->
  q_wf q ->
  v_cmp_rational v q = ROk c ->
  Z.sgn c = cmp_to_Z (ecmp (real_line R) (den (real_line R) v) (EFin (LQ (real_line R) (QofR q)))).
Proof. exact (fun R : realfield => v_cmp_rational_spec (real_line R) (real_line_ok R)). Qed.
Print Assumptions C08_cmp_rational_real_full.
Theorem C08_sgn_real_full :
  forall (R : realfield) (v : value),
  vok (real_line R) v -> v_sgn v = cmp_to_Z (ecmp (real_line R) (den (real_line R) v) (ezero (real_line R))).
Proof. exact (fun R : realfield => v_sgn_spec (real_line R) (real_line_ok R)). Qed.
Print Assumptions C08_sgn_real_full.
Theorem C08_add_real_full :
  forall (R : realfield) (fuel : nat) (u v w : value),
  vok (real_line R) u ->
  vok (real_line R) v ->
  v_add fuel u v = ROk w ->
  vok (real_line R) w /\
  (exists e : ext (LR (real_line R)),
  eadd (real_line R) (den (real_line R) u) (den (real_line R) v) = Some e /\
  eeq (real_line R) (den (real_line R) w) e).
Proof. exact (fun R : realfield => v_add_spec (real_line R) (real_line_ok R)). Qed.
Print Assumptions C08_add_real_full.
Theorem C08_neg_real_full :
  forall (R : realfield) (u : value),
  vok (real_line R) u ->
  vok (real_line R) (v_neg u) /\
  eeq (real_line R) (den (real_line R) (v_neg u)) (eneg (real_line R) (den (real_line R) u)).
Proof. exact (fun R : realfield => v_neg_spec (real_line R) (real_line_ok R)). Qed.
Print Assumptions C08_neg_real_full.
Theorem C08_sub_real_full :
  forall (R : realfield) (fuel : nat) (u v w : value),
  vok (real_line R) u ->
  vok (real_line R) v ->
  v_sub fuel u v = ROk w ->
  vok (real_line R) w /\
  (exists e : ext (LR (real_line R)),
  esub (real_line R) (den (real_line R) u) (den (real_line R) v) = Some e /\
  eeq (real_line R) (den (real_line R) w) e).
Proof. exact (fun R : realfield => v_sub_spec (real_line R) (real_line_ok R)). Qed.
Print Assumptions C08_sub_real_full.
Theorem C08_mul_real_full :
  forall (R : realfield) (fuel : nat) (u v w : value),
  vok (real_line R) u ->
  vok (real_line R) v ->
  v_mul fuel u v = ROk w ->
  vok (real_line R) w /\
  (exists e : ext (LR (real_line R)),
  emul (real_line R) (den (real_line R) u) (den (real_line R) v) = Some e /\
  eeq (real_line R) (den (real_line R) w) e).
Proof. exact (fun R : realfield => v_mul_spec (real_line R) (real_line_ok R)). Qed.
Print Assumptions C08_mul_real_full.
Theorem C08_mul_undef_iff_real_full :
  forall (R : realfield) (fuel : nat) (u v : value),
  vok (real_line R) u ->
  vok (real_line R) v ->
  v_mul fuel u v = RUndef <-> emul (real_line R) (den (real_line R) u) (den (real_line R) v) = None.
Proof. exact (fun R : realfield => v_mul_undef_iff (real_line R) (real_line_ok R)). Qed.
Print Assumptions C08_mul_undef_iff_real_full.
Theorem C08_inv_real_full :
  forall (R : realfield) (fuel : nat) (a w : value),
  vok (real_line R) a ->
  v_inv fuel a = ROk w ->
  vok (real_line R) w /\
  match den (real_line R) a with
  | EFin x =>
  exists y : LR (real_line R),
  den (real_line R) w = EFin y /\ Leq (real_line R) (Lmul (real_line R) y x) (LQ (real_line R) 1)
  | _ => eeq (real_line R) (den (real_line R) w) (ezero (real_line R))
  end.
Proof. exact (fun R : realfield => v_inv_spec (real_line R) (real_line_ok R)). Qed.
Print Assumptions C08_inv_real_full.
Theorem C08_inv_undef_iff_real_full :
  forall (R : realfield) (fuel : nat) (a : value),
  vok (real_line R) a -> v_inv fuel a = RUndef <-> eeq (real_line R) (den (real_line R) a) (ezero (real_line R)).
Proof. exact (fun R : realfield => v_inv_undef_iff (real_line R) (real_line_ok R)). Qed.
Print Assumptions C08_inv_undef_iff_real_full.
Theorem C08_div_real_full :
  forall (R : realfield) (fuel : nat) (a b w : value),
  vok (real_line R) a ->
  vok (real_line R) b ->
  v_div fuel a b = ROk w ->
  vok (real_line R) w /\
  (exists bi : value,
  v_inv fuel b = ROk bi /\
  vok (real_line R) bi /\
  (exists e : ext (LR (real_line R)),
  emul (real_line R) (den (real_line R) a) (den (real_line R) bi) = Some e /\
  eeq (real_line R) (den (real_line R) w) e)).
Proof. exact (fun R : realfield => v_div_spec (real_line R) (real_line_ok R)). Qed.
Print Assumptions C08_div_real_full.
Theorem C08_pow_real_full :
  forall (R : realfield) (fuel : nat) (a : value) (n : N) (w : value),
  vok (real_line R) a ->
  v_pow fuel a n = ROk w ->
  vok (real_line R) w /\
  match den (real_line R) a with
  | EMinf => den (real_line R) w = (if N.odd n then EMinf else EPinf)
  | EFin x =>
  exists z : LR (real_line R),
  den (real_line R) w = EFin z /\ Leq (real_line R) z (Lpow (real_line R) x (N.to_nat n))
  | EPinf => den (real_line R) w = EPinf
  end.
Proof. exact (fun R : realfield => v_pow_spec (real_line R) (real_line_ok R)). Qed.
Print Assumptions C08_pow_real_full.
Theorem C08_floor_real_full :
  forall (R : realfield) (v : value) (z : Z),
  vok (real_line R) v ->
  int_free v ->
  v_floor v = ROk z -> exists x : LR (real_line R), den (real_line R) v = EFin x /\ is_floor (real_line R) z x.
Proof. exact (fun R : realfield => v_floor_spec (real_line R) (real_line_ok R)). Qed.
Print Assumptions C08_floor_real_full.
Theorem C08_ceiling_real_full :
  forall (R : realfield) (v : value) (z : Z),
  vok (real_line R) v ->
  int_free v ->
  v_ceiling v = ROk z ->
  exists x : LR (real_line R), den (real_line R) v = EFin x /\ is_ceiling (real_line R) z x.
Proof. exact (fun R : realfield => v_ceiling_spec (real_line R) (real_line_ok R)). Qed.
Print Assumptions C08_ceiling_real_full.
Theorem C08_is_integer_real_full :
  forall (R : realfield) (v : value),
  vok (real_line R) v ->
  int_free v ->
  v_is_integer v = true <->
  (exists z : Z, eeq (real_line R) (den (real_line R) v) (EFin (LQ (real_line R) (inject_Z z)))).
Proof. exact (fun R : realfield => v_is_integer_spec (real_line R) (real_line_ok R)). Qed.
Print Assumptions C08_is_integer_real_full.
Theorem C08_is_rational_sound_real_full :
  forall (R : realfield) (v : value),
  vok (real_line R) v ->
  v_is_rational v = true ->
  exists q : rat,
  v_get_rational v = ROk q /\
  q_wf q /\ eeq (real_line R) (den (real_line R) v) (EFin (LQ (real_line R) (QofR q))).
Proof. exact (fun R : realfield => v_is_rational_sound (real_line R) (real_line_ok R)). Qed.
Print Assumptions C08_is_rational_sound_real_full.
Theorem C08_get_rational_real_full :
  forall (R : realfield) (v : value) (q : rat),
  vok (real_line R) v ->
  v_get_rational v = ROk q ->
  q_wf q /\ eeq (real_line R) (den (real_line R) v) (EFin (LQ (real_line R) (QofR q))).
Proof. exact (fun R : realfield => v_get_rational_spec (real_line R) (real_line_ok R)). Qed.
Print Assumptions C08_get_rational_real_full.
Theorem C08_num_den_real_full :
  forall (R : realfield) (v : value) (n d : Z),
  vok (real_line R) v ->
  v_get_num v = ROk n ->
  v_get_den v = ROk d ->
  v_is_rational v = true /\
  q_wf (n, d) /\ eeq (real_line R) (den (real_line R) v) (EFin (LQ (real_line R) (QofR (n, d)))).
Proof. exact (fun R : realfield => v_get_num_den_spec (real_line R) (real_line_ok R)). Qed.
Print Assumptions C08_num_den_real_full.
Theorem C08_num_den_repr_indep_real_full :
  forall (R : realfield) (u v : value) (n d n' d' : Z),
  vok (real_line R) u ->
  vok (real_line R) v ->
  eeq (real_line R) (den (real_line R) u) (den (real_line R) v) ->
  v_get_num u = ROk n -> v_get_den u = ROk d -> v_get_num v = ROk n' -> v_get_den v = ROk d' -> n = n' /\ d = d'.
Proof. exact (fun R : realfield => num_den_repr_indep (real_line R) (real_line_ok R)). Qed.
Print Assumptions C08_num_den_repr_indep_real_full.
Theorem C08_floor_repr_indep_real_full :
  forall (R : realfield) (u v : value) (a b : Z),
  vok (real_line R) u ->
  vok (real_line R) v ->
  int_free u ->
  int_free v ->
  eeq (real_line R) (den (real_line R) u) (den (real_line R) v) ->
  v_floor u = ROk a -> v_floor v = ROk b -> a = b.
Proof. exact (fun R : realfield => floor_repr_indep (real_line R) (real_line_ok R)). Qed.
Print Assumptions C08_floor_repr_indep_real_full.
Theorem C08_between_real_full :
  forall (R : realfield) (fuel : nat) (a : value) (sa : bool) (b : value) (sb : bool) (v : value),
  vok (real_line R) a ->
  vok (real_line R) b ->
  v_between fuel a sa b sb = ROk v ->
  vok (real_line R) v /\
  match ecmp (real_line R) (den (real_line R) a) (den (real_line R) b) with
  | Gt => within (real_line R) (den (real_line R) b) sb (den (real_line R) v) (den (real_line R) a) sa
  | _ => within (real_line R) (den (real_line R) a) sa (den (real_line R) v) (den (real_line R) b) sb
  end.
Proof. exact (fun R : realfield => v_between_spec (real_line R) (real_line_ok R)). Qed.
Print Assumptions C08_between_real_full.
Theorem C08_between_prefers_int_real_full :
  forall (R : realfield) (fuel : nat) (a : value) (sa : bool) (b : value) (sb : bool) (v : value) (k : Z),
  vok (real_line R) a ->
  vok (real_line R) b ->
  int_free a ->
  int_free b ->
  v_between fuel a sa b sb = ROk v ->
  match ecmp (real_line R) (den (real_line R) a) (den (real_line R) b) with
  | Eq => False
  | Lt =>
  within (real_line R) (den (real_line R) a) sa (EFin (LQ (real_line R) (inject_Z k)))
  (den (real_line R) b) sb
  | Gt =>
  within (real_line R) (den (real_line R) b) sb (EFin (LQ (real_line R) (inject_Z k)))
  (den (real_line R) a) sa
  end -> v_is_integer v = true.
Proof. exact (fun R : realfield => v_between_prefers_int (real_line R) (real_line_ok R)). Qed.
Print Assumptions C08_between_prefers_int_real_full.
Theorem C08_hash_path_real_full :
  forall (R : realfield) (prec : N) (u v : value),
  vok (real_line R) u ->
  vok (real_line R) v ->
  int_free u ->
  int_free v ->
  eeq (real_line R) (den (real_line R) u) (den (real_line R) v) -> v_hash_path prec u = v_hash_path prec v.
Proof. exact (fun R : realfield => v_hash_path_spec (real_line R) (real_line_ok R)). Qed.
Print Assumptions C08_hash_path_real_full.

(* ---- non-vacuity: the hypotheses are satisfiable and the functions compute *)
Local Open Scope Z_scope.
Definition ex_sqrt2 := VAlg (RA [-2; 0; 1] (1, 1) (2, 1)).
Definition ex_sqrt3 := VAlg (RA [-3; 0; 1] (1, 1) (2, 1)).
Example C08_ex_ok : vok QL (VAlg (RQ (3, 1))) /\ vok QL (VDy (mkDy 1 1)) /\ vok QL (VRat (1, 3)) /\ int_free ex_sqrt2.
Proof.
  repeat split; cbn; try lia; try reflexivity.
  - right; left; reflexivity.
  - intros z [H1 H2]. unfold QofR, Qlt in *. cbn in *. lia.
Qed.
Example C08_ex_cmp :
  v_cmp 10 (VInt 3) (VAlg (RQ (3, 1))) = ROk 0 /\ v_cmp 10 (VDy (mkDy 1 1)) (VRat (1, 3)) = ROk 1 /\
  v_cmp 50 ex_sqrt2 ex_sqrt3 = ROk (-1) /\ v_cmp 10 VMinf (VInt 0) = ROk (-1).
Proof. vm_compute. repeat split. Qed.
Example C08_ex_between :
  v_between 10 (VRat (1, 3)) true (VDy (mkDy 1 1)) true = ROk (VRat (3, 8)) /\
  v_between 60 ex_sqrt2 false ex_sqrt3 false = ROk (VRat (25, 16)) /\
  v_between 60 ex_sqrt3 true ex_sqrt2 true = ROk (VRat (25, 16)) /\
  v_between 60 (VInt 1) false ex_sqrt2 true = ROk (VRat (1, 1)) /\
  v_between 60 (VInt 1) true ex_sqrt2 true = ROk (VRat (9, 8)).
Proof. vm_compute. repeat split. Qed.
Example C08_ex_arith :
  v_add 60 (VInt 1) (VDy (mkDy 1 1)) = ROk (VDy (mkDy 3 1)) /\ v_mul 60 VMinf (VRat (-1, 3)) = ROk VPinf /\
  v_mul 60 VPinf (VInt 0) = RUndef /\ v_div 60 (VInt 1) (VInt 3) = ROk (VRat (1, 3)) /\
  v_pow 10 VPinf 2 = ROk VPinf /\ v_pow 10 VMinf 3 = ROk VMinf.
Proof. vm_compute. repeat split. Qed.
Example C08_ex_hash :
  v_hash_path 5 (VRat (1, 3)) = v_hash_path 5 (VAlg (RA [-1; 3] (0, 1) (1, 1))) /\
  v_hash_path 3 (VInt 3) = v_hash_path 3 (VDy (mkDy 3 0)).
Proof. vm_compute. repeat split. Qed.
Example C08_ex_floor :
  v_floor ex_sqrt2 = ROk 1 /\ v_ceiling ex_sqrt2 = ROk 2 /\ v_is_integer ex_sqrt2 = false /\
  v_get_num (VDy (mkDy 3 2)) = ROk 3 /\ v_get_den (VDy (mkDy 3 2)) = ROk 4.
Proof. vm_compute. repeat split. Qed.
(* a proper algebraic payload (sqrt 2) satisfies the invariant of the real-number instance, in every real closed field *)
Example C08_ex_real : forall R : realfield,
  vok (real_line R) (VAlg (rn_norm (RA [-2; 0; 1] (1, 1) (2, 1)))) /\
  vok (real_line R) (VAlg (rn_norm (RA [2; -6; -1; 3] (0, 1) (1, 1)))).
Proof. intros R. split; apply C08_real_valid; vm_compute; reflexivity. Qed.
