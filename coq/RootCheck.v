(* C11 / C12: the per-run ACCEPTANCE TEST of a root list read from the implementation, as executable Gallina
   (stdlib + the shared reference bases only, no proofs here).  The OCaml drivers call exactly these functions
   after extraction; RootCheckProofs.v proves that acceptance implies exactness over every real closed field.

   accept_roots fuel asg y p rs = Accept   means: rs (representations read from libpoly, each validated) denote, in
   increasing order, exactly the distinct real roots of the specialisation t |-> p(asg, y := t) - and rs = [] when
   the specialisation is constant or vanishes identically.

   Scope of the checker (otherwise it answers NotApplicable and the drivers fall back to the unverified reference):
     - every assigned value rational:          substitute, Sturm isolation (rn_roots), exact comparison;
     - exactly one irrational value alpha:     coefficients c_k(alpha) by an exact univariate sign test (gcd + Sturm),
                                               eliminant E = Res_x(A, m') (bires), candidates = ALL real roots of E
                                               (rn_roots), square-freeness by Res_y(A, dA/dy)(alpha) <> 0, and a
                                               candidate is a root iff the exact sign of A(alpha, .) changes across an
                                               isolating interval that contains no other root of E (rational
                                               candidates are tested directly). *)
From Coq Require Import ZArith NArith List Bool Arith.
From LP Require Import Scalar UPoly MPoly RefAlg.
Import ListNotations.
Local Open Scope Z_scope.

Inductive verdict := Accept | Reject | NotApplicable.

Definition asg := list (var * rnum).
Fixpoint lookup (a : asg) (x : var) : rnum :=
  match a with
  | [] => RQ (0, 1)
  | (v, r) :: a' => if N.eqb v x then r else lookup a' x
  end.

(* ---------------------------------------------------------------- exact sign of B(alpha), B a dense integer polynomial *)
Fixpoint sign_alg_loop (fuel : nat) (ps p : poly) (x : rnum) : option Z :=
  match fuel with
  | O => None
  | S f =>
    match x with
    | RQ q => Some (psgn_q p q)
    | RA _ lo hi =>
      if negb (psgn_q ps lo =? 0) && negb (psgn_q ps hi =? 0) && Nat.eqb (count_open ps lo hi) 0
      then Some (psgn_q p lo)
      else sign_alg_loop f ps p (rn_refine x)
    end
  end.
Definition sign_alg (fuel : nat) (p : poly) (x : rnum) : option Z :=
  let p := pnorm p in
  if pis_zero p then Some 0 else
  match x with
  | RQ q => Some (psgn_q p q)
  | RA m lo hi =>
    let g := pgcd p m in
    if Nat.ltb 0 (pdeg g) && Nat.ltb 0 (count_open (psqfree g) lo hi) then Some 0
    else sign_alg_loop fuel (psqfree p) p x
  end.

(* ---------------------------------------------------------------- rational substitution in a sparse polynomial *)
(* p(x := n/d) * d^deg_x(p), d > 0 *)
Definition subst_rat (x : var) (q : rat) (p : mpoly) : mpoly :=
  let D := mp_degree x p in
  mp_of_terms (map (fun t : term =>
      let e := mono_deg x (fst t) in
      (mono_remove x (fst t), snd t * Z.pow (fst q) (Z.of_N e) * Z.pow (snd q) (Z.of_N (D - e)))) p).
Fixpoint subst_rationals (a : asg) (p : mpoly) : mpoly :=
  match a with
  | [] => p
  | (v, RQ q) :: a' => subst_rationals a' (subst_rat v q p)
  | (_, RA _ _ _) :: a' => subst_rationals a' p
  end.
Definition irrationals (a : asg) : asg :=
  filter (fun vr => match snd vr with RA _ _ _ => true | RQ _ => false end) a.
Definition only_vars (vs : list var) (p : mpoly) : bool :=
  forallb (fun v => existsb (N.eqb v) vs) (mp_vars p).

(* ---------------------------------------------------------------- comparison of two root lists by denotation *)
Fixpoint same_list (fuel : nat) (a b : list rnum) : bool :=
  match a, b with
  | [], [] => true
  | x :: a', y :: b' => (match rn_cmp fuel x y with Some 0 => true | _ => false end) && same_list fuel a' b'
  | _, _ => false
  end.

(* ---------------------------------------------------------------- dense bivariate helpers (lists over powers of y of polynomials in x) *)
(* sum_k B_k(x) * n^k * d^(D-k), D = length B - 1:  d^D * B(x, n/d) *)
Definition bv_at (B : list poly) (q : rat) : poly :=
  let D := Nat.pred (length B) in
  fst (fold_left (fun (acc : poly * nat) (c : poly) =>
         (padd (fst acc) (pscale (Z.pow (fst q) (Z.of_nat (snd acc)) * Z.pow (snd q) (Z.of_nat (D - snd acc))) c), S (snd acc)))
       B ([], O)).
(* d/dy *)
Definition bv_deriv (B : list poly) : list poly :=
  match B with
  | [] => []
  | _ :: B' => map (fun kc => pscale (Z.of_nat (S (fst kc))) (snd kc)) (combine (seq 0 (length B')) B')
  end.
(* the same polynomial as a list over powers of x of polynomials in y *)
Definition bv_transpose (B : list poly) : list poly :=
  let w := fold_right (fun c acc => Nat.max (length c) acc) O B in
  map (fun j => pnorm (map (fun c => nth j c 0) B)) (seq 0 w).

(* remove from m every factor it shares with c (m stays a multiple of the minimal polynomial of any root of m that
   is not a root of c); checked afterwards, not trusted *)
Fixpoint strip_common (fuel : nat) (m c : poly) : poly :=
  match fuel with
  | O => m
  | S f =>
    let g := pgcd m c in
    if Nat.ltb (pdeg g) 1 then m
    else match pdiv_exact (ppp m) (ppp g) with
         | Some m' => strip_common f (ppp m') c
         | None => m
         end
  end.

(* shrink the enclosure of a root of the square-free e until it contains no other root of e *)
Fixpoint alone (fuel : nat) (e : poly) (r : rnum) : option rnum :=
  match fuel with
  | O => None
  | S f =>
    match r with
    | RQ _ => Some r
    | RA _ lo hi =>
      if negb (psgn_q e lo =? 0) && negb (psgn_q e hi =? 0) && Nat.eqb (count_open e lo hi) 1 then Some r
      else alone f e (rn_refine r)
    end
  end.

Fixpoint last_nonzero (signs : list Z) (i : nat) (best : option nat) : option nat :=
  match signs with
  | [] => best
  | s :: signs' => last_nonzero signs' (S i) (if s =? 0 then best else Some i)
  end.

Fixpoint all_some {A} (l : list (option A)) : option (list A) :=
  match l with
  | [] => Some []
  | Some x :: l' => match all_some l' with Some r => Some (x :: r) | None => None end
  | None :: _ => None
  end.

(* is the candidate c (a root of the eliminant e, esf its square-free part) a root of B(alpha, .)?  B square-free at alpha *)
Definition cand_is_root (fuel : nat) (B : list poly) (alpha : rnum) (esf : poly) (c : rnum) : option bool :=
  match alone fuel esf c with
  | None => None
  | Some (RQ q) =>
    match sign_alg fuel (bv_at B q) alpha with Some s => Some (s =? 0) | None => None end
  | Some (RA _ lo hi) =>
    match sign_alg fuel (bv_at B lo) alpha, sign_alg fuel (bv_at B hi) alpha with
    | Some sl, Some sh => if (sl =? 0) || (sh =? 0) then None else Some (negb (sl =? sh))
    | _, _ => None
    end
  end.

Fixpoint filter_roots (fuel : nat) (B : list poly) (alpha : rnum) (esf : poly) (cands : list rnum) : option (list rnum) :=
  match cands with
  | [] => Some []
  | c :: cands' =>
    match cand_is_root fuel B alpha esf c, filter_roots fuel B alpha esf cands' with
    | Some true, Some r => Some (c :: r)
    | Some false, Some r => Some r
    | _, _ => None
    end
  end.

(* ---------------------------------------------------------------- the two regimes *)
(* every assigned value rational: p1 only contains y *)
Definition accept_rational (fuel : nat) (y : var) (p1 : mpoly) (rs : list rnum) : verdict :=
  if negb (only_vars [y] p1) then NotApplicable else
  let u := pnorm (mp_to_upoly y p1) in
  if pis_zero u then (match rs with [] => Accept | _ => Reject end) else
  match rn_roots fuel u with
  | Some ref => if same_list fuel rs ref then Accept else Reject
  | None => NotApplicable
  end.

(* one irrational value alpha: the specialisation is  t |-> sum_k By_k(alpha) t^k  (By: polynomials in x, low y-degree first) *)
Definition accept_bv (fuel : nat) (alpha : rnum) (By : list poly) (rs : list rnum) : verdict :=
  match alpha with
  | RQ _ => NotApplicable
  | RA m lo hi =>
    match all_some (map (fun c => sign_alg fuel c alpha) By) with
    | None => NotApplicable
    | Some signs =>
      match last_nonzero signs O None with
      | None => (match rs with [] => Accept | _ => Reject end)           (* vanishes identically *)
      | Some O => (match rs with [] => Accept | _ => Reject end)         (* non-zero constant *)
      | Some d =>
        let B := firstn (S d) By in
        let lc := nth d By [] in
        let m' := strip_common fuel (psqfree m) lc in
        let alpha' := RA m' lo hi in
        if negb (rn_valid alpha' && rn_eqb alpha alpha') then NotApplicable else
        let Bx := bp_trim (bv_transpose B) in
        if Nat.ltb (length Bx) 2 then NotApplicable else
        let e := bires Bx (bp_of_upoly m') in
        if pis_zero e then NotApplicable else
        let squarefree :=
          if Nat.eqb d 1 then Some true else
          match sign_alg fuel (bires (bp_trim B) (bp_trim (bv_deriv B))) alpha with
          | Some s => Some (negb (s =? 0))
          | None => None
          end in
        match squarefree with
        | Some true =>
          match rn_roots fuel e with
          | None => NotApplicable
          | Some cands =>
            match filter_roots fuel B alpha (psqfree e) cands with
            | None => NotApplicable
            | Some ref => if same_list fuel rs ref then Accept else Reject
            end
          end
        | _ => NotApplicable
        end
      end
    end
  end.

(* p1 only contains x and y *)
Definition bv_of (x y : var) (p1 : mpoly) : list poly := map (fun c => pnorm (mp_to_upoly x c)) (mp_coeffs y p1).
Definition accept_one_alg (fuel : nat) (x y : var) (alpha : rnum) (p1 : mpoly) (rs : list rnum) : verdict :=
  if negb (only_vars [x; y] p1) || N.eqb x y then NotApplicable else accept_bv fuel alpha (bv_of x y p1) rs.

(* the checker.  Every representation is first normalised (rn_norm: square-free defining polynomial); the theorems
   speak about the normalised representations *)
Definition norm_asg (a : asg) : asg := map (fun vr => (fst vr, rn_norm (snd vr))) a.
Definition accept_roots (fuel : nat) (a : asg) (y : var) (p : mpoly) (rs : list rnum) : verdict :=
  if negb (mp_wf p) || negb (forallb rn_valid rs) || negb (forallb (fun vr => rn_valid (snd vr)) a)
     || existsb (fun vr => N.eqb (fst vr) y) a then NotApplicable else
  let a := norm_asg a in
  let rs := map rn_norm rs in
  let p1 := subst_rationals a p in
  match irrationals a with
  | [] => accept_rational fuel y p1 rs
  | [(x, alpha)] => accept_one_alg fuel x y alpha p1 rs
  | _ => NotApplicable
  end.

(* ---------------------------------------------------------------- exact oracle inputs of the C12 sweep, same scope *)
(* exact sign of the specialisation at a rational point q (one irrational parameter at most) *)
Definition sign_at (fuel : nat) (a : asg) (y : var) (p : mpoly) (q : rat) : option Z :=
  let a := norm_asg a in
  let p1 := subst_rat y q (subst_rationals a p) in
  match irrationals a with
  | [] => if only_vars [] p1 then Some (Z.sgn (match p1 with [] => 0 | (_, c) :: _ => c end)) else None
  | [(x, alpha)] => if only_vars [x] p1 then sign_alg fuel (pnorm (mp_to_upoly x p1)) alpha else None
  | _ => None
  end.
(* signs of the coefficients of y^k, low degree first *)
Definition coeff_signs (fuel : nat) (a : asg) (y : var) (p : mpoly) : option (list Z) :=
  let a := norm_asg a in
  let p1 := subst_rationals a p in
  match irrationals a with
  | [] => if only_vars [y] p1 then Some (map Z.sgn (mp_to_upoly y p1)) else None
  | [(x, alpha)] =>
    if only_vars [x; y] p1 && negb (N.eqb x y)
    then all_some (map (fun c => sign_alg fuel (pnorm (mp_to_upoly x c)) alpha) (mp_coeffs y p1)) else None
  | _ => None
  end.
