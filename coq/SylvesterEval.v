(* C04: evaluation at an integer point of the parameters is a ring morphism from the reference
   multivariate polynomials (MPoly.v) to Z.  Needed to transport the determinant theorems to the mpoly
   instance of the Sylvester reference (specialisation under an assignment).  Stdlib only. *)
From Coq Require Import ZArith NArith List Bool Lia.
From LP Require Import MPoly.
Import ListNotations.
Local Open Scope Z_scope.

Lemma sy_mono_cmp_eq (a b : mono) : mono_cmp a b = Eq -> a = b.
Proof.
  revert b; induction a as [|[x e] a IH]; intros [|[y f] b]; simpl; try discriminate; auto.
  destruct (N.compare x y) eqn:Hxy; try discriminate.
  destruct (N.compare e f) eqn:Hef; try discriminate.
  intros H. apply N.compare_eq in Hxy. apply N.compare_eq in Hef. subst. f_equal. auto.
Qed.

Lemma sy_mono_eval_mul (rho : var -> Z) (a b : mono) :
  mono_eval rho (mono_mul a b) = mono_eval rho a * mono_eval rho b.
Proof.
  revert b; induction a as [|[x e] a IH]; intros b.
  - simpl. destruct (mono_eval rho b); reflexivity.
  - induction b as [|[y f] b IHb].
    + simpl. ring.
    + cbn [mono_mul]. destruct (N.compare x y) eqn:Hxy.
      * apply N.compare_eq in Hxy; subst y.
        cbn [mono_eval fold_right fst snd]. fold (mono_eval rho (mono_mul a b)). rewrite IH.
        fold (mono_eval rho a). fold (mono_eval rho b).
        rewrite N2Z.inj_add, Z.pow_add_r by apply N2Z.is_nonneg. ring.
      * cbn [mono_eval fold_right fst snd]. fold (mono_eval rho (mono_mul a ((y, f) :: b))). rewrite IH.
        fold (mono_eval rho a). cbn [mono_eval fold_right fst snd]. ring.
      * cbn [mono_eval fold_right fst snd].
        change (fold_right (fun ve acc => rho (fst ve) ^ Z.of_N (snd ve) * acc) 1
                  ((fix inner (b0 : mono) : mono :=
                      match b0 with
                      | [] => (x, e) :: a
                      | (y0, f0) :: b' =>
                        match (x ?= y0)%N with
                        | Eq => (x, (e + f0)%N) :: mono_mul a b'
                        | Lt => (x, e) :: mono_mul a b0
                        | Gt => (y0, f0) :: inner b'
                        end
                      end) b))
          with (mono_eval rho (mono_mul ((x, e) :: a) b)).
        rewrite IHb. unfold mono_eval. cbn [fold_right fst snd]. ring.
Qed.

Lemma sy_eval_add_term (rho : var -> Z) (t : term) (p : mpoly) :
  mp_eval rho (mp_add_term t p) = snd t * mono_eval rho (fst t) + mp_eval rho p.
Proof.
  destruct t as [m c]. induction p as [|[m' c'] p IH]; cbn [mp_add_term fst snd].
  - destruct (c =? 0) eqn:Hc; [apply Z.eqb_eq in Hc; subst; simpl; ring | reflexivity].
  - destruct (c =? 0) eqn:Hc; [apply Z.eqb_eq in Hc; subst; simpl; ring |].
    destruct (mono_cmp m m') eqn:Hm.
    + apply sy_mono_cmp_eq in Hm; subst m'.
      destruct (c + c' =? 0) eqn:Hs.
      * apply Z.eqb_eq in Hs. cbn [mp_eval fold_right fst snd]. fold (mp_eval rho p).
        replace c' with (- c) by lia. ring.
      * cbn [mp_eval fold_right fst snd]. ring.
    + cbn [mp_eval fold_right fst snd]. fold (mp_eval rho (mp_add_term (m, c) p)) (mp_eval rho p).
      rewrite IH. cbn [fst snd]. ring.
    + reflexivity.
Qed.

Lemma sy_eval_add (rho : var -> Z) (p q : mpoly) : mp_eval rho (mp_add p q) = mp_eval rho p + mp_eval rho q.
Proof.
  unfold mp_add. induction p as [|t p IH]; cbn [fold_right].
  - reflexivity.
  - rewrite sy_eval_add_term, IH. cbn [mp_eval fold_right]. fold (mp_eval rho p). ring.
Qed.

Lemma sy_eval_neg (rho : var -> Z) (p : mpoly) : mp_eval rho (mp_neg p) = - mp_eval rho p.
Proof.
  unfold mp_neg. induction p as [|t p IH]; cbn [map mp_eval fold_right fst snd]; [reflexivity|].
  fold (mp_eval rho (map (fun t => (fst t, - snd t)) p)) (mp_eval rho p). rewrite IH. ring.
Qed.

Lemma sy_eval_mul_term (rho : var -> Z) (t : term) (q : mpoly) :
  mp_eval rho (mp_mul_term t q) = snd t * mono_eval rho (fst t) * mp_eval rho q.
Proof.
  unfold mp_mul_term. induction q as [|u q IH]; cbn [fold_right].
  - simpl. ring.
  - rewrite sy_eval_add_term, IH. cbn [fst snd mp_eval fold_right]. fold (mp_eval rho q).
    rewrite sy_mono_eval_mul. ring.
Qed.

Lemma sy_eval_mul (rho : var -> Z) (p q : mpoly) : mp_eval rho (mp_mul p q) = mp_eval rho p * mp_eval rho q.
Proof.
  unfold mp_mul. induction p as [|t p IH]; cbn [fold_right].
  - reflexivity.
  - rewrite sy_eval_add, sy_eval_mul_term, IH. cbn [mp_eval fold_right]. fold (mp_eval rho p). ring.
Qed.

Lemma sy_eval_const (rho : var -> Z) (c : Z) : mp_eval rho (mp_const c) = c.
Proof.
  unfold mp_const. destruct (c =? 0) eqn:Hc; [apply Z.eqb_eq in Hc; subst; reflexivity|].
  simpl. ring.
Qed.

Lemma sy_eval_is_zero (rho : var -> Z) (p : mpoly) : mp_is_zero p = true -> mp_eval rho p = 0.
Proof. destruct p; [reflexivity | discriminate]. Qed.

(* canonicalising a raw term list does not change its value (mp_eval is defined on raw lists) *)
Lemma sy_eval_of_terms (rho : var -> Z) (l : list term) : mp_eval rho (mp_of_terms l) = mp_eval rho l.
Proof.
  unfold mp_of_terms. induction l as [|t l IH]; cbn [fold_right]; [reflexivity|].
  rewrite sy_eval_add_term, IH. cbn [mp_eval fold_right]. reflexivity.
Qed.
