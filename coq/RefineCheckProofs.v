(* C09: soundness of the acceptance tests of RefineCheck.v, in every real closed field.
   Whatever `check_run` accepts: every slot libpoly printed denotes the real number the history assigns to it, and
   every observation libpoly reported is the mathematical answer.  Built on the proved reference (Properties_Base.v). *)
From Coq Require Import ZArith NArith List.
From LP Require Import Scalar UPoly MPoly RefAlg Refine RefineCheck.
Set Warnings "-notation-overridden,-ambiguous-paths".
From mathcomp Require Import all_ssreflect all_algebra all_real_closed.
From mathcomp Require Import ssrZ zify.
Set Warnings "notation-overridden,ambiguous-paths".
From LP Require Import UPolySpec RefAlgSpec RefAlgLoops RefAlgOps RefAlgDet RefAlgAnn RefAlgArith RefAlgSqfree RefAlgFinal RefAlgRoots RefAlgRat RefAlgPow RefAlgCmp RefineProofs.
Import GRing.Theory Num.Theory Num.Def Order.TTheory.
Set Implicit Arguments.
Unset Strict Implicit.
Unset Printing Implicit Defensive.
Local Open Scope ring_scope.

Section Sound.
Variable R : rcfType.
Notation denotes := (@rn_denotes R).
Notation dens := (@RefAlgRoots.dens R).

(* ---------------------------------------------------------------- one representation *)
Lemma opt_isP (o : option Z) (c : Z) : opt_is o c -> o = Some c.
Proof. by case: o => //= s /Z.eqb_eq ->. Qed.

Lemma denotes_fun (x : rnum) (v w : R) : denotes x v -> denotes x w -> v = w.
Proof.
case: x => [q [_ ->] [_ ->] //|p lo hi [_ vin _ uq _] [_ win rw _ _]].
by rewrite (uq _ rw win).
Qed.

Theorem same_number_sound fuel (r x : rnum) (v : R) :
  same_number fuel r x -> denotes x v -> denotes (rn_norm r) v.
Proof.
move=> /andP[val /opt_isP c] dx.
have [w dw] := RefAlgFinal.rn_valid_denotes R val.
have := rn_cmp_spec dw dx c.
rewrite /zr /= => /esym/eqP; rewrite sgr_eq0 subr_eq0 => /eqP e.
by rewrite -e.
Qed.

(* ---------------------------------------------------------------- pools *)
Fixpoint updR (vals : seq R) (d : nat) (w : R) : seq R :=
  match vals, d with
  | [::], _ => [::]
  | _ :: t, 0%N => w :: t
  | h :: t, d'.+1 => h :: updR t d' w
  end.

Definition vget (vals : seq R) (i : nat) : R := nth 0 vals i.
Definition rhoR (vals : seq R) (v : var) : R := nth 0 vals (N.to_nat v).

Lemma dens_nth_error (pool : seq rnum) (vals : seq R) i x :
  dens pool vals -> List.nth_error pool i = Some x -> denotes x (vget vals i).
Proof.
elim: pool vals i => [|y pool IH] [|v vals] [|i] //=; first by move=> [dy _] [<-].
by move=> [_ dp]; exact: IH.
Qed.

Lemma dens_rho (pool : seq rnum) (vals : seq R) : dens pool vals ->
  forall v, denotes (rho_of pool v) (rhoR vals v).
Proof.
move=> dp v; rewrite /rho_of /rhoR; move: (N.to_nat v) => k.
elim: pool vals k dp => [|y pool IH] [|w vals] [|k] //=; try (by move=> _; split=> //; rewrite /qr /zr /= mul0r).
  by case.
by move=> [_ dp]; exact: IH.
Qed.

Lemma dens_upd (pool : seq rnum) (vals : seq R) d z w :
  dens pool vals -> denotes z w -> dens (upd pool d z) (updR vals d w).
Proof.
elim: pool vals d => [|y pool IH] [|v vals] [|d] //= [dy dp] dz; split=> //.
exact: IH.
Qed.

Lemma all2sn_sound (sn : rnum -> rnum -> bool) fuel (rs pool : seq rnum) (vals : seq R) :
  (forall r x, sn r x -> same_number fuel r x) ->
  all2sn sn rs pool -> dens pool vals -> dens [seq rn_norm r | r <- rs] vals.
Proof.
move=> Hsn; elim: rs pool vals => [|r rs IH] [|x pool] [|v vals] //= /andP[s a] [dx dp]; split; last exact: IH a dp.
exact: same_number_sound (Hsn _ _ s) dx.
Qed.

(* ---------------------------------------------------------------- what the history means *)
(* the real numbers of the slots after the operation: queries change nothing *)
Definition sem (vals : seq R) (o : cop) : seq R :=
  match o with
  | CAdd d i j => updR vals d (vget vals i + vget vals j)
  | CSub d i j => updR vals d (vget vals i - vget vals j)
  | CMul d i j => updR vals d (vget vals i * vget vals j)
  | CDiv d i j => updR vals d (vget vals i / vget vals j)
  | CNeg d i => updR vals d (- vget vals i)
  | CInv d i => updR vals d (vget vals i)^-1
  | CCopy d i => updR vals d (vget vals i)
  | _ => vals
  end.

Lemma sem_query vals o : cop_is_query o -> sem vals o = vals.
Proof. by case: o. Qed.

(* the observation libpoly reported is the mathematical answer *)
Definition obs_true (vals : seq R) (o : cop) (b : cobs) : Prop :=
  match o, b with
  | CCmp i j, BInt c => zr c = sgr (vget vals i - vget vals j)
  | CCmpQ i q, BInt c => zr c = sgr (vget vals i - qr q)
  | CSgn i, BInt c => zr c = sgr (vget vals i)
  | CFloor i, BInt z => zr z <= vget vals i < zr z + 1
  | CCeil i, BInt z => zr z - 1 < vget vals i <= zr z
  | CIsInt i, BBool w => w = true <-> exists z : Z, vget vals i = zr z
  | CPSgn p, BInt c => zr c = sgr (mp_evalR (rhoR vals) p)
  | CPEval p, BNum r => denotes (rn_norm r) (mp_evalR (rhoR vals) p)
  | CDiv _ _ j, _ => vget vals j != 0
  | CInv _ i, _ => vget vals i != 0
  | _, _ => Logic.True
  end.

Section Step.
Variable sn : rnum -> rnum -> bool.
Variable cmpf : rnum -> rnum -> option Z.
Variable flf : rnum -> option Z.
Variable fuel : nat.
Hypothesis Hsn : forall r x, sn r x -> same_number fuel r x.
Hypothesis Hcmp : forall x y s, cmpf x y = Some s -> rn_cmp fuel x y = Some s.
Hypothesis Hfl : forall x z, flf x = Some z -> rn_floor fuel x = Some z.

Lemma check_obs_sound pool vals o b : dens pool vals ->
  check_obs sn cmpf flf fuel pool o b -> next_pool fuel pool o <> None -> obs_true vals o b.
Proof.
move=> dp; case: o => [i j|i q|i|i|i|i||d i j|d i j|d i j|d i j|d i|d i|d i|p|p]; case: b => //=.
- move=> c; case Ei: (List.nth_error pool i) => [x|//]; case Ej: (List.nth_error pool j) => [y|//].
  by move=> /opt_isP /Hcmp E _; exact: rn_cmp_spec (dens_nth_error dp Ei) (dens_nth_error dp Ej) E.
- move=> c; case Ei: (List.nth_error pool i) => [x|//] /andP[/Z.ltb_lt q0 /Z.eqb_eq <-] _.
  exact: rn_cmp_q_spec (dens_nth_error dp Ei) q0.
- move=> c; case Ei: (List.nth_error pool i) => [x|//] /Z.eqb_eq <- _.
  exact: rn_sgn_spec (dens_nth_error dp Ei).
- move=> z; case Ei: (List.nth_error pool i) => [x|//] /opt_isP /Hfl fl _.
  exact: rn_floor_spec (dens_nth_error dp Ei) fl.
- move=> z; case Ei: (List.nth_error pool i) => [x|//] /opt_isP ce _.
  exact: rn_ceiling_spec (dens_nth_error dp Ei) ce.
- move=> w; case Ei: (List.nth_error pool i) => [x|//]; case E: (rn_is_integer fuel x) => [w'|//] /Bool.eqb_prop ew _.
  by rewrite -ew; exact: rn_is_integer_spec (dens_nth_error dp Ei) E.
- (* CDiv *)
  move=> _; rewrite /bin; case Ei: (List.nth_error pool i) => [x|//]; case Ej: (List.nth_error pool j) => [y|//].
  case: (Nat.ltb _ _) => //; case E: (rn_div fuel x y) => [z|//] _.
  by have [] := rn_div_spec (dens_nth_error dp Ei) (dens_nth_error dp Ej) E.
- (* CInv *)
  move=> _; case Ei: (List.nth_error pool i) => [x|//]; case: (Nat.ltb _ _) => //; case E: (rn_inv fuel x) => [z|//] _.
  by have [] := rn_inv_spec (dens_nth_error dp Ei) E.
- move=> c; case E: (mp_eval_rn fuel (rho_of pool) p) => [z|//] /Z.eqb_eq <- _.
  exact: rn_sgn_spec (mp_eval_rn_spec (dens_rho dp) E).
- move=> r; case E: (mp_eval_rn fuel (rho_of pool) p) => [z|//] /Hsn s _.
  exact: same_number_sound s (mp_eval_rn_spec (dens_rho dp) E).
Qed.

Lemma next_pool_sound pool vals o pool' : dens pool vals ->
  next_pool fuel pool o = Some pool' -> dens pool' (sem vals o).
Proof.
move=> dp; case: o => [i j|i q|i|i|i|i||d i j|d i j|d i j|d i j|d i|d i|d i|p|p] /=; try (by move=> [<-]).
- rewrite /bin; case Ei: (List.nth_error pool i) => [x|//]; case Ej: (List.nth_error pool j) => [y|//].
  case: (Nat.ltb _ _) => //; case E: (rn_add fuel x y) => [z|//] [<-]; apply: dens_upd => //.
  exact: rn_add_spec (dens_nth_error dp Ei) (dens_nth_error dp Ej) E.
- rewrite /bin; case Ei: (List.nth_error pool i) => [x|//]; case Ej: (List.nth_error pool j) => [y|//].
  case: (Nat.ltb _ _) => //; case E: (rn_sub fuel x y) => [z|//] [<-]; apply: dens_upd => //.
  exact: rn_sub_spec (dens_nth_error dp Ei) (dens_nth_error dp Ej) E.
- rewrite /bin; case Ei: (List.nth_error pool i) => [x|//]; case Ej: (List.nth_error pool j) => [y|//].
  case: (Nat.ltb _ _) => //; case E: (rn_mul fuel x y) => [z|//] [<-]; apply: dens_upd => //.
  exact: rn_mul_spec (dens_nth_error dp Ei) (dens_nth_error dp Ej) E.
- rewrite /bin; case Ei: (List.nth_error pool i) => [x|//]; case Ej: (List.nth_error pool j) => [y|//].
  case: (Nat.ltb _ _) => //; case E: (rn_div fuel x y) => [z|//] [<-]; apply: dens_upd => //.
  by have [] := rn_div_spec (dens_nth_error dp Ei) (dens_nth_error dp Ej) E.
- case Ei: (List.nth_error pool i) => [x|//]; case: (Nat.ltb _ _) => // -[<-]; apply: dens_upd => //.
  exact: rn_neg_spec (dens_nth_error dp Ei).
- case Ei: (List.nth_error pool i) => [x|//]; case: (Nat.ltb _ _) => //; case E: (rn_inv fuel x) => [z|//] [<-].
  by apply: dens_upd => //; have [] := rn_inv_spec (dens_nth_error dp Ei) E.
- case Ei: (List.nth_error pool i) => [x|//]; case: (Nat.ltb _ _) => // -[<-]; apply: dens_upd => //.
  exact: dens_nth_error dp Ei.
Qed.

(* ONE ACCEPTED STEP *)
Theorem check_step_sound pool vals it pool' : dens pool vals ->
  check_step sn cmpf flf fuel pool it = Some pool' ->
  [/\ obs_true vals (it_op it) (it_obs it),
      dens pool' (sem vals (it_op it)) &
      forall rs, it_reps it = Some rs -> dens [seq rn_norm r | r <- rs] (sem vals (it_op it))].
Proof.
move=> dp; rewrite /check_step; case O: (check_obs _ _ _ _ _ _ _) => //.
case N: (next_pool fuel pool (it_op it)) => [p1|//].
have ot : obs_true vals (it_op it) (it_obs it) by apply: check_obs_sound dp O _; rewrite N.
have d1 := next_pool_sound dp N.
case Er: (it_reps it) => [rs|] /=; last by move=> [<-]; split.
case A: (all2sn sn rs p1) => // -[<-]; split=> // rs' [<-].
exact: all2sn_sound Hsn A d1.
Qed.

(* ALL ACCEPTED HISTORIES *)
Fixpoint run_true (vals : seq R) (items : seq citem) : Prop :=
  match items with
  | [::] => Logic.True
  | it :: rest =>
    [/\ obs_true vals (it_op it) (it_obs it),
        (forall rs, it_reps it = Some rs -> dens [seq rn_norm r | r <- rs] (sem vals (it_op it))) &
        run_true (sem vals (it_op it)) rest]
  end.

Theorem check_run_sound pool vals items : dens pool vals ->
  check_run sn cmpf flf fuel pool items -> run_true vals items.
Proof.
elim: items pool vals => [|it rest IH] pool vals dp //=.
case S: (check_step sn cmpf flf fuel pool it) => [p1|//] rn.
have [ot d1 dr] := check_step_sound dp S.
by split=> //; exact: IH d1 rn.
Qed.

(* QUERYING NEVER CHANGES THE NUMBER, for accepted steps: after an accepted const call the reference pool is the same,
   the slots are assigned the same reals, and every representation libpoly printed afterwards denotes the real its slot
   had before the call *)
Theorem accepted_query_keeps pool vals it pool' : dens pool vals -> cop_is_query (it_op it) ->
  check_step sn cmpf flf fuel pool it = Some pool' ->
  [/\ pool' = pool, obs_true vals (it_op it) (it_obs it) &
      forall rs, it_reps it = Some rs -> dens [seq rn_norm r | r <- rs] vals].
Proof.
move=> dp q S; have [ot _ dr] := check_step_sound dp S; rewrite (sem_query _ q) in dr; split=> //.
have np : next_pool fuel pool (it_op it) = Some pool by case: (it_op it) q.
move: S; rewrite /check_step np; case: (check_obs _ _ _ _ _ _ _) => //.
by case: (it_reps it) => [rs|]; [case: (all2sn _ _ _) => // -[] | case].
Qed.
End Step.

(* the closed instance: the Gallina reference functions themselves *)
Theorem check_run_ref_sound fuel pool vals items : dens pool vals ->
  check_run_ref fuel pool items -> run_true vals items.
Proof. exact: check_run_sound. Qed.

(* ---------------------------------------------------------------- bridge to the state machine of Refine.v *)
(* a representation that satisfies the invariant WF of RefineProofs.v, read as the driver reads it, denotes den *)
Lemma dq_qr (d : dyq) : qr (dq d) = dyR R d.
Proof. by rewrite /qr /dq /dyR /= -ZR_p2. Qed.

Theorem WF_denotes x : WF R x -> denotes (anum_rn x) (den R x).
Proof.
move=> wf; rewrite /anum_rn; case E: (af x) => [l|].
  have Er := WF_roots wf E; have [p0 rab rr uq] := roots1E Er.
  move: (wf); rewrite /WF E => -[_ _ _ prod _].
  have qa : qpos (dq (aa x)) by exact: p2_gt0.
  have qb : qpos (dq (ab x)) by exact: p2_gt0.
  have epr : pr l = pR R l by rewrite pR_map.
  split=> //; rewrite ?dq_qr ?epr //.
  by move=> w rw wab; apply: uq => //; rewrite in_itv.
split; first exact: p2_gt0.
by rewrite dq_qr /den E.
Qed.
End Sound.

(* ---------------------------------------------------------------- a concrete accepted history (non-vacuity) *)
Section CheckExample.
Local Open Scope Z_scope.
Definition ck_sqrt2 : rnum := RA [:: -2; 0; 1] (1, 1) (2, 1).
Definition ck_pool : list rnum := [:: ck_sqrt2; RQ (1, 3)].
(* x0^2 - 2 *)
Definition ck_poly : mpoly := [:: ([:: (N0, Npos 2%positive)], 1); ([::], -2)].
(* cmp(sqrt2, 1/3) = 1 (libpoly printed the refined <x^2-2, (5/4, 3/2)>); floor sqrt2 = 1; slot 1 := sqrt2 + 1/3, printed as
   the root of 9x^2 - 6x - 17 in (17/10, 9/5); sgn(x0^2 - 2) = 0 under the assignment; cmp(slot 0, slot 1) = -1 *)
Definition ck_items : list citem :=
  [:: mkItem (CCmp 0 1) (BInt 1) (Some [:: RA [:: -2; 0; 1] (5, 4) (3, 2); RQ (1, 3)]);
      mkItem (CFloor 0) (BInt 1) None;
      mkItem (CAdd 1 0 1) BNone (Some [:: RA [:: -2; 0; 1] (11, 8) (3, 2); RA [:: -17; -6; 9] (17, 10) (9, 5)]);
      mkItem (CPSgn ck_poly) (BInt 0) None;
      mkItem (CCmp 0 1) (BInt (-1)) (Some [:: RA [:: -2; 0; 1] (11, 8) (23, 16); RA [:: -17; -6; 9] (17, 10) (7, 4)])].

Lemma ck_accepted : check_run_ref 60 ck_pool ck_items = true.
Proof. by vm_compute. Qed.

Lemma ck_denotes (R : rcfType) : exists vals : seq R, RefAlgRoots.dens ck_pool vals.
Proof.
have val : rn_valid ck_sqrt2 = true by vm_compute.
have [v dv] := RefAlgFinal.rn_valid_denotes R val.
have e : rn_norm ck_sqrt2 = ck_sqrt2 by vm_compute.
rewrite e in dv; exists [:: v; qr (1, 3)].
split; first exact: dv.
split; last exact: I.
split; last reflexivity.
reflexivity.
Qed.

Lemma ck_true (R : rcfType) : exists vals : seq R, RefAlgRoots.dens ck_pool vals /\ run_true vals ck_items.
Proof.
have [vals dv] := ck_denotes R; exists vals; split=> //.
have acc : is_true (check_run_ref 60 ck_pool ck_items) := ck_accepted.
exact: (@check_run_ref_sound R 60 ck_pool vals ck_items dv acc).
Qed.
End CheckExample.
