(* C03: theorems about the faithful models of Gcd.v (Euclid over Z_p, the heuristic's accept logic), the
   content/pp checker and the lcm criterion. *)
From Coq Require Import ZArith List.
From LP Require Import Scalar UPoly Gcd GcdLemmas.
Set Warnings "-notation-overridden,-ambiguous-paths".
From mathcomp Require Import all_ssreflect all_algebra.
From mathcomp Require Import ssrZ zify ring.
Set Warnings "notation-overridden,ambiguous-paths".
From LP Require Import UPolySpec GcdSpec.
Import GRing.Theory.
Set Implicit Arguments.
Unset Strict Implicit.
Unset Printing Implicit Defensive.
Local Open Scope ring_scope.
Delimit Scope Z_scope with ZZ.

(* ------------------------------------------------------------------ content / pp checker *)
Theorem cont_pp_check_Z_sound (c : Z) (pp a : seq Z) :
  cont_pp_check_Z c pp a = true ->
  pnorm (pscale c pp) = pnorm a /\ pcontent pp = 1%ZZ /\ (0 < plc pp)%ZZ.
Proof.
rewrite /cont_pp_check_Z => /andP [/andP [/peqbP E /Z.eqb_eq H1] /Z.ltb_lt H2].
by split; [apply/pnorm_eq_Poly|].
Qed.

(* ------------------------------------------------------------------ Euclid over Z_p: the Bezout invariant *)
Section Euclid.
Variable p : Z.
Hypothesis ppos : (0 < p)%ZZ.
Local Notation "x == y %[p]" := (eqm p x y) (at level 70).

Lemma map_eqm (f : Z -> Z) (l : seq Z) :
  (forall c, exists k, (f c - c = p * k)%ZZ) -> Poly (map f l) == Poly l %[p].
Proof.
move=> Hf; elim: l => [|c l IH]; first exact: eqm_refl.
rewrite [map f _]/= !Poly_cons0; apply: eqm_add; last by apply: eqm_mul => //; apply: eqm_refl.
have [k Hk] := Hf c; exists k%:P.
by rewrite -polyCB -mul_polyC -polyCM; congr (_%:P); exact: Hk.
Qed.

Lemma zp_norm_eqm (l : seq Z) : Poly (zp_norm p l) == Poly l %[p].
Proof.
rewrite /zp_norm Poly_pnorm; apply: map_eqm => c.
exact: ring_norm_diff.
Qed.

Lemma zp_add_eqm (a b : seq Z) : Poly (zp_add p a b) == Poly a + Poly b %[p].
Proof. by rewrite -Poly_padd; apply: zp_norm_eqm. Qed.
Lemma zp_sub_eqm (a b : seq Z) : Poly (zp_sub p a b) == Poly a - Poly b %[p].
Proof. by rewrite -Poly_psub; apply: zp_norm_eqm. Qed.
Lemma zp_scale_eqm (c : Z) (a : seq Z) : Poly (zp_scale p c a) == c *: Poly a %[p].
Proof. by rewrite -Poly_pscale; apply: zp_norm_eqm. Qed.

Lemma zp_divmod_aux_spec fuel (q r b : seq Z) (db : nat) (ilb : Z) (q' r' : seq Z) :
  zp_divmod_aux fuel p q r b db ilb = (q', r') ->
  Poly q' * Poly b + Poly r' == Poly q * Poly b + Poly r %[p].
Proof.
elim: fuel q r => [|f IH] q r /=; first by move=> [<- <-]; apply: eqm_refl.
case: r => [|c r]; first by move=> [<- <-]; apply: eqm_refl.
case: Nat.ltb; first by move=> [<- <-]; apply: eqm_refl.
set t := pshift _ _; set R := c :: r.
move=> /IH H; apply: eqm_trans H _.
have -> : Poly q * Poly b + Poly R = (Poly q + Poly t) * Poly b + (Poly R - Poly (pmul t b)).
  by rewrite Poly_pmul mulrDl addrACA subrr addr0.
apply: eqm_add; last exact: zp_sub_eqm.
by apply: eqm_mul; [apply: zp_add_eqm|apply: eqm_refl].
Qed.

Lemma zp_divmod_spec (a b q r : seq Z) :
  zp_divmod p a b = (q, r) -> Poly q * Poly b + Poly r == Poly a %[p].
Proof.
rewrite /zp_divmod => /zp_divmod_aux_spec /= H.
apply: eqm_trans (zp_norm_eqm a).
rewrite mul0r add0r in H; apply: eqm_trans H.
apply: eqm_add; last exact: eqm_refl.
by apply: eqm_mul; [apply: eqm_refl|apply: eqm_sym; apply: zp_norm_eqm].
Qed.

Lemma gcd_euclid_aux_spec (A B : {poly Z}) fuel (r0 r1 s0 s1 t0 t1 g u v : seq Z) :
  Poly r0 == Poly s0 * A + Poly t0 * B %[p] ->
  Poly r1 == Poly s1 * A + Poly t1 * B %[p] ->
  gcd_euclid_aux fuel p r0 r1 s0 s1 t0 t1 = Some (g, u, v) ->
  Poly u * A + Poly v * B == Poly g %[p].
Proof.
elim: fuel r0 r1 s0 s1 t0 t1 => [|f IH] r0 r1 s0 s1 t0 t1 H0 H1 //=.
case D: (zp_divmod p r0 r1) => [q r2].
have Hd := zp_divmod_spec D.
case: r2 D Hd => [|c r2] D Hd.
  case: Z.eqb; first by move=> [<- <- <-]; apply: eqm_sym.
  move=> [<- <- <-]; set i := zp_inv _ _.
  apply: eqm_trans (eqm_sym (zp_scale_eqm i r1)).
  apply: eqm_trans (eqm_scale i (eqm_sym H1)).
  rewrite scalerDr !scalerAl.
  by apply: eqm_add; apply: eqm_mul; (try exact: eqm_refl); apply: zp_scale_eqm.
apply: IH => //; set R2 := c :: r2 in Hd *.
have E2 : Poly R2 == Poly r0 - Poly q * Poly r1 %[p].
  have -> : Poly R2 = (Poly q * Poly r1 + Poly R2) - Poly q * Poly r1 by rewrite addrC addKr.
  by apply: eqm_sub => //; apply: eqm_refl.
apply: eqm_trans E2 _.
apply: eqm_trans (_ : (Poly s0 * A + Poly t0 * B) - Poly q * (Poly s1 * A + Poly t1 * B) == _ %[p]).
  by apply: eqm_sub => //; apply: eqm_mul => //; apply: eqm_refl.
have -> : Poly s0 * A + Poly t0 * B - Poly q * (Poly s1 * A + Poly t1 * B)
        = (Poly s0 - Poly (pmul q s1)) * A + (Poly t0 - Poly (pmul q t1)) * B.
  by rewrite !Poly_pmul !mulrBl mulrDr !mulrA opprD addrACA.
by apply: eqm_add; apply: eqm_mul; (try exact: eqm_refl); apply: eqm_sym; apply: zp_sub_eqm.
Qed.

Theorem gcd_euclid_bezout (A B g u v : seq Z) :
  gcd_euclid p A B = Some (g, u, v) -> peqm p (padd (pmul u A) (pmul v B)) g.
Proof.
rewrite /gcd_euclid; case E: (zp_norm p B) => [|c l] // H.
apply/peqmP; rewrite Poly_padd !Poly_pmul.
have N : Poly [::] = 0 :> {poly Z} by [].
apply: (gcd_euclid_aux_spec _ _ H); rewrite Poly1 N mul1r mul0r ?addr0 ?add0r.
  exact: zp_norm_eqm.
by rewrite -E; apply: zp_norm_eqm.
Qed.
End Euclid.

(* ------------------------------------------------------------------ the heuristic gcd: accept logic *)
Lemma reconstruct_shape ms v n d D : reconstruct ms v n d = Some D -> exists l, D = pscale d (ppp l).
Proof.
rewrite /reconstruct; case: (digits_pow2 _ _ _) => [l|] //.
by case: Nat.ltb => // [[<-]]; exists l.
Qed.

Lemma upoly_divides_Z_sound (d : Z) (l X : seq Z) :
  Poly X != 0 -> (d | content_Z X)%ZZ ->
  upoly_divides_Z (pscale d (ppp l)) X = true -> rdvd (Poly (pscale d (ppp l))) (Poly X).
Proof.
move=> X0 Hd; rewrite /upoly_divides_Z; set D := pscale d (ppp l).
case: Nat.ltb => //; case: Nat.ltb => //.
case Hi: (int_divides _ _ _ _) => //= /pis_zeroP R0.
have D0 : Poly D != 0.
  apply/eqP => /pnorm_nil_Poly E; move: Hi; rewrite E /low_coef /= => /Z.eqb_eq H0.
  have := all_zero_pnorm_nil _ (low_coef_eq0 _ H0); rewrite pnorm_idem => /pnorm_nil_Poly XE.
  by rewrite XE eqxx in X0.
have [k [q [E _]]] := pprem_spec X D0; rewrite R0 addr0 in E.
have Pl0 : Poly l != 0.
  by apply: contra D0 => /eqP l0; rewrite /D ppp_zero.
have Hp := zprim_ppp Pl0.
have PX : rdvd (Poly (ppp l)) (Poly X).
  apply: (@gauss_cancel _ _ (q * d%:P) (plc D ^+ k) Hp).
    by apply: expf_neq0; apply: plc_neq0.
  by rewrite E /D Poly_pscale -mul_polyC mulrA mulrC.
have PX' := rdvd_prim_pp Hp PX.
by rewrite /D Poly_pscale [Poly X]Poly_content_ppp; apply: rdvd_scale.
Qed.

Lemma heuristic_loop_sound k (A B : seq Z) ca cb d n D :
  heuristic_loop k A B ca cb d n = Some (Some D) ->
  exists l, [/\ D = pscale d (ppp l), upoly_divides_Z D B = true & upoly_divides_Z D A = true].
Proof.
elim: k n => [|k IH] n //=.
case R: (reconstruct _ _ _ _) => [D'|] //.
case C: (_ && _); last exact: IH.
move=> [E]; rewrite -E; have [l El] := reconstruct_shape R.
by exists l; move/andP: C => [? ?]; split.
Qed.

Theorem gcd_heuristic_sound (n : nat) (A B D : seq Z) :
  pnorm A <> [::] -> pnorm B <> [::] ->
  gcd_heuristic n A B = Some (Some D) -> pdivides D A /\ pdivides D B.
Proof.
move=> HA HB.
have A0 : Poly (pnorm A) != 0 by rewrite Poly_pnorm; apply/eqP => /pnorm_nil_Poly.
have B0 : Poly (pnorm B) != 0 by rewrite Poly_pnorm; apply/eqP => /pnorm_nil_Poly.
rewrite /gcd_heuristic; case: Nat.ltb => /heuristic_loop_sound [l [E H1 H2]];
  rewrite E in H1 H2 *; split; apply/pdividesP; rewrite -1?(Poly_pnorm A) -1?(Poly_pnorm B).
- by apply: upoly_divides_Z_sound H1 => //; apply: Z.gcd_divide_r.
- by apply: upoly_divides_Z_sound H2 => //; apply: Z.gcd_divide_l.
- by apply: upoly_divides_Z_sound H2 => //; apply: Z.gcd_divide_l.
- by apply: upoly_divides_Z_sound H1 => //; apply: Z.gcd_divide_r.
Qed.

(* ------------------------------------------------------------------ lcm from gcd *)
Lemma is_gcdP (g a b : seq Z) : is_gcd g a b ->
  [/\ rdvd (Poly g) (Poly a), rdvd (Poly g) (Poly b)
    & forall d : {poly Z}, rdvd d (Poly a) -> rdvd d (Poly b) -> rdvd d (Poly g)].
Proof.
move=> [/pdividesP Ha [/pdividesP Hb H]]; split=> // d Da Db.
rewrite -(polyseqK d) in Da Db *.
by apply/pdividesP; apply: H; apply/pdividesP.
Qed.

Lemma rdvd_unit_mul (R : idomainType) (x m u v : R) : u * v = 1 -> rdvd x (m * u) -> rdvd x m.
Proof.
by move=> uv [q E]; exists (q * v); rewrite mulrA -E -mulrA uv mulr1.
Qed.

Theorem lcm_of_gcd (l g a b : seq Z) :
  pnorm a <> [::] -> pnorm b <> [::] -> is_gcd g a b -> lcm_check_Z l g a b = true ->
  pdivides a l /\ pdivides b l /\ forall m, pdivides a m -> pdivides b m -> pdivides l m.
Proof.
move=> Ha Hb /is_gcdP [[A1 EA] [B1 EB] Hg].
have A0 : Poly a != 0 by apply/eqP => /pnorm_nil_Poly.
have B0 : Poly b != 0 by apply/eqP => /pnorm_nil_Poly.
set A := Poly a in EA A0 Hg *; set B := Poly b in EB B0 Hg *; set G := Poly g in EA EB Hg *.
have G0 : G != 0 by apply: contra A0 => /eqP g0; rewrite EA g0 mul0r.
rewrite /lcm_check_Z => Hchk.
have [s [s1 EL]] : exists s : {poly Z}, (s = 1 \/ s = -1) /\ Poly l = s * (A1 * G * B1).
  have H (s : {poly Z}) : Poly l * G = s * (A * B) -> Poly l = s * (A1 * G * B1).
    by move=> E; apply: (mulfI G0); rewrite mulrC E EA EB; ring.
  case/orP: Hchk => /peqbP; rewrite ?Poly_pneg !Poly_pmul -/A -/B -/G => E.
    by exists 1; split; [left|apply: H; rewrite mul1r].
  by exists (-1); split; [right|apply: H; rewrite mulN1r].
have La : rdvd A (Poly l).
  by exists (s * B1); rewrite EL EA; ring.
have Lb : rdvd B (Poly l).
  by exists (s * A1); rewrite EL EB; ring.
split; [exact/pdividesP|split; [exact/pdividesP|]].
move=> ml /pdividesP MA /pdividesP MB; apply/pdividesP; set M := Poly ml in MA MB *.
case: (altP (M =P 0)) => [->|M0]; first exact: rdvd0.
have [] := pgcd_dvd (pmul ml a) (pmul ml b); rewrite !Poly_pmul -/M -/A -/B.
set H := Poly (pgcd _ _) => HA HB.
have [U EH] : rdvd (M * G) H.
  by apply: pgcd_greatest; rewrite Poly_pmul -/M -/A -/B ?EA ?EB mulrA; apply: rdvd_mulr; apply: rdvd_refl.
have MG0 : M * G != 0 by rewrite mulf_neq0.
have UA : rdvd U A1.
  by apply: (rdvd_cancel MG0); rewrite -EH -mulrA -EA.
have UB : rdvd U B1.
  by apply: (rdvd_cancel MG0); rewrite -EH -mulrA -EB.
have [V EV] : rdvd U 1.
  apply: (rdvd_cancel G0); rewrite mulr1; apply: Hg.
    by rewrite EA; apply: rdvd_mul => //; apply: rdvd_refl.
  by rewrite EB; apply: rdvd_mul => //; apply: rdvd_refl.
have ABH : rdvd (A * B) H.
  apply: pgcd_greatest; rewrite Poly_pmul -/M -/A -/B.
    by rewrite mulrC; apply: rdvd_mul => //; apply: rdvd_refl.
  by apply: rdvd_mul => //; apply: rdvd_refl.
have X : rdvd (A1 * G * B1) (M * U).
  apply: (rdvd_cancel G0).
  have -> : G * (A1 * G * B1) = A * B by rewrite EA EB; ring.
  by have -> : G * (M * U) = H by rewrite EH; ring.
have X' : rdvd (A1 * G * B1) M := rdvd_unit_mul (esym EV) X.
rewrite EL; case: s1 => ->; rewrite ?mul1r ?mulN1r //.
exact: rdvd_oppl.
Qed.

(* ------------------------------------------------------------------ plain restatements for Properties_C03.v *)
Theorem pgcd_divides_both (a b : seq Z) : pdivides (pgcd a b) a /\ pdivides (pgcd a b) b.
Proof. by have [H1 [H2 _]] := pgcd_is_gcd a b. Qed.
Theorem pgcd_greatest_list (a b d : seq Z) : pdivides d a -> pdivides d b -> pdivides d (pgcd a b).
Proof. by have [_ [_ H]] := pgcd_is_gcd a b; apply: H. Qed.

(* ------------------------------------------------------------------ zero operands of lp_upolynomial_gcd over Z (repaired) *)
Lemma pabs_pnorm (b : seq Z) : pabs (pnorm b) = pabs b.
Proof. by rewrite /pabs /plc !pnorm_idem. Qed.

Lemma is_gcd_zero_l (b : seq Z) : is_gcd (pabs b) [::] b.
Proof.
have Hb : rdvd (Poly (pabs b)) (Poly b) /\ rdvd (Poly b) (Poly (pabs b)).
  case: (Poly_pabs b) => ->; split; try exact: rdvd_refl.
    by rewrite -[X in rdvd _ X]opprK; apply: rdvd_opp; apply: rdvd_refl.
  by apply: rdvd_opp; apply: rdvd_refl.
split; first by apply/pdividesP; apply: rdvd0.
split; first by apply/pdividesP; case: Hb.
move=> d _ /pdividesP Db; apply/pdividesP.
by apply: rdvd_trans Db _; case: Hb.
Qed.

Theorem upoly_gcd_Z_zero (mode : Z) (b : seq Z) :
  upoly_gcd_Z mode [::] b = Some (pabs b) /\ upoly_gcd_Z mode b [::] = Some (pabs b) /\
  is_gcd (pabs b) [::] b.
Proof.
split; first by rewrite /upoly_gcd_Z /= pabs_pnorm.
split; last exact: is_gcd_zero_l.
rewrite /upoly_gcd_Z /=; case E: (pnorm b) => [|c l]; last by rewrite -E pabs_pnorm.
by rewrite /pabs E /=; case: Z.ltb.
Qed.
