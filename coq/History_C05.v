(* C05 regression memory: the pre-repair behaviour of lp_upolynomial_factor over Z (model of the code before
   fixes/C05-factor-Z-power-of-x.patch and fixes/C05-factor-Z-nonmonic.patch) and the refutations.
   Witnesses are in corpus/C05.txt; against an unrepaired libpoly the harness prints ABORT for them
   (assertion failures upolynomial_factor_square_free_primitive:93 and lp_upolynomial_div_exact_c:712). *)
From Coq Require Import ZArith List Bool.
From LP Require Import UPoly FactorCheck Factor.
Import ListNotations.
Local Open Scope Z_scope.

(* upolynomial_factor_Z before the repair: the primitive part goes straight into
   upolynomial_factor_square_free_primitive, which starts with assert(lp_upolynomial_const_term(f)) *)
Definition factor_Z_stage1_prefix (fuel : nat) (f : list Z) : option (Z * ufactors) :=
  let f := pnorm f in
  let c := content_signed f in
  if c =? 0 then None else
  match pdivc f c with
  | [] => None
  | c0 :: fpp' =>
    if c0 =? 0 then None                       (* the assertion fails *)
    else match sqfree_prim_Z fuel (c0 :: fpp') with
         | Some (c', fs) => Some (c' * c, fs)
         | None => None
         end
  end.

(* x^2 + x is a non-zero polynomial on which the pre-fix factorization is undefined, whatever the fuel *)
Theorem C05_factor_Z_power_of_x_refuted :
  exists f, pis_zero f = false /\ forall fuel, factor_Z_stage1_prefix fuel f = None.
Proof. exists [0; 1; 1]; split; [reflexivity | intros fuel; reflexivity]. Qed.

(* the repaired first stage is defined on the same input and multiplies back *)
Example C05_factor_Z_power_of_x_repaired :
  factor_Z_stage1 (10%nat) [0; 1; 1] = Some (1, [([1; 1], 1%nat); ([0; 1], 1%nat)]).
Proof. vm_compute. reflexivity. Qed.

(* Hensel lifting before the repair: upolynomial_factor_Z_square_free passed non-monic f together with the MONIC
   factors of f mod p (the leading coefficient sits in the constant of the modular factorization, which is
   dropped), so F = lc(F) * prod A_k (mod p) but not F = prod A_k (mod p), and the exact division by p in
   hensel_lift_quadratic is not exact. *)
Theorem C05_hensel_nonmonic_refuted :
  exists (p : Z) (F : list Z) (As : list (list Z)),
    is_prime_Z p = true /\ modcert_ok F (p, As) = true /\ hensel_D p F As = None.
Proof. exists 3, [1; 0; 2], [[-1; 1]; [1; 1]]. vm_compute. auto. Qed.
