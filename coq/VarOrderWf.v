(* C18 proofs, part 4: inserting sorted monomials keeps / re-establishes the order invariant and the
   normal form; hence coefficient_order and building from a term list produce objects that pass the order check. *)
From Coq Require Import ZArith NArith List Bool Lia Sorted Permutation.
From LP Require Import MPoly VarOrder VarOrderMPoly VarOrderProofs VarOrderDen.
Import ListNotations.
Local Open Scope Z_scope.

Definition gtv (o : order) (x y : var) : Prop := 0 < cmp_var o x y.

Lemma gtv_irrefl : forall o x, ~ gtv o x x.
Proof. intros o x; unfold gtv; rewrite cmp_var_refl; lia. Qed.
Lemma gtv_lt : forall o x y, gtv o x y <-> cmp_var o y x < 0.
Proof. intros o x y; unfold gtv. pose proof (cmp_var_antisym o x y). lia. Qed.
Lemma gtv_trans : forall o x y z, gtv o x y -> gtv o y z -> gtv o x z.
Proof. intros o x y z; rewrite !gtv_lt. intros H1 H2. eapply cmp_var_trans; eauto. Qed.
Lemma gtv_of_ge : forall o x y, 0 <= cmp_var o x y -> x <> y -> gtv o x y.
Proof. intros o x y H Hne; unfold gtv. destruct (Z.eq_dec (cmp_var o x y) 0) as [E|]; [apply cmp_var_eq in E; contradiction|lia]. Qed.
Lemma gev_trans : forall o x y z, 0 <= cmp_var o x y -> 0 <= cmp_var o y z -> 0 <= cmp_var o x z.
Proof.
  intros o x y z H1 H2.
  destruct (N.eq_dec x y) as [->|Hxy]; auto. destruct (N.eq_dec y z) as [->|Hyz]; auto.
  pose proof (gtv_trans o x y z (gtv_of_ge _ _ _ H1 Hxy) (gtv_of_ge _ _ _ H2 Hyz)) as H. unfold gtv in H; lia.
Qed.

Definition sdesc (o : order) (ms : pmono) : Prop := StronglySorted (fun p q => gtv o (fst p) (fst q)) ms.
Definition all_below (o : order) (z : var) (ms : pmono) : Prop := Forall (fun p => gtv o z (fst p)) ms.

Lemma below_trans : forall o z x c, gtv o z x -> below o x c -> below o z c.
Proof. intros o z x [a|y l]; cbn; auto. intros H1 H2. exact (gtv_trans _ _ _ _ H1 H2). Qed.

Lemma wf_rec_iff : forall o x cs, wf_order o (CRec x cs) <-> (forall c, In c cs -> below o x c /\ wf_order o c).
Proof. intros; split; [intros H; now inversion H|apply wf_rec]. Qed.

Lemma In_strip_zeros : forall l c, In c (strip_zeros l) -> In c l.
Proof.
  induction l as [|a l IH]; intros c; [cbn; auto|]. unfold strip_zeros; cbn [fold_right]. fold (strip_zeros l).
  destruct (strip_zeros l) as [|s sl].
  - destruct (is_zero a); cbn; [tauto|]. intros [->|[]]; now left.
  - intros [->|H]; [now left|right; now apply IH].
Qed.

Lemma normalize_wf : forall o x l, wf_order o (CRec x l) ->
  wf_order o (normalize (CRec x l)) /\ (forall z, gtv o z x -> below o z (normalize (CRec x l))).
Proof.
  intros o x l H. rewrite wf_rec_iff in H. destruct l as [|c0 rest]; cbn [normalize].
  - split; [constructor|intros; exact I].
  - destruct (strip_zeros rest) as [|s sl] eqn:E.
    + destruct (H c0 (or_introl eq_refl)) as [Hb Hw]. split; auto. intros z Hz. eapply below_trans; eauto.
    + split; [|intros z Hz; exact Hz]. apply wf_rec. intros c [<-|Hc]; [apply H; now left|].
      apply H; right. apply In_strip_zeros. rewrite E. exact Hc.
Qed.

Lemma In_zeros : forall n c, In c (zeros n) -> c = CNum 0.
Proof. intros n c H; unfold zeros in H. now apply repeat_spec in H. Qed.

Lemma ensure_capacity_wf : forall o c x cap, wf_order o c -> below o x c \/ (exists cs, c = CRec x cs) ->
  wf_order o (ensure_capacity c x cap).
Proof.
  intros o c x cap Hw Hc.
  assert (Hwrap : below o x c -> wf_order o (CRec x (c :: zeros (cap - 1)))).
  { intros Hb. apply wf_rec. intros c' [<-|Hz]; [auto|]. apply In_zeros in Hz; subst. split; [exact I|constructor]. }
  destruct c as [b|y cs]; cbn [ensure_capacity]; [apply Hwrap; exact I|].
  destruct (N.eqb_spec x y) as [->|Hne].
  - rewrite wf_rec_iff in Hw |- *. intros c' Hin. apply in_app_or in Hin as [Hin|Hz]; [auto|].
    apply In_zeros in Hz; subst. split; [exact I|constructor].
  - destruct Hc as [Hb|[cs' E]]; [auto|]. inversion E; congruence.
Qed.

Lemma In_upd_nth : forall (f : coef -> coef) l n c', In c' (upd_nth n f l) -> In c' l \/ exists c, In c l /\ c' = f c.
Proof.
  induction l as [|a l IH]; intros n c' H; destruct n; cbn [upd_nth] in H; try (destruct H; fail).
  - destruct H as [<-|H]; [right; exists a; split; [now left|reflexivity]|left; now right].
  - destruct H as [<-|H]; [left; now left|]. destruct (IH _ _ H) as [H1|(c & H1 & H2)]; [left; now right|right; exists c; split; [now right|auto]].
Qed.

Lemma here_f_wf : forall o x d (rec : coef -> coef) c,
  (forall c, wf_order o c -> wf_order o (rec c) /\ (below o x c -> below o x (rec c))) ->
  wf_order o c -> below o x c \/ (exists cs, c = CRec x cs) ->
  wf_order o (here_f x d rec c) /\ (forall z, gtv o z x -> below o z (here_f x d rec c)).
Proof.
  intros o x d rec c Hrec Hw Hc. unfold here_f.
  pose proof (ensure_capacity_wf o c x (S (N.to_nat d)) Hw Hc) as Hw'.
  destruct (ensure_capacity_shape c x (S (N.to_nat d))) as (l & Hl & _). rewrite Hl in *.
  apply normalize_wf. rewrite wf_rec_iff in Hw' |- *. intros c' Hin.
  apply In_upd_nth in Hin as [Hin|(c1 & Hin & ->)]; [auto|].
  destruct (Hw' c1 Hin) as [Hb Hw1]. destruct (Hrec c1 Hw1) as [H1 H2]. split; auto.
Qed.

Lemma cmp_ge_cases : forall o x y cs, (0 <=? cmp_var o x y) = true -> below o x (CRec y cs) \/ (exists cs', CRec y cs = CRec x cs').
Proof.
  intros o x y cs H. apply Z.leb_le in H. destruct (N.eq_dec x y) as [->|Hne]; [right; eauto|left]. cbn. now apply gtv_of_ge.
Qed.

Lemma add_om_wf : forall o a ms, sdesc o ms -> forall c, wf_order o c ->
  wf_order o (add_om o ms a c) /\ (forall z, below o z c -> all_below o z ms -> below o z (add_om o ms a c)).
Proof.
  intros o a. induction ms as [|[x d] ms IHms]; intros Hs.
  - induction c as [b|y cs IH] using coef_ind2; intros Hw.
    + rewrite add_om_nil_num. split; [constructor|intros; exact I].
    + destruct cs as [|c0 r].
      * rewrite add_om_nil_rec0. split; [|intros z Hz _; exact Hz]. apply wf_rec. intros c [<-|[]]. split; [exact I|constructor].
      * rewrite add_om_nil_rec. inversion IH as [|? ? H0 _]; subst. rewrite wf_rec_iff in Hw.
        destruct (Hw c0 (or_introl eq_refl)) as [Hb0 Hw0]. destruct (H0 Hw0) as [H1 H2].
        split; [|intros z Hz _; exact Hz]. apply wf_rec. intros c [<-|Hc]; [|apply Hw; now right].
        split; auto. apply H2; [exact Hb0|constructor].
  - inversion Hs as [|? ? Hs' Hall]; subst. specialize (IHms Hs').
    assert (Hrec : forall c, wf_order o c -> wf_order o (add_om o ms a c) /\ (below o x c -> below o x (add_om o ms a c))).
    { intros c Hw. destruct (IHms c Hw) as [H1 H2]. split; [exact H1|]. intros Hb. apply H2; [exact Hb|exact Hall]. }
    induction c as [b|y cs IH] using coef_ind2; intros Hw.
    + rewrite add_om_cons_num. destruct (here_f_wf o x d _ (CNum b) Hrec Hw (or_introl I)) as [H1 H2].
      split; auto. intros z _ Hz. apply H2. now inversion Hz.
    + rewrite add_om_cons_rec. destruct (0 <=? cmp_var o x y) eqn:E.
      * destruct (here_f_wf o x d _ (CRec y cs) Hrec Hw (cmp_ge_cases _ _ _ _ E)) as [H1 H2].
        split; auto. intros z _ Hz. apply H2. now inversion Hz.
      * assert (Hyx : gtv o y x) by (apply gtv_lt; apply Z.leb_gt in E; exact E).
        destruct cs as [|c0 r].
        -- destruct (here_f_wf o x d _ (CNum 0) Hrec (wf_num o 0) (or_introl I)) as [H1 H2].
           split; [|intros z Hz _; exact Hz]. apply wf_rec. intros c [<-|[]]. split; auto.
        -- inversion IH as [|? ? H0 _]; subst. rewrite wf_rec_iff in Hw.
           destruct (Hw c0 (or_introl eq_refl)) as [Hb0 Hw0]. destruct (H0 Hw0) as [H1 H2].
           split; [|intros z Hz _; exact Hz]. apply wf_rec. intros c [<-|Hc]; [|apply Hw; now right].
           split; auto. apply H2; [exact Hb0|]. constructor; [exact Hyx|].
           unfold all_below. rewrite Forall_forall in Hall |- *. intros p Hp. cbn [fst] in *. eapply gtv_trans; [exact Hyx|now apply Hall].
Qed.

(* ---------------------------------------------------------------- the sort produces a strictly decreasing list *)
Definition gev (o : order) (p q : var * N) : Prop := 0 <= cmp_var o (fst p) (fst q).

Lemma sort_pass_max : forall o rest cur mx r, sort_pass o cur rest = (mx, r) -> gev o mx cur /\ Forall (gev o mx) r.
Proof.
  induction rest as [|y rest IH]; intros cur mx r H; cbn [sort_pass] in H.
  - inversion H; subst. split; [unfold gev; rewrite cmp_var_refl; lia|constructor].
  - destruct (Z.ltb_spec (cmp_var o (fst cur) (fst y)) 0) as [Hlt|Hge].
    + destruct (sort_pass o y rest) as [mx' r'] eqn:E. inversion H; subst. destruct (IH _ _ _ E) as [H1 H2].
      assert (Hc : gev o mx cur).
      { unfold gev in *. eapply gev_trans; [exact H1|]. pose proof (cmp_var_antisym o (fst cur) (fst y)). lia. }
      split; auto.
    + destruct (sort_pass o cur rest) as [mx' r'] eqn:E. inversion H; subst. destruct (IH _ _ _ E) as [H1 H2].
      split; auto. constructor; auto. unfold gev in *. eapply gev_trans; eauto.
Qed.

Lemma sort_n_sorted : forall o n m, n = length m -> NoDup (map fst m) -> sdesc o (sort_n o n m).
Proof.
  induction n as [|n IH]; intros m Hn Hnd; destruct m as [|x r]; try discriminate; [constructor|].
  cbn [sort_n]. destruct (sort_pass o x r) as [mx r'] eqn:E.
  destruct (sort_pass_perm _ _ _ _ _ E) as [Hp Hl]. destruct (sort_pass_max _ _ _ _ _ E) as [_ Hmax].
  assert (Hnd' : NoDup (map fst (mx :: r'))) by (eapply Permutation_NoDup; [apply Permutation_map; exact Hp|exact Hnd]).
  cbn [map] in Hnd'. inversion Hnd' as [|? ? Hni Hnd'']; subst.
  constructor.
  - apply IH; auto. cbn in Hn. lia.
  - assert (Hall : Forall (fun q => gtv o (fst mx) (fst q)) r').
    { rewrite Forall_forall in Hmax |- *. intros q Hq. apply gtv_of_ge; [apply Hmax; exact Hq|].
      intros Heq. apply Hni. rewrite Heq. now apply in_map. }
    eapply Permutation_Forall; [apply Permutation_sym, sort_n_perm|exact Hall].
Qed.
Lemma mono_sort_sorted : forall o m, NoDup (map fst m) -> sdesc o (mono_sort o m).
Proof. intros; now apply sort_n_sorted. Qed.

Lemma sdesc_nodup : forall o ms, sdesc o ms -> NoDup (map fst ms).
Proof.
  induction 1 as [|p ms _ IH Hall]; cbn [map]; constructor; auto.
  intros Hin. apply in_map_iff in Hin as (q & Hq & Hin). rewrite Forall_forall in Hall. specialize (Hall q Hin).
  rewrite Hq in Hall. exact (gtv_irrefl _ _ Hall).
Qed.

(* ---------------------------------------------------------------- monomials of an in-order object have distinct variables *)
Lemma pfx_nil : forall l, pfx [] l = l.
Proof. unfold pfx. induction l as [|[s a] l IH]; [reflexivity|]. cbn [map app fst snd]. f_equal. exact IH. Qed.

Lemma In_tpowers : forall x d l t, In t (tpowers x [] d l) ->
  exists i ci s, nth_error l i = Some ci /\ In (s, snd t) (traverse ci []) /\ fst t = (x, (d + N.of_nat i)%N) :: s.
Proof.
  intros x d l; revert d. induction l as [|c l IH]; intros d t H; [destruct H|]. cbn [tpowers] in H. apply in_app_or in H as [H|H].
  - destruct (is_zero c); [destruct H|]. rewrite traverse_pfx in H. unfold pfx in H. apply in_map_iff in H as ([s a] & <- & Hin).
    exists O, c, s. cbn [nth_error fst snd app]. repeat split; auto. replace (d + N.of_nat 0)%N with d by lia. reflexivity.
  - destruct (IH _ _ H) as (i & ci & s & H1 & H2 & H3). exists (S i), ci, s. cbn [nth_error]. repeat split; auto.
    rewrite H3. replace (d + 1 + N.of_nat i)%N with (d + N.of_nat (S i))%N by lia. reflexivity.
Qed.

Lemma traverse_sdesc : forall o c, wf_order o c -> forall s a, In (s, a) (traverse c []) ->
  sdesc o s /\ (forall z, below o z c -> all_below o z s).
Proof.
  intros o. induction c as [b|x cs IH] using coef_ind2; intros Hw s a Hin.
  - cbn in Hin. destruct Hin as [E|[]]. inversion E; subst. split; [constructor|intros; constructor].
  - rewrite wf_rec_iff in Hw. rewrite Forall_forall in IH. destruct cs as [|c0 rest]; [destruct Hin|].
    rewrite traverse_rec in Hin. apply in_app_or in Hin as [Hin|Hin].
    + destruct (is_zero c0); [destruct Hin|]. destruct (Hw c0 (or_introl eq_refl)) as [Hb Hw0].
      destruct (IH c0 (or_introl eq_refl) Hw0 s a Hin) as [H1 H2]. split; auto.
      intros z Hz. apply H2. eapply below_trans; eauto.
    + apply In_tpowers in Hin as (i & ci & s' & Hn & Hin & Hs). cbn [fst snd] in *. subst s.
      apply nth_error_In in Hn. destruct (Hw ci (or_intror Hn)) as [Hb Hwi].
      destruct (IH ci (or_intror Hn) Hwi s' a Hin) as [H1 H2]. split.
      * constructor; auto. apply (H2 x Hb).
      * intros z Hz. cbn [below] in Hz. constructor; [exact Hz|].
        specialize (H2 x Hb). unfold all_below in *. rewrite Forall_forall in H2 |- *. intros p Hp. eapply gtv_trans; [exact Hz|now apply H2].
Qed.

Lemma traverse_nodup_vars : forall o c, wf_order o c -> forall s a, In (s, a) (traverse c []) -> NoDup (map fst s).
Proof. intros o c Hw s a Hin. eapply sdesc_nodup. eapply traverse_sdesc; eauto. Qed.

(* ---------------------------------------------------------------- building / re-ordering yields objects in order *)
Definition distinct_vars (l : list (pmono * Z)) : Prop := Forall (fun t => NoDup (map fst (fst t))) l.

Lemma add_monomial_wf : forall o c ms a, NoDup (map fst ms) -> wf_order o c -> wf_order o (add_monomial o c ms a).
Proof. intros. unfold add_monomial. apply add_om_wf; auto. now apply mono_sort_sorted. Qed.

Lemma fold_add_monomial_wf : forall o l acc, distinct_vars l -> wf_order o acc ->
  wf_order o (fold_left (fun acc t => add_monomial o acc (fst t) (snd t)) l acc).
Proof.
  induction l as [|[ms a] l IH]; intros acc Hd Hw; cbn [fold_left]; auto. inversion Hd; subst.
  apply IH; auto. now apply add_monomial_wf.
Qed.

Theorem coef_order_wf : forall o0 o c, wf_order o0 c -> wf_order o (coef_order o c).
Proof.
  intros o0 o [a|x cs] Hw; [constructor|]. unfold coef_order. apply fold_add_monomial_wf; [|constructor].
  apply Forall_forall. intros [s a] Hin. cbn [fst]. eapply traverse_nodup_vars; eauto.
Qed.

Theorem of_mpoly_wf : forall o p, distinct_vars p -> wf_order o (of_mpoly o p).
Proof. intros. unfold of_mpoly. apply fold_add_monomial_wf; [auto|constructor]. Qed.

(* canonical monomials have distinct variables *)
Lemma mono_wf_from_nodup : forall m lo, mono_wf_from lo m = true -> NoDup (map fst m) /\ Forall (fun ve => match lo with Some y => (y < fst ve)%N | None => True end) m.
Proof.
  induction m as [|[x e] m IH]; intros lo H; [split; constructor|]. cbn in H. rewrite !andb_true_iff in H. destruct H as [[_ Hlo] Hm].
  destruct (IH (Some x) Hm) as [Hnd Hall]. split.
  - cbn [map fst]. constructor; auto. intros Hin. apply in_map_iff in Hin as ([y f] & Hy & Hin). cbn in Hy; subst y.
    rewrite Forall_forall in Hall. specialize (Hall _ Hin). cbn in Hall. lia.
  - constructor.
    + destruct lo; auto. cbn. now apply N.ltb_lt.
    + rewrite Forall_forall in Hall |- *. intros ve Hin. specialize (Hall ve Hin). destruct lo as [y|]; auto.
      apply N.ltb_lt in Hlo. cbn in Hall. lia.
Qed.

Lemma canon_terms_distinct : forall l, distinct_vars (map canon_term l).
Proof.
  intros l. apply Forall_forall. intros t Hin. apply in_map_iff in Hin as (u & <- & _). unfold canon_term; cbn [fst].
  apply (mono_wf_from_nodup _ None). apply mono_canon_wf.
Qed.

Lemma In_add_term : forall t p u, In u (mp_add_term t p) -> fst u = fst t \/ In u p.
Proof.
  intros [mt c] p. induction p as [|[m' c'] p IH]; intros u H; cbn [mp_add_term] in H.
  - destruct (c =? 0); [destruct H|]. destruct H as [<-|[]]; now left.
  - destruct (c =? 0); [now right|]. destruct (mono_cmp mt m') eqn:E.
    + destruct (c + c' =? 0); [right; now right|]. destruct H as [<-|H]; [now left|right; now right].
    + destruct H as [<-|H]; [right; now left|]. destruct (IH _ H); [now left|right; now right].
    + destruct H as [<-|H]; [now left|now right].
Qed.

Lemma mp_norm_distinct : forall l, distinct_vars (mp_norm l).
Proof.
  intros l. unfold mp_norm. pose proof (canon_terms_distinct l) as H. induction (map canon_term l) as [|t l' IH]; [constructor|].
  inversion H; subst. specialize (IH H3). unfold mp_of_terms in *. cbn [fold_right].
  apply Forall_forall. intros u Hu. apply In_add_term in Hu as [Hu|Hu].
  - destruct u as [mu cu], t as [mt ct]. cbn [fst] in *. subst mu. exact H2.
  - unfold distinct_vars in IH. rewrite Forall_forall in IH. now apply IH.
Qed.
