(* Regression memory for property C07 (DESIGN 2.4): the pre-repair version of the refinement shared by
   lp_algebraic_number_to_double and lp_algebraic_number_to_rational, with a machine-checked refutation of the property
   ("rational / double approximations agree with the exact value") on the faithful model of the pinned code.
   Found by a thorough C09 run; repaired by fixes/C07-to-double-to-rational-iterations.patch.  The witness is in
   corpus/C07.txt and is replayed on every run. *)
From Coq Require Import ZArith NArith List Bool.
From LP Require Import Scalar UPoly RefAlg AlgNum.
Import ListNotations.
Local Open Scope Z_scope.

(* pinned code: `if (interval_size.n < 100) { iterations = 100 - interval_size.n; ...` - only the DENOMINATOR EXPONENT n of
   the width b - a = m / 2^n is looked at, not its magnitude *)
Definition an_approx_refine_prefix (x : anum) : anum :=
  let sz := an_dy_sub0 (an_b x) (an_a x) in
  if (dn sz <? 100)%N then an_refine_n (N.to_nat (100 - dn sz)) x else x.
Definition an_to_double_dyadic_prefix (x : anum) : dyadic :=
  match an_f x with None => an_a x | Some _ => an_a (an_approx_refine_prefix x) end.
Definition an_to_rational_prefix (x : anum) : rat :=
  match an_f x with
  | None => q_from_dyadic (an_a x)
  | Some p =>
    if Nat.eqb (pdeg p) 1 then q_neg (q_canon' (nth 0 p 0, nth 1 p 0))
    else q_from_dyadic (an_a (an_approx_refine_prefix x))
  end.

(* sqrt 2 as lp_algebraic_number_construct (x^2 - 2, (1 + 2^-120, 3/2)) leaves it (width < 1/2, no integer inside):
   a well-formed number, valid for the reference, greater than 7/5 - and the pinned to_double / to_rational answer with
   its LOWER END 1 + 2^-120 < 7/5 (no bisection at all: the width has denominator exponent 120 >= 100). *)
Definition sqrt2_wide : anum :=
  mkAN (Some [-2; 0; 1]) (mkDy (2 ^ 120 + 1) 120) (mkDy 3 1) (-1) 1.

Theorem C07_to_double_prefix_refuted :
  an_wf sqrt2_wide = true /\ rn_valid (rn_of_an sqrt2_wide) = true /\
  rn_cmp_q (rn_of_an sqrt2_wide) (7, 5) = 1 /\                       (* the number is > 7/5 *)
  an_to_double_dyadic_prefix sqrt2_wide = mkDy (2 ^ 120 + 1) 120 /\   (* the answer is 1 + 2^-120 *)
  an_to_rational_prefix sqrt2_wide = (2 ^ 120 + 1, 2 ^ 120) /\
  dy_cmp_rational (an_to_double_dyadic_prefix sqrt2_wide) (7, 5) = -1.  (* ... which is < 7/5 *)
Proof. vm_compute. repeat split; reflexivity. Qed.

(* the repaired function halves 99 times on the same input: the answer is within 2^-100 of sqrt 2, in particular > 7/5 *)
Theorem C07_to_double_repaired_on_witness :
  dy_cmp_rational (an_to_double_dyadic sqrt2_wide) (7, 5) = 1 /\
  dy_cmp_rational (an_to_double_dyadic sqrt2_wide) (3, 2) = -1.
Proof. vm_compute. split; reflexivity. Qed.
