(* Regression memory for C20 (DESIGN 2.4): the container functions AS PINNED in /repo (before
   fixes/C20-hash-set.patch and fixes/C20-heap.patch), modelled faithfully, each with a machine-checked
   refutation of the property.  The witnesses are replayed against the real library by corpus/C20.txt. *)
From Coq Require Import ZArith NArith List Bool Arith.
From LP Require Import Containers.
Import ListNotations.

Section Prefix.
Variable elem : Type.
Variable eqb : elem -> elem -> bool.
Variable h : elem -> N.
Variable cmp : elem -> elem -> Z.

(* _search_and_remove of the pinned tree: the back-shift stops at the first element that sits in
   its home slot (or at an empty slot), and moves everything before that unconditionally:
     for (;;) { j = (i + 1) & mask;
                if (data[j] == 0 || (hash(data[j]) & mask) == j) break;
                SWAP(data[i], data[j]); i = j; }                                                *)
Fixpoint backshift_prefix (fuel : nat) (t : table elem) (i : nat) : option (table elem) :=
  match fuel with
  | O => None
  | S f =>
    let j := nxt (length t) i in
    match get elem t j with
    | None => Some t
    | Some q =>
      if home elem h (length t) q =? j then Some t
      else backshift_prefix f (upd (upd t i (Some q)) j None) j
    end
  end.

Definition remove_at_prefix (t : table elem) (i : nat) : option (table elem) :=
  backshift_prefix (length t) (upd t i None) i.

Definition hs_remove_prefix (s : hset elem) (e : elem) : option (hset elem * bool) :=
  if closed _ s then None else
  let t := slots _ s in
  match probe elem eqb (length t) t true e (home elem h (length t) e) with
  | None => None
  | Some (_, false) => Some (s, false)
  | Some (i, true) =>
    match remove_at_prefix t i with
    | None => None
    | Some t' => Some (mkHset _ t' (pred (hsize _ s)) (thresh _ s) (closed _ s), true)
    end
  end.

(* lp_polynomial_hash_set_intersect of the pinned tree:
     for (i = 0; i < data_size;) {
       if (data[i] == NULL) { ++i; continue; }
       if (!contains(other, data[i])) { delete; back-shift as above; }
     }
   there is no ++i when data[i] IS in `other`, and `size` is never decremented *)
Fixpoint inter_loop_prefix (fuel : nat) (t : table elem) (other : hset elem) (i : nat) : option (table elem) :=
  match fuel with
  | O => None
  | S f =>
    if length t <=? i then Some t else
    match get elem t i with
    | None => inter_loop_prefix f t other (S i)
    | Some q =>
      match hs_contains elem eqb h other q with
      | None => None
      | Some true => inter_loop_prefix f t other i
      | Some false =>
        match remove_at_prefix t i with
        | None => None
        | Some t' => inter_loop_prefix f t' other i
        end
      end
    end
  end.

Definition hs_intersect_prefix (fuel : nat) (s other : hset elem) : option (hset elem) :=
  if closed _ s then None else
  match inter_loop_prefix fuel (slots _ s) other 0 with
  | None => None
  | Some t => Some (mkHset _ t (hsize _ s) (thresh _ s) (closed _ s))
  end.

(* lp_polynomial_heap_remove of the pinned tree:
     for (i = 0; i < size; ++i)
       if (eq(p, data[i])) { data[i] = data[--size]; heapify_down(heap, i); result++; }
   no sift-up of the element moved in, the slot is not looked at again, the removed element leaks *)
Fixpoint remove_loop_prefix (fuel : nat) (a : list elem) (p : elem) (i : nat) (cnt : nat)
  : option (list elem * nat) :=
  match fuel with
  | O => None
  | S f =>
    if length a <=? i then Some (a, cnt) else
    match nth_error a i with
    | None => None
    | Some x =>
      if eqb p x then
        match take_last elem a i with
        | None => None
        | Some a1 =>
          match sift_down elem cmp (length a) a1 (i + 1) with
          | None => None
          | Some a2 => remove_loop_prefix f a2 p (S i) (S cnt)
          end
        end
      else remove_loop_prefix f a p (S i) cnt
    end
  end.

Definition heap_remove_prefix (a : list elem) (p : elem) : option (list elem * nat) :=
  remove_loop_prefix (length a + 1) a p 0 0.

End Prefix.

(* ------------------------------------------------------------------------------------------- *)
(* Witnesses.  Elements are numbers; the hash is given by a table. *)

Local Open Scope N_scope.

(* A = 1 and C = 3 have home slot 5, B = 2 has home slot 6 (table of 64 slots) *)
Definition h_abc (x : N) : N := match x with 1 => 5 | 2 => 6 | 3 => 5 + 64 | _ => 0 end.

(* insert A, B, C (C lands in slot 7 behind B which sits in its home slot); remove A: the pinned
   back-shift stops at B, slot 5 stays empty, and C - still stored - is no longer found *)
Theorem C20_hs_remove_prefix_refuted :
  exists s s' rs,
    hs_run N N.eqb h_abc 0 (hs_new N) [OInsert N 1; OInsert N 2; OInsert N 3] = Some (s, rs) /\
    hs_contains N N.eqb h_abc s 3 = Some true /\
    hs_remove_prefix N N.eqb h_abc s 1 = Some (s', true) /\
    In 3 (occ N (slots N s')) /\
    hs_contains N N.eqb h_abc s' 3 = Some false.
Proof.
  eexists. eexists. eexists. split; [vm_compute; reflexivity|].
  split; [vm_compute; reflexivity|]. split; [vm_compute; reflexivity|].
  split; [vm_compute; tauto|vm_compute; reflexivity].
Qed.

(* the repaired function on the same input keeps C reachable *)
Example C20_hs_remove_repaired_witness :
  exists s s' rs,
    hs_run N N.eqb h_abc 0 (hs_new N) [OInsert N 1; OInsert N 2; OInsert N 3] = Some (s, rs) /\
    hs_remove N N.eqb h_abc s 1 = Some (s', true) /\
    hs_contains N N.eqb h_abc s' 3 = Some true /\ hs_contains N N.eqb h_abc s' 2 = Some true /\
    hs_contains N N.eqb h_abc s' 1 = Some false.
Proof.
  eexists. eexists. eexists. split; [vm_compute; reflexivity|].
  split; [vm_compute; reflexivity|]. repeat split; vm_compute; reflexivity.
Qed.

Definition h_id (x : N) : N := x.
Definition set_of (l : list N) : hset N :=
  match hs_of_list N N.eqb h_id l with Some s => s | None => hs_new N end.

Lemma inter_loop_prefix_S : forall f t other i,
  inter_loop_prefix N N.eqb h_id (S f) t other i =
    if (length t <=? i)%nat then Some t else
    match get N t i with
    | None => inter_loop_prefix N N.eqb h_id f t other (S i)
    | Some q =>
      match hs_contains N N.eqb h_id other q with
      | None => None
      | Some true => inter_loop_prefix N N.eqb h_id f t other i
      | Some false =>
        match remove_at_prefix N h_id t i with
        | None => None
        | Some t' => inter_loop_prefix N N.eqb h_id f t' other i
        end
      end
    end.
Proof. reflexivity. Qed.

(* {0} intersected with {0}: the loop of the pinned code never advances - for EVERY amount of fuel
   the faithful model is still running, i.e. the C function does not return *)
Theorem C20_hs_intersect_prefix_diverges_refuted :
  forall fuel, hs_intersect_prefix N N.eqb h_id fuel (set_of [0]) (set_of [0]) = None.
Proof.
  intros fuel. unfold hs_intersect_prefix.
  change (closed N (set_of [0])) with false. cbv iota.
  assert (E : inter_loop_prefix N N.eqb h_id fuel (slots N (set_of [0])) (set_of [0]) 0%nat = None).
  { induction fuel as [|f IH]; [reflexivity|].
    rewrite inter_loop_prefix_S.
    assert (E1 : Nat.leb (length (slots N (set_of [0]))) 0%nat = false) by (vm_compute; reflexivity).
    assert (E2 : get N (slots N (set_of [0])) 0%nat = Some 0) by (vm_compute; reflexivity).
    assert (E3 : hs_contains N N.eqb h_id (set_of [0]) 0 = Some true) by (vm_compute; reflexivity).
    rewrite E1, E2, E3. exact IH. }
  rewrite E. reflexivity.
Qed.

(* {1} intersected with {2} terminates, the table is empty afterwards, but `size` is still 1 *)
Theorem C20_hs_intersect_prefix_size_refuted :
  exists s', hs_intersect_prefix N N.eqb h_id 200 (set_of [1]) (set_of [2]) = Some s' /\
             occ N (slots N s') = [] /\ hsize N s' = 1%nat.
Proof. eexists. split; [vm_compute; reflexivity|]. split; vm_compute; reflexivity. Qed.

(* ------------------------------------------------------------------------------------------- *)
(* Heap: numbers ordered by value *)

Local Open Scope Z_scope.
Definition zcmp' (a b : Z) : Z := a - b.

Definition heap7 : list Z := [9;5;8;1;4;6;7].

(* heap7 is what pushing its elements one by one builds *)
Example heap7_built : heap_push_list Z zcmp' [] heap7 = Some heap7.
Proof. vm_compute. reflexivity. Qed.

(* remove 1 (slot 3, child of 5): the last element 7 comes from the other subtree, is moved in below
   5 and is never sifted up: the array is [9;5;8;7;4;6].  After popping 9 and 8 the top is 6 although
   7 is still in the heap - pop returns a non-maximal element.
   (DESIGN section 0 suggested the 15-element heap [100;10;90;5;4;80;70;1;2;3;3;60;50;40;30]; there the
   order violation exists in the array but the later pops happen to repair it before it is observed.) *)
Theorem C20_heap_remove_prefix_order_refuted :
  exists a' a'' rs m x,
    heap_remove_prefix Z Z.eqb zcmp' heap7 1 = Some (a', 1%nat) /\
    heap_run Z Z.eqb 0 zcmp' a' [HPop Z; HPop Z] = Some (a'', rs) /\
    heap_peek Z a'' = Some m /\ In x a'' /\ zcmp' m x < 0.
Proof.
  eexists. eexists. eexists. eexists. exists 7.
  split; [vm_compute; reflexivity|]. split; [vm_compute; reflexivity|].
  split; [vm_compute; reflexivity|]. split; [vm_compute; tauto|vm_compute; reflexivity].
Qed.

(* [5;3;3] remove 3: the last 3 is moved into the slot just examined and is skipped: one copy
   is reported and one copy stays (the header documents the number of removed polynomials) *)
Theorem C20_heap_remove_prefix_count_refuted :
  heap_remove_prefix Z Z.eqb zcmp' [5;3;3] 3 = Some ([5;3], 1%nat).
Proof. vm_compute. reflexivity. Qed.

Example C20_heap_remove_repaired_witness :
  heap_remove Z Z.eqb zcmp' [5;3;3] 3 = Some ([5], 2%nat) /\
  heap_remove Z Z.eqb zcmp' heap7 1 = Some ([9;7;8;5;4;6], 1%nat).
Proof. split; vm_compute; reflexivity. Qed.
