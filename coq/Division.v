(* Property C02 - model of libpoly's division code.  Executable Gallina, stdlib only, no proofs here.

   Part I  : src/upolynomial/upolynomial.c + upolynomial_dense.c
             lp_upolynomial_div_general / upolynomial_dense_div_general (one loop, exact and pseudo),
             lp_upolynomial_div_exact / rem_exact / div_rem_exact / div_pseudo / divides / div_exact_c,
             on dense scratch buffers (coefficient array + used size), over Z (K = None) and Z_M (K = Some M).
   Part II : src/polynomial/coefficient.c
             the single loop of coefficient_reduce with its four remaindering variants and the missed-power
             rule, coefficient_div (all early exits) / rem / divrem / prem / sprem / pdivrem / spdivrem /
             divides, over Z.  Operands are in the UNIVARIATE VIEW of the main variable x: `list mpoly`,
             low degree first, the entries being polynomials in the other variables in the reference
             multivariate model MPoly.v.  Exact division of coefficient polynomials recurses on the
             variables (fuel).

   The model describes the code AFTER the repairs proposed in /verif/fixes/C02-*.patch (divides, the missed
   power of a vanished remainder, divrem by a lower-variable divisor); the pre-repair functions and their
   refutations are in History_C02.v.                                                                        *)
From Coq Require Import ZArith NArith List Bool.
From LP Require Import Scalar UPoly MPoly.
Import ListNotations.
Local Open Scope Z_scope.

(* ====================================================================================== Part I *)

(* upolynomial_dense_t: coefficient array (its length is the capacity) and the used size *)
Record dense := mkDense { dcoef : list Z; dsize : nat }.

Fixpoint list_set (l : list Z) (i : nat) (v : Z) : list Z :=
  match l, i with
  | [], _ => []
  | _ :: l', O => v :: l'
  | a :: l', S i' => a :: list_set l' i' v
  end.

(* upolynomial_dense_normalize: d = size-1; while (d > 0 && sgn(K, c[d]) == 0) d--; size = d+1 *)
Fixpoint dense_norm_deg (K : ring) (l : list Z) (d : nat) : nat :=
  match d with
  | O => O
  | S d' => if int_sgn K (nth d l 0) =? 0 then dense_norm_deg K l d' else d
  end.
Definition dense_normalize (K : ring) (p : dense) : dense :=
  mkDense (dcoef p) (S (dense_norm_deg K (dcoef p) (dsize p - 1))).

(* upolynomial_dense_touch *)
Definition dense_touch (p : dense) (d : nat) : dense :=
  if (dsize p <=? d)%nat then mkDense (dcoef p) (S d) else p.

(* upolynomial_dense_mult_c: only the entries below `size`, only the non-zero ones *)
Fixpoint mult_c_aux (K : ring) (c : Z) (l : list Z) (n : nat) : list Z :=
  match n, l with
  | S n', a :: l' => (if a =? 0 then a else int_mul K a c) :: mult_c_aux K c l' n'
  | _, _ => l
  end.
Definition dense_mult_c (K : ring) (p : dense) (c : Z) : dense :=
  mkDense (mult_c_aux K c (dcoef p) (dsize p)) (dsize p).

(* upolynomial_dense_sub_mult_p_mon / _sub_mult_mon:  rem -= q * (m x^j), touching only the positions of the
   non-zero coefficients of q; then the size is raised to deg q + j + 1 if needed and normalised *)
Fixpoint sub_mul_at (K : ring) (rem q : list Z) (m : Z) : list Z :=
  match rem, q with
  | r :: rem', c :: q' => (if c =? 0 then r else int_sub_mul K r c m) :: sub_mul_at K rem' q' m
  | _, _ => rem
  end.
Fixpoint sub_mul_shift (K : ring) (rem q : list Z) (m : Z) (j : nat) {struct j} : list Z :=
  match j with
  | O => sub_mul_at K rem q m
  | S j' => match rem with [] => [] | r :: rem' => r :: sub_mul_shift K rem' q m j' end
  end.
Definition dense_sub_mult (K : ring) (p : dense) (q : list Z) (m : Z) (j : nat) : dense :=
  dense_normalize K (mkDense (sub_mul_shift K (dcoef p) q m j) (Nat.max (dsize p) (length q + j))).

(* the quotient coefficient of the exact variant: assert(integer_divides(K, lc q, a)); integer_div_exact.
   Over Z_M the model covers an invertible leading coefficient (always the case for M prime), where the
   result is the unique residue a * lc^-1; None = the assertion fails / outside this domain *)
Definition udiv_coeff (K : ring) (a lc : Z) : option Z :=
  match K with
  | None => if int_divides None false lc a then (if lc =? 0 then None else Some (a / lc)) else None
  | Some _ => match int_inv K lc with Some i => Some (int_mul K a i) | None => None end
  end.

(* the loop `for (k = p_deg; k >= q_deg; --k)`; n = k - q_deg + 1 is the number of values of k left *)
Fixpoint udiv_loop (K : ring) (exact : bool) (q : list Z) (q_deg : nat) (lcq : Z) (n : nat)
                   (dv rm : dense) : option (dense * dense) :=
  match n with
  | O => Some (dv, rm)
  | S j =>                                    (* k = q_deg + j, m.degree = j *)
    let a := nth (q_deg + j) (dcoef rm) 0 in
    if exact && (a =? 0) then udiv_loop K exact q q_deg lcq j dv rm     (* while (exact && ... == 0) k-- *)
    else if exact then
      match udiv_coeff K a lcq with
      | None => None
      | Some m =>
        let rm' := if int_sgn K m =? 0 then rm else dense_sub_mult K rm q m j in
        let dv' := dense_touch (mkDense (list_set (dcoef dv) j m) (dsize dv)) j in
        udiv_loop K exact q q_deg lcq j dv' rm'
      end
    else
      let m := a in
      let rm1 := dense_mult_c K rm lcq in
      let rm' := if int_sgn K m =? 0 then rm1 else dense_sub_mult K rm1 q m j in
      let c := if m =? 0 then m else int_mul K m (int_pow K lcq (N.of_nat j)) in
      let dv' := dense_touch (mkDense (list_set (dcoef dv) j c) (dsize dv)) j in
      udiv_loop K exact q q_deg lcq j dv' rm'
  end.

(* a sparse lp_upolynomial_t is given by its canonical dense list (pnorm p = p); the zero polynomial is
   0*x^0, of degree 0 *)
Definition udense_of (p : list Z) : list Z := match p with [] => [0] | _ => p end.
Definition udeg (p : list Z) : nat := (length (udense_of p) - 1)%nat.
(* upolynomial_dense_to_upolynomial = lp_upolynomial_construct(K, size-1, coefficients) *)
Definition dense_out (K : ring) (p : dense) : list Z := pnorm (map (ring_norm K) (firstn (dsize p) (dcoef p))).

(* lp_upolynomial_div_general / upolynomial_dense_div_general: Some (div, rem) *)
Definition udiv_general (K : ring) (exact : bool) (p q : list Z) : option (list Z * list Z) :=
  match q with
  | [] => None                                            (* divisor zero: outside the domain *)
  | _ =>
    let p_deg := udeg p in
    let q_deg := udeg q in
    if (p_deg <? q_deg)%nat then None                     (* assert(deg q <= deg p) *)
    else
      let rm := mkDense (udense_of p) (S p_deg) in
      let dv := mkDense (repeat 0 (S (p_deg - q_deg))) 1 in
      match udiv_loop K exact q q_deg (last q 0) (S (p_deg - q_deg)) dv rm with
      | Some (dv', rm') => Some (dense_out K dv', dense_out K rm')
      | None => None
      end
  end.

Definition udiv_exact (K : ring) (p q : list Z) : option (list Z) :=
  match q with [] => None | _ =>
    if (udeg q <=? udeg p)%nat then option_map fst (udiv_general K true p q) else Some []
  end.
Definition urem_exact (K : ring) (p q : list Z) : option (list Z) :=
  match q with [] => None | _ =>
    if (udeg q <=? udeg p)%nat then option_map snd (udiv_general K true p q) else Some p
  end.
Definition udiv_rem_exact (K : ring) (p q : list Z) : option (list Z * list Z) :=
  match q with [] => None | _ =>
    if (udeg q <=? udeg p)%nat then udiv_general K true p q else Some ([], p)
  end.
Definition udiv_pseudo (K : ring) (p q : list Z) : option (list Z * list Z) := udiv_general K false p q.

(* lp_upolynomial_div_exact_c: every coefficient divided exactly by c (asserts c != 0 and divisibility) *)
Fixpoint map_option {A B : Type} (f : A -> option B) (l : list A) : option (list B) :=
  match l with
  | [] => Some []
  | a :: l' => match f a, map_option f l' with Some b, Some r => Some (b :: r) | _, _ => None end
  end.
Definition udiv_exact_c (K : ring) (p : list Z) (c : Z) : option (list Z) :=
  if int_sgn K c =? 0 then None
  else option_map pnorm (map_option (fun a => if a =? 0 then Some 0 else udiv_coeff K a c) p).

(* lowest monomial (p->monomials[0]) of a canonical dense list: (degree, coefficient); (0, 0) for zero *)
Fixpoint ulow (p : list Z) : nat * Z :=
  match p with
  | [] => (O, 0)
  | c :: p' => if c =? 0 then (match p' with [] => (O, 0) | _ => let '(d, a) := ulow p' in (S d, a) end) else (O, c)
  end.

(* lp_upolynomial_divides(p, q): "p divides q".
   REPAIRED (fixes/C02-upolynomial-divides.patch): p | 0 is true, and over a non-prime ring a zero
   pseudo-remainder is only accepted when lc(p)^(deg q - deg p + 1) divides every coefficient of the
   pseudo-quotient (then q = (div / lc^k) * p; the pinned code answered from the pseudo-remainder alone). *)
Definition udivides (K : ring) (is_prime : bool) (p q : list Z) : option bool :=
  match p with [] => None | _ =>
  match q with
  | [] => Some true
  | _ =>
    if (udeg q <? udeg p)%nat then Some false
    else if (fst (ulow q) <? fst (ulow p))%nat then Some false
    else if negb (int_divides K is_prime (snd (ulow p)) (snd (ulow q))) then Some false
    else if (match K with Some _ => is_prime | None => false end) then
      match urem_exact K q p with Some r => Some (pis_zero r) | None => None end
    else
      match udiv_pseudo K q p with
      | Some (d, r) =>
        let adj := int_pow K (last p 0) (N.of_nat (S (udeg q - udeg p))) in
        Some (pis_zero r && forallb (fun c => int_divides K is_prime adj c) d)
      | None => None
      end
  end end.

(* case kind `umultiple M p d`: the dividend is the product p*d in Z_M[x] (lp_upolynomial_mul: the integer product,
   coefficients normalised in the ring, leading zeros dropped), so a quotient exists BY CONSTRUCTION and
   lp_upolynomial_divides(p, p*d) has to answer true - in every coefficient ring, composite moduli included. *)
Definition umul_ring (K : ring) (p d : list Z) : list Z := pnorm (map (ring_norm K) (pmul p d)).
Definition umultiple_expected (K : ring) (p d : list Z) : list Z * bool := (umul_ring K p d, true).

(* ====================================================================================== Part II *)

Definition cpoly := list mpoly.          (* coefficients of x^0, x^1, ... ; entries free of x *)

(* canonical view: no zero entry on the leading side *)
Fixpoint cp_norm (l : cpoly) : cpoly :=
  match l with
  | [] => []
  | c :: l' =>
    match cp_norm l' with
    | [] => if mp_is_zero c then [] else [c]
    | l'' => c :: l''
    end
  end.
Definition cp_is_zero (l : cpoly) : bool := match cp_norm l with [] => true | _ => false end.
(* coefficient_degree_safe: 0 for zero and for constants in x; coefficient_lc_safe *)
Definition cp_deg (l : cpoly) : Z := Z.of_nat (length (cp_norm l) - 1).
Definition cp_lc (l : cpoly) : mpoly := last (cp_norm l) [].

Fixpoint cp_add (a b : cpoly) : cpoly :=
  match a, b with
  | [], _ => b
  | _, [] => a
  | x :: a', y :: b' => mp_add x y :: cp_add a' b'
  end.
Definition cp_neg (a : cpoly) : cpoly := map mp_neg a.
Definition cp_sub (a b : cpoly) : cpoly := cp_add a (cp_neg b).
Definition cp_scale (c : mpoly) (a : cpoly) : cpoly := map (mp_mul c) a.    (* c free of x *)
Definition cp_shift (d : nat) (a : cpoly) : cpoly := repeat [] d ++ a.        (* coefficient_shl by x^d *)

Inductive rem_type := PseudoDense | ExactSparse | PseudoSparse | LcmSparse.

(* the power of lc(B) a dense pseudo-division step sequence would have multiplied in between two
   consecutive remainders.  REPAIRED (fixes/C02-reduce-missed-power.patch): a remainder that has become
   zero has lost ALL remaining powers (the pinned code took its degree to be 0, see History_C02.v). *)
Definition missed_power (R_zero : bool) (R_deg R_deg_prev B_deg : Z) : Z :=
  if R_zero || (R_deg <? B_deg) then R_deg_prev - B_deg else R_deg_prev - R_deg - 1.

(* sign of the leading coefficient in libpoly's recursive order (coefficient_lc_sgn): the term whose
   monomial, read from the highest variable down, is lexicographically largest *)
Definition mp_lead_term (p : mpoly) : option term :=
  fold_right (fun t acc =>
    match acc with
    | None => Some t
    | Some u => match mono_cmp (rev (fst t)) (rev (fst u)) with Gt => Some t | _ => Some u end
    end) None p.
Definition mp_lc_sgn (p : mpoly) : Z := match mp_lead_term p with Some t => Z.sgn (snd t) | None => 0 end.

Section Reduce.
(* coefficient_div on the coefficient polynomials (one variable fewer) and coefficient_lcm (property C03's
   subject: an oracle here; every theorem of C02 holds for ANY lcmf) *)
Variable divf : mpoly -> mpoly -> option mpoly.
Variable lcmf : mpoly -> mpoly -> mpoly.
(* the missed-power rule is a parameter only so that History_C02.v can instantiate the pre-repair one *)
Variable missedf : bool -> Z -> Z -> Z -> Z.

(* multipliers (r, b) of one elimination step  R' = r*R - b*x^d*B *)
Definition step_mult (ty : rem_type) (lc_R lc_B : mpoly) : option (mpoly * mpoly) :=
  match ty with
  | ExactSparse =>
    match divf lc_R lc_B with Some b => Some (mp_const 1, b) | None => None end
  | LcmSparse =>
    let l := lcmf lc_R lc_B in
    match divf l lc_R, divf l lc_B with
    | Some r, Some b => if mp_lc_sgn r <? 0 then Some (mp_neg r, mp_neg b) else Some (r, b)
    | _, _ => None
    end
  | PseudoDense | PseudoSparse => Some (lc_B, lc_R)
  end.

(* the do { ... } while (1) loop of coefficient_reduce; state P, Q, R, R_deg, R_deg_prev.
   None = out of fuel, or an assertion of the C code fails *)
Fixpoint reduce_loop (ty : rem_type) (fuel : nat) (B : cpoly) (B_deg : Z) (lc_B : mpoly)
                     (P : mpoly) (Q R : cpoly) (R_deg R_deg_prev : Z) : option (mpoly * cpoly * cpoly) :=
  match fuel with
  | O => None
  | S f =>
    (* account for the sparse operation *)
    let '(P, Q, R) :=
      match ty with
      | PseudoDense =>
        let missed := missedf (cp_is_zero R) R_deg R_deg_prev B_deg in
        if 0 <? missed then
          let pw := mp_pow lc_B (Z.to_nat missed) in
          (mp_mul P pw, cp_scale pw Q, cp_norm (cp_scale pw R))
        else (P, Q, R)
      | _ => (P, Q, R)
      end in
    (* if we eliminated all of x we are done *)
    if cp_is_zero R || (R_deg <? B_deg) then Some (P, Q, R)
    else
      let d := Z.to_nat (R_deg - B_deg) in
      let lc_R := cp_lc R in
      match step_mult ty lc_R lc_B with
      | None => None
      | Some (r, b) =>
        if mp_is_zero r || mp_is_zero b then None else         (* assert(!is_zero(r)); assert(!is_zero(b)) *)
        let R' := cp_norm (cp_sub (cp_scale r R) (cp_shift d (cp_scale b B))) in
        let R_deg' := cp_deg R' in
        if negb (cp_is_zero R' || (R_deg' <? R_deg)) then None  (* assert(is_zero(R) || R_deg < R_deg_prev) *)
        else
          reduce_loop ty f B B_deg lc_B (mp_mul P r) (cp_add (cp_scale r Q) (cp_shift d [b])) R' R_deg' R_deg
      end
  end.

(* coefficient_reduce on the views of A and B (B <> 0): Some (P, Q, R) *)
Definition reduce (ty : rem_type) (fuel : nat) (A B : cpoly) : option (mpoly * cpoly * cpoly) :=
  let A := cp_norm A in
  let B := cp_norm B in
  match B with
  | [] => None
  | _ => reduce_loop ty fuel B (cp_deg B) (cp_lc B) (mp_const 1) [] A (cp_deg A) (cp_deg A)
  end.
End Reduce.

(* ---------------------------------------------------------------- from polynomials to views and back *)

(* top variable in the default order x0 < x1 < ... ; None for constants *)
Definition mp_top (p : mpoly) : option var :=
  fold_right (fun t acc =>
    fold_right (fun ve acc => match acc with None => Some (fst ve) | Some y => Some (N.max y (fst ve)) end) acc (fst t))
    None p.
(* coefficient_cmp_type: constants below polynomials, polynomials by main variable *)
Definition cmp_type (a b : mpoly) : comparison :=
  match mp_top a, mp_top b with
  | None, None => Eq
  | None, Some _ => Lt
  | Some _, None => Gt
  | Some x, Some y => N.compare x y
  end.
Definition mp_num (p : mpoly) : Z := match p with [] => 0 | (_, c) :: _ => c end.   (* value of a constant *)

(* coefficient_div_constant over Z: integer_div_Z (truncating) on every numeral *)
Definition mp_div_const (p : mpoly) (c : Z) : mpoly := mp_of_terms (map (fun t => (fst t, Z.quot (snd t) c)) p).

Fixpoint common_low_zeros (a b : cpoly) : nat :=
  match a, b with
  | x :: a', y :: b' => if mp_is_zero x && mp_is_zero y then S (common_low_zeros a' b') else O
  | _, _ => O
  end.

(* coefficient_div(D, C1, C2) with its early exits; the reduce loop it ends in uses mp_div on the
   coefficients, which have one variable fewer.  fuel bounds both the nesting and the loop. *)
Fixpoint mp_div (fuel : nat) (C1 C2 : mpoly) : option mpoly :=
  match fuel with
  | O => None
  | S f =>
    if mp_is_zero C1 then Some []                                   (* 0/C2 = 0 *)
    else if mp_eqb C1 C2 then Some (mp_const 1)                     (* C1/C1 = 1 *)
    else
      match mp_top C2 with
      | None => if mp_is_zero C2 then None else Some (mp_div_const C1 (mp_num C2))   (* constant divisor *)
      | Some y2 =>
        match mp_top C1 with
        | None => None                                              (* a polynomial does not divide a constant *)
        | Some y1 =>
          if (y1 <? y2)%N then None
          else if (y2 <? y1)%N then                                 (* different variables: coefficient-wise *)
            option_map (mp_of_coeffs y1) (map_option (fun c => mp_div f c C2) (mp_coeffs y1 C1))
          else
            let A := mp_coeffs y1 C1 in
            let B := mp_coeffs y1 C2 in
            let i := common_low_zeros A B in
            if (0 <? i)%nat then mp_div f (mp_of_coeffs y1 (skipn i A)) (mp_of_coeffs y1 (skipn i B))
            else
              match reduce (mp_div f) (fun a _ => a) missed_power ExactSparse (S f) A B with
              | Some (_, Q, _) => Some (mp_of_coeffs y1 Q)
              | None => None
              end
        end
      end
  end.

Section Entry.
Variable lcmf : mpoly -> mpoly -> mpoly.
Variable fuel : nat.

(* coefficient_reduce(A, B, P, Q, R, type): A is a polynomial (not a constant), x = VAR(A) *)
Definition m_reduce (ty : rem_type) (A B : mpoly) : option (mpoly * mpoly * mpoly) :=
  match mp_top A with
  | None => None
  | Some x =>
    match cmp_type A B with
    | Lt => None                       (* the main variable of B is above x: outside the domain *)
    | _ =>
      match reduce (mp_div fuel) lcmf missed_power ty fuel (mp_coeffs x A) (mp_coeffs x B) with
      | Some (P, Q, R) => Some (P, mp_of_coeffs x Q, mp_of_coeffs x R)
      | None => None
      end
    end
  end.

(* coefficient_rem / sprem / prem / pdivrem / spdivrem share one shape *)
Definition m_divrem_with (ty : rem_type) (C1 C2 : mpoly) : option (mpoly * mpoly) :=
  if mp_is_zero C2 then None else
  match cmp_type C1 C2 with
  | Lt => None
  | c =>
    match c, mp_top C1 with
    | Eq, None => Some (mp_const (Z.quot (mp_num C1) (mp_num C2)), mp_const (Z.rem (mp_num C1) (mp_num C2)))
    | _, _ => match m_reduce ty C1 C2 with Some (_, Q, R) => Some (Q, R) | None => None end
    end
  end.
Definition m_rem (C1 C2 : mpoly) := option_map snd (m_divrem_with ExactSparse C1 C2).
Definition m_sprem (C1 C2 : mpoly) := option_map snd (m_divrem_with PseudoSparse C1 C2).
Definition m_prem (C1 C2 : mpoly) := option_map snd (m_divrem_with PseudoDense C1 C2).
Definition m_pdivrem (C1 C2 : mpoly) := m_divrem_with PseudoDense C1 C2.
Definition m_spdivrem (C1 C2 : mpoly) := m_divrem_with PseudoSparse C1 C2.
Definition m_div (C1 C2 : mpoly) : option mpoly := mp_div fuel C1 C2.

(* coefficient_divrem.  REPAIRED (fixes/C02-divrem-lower-variable.patch): for a divisor in a lower variable
   the remainder is C1 - D*C2 (the pinned code took coefficient_rem of the constant coefficient of C1,
   which asserts as soon as that coefficient is a constant or lies below C2) *)
Definition m_divrem (C1 C2 : mpoly) : option (mpoly * mpoly) :=
  if mp_is_zero C2 then None else
  match cmp_type C1 C2 with
  | Lt => None
  | Eq => m_divrem_with ExactSparse C1 C2
  | Gt =>
    match mp_div fuel C1 C2 with
    | Some D => Some (D, mp_sub C1 (mp_mul D C2))
    | None => None
    end
  end.

(* coefficient_divides(C1, C2): "C1 divides C2".
   REPAIRED (fixes/C02-coefficient-divides.patch).  The pinned code answered prem(C2, C1) == 0, which only
   says that C1 divides lc(C1)^k * C2.  Now: with P*C2 = Q*C1 + R from the sparse pseudo-division, C1 | C2
   iff R = 0 and P | Q; P is free of the main variable, so it has to divide every coefficient of Q, which is
   the same question with fewer variables; between integers it is integer divisibility. *)
Fixpoint m_divides_aux (n : nat) (C1 C2 : mpoly) : option bool :=
  match n with
  | O => None
  | S n' =>
    if mp_is_zero C2 then Some true
    else
      match cmp_type C2 C1 with
      | Lt => Some false                                   (* C1 has a variable that C2 (non-zero) lacks *)
      | c =>
        match mp_top C2 with
        | None => Some (int_divides None false (mp_num C1) (mp_num C2))
        | Some x =>
          match c with
          | Gt =>                                           (* C1 is constant in x *)
            fold_right (fun q acc => match m_divides_aux n' C1 q, acc with
                                     | Some b, Some b' => Some (b && b') | _, _ => None end)
                       (Some true) (mp_coeffs x C2)
          | _ =>
            match reduce (mp_div fuel) lcmf missed_power PseudoSparse fuel (mp_coeffs x C2) (mp_coeffs x C1) with
            | Some (P, Q, R) =>
              if cp_is_zero R then
                fold_right (fun q acc => match m_divides_aux n' P q, acc with
                                         | Some b, Some b' => Some (b && b') | _, _ => None end)
                           (Some true) Q
              else Some false
            | None => None
            end
          end
        end
      end
  end.
Definition m_divides (C1 C2 : mpoly) : option bool :=
  if mp_is_zero C1 then None else m_divides_aux fuel C1 C2.
End Entry.

(* ====================================================================================== checkers
   Run by the model driver on the IMPLEMENTATION's output where the property does not determine it
   (sparse and lcm variants): the defining identity recomputed with the reference operations. *)
Definition check_reduce (x : var) (A B P Q R : mpoly) : bool :=
  mp_eqb (mp_mul P A) (mp_add (mp_mul Q B) R)
  && (mp_is_zero R || (mp_degree x R <? mp_degree x B)%N)
  && (mp_degree x P =? 0)%N && negb (mp_is_zero P).
(* sparse pseudo-division without the multiplier: some power lc^k, k <= n, works *)
Fixpoint check_pow_reduce (x : var) (A B lc Q R P : mpoly) (n : nat) : bool :=
  check_reduce x A B P Q R ||
  match n with O => false | S n' => check_pow_reduce x A B lc Q R (mp_mul lc P) n' end.

(* a stand-in for coefficient_lcm (property C03) when the model of the lcm variant is RUN: the integer lcm of
   constants, otherwise the product (a common multiple).  The implementation's result is validated with
   check_reduce, never compared with this. *)
Definition lcm_standin (a b : mpoly) : mpoly :=
  match mp_top a, mp_top b with
  | None, None => mp_const (Z.lcm (mp_num a) (mp_num b))
  | _, _ => let m := mp_mul a b in if mp_lc_sgn m <? 0 then mp_neg m else m
  end.

(* ====================================================================================== Part III
   Divisibility in a context over a PRIME FIELD Z_p (lp_polynomial_divides with ctx->K = Z_p).  The
   multivariate division code is not modelled over Z_p; this case kind is DECIDED BY CONSTRUCTION: the dividend
   is B = A*Q + R (computed by the library in the Z_p context), where - after reduction mod p - A is not constant
   and R is zero or of lower degree than A in A's main variable x.  F_p[all other variables] is an integral
   domain D, and in D[x] a representation B = A*Q + R with deg_x R < deg_x A is unique, so A | B iff R = 0
   (theorem C02_pdivides_decision).  None = the case is outside this domain. *)
Definition mp_modp (p : Z) (a : mpoly) : mpoly := mp_map_coeff (ring_norm (Some p)) a.
Definition pdivides_dividend (p : Z) (A Q R : mpoly) : mpoly := mp_modp p (mp_add (mp_mul A Q) R).
Definition pdivides_expected (p : Z) (A R : mpoly) : option bool :=
  let A' := mp_modp p A in
  let R' := mp_modp p R in
  match mp_top A' with
  | None => None
  | Some x =>
    if mp_is_zero R' then Some true
    else if (mp_degree x R' <? mp_degree x A')%N then Some false
    else None
  end.
