(* C10 model: sign and value of a polynomial under an assignment.
   Executable, stdlib only, no proofs here (EvalSgnProofs.v).  Mirrors, statement by statement,
     src/utils/sign_condition.c      lp_sign_condition_consistent           -> sc_consistent
     src/polynomial/coefficient.c    coefficient_evaluate_rationals         -> eval_rat
                                     coefficient_root_lower_bound (REPAIRED)-> root_lower_bound
                                     coefficient_sgn: first exit + refinement loop, as a function of the
                                     sequence of enclosing intervals of the value -> sgn_first / sgn_loop / coef_sgn_core
     src/interval/interval.c         lp_rational_interval_{sgn,contains_zero,contains_rational,is_point}
   The algebraic core (resultant eliminant, interval evaluation, root isolation and selection) is NOT modelled:
   it is validated against the reference RefAlg.mp_eval_rn by denotation on every run.
   The pre-repair root_lower_bound and its refutation are in History_C10.v. *)
From Coq Require Import ZArith NArith List Bool.
From LP Require Import Scalar UPoly MPoly Sylvester.
Import ListNotations.
Local Open Scope Z_scope.

(* ---------------------------------------------------------------- sign conditions (sign_condition.h enum order) *)
(* 0 LT_0, 1 LE_0, 2 EQ_0, 3 NE_0, 4 GT_0, 5 GE_0 ; `sign` is an arbitrary C int *)
Inductive sign_condition := SGN_LT_0 | SGN_LE_0 | SGN_EQ_0 | SGN_NE_0 | SGN_GT_0 | SGN_GE_0.

Definition sc_consistent (c : sign_condition) (sign : Z) : bool :=
  match c with
  | SGN_LT_0 => sign <? 0
  | SGN_LE_0 => sign <=? 0
  | SGN_EQ_0 => sign =? 0
  | SGN_NE_0 => negb (sign =? 0)
  | SGN_GT_0 => sign >? 0
  | SGN_GE_0 => sign >=? 0
  end.

Definition sc_negate (c : sign_condition) : sign_condition :=
  match c with
  | SGN_LT_0 => SGN_GE_0
  | SGN_LE_0 => SGN_GT_0
  | SGN_EQ_0 => SGN_NE_0
  | SGN_NE_0 => SGN_EQ_0
  | SGN_GT_0 => SGN_LE_0
  | SGN_GE_0 => SGN_LT_0
  end.

Definition sc_of_N (n : N) : sign_condition :=
  match n with
  | 0%N => SGN_LT_0 | 1%N => SGN_LE_0 | 2%N => SGN_EQ_0 | 3%N => SGN_NE_0 | 4%N => SGN_GT_0 | _ => SGN_GE_0
  end.
Definition sc_all : list sign_condition := [SGN_LT_0; SGN_LE_0; SGN_EQ_0; SGN_NE_0; SGN_GT_0; SGN_GE_0].

(* lp_polynomial_constraint_evaluate = lp_sign_condition_consistent (cond, lp_polynomial_sgn A M) *)
Definition constraint_evaluate (c : sign_condition) (p_sign : Z) : bool := sc_consistent c p_sign.

(* ---------------------------------------------------------------- coefficient_evaluate_rationals *)
(* order: the variables of the polynomial, TOP variable first (libpoly's recursive representation has the top
   variable outermost).  M x = Some (p, q) when the value of x is rational p/q (q > 0, lowest terms), None when it
   is a proper algebraic number (kept symbolic).  Returns (C_rat, multiplier). *)
Definition z_pow_nat (a : Z) (n : nat) : Z := Z.pow a (Z.of_nat n).

(* m_lcm: first multiplier, then integer_lcm_Z with each of the others, in order *)
Definition lcm_list (ms : list Z) : Z :=
  match ms with
  | [] => 1
  | m0 :: rest => fold_left Z.lcm rest m0
  end.

(* the loop `for (i = 0; i < size; ++i)` of the substitution branch: (b_i, R_i) with
   R_i = (m_lcm / m_i) * p^i * q^(n-i)   (p_power and q_power of the C code at iteration i) *)
Fixpoint subst_terms (rs : list (mpoly * Z)) (m_lcm p q : Z) (i n : nat) : list (mpoly * Z) :=
  match rs with
  | [] => []
  | r :: rs' => (fst r, (m_lcm / snd r) * z_pow_nat p i * z_pow_nat q (n - i)) :: subst_terms rs' m_lcm p q (S i) n
  end.

(* result = 0; result += b_i * R_i  for i increasing *)
Definition sum_scaled (brs : list (mpoly * Z)) : mpoly :=
  fold_left (fun acc br => mp_add acc (mp_scale (snd br) (fst br))) brs [].

Fixpoint eval_rat (order : list var) (M : var -> option rat) (C : mpoly) : mpoly * Z :=
  match order with
  | [] => (C, 1)                                           (* COEFFICIENT_NUMERIC: copy, multiplier 1 *)
  | x :: rest =>
    if (mp_degree x C =? 0)%N then eval_rat rest M C        (* x is not the top variable of C *)
    else
      let cs := mp_coeffs x C in                            (* SIZE(C) = length cs *)
      let rs := map (eval_rat rest M) cs in                 (* (b_i, m_i) *)
      let m_lcm := lcm_list (map snd rs) in
      match M x with
      | None =>
        (* result = sum b_i * (m / m_i) * x^i ; multiplier = lcm *)
        (mp_of_coeffs x (map (fun r => mp_scale (m_lcm / snd r) (fst r)) rs), m_lcm)
      | Some (p, q) =>
        let n := Nat.pred (length cs) in
        (* multiplier = q^n * m_lcm *)
        (sum_scaled (subst_terms rs m_lcm p q O n), z_pow_nat q n * m_lcm)
      end
  end.

(* ---------------------------------------------------------------- coefficient_sgn: the exits before the interval stage *)
(* C->type == COEFFICIENT_NUMERIC (canonical mpoly: the zero polynomial or a single constant term) *)
Definition mp_numeric (p : mpoly) : option Z :=
  match p with
  | [] => Some 0
  | [([], c)] => Some c
  | _ => None
  end.

(* `if (C numeric) sgn = integer_sgn(C) else { evaluate_rationals; if (C_rat numeric) sgn = integer_sgn(C_rat) else ... }`
   Some s: one of the two numeric exits is taken and the function returns s; None: the interval stage is entered *)
Definition coef_sgn_numeric (order : list var) (M : var -> option rat) (C : mpoly) : option Z :=
  match mp_numeric C with
  | Some c => Some (Z.sgn c)
  | None =>
    match mp_numeric (fst (eval_rat order M C)) with
    | Some c => Some (Z.sgn c)
    | None => None
    end
  end.

(* ---------------------------------------------------------------- coefficient_resolve_algebraic, one step *)
(* `coefficient_resultant(ctx, A_alg, A_alg, &y_poly)`: y = VAR(A_alg) is the top variable, its value is a root of
   the integer polynomial f (low degree first).  The resultant is the REFERENCE resultant of C04 (Sylvester.v);
   that libpoly's subresultant algorithm computes it is property C04. *)
Definition elim_alg (y : var) (A : mpoly) (f : list Z) : mpoly :=
  resultant_mp (mp_coeffs y A) (map mp_const f).

(* the coefficient list in z of a polynomial in which z is the only variable left (any other variable reads as 0) *)
Definition upoly_in (z : var) (B : mpoly) : list Z :=
  match B with
  | [] => []
  | _ => map (fun k => mp_eval (fun _ => 0) (mp_coeff z (N.of_nat k) B)) (seq 0 (S (N.to_nat (mp_degree z B))))
  end.

(* the eliminant B(z) of coefficient_sgn for ONE algebraic variable y: A = z - C_rat, B = Res_y (A, f) *)
Definition eliminant1 (z y : var) (C_rat : mpoly) (f : list Z) : list Z :=
  upoly_in z (elim_alg y (mp_sub (mp_var_pow z 1) C_rat) f).

(* ---------------------------------------------------------------- coefficient_root_lower_bound *)
(* integer_log2_abs = mpz_sizeinbase(a, 2) for a <> 0 *)
Definition log2_abs (a : Z) : Z := Z.log2 (Z.abs a) + 1.

Fixpoint strip_zeros (p : list Z) : list Z :=
  match p with
  | c :: q => if c =? 0 then strip_zeros q else p
  | [] => []
  end.

(* max over the non-zero remaining coefficients, starting from log_c0 *)
Definition max_log (l0 : Z) (rest : list Z) : Z :=
  fold_left (fun m c => if c =? 0 then m else if log2_abs c >? m then log2_abs c else m) rest l0.

(* the offset added to max_log - log_c0; the pinned code has +1 (History_C10.v), the repaired code +2 *)
Definition root_lower_bound_off (off : Z) (p : list Z) : Z :=
  match strip_zeros p with
  | [] => 0                                   (* outside the domain: the C code asserts i < SIZE(C) *)
  | c0 :: rest => let l0 := log2_abs c0 in max_log l0 rest - l0 + off
  end.
Definition root_lower_bound (p : list Z) : Z := root_lower_bound_off 2 p.

(* ---------------------------------------------------------------- rational intervals (interval.c) *)
Record rint := mkRint { ri_a : rat; ri_b : rat; ri_point : bool; ri_aopen : bool; ri_bopen : bool }.

Definition ri_contains_zero (I : rint) : bool :=
  let sa := q_sgn (ri_a I) in
  if ri_point I then sa =? 0
  else if ri_aopen I && (sa >=? 0) then false
  else if negb (ri_aopen I) && (sa >? 0) then false
  else
    let sb := q_sgn (ri_b I) in
    if ri_bopen I && (sb <=? 0) then false
    else if negb (ri_bopen I) && (sb <? 0) then false
    else true.

Definition ri_sgn (I : rint) : Z :=
  let sa := q_sgn (ri_a I) in
  if ri_point I then sa
  else
    let sb := q_sgn (ri_b I) in
    if (sa <? 0) && (sb >? 0) then 0
    else if sa =? 0 then (if negb (ri_aopen I) then 0 else 1)
    else if sb =? 0 then (if negb (ri_bopen I) then 0 else -1)
    else if sa <? 0 then -1 else 1.

Definition ri_contains_q (I : rint) (q : rat) : bool :=
  let c1 := q_cmp (ri_a I) q in
  if ri_point I then c1 =? 0
  else if ri_aopen I && (c1 >=? 0) then false
  else if negb (ri_aopen I) && (c1 >? 0) then false
  else
    let c2 := q_cmp q (ri_b I) in
    if ri_bopen I && (c2 >=? 0) then false
    else if negb (ri_bopen I) && (c2 >? 0) then false
    else true.

(* the open interval (-1/2^k, 1/2^k) *)
Definition L_interval (k : Z) : rint :=
  mkRint (-1, Z.pow 2 k) (1, Z.pow 2 k) false true true.

(* ---------------------------------------------------------------- exit logic of coefficient_sgn *)
(* first exit (before any eliminant is computed): a point, or zero excluded *)
Definition sgn_first (I : rint) : option Z :=
  if ri_point I || negb (ri_contains_zero I) then Some (ri_sgn I) else None.

(* one pass of the `for (;;)` loop: Some s = break with that interval; None = refine and approximate again *)
Definition sgn_exit (I : rint) (k : Z) : option Z :=
  if ri_point I then Some (ri_sgn I)
  else if negb (ri_contains_zero I) then Some (ri_sgn I)
  else if ri_contains_q (L_interval k) (ri_a I) && ri_contains_q (L_interval k) (ri_b I) then Some (ri_sgn I)
  else None.

(* approx i = the interval computed by coefficient_value_approx after i refinement rounds *)
Fixpoint sgn_loop (fuel : nat) (approx : nat -> rint) (k : Z) (i : nat) : option Z :=
  match fuel with
  | O => None
  | S f =>
    match sgn_exit (approx i) k with
    | Some s => Some s
    | None => sgn_loop f approx k (S i)
    end
  end.

(* B = the eliminant (a univariate integer polynomial, low degree first) *)
Definition coef_sgn_core (fuel : nat) (approx : nat -> rint) (B : list Z) : option Z :=
  match sgn_first (approx O) with
  | Some s => Some s
  | None => sgn_loop fuel approx (root_lower_bound B) O
  end.

(* final normalisation of coefficient_sgn: -1 / 0 / 1 *)
Definition sgn_norm (s : Z) : Z := if s <? 0 then -1 else if s >? 0 then 1 else 0.
