(* C18 proofs, part 3: what a traversal denotes; inserting a monomial, re-ordering and building from a term list
   preserve / produce the intended denotation (for EVERY coefficient tree, in order or not). *)
From Coq Require Import ZArith NArith List Bool Lia Permutation.
From LP Require Import MPoly VarOrder VarOrderMPoly VarOrderProofs.
Import ListNotations.
Local Open Scope Z_scope.

(* ---------------------------------------------------------------- canonical monomial of a power list *)
Lemma mexp_canon : forall p x, mexp (mono_canon p) x = mexp p x.
Proof.
  induction p as [|[y e] p IH]; intros x; [reflexivity|].
  cbn [mono_canon fold_right fst snd]. rewrite mexp_mono_mul, mexp_mono_var. cbn [mexp].
  fold (mono_canon p). now rewrite IH.
Qed.
Lemma mono_canon_wf : forall p, mono_wf (mono_canon p) = true.
Proof.
  induction p as [|[y e] p IH]; [reflexivity|]. cbn [mono_canon fold_right fst snd].
  apply mono_wf_mul; [apply mono_wf_var|exact IH].
Qed.
Lemma mono_canon_ext : forall p q, (forall x, mexp p x = mexp q x) -> mono_canon p = mono_canon q.
Proof. intros p q H. apply mono_wf_unique; try apply mono_canon_wf. intros x. now rewrite !mexp_canon. Qed.
Lemma mono_canon_perm : forall p q, Permutation p q -> mono_canon p = mono_canon q.
Proof. intros p q H. apply mono_canon_ext. now apply mexp_perm. Qed.
Lemma mono_canon_of_wf : forall m, mono_wf m = true -> mono_canon m = m.
Proof. intros m H. apply mono_wf_unique; auto; [apply mono_canon_wf|]. apply mexp_canon. Qed.

(* ---------------------------------------------------------------- denotation of a traversal *)
Definition tden (l : list (pmono * Z)) (m : mono) : Z := coeff (map canon_term l) m.

Lemma tden_nil : forall m, tden [] m = 0. Proof. reflexivity. Qed.
Lemma tden_app : forall l1 l2 m, tden (l1 ++ l2) m = tden l1 m + tden l2 m.
Proof. intros; unfold tden. now rewrite map_app, coeff_app. Qed.
Lemma tden_cons : forall t l m, tden (t :: l) m = tden [t] m + tden l m.
Proof. intros; unfold tden; cbn [map coeff]; lia. Qed.
Lemma tden_zero : forall p m, tden [(p, 0)] m = 0.
Proof. intros; unfold tden; cbn [map coeff]; unfold tcoef, canon_term; cbn [fst snd]. destruct (mono_cmp (mono_canon p) m); lia. Qed.
Lemma tden_one_ext : forall p q a m, (forall x, mexp p x = mexp q x) -> tden [(p, a)] m = tden [(q, a)] m.
Proof. intros p q a m H. unfold tden; cbn [map coeff]. unfold canon_term; cbn [fst snd]. now rewrite (mono_canon_ext p q H). Qed.
Lemma tden_one_add : forall p a b m, tden [(p, a + b)] m = tden [(p, a)] m + tden [(p, b)] m.
Proof. intros; unfold tden; cbn [map coeff]; unfold tcoef, canon_term; cbn [fst snd]. destruct (mono_cmp (mono_canon p) m); lia. Qed.

Lemma to_mpoly_coeff : forall c m, coeff (to_mpoly c) m = tden (traverse c []) m.
Proof. intros; unfold to_mpoly, mp_norm. apply coeff_of_terms. Qed.
Lemma mp_norm_ext : forall l1 l2, (forall m, tden l1 m = tden l2 m) -> mp_norm l1 = mp_norm l2.
Proof. intros l1 l2 H. unfold mp_norm. apply of_terms_ext. exact H. Qed.

(* ---------------------------------------------------------------- the traversal, unfolded *)
Fixpoint tpowers (x : var) (m : pmono) (d : N) (l : list coef) : list (pmono * Z) :=
  match l with
  | [] => []
  | ci :: l' => (if is_zero ci then [] else traverse ci (m ++ [(x, d)])) ++ tpowers x m (d + 1)%N l'
  end.
Lemma traverse_rec : forall x c0 rest m,
  traverse (CRec x (c0 :: rest)) m = (if is_zero c0 then [] else traverse c0 m) ++ tpowers x m 1 rest.
Proof.
  intros. cbn [traverse]. f_equal.
  assert (H : forall d,
    (fix powers (d : N) (l : list coef) {struct l} : list (pmono * Z) :=
       match l with
       | [] => []
       | ci :: l' => (if is_zero ci then [] else traverse ci (m ++ [(x, d)])) ++ powers (d + 1)%N l'
       end) d rest = tpowers x m d rest).
  { induction rest as [|ci rest IH]; intros d; [reflexivity|]. cbn [tpowers]. f_equal. apply IH. }
  apply H.
Qed.
Lemma traverse_rec_nil : forall x m, traverse (CRec x []) m = []. Proof. reflexivity. Qed.
Lemma traverse_num : forall a m, traverse (CNum a) m = [(m, a)]. Proof. reflexivity. Qed.

Definition pfx (pre : pmono) (l : list (pmono * Z)) : list (pmono * Z) := map (fun t => (pre ++ fst t, snd t)) l.

Lemma traverse_pfx : forall c pre, traverse c pre = pfx pre (traverse c []).
Proof.
  induction c as [a|x cs IH] using coef_ind2; intros pre.
  - cbn. now rewrite app_nil_r.
  - destruct cs as [|c0 rest]; [reflexivity|]. rewrite !traverse_rec. unfold pfx. rewrite map_app. f_equal.
    + inversion IH as [|? ? H0 _]; subst. destruct (is_zero c0); [reflexivity|]. apply H0.
    + inversion IH as [|? ? _ Hr]; subst. clear IH. generalize 1%N. induction rest as [|ci rest IHr]; intros d; [reflexivity|].
      inversion Hr as [|? ? Hi Hr']; subst. cbn [tpowers]. rewrite map_app. f_equal.
      * destruct (is_zero ci); [reflexivity|]. rewrite (Hi (pre ++ [(x, d)])), (Hi ([] ++ [(x, d)])). unfold pfx.
        rewrite map_map. apply map_ext. intros t; cbn. now rewrite <- app_assoc.
      * apply IHr; auto.
Qed.

Lemma tden_pfx_ext : forall p q l m, (forall x, mexp p x = mexp q x) -> tden (pfx p l) m = tden (pfx q l) m.
Proof.
  intros p q l m H. induction l as [|[s a] l IH]; [reflexivity|]. cbn [pfx map fst snd].
  change (map (fun t : list (var * N) * Z => (p ++ fst t, snd t)) l) with (pfx p l).
  change (map (fun t : list (var * N) * Z => (q ++ fst t, snd t)) l) with (pfx q l).
  rewrite (tden_cons (p ++ s, a)), (tden_cons (q ++ s, a)), IH. f_equal.
  apply tden_one_ext. intros x. rewrite !mexp_app. now rewrite H.
Qed.
Lemma traverse_prefix_ext : forall c p q m, (forall x, mexp p x = mexp q x) -> tden (traverse c p) m = tden (traverse c q) m.
Proof. intros. rewrite (traverse_pfx c p), (traverse_pfx c q). now apply tden_pfx_ext. Qed.

Lemma is_zero_eq : forall c, is_zero c = true -> c = CNum 0.
Proof. intros [a|x cs]; cbn; [|discriminate]. intros H; apply Z.eqb_eq in H; now subst. Qed.
Lemma tden_tz : forall c p m, tden (if is_zero c then [] else traverse c p) m = tden (traverse c p) m.
Proof. intros c p m. destruct (is_zero c) eqn:E; auto. apply is_zero_eq in E; subst. cbn [traverse]. now rewrite tden_zero. Qed.

(* semantic unfolding: a polynomial in x is the sum of its coefficients, the i-th under the extra power (x, i) *)
Fixpoint tsum (x : var) (m : pmono) (d : N) (l : list coef) : list (pmono * Z) :=
  match l with [] => [] | ci :: l' => traverse ci (m ++ [(x, d)]) ++ tsum x m (d + 1)%N l' end.

Lemma tpowers_sum : forall x p l d m, tden (tpowers x p d l) m = tden (tsum x p d l) m.
Proof. induction l as [|ci l IH]; intros d m; [reflexivity|]. cbn [tpowers tsum]. rewrite !tden_app, tden_tz, IH. reflexivity. Qed.

Lemma mexp_snoc0 : forall p x y, mexp (p ++ [(x, 0%N)]) y = mexp p y.
Proof. intros. rewrite mexp_app. cbn. destruct (N.eqb x y); lia. Qed.

Lemma traverse_rec_sem : forall x cs p m, tden (traverse (CRec x cs) p) m = tden (tsum x p 0 cs) m.
Proof.
  intros x [|c0 rest] p m; [reflexivity|]. rewrite traverse_rec. cbn [tsum]. rewrite !tden_app, tden_tz, tpowers_sum.
  f_equal. apply traverse_prefix_ext. intros y. now rewrite mexp_snoc0.
Qed.

Lemma tsum_app : forall x p l1 l2 d m,
  tden (tsum x p d (l1 ++ l2)) m = tden (tsum x p d l1) m + tden (tsum x p (d + N.of_nat (length l1)) l2) m.
Proof.
  induction l1 as [|c l1 IH]; intros l2 d m; cbn [app tsum length].
  - rewrite tden_nil. replace (d + N.of_nat 0)%N with d by lia. lia.
  - rewrite !tden_app, IH. replace (d + 1 + N.of_nat (length l1))%N with (d + N.of_nat (S (length l1)))%N by lia. lia.
Qed.
Lemma tsum_zeros : forall x p n d m, tden (tsum x p d (zeros n)) m = 0.
Proof.
  induction n as [|n IH]; intros d m; [reflexivity|]. cbn [zeros repeat tsum]. fold (zeros n).
  rewrite tden_app, IH. cbn [traverse]. rewrite tden_zero. lia.
Qed.

(* ---------------------------------------------------------------- the pieces of add_ordered_monomial *)
Lemma ensure_capacity_shape : forall c x cap, exists l, ensure_capacity c x cap = CRec x l /\ (cap <= length l \/ cap = O)%nat.
Proof.
  intros [b|y cs] x cap; cbn [ensure_capacity].
  - eexists; split; [reflexivity|]. cbn [length]. unfold zeros; rewrite repeat_length. lia.
  - destruct (N.eqb_spec x y) as [->|].
    + eexists; split; [reflexivity|]. rewrite app_length. unfold zeros; rewrite repeat_length. lia.
    + eexists; split; [reflexivity|]. cbn [length]. unfold zeros; rewrite repeat_length. lia.
Qed.

Lemma ensure_capacity_sem : forall c x cap p m, tden (traverse (ensure_capacity c x cap) p) m = tden (traverse c p) m.
Proof.
  intros c x cap p m.
  assert (Hwrap : tden (traverse (CRec x (c :: zeros (cap - 1))) p) m = tden (traverse c p) m).
  { rewrite traverse_rec_sem. cbn [tsum]. rewrite tden_app, tsum_zeros.
    rewrite (traverse_prefix_ext c (p ++ [(x, 0%N)]) p) by (intros; apply mexp_snoc0). lia. }
  destruct c as [b|y cs]; cbn [ensure_capacity]; [exact Hwrap|].
  destruct (N.eqb_spec x y) as [->|]; [|exact Hwrap].
  rewrite !traverse_rec_sem, tsum_app, tsum_zeros. lia.
Qed.

Lemma strip_zeros_spec : forall l, exists k, l = strip_zeros l ++ zeros k.
Proof.
  induction l as [|c l [k IH]]; [exists O; reflexivity|]. unfold strip_zeros; cbn [fold_right]. fold (strip_zeros l).
  destruct (strip_zeros l) as [|s sl] eqn:E.
  - destruct (is_zero c) eqn:Z.
    + exists (S k). apply is_zero_eq in Z; subst c. cbn [app zeros repeat]. now rewrite IH at 1.
    + exists k. cbn [app]. now rewrite IH at 1.
  - exists k. rewrite IH at 1. reflexivity.
Qed.

Lemma normalize_sem : forall c p m, tden (traverse (normalize c) p) m = tden (traverse c p) m.
Proof.
  intros [b|x [|c0 rest]] p m; cbn [normalize]; auto.
  - cbn [traverse]. now rewrite tden_zero.
  - destruct (strip_zeros_spec rest) as [k Hk]. destruct (strip_zeros rest) as [|s sl] eqn:E.
    + cbn [app] in Hk. subst rest. rewrite traverse_rec_sem. cbn [tsum]. rewrite tden_app, tsum_zeros.
      rewrite (traverse_prefix_ext c0 (p ++ [(x, 0%N)]) p) by (intros; apply mexp_snoc0). lia.
    + rewrite Hk. rewrite !traverse_rec_sem. cbn [tsum]. rewrite !tden_app, tsum_app, tsum_zeros. cbn [tsum]. rewrite !tden_app. lia.
Qed.

Lemma tsum_upd : forall x pre ms a (f : coef -> coef) l n d m,
  (n < length l)%nat ->
  (forall c p m, tden (traverse (f c) p) m = tden [(p ++ ms, a)] m + tden (traverse c p) m) ->
  tden (tsum x pre d (upd_nth n f l)) m = tden [(pre ++ (x, (d + N.of_nat n)%N) :: ms, a)] m + tden (tsum x pre d l) m.
Proof.
  intros x pre ms a f. induction l as [|c l IH]; intros n d m Hn Hf; [cbn in Hn; lia|].
  destruct n as [|n]; cbn [upd_nth tsum].
  - rewrite !tden_app, Hf. replace (d + N.of_nat 0)%N with d by lia.
    rewrite <- app_assoc. cbn [app]. lia.
  - rewrite !tden_app, IH by (auto; cbn in Hn; lia).
    replace (d + 1 + N.of_nat n)%N with (d + N.of_nat (S n))%N by lia. lia.
Qed.

(* the body of the `(x, d) :: m'` case, named *)
Definition here_f (x : var) (d : N) (rec : coef -> coef) (c : coef) : coef :=
  match ensure_capacity c x (S (N.to_nat d)) with
  | CRec x' l => normalize (CRec x' (upd_nth (N.to_nat d) rec l))
  | c1 => c1
  end.

Lemma add_om_nil_num : forall o a b, add_om o [] a (CNum b) = CNum (b + a). Proof. reflexivity. Qed.
Lemma add_om_nil_rec0 : forall o a y, add_om o [] a (CRec y []) = CRec y [CNum a]. Proof. reflexivity. Qed.
Lemma add_om_nil_rec : forall o a y c0 r, add_om o [] a (CRec y (c0 :: r)) = CRec y (add_om o [] a c0 :: r).
Proof. reflexivity. Qed.
Lemma add_om_cons_num : forall o x d m' a b,
  add_om o ((x, d) :: m') a (CNum b) = here_f x d (add_om o m' a) (CNum b).
Proof. reflexivity. Qed.
Lemma add_om_cons_rec : forall o x d m' a y cs,
  add_om o ((x, d) :: m') a (CRec y cs) =
  if 0 <=? cmp_var o x y then here_f x d (add_om o m' a) (CRec y cs)
  else match cs with
       | [] => CRec y [here_f x d (add_om o m' a) (CNum 0)]
       | c0 :: r => CRec y (add_om o ((x, d) :: m') a c0 :: r)
       end.
Proof. reflexivity. Qed.

Lemma here_f_sem : forall x d ms a (rec : coef -> coef) c p m,
  (forall c p m, tden (traverse (rec c) p) m = tden [(p ++ ms, a)] m + tden (traverse c p) m) ->
  tden (traverse (here_f x d rec c) p) m = tden [(p ++ (x, d) :: ms, a)] m + tden (traverse c p) m.
Proof.
  intros x d ms a rec c p m Hrec. unfold here_f.
  destruct (ensure_capacity_shape c x (S (N.to_nat d))) as (l & Hl & Hlen).
  pose proof (ensure_capacity_sem c x (S (N.to_nat d)) p m) as Hs. rewrite Hl in *.
  rewrite normalize_sem, traverse_rec_sem.
  rewrite (tsum_upd x p ms a rec l (N.to_nat d) 0 m) by (auto; lia).
  rewrite traverse_rec_sem in Hs. rewrite Hs. replace (0 + N.of_nat (N.to_nat d))%N with d by lia. reflexivity.
Qed.

(* inserting a monomial adds exactly that monomial - for every tree, whatever its shape *)
Lemma add_om_sem : forall o ms a c p m,
  tden (traverse (add_om o ms a c) p) m = tden [(p ++ ms, a)] m + tden (traverse c p) m.
Proof.
  intros o ms a. induction ms as [|[x d] ms IHms].
  - induction c as [b|y cs IH] using coef_ind2; intros p m.
    + rewrite add_om_nil_num. cbn [traverse]. rewrite app_nil_r, tden_one_add. apply Z.add_comm.
    + destruct cs as [|c0 r].
      * rewrite add_om_nil_rec0, traverse_rec_nil, traverse_rec, tden_nil. cbn [tpowers]. rewrite app_nil_r, tden_tz.
        cbn [traverse]. now rewrite app_nil_r, Z.add_0_r.
      * inversion IH as [|? ? H0 _]; subst. rewrite add_om_nil_rec, !traverse_rec, !tden_app, !tden_tz, H0. lia.
  - induction c as [b|y cs IH] using coef_ind2; intros p m.
    + rewrite add_om_cons_num. apply here_f_sem. exact IHms.
    + rewrite add_om_cons_rec. destruct (0 <=? cmp_var o x y).
      * apply here_f_sem. exact IHms.
      * destruct cs as [|c0 r].
        -- rewrite traverse_rec_nil, traverse_rec, tden_nil. cbn [tpowers]. rewrite app_nil_r, tden_tz.
           rewrite (here_f_sem x d ms a _ (CNum 0) p m IHms). cbn [traverse]. rewrite tden_zero. lia.
        -- inversion IH as [|? ? H0 _]; subst. rewrite !traverse_rec, !tden_app, !tden_tz, H0. lia.
Qed.

(* ---------------------------------------------------------------- sorting a monomial is a permutation *)
Lemma sort_pass_perm : forall o rest cur mx r, sort_pass o cur rest = (mx, r) ->
  Permutation (cur :: rest) (mx :: r) /\ length r = length rest.
Proof.
  induction rest as [|y rest IH]; intros cur mx r H; cbn [sort_pass] in H.
  - inversion H; subst. split; auto.
  - destruct (cmp_var o (fst cur) (fst y) <? 0).
    + destruct (sort_pass o y rest) as [mx' r'] eqn:E. inversion H; subst. destruct (IH _ _ _ E) as [Hp Hl]. split; [|cbn; lia].
      eapply perm_trans; [apply perm_skip; exact Hp|apply perm_swap].
    + destruct (sort_pass o cur rest) as [mx' r'] eqn:E. inversion H; subst. destruct (IH _ _ _ E) as [Hp Hl]. split; [|cbn; lia].
      eapply perm_trans; [apply perm_swap|]. eapply perm_trans; [apply perm_skip; exact Hp|apply perm_swap].
Qed.
Lemma sort_n_perm : forall o n m, Permutation (sort_n o n m) m.
Proof.
  induction n as [|n IH]; intros m; [destruct m; reflexivity|]. destruct m as [|x r]; [reflexivity|]. cbn [sort_n].
  destruct (sort_pass o x r) as [mx r'] eqn:E. destruct (sort_pass_perm _ _ _ _ _ E) as [Hp _].
  rewrite Hp. apply perm_skip. apply IH.
Qed.
Lemma mono_sort_perm : forall o m, Permutation (mono_sort o m) m.
Proof. intros; apply sort_n_perm. Qed.
Lemma mono_canon_sort : forall o m, mono_canon (mono_sort o m) = mono_canon m.
Proof. intros; apply mono_canon_perm, mono_sort_perm. Qed.

Lemma add_monomial_sem : forall o c ms a m,
  tden (traverse (add_monomial o c ms a) []) m = tden [(ms, a)] m + tden (traverse c []) m.
Proof.
  intros. unfold add_monomial. rewrite add_om_sem. cbn [app]. f_equal.
  apply tden_one_ext. apply mexp_perm, mono_sort_perm.
Qed.

Lemma fold_add_monomial_sem : forall o l acc m,
  tden (traverse (fold_left (fun acc t => add_monomial o acc (fst t) (snd t)) l acc) []) m = tden l m + tden (traverse acc []) m.
Proof.
  induction l as [|[ms a] l IH]; intros acc m; cbn [fold_left]; [rewrite tden_nil; lia|].
  rewrite IH, add_monomial_sem. cbn [fst snd]. rewrite (tden_cons (ms, a) l). lia.
Qed.

(* ---------------------------------------------------------------- the denotation theorems *)
Theorem to_mpoly_coef_order : forall o c, to_mpoly (coef_order o c) = to_mpoly c.
Proof.
  intros o [a|x cs]; [reflexivity|]. unfold to_mpoly, coef_order. apply mp_norm_ext. intros m.
  rewrite fold_add_monomial_sem. cbn [traverse]. rewrite tden_zero. lia.
Qed.

Theorem to_mpoly_of_mpoly : forall o p, to_mpoly (of_mpoly o p) = mp_norm p.
Proof.
  intros o p. unfold to_mpoly, of_mpoly. apply mp_norm_ext. intros m.
  rewrite fold_add_monomial_sem. cbn [traverse]. rewrite tden_zero. lia.
Qed.

Theorem to_mpoly_add_monomial : forall o c ms a,
  to_mpoly (add_monomial o c ms a) = mp_add_term (mono_canon ms, a) (to_mpoly c).
Proof.
  intros. apply canon_unique.
  - apply canon_of_terms.
  - apply canon_add_term, canon_of_terms.
  - intros m. rewrite coeff_add_term, !to_mpoly_coeff, add_monomial_sem. unfold tden; cbn [map coeff]. unfold canon_term; cbn [fst snd]. lia.
Qed.

Lemma to_mpoly_canon : forall c, canon (to_mpoly c).
Proof. intros; apply canon_of_terms. Qed.

Lemma mp_norm_canon_wf : forall p, canon p -> Forall (fun t => mono_wf (fst t) = true) p -> mp_norm p = p.
Proof.
  intros p Hc Hw. unfold mp_norm. replace (map canon_term p) with p; [now apply of_terms_canon|].
  induction Hw as [|[m a] p Hm _ IH]; [reflexivity|]. cbn [map]. unfold canon_term at 1; cbn [fst snd] in *.
  rewrite (mono_canon_of_wf m Hm). f_equal. apply IH. eapply canon_tail; eauto.
Qed.
