(* C11 / C12: acceptance by RootCheck.accept_bv (one irrational assigned value alpha) implies exactness, over every
   real closed field: the accepted list rs denotes, in increasing order, exactly the real roots of
   t |-> sum_k By_k(a) t^k, a the number denoted by alpha (and rs = [] when that polynomial vanishes identically).
   The exact univariate sign test sign_alg is used through its specification (Section hypothesis sign_alg_spec,
   proved in RootCheckProofs.v). *)
From Coq Require Import ZArith Lia List.
From LP Require Import Scalar UPoly RefAlg RootCheck.
Set Warnings "-notation-overridden,-ambiguous-paths".
From mathcomp Require Import all_ssreflect all_algebra all_field all_real_closed.
From mathcomp Require Import ssrZ zify ring.
Set Warnings "notation-overridden,ambiguous-paths".
From LP Require Import UPolySpec ScalarProofs GcdSpec SylvesterProofs RefAlgSpec RefAlgLoops RefAlgOps RefAlgDet RefAlgAnn RefAlgArith RefAlgSqfree RefAlgFinal RefAlgRoots RefAlgRat RefAlgPow RefAlgCmp.
From LP Require RootIsoProofs RefAlgValid.
Import GRing.Theory Num.Theory Num.Def Order.TTheory Pdiv.Field.
Set Implicit Arguments.
Unset Strict Implicit.
Unset Printing Implicit Defensive.
Local Open Scope ring_scope.

(* ---------------------------------------------------------------- stdlib lists / ssreflect seqs *)
Lemma List_firstn_take (T : Type) (n : nat) (l : seq T) : List.firstn n l = take n l.
Proof. by elim: n l => [|n IH] [|x l] //=; rewrite IH. Qed.

Lemma List_fold_left_foldl (T U : Type) (f : U -> T -> U) (l : seq T) (z : U) : List.fold_left f l z = foldl f z l.
Proof. by elim: l z => [|x l IH] z //=. Qed.

Lemma coef_BP (B : seq (seq Z)) (k : nat) : (BP B)`_k = Poly (nth [::] B k).
Proof.
rewrite /BP coef_Poly; case: (ltnP k (size B)) => Hk; first by rewrite (nth_map [::]).
by rewrite !nth_default ?size_map.
Qed.

Lemma size_BP_le (B : seq (seq Z)) : (size (BP B) <= size B)%N.
Proof. by rewrite /BP (leq_trans (size_Poly _)) // size_map. Qed.


Lemma size_BP_last (l : seq (seq Z)) : Poly (last [::] l) != 0 -> size (BP l) = size l.
Proof.
move=> Hl; have Hl' : last 1 (map (Poly : seq Z -> {poly Z}) l) != 0.
  by case: (l) Hl => [|x s0] /=; rewrite ?eqxx // last_map.
by rewrite /BP (PolyK Hl') size_map.
Qed.

Lemma size_nth_maxlen (B : seq (seq Z)) (i : nat) :
  (size (nth [::] B i) <= foldr (fun c acc => Nat.max (length c) acc) 0%N B)%N.
Proof.
elim: B i => [|c B IH] [|i] //=; change (length c) with (size c); first by lia.
by have := IH i; lia.
Qed.

Lemma BP_bv_transpose (B : seq (seq Z)) : BP (bv_transpose B) = swapXY (BP B).
Proof.
rewrite /bv_transpose List_map_map List_seq_iota List_fold_right_foldr.
set w := foldr _ _ _.
rewrite (BP_map_iota (fun j => pnorm (List.map (fun c => List.nth j c Z0) B)) w).
apply/polyP => j; apply/polyP => i; rewrite coef_swapXY coef_BP coef_Poly coef_poly.
case: ltnP => Hj.
  rewrite Poly_pnorm coef_Poly List_map_map.
  case: (ltnP i (size B)) => Hi; first by rewrite (nth_map [::]) // List_nth_nth.
  by rewrite !nth_default ?size_map.
rewrite coef0 nth_default //; exact: leq_trans (size_nth_maxlen B i) Hj.
Qed.


Lemma BP_bv_deriv (B : seq (seq Z)) : BP (bv_deriv B) = (BP B)^`().
Proof.
apply/polyP => k; rewrite coef_deriv !coef_BP.
case: B => [|c B] /=; first by rewrite !nth_nil /= mul0rn.
rewrite List_map_map combine_zip List_seq_iota List_length_size.
case: (ltnP k (size B)) => Hk.
  rewrite (nth_map (0%N, [::])) ?size_zip ?size_iota ?minnn // nth_zip ?size_iota //= nth_iota // add0n.
  by rewrite Poly_pscale -[Z.pos _]/(Z.of_nat k.+1) -natZ scaler_nat.
by rewrite !nth_default ?size_map ?size_zip ?size_iota ?minnn //= mul0rn.
Qed.

Section AcceptBv.
Variable R : rcfType.
Local Notation zr := (@zr R).
Local Notation pr := (@pr R).
Local Notation qr := (@qr R).
Local Notation rn_denotes := (@rn_denotes R).
Local Notation dens := (@dens R).
Local Notation zrm := (zr_rmorphism R).
Local Notation ev s := (horner_eval s \o map_poly zrm).

(* the specification of the exact sign test (proved in RootCheckProofs.v) *)
Hypothesis sign_alg_spec : forall (fuel : nat) (p : seq Z) (x : rnum) (a : R) (s : Z),
  rn_denotes x a -> sign_alg fuel p x = Some s -> zr s = Num.sg (pr p).[a] :> R.

(* the specialised polynomial: sum_k By_k(a) * 'X^k *)
Definition spec_poly (By : seq (seq Z)) (a : R) : {poly R} :=
  \sum_(k < size By) ((pr (nth [::] By k)).[a])%:P * 'X^k.

Section At.
Variable a : R.

Definition sp (B : seq (seq Z)) : {poly R} := map_poly (ev a) (BP B).

Lemma evE (c : seq Z) : ev a (Poly c) = (pr c).[a]. Proof. by []. Qed.

Lemma coef_sp B k : (sp B)`_k = (pr (nth [::] B k)).[a].
Proof. by rewrite /sp coef_map coef_BP. Qed.

Lemma spec_polyE B : spec_poly B a = sp B.
Proof.
apply/polyP => k; rewrite coef_sp /spec_poly.
rewrite (eq_bigr (fun k : 'I_(size B) => (pr (nth [::] B k)).[a] *: 'X^k)); last first.
  by move=> i _; rewrite mul_polyC.
rewrite -(poly_def (size B) (fun k => (pr (nth [::] B k)).[a])) coef_poly; case: ltnP => // Hk.
by rewrite nth_default // pr_nil horner0.
Qed.

Lemma sp_cons c B : sp (c :: B) = ((pr c).[a])%:P + sp B * 'X.
Proof. by rewrite /sp BP_cons rmorphD rmorphM /= map_polyC map_polyX. Qed.

Lemma horner_sp B (t : R) : (sp B).[t] = \sum_(k < size B) (pr (nth [::] B k)).[a] * t ^+ k.
Proof.
rewrite -spec_polyE /spec_poly horner_sum; apply: eq_bigr => k _.
by rewrite hornerM hornerC hornerXn.
Qed.


(* ---------------------------------------------------------------- step 1: the signs of the coefficients, the degree *)
Lemma all_some_nth (T : Type) (d : T) (l : seq (option T)) (r : seq T) :
  all_some l = Some r -> size r = size l /\ forall k, (k < size l)%N -> nth None l k = Some (nth d r k).
Proof.
elim: l r => [|[x|] l IH] r //=; first by case=> <-.
case E: (all_some l) => [r'|] // [<-]; have [Hs Hn] := IH _ E; split; first by rewrite /= Hs.
by case=> [|k] //= Hk; exact: Hn.
Qed.

Lemma signs_spec fuel alpha By signs : rn_denotes alpha a ->
  all_some (List.map (fun c => sign_alg fuel c alpha) By) = Some signs ->
  forall k, Z.eqb (nth Z0 signs k) Z0 = ((sp By)`_k == 0).
Proof.
move=> Ha /(all_some_nth Z0); rewrite List_map_map size_map => -[Hs Hn] k.
rewrite coef_sp; case: (ltnP k (size By)) => Hk.
  have := Hn k Hk; rewrite (nth_map [::]) // => /(sign_alg_spec Ha) E.
  by rewrite -(zr_eq0 R) E sgr_eq0.
by rewrite !nth_default ?Hs // pr_nil horner0 eqxx.
Qed.

Lemma lnzP (signs : seq Z) (c : nat -> R) i best :
  (forall k, Z.eqb (nth Z0 signs k) Z0 = (c (i + k)%N == 0)) -> (forall d', best = Some d' -> (d' < i)%N) ->
  match last_nonzero signs i best with
  | None => best = None /\ forall k, (i <= k)%N -> c k = 0
  | Some d => (best = Some d /\ forall k, (i <= k)%N -> c k = 0) \/
              [/\ (i <= d)%N, c d != 0 & forall k, (d < k)%N -> c k = 0]
  end.
Proof.
elim: signs i best => [|s signs IH] i best H Hb /=.
  have Hz k : (i <= k)%N -> c k = 0.
    by move=> Hk; apply/eqP; rewrite -(subnKC Hk) -H nth_nil.
  by case: best {Hb} => [d|]; [left|].
set best' := if _ then _ else _.
have H' k : Z.eqb (nth Z0 signs k) Z0 = (c (i.+1 + k)%N == 0) by rewrite addSnnS -H.
have Hb' d' : best' = Some d' -> (d' < i.+1)%N.
  by rewrite /best'; case: ifP => _; [move/Hb => /ltnW|case=> <-].
have Hi : Z.eqb s Z0 = (c i == 0) by have := H 0%N; rewrite addn0.
have Hz : (forall k, (i < k)%N -> c k = 0) -> c i = 0 -> forall k, (i <= k)%N -> c k = 0.
  by move=> H1 H2 k; rewrite leq_eqVlt => /orP[/eqP <-|/H1].
have := IH i.+1 best' H' Hb'; case: (last_nonzero _ _ _) => [d|].
  case=> [[Eb Hk]|[Hd cd Hk]]; last by right; split=> //; exact: ltnW.
  move: Eb; rewrite /best' Hi; case: (altP (c i =P 0)) => [ci ->|ci [<-]]; last by right.
  by left; split=> //; exact: Hz.
by rewrite /best' Hi => -[]; case: (altP (c i =P 0)) => // ci -> Hk; split=> //; exact: Hz.
Qed.

Lemma coeffs_case fuel alpha By signs : rn_denotes alpha a ->
  all_some (List.map (fun c => sign_alg fuel c alpha) By) = Some signs ->
  match last_nonzero signs 0 None with
  | None => sp By = 0
  | Some d => [/\ (d < size By)%N, sp By = sp (take d.+1 By), size (sp (take d.+1 By)) = d.+1
                & (pr (nth [::] By d)).[a] != 0]
  end.
Proof.
move=> Ha /(signs_spec Ha) Hs.
have := @lnzP signs (fun k => (sp By)`_k) 0%N None Hs.
case: (last_nonzero _ _ _) => [d|] H; last first.
  by have [_ Hz] := H (fun d' => ltac:(done)); apply/polyP => k; rewrite coef0 Hz.
case: H => // [[]|[_ cd Hz]] //.
have Hd : (d < size By)%N.
  by rewrite ltnNge; apply: contra cd => Hd; rewrite coef_sp nth_default // pr_nil horner0.
have E : sp By = sp (take d.+1 By).
  apply/polyP => k; rewrite !coef_sp; case: (ltnP k d.+1) => Hk; first by rewrite nth_take.
  rewrite -coef_sp Hz // nth_default ?pr_nil ?horner0 // size_take.
  by case: ltnP => // H; exact: leq_trans H Hk.
split=> //; last by rewrite -coef_sp.
apply/eqP; rewrite eqn_leq; apply/andP; split.
  apply/leq_sizeP => k Hk; rewrite -E; exact: Hz.
by apply: coef_neq0_size; rewrite -E.
Qed.

(* ---------------------------------------------------------------- step 2: the stripped defining polynomial still vanishes at a *)
Lemma eqb_root (m m' : seq Z) (lo hi : Z * Z) :
  rn_denotes (RA m lo hi) a -> rn_eqb (RA m lo hi) (RA m' lo hi) = true -> root (pr m') a.
Proof.
move=> [[Hlo Hhi] /andP[loa ahi] ra uniqa sgna]; rewrite /rn_eqb.
have -> : q_max lo lo = lo by rewrite /q_max; case: ifP.
have -> : q_min hi hi = hi by rewrite /q_min; case: ifP.
rewrite (q_lt_spec R Hlo Hhi); case: ifP => // lh.
set g := pgcd m m'; case: ifP => // _ /Nat.ltb_lt/ssrnat.ltP Hc.
have [Pl Ph] : (pr m).[qr lo] != 0 /\ (pr m).[qr hi] != 0.
  split; apply/eqP => H0; move: sgna; rewrite H0 sgr0 ?mul0r ?mulr0 => /eqP;
  by rewrite eq_sym oppr_eq0 oner_eq0.
have p0 : Poly m != 0.
  by rewrite -(pr_eq0 R); apply/eqP => E; move: Pl; rewrite E horner0 eqxx.
have [Dp Dp'] := pgcd_dvd m m'; rewrite -/g in Dp Dp'.
have g0 : Poly g != 0 by case: Dp => q Eq; apply: contraNneq p0 => E; rewrite Eq E mul0r.
have [s0 Hsq Hroot] := psqfree_correct R g0.
have Hend (u : R) : (pr m).[u] != 0 -> (pr (psqfree g)).[u] != 0.
  by move=> H; rewrite -rootE Hroot; apply/negP => rg; move: H; rewrite -rootE (rdvd_root Dp rg).
have Hsz := RefAlgValid.count_open_correct Hlo Hhi lh s0 (Hend _ Pl) (Hend _ Ph).
move: Hc; rewrite Hsz; case Er: (roots _ _ _) => [|w ws] // _.
have : w \in roots (pr (psqfree g)) (qr lo) (qr hi) by rewrite Er mem_head.
rewrite in_roots Hroot in_itv /= => /and3P[rg lwh _].
by rewrite -(uniqa w (rdvd_root Dp rg) lwh) (rdvd_root Dp' rg).
Qed.


(* ---------------------------------------------------------------- step 3: the eliminant covers the roots *)
Lemma ev_swap (U : {poly {poly Z}}) (t : R) : (map_poly (ev t) (swapXY U)).[a] = (map_poly (ev a) U).[t].
Proof.
set V := map_poly (map_poly zrm) U.
have -> : map_poly (ev a) U = map_poly (horner_eval a) V by rewrite /V -map_poly_comp.
have -> : map_poly (ev t) (swapXY U) = map_poly (horner_eval t) (swapXY V).
  by rewrite /V swapXY_map -map_poly_comp.
by rewrite -!horner_swapXY swapXYK -/(V.[t, a]) -horner2_swapXY.
Qed.

Lemma covering (B : seq (seq Z)) (m' : seq Z) (t : R) :
  Poly m' != 0 -> root (pr m') a -> (1 < size (bp_trim (bv_transpose B)))%N -> sp B != 0 ->
  root (sp B) t -> root (pr (bires (bp_trim (bv_transpose B)) (bp_of_upoly m'))) t.
Proof.
move=> m0 ra sBx P0 rt; set Bx := bp_trim _ in sBx *.
have U0 : BP B != 0 by apply: contraNneq P0 => E; rewrite /sp E rmorph0.
have T0 : BP (bv_transpose B) != 0 by rewrite BP_bv_transpose swapXY_eq0.
have lBx : Poly (last [::] Bx) != 0 := last_bp_trim T0.
have EBx : BP Bx = swapXY (BP B) by rewrite /Bx BP_bp_trim BP_bv_transpose.
have Ee := bires_resultant lBx (last_bp_of_upoly m0).
rewrite EBx BP_bp_of_upoly (resultant_swap (Poly m')^:P) mulrA -exprD in Ee.
apply: pr_sign_res Ee _; apply: (@resultant_root _ zrm _ _ a).
- exact: root_size_Poly ra.
- by rewrite -EBx (size_BP_last lBx).
- exact/eqP.
by rewrite ev_swap; exact/eqP.
Qed.


(* ---------------------------------------------------------------- step 4: square-freeness from the discriminant *)
Lemma sep_of_disc (B : seq (seq Z)) :
  size (sp B) = size B -> (1 < size B)%N ->
  (pr (bires (bp_trim B) (bp_trim (bv_deriv B)))).[a] != 0 -> coprimep (sp B) (sp B)^`().
Proof.
move=> sP sB Da; set U := BP B; set n := size B in sP sB.
have P0 : sp B != 0 by rewrite -size_poly_eq0 sP; lia.
have U0 : U != 0 by apply: contraNneq P0 => E; rewrite /sp -/U E rmorph0.
have sU : size U = n.
  by apply/eqP; rewrite eqn_leq size_BP_le /= -sP /sp /map_poly; exact: size_poly.
have lcU : ev a (lead_coef U) = lead_coef (sp B) by rewrite !lead_coefE sU sP coef_map.
have lc0 : ev a (lead_coef U) != 0 by rewrite lcU lead_coef_eq0.
have EP' : map_poly (ev a) U^`() = (sp B)^`() by rewrite deriv_map.
have sP' : size (sp B)^`() = n.-1 by rewrite size_deriv sP.
have U'0 : U^`() != 0.
  by apply/eqP => E; move: sP'; rewrite -EP' E rmorph0 size_poly0; lia.
have sU' : size U^`() = n.-1.
  apply/eqP; rewrite eqn_leq; apply/andP; split; first by have := lt_size_deriv U0; rewrite sU; lia.
  by rewrite -sP' -EP' /map_poly; exact: size_poly.
have lc'0 : ev a (lead_coef U^`()) != 0.
  by rewrite lead_coefE sU' -coef_map EP' -sP' -lead_coefE lead_coef_eq0 -size_poly_eq0 sP'; lia.
have LB : Poly (last [::] (bp_trim B)) != 0 := last_bp_trim U0.
have LD : Poly (last [::] (bp_trim (bv_deriv B))) != 0 by apply: last_bp_trim; rewrite BP_bv_deriv.
have := bires_resultant LB LD; rewrite !BP_bp_trim BP_bv_deriv -/U => ED.
move: Da; rewrite -evE ED rmorphM rmorphX rmorphN1 mulf_eq0 signr_eq0 orFb.
have -> := map_resultant lc0 lc'0; rewrite EP' -/(sp B) resultant_eq0 -leqNgt coprimep_def eqn_leq => ->.
by rewrite size_poly_gt0 gcdp_eq0 (negbTE P0).
Qed.


(* ---------------------------------------------------------------- step 5: the value at a rational point, the root test *)
Definition bv_step (q : Z * Z) (D : nat) (acc : seq Z * nat) (c : seq Z) : seq Z * nat :=
  (padd (fst acc) (pscale (Z.mul (Z.pow (fst q) (Z.of_nat (snd acc))) (Z.pow (snd q) (Z.of_nat (D - snd acc)%coq_nat))) c),
   S (snd acc)).

Lemma bv_atE B q : bv_at B q = (foldl (bv_step q (size B).-1) ([::], 0%N) B).1.
Proof. by rewrite /bv_at List_fold_left_foldl. Qed.

Lemma pr_padd (p q : seq Z) : pr (padd p q) = pr p + pr q.
Proof. by rewrite /RefAlgSpec.pr Poly_padd rmorphD. Qed.

Lemma bv_at_fold q D B acc i :
  (pr (foldl (bv_step q D) (acc, i) B).1).[a] =
  (pr acc).[a] + \sum_(k < size B) zr q.1 ^+ (i + k) * zr q.2 ^+ (D - (i + k)) * (pr (nth [::] B k)).[a].
Proof.
elim: B acc i => [|c B IH] acc i /=; first by rewrite big_ord0 addr0.
rewrite IH big_ord_recl /= addn0 addrA; congr (_ + _).
  by rewrite pr_padd pr_scale hornerD hornerZ zrM !zr_pow minusE.
by apply: eq_bigr => k _; rewrite /bump /= add1n addSnnS.
Qed.

Lemma bv_at_spec B q : qpos q -> (pr (bv_at B q)).[a] = zr q.2 ^+ (size B).-1 * (sp B).[qr q].
Proof.
move=> Hq; rewrite bv_atE bv_at_fold pr_nil horner0 add0r horner_sp mulr_sumr; apply: eq_bigr => k _.
have Hk : (k <= (size B).-1)%N by rewrite -ltnS (leq_trans (ltn_ord k)) // leqSpred.
have d0 : zr q.2 ^+ k != 0 by rewrite expf_neq0 // gt_eqF // zr_gt0.
rewrite add0n -{2}(subnK Hk) exprD /RefAlgSpec.qr expr_div_n.
move: ((pr _).[a]) (zr q.1 ^+ k) (zr q.2 ^+ (_ - _)) (zr q.2 ^+ k) d0 => x y z u u0.
by field.
Qed.

Lemma sign_bv_at fuel alpha B q s : rn_denotes alpha a -> qpos q ->
  sign_alg fuel (bv_at B q) alpha = Some s -> zr s = sgr (sp B).[qr q].
Proof.
move=> Ha Hq /(sign_alg_spec Ha) ->; rewrite bv_at_spec // sgrM gtr0_sg ?mul1r //.
by rewrite exprn_gt0 // zr_gt0.
Qed.

Lemma alone_spec fuel (esf : seq Z) c (w : R) c' : rn_denotes c w -> alone fuel esf c = Some c' ->
  rn_denotes c' w /\
  match c' with
  | RQ _ => Logic.True
  | RA _ lo hi => [/\ (pr esf).[qr lo] != 0, (pr esf).[qr hi] != 0 & count_open esf lo hi = 1%N]
  end.
Proof.
elim: fuel c => [|f IH] c //= Hc.
case: c Hc => [q|p lo hi] Hc; first by case=> <-.
case: ifP => [/andP[/andP[Hl Hh] /Nat.eqb_eq Hcnt] [<-]|_]; last by apply: IH; exact: rn_refine_spec.
have [[Hlo Hhi] _ _ _ _] := Hc.
by split=> //; split=> //; rewrite -(psgn_q_neq0 R).
Qed.

Section Cand.
Variables (fuel : nat) (alpha : rnum) (B : seq (seq Z)) (e : seq Z).
Hypothesis Ha : rn_denotes alpha a.
Hypothesis e0 : Poly e != 0.
Hypothesis P0 : sp B != 0.
Hypothesis cover : forall t, root (sp B) t -> root (pr e) t.
Hypothesis simple : forall t, root (sp B) t -> ~~ root (sp B)^`() t.

Lemma cand_is_root_spec c w b : rn_denotes c w -> root (pr e) w ->
  cand_is_root fuel B alpha (psqfree e) c = Some b -> b = root (sp B) w.
Proof.
move=> Hc rw; have [s0 Hsq Hroot] := psqfree_correct R e0.
rewrite /cand_is_root; case Eal: (alone _ _ _) => [c'|] //; have [Hc' Hiso] := alone_spec Hc Eal.
case: c' Hc' Hiso {Eal} => [q|p lo hi].
  move=> [Hq ->] _; case Es: (sign_alg _ _ _) => [s|] // [<-].
  by rewrite -(zr_eq0 R) (sign_bv_at Ha Hq Es) sgr_eq0 rootE.
move=> Hc' [El Eh Hcnt]; have [[Hlo Hhi] /andP[low whi] _ _ _] := Hc'.
case Esl: (sign_alg _ _ _) => [sl|] //; case Esh: (sign_alg _ _ _) => [sh|] //.
case: ifP => // /negbT; rewrite negb_or => /andP[sl0 sh0] [<-].
have Sl := sign_bv_at Ha Hlo Esl; have Sh := sign_bv_at Ha Hhi Esh.
have Pl : (sp B).[qr lo] != 0 by rewrite -sgr_eq0 -Sl zr_eq0.
have Ph : (sp B).[qr hi] != 0 by rewrite -sgr_eq0 -Sh zr_eq0.
have lohi : qr lo < qr hi := lt_trans low whi.
have uniq z : root (pr e) z -> qr lo < z < qr hi -> z = w.
  move=> rz Hz; have := RefAlgValid.count_open_correct Hlo Hhi lohi s0 El Eh; rewrite Hcnt.
  have S0 : pr (psqfree e) != 0 by rewrite pr_eq0.
  have Hin u : root (pr e) u -> qr lo < u < qr hi -> u \in roots (pr (psqfree e)) (qr lo) (qr hi).
    by move=> ru Hu; rewrite in_roots Hroot ru S0 in_itv /= Hu.
  have := Hin _ rz Hz; have := Hin _ rw (introT andP (conj low whi)).
  by case: (roots _ _ _) => [|v [|v' vs]] //; rewrite !inE => /eqP -> /eqP ->.
have uniqP z (rz : root (sp B) z) : qr lo < z < qr hi -> z = w := uniq z (cover rz).
have -> : Z.eqb sl sh = (sgr (sp B).[qr lo] == sgr (sp B).[qr hi]) by rewrite -Sl -Sh (inj_eq (@zr_inj R)) ZeqbP.
apply/idP/idP => [ne|rP].
  have H : sgr (sp B).[qr lo] * sgr (sp B).[qr hi] = -1.
    have sg1 (x : R) : x != 0 -> sgr x = 1 \/ sgr x = -1.
      by move=> x0; case: (ltgtP x 0) x0 => [/ltr0_sg ->|/gtr0_sg ->|->]; [right|left|].
    by move: ne; case: (sg1 _ Pl) => ->; case: (sg1 _ Ph) => ->; rewrite ?eqxx ?mulr1 ?mul1r.
  have [z] := ivt_sign (ltW lohi) H; rewrite in_itv /= => Hz rz.
  by rewrite -(uniqP z rz Hz).
have mu1 : \mu_w (sp B) = 1%N by rewrite (mu_deriv_root P0 rP) (muNroot (simple rP)).
have H := RefAlgValid.simple_root_sign_change (introT andP (conj low whi)) rP mu1 uniqP Pl Ph.
apply/eqP => E; move/eqP: H; rewrite mulr_sg_eqN1 E => /andP[_].
by rewrite -addr_eq0 -mulr2n mulrn_eq0 /= sgr_eq0 (negbTE Ph).
Qed.

Lemma filter_roots_spec cands ws ref : dens cands ws -> all (root (pr e)) ws ->
  filter_roots fuel B alpha (psqfree e) cands = Some ref -> dens ref (filter (root (sp B)) ws).
Proof.
elim: cands ws ref => [|c cands IH] [|w ws] ref //=; first by move=> _ _ [<-].
move=> [Hc Hd] /andP[rw Hall].
case Ec: (cand_is_root _ _ _ _ _) => [b|] //; case Ef: (filter_roots _ _ _ _ _) => [r|]; last by case: b Ec.
have := cand_is_root_spec Hc rw Ec => <-.
by case: b Ec => _ [<-] /=; [split=> //|]; exact: IH.
Qed.

End Cand.

(* ---------------------------------------------------------------- step 6: comparison of the two lists by denotation *)
Lemma same_list_spec fuel rs ref (vs : seq R) : (forall r, List.In r rs -> exists v : R, rn_denotes r v) ->
  dens ref vs -> same_list fuel rs ref = true -> dens rs vs.
Proof.
elim: rs ref vs => [|x rs IH] [|y ref] [|v vs] //= Hr [Hy Hd].
case Ec: (rn_cmp _ _ _) => [[|p|p]|] //= Hs.
have [u Hu] := Hr x (or_introl erefl).
have := rn_cmp_spec Hu Hy Ec; rewrite zr0 => /esym/eqP; rewrite sgr_eq0 subr_eq0 => /eqP E.
split; first by rewrite -E.
by apply: IH Hd Hs => r Hin; apply: Hr; right.
Qed.

Lemma simple_case fuel alpha (B : seq (seq Z)) d : rn_denotes alpha a -> size (sp B) = d.+2 -> size B = d.+2 ->
  (if Nat.eqb d.+1 1 then Some true else
   match sign_alg fuel (bires (bp_trim B) (bp_trim (bv_deriv B))) alpha with
   | Some s => Some (negb (Z.eqb s Z0)) | None => None end) = Some true ->
  forall t, root (sp B) t -> ~~ root (sp B)^`() t.
Proof.
move=> Ha sP sB; case: d sP sB => [|d] sP sB /=.
  move=> _ t _; have /size_poly1P[c c0 ->] : size (sp B)^`() == 1%N by rewrite size_deriv sP.
  by rewrite rootC (negbTE c0).
case Es: (sign_alg _ _ _) => [s|] // [Hs].
apply: simple_of_sep; apply: sep_of_disc; rewrite ?sP ?sB //.
by rewrite -sgr_eq0 -(sign_alg_spec Ha Es) zr_eq0.
Qed.

End At.

(* ---------------------------------------------------------------- the theorem *)
Theorem accept_bv_exact (fuel : nat) (alpha : rnum) (By : seq (seq Z)) (rs : seq rnum) (a : R) :
  rn_denotes alpha a ->
  (forall r, List.In r rs -> exists v : R, rn_denotes r v) ->
  accept_bv fuel alpha By rs = Accept ->
  exists vs : seq R,
    [/\ dens rs vs, sorted <%R vs
      & (spec_poly By a = 0 /\ vs = [::]) \/
        (spec_poly By a != 0 /\ forall t, (t \in vs) = root (spec_poly By a) t)].
Proof.
move=> Ha Hrs; rewrite /accept_bv spec_polyE.
case: alpha Ha => [q|m lo hi] Ha //.
case Esg: (all_some _) => [signs|] //.
have := coeffs_case Ha Esg; case: (last_nonzero _ _ _) => [d|]; last first.
  by move=> P0; case: rs {Hrs} => // _; exists [::]; split=> //; left.
case: d => [|d] [Hd EP sP cd].
  case: rs {Hrs} => // _; exists [::]; split=> //; right.
  have /size_poly1P[c c0 Ec] : size (sp a By) == 1%N by rewrite EP sP.
  by rewrite Ec polyC_eq0; split=> // t; rewrite rootC (negbTE c0).
lazy zeta; rewrite List_firstn_take; set B := take d.+2 By in EP sP *.
set m' := strip_common _ _ _; set Bx := bp_trim (bv_transpose B); set e := bires Bx _.
case: ifP => // /negbFE /andP[Hv He].
case: ifP => // /Nat.ltb_ge Hlen.
case: ifP => // /negbT /pis_zeroP/eqP e0.
set sqf := (if Nat.eqb _ _ then _ else _); case Esq: sqf => [[|]|] //.
case Er: (rn_roots fuel e) => [cands|] //.
case Ef: (filter_roots _ _ _ _ _) => [ref|] //.
case: ifP => // Hsame _.
have m0 : Poly m' != 0 by move: Hv => /andP[/andP[/andP[/andP[_ /pis_zeroP/eqP]]]].
have ra' : root (pr m') a := eqb_root Ha He.
have sB : size B = d.+2 by rewrite size_takel.
have P0 : sp a B != 0 by rewrite -size_poly_eq0 sP.
have sBx : (1 < size Bx)%N by rewrite -List_length_size; apply/ssrnat.ltP; lia.
have cover t : root (sp a B) t -> root (pr e) t := covering m0 ra' sBx P0.
have simple := simple_case Ha sP sB Esq.
have E0 : pr e != 0 by rewrite pr_eq0.
have Hc : dens cands (rootsR (pr e)) := rn_roots_correct R e0 Er.
have Hall : all (root (pr e)) (rootsR (pr e)) by apply/allP => t; rewrite (RootIsoProofs.in_rootsR _ E0).
have Hd' := filter_roots_spec Ha e0 P0 cover simple Hc Hall Ef.
exists (filter (root (sp a B)) (rootsR (pr e))); split.
- exact: same_list_spec Hrs Hd' Hsame.
- by apply: (sorted_filter lt_trans); exact: sorted_roots.
right; rewrite EP; split=> // t; rewrite mem_filter (RootIsoProofs.in_rootsR _ E0).
by case rt: (root (sp a B) t) => //=; rewrite cover.
Qed.

End AcceptBv.

Print Assumptions accept_bv_exact.
