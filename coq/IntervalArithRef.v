(* C15, end points of EVERY value kind (including algebraic numbers): executable CHECKER on top of the exact
   reference arithmetic RefAlg.v (rn_cmp / rn_add / rn_mul / rn_pow).  This is NOT a model of libpoly's
   algorithm for algebraic end points (their isolating intervals are hidden, refinable state, so the resulting
   dyadic hull is not determined by the denotation); it decides, on the implementation's OUTPUT interval,
   the property itself: membership of witness values, enclosure of the exact corner values, agreement of the
   fresh / pre-used / in-place variants by denotation, exactness on rational points.
   Stdlib only, no proofs in this file.  `None` = the reference ran out of fuel. *)
From Coq Require Import ZArith NArith List Bool.
From LP Require Import Scalar UPoly RefAlg IntervalArith.
Import ListNotations.
Local Open Scope Z_scope.

Definition xitv := itv xval.

Definition xv_sgn (v : xval) : Z := match v with XMinf => -1 | XPinf => 1 | XFin x => rn_sgn x end.

(* exact extended arithmetic, 0 * inf = 0 as in lp_value_mul_approx *)
Definition xv_add (fuel : nat) (a b : xval) : option xval :=
  match a, b with
  | XFin x, XFin y => option_map XFin (rn_add fuel x y)
  | XMinf, XPinf | XPinf, XMinf => None
  | XMinf, _ | _, XMinf => Some XMinf
  | _, _ => Some XPinf
  end.
Definition xv_mul (fuel : nat) (a b : xval) : option xval :=
  match a, b with
  | XFin x, XFin y => option_map XFin (rn_mul fuel x y)
  | _, _ =>
    let s := xv_sgn a * xv_sgn b in
    Some (if s =? 0 then XFin (RQ (0, 1)) else if 0 <? s then XPinf else XMinf)
  end.
Definition xv_pow (fuel : nat) (a : xval) (n : N) : option xval :=
  match a with
  | XFin x => option_map XFin (rn_pow fuel x (N.to_nat n))
  | XPinf => Some (if (n =? 0)%N then XFin (RQ (1, 1)) else XPinf)
  | XMinf => Some (if (n =? 0)%N then XFin (RQ (1, 1)) else if N.odd n then XMinf else XPinf)
  end.

(* membership of v in I (as lp_interval_contains, by the exact comparison) *)
Definition xi_contains (fuel : nat) (I : xitv) (v : xval) : option bool :=
  match xv_cmp fuel (ia I) v with
  | None => None
  | Some ca =>
    if ipt I then Some (ca =? 0)
    else if (0 <? ca) || ((ca =? 0) && ia_open I) then Some false
    else match xv_cmp fuel v (ib I) with
         | None => None
         | Some cb => Some (negb ((0 <? cb) || ((cb =? 0) && ib_open I)))
         end
  end.
(* membership in the CLOSURE of I: what an end-point image reached only in the limit must satisfy *)
Definition xi_closure_contains (fuel : nat) (I : xitv) (v : xval) : option bool :=
  match xv_cmp fuel (ia I) v with
  | None => None
  | Some ca =>
    if ipt I then Some (ca =? 0)
    else if 0 <? ca then Some false
    else match xv_cmp fuel v (ib I) with None => None | Some cb => Some (negb (0 <? cb)) end
  end.
(* attained = the value is taken by members of the operands: it must be IN the result; otherwise in its closure *)
Definition xi_encloses (fuel : nat) (I : xitv) (v : xval) (attained : bool) : option bool :=
  if attained then xi_contains fuel I v else xi_closure_contains fuel I v.

(* data-structure invariant of an interval read from the implementation *)
Definition xi_wf (fuel : nat) (I : xitv) : option bool :=
  if ipt I then Some (negb (ia_open I) && negb (ib_open I))
  else match xv_cmp fuel (ia I) (ib I) with None => None | Some c => Some (c <? 0) end.

(* same interval by denotation *)
Definition xi_same (fuel : nat) (I J : xitv) : option bool :=
  if negb (Bool.eqb (ipt I) (ipt J)) then Some false
  else match xv_cmp fuel (ia I) (ia J) with
       | None => None
       | Some ca =>
         if ipt I then Some (ca =? 0)
         else match xv_cmp fuel (ib I) (ib J) with
              | None => None
              | Some cb => Some ((ca =? 0) && (cb =? 0) && Bool.eqb (ia_open I) (ia_open J) && Bool.eqb (ib_open I) (ib_open J))
              end
       end.

(* the end points an operand contributes: (value, attained) *)
Definition xi_ends (I : xitv) : list (xval * bool) :=
  if ipt I then [(ia I, true)] else [(ia I, negb (ia_open I)); (ib I, negb (ib_open I))].

Definition is_fin (v : xval) : bool := match v with XFin _ => true | _ => false end.

(* images of the end points under the operation, with their attainedness.  An infinite end is never attained.
   For mul a product with a closed zero end is attained whatever the other flag is (0 * y = 0). *)
Definition zero_attained (e : xval * bool) : bool := snd e && (xv_sgn (fst e) =? 0) && is_fin (fst e).
Definition corners_bin (fuel : nat) (mul : bool) (I1 I2 : xitv) : option (list (xval * bool)) :=
  fold_right (fun e1 acc =>
    fold_right (fun e2 acc =>
      match acc with
      | None => None
      | Some l =>
        match (if mul then xv_mul fuel (fst e1) (fst e2) else xv_add fuel (fst e1) (fst e2)) with
        | None => if mul then None else Some l        (* inf - inf: no such corner *)
        | Some v =>
          let att := (snd e1 && snd e2 && is_fin (fst e1) && is_fin (fst e2))
                     || (mul && (zero_attained e1 || zero_attained e2)) in
          Some ((v, att && is_fin v) :: l)
        end
      end) acc (xi_ends I2)) (Some []) (xi_ends I1).
Definition corners_pow (fuel : nat) (I : xitv) (n : N) : option (list (xval * bool)) :=
  if (n =? 0)%N then Some [(XFin (RQ (1, 1)), true)] else
  match xi_contains fuel I (XFin (RQ (0, 1))) with
  | None => None
  | Some z =>
  let zero := if z then [(XFin (RQ (0, 1)), true)] else [] in
  match
  fold_right (fun e acc =>
    match acc, xv_pow fuel (fst e) n with
    | Some l, Some v => Some ((v, snd e && is_fin (fst e) && is_fin v) :: l)
    | _, _ => None
    end) (Some []) (xi_ends I)
  with Some l => Some (zero ++ l) | None => None end
  end.

Definition all_enclosed (fuel : nat) (R : xitv) (cs : list (xval * bool)) : option bool :=
  fold_right (fun c acc =>
    match acc, xi_encloses fuel R (fst c) (snd c) with
    | Some b, Some b' => Some (b && b')
    | _, _ => None
    end) (Some true) cs.

(* witness checks: z is x o y *)
Definition is_sum (fuel : nat) (x y z : rnum) : option bool :=
  match rn_add fuel x y with Some s => option_map (fun c => c =? 0) (rn_cmp fuel z s) | None => None end.
Definition is_prod (fuel : nat) (x y z : rnum) : option bool :=
  match rn_mul fuel x y with Some s => option_map (fun c => c =? 0) (rn_cmp fuel z s) | None => None end.
Definition is_pow (fuel : nat) (x : rnum) (n : N) (z : rnum) : option bool :=
  match rn_pow fuel x (N.to_nat n) with Some s => option_map (fun c => c =? 0) (rn_cmp fuel z s) | None => None end.

(* exactness on points with rational values: the result must be the point of the exact value *)
Definition rational_point (fuel : nat) (I : xitv) : option bool :=
  if ipt I then match ia I with XFin x => rn_is_rational fuel x | _ => Some false end else Some false.
Definition is_point_of_value (fuel : nat) (R : xitv) (v : xval) : option bool :=
  if ipt R then option_map (fun c => c =? 0) (xv_cmp fuel (ia R) v) else Some false.
