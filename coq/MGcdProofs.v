(* C03, multivariate side: the reference arithmetic of MPoly.v is a homomorphism for evaluation at integer
   points, so the certificate checkers of Gcd.v (trial division / re-multiplication) prove semantic identities.
   stdlib only. *)
From Coq Require Import ZArith NArith List Lia Bool.
From LP Require Import MPoly Gcd.
Import ListNotations.
Local Open Scope Z_scope.

Lemma mono_cmp_eq a : forall b, mono_cmp a b = Eq -> a = b.
Proof.
  induction a as [|[x e] a IH]; intros [|[y f] b]; cbn [mono_cmp]; try discriminate; [reflexivity|].
  destruct (N.compare x y) eqn:Exy; try discriminate.
  destruct (N.compare e f) eqn:Eef; try discriminate.
  intros H. apply N.compare_eq in Exy. apply N.compare_eq in Eef. subst. f_equal. apply IH, H.
Qed.

Lemma mp_eqb_eq p : forall q, mp_eqb p q = true -> p = q.
Proof.
  induction p as [|[m c] p IH]; intros [|[m' c'] q]; cbn; try discriminate; [reflexivity|].
  destruct (mono_cmp m m') eqn:E; try discriminate.
  intros H. apply andb_prop in H. destruct H as [Hc Hq].
  apply mono_cmp_eq in E. apply Z.eqb_eq in Hc. subst. f_equal. apply IH, Hq.
Qed.

Lemma mp_eval_cons rho t p : mp_eval rho (t :: p) = snd t * mono_eval rho (fst t) + mp_eval rho p.
Proof. reflexivity. Qed.

Lemma mp_eval_add_term rho t p :
  mp_eval rho (mp_add_term t p) = snd t * mono_eval rho (fst t) + mp_eval rho p.
Proof.
  destruct t as [m c]. induction p as [|[m' c'] p IH]; cbn [mp_add_term fst snd].
  - destruct (Z.eqb_spec c 0) as [->|]; [cbn; lia|reflexivity].
  - destruct (Z.eqb_spec c 0) as [->|Hc]; [lia|].
    destruct (mono_cmp m m') eqn:E.
    + apply mono_cmp_eq in E. subst m'.
      destruct (Z.eqb_spec (c + c') 0) as [H0|H0].
      * rewrite mp_eval_cons. cbn [fst snd]. nia.
      * rewrite !mp_eval_cons. cbn [fst snd]. lia.
    + rewrite (mp_eval_cons rho (m', c')), (mp_eval_cons rho (m', c') p).
      revert IH. cbn [mp_add_term fst snd]. destruct (Z.eqb_spec c 0); [contradiction|]. intros ->. cbn [fst snd]. lia.
    + reflexivity.
Qed.

Lemma mp_eval_add rho p q : mp_eval rho (mp_add p q) = mp_eval rho p + mp_eval rho q.
Proof.
  unfold mp_add. induction p as [|t p IH]; cbn [fold_right]; [cbn; lia|].
  rewrite mp_eval_add_term, IH, mp_eval_cons. lia.
Qed.

Lemma mp_eval_neg rho p : mp_eval rho (mp_neg p) = - mp_eval rho p.
Proof.
  unfold mp_neg. induction p as [|t p IH]; [reflexivity|].
  cbn [map]. rewrite !mp_eval_cons, IH. cbn [fst snd]. ring.
Qed.

Lemma mp_eval_sub rho p q : mp_eval rho (mp_sub p q) = mp_eval rho p - mp_eval rho q.
Proof. unfold mp_sub. rewrite mp_eval_add, mp_eval_neg. lia. Qed.

Lemma mono_eval_cons rho x e m :
  mono_eval rho ((x, e) :: m) = rho x ^ Z.of_N e * mono_eval rho m.
Proof. reflexivity. Qed.

Lemma mono_eval_mul rho a : forall b, mono_eval rho (mono_mul a b) = mono_eval rho a * mono_eval rho b.
Proof.
  induction a as [|[x e] a IHa]; intros b; [cbn [mono_mul]; unfold mono_eval at 2; cbn [fold_right]; ring|].
  induction b as [|[y f] b IHb].
  - cbn [mono_mul]. unfold mono_eval at 3; cbn [fold_right]; ring.
  - cbn [mono_mul]. destruct (N.compare x y) eqn:E.
    + apply N.compare_eq in E. subst y.
      rewrite !mono_eval_cons, IHa, N2Z.inj_add, Z.pow_add_r by lia. ring.
    + rewrite !mono_eval_cons, IHa, mono_eval_cons. ring.
    + rewrite (mono_eval_cons rho y f). cbn [mono_mul] in IHb. rewrite IHb, !mono_eval_cons. ring.
Qed.

Lemma mp_eval_mul_term rho t p :
  mp_eval rho (mp_mul_term t p) = snd t * mono_eval rho (fst t) * mp_eval rho p.
Proof.
  unfold mp_mul_term. induction p as [|u p IH]; cbn [fold_right]; [cbn; lia|].
  rewrite mp_eval_add_term, IH, mp_eval_cons. cbn [fst snd]. rewrite mono_eval_mul. ring.
Qed.

Lemma mp_eval_mul rho p q : mp_eval rho (mp_mul p q) = mp_eval rho p * mp_eval rho q.
Proof.
  unfold mp_mul. induction p as [|t p IH]; cbn [fold_right]; [cbn; lia|].
  rewrite mp_eval_add, mp_eval_mul_term, IH, mp_eval_cons. ring.
Qed.

Lemma mp_eval_const1 rho : mp_eval rho (mp_const 1) = 1.
Proof. reflexivity. Qed.

(* ---------------------------------------------------------------- semantic divisibility and gcd *)
Definition mp_sdivides (d a : mpoly) : Prop :=
  exists q : mpoly, forall rho : var -> Z, mp_eval rho a = mp_eval rho d * mp_eval rho q.
Definition mp_is_gcd (g a b : mpoly) : Prop :=
  mp_sdivides g a /\ mp_sdivides g b /\ forall d, mp_sdivides d a -> mp_sdivides d b -> mp_sdivides d g.

Theorem mp_divides_b_sound vars d a : mp_divides_b vars d a = true -> mp_sdivides d a.
Proof.
  unfold mp_divides_b. destruct d as [|t d].
  - destruct a; [|discriminate]. intros _. exists []. intros rho. reflexivity.
  - destruct (mp_div_exact vars a (t :: d)) as [q|]; [|discriminate].
    intros H. apply mp_eqb_eq in H. exists q. intros rho. rewrite <- H. apply mp_eval_mul.
Qed.

Lemma mp_sdivides_neg_l d a : mp_sdivides d a -> mp_sdivides (mp_neg d) a.
Proof.
  intros [q H]. exists (mp_neg q). intros rho. rewrite !mp_eval_neg, H. ring.
Qed.
Lemma mp_sdivides_neg_r d a : mp_sdivides d a -> mp_sdivides d (mp_neg a).
Proof.
  intros [q H]. exists (mp_neg q). intros rho. rewrite !mp_eval_neg, H. ring.
Qed.
Lemma mp_neg_neg p : mp_neg (mp_neg p) = p.
Proof.
  unfold mp_neg. rewrite map_map. rewrite <- (map_id p) at 2. apply map_ext.
  intros [m c]. cbn. f_equal. lia.
Qed.

Lemma mp_is_gcd_neg g a b : mp_is_gcd (mp_neg g) a b -> mp_is_gcd g a b.
Proof.
  intros (Ha & Hb & Hg). repeat split.
  - rewrite <- (mp_neg_neg g). apply mp_sdivides_neg_l, Ha.
  - rewrite <- (mp_neg_neg g). apply mp_sdivides_neg_l, Hb.
  - intros d Da Db. rewrite <- (mp_neg_neg g). apply mp_sdivides_neg_r, Hg; assumption.
Qed.

Theorem mgcd_check_cond (vars : list var) (fuel : nat) :
  (forall a b r, mp_gcd_ref vars fuel a b = Some r -> mp_is_gcd r a b) ->
  forall g a b planted, mgcd_check vars fuel g a b planted = Some true -> mp_is_gcd g a b.
Proof.
  intros Href g a b planted. unfold mgcd_check.
  destruct (mp_gcd_ref vars fuel a b) as [r|] eqn:Er; [|discriminate].
  intros H. injection H as H.
  apply andb_prop in H. destruct H as [_ H]. apply mp_eqb_eq in H.
  pose proof (Href a b r Er) as Hr. rewrite <- H in Hr.
  unfold mp_abs in Hr. destruct (mp_sgn g <? 0); [apply mp_is_gcd_neg|]; exact Hr.
Qed.

Theorem mppc_check_product vars ord fuel pp cont a :
  mppc_check vars ord fuel pp cont a = Some true ->
  forall rho : var -> Z, mp_eval rho a = mp_eval rho cont * mp_eval rho pp.
Proof.
  unfold mppc_check. destruct (mp_top_var ord a) as [x|].
  - destruct (fold_right _ _ _) as [cg|]; [|discriminate].
    intros H. injection H as H.
    apply andb_prop in H. destruct H as [H _].
    apply andb_prop in H. destruct H as [H _].
    apply andb_prop in H. destruct H as [H _].
    apply mp_eqb_eq in H. intros rho. rewrite <- H. apply mp_eval_mul.
  - intros H. injection H as H. apply andb_prop in H. destruct H as [H1 H2].
    apply mp_eqb_eq in H1. apply mp_eqb_eq in H2. subst. intros rho. rewrite mp_eval_const1. lia.
Qed.
