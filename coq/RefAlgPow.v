(* The direct power of the reference algebraic numbers (RefAlg.rn_pow_direct: annihilator Res_t(p(t), z - t^n), enclosure
   by the powers of the interval ends), by denotation. *)
From Coq Require Import ZArith Lia.
From LP Require Import Scalar UPoly RefAlg.
Set Warnings "-notation-overridden,-ambiguous-paths".
From mathcomp Require Import all_ssreflect all_algebra all_real_closed.
From mathcomp Require Import ssrZ zify ring.
Set Warnings "notation-overridden,ambiguous-paths".
From LP Require Import UPolySpec ScalarProofs RefAlgSpec RefAlgLoops RefAlgOps RefAlgAnn RefAlgArith RefAlgSqfree RefAlgFinal.
Import GRing.Theory Num.Theory Num.Def Order.TTheory.
Set Implicit Arguments.
Unset Strict Implicit.
Unset Printing Implicit Defensive.
Local Open Scope ring_scope.

Section Pow.
Variable R : rcfType.
Local Notation zr := (@zr R).
Local Notation pr := (@pr R).
Local Notation qr := (@qr R).
Local Notation rn_denotes := (@rn_denotes R).

Lemma qpos_one : qpos (Zpos xH, Zpos xH). Proof. by []. Qed.
Lemma qr_one : qr (Zpos xH, Zpos xH) = 1. Proof. by rewrite /RefAlgSpec.qr /= zr1 divr1. Qed.

Lemma qr_pow_pos (p : positive) : forall res tmp : Z * Z, qpos res -> qpos tmp ->
  qpos (q_pow_pos res tmp p) /\ qr (q_pow_pos res tmp p) = qr res * qr tmp ^+ Pos.to_nat p.
Proof.
elim: p => [p IH|p IH|] res tmp Hr Ht /=.
- have [H1 E1] := qr_mul R Hr Ht; have [H2 E2] := qr_mul R Ht Ht.
  have [H3 ->] := IH _ _ H1 H2; split=> //.
  by rewrite E1 E2 Pos2Nat.inj_xI -expr2 -exprM exprS mulrA.
- have [H2 E2] := qr_mul R Ht Ht.
  have [H3 ->] := IH _ _ Hr H2; split=> //.
  by rewrite E2 Pos2Nat.inj_xO -expr2 -exprM.
- by have [H1 E1] := qr_mul R Hr Ht; split=> //; rewrite E1 Pos2Nat.inj_1 expr1.
Qed.

Lemma qr_pow (a : Z * Z) (n : nat) : qpos a ->
  qpos (q_pow a (N.of_nat n)) /\ qr (q_pow a (N.of_nat n)) = qr a ^+ n.
Proof.
move=> Ha; case: n => [|n] /=; first by rewrite expr0 qr_one.
have [H ->] := qr_pow_pos (Pos.of_succ_nat n) qpos_one Ha; split=> //.
by rewrite qr_one mul1r SuccNat2Pos.id_succ.
Qed.

(* monotonicity of powers *)
Lemma pow_lt_nneg (n : nat) (x y : R) : (0 < n)%N -> 0 <= x -> x < y -> x ^+ n < y ^+ n.
Proof. by move=> n0 x0 xy; rewrite ltr_expn2r // -lt0n. Qed.

Lemma pow_lt_npos_even (n : nat) (x y : R) : (0 < n)%N -> ~~ odd n -> x < y -> y <= 0 -> y ^+ n < x ^+ n.
Proof.
move=> n0 ev xy y0.
have H : (- y) ^+ n < (- x) ^+ n by apply: pow_lt_nneg; rewrite ?oppr_ge0 ?ltr_opp2.
by move: H; rewrite [(- y) ^+ n]exprNn [(- x) ^+ n]exprNn -signr_odd (negbTE ev) expr0 !mul1r.
Qed.

Lemma pow_lt_odd (n : nat) (x y : R) : odd n -> x < y -> x ^+ n < y ^+ n.
Proof.
move=> od xy; have n0 : (0 < n)%N by case: (n) od.
case: (lerP 0 x) => x0; first exact: pow_lt_nneg.
case: (lerP y 0) => y0.
  have H : (- y) ^+ n < (- x) ^+ n by apply: pow_lt_nneg; rewrite ?oppr_ge0 ?ltr_opp2.
  by move: H; rewrite [(- y) ^+ n]exprNn [(- x) ^+ n]exprNn -signr_odd od expr1 !mulN1r ltr_opp2.
by apply: (@lt_trans _ _ 0); rewrite ?exprn_odd_lt0 ?exprn_gt0.
Qed.

Lemma Nat_even_negb_odd (j : nat) : Nat.even j = ~~ odd j.
Proof. by elim: j => [|k IH] //; rewrite Nat.even_succ -Nat.negb_even IH /= negbK. Qed.

Lemma q_sgn_mul_lt0 (lo hi : Z * Z) : qpos lo -> qpos hi ->
  Z.ltb (Z.mul (q_sgn lo) (q_sgn hi)) Z0 = (qr lo * qr hi < 0).
Proof.
move=> Hlo Hhi; rewrite -sgr_lt0 sgrM -!(q_sgn_spec R) // -zrM -(zr0 R) (zr_lt R).
by [].
Qed.

Lemma pow_encl (n : nat) (lo hi a : R) : (0 < n)%N -> a != 0 ->
  (lo = a /\ hi = a) \/ lo < a < hi ->
  let l := if ~~ odd n && (lo * hi < 0) then 0 else Num.min (lo ^+ n) (hi ^+ n) in
  let h := Num.max (lo ^+ n) (hi ^+ n) in
  (l = a ^+ n /\ h = a ^+ n) \/ l < a ^+ n < h.
Proof.
move=> n0 a0 [[-> ->]|/andP[la ah]] /=.
  left; rewrite -expr2 ltNge sqr_ge0 andbF minxx maxxx.
  by [].
right; case: ifP => [/andP[ev Hs]|Hc].
  rewrite exprn_even_gt0 // a0 orbT /= lt_maxr.
  case: (ltrgt0P a) a0 => // apos _; first by rewrite (pow_lt_nneg n0 (ltW apos) ah) orbT.
  by rewrite (pow_lt_npos_even n0 ev la (ltW apos)).
rewrite lt_minl lt_maxr; case od: (odd n) Hc => /= Hc.
  by rewrite (pow_lt_odd od la) (pow_lt_odd od ah) orbT.
have ev : ~~ odd n by rewrite od.
case: (lerP 0 lo) => lo0.
  have a0' : 0 <= a := ltW (le_lt_trans lo0 la).
  by rewrite (pow_lt_nneg n0 lo0 la) (pow_lt_nneg n0 a0' ah) orbT.
have hi0 : hi <= 0.
  by rewrite leNgt; apply/negP => hpos; move: Hc; rewrite nmulr_rlt0 // hpos.
have a0' : a <= 0 := ltW (lt_le_trans ah hi0).
by rewrite (pow_lt_npos_even n0 ev ah hi0) (pow_lt_npos_even n0 ev la a0') orbT.
Qed.

Lemma encl_pow_ok (n : nat) (a : R) : (0 < n)%N -> a != 0 ->
  encl_ok (fun x _ => iv_pow (rn_lo x) (rn_hi x) n) a a (a ^+ n).
Proof.
move=> n0 a0 x y /(rn_lo_hi_spec (R:=R))[Hl Hh Ha] _; rewrite /iv_pow.
have [Hpl Epl] := qr_pow n Hl; have [Hph Eph] := qr_pow n Hh.
have [Hmin Emin] := qr_min R Hpl Hph; have [Hmax Emax] := qr_max R Hpl Hph.
have := pow_encl n0 a0 Ha; rewrite Nat_even_negb_odd (q_sgn_mul_lt0 Hl Hh).
have E0 : qr (Z0, Zpos xH) = 0 by rewrite /RefAlgSpec.qr /= zr0 mul0r.
case: ifP => _ /=; rewrite ?Emin Emax Epl Eph ?E0 => H; split=> //.
Qed.

Theorem rn_pow_direct_spec (fuel : nat) (x z : rnum) (a : R) (n : nat) :
  rn_denotes x a -> rn_pow_direct fuel x n = Some z -> rn_denotes z (a ^+ n).
Proof.
move=> Hx; case: n => [|[|n]].
- by case=> <-; rewrite expr0; split=> //; rewrite qr_one.
- by case=> <-; rewrite expr1.
set m := n.+2; have m0 : (0 < m)%N by [].
case: x Hx => [q|p lo hi] Hx; rewrite /rn_pow_direct -/m.
  by case=> <-; case: Hx => Hq ->; have [H1 H2] := qr_pow m Hq.
rewrite (rn_sgn_eq0 Hx); case: (altP (a =P 0)) => [->|a0].
  by case=> <-; rewrite expr0n /=; exact: denotes_zero.
have [p0 ra] := rn_poly_spec Hx; rewrite /= in p0 ra.
have ann0 := ann_pow_neq0 p0 m0.
have [r0 Hsq Hroot] := psqfree_correct R ann0.
apply: (rn_select_spec r0 Hsq _ (encl_pow_ok m0 a0) Hx Hx).
by rewrite Hroot; exact: ann_pow_root.
Qed.

End Pow.
