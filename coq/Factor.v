(* C05 models (no proofs here): the square-free factorization loops of libpoly AS CODED
     src/upolynomial/factorization.c : upolynomial_factor_square_free_primitive, lp_upolynomial_factor_square_free
     src/polynomial/factorization.c  : coefficient_factor_square_free_pp (same loop, reference operations),
                                       coefficient_factor_content_free / _square_free wrappers (univariate shadow)
   on top of REFERENCE gcd / exact division (UPoly.pgcd, pdiv_exact over Z; FactorCheck.bezout_Zp over Z_p):
   libpoly's own gcd and division algorithms belong to properties C02/C03.  Berlekamp, Hensel lifting and
   recombination are not modelled; their output is certified by the checkers of FactorCheck.v.
   `None` = out of fuel, or a step whose C precondition (exact divisibility, exponents divisible by p, a
   prime field where the code dereferences K->M) fails - where the C code asserts or is undefined. *)
From Coq Require Import ZArith List Bool.
From LP Require Import UPoly FactorCheck.
Import ListNotations.
Local Open Scope Z_scope.

(* ------------------------------------------------------------------ the loop, generic in the polynomial type
   (upolynomial_factor_square_free_primitive and coefficient_factor_square_free_pp run the SAME loop, over
   lp_upolynomial_t and over coefficient_t):
     while (deg L > 0) { R = gcd(P, L); if (L != R) add(L/R, k); P = P/R; L = R; k++ }                     *)
Section YunLoop.
Variable T : Type.
Variable tgcd : T -> T -> T.
Variable tdiv : T -> T -> option T.      (* exact division; None where the C code's precondition fails *)
Variable tconst : T -> bool.             (* degree 0 *)
Variable teqb : T -> T -> bool.

Fixpoint yun_loop (fuel : nat) (k : nat) (P L : T) (acc : list (T * nat))
  : option (list (T * nat) * T * T * nat) :=
  match fuel with
  | O => None
  | S fu =>
    if tconst L then Some (acc, P, L, k)
    else
      let R := tgcd P L in
      match tdiv P R with
      | None => None
      | Some P' =>
        if teqb L R then yun_loop fu (S k) P' R acc
        else match tdiv L R with
             | None => None
             | Some Of => yun_loop fu (S k) P' R (acc ++ [(Of, k)])
             end
      end
  end.
End YunLoop.

(* ------------------------------------------------------------------ over Z *)
Definition yun_loop_Z : nat -> nat -> list Z -> list Z -> ufactors -> option (ufactors * list Z * list Z * nat) :=
  yun_loop (list Z) pgcd pdiv_exact (fun L => Nat.eqb (pdeg L) 0) peqb.

(* upolynomial_factor_square_free_primitive for K = Z: (constant, factors) *)
Definition sqfree_prim_Z (fuel : nat) (f : list Z) : option (Z * ufactors) :=
  if Nat.eqb (pdeg f) 0 then Some (plc f, [])
  else
    let d := pderiv f in
    if pis_zero d then None                       (* assert(f->K && f->K->is_prime) *)
    else
      let P := pgcd f d in
      match pdiv_exact f P with
      | None => None
      | Some L =>
        match yun_loop_Z fuel 1 P L [] with
        | None => None
        | Some (fs, P', _, _) =>
          if Nat.eqb (pdeg P') 0 then Some (1, fs) else None   (* deg P > 0 reads f->K->M with K = lp_Z *)
        end
      end.

(* number of leading zero coefficients (the power of x) and the polynomial without them *)
Fixpoint xpower (f : list Z) : nat * list Z :=
  match f with
  | c :: f' => if c =? 0 then let '(k, g) := xpower f' in (S k, g) else (O, f)
  | [] => (O, [])
  end.
(* content with the sign of the leading coefficient, as lp_upolynomial_content_Z *)
Definition content_signed (f : list Z) : Z := if plc f <? 0 then - pcontent f else pcontent f.

(* lp_upolynomial_factor_square_free for K = Z (f <> 0): content (signed), primitive part, x^k split off and
   appended LAST, constant multiplied in *)
Definition factor_square_free_Z (fuel : nat) (f : list Z) : option (Z * ufactors) :=
  let f := pnorm f in
  let c := content_signed f in
  if c =? 0 then None else
  let fpp := pdivc f c in
  let '(k, g) := xpower fpp in
  match sqfree_prim_Z fuel g with
  | None => None
  | Some (c', fs) =>
    Some (c' * c, if Nat.eqb k 0 then fs else fs ++ [([0; 1], k)])
  end.

(* ------------------------------------------------------------------ over Z_p (p prime, small) *)
Definition pgcd_Zp (p : Z) (f g : list Z) : list Z :=
  let '(r, _, _) := bezout_p_aux p (S (S (length f + length g))) f [1] [] g [] [1] in
  pnorm (pmonic_p p r).
(* exact division modulo p by a monic divisor: Some q exactly when a = q*b (mod p) *)
Definition pdiv_Zp (p : Z) (a b : list Z) : option (list Z) :=
  let '(q, _) := pdivmod_monic p (pnorm (pmodp p a)) b in
  let q := pnorm (pmodp p q) in
  if peqb_p p a (pmul q b) then Some q else None.
(* lp_upolynomial_div_degrees: f(x) = g(x^n)  ->  g ; None if some exponent is not a multiple of n *)
Fixpoint div_degrees_aux (n : nat) (i : nat) (f : list Z) : option (list Z) :=
  match f with
  | [] => Some []
  | c :: f' =>
    match div_degrees_aux n (match i with O => Nat.pred n | S i' => i' end) f' with
    | None => None
    | Some g => match i with
                | O => Some (c :: g)
                | S _ => if c =? 0 then Some g else None
                end
    end
  end.
Definition div_degrees (n : nat) (f : list Z) : option (list Z) := div_degrees_aux n 0 f.

Definition yun_loop_Zp (p : Z) : nat -> nat -> list Z -> list Z -> ufactors -> option (ufactors * list Z * list Z * nat) :=
  yun_loop (list Z) (pgcd_Zp p) (pdiv_Zp p) (fun L => Nat.leb (psize_p p L) 1) (peqb_p p).

Definition scale_mults (n : nat) (fs : ufactors) : ufactors := map (fun fm => (fst fm, (snd fm * n)%nat)) fs.

(* upolynomial_factor_square_free_primitive for K = Z_p, f monic (mod p) *)
Fixpoint sqfree_prim_Zp (p : Z) (fuel : nat) (f : list Z) : option (Z * ufactors) :=
  match fuel with
  | O => None
  | S fu =>
    let f := pnorm (pmodp p f) in
    if Nat.leb (length f) 1 then Some (plc f, [])
    else
      let d := pmodp p (pderiv f) in
      if pis_zero d then
        match div_degrees (Z.to_nat p) f with
        | None => None
        | Some fp =>
          match sqfree_prim_Zp p fu fp with
          | None => None
          | Some (c, fs) => Some (c, scale_mults (Z.to_nat p) fs)
          end
        end
      else
        let P := pgcd_Zp p f d in
        match pdiv_Zp p f P with
        | None => None
        | Some L =>
          match yun_loop_Zp p fuel 1 P L [] with
          | None => None
          | Some (fs, P', _, _) =>
            if Nat.leb (psize_p p P') 1 then Some (1, fs)
            else
              match div_degrees (Z.to_nat p) (pnorm (pmodp p P')) with
              | None => None
              | Some Pp =>
                match sqfree_prim_Zp p fu Pp with
                | None => None
                | Some (_, sub) => Some (1, fs ++ scale_mults (Z.to_nat p) sub)   (* the sub-constant is dropped *)
                end
              end
          end
        end
  end.

(* lp_upolynomial_factor_square_free for K = Z_p (f <> 0 mod p): made monic, x^k split off, constant = lc *)
Definition factor_square_free_Zp (p : Z) (fuel : nat) (f : list Z) : option (Z * ufactors) :=
  let f := pnorm (pmodp p f) in
  let c := plc f in
  if c =? 0 then None else
  let fm := pmonic_p p f in
  let '(k, g) := xpower fm in
  match sqfree_prim_Zp p fuel g with
  | None => None
  | Some (c', fs) =>
    Some ((c' * c) mod p, if Nat.eqb k 0 then fs else fs ++ [([0; 1], k)])
  end.

(* ------------------------------------------------------------------ the two places repaired by fixes/C05-*.patch
   upolynomial_factor_Z, first stage: constant = content (signed), square-free decomposition of the primitive
   part.  REPAIRED code: lp_upolynomial_factor_square_free(f_pp), which also splits off the power of x
   (the pre-fix code is History_C05.factor_Z_stage1_prefix). *)
Definition factor_Z_stage1 (fuel : nat) (f : list Z) : option (Z * ufactors) := factor_square_free_Z fuel f.

(* hensel_lift_quadratic, first statement:  D = (F - prod A_k) / q  by lp_upolynomial_div_exact_c, which asserts
   that q divides every coefficient.  After the repair only monic F reach this code, with F = prod A_k (mod q). *)
Definition hensel_D (q : Z) (F : list Z) (As : list (list Z)) : option (list Z) :=
  let d := pnorm (psub F (uprod (ones As))) in
  if forallb (fun c => c mod q =? 0) d then Some (pdivc d q) else None.
