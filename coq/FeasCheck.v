(* C12: the per-run ACCEPTANCE TEST of a feasible set read from the implementation, as executable Gallina (no proofs
   here; FeasCheckProofs.v).  The set is given over RANKS: an end point is -inf, +inf or the index of a root in the
   root list rs read from the implementation (the driver identifies the printed end points with the roots by exact
   comparison).  It is accepted when
     - rs is accepted as the exact root list of the specialisation (RootCheck.accept_roots),
     - the rational sample points mids separate consecutive roots (exact comparison rn_cmp_q),
     - and the set equals the sweep of lp_polynomial_constraint_get_feasible_set (FeasSweep.constraint_feasible_set)
       run on the ranks with the EXACT degree, the exact signs of the leading / constant coefficient and the exact
       signs at the sample points (RootCheck.coeff_signs / sign_at).
   By the sweep theorems the accepted set then is exactly { v | the (possibly negated) condition holds for sgn p(v) }. *)
From Coq Require Import ZArith NArith List Bool Arith.
From LP Require Import Scalar UPoly MPoly RefAlg FeasSweep RootCheck.
Import ListNotations.
Local Open Scope Z_scope.

Definition ext_eqb (a b : ext Z) : bool :=
  match a, b with
  | NegInf, NegInf => true
  | PosInf, PosInf => true
  | Finite x, Finite y => x =? y
  | _, _ => false
  end.
Definition iv_eqb (i j : interval Z) : bool :=
  match i, j with
  | IPoint a, IPoint b => ext_eqb a b
  | IIv a ao b bo, IIv a' ao' b' bo' => ext_eqb a a' && Bool.eqb ao ao' && ext_eqb b b' && Bool.eqb bo bo'
  | _, _ => false
  end.
Fixpoint set_eqb (s t : list (interval Z)) : bool :=
  match s, t with
  | [], [] => true
  | i :: s', j :: t' => iv_eqb i j && set_eqb s' t'
  | _, _ => false
  end.

Definition ranks (n : nat) : list Z := map Z.of_nat (seq 0 n).

(* mids_i lies strictly between roots i and i+1 *)
Fixpoint separates (rs : list rnum) (mids : list rat) : bool :=
  match rs, mids with
  | _ :: [], [] => true
  | [], [] => true
  | r :: ((r' :: _) as rs'), q :: mids' =>
    q_is_canon q && (rn_cmp_q r q <? 0) && (0 <? rn_cmp_q r' q) && separates rs' mids'
  | _, _ => false
  end.

(* the exact oracle of the sweep; None when the exact arithmetic of RootCheck does not apply *)
Definition sweep_oracle (fuel : nat) (a : asg) (y : var) (p : mpoly) (mids : list rat)
  : option (nat * Z * Z * list Z) :=
  match coeff_signs fuel a y p with
  | None => None
  | Some cs =>
    let d := match last_nonzero cs O None with Some d => d | None => O end in
    match all_some (map (sign_at fuel a y p) mids) with
    | None => None
    | Some ms => Some (d, nth O cs 0, nth d cs 0, ms)
    end
  end.

(* the set S (over ranks) is the sweep on the exact oracle *)
Definition feasible_matches (n : nat) (o : nat * Z * Z * list Z) (sc : sign_condition) (negated : bool)
           (S : list (interval Z)) : bool :=
  let '(d, sgn_const, sgn_lc, ms) := o in
  set_eqb S (z_constraint_feasible_set (ranks n) d sgn_const sgn_lc (fun i => nth i ms 0) sc negated).
Definition root_constraint_matches (n : nat) (o : nat * Z * Z * list Z) (k : nat) (sc : sign_condition) (negated : bool)
           (S : list (interval Z)) : bool :=
  let '(d, _, _, _) := o in
  set_eqb S (z_root_constraint_feasible_set (ranks n) d k sc negated).

(* the acceptance test; the drivers evaluate its three expensive parts (accept_roots, separates, sweep_oracle) once
   per case and feasible_matches once per sign condition / polarity - the same conjunction *)
Definition accept_feasible (fuel : nat) (a : asg) (y : var) (p : mpoly) (rs : list rnum) (mids : list rat)
           (sc : sign_condition) (negated : bool) (S : list (interval Z)) : verdict :=
  match accept_roots fuel a y p rs with
  | Accept =>
    if negb (separates (map rn_norm rs) mids) then NotApplicable else
    match sweep_oracle fuel a y p mids with
    | None => NotApplicable
    | Some o => if feasible_matches (length rs) o sc negated S then Accept else Reject
    end
  | v => v
  end.

Definition accept_root_constraint (fuel : nat) (a : asg) (y : var) (p : mpoly) (rs : list rnum) (k : nat)
           (sc : sign_condition) (negated : bool) (S : list (interval Z)) : verdict :=
  match accept_roots fuel a y p rs with
  | Accept =>
    match sweep_oracle fuel a y p [] with
    | None => NotApplicable
    | Some o => if root_constraint_matches (length rs) o k sc negated S then Accept else Reject
    end
  | v => v
  end.
