(* Proofs about the C11 / C12 model FeasSweep.v: the feasible-set sweep is exact and returns a normal form
   (for every totally ordered carrier), root-constraint sets, evaluators, the complement sweep, and the
   sort / de-duplicate / assemble half of root isolation. *)
From Coq Require Import ZArith List Bool Arith Lia Sorted Permutation ZifyNat.
From LP Require Import FeasSweep.
Import ListNotations.
Local Open Scope Z_scope.

Ltac Zify.zify_post_hook ::= Z.div_mod_to_equations.

(* ---------------------------------------------------------------- sign conditions *)
Lemma sc_negate_consistent : forall sc s, sc_consistent (sc_negate sc) s = negb (sc_consistent sc s).
Proof.
  intros sc s; destruct sc; cbn [sc_negate sc_consistent];
    try rewrite negb_involutive;
    destruct (s <? 0) eqn:E1; destruct (s <=? 0) eqn:E2; destruct (s =? 0) eqn:E3;
    destruct (0 <? s) eqn:E4; destruct (0 <=? s) eqn:E5; try reflexivity; exfalso; lia.
Qed.

Lemma sc_negate_involutive : forall sc, sc_negate (sc_negate sc) = sc.
Proof. destruct sc; reflexivity. Qed.

(* the table of lp_sign_condition_consistent only depends on the sign *)
Lemma sc_consistent_sgn : forall sc s, sc_consistent sc (Z.sgn s) = sc_consistent sc s.
Proof.
  intros sc s; destruct sc; cbn [sc_consistent]; destruct s; reflexivity.
Qed.

(* ---------------------------------------------------------------- the carrier *)
Record total_order {T : Type} (cmp : T -> T -> comparison) : Prop := {
  cmp_eq_iff : forall a b, cmp a b = Eq <-> a = b;
  cmp_antisym : forall a b, cmp b a = CompOpp (cmp a b);
  cmp_lt_trans : forall a b c, cmp a b = Lt -> cmp b c = Lt -> cmp a c = Lt
}.

Lemma zcmp_total_order : total_order zcmp.
Proof.
  split; unfold zcmp; intros.
  - apply Z.compare_eq_iff.
  - apply Z.compare_antisym.
  - rewrite Z.compare_lt_iff in *; lia.
Qed.

Section Carrier.
Variable T : Type.
Variable cmp : T -> T -> comparison.
Hypothesis TO : total_order cmp.

Notation ext := (ext T).
Notation interval := (interval T).
Notation ext_cmp := (ext_cmp T cmp).
Notation iv_contains := (iv_contains T cmp).
Notation set_contains := (set_contains T cmp).
Notation mk_interval := (mk_interval T cmp).
Notation above_lower := (above_lower T cmp).
Notation below_upper := (below_upper T cmp).
Notation iv_wf := (iv_wf T cmp).
Notation iv_before := (iv_before T cmp).
Notation set_nf := (set_nf T cmp).

Lemma cmp_refl : forall a, cmp a a = Eq.
Proof. intro a; apply (cmp_eq_iff _ TO); reflexivity. Qed.

Lemma cmp_gt_lt : forall a b, cmp a b = Gt <-> cmp b a = Lt.
Proof.
  intros a b; rewrite (cmp_antisym _ TO a b); destruct (cmp a b); cbn; split; congruence.
Qed.

Lemma cmp_eq_sym : forall a b, cmp a b = Eq -> cmp b a = Eq.
Proof. intros a b H; apply (cmp_eq_iff _ TO) in H; subst; apply cmp_refl. Qed.

Lemma ext_cmp_eq_iff : forall a b : ext, ext_cmp a b = Eq <-> a = b.
Proof.
  intros [| x |] [| y |]; cbn; split; intro H; try reflexivity; try discriminate.
  - apply (cmp_eq_iff _ TO) in H; congruence.
  - inversion H; subst; apply cmp_refl.
Qed.

Lemma ext_cmp_antisym : forall a b : ext, ext_cmp b a = CompOpp (ext_cmp a b).
Proof. intros [| x |] [| y |]; cbn; try reflexivity; apply (cmp_antisym _ TO). Qed.

Lemma ext_cmp_lt_trans : forall a b c : ext, ext_cmp a b = Lt -> ext_cmp b c = Lt -> ext_cmp a c = Lt.
Proof.
  intros [| x |] [| y |] [| z |]; cbn; intros H1 H2; try reflexivity; try discriminate.
  eapply (cmp_lt_trans _ TO); eassumption.
Qed.

Lemma ext_cmp_refl : forall a : ext, ext_cmp a a = Eq.
Proof. intro a; apply ext_cmp_eq_iff; reflexivity. Qed.

Lemma ext_cmp_gt_lt : forall a b : ext, ext_cmp a b = Gt <-> ext_cmp b a = Lt.
Proof.
  intros a b; rewrite (ext_cmp_antisym a b); destruct (ext_cmp a b); cbn; split; congruence.
Qed.

(* three-way case analysis on two extended values with the order facts in the context *)
Lemma ext_cmp_cases : forall a b : ext,
  (ext_cmp a b = Lt /\ ext_cmp b a = Gt) \/ (a = b) \/ (ext_cmp a b = Gt /\ ext_cmp b a = Lt).
Proof.
  intros a b; destruct (ext_cmp a b) eqn:E.
  - right; left; apply ext_cmp_eq_iff; exact E.
  - left; split; [reflexivity | rewrite ext_cmp_antisym, E; reflexivity].
  - right; right; split; [reflexivity | rewrite ext_cmp_antisym, E; reflexivity].
Qed.

(* ---------------------------------------------------------------- membership *)
Lemma mk_interval_contains : forall a ao b bo v,
  iv_contains (mk_interval a ao b bo) v = above_lower a ao v && below_upper b bo v.
Proof.
  intros a ao b bo v; unfold FeasSweep.mk_interval.
  destruct (ext_cmp a b) eqn:E; try reflexivity.
  destruct (ao || bo) eqn:F; try reflexivity.
  apply orb_false_iff in F; destruct F; subst.
  apply ext_cmp_eq_iff in E; subst b.
  cbn [FeasSweep.iv_contains]; unfold FeasSweep.above_lower, FeasSweep.below_upper.
  rewrite (ext_cmp_antisym a (Finite v)).
  destruct (ext_cmp a (Finite v)); reflexivity.
Qed.

Lemma mk_interval_upper : forall a ao b bo, iv_upper T (mk_interval a ao b bo) = b.
Proof.
  intros; unfold FeasSweep.mk_interval.
  destruct (ext_cmp a b) eqn:E; try reflexivity.
  destruct (ao || bo); try reflexivity.
  apply ext_cmp_eq_iff in E; subst; reflexivity.
Qed.
Lemma mk_interval_lower : forall a ao b bo, iv_lower T (mk_interval a ao b bo) = a.
Proof.
  intros; unfold FeasSweep.mk_interval.
  destruct (ext_cmp a b); try reflexivity. destruct (ao || bo); reflexivity.
Qed.
Lemma mk_interval_upper_open : forall a ao b bo, iv_upper_open T (mk_interval a ao b bo) = bo.
Proof.
  intros; unfold FeasSweep.mk_interval.
  destruct (ext_cmp a b) eqn:E; try reflexivity.
  destruct (ao || bo) eqn:F; try reflexivity.
  apply orb_false_iff in F; destruct F; subst; reflexivity.
Qed.
Lemma mk_interval_lower_open : forall a ao b bo, iv_lower_open T (mk_interval a ao b bo) = ao.
Proof.
  intros; unfold FeasSweep.mk_interval.
  destruct (ext_cmp a b) eqn:E; try reflexivity.
  destruct (ao || bo) eqn:F; try reflexivity.
  apply orb_false_iff in F; destruct F; subst; reflexivity.
Qed.

(* well-formedness of a constructed interval: a < b (infinite ends open), or a = b finite with closed ends *)
Lemma mk_interval_wf_lt : forall a ao b bo,
  ext_cmp a b = Lt -> (a = NegInf -> ao = true) -> (b = PosInf -> bo = true) ->
  iv_wf (mk_interval a ao b bo) = true.
Proof.
  intros a ao b bo E Ha Hb; unfold FeasSweep.mk_interval; rewrite E; cbn [FeasSweep.iv_wf]; rewrite E.
  destruct a; destruct b; cbn; try reflexivity; try (rewrite Ha by reflexivity); try (rewrite Hb by reflexivity);
    try reflexivity; cbn in E; discriminate.
Qed.
Lemma mk_interval_wf_point : forall r, iv_wf (mk_interval (Finite r) false (Finite r) false) = true.
Proof.
  intros r; unfold FeasSweep.mk_interval; rewrite ext_cmp_refl; reflexivity.
Qed.

(* ---------------------------------------------------------------- cells *)
Definition lt (a b : T) : Prop := cmp a b = Lt.
Definition increasing (l : list T) : Prop := StronglySorted lt l.

(* index (0 .. 2n) of the cell of v: 2i+1 for the i-th root, 2i for the open cell below the i-th root *)
Fixpoint cell_of (roots : list T) (v : T) : nat :=
  match roots with
  | [] => O
  | r :: rs => match cmp v r with Lt => O | Eq => 1%nat | Gt => S (S (cell_of rs v)) end
  end.

Lemma cell_of_bound : forall roots v, (cell_of roots v <= 2 * length roots)%nat.
Proof.
  induction roots as [| r rs IH]; intro v; cbn [cell_of length]; [lia |].
  specialize (IH v); destruct (cmp v r); lia.
Qed.

Lemma increasing_nth_lt : forall roots i j a b,
  increasing roots -> nth_error roots i = Some a -> nth_error roots j = Some b -> (i < j)%nat -> lt a b.
Proof.
  induction roots as [| r rs IH]; intros i j a b Hs Hi Hj Hij.
  - destruct i; discriminate.
  - inversion Hs as [| ? ? Hs' Hall]; subst.
    destruct j as [| j]; [lia |]. cbn in Hj.
    destruct i as [| i]; cbn in Hi.
    + inversion Hi; subst. rewrite Forall_forall in Hall. apply Hall. eapply nth_error_In; eassumption.
    + eapply IH; try eassumption; lia.
Qed.

(* the central fact: position of v relative to the i-th root, read off the cell index *)
Lemma cell_of_le : forall roots i r v,
  increasing roots -> nth_error roots i = Some r ->
  ((cell_of roots v <= 2 * i)%nat <-> cmp v r = Lt) /\
  ((cell_of roots v <= 2 * i + 1)%nat <-> cmp v r <> Gt).
Proof.
  induction roots as [| r0 rs IH]; intros i r v Hs Hi.
  - destruct i; discriminate.
  - inversion Hs as [| ? ? Hs' Hall]; subst. cbn [cell_of].
    destruct i as [| i]; cbn in Hi.
    + inversion Hi; subst r0. destruct (cmp v r) eqn:E; split; split; intro H; try lia; try congruence; try discriminate.
    + assert (Hr : lt r0 r).
      { rewrite Forall_forall in Hall; apply Hall; eapply nth_error_In; eassumption. }
      destruct (cmp v r0) eqn:E.
      * apply (cmp_eq_iff _ TO) in E; subst r0. unfold lt in Hr. rewrite Hr.
        split; split; intro; try lia; try congruence; try discriminate.
      * assert (Hv : cmp v r = Lt) by (eapply (cmp_lt_trans _ TO); eassumption). rewrite Hv.
        split; split; intro; try lia; try congruence; try discriminate.
      * destruct (IH i r v Hs' Hi) as [[A1 A2] [B1 B2]].
        split; split; intro H.
        -- apply A1; lia.
        -- apply A2 in H; lia.
        -- apply B1; lia.
        -- apply B2 in H; lia.
Qed.

Lemma cell_of_root : forall roots i r,
  increasing roots -> nth_error roots i = Some r -> cell_of roots r = (2 * i + 1)%nat.
Proof.
  intros roots i r Hs Hi.
  destruct (cell_of_le roots i r r Hs Hi) as [[A1 A2] [B1 B2]].
  rewrite cmp_refl in *.
  assert (cell_of roots r <= 2 * i + 1)%nat by (apply B2; discriminate).
  assert (~ (cell_of roots r <= 2 * i)%nat) by (intro H1; apply A1 in H1; discriminate).
  lia.
Qed.


(* ---------------------------------------------------------------- the two ends of a run of cells *)
Definition run_lower (roots : list T) (lb : nat) : ext * bool :=
  if Nat.eqb (lb mod 2) 1 then (root_at T roots (lb / 2), false)
  else if Nat.eqb lb 0 then (NegInf, true)
  else (root_at T roots ((lb - 1) / 2), true).
Definition run_upper (roots : list T) (signs_size ub : nat) : ext * bool :=
  if Nat.eqb (ub mod 2) 0 then (root_at T roots ((ub - 1) / 2), false)
  else if Nat.eqb ub signs_size then (PosInf, true)
  else (root_at T roots (ub / 2), true).

Lemma run_interval_eq : forall roots size lb ub, (lb < ub)%nat ->
  run_interval T cmp roots size lb ub =
  mk_interval (fst (run_lower roots lb)) (snd (run_lower roots lb))
              (fst (run_upper roots size ub)) (snd (run_upper roots size ub)).
Proof.
  intros roots size lb ub H. unfold run_interval, run_lower, run_upper.
  replace (Nat.eqb lb (ub + 1)) with false by (symmetry; apply Nat.eqb_neq; lia).
  cbn [andb].
  destruct (Nat.eqb (lb mod 2) 1); destruct (Nat.eqb (ub mod 2) 0); destruct (Nat.eqb lb 0);
    destruct (Nat.eqb ub size); reflexivity.
Qed.

Lemma root_at_some : forall roots i, (i < length roots)%nat ->
  exists r, nth_error roots i = Some r /\ root_at T roots i = Finite r.
Proof.
  intros roots i H. unfold root_at. destruct (nth_error roots i) eqn:E.
  - eexists; split; reflexivity.
  - apply nth_error_None in E; lia.
Qed.

Lemma parity_cases : forall k : nat, (exists i, k = 2 * i)%nat \/ (exists i, k = 2 * i + 1)%nat.
Proof.
  intro k. destruct (Nat.Even_or_Odd k) as [[i H] | [i H]]; [left | right]; exists i; lia.
Qed.

Lemma above_lower_fin_closed : forall r v, above_lower (Finite r) false v = negb (match cmp v r with Lt => true | _ => false end).
Proof.
  intros; unfold FeasSweep.above_lower; cbn [FeasSweep.ext_cmp].
  rewrite (cmp_antisym _ TO v r). destruct (cmp v r); reflexivity.
Qed.
Lemma above_lower_fin_open : forall r v, above_lower (Finite r) true v = match cmp v r with Gt => true | _ => false end.
Proof.
  intros; unfold FeasSweep.above_lower; cbn [FeasSweep.ext_cmp].
  rewrite (cmp_antisym _ TO v r). destruct (cmp v r); reflexivity.
Qed.
Lemma below_upper_fin_closed : forall r v, below_upper (Finite r) false v = negb (match cmp v r with Gt => true | _ => false end).
Proof. intros; unfold FeasSweep.below_upper; cbn [FeasSweep.ext_cmp]. destruct (cmp v r); reflexivity. Qed.
Lemma below_upper_fin_open : forall r v, below_upper (Finite r) true v = match cmp v r with Lt => true | _ => false end.
Proof. intros; unfold FeasSweep.below_upper; cbn [FeasSweep.ext_cmp]. destruct (cmp v r); reflexivity. Qed.

Lemma run_lower_spec : forall roots lb v,
  increasing roots -> (lb < 2 * length roots + 1)%nat ->
  above_lower (fst (run_lower roots lb)) (snd (run_lower roots lb)) v = Nat.leb lb (cell_of roots v).
Proof.
  intros roots lb v Hs Hlb. unfold run_lower.
  destruct (parity_cases lb) as [[i Hi] | [i Hi]]; subst lb.
  - replace (Nat.eqb ((2 * i) mod 2) 1) with false by (symmetry; apply Nat.eqb_neq; lia).
    destruct i as [| i].
    + cbn. reflexivity.
    + replace (Nat.eqb (2 * S i) 0) with false by (symmetry; apply Nat.eqb_neq; lia).
      replace ((2 * S i - 1) / 2)%nat with i by lia.
      destruct (root_at_some roots i) as [r [Hn Hr]]; [lia |]. rewrite Hr. cbn [fst snd].
      rewrite above_lower_fin_open.
      destruct (cell_of_le roots i r v Hs Hn) as [_ [B1 B2]].
      destruct (Nat.leb (2 * S i) (cell_of roots v)) eqn:E.
      * apply Nat.leb_le in E. destruct (cmp v r) eqn:C; try reflexivity; exfalso;
          assert (cell_of roots v <= 2 * i + 1)%nat by (apply B2; congruence); lia.
      * apply Nat.leb_gt in E. assert (cmp v r <> Gt) by (apply B1; lia).
        destruct (cmp v r); try reflexivity; congruence.
  - replace (Nat.eqb ((2 * i + 1) mod 2) 1) with true by (symmetry; apply Nat.eqb_eq; lia).
    replace ((2 * i + 1) / 2)%nat with i by lia.
    destruct (root_at_some roots i) as [r [Hn Hr]]; [lia |]. rewrite Hr. cbn [fst snd].
    rewrite above_lower_fin_closed.
    destruct (cell_of_le roots i r v Hs Hn) as [[A1 A2] _].
    destruct (Nat.leb (2 * i + 1) (cell_of roots v)) eqn:E.
    + apply Nat.leb_le in E. destruct (cmp v r) eqn:C; try reflexivity; exfalso.
      assert (cell_of roots v <= 2 * i)%nat by (apply A2; reflexivity). lia.
    + apply Nat.leb_gt in E. assert (cmp v r = Lt) as -> by (apply A1; lia). reflexivity.
Qed.

Lemma run_upper_spec : forall roots ub v,
  increasing roots -> (0 < ub <= 2 * length roots + 1)%nat ->
  below_upper (fst (run_upper roots (2 * length roots + 1) ub)) (snd (run_upper roots (2 * length roots + 1) ub)) v
  = Nat.ltb (cell_of roots v) ub.
Proof.
  intros roots ub v Hs Hub. unfold run_upper.
  pose proof (cell_of_bound roots v) as Hb.
  destruct (parity_cases ub) as [[i Hi] | [i Hi]]; subst ub.
  - replace (Nat.eqb ((2 * i) mod 2) 0) with true by (symmetry; apply Nat.eqb_eq; lia).
    destruct i as [| i]; [lia |].
    replace ((2 * S i - 1) / 2)%nat with i by lia.
    destruct (root_at_some roots i) as [r [Hn Hr]]; [lia |]. rewrite Hr. cbn [fst snd].
    rewrite below_upper_fin_closed.
    destruct (cell_of_le roots i r v Hs Hn) as [_ [B1 B2]].
    destruct (Nat.ltb (cell_of roots v) (2 * S i)) eqn:E.
    + apply Nat.ltb_lt in E. assert (cmp v r <> Gt) by (apply B1; lia).
      destruct (cmp v r); try reflexivity; congruence.
    + apply Nat.ltb_ge in E. destruct (cmp v r) eqn:C; try reflexivity; exfalso;
        assert (cell_of roots v <= 2 * i + 1)%nat by (apply B2; congruence); lia.
  - replace (Nat.eqb ((2 * i + 1) mod 2) 0) with false by (symmetry; apply Nat.eqb_neq; lia).
    destruct (Nat.eqb (2 * i + 1) (2 * length roots + 1)) eqn:F.
    + apply Nat.eqb_eq in F. cbn [fst snd]. unfold FeasSweep.below_upper; cbn.
      symmetry; apply Nat.ltb_lt; lia.
    + apply Nat.eqb_neq in F.
      replace ((2 * i + 1) / 2)%nat with i by lia.
      destruct (root_at_some roots i) as [r [Hn Hr]]; [lia |]. rewrite Hr. cbn [fst snd].
      rewrite below_upper_fin_open.
      destruct (cell_of_le roots i r v Hs Hn) as [[A1 A2] _].
      destruct (Nat.ltb (cell_of roots v) (2 * i + 1)) eqn:E.
      * apply Nat.ltb_lt in E. assert (cmp v r = Lt) as -> by (apply A1; lia). reflexivity.
      * apply Nat.ltb_ge in E. destruct (cmp v r) eqn:C; try reflexivity; exfalso.
        assert (cell_of roots v <= 2 * i)%nat by (apply A2; reflexivity). lia.
Qed.

Lemma run_interval_contains : forall roots lb ub v,
  increasing roots -> (lb < ub <= 2 * length roots + 1)%nat ->
  iv_contains (run_interval T cmp roots (2 * length roots + 1) lb ub) v
  = Nat.leb lb (cell_of roots v) && Nat.ltb (cell_of roots v) ub.
Proof.
  intros roots lb ub v Hs H.
  rewrite run_interval_eq by lia. rewrite mk_interval_contains.
  rewrite run_lower_spec by (auto; lia). rewrite run_upper_spec by (auto; lia). reflexivity.
Qed.


(* ---------------------------------------------------------------- well-formedness and order of run intervals *)
Lemma fin_lt : forall roots i j r r',
  increasing roots -> nth_error roots i = Some r -> nth_error roots j = Some r' -> (i < j)%nat ->
  ext_cmp (Finite r) (Finite r') = Lt.
Proof. intros; cbn; eapply increasing_nth_lt; eassumption. Qed.


Lemma run_interval_wf : forall roots lb ub,
  increasing roots -> (lb < ub <= 2 * length roots + 1)%nat ->
  iv_wf (run_interval T cmp roots (2 * length roots + 1) lb ub) = true.
Proof.
  intros roots lb ub Hs H. rewrite run_interval_eq by lia. unfold run_lower, run_upper.
  destruct (parity_cases lb) as [[a Ha] | [a Ha]]; destruct (parity_cases ub) as [[b Hb] | [b Hb]]; subst lb ub.
  - replace (Nat.eqb ((2 * a) mod 2) 1) with false by (symmetry; apply Nat.eqb_neq; lia).
    replace (Nat.eqb ((2 * b) mod 2) 0) with true by (symmetry; apply Nat.eqb_eq; lia).
    destruct b as [| b]; [lia |]. replace ((2 * S b - 1) / 2)%nat with b by lia.
    destruct (root_at_some roots b) as [rb [Hnb Hrb]]; [lia |]. rewrite Hrb.
    destruct a as [| a].
    + cbn [Nat.eqb Nat.mul fst snd]. apply mk_interval_wf_lt; [reflexivity | reflexivity | discriminate].
    + replace (Nat.eqb (2 * S a) 0) with false by (symmetry; apply Nat.eqb_neq; lia).
      replace ((2 * S a - 1) / 2)%nat with a by lia.
      destruct (root_at_some roots a) as [ra [Hna Hra]]; [lia |]. rewrite Hra. cbn [fst snd].
      apply mk_interval_wf_lt; [| discriminate | discriminate].
      eapply fin_lt; try eassumption; lia.
  - replace (Nat.eqb ((2 * a) mod 2) 1) with false by (symmetry; apply Nat.eqb_neq; lia).
    replace (Nat.eqb ((2 * b + 1) mod 2) 0) with false by (symmetry; apply Nat.eqb_neq; lia).
    replace ((2 * b + 1) / 2)%nat with b by lia.
    destruct (Nat.eqb (2 * b + 1) (2 * length roots + 1)) eqn:F.
    + destruct a as [| a].
      * cbn [Nat.eqb Nat.mul fst snd]. apply mk_interval_wf_lt; [reflexivity | reflexivity | reflexivity].
      * replace (Nat.eqb (2 * S a) 0) with false by (symmetry; apply Nat.eqb_neq; lia).
        replace ((2 * S a - 1) / 2)%nat with a by lia.
        destruct (root_at_some roots a) as [ra [Hna Hra]]; [lia |]. rewrite Hra. cbn [fst snd].
        apply mk_interval_wf_lt; [reflexivity | discriminate | reflexivity].
    + apply Nat.eqb_neq in F.
      destruct (root_at_some roots b) as [rb [Hnb Hrb]]; [lia |]. rewrite Hrb.
      destruct a as [| a].
      * cbn [Nat.eqb Nat.mul fst snd]. apply mk_interval_wf_lt; [reflexivity | reflexivity | discriminate].
      * replace (Nat.eqb (2 * S a) 0) with false by (symmetry; apply Nat.eqb_neq; lia).
        replace ((2 * S a - 1) / 2)%nat with a by lia.
        destruct (root_at_some roots a) as [ra [Hna Hra]]; [lia |]. rewrite Hra. cbn [fst snd].
        apply mk_interval_wf_lt; [| discriminate | discriminate].
        eapply fin_lt; try eassumption; lia.
  - replace (Nat.eqb ((2 * a + 1) mod 2) 1) with true by (symmetry; apply Nat.eqb_eq; lia).
    replace (Nat.eqb ((2 * b) mod 2) 0) with true by (symmetry; apply Nat.eqb_eq; lia).
    replace ((2 * a + 1) / 2)%nat with a by lia.
    destruct b as [| b]; [lia |]. replace ((2 * S b - 1) / 2)%nat with b by lia.
    destruct (root_at_some roots a) as [ra [Hna Hra]]; [lia |]. rewrite Hra.
    destruct (root_at_some roots b) as [rb [Hnb Hrb]]; [lia |]. rewrite Hrb. cbn [fst snd].
    destruct (Nat.eq_dec a b) as [E | E].
    + subst b. assert (ra = rb) by congruence. subst rb. apply mk_interval_wf_point.
    + apply mk_interval_wf_lt; [| discriminate | discriminate].
      eapply fin_lt; try eassumption; lia.
  - replace (Nat.eqb ((2 * a + 1) mod 2) 1) with true by (symmetry; apply Nat.eqb_eq; lia).
    replace (Nat.eqb ((2 * b + 1) mod 2) 0) with false by (symmetry; apply Nat.eqb_neq; lia).
    replace ((2 * a + 1) / 2)%nat with a by lia. replace ((2 * b + 1) / 2)%nat with b by lia.
    destruct (root_at_some roots a) as [ra [Hna Hra]]; [lia |]. rewrite Hra.
    destruct (Nat.eqb (2 * b + 1) (2 * length roots + 1)) eqn:F.
    + cbn [fst snd]. apply mk_interval_wf_lt; [reflexivity | discriminate | reflexivity].
    + apply Nat.eqb_neq in F.
      destruct (root_at_some roots b) as [rb [Hnb Hrb]]; [lia |]. rewrite Hrb. cbn [fst snd].
      apply mk_interval_wf_lt; [| discriminate | discriminate].
      eapply fin_lt; try eassumption; lia.
Qed.

(* a run ending at u1 lies strictly before, and cannot be merged with, a run starting at l2 > u1 *)
Lemma run_interval_before : forall roots l1 u1 l2 u2,
  increasing roots -> (l1 < u1)%nat -> (u1 < l2)%nat -> (l2 < u2 <= 2 * length roots + 1)%nat ->
  iv_before (run_interval T cmp roots (2 * length roots + 1) l1 u1)
            (run_interval T cmp roots (2 * length roots + 1) l2 u2) = true.
Proof.
  intros roots l1 u1 l2 u2 Hs H1 H2 H3. unfold FeasSweep.iv_before.
  rewrite !run_interval_eq by lia.
  rewrite mk_interval_upper, mk_interval_lower, mk_interval_upper_open, mk_interval_lower_open.
  unfold run_lower, run_upper.
  replace (Nat.eqb u1 (2 * length roots + 1)) with false by (symmetry; apply Nat.eqb_neq; lia).
  replace (Nat.eqb l2 0) with false by (symmetry; apply Nat.eqb_neq; lia).
  destruct (parity_cases u1) as [[b Hb] | [b Hb]]; destruct (parity_cases l2) as [[a Ha] | [a Ha]]; subst u1 l2.
  - replace (Nat.eqb ((2 * b) mod 2) 0) with true by (symmetry; apply Nat.eqb_eq; lia).
    replace (Nat.eqb ((2 * a) mod 2) 1) with false by (symmetry; apply Nat.eqb_neq; lia).
    destruct b as [| b]; [lia |]. destruct a as [| a]; [lia |].
    replace ((2 * S b - 1) / 2)%nat with b by lia. replace ((2 * S a - 1) / 2)%nat with a by lia.
    destruct (root_at_some roots a) as [ra [Hna Hra]]; [lia |]. rewrite Hra.
    destruct (root_at_some roots b) as [rb [Hnb Hrb]]; [lia |]. rewrite Hrb. cbn [fst snd].
    erewrite fin_lt; try eassumption; [reflexivity | lia].
  - replace (Nat.eqb ((2 * b) mod 2) 0) with true by (symmetry; apply Nat.eqb_eq; lia).
    replace (Nat.eqb ((2 * a + 1) mod 2) 1) with true by (symmetry; apply Nat.eqb_eq; lia).
    destruct b as [| b]; [lia |].
    replace ((2 * S b - 1) / 2)%nat with b by lia. replace ((2 * a + 1) / 2)%nat with a by lia.
    destruct (root_at_some roots a) as [ra [Hna Hra]]; [lia |]. rewrite Hra.
    destruct (root_at_some roots b) as [rb [Hnb Hrb]]; [lia |]. rewrite Hrb. cbn [fst snd].
    erewrite fin_lt; try eassumption; [reflexivity | lia].
  - replace (Nat.eqb ((2 * b + 1) mod 2) 0) with false by (symmetry; apply Nat.eqb_neq; lia).
    replace (Nat.eqb ((2 * a) mod 2) 1) with false by (symmetry; apply Nat.eqb_neq; lia).
    destruct a as [| a]; [lia |].
    replace ((2 * b + 1) / 2)%nat with b by lia. replace ((2 * S a - 1) / 2)%nat with a by lia.
    destruct (root_at_some roots a) as [ra [Hna Hra]]; [lia |]. rewrite Hra.
    destruct (root_at_some roots b) as [rb [Hnb Hrb]]; [lia |]. rewrite Hrb. cbn [fst snd].
    destruct (Nat.eq_dec a b) as [E | E].
    + subst b. assert (ra = rb) by congruence. subst rb. rewrite ext_cmp_refl. reflexivity.
    + erewrite fin_lt; try eassumption; [reflexivity | lia].
  - replace (Nat.eqb ((2 * b + 1) mod 2) 0) with false by (symmetry; apply Nat.eqb_neq; lia).
    replace (Nat.eqb ((2 * a + 1) mod 2) 1) with true by (symmetry; apply Nat.eqb_eq; lia).
    replace ((2 * b + 1) / 2)%nat with b by lia. replace ((2 * a + 1) / 2)%nat with a by lia.
    destruct (root_at_some roots a) as [ra [Hna Hra]]; [lia |]. rewrite Hra.
    destruct (root_at_some roots b) as [rb [Hnb Hrb]]; [lia |]. rewrite Hrb. cbn [fst snd].
    erewrite fin_lt; try eassumption; [reflexivity | lia].
Qed.


(* ---------------------------------------------------------------- the collecting loop *)
Lemma scan_spec : forall f k i,
  let j := scan f i k in
  (i <= j <= i + k)%nat /\ (forall t, (i <= t < j)%nat -> f t = true) /\ ((j < i + k)%nat -> f j = false).
Proof.
  induction k as [| k IH]; intro i; cbn [scan].
  - split; [lia | split; intros; lia].
  - destruct (f i) eqn:E.
    + specialize (IH (S i)). cbn zeta in IH. destruct IH as [A [B C]].
      split; [lia | split].
      * intros t Ht. destruct (Nat.eq_dec t i); [subst; exact E | apply B; lia].
      * intro; apply C; lia.
    + split; [lia | split]; [intros; lia | intro; exact E].
Qed.

(* the same loop, returning the index pairs (lb, ub) of the runs *)
Fixpoint run_pairs (fuel : nat) (cons : nat -> bool) (signs_size lb : nat) : list (nat * nat) :=
  match fuel with
  | O => []
  | S f =>
    if Nat.ltb lb signs_size then
      let lb := scan (fun i => negb (cons i)) lb (signs_size - lb) in
      if Nat.ltb lb signs_size then
        let ub := scan cons (lb + 1) (signs_size - (lb + 1)) in
        (lb, ub) :: run_pairs f cons signs_size ub
      else []
    else []
  end.

Lemma collect_runs_pairs : forall roots cons size fuel lb,
  collect_runs T cmp fuel roots cons size lb
  = map (fun p => run_interval T cmp roots size (fst p) (snd p)) (run_pairs fuel cons size lb).
Proof.
  intros roots cons size; induction fuel as [| f IH]; intro lb; cbn [collect_runs run_pairs]; [reflexivity |].
  destruct (Nat.ltb lb size); [| reflexivity].
  destruct (Nat.ltb (scan (fun i => negb (cons i)) lb (size - lb)) size); [| reflexivity].
  cbn [map fst snd]. rewrite IH. reflexivity.
Qed.

Lemma count_runs_pairs : forall cons size fuel lb,
  count_runs fuel cons size lb = length (run_pairs fuel cons size lb).
Proof.
  intros cons size; induction fuel as [| f IH]; intro lb; cbn [count_runs run_pairs]; [reflexivity |].
  destruct (Nat.ltb lb size); [| reflexivity].
  destruct (Nat.ltb (scan (fun i => negb (cons i)) lb (size - lb)) size); [| reflexivity].
  cbn [length]. rewrite IH. reflexivity.
Qed.

(* consecutive runs are separated by at least one cell *)
Fixpoint chain (size lo : nat) (ps : list (nat * nat)) : Prop :=
  match ps with
  | [] => True
  | p :: ps' => (lo <= fst p < snd p)%nat /\ (snd p <= size)%nat /\ chain size (S (snd p)) ps'
  end.

Definition in_pairs (ps : list (nat * nat)) (j : nat) : bool :=
  existsb (fun p => Nat.leb (fst p) j && Nat.ltb j (snd p)) ps.

Lemma run_pairs_spec : forall cons size fuel lb,
  (size - lb < fuel)%nat ->
  let ps := run_pairs fuel cons size lb in
  chain size lb ps /\
  (match ps with [] => True | p :: _ => cons (fst p) = true end) /\
  (forall j, (j < size)%nat -> in_pairs ps j = Nat.leb lb j && cons j).
Proof.
  intros cons size; induction fuel as [| f IH]; intros lb Hf; [lia |].
  cbn [run_pairs]. cbn zeta.
  destruct (Nat.ltb lb size) eqn:E1.
  2:{ apply Nat.ltb_ge in E1. repeat split; cbn; auto. intros j Hj.
      symmetry. replace (Nat.leb lb j) with false by (symmetry; apply Nat.leb_gt; lia). reflexivity. }
  apply Nat.ltb_lt in E1.
  pose proof (scan_spec (fun i => negb (cons i)) (size - lb) lb) as S1. cbn zeta in S1.
  set (l := scan (fun i => negb (cons i)) lb (size - lb)) in *.
  destruct S1 as [L1 [L2 L3]].
  destruct (Nat.ltb l size) eqn:E2.
  2:{ apply Nat.ltb_ge in E2. repeat split; cbn; auto. intros j Hj.
      destruct (Nat.leb lb j) eqn:E3; [| reflexivity]. apply Nat.leb_le in E3.
      cbn. symmetry. apply negb_true_iff. apply L2. lia. }
  apply Nat.ltb_lt in E2.
  assert (Hl : cons l = true).
  { assert (negb (cons l) = false) by (apply L3; lia). apply negb_false_iff; assumption. }
  pose proof (scan_spec cons (size - (l + 1)) (l + 1)) as S2. cbn zeta in S2.
  set (u := scan cons (l + 1) (size - (l + 1))) in *.
  destruct S2 as [U1 [U2 U3]].
  assert (Hrec : (size - u < f)%nat) by lia.
  specialize (IH u Hrec). cbn zeta in IH. destruct IH as [C1 [C2 C3]].
  repeat split; cbn [chain fst snd]; try lia.
  - (* the next run starts strictly after u *)
    destruct (run_pairs f cons size u) as [| p ps'] eqn:EP; [exact I |].
    cbn [chain] in C1 |- *. destruct C1 as [D1 [D2 D3]].
    repeat split; try lia; try assumption.
    assert (fst p <> u).
    { intro Hc. assert (u < size)%nat by lia. rewrite Hc in C2. rewrite U3 in C2 by lia. discriminate. }
    lia.
  - exact Hl.
  - intros j Hj. unfold in_pairs. cbn [existsb fst snd]. fold (in_pairs (run_pairs f cons size u) j).
    rewrite C3 by assumption.
    destruct (Nat.leb_spec lb j) as [A1 | A1]; destruct (Nat.leb_spec l j) as [A2 | A2];
      destruct (Nat.ltb_spec j u) as [A3 | A3]; destruct (Nat.leb_spec u j) as [A4 | A4]; cbn [andb orb];
      try lia; try reflexivity.
    + (* l <= j < u *) symmetry. destruct (Nat.eq_dec j l); [subst; exact Hl | apply U2; lia].
    + (* lb <= j < l *) symmetry. apply negb_true_iff. apply L2. lia.
Qed.

Lemma chain_nf : forall roots ps lo,
  increasing roots -> chain (2 * length roots + 1) lo ps ->
  set_nf (map (fun p => run_interval T cmp roots (2 * length roots + 1) (fst p) (snd p)) ps) = true.
Proof.
  intros roots ps; induction ps as [| p ps IH]; intros lo Hs Hc; [reflexivity |].
  cbn [chain] in Hc. destruct Hc as [H1 [H2 H3]].
  cbn [map FeasSweep.set_nf].
  rewrite run_interval_wf by (auto; lia). rewrite (IH _ Hs H3). rewrite andb_true_r. cbn [andb].
  destruct ps as [| q ps']; [reflexivity |].
  cbn [map]. cbn [chain] in H3. destruct H3 as [G1 [G2 G3]].
  apply run_interval_before; auto; lia.
Qed.

Lemma existsb_map_in : forall (A B : Type) (f : A -> B) (g : B -> bool) (h : A -> bool) (l : list A),
  (forall x, In x l -> g (f x) = h x) -> existsb g (map f l) = existsb h l.
Proof.
  intros A B f g h; induction l as [| x l IH]; intro H; [reflexivity |].
  cbn [map existsb]. rewrite H by (left; reflexivity). rewrite IH; [reflexivity |].
  intros y Hy; apply H; right; exact Hy.
Qed.

Lemma chain_bounds : forall size ps lo p, chain size lo ps -> In p ps -> (fst p < snd p <= size)%nat.
Proof.
  intros size; induction ps as [| q ps IH]; intros lo p Hc Hin; [destruct Hin |].
  cbn [chain] in Hc. destruct Hc as [H1 [H2 H3]]. destruct Hin as [-> | Hin]; [lia |].
  eapply IH; eassumption.
Qed.

(* THE SWEEP, for an arbitrary cell predicate: the collected intervals contain v exactly when v's cell is
   consistent, they form a normal form, and the counting loop sized the result correctly *)
Theorem collect_runs_exact : forall roots cons,
  increasing roots ->
  let size := (2 * length roots + 1)%nat in
  let res := collect_runs T cmp (S size) roots cons size 0 in
  (forall v, set_contains res v = cons (cell_of roots v)) /\ set_nf res = true /\
  length res = count_runs (S size) cons size 0.
Proof.
  intros roots cons Hs size res. subst res.
  rewrite collect_runs_pairs, count_runs_pairs.
  destruct (run_pairs_spec cons size (S size) 0) as [C1 [_ C3]]; [lia |].
  split; [| split].
  - intro v. unfold FeasSweep.set_contains.
    pose proof (cell_of_bound roots v) as Hb.
    rewrite existsb_map_in with (h := fun p => Nat.leb (fst p) (cell_of roots v) && Nat.ltb (cell_of roots v) (snd p)).
    + fold (in_pairs (run_pairs (S size) cons size 0) (cell_of roots v)).
      rewrite C3 by (subst size; lia). reflexivity.
    + intros p Hp. pose proof (chain_bounds _ _ _ _ C1 Hp).
      apply run_interval_contains; auto.
  - eapply chain_nf; eassumption.
  - rewrite map_length. reflexivity.
Qed.


(* ---------------------------------------------------------------- the signs array *)
Lemma upd_length : forall (A : Type) (l : list A) k x, length (upd l k x) = length l.
Proof.
  intros A l; induction l as [| a l IH]; intros k x.
  - destruct k; reflexivity.
  - destruct k as [| k]; cbn; [reflexivity |]. f_equal. apply (IH k x).
Qed.

Lemma upd_nth : forall (A : Type) (l : list A) k x j d,
  nth j (upd l k x) d = if Nat.eqb j k && Nat.ltb k (length l) then x else nth j l d.
Proof.
  intros A l; induction l as [| a l IH]; intros k x j d.
  - destruct k; destruct j; cbn; try reflexivity. rewrite andb_false_r. reflexivity.
  - destruct k as [| k].
    + destruct j; cbn; reflexivity.
    + destruct j as [| j].
      * cbn. reflexivity.
      * change (upd (a :: l) (S k) x) with (a :: upd l k x). cbn [nth length].
        rewrite IH. reflexivity.
Qed.

Lemma signs_loop_spec : forall n sm k i s,
  length s = (2 * n + 1)%nat -> (i + k = n)%nat ->
  let R := signs_loop n i k sm s in
  length R = length s /\
  (forall m, (i <= m < n)%nat -> nth (2 * m + 1) R 0 = 0) /\
  (forall m, (i <= m)%nat -> (m + 1 < n)%nat -> nth (2 * m + 2) R 0 = sm m) /\
  (forall j, (j < 2 * i + 1)%nat \/ j = (2 * n)%nat -> nth j R 0 = nth j s 0).
Proof.
  intros n sm; induction k as [| k IH]; intros i s Hl Hik; cbn [signs_loop]; cbn zeta.
  - repeat split; intros; try lia; reflexivity.
  - set (s1 := upd s (2 * i + 1) 0).
    set (s2 := if Nat.ltb (i + 1) n then upd s1 (2 * i + 2) (sm i) else s1).
    assert (L1 : length s1 = length s) by apply upd_length.
    assert (L2 : length s2 = length s).
    { subst s2. destruct (Nat.ltb (i + 1) n); [rewrite upd_length |]; exact L1. }
    assert (N2 : forall j, nth j s2 0 =
               if Nat.eqb j (2 * i + 1) then 0
               else if Nat.eqb j (2 * i + 2) && Nat.ltb (i + 1) n then sm i else nth j s 0).
    { intro j. subst s2 s1. destruct (Nat.ltb_spec (i + 1) n) as [Hlt | Hge].
      - rewrite !upd_nth, upd_length.
        destruct (Nat.eqb_spec j (2 * i + 2)); destruct (Nat.eqb_spec j (2 * i + 1));
          destruct (Nat.ltb_spec (2 * i + 2) (length s)); destruct (Nat.ltb_spec (2 * i + 1) (length s));
          cbn [andb]; try lia; reflexivity.
      - rewrite upd_nth. rewrite andb_false_r.
        destruct (Nat.eqb_spec j (2 * i + 1)); destruct (Nat.ltb_spec (2 * i + 1) (length s));
          cbn [andb]; try lia; reflexivity. }
    specialize (IH (S i) s2). cbn zeta in IH.
    destruct IH as [A [B [C D]]]; [lia | lia |].
    split; [lia | split; [| split]].
    + intros m Hm. destruct (Nat.eq_dec m i) as [-> | Hne].
      * rewrite D by lia. rewrite N2. rewrite Nat.eqb_refl. reflexivity.
      * apply B; lia.
    + intros m Hm1 Hm2. destruct (Nat.eq_dec m i) as [-> | Hne].
      * rewrite D by lia. rewrite N2.
        replace (Nat.eqb (2 * i + 2) (2 * i + 1)) with false by (symmetry; apply Nat.eqb_neq; lia).
        rewrite Nat.eqb_refl. replace (Nat.ltb (i + 1) n) with true by (symmetry; apply Nat.ltb_lt; lia).
        reflexivity.
      * apply C; lia.
    + intros j Hj. rewrite D by lia. rewrite N2.
      replace (Nat.eqb j (2 * i + 1)) with false by (symmetry; apply Nat.eqb_neq; lia).
      destruct (Nat.eqb_spec j (2 * i + 2)); destruct (Nat.ltb_spec (i + 1) n); cbn [andb]; try reflexivity; lia.
Qed.

Lemma build_signs_spec : forall n degree sgn_lc sm,
  let S := build_signs n degree sgn_lc sm in
  length S = (2 * n + 1)%nat /\
  (forall m, (m < n)%nat -> nth (2 * m + 1) S 0 = 0) /\
  (forall m, (m + 1 < n)%nat -> nth (2 * m + 2) S 0 = sm m) /\
  nth (2 * n) S 0 = sgn_lc /\
  ((0 < n)%nat -> nth 0 S 0 = if Nat.odd degree then - sgn_lc else sgn_lc).
Proof.
  intros n degree sgn_lc sm. unfold build_signs. cbn zeta.
  set (s0 := repeat 0 (2 * n + 1)).
  set (s1 := upd s0 0 (if Nat.odd degree then - sgn_lc else sgn_lc)).
  set (s2 := upd s1 (2 * n + 1 - 1) sgn_lc).
  assert (L0 : length s0 = (2 * n + 1)%nat) by apply repeat_length.
  assert (L1 : length s1 = (2 * n + 1)%nat) by (subst s1; rewrite upd_length; exact L0).
  assert (L2 : length s2 = (2 * n + 1)%nat) by (subst s2; rewrite upd_length; exact L1).
  destruct (signs_loop_spec n sm n 0 s2 L2 ltac:(lia)) as [A [B [C D]]].
  split; [lia | split; [| split; [| split]]].
  - intros m Hm; apply B; lia.
  - intros m Hm; apply C; lia.
  - rewrite D by lia. subst s2. rewrite upd_nth.
    replace (Nat.eqb (2 * n) (2 * n + 1 - 1)) with true by (symmetry; apply Nat.eqb_eq; lia).
    replace (Nat.ltb (2 * n + 1 - 1) (length s1)) with true by (symmetry; apply Nat.ltb_lt; lia).
    reflexivity.
  - intro Hn. rewrite D by lia. subst s2. rewrite upd_nth.
    replace (Nat.eqb 0 (2 * n + 1 - 1)) with false by (symmetry; apply Nat.eqb_neq; lia).
    cbn [andb]. subst s1. rewrite upd_nth. rewrite L0.
    replace (Nat.ltb 0 (2 * n + 1)) with true by (symmetry; apply Nat.ltb_lt; lia). reflexivity.
Qed.

(* ---------------------------------------------------------------- cells and ranks *)
Definition is_lt (c : comparison) : bool := match c with Lt => true | _ => false end.
(* number of listed roots strictly below v *)
Definition rank (roots : list T) (v : T) : nat := length (filter (fun r => is_lt (cmp r v)) roots).

Lemma rank_zero : forall roots v, Forall (fun r => lt v r) roots -> rank roots v = O /\ ~ In v roots.
Proof.
  induction roots as [| r rs IH]; intros v H; [split; [reflexivity | intros []] |].
  inversion H as [| ? ? H1 H2]; subst. destruct (IH v H2) as [A B].
  unfold rank in *. cbn [filter].
  assert (cmp r v = Gt) as -> by (apply cmp_gt_lt; exact H1). cbn [is_lt].
  split; [exact A |]. intros [E | E]; [| exact (B E)].
  subst. unfold lt in H1. rewrite cmp_refl in H1. discriminate.
Qed.

Lemma cell_of_rank : forall roots v, increasing roots ->
  (In v roots -> cell_of roots v = (2 * rank roots v + 1)%nat) /\
  (~ In v roots -> cell_of roots v = (2 * rank roots v)%nat).
Proof.
  induction roots as [| r rs IH]; intros v Hs.
  - split; [intros [] | reflexivity].
  - inversion Hs as [| ? ? Hs' Hall]; subst. cbn [cell_of].
    destruct (cmp v r) eqn:E.
    + apply (cmp_eq_iff _ TO) in E; subst v.
      destruct (rank_zero rs r Hall) as [R0 Hn].
      unfold rank in *. cbn [filter]. rewrite cmp_refl. cbn [is_lt]. rewrite R0.
      split; [reflexivity |]. intro H; exfalso; apply H; left; reflexivity.
    + assert (Hall' : Forall (fun x => lt v x) rs).
      { rewrite Forall_forall in *. intros x Hx. eapply (cmp_lt_trans _ TO); [exact E | apply Hall; exact Hx]. }
      destruct (rank_zero rs v Hall') as [R0 Hn].
      unfold rank in *. cbn [filter].
      assert (cmp r v = Gt) as -> by (apply cmp_gt_lt; exact E). cbn [is_lt]. rewrite R0.
      split; [| reflexivity]. intros [H | H]; [| exfalso; exact (Hn H)].
      subst. rewrite cmp_refl in E. discriminate.
    + destruct (IH v Hs') as [A B].
      assert (Hrv : cmp r v = Lt) by (apply cmp_gt_lt; exact E).
      unfold rank in *. cbn [filter]. rewrite Hrv. cbn [is_lt length].
      split; intro H.
      * destruct H as [H | H]; [subst; rewrite cmp_refl in E; discriminate |].
        rewrite (A H). lia.
      * rewrite B; [lia |]. intro H'; apply H; right; exact H'.
Qed.

Lemma in_dec_cmp : forall (roots : list T) (v : T), {In v roots} + {~ In v roots}.
Proof.
  induction roots as [| r rs IH]; intro v; [right; intros [] |].
  destruct (cmp v r) eqn:E.
  - left; left; symmetry; apply (cmp_eq_iff _ TO); exact E.
  - destruct (IH v) as [H | H]; [left; right; exact H | right].
    intros [H' | H']; [subst; rewrite cmp_refl in E; discriminate | exact (H H')].
  - destruct (IH v) as [H | H]; [left; right; exact H | right].
    intros [H' | H']; [subst; rewrite cmp_refl in E; discriminate | exact (H H')].
Qed.

Lemma rank_le_length : forall (roots : list T) v, (rank roots v <= length roots)%nat.
Proof.
  intros roots v; unfold rank. induction roots as [| r rs IH]; cbn [filter length]; [lia |].
  destruct (is_lt (cmp r v)); cbn [length]; lia.
Qed.

(* what the oracle must deliver: the exact sign at the roots, on the open cells, and beyond the extreme roots *)
Definition oracle_ok (roots : list T) (degree : nat) (sgn_lc : Z) (sign_mid : nat -> Z)
           (sgnA : T -> Z) (cell : nat -> Z) : Prop :=
  (forall r, In r roots -> sgnA r = 0) /\
  (forall v, ~ In v roots -> sgnA v = cell (rank roots v)) /\
  cell (length roots) = sgn_lc /\
  (roots <> [] -> cell O = if Nat.odd degree then - sgn_lc else sgn_lc) /\
  (forall i, (i + 1 < length roots)%nat -> sign_mid i = cell (i + 1)%nat).

Lemma signs_at_cell : forall roots degree sgn_lc sign_mid sgnA cell v,
  increasing roots -> oracle_ok roots degree sgn_lc sign_mid sgnA cell ->
  nth (cell_of roots v) (build_signs (length roots) degree sgn_lc sign_mid) 0 = sgnA v.
Proof.
  intros roots degree sgn_lc sign_mid sgnA cell v Hs [O1 [O2 [O3 [O4 O5]]]].
  destruct (build_signs_spec (length roots) degree sgn_lc sign_mid) as [_ [B1 [B2 [B3 B4]]]].
  destruct (cell_of_rank roots v Hs) as [CR1 CR2].
  pose proof (cell_of_bound roots v) as Hb.
  pose proof (rank_le_length roots v) as Hr.
  destruct (in_dec_cmp roots v) as [Hin | Hnin].
  - rewrite (CR1 Hin) in *. rewrite B1 by lia. symmetry; apply O1; exact Hin.
  - rewrite (CR2 Hnin) in *. rewrite (O2 v Hnin).
    remember (rank roots v) as k.
    destruct (Nat.eq_dec k (length roots)) as [E | E].
    + rewrite E. rewrite B3. symmetry; exact O3.
    + destruct k as [| k].
      * change (2 * 0)%nat with O. rewrite B4 by lia. symmetry; apply O4. intro H; rewrite H in *; cbn in *; lia.
      * replace (2 * S k)%nat with (2 * k + 2)%nat by lia. rewrite B2 by lia.
        rewrite O5 by lia. f_equal; lia.
Qed.

(* ---------------------------------------------------------------- C12: lp_polynomial_constraint_get_feasible_set *)
Lemma full_interval_contains : forall v, iv_contains (full_interval T cmp) v = true.
Proof. intro v; unfold FeasSweep.full_interval; rewrite mk_interval_contains; reflexivity. Qed.
Lemma full_interval_wf : iv_wf (full_interval T cmp) = true.
Proof. unfold FeasSweep.full_interval; apply mk_interval_wf_lt; reflexivity. Qed.

Theorem constraint_feasible_set_exact :
  forall roots degree sgn_const sgn_lc sign_mid sc negated (sgnA : T -> Z) (cell : nat -> Z),
  increasing roots ->
  (degree = O -> forall v, sgnA v = sgn_const) ->
  (degree <> O -> oracle_ok roots degree sgn_lc sign_mid sgnA cell) ->
  let res := constraint_feasible_set T cmp roots degree sgn_const sgn_lc sign_mid sc negated in
  (forall v, set_contains res v = xorb negated (sc_consistent sc (sgnA v))) /\ set_nf res = true.
Proof.
  intros roots degree sgn_const sgn_lc sign_mid sc negated sgnA cell Hs H0 H1 res. subst res.
  unfold constraint_feasible_set.
  assert (SC : forall s, sc_consistent (if negated then sc_negate sc else sc) s = xorb negated (sc_consistent sc s)).
  { intro s; destruct negated; [apply sc_negate_consistent | symmetry; apply xorb_false_l]. }
  destruct (Nat.eqb_spec degree 0) as [E | E].
  - rewrite SC. split.
    + intro v. rewrite (H0 E v).
      destruct (xorb negated (sc_consistent sc sgn_const)); [| reflexivity].
      cbn [FeasSweep.set_contains existsb]. rewrite full_interval_contains. reflexivity.
    + destruct (xorb negated (sc_consistent sc sgn_const)); [| reflexivity].
      cbn [FeasSweep.set_nf]. rewrite full_interval_wf. reflexivity.
  - specialize (H1 E).
    destruct (collect_runs_exact roots
                (fun i => sc_consistent (if negated then sc_negate sc else sc)
                            (nth i (build_signs (length roots) degree sgn_lc sign_mid) 0)) Hs) as [A [B _]].
    split; [| exact B].
    intro v. rewrite A. rewrite SC. erewrite signs_at_cell; eauto.
Qed.

Theorem constraint_feasible_count_exact : forall roots degree sgn_const sgn_lc sign_mid sc negated,
  increasing roots -> degree <> O ->
  length (constraint_feasible_set T cmp roots degree sgn_const sgn_lc sign_mid sc negated)
  = constraint_feasible_count (length roots) degree sgn_lc sign_mid sc negated.
Proof.
  intros roots degree sgn_const sgn_lc sign_mid sc negated Hs Hd.
  unfold constraint_feasible_set, constraint_feasible_count.
  replace (Nat.eqb degree 0) with false by (symmetry; apply Nat.eqb_neq; exact Hd).
  destruct (collect_runs_exact roots
              (fun i => sc_consistent (if negated then sc_negate sc else sc)
                          (nth i (build_signs (length roots) degree sgn_lc sign_mid) 0)) Hs) as [_ [_ C]].
  exact C.
Qed.


(* ---------------------------------------------------------------- C12: root constraints and evaluators *)
Lemma above_lower_neginf : forall v, above_lower NegInf true v = true.
Proof. reflexivity. Qed.
Lemma below_upper_posinf : forall v, below_upper PosInf true v = true.
Proof. reflexivity. Qed.

Theorem root_constraint_feasible_set_exact : forall roots degree k sc negated,
  increasing roots -> (degree = O -> roots = []) ->
  let res := root_constraint_feasible_set T cmp roots degree k sc negated in
  (forall v, set_contains res v = xorb negated (root_constraint_evaluate T cmp roots k sc v)) /\
  set_nf res = true.
Proof.
  intros roots degree k sc negated Hs H0 res. subst res.
  unfold root_constraint_feasible_set, root_constraint_evaluate.
  assert (Hnone1 : forall v : T, set_contains (if negb negated then [] else [full_interval T cmp]) v = xorb negated false).
  { intro v. destruct negated; cbn [negb xorb FeasSweep.set_contains existsb]; [| reflexivity].
    rewrite full_interval_contains. reflexivity. }
  assert (Hnone2 : set_nf (if negb negated then [] else [full_interval T cmp]) = true).
  { destruct negated; cbn [negb FeasSweep.set_nf]; [| reflexivity]. rewrite full_interval_wf. reflexivity. }
  destruct (Nat.eqb_spec degree 0) as [E | E].
  { rewrite (H0 E). replace (nth_error (@nil T) k) with (@None T) by (destruct k; reflexivity).
    split; [exact Hnone1 | exact Hnone2]. }
  destruct (Nat.leb_spec (length roots) k) as [L | L].
  { replace (nth_error roots k) with (@None T) by (symmetry; apply nth_error_None; exact L).
    split; [exact Hnone1 | exact Hnone2]. }
  destruct (root_at_some roots k L) as [r [Hn Hr]]. rewrite Hn, Hr.
  assert (SC : forall s, xorb negated (sc_consistent sc s) = sc_consistent (if negated then sc_negate sc else sc) s).
  { intro s; destruct negated; [symmetry; apply sc_negate_consistent | apply xorb_false_l]. }
  split.
  - intro v. rewrite SC.
    destruct (if negated then sc_negate sc else sc);
      cbn [FeasSweep.set_contains existsb FeasSweep.mk_point FeasSweep.iv_contains];
      rewrite ?mk_interval_contains, ?above_lower_neginf, ?below_upper_posinf,
              ?above_lower_fin_closed, ?above_lower_fin_open, ?below_upper_fin_closed, ?below_upper_fin_open;
      cbn [FeasSweep.ext_cmp]; try rewrite (cmp_antisym _ TO v r);
      destruct (cmp v r); reflexivity.
  - destruct (if negated then sc_negate sc else sc);
      cbn [FeasSweep.set_nf FeasSweep.mk_point FeasSweep.iv_wf];
      rewrite ?mk_interval_wf_lt by (try reflexivity; try discriminate); try reflexivity.
    (* SC_NE: the two intervals touch at the excluded root *)
    unfold FeasSweep.iv_before. rewrite mk_interval_upper, mk_interval_lower, mk_interval_upper_open, mk_interval_lower_open.
    rewrite ext_cmp_refl. reflexivity.
Qed.

(* evaluator = membership of the assigned value in the non-negated feasible set *)
Theorem constraint_evaluate_agree :
  forall roots degree sgn_const sgn_lc sign_mid sc (sgnA : T -> Z) (cell : nat -> Z),
  increasing roots ->
  (degree = O -> forall v, sgnA v = sgn_const) ->
  (degree <> O -> oracle_ok roots degree sgn_lc sign_mid sgnA cell) ->
  forall v, constraint_evaluate sc (sgnA v)
            = set_contains (constraint_feasible_set T cmp roots degree sgn_const sgn_lc sign_mid sc false) v.
Proof.
  intros roots degree sgn_const sgn_lc sign_mid sc sgnA cell Hs H0 H1 v.
  destruct (constraint_feasible_set_exact roots degree sgn_const sgn_lc sign_mid sc false sgnA cell Hs H0 H1) as [A _].
  rewrite A. unfold constraint_evaluate. symmetry; apply xorb_false_l.
Qed.

Theorem root_constraint_evaluate_agree : forall roots degree k sc,
  increasing roots -> (degree = O -> roots = []) ->
  forall v, root_constraint_evaluate T cmp roots k sc v
            = set_contains (root_constraint_feasible_set T cmp roots degree k sc false) v.
Proof.
  intros roots degree k sc Hs H0 v.
  destruct (root_constraint_feasible_set_exact roots degree k sc false Hs H0) as [A _].
  rewrite A. symmetry; apply xorb_false_l.
Qed.


(* ---------------------------------------------------------------- C12: the complement sweep (infeasible_regions) *)
Lemma ext_lt_le_trans : forall a b c : ext, ext_cmp a b = Lt -> ext_cmp b c <> Gt -> ext_cmp a c = Lt.
Proof.
  intros a b c H1 H2. destruct (ext_cmp b c) eqn:E; [| | congruence].
  - apply ext_cmp_eq_iff in E; subst; exact H1.
  - eapply ext_cmp_lt_trans; eassumption.
Qed.
Lemma ext_le_lt_trans : forall a b c : ext, ext_cmp a b <> Gt -> ext_cmp b c = Lt -> ext_cmp a c = Lt.
Proof.
  intros a b c H1 H2. destruct (ext_cmp a b) eqn:E; [| | congruence].
  - apply ext_cmp_eq_iff in E; subst; exact H2.
  - eapply ext_cmp_lt_trans; eassumption.
Qed.
Lemma ext_lt_irrefl : forall a : ext, ext_cmp a a <> Lt.
Proof. intro a; rewrite ext_cmp_refl; discriminate. Qed.

(* the two bounds in terms of one comparison c = ext_cmp a (Finite v) *)
Lemma above_lower_alt : forall a o v,
  above_lower a o v = match ext_cmp a (Finite v) with Lt => true | Eq => negb o | Gt => false end.
Proof. reflexivity. Qed.
Lemma below_upper_alt : forall b o v,
  below_upper b o v = match ext_cmp b (Finite v) with Gt => true | Eq => negb o | Lt => false end.
Proof.
  intros; unfold FeasSweep.below_upper. rewrite (ext_cmp_antisym b (Finite v)).
  destruct (ext_cmp b (Finite v)); reflexivity.
Qed.

Lemma below_upper_compl : forall a o v, below_upper a (negb o) v = negb (above_lower a o v).
Proof.
  intros; rewrite below_upper_alt, above_lower_alt. destruct (ext_cmp a (Finite v)); destruct o; reflexivity.
Qed.
Lemma above_lower_compl : forall a o v, above_lower a (negb o) v = negb (below_upper a o v).
Proof.
  intros; rewrite below_upper_alt, above_lower_alt. destruct (ext_cmp a (Finite v)); destruct o; reflexivity.
Qed.

Lemma iv_contains_bounds : forall (I : interval) v,
  iv_contains I v = above_lower (iv_lower T I) (iv_lower_open T I) v && below_upper (iv_upper T I) (iv_upper_open T I) v.
Proof.
  intros [a | a ao b bo] v; cbn [FeasSweep.iv_contains iv_lower iv_lower_open iv_upper iv_upper_open]; [| reflexivity].
  rewrite below_upper_alt, above_lower_alt. destruct (ext_cmp a (Finite v)); reflexivity.
Qed.

Lemma above_lower_mono : forall a b o o' v,
  ext_cmp a b = Lt -> above_lower b o' v = true -> above_lower a o v = true.
Proof.
  intros a b o o' v H1 H2. rewrite above_lower_alt in *.
  destruct (ext_cmp b (Finite v)) eqn:E; try discriminate.
  - apply ext_cmp_eq_iff in E; subst b. rewrite H1; reflexivity.
  - rewrite (ext_cmp_lt_trans _ _ _ H1 E); reflexivity.
Qed.
Lemma above_lower_weaken : forall a o v, above_lower a true v = true -> above_lower a o v = true.
Proof. intros a o v; rewrite !above_lower_alt; destruct (ext_cmp a (Finite v)); cbn; congruence. Qed.

Lemma iv_wf_lower_le_upper : forall I : interval, iv_wf I = true -> ext_cmp (iv_lower T I) (iv_upper T I) <> Gt.
Proof.
  intros [a | a ao b bo] H; cbn [iv_lower iv_upper].
  - rewrite ext_cmp_refl; discriminate.
  - cbn [FeasSweep.iv_wf] in H. destruct (ext_cmp a b); cbn in H; discriminate.
Qed.

(* f2: a value that is not above the lower end of a well-formed interval is below its upper end *)
Lemma iv_wf_below : forall (I : interval) v, iv_wf I = true ->
  above_lower (iv_lower T I) (iv_lower_open T I) v = false -> below_upper (iv_upper T I) (iv_upper_open T I) v = true.
Proof.
  intros [a | a ao b bo] v H; cbn [iv_lower iv_lower_open iv_upper iv_upper_open].
  - rewrite below_upper_alt, above_lower_alt. destruct (ext_cmp a (Finite v)); cbn; congruence.
  - cbn [FeasSweep.iv_wf] in H. destruct (ext_cmp a b) eqn:E; try discriminate.
    rewrite below_upper_alt, above_lower_alt. intro H1.
    assert (Hva : ext_cmp (Finite v) a <> Gt).
    { rewrite (ext_cmp_antisym a (Finite v)). destruct (ext_cmp a (Finite v)); cbn; try discriminate. }
    assert (Hvb : ext_cmp (Finite v) b = Lt) by (eapply ext_le_lt_trans; eassumption).
    rewrite (ext_cmp_antisym (Finite v) b), Hvb. reflexivity.
Qed.

Lemma set_nf_cons : forall (I : interval) s, set_nf (I :: s) = true ->
  iv_wf I = true /\ set_nf s = true /\ match s with [] => True | J :: _ => iv_before I J = true end.
Proof.
  intros I s H. cbn [FeasSweep.set_nf] in H. apply andb_prop in H; destruct H as [H H3].
  apply andb_prop in H; destruct H as [H1 H2]. repeat split; auto. destruct s; auto.
Qed.

(* f1: everything after an interval of a normal form lies beyond that interval's upper end *)
Lemma nf_rest_beyond : forall rest (cur : interval) v,
  set_nf (cur :: rest) = true -> set_contains rest v = true ->
  below_upper (iv_upper T cur) (iv_upper_open T cur) v = false.
Proof.
  induction rest as [| J rest IH]; intros cur v Hnf Hin; [discriminate |].
  apply set_nf_cons in Hnf. destruct Hnf as [Hw [Hnf' Hb]].
  pose proof (set_nf_cons _ _ Hnf') as [HwJ _].
  cbn [FeasSweep.set_contains existsb] in Hin.
  (* in both cases: the lower end of J is at or below v *)
  assert (HJ : above_lower (iv_lower T J) (iv_lower_open T J) v = true).
  { apply orb_prop in Hin. destruct Hin as [Hin | Hin].
    - rewrite iv_contains_bounds in Hin. apply andb_prop in Hin. tauto.
    - specialize (IH J v Hnf' Hin).
      destruct (above_lower (iv_lower T J) (iv_lower_open T J) v) eqn:E; [reflexivity |].
      rewrite (iv_wf_below J v HwJ E) in IH. discriminate. }
  unfold FeasSweep.iv_before in Hb.
  rewrite below_upper_alt. rewrite above_lower_alt in HJ.
  destruct (ext_cmp (iv_upper T cur) (iv_lower T J)) eqn:E; try discriminate.
  - apply ext_cmp_eq_iff in E. rewrite <- E in HJ. apply andb_prop in Hb. destruct Hb as [Hb1 Hb2].
    rewrite Hb1, Hb2 in *. destruct (ext_cmp (iv_upper T cur) (Finite v)); cbn in *; congruence.
  - destruct (ext_cmp (iv_lower T J) (Finite v)) eqn:F; try discriminate.
    + apply ext_cmp_eq_iff in F. rewrite <- F. rewrite E. reflexivity.
    + rewrite (ext_cmp_lt_trans _ _ _ E F). reflexivity.
Qed.

(* the state of the complement sweep in front of the remaining intervals *)
Definition compl_guard (lv : ext) (lo : bool) (s : list interval) : Prop :=
  (lv = NegInf -> lo = false) /\
  match s with
  | [] => True
  | cur :: _ =>
    (iv_lower T cur = NegInf /\ lv = NegInf) \/
    ext_cmp lv (iv_lower T cur) = Lt \/
    (lv = iv_lower T cur /\ lo = true /\ iv_lower_open T cur = true)
  end.

Definition iv_upper_pair (I : interval) : ext * bool :=
  match I with IPoint a => (a, false) | IIv _ _ b bo => (b, bo) end.
Lemma iv_upper_pair_eq : forall I, iv_upper_pair I = (iv_upper T I, iv_upper_open T I).
Proof. intros [a | a ao b bo]; reflexivity. Qed.

Lemma infeasible_loop_cons : forall cur rest lv lo,
  infeasible_loop T cmp (cur :: rest) lv lo =
  (match iv_lower T cur with
   | NegInf => []
   | _ => match ext_cmp lv (iv_lower T cur) with
          | Lt => [mk_interval lv (negb lo) (iv_lower T cur) (negb (iv_lower_open T cur))]
          | Eq => if lo && iv_lower_open T cur then [mk_point T lv] else []
          | Gt => []
          end
   end) ++ infeasible_loop T cmp rest (iv_upper T cur) (iv_upper_open T cur).
Proof. intros [a | a ao b bo] rest lv lo; reflexivity. Qed.

Lemma compl_guard_next : forall cur rest,
  set_nf (cur :: rest) = true -> compl_guard (iv_upper T cur) (iv_upper_open T cur) rest.
Proof.
  intros cur rest Hnf. apply set_nf_cons in Hnf. destruct Hnf as [Hw [_ Hb]].
  split.
  - intro E. exfalso. pose proof (iv_wf_lower_le_upper cur Hw) as Hle. rewrite E in Hle.
    destruct cur as [a | a ao b bo]; cbn [iv_lower iv_upper] in *.
    + subst a. discriminate.
    + subst b. cbn in Hw. destruct a; cbn in Hw; discriminate.
  - destruct rest as [| J rest]; [exact I |].
    unfold FeasSweep.iv_before in Hb.
    destruct (ext_cmp (iv_upper T cur) (iv_lower T J)) eqn:E; try discriminate.
    + right; right. apply ext_cmp_eq_iff in E. apply andb_prop in Hb. tauto.
    + right; left; reflexivity.
Qed.

(* f3 + f4: what the sweep emits in front of `cur` is exactly the gap between the state and `cur` *)
Lemma region_spec : forall (cur : interval) lv lo v,
  iv_wf cur = true -> compl_guard lv lo [cur] ->
  let AL := above_lower (iv_lower T cur) (iv_lower_open T cur) v in
  let B := above_lower lv (negb lo) v in
  set_contains (match iv_lower T cur with
   | NegInf => []
   | _ => match ext_cmp lv (iv_lower T cur) with
          | Lt => [mk_interval lv (negb lo) (iv_lower T cur) (negb (iv_lower_open T cur))]
          | Eq => if lo && iv_lower_open T cur then [mk_point T lv] else []
          | Gt => []
          end
   end) v = B && negb AL
  /\ (AL = true -> B = true).
Proof.
  intros cur lv lo v Hw [G0 G] AL B. subst AL B.
  assert (Hninf : iv_lower T cur = NegInf -> iv_lower_open T cur = true).
  { destruct cur as [a | a ao b bo]; cbn [iv_lower iv_lower_open]; intro E; subst; cbn in Hw; [discriminate |].
    destruct ao; [reflexivity |]. destruct b; cbn in Hw; discriminate. }
  destruct (iv_lower T cur) as [| t |] eqn:EL.
  - (* lower = -inf *)
    rewrite (Hninf eq_refl). cbn [FeasSweep.set_contains existsb].
    rewrite (above_lower_alt NegInf true v). cbn [FeasSweep.ext_cmp negb]. rewrite andb_false_r.
    split; [reflexivity |]. intros _.
    destruct G as [[_ G] | [G | [G _]]]; try (subst lv; rewrite (G0 eq_refl); reflexivity).
    destruct lv; cbn in G; discriminate.
  - destruct G as [[G _] | [G | [G1 [G2 G3]]]]; [discriminate | |].
    + rewrite G. cbn [FeasSweep.set_contains existsb]. rewrite orb_false_r.
      rewrite mk_interval_contains, below_upper_compl. split; [reflexivity |].
      intro H. eapply above_lower_mono; eassumption.
    + subst lv lo. rewrite G3. rewrite ext_cmp_refl. cbn [andb FeasSweep.set_contains existsb FeasSweep.mk_point FeasSweep.iv_contains negb].
      rewrite !above_lower_alt. destruct (ext_cmp (Finite t) (Finite v)); cbn; split; congruence.
  - (* lower = +inf is not well formed *)
    exfalso. destruct cur as [a | a ao b bo]; cbn [iv_lower] in EL; subst; cbn in Hw; [discriminate |].
    destruct b; cbn in Hw; discriminate.
Qed.

Lemma set_contains_app : forall (a b : list interval) v, set_contains (a ++ b) v = set_contains a v || set_contains b v.
Proof. intros; unfold FeasSweep.set_contains; apply existsb_app. Qed.
Lemma set_contains_cons : forall (I : interval) s v, set_contains (I :: s) v = iv_contains I v || set_contains s v.
Proof. reflexivity. Qed.

Theorem infeasible_loop_exact : forall s lv lo,
  set_nf s = true -> compl_guard lv lo s ->
  forall v, set_contains (infeasible_loop T cmp s lv lo) v = above_lower lv (negb lo) v && negb (set_contains s v).
Proof.
  induction s as [| cur rest IH]; intros lv lo Hnf HG v.
  - cbn [infeasible_loop FeasSweep.set_contains existsb negb]. rewrite andb_true_r.
    destruct lv; cbn [FeasSweep.set_contains existsb]; rewrite ?mk_interval_contains, ?orb_false_r;
      try (rewrite below_upper_posinf, andb_true_r; reflexivity).
    reflexivity.
  - rewrite infeasible_loop_cons.
    pose proof (set_nf_cons _ _ Hnf) as [Hw [Hnf' _]].
    assert (HG1 : compl_guard lv lo [cur]) by (destruct HG as [G0 G]; split; assumption).
    destruct (region_spec cur lv lo v Hw HG1) as [R3 R4]. cbn zeta in R3, R4.
    rewrite set_contains_app, R3.
    rewrite (IH _ _ Hnf' (compl_guard_next cur rest Hnf) v).
    rewrite (set_contains_cons cur rest v). rewrite iv_contains_bounds.
    rewrite (above_lower_compl (iv_upper T cur) (iv_upper_open T cur) v).
    pose proof (iv_wf_below cur v Hw) as F2.
    pose proof (nf_rest_beyond rest cur v Hnf) as F1.
    destruct (above_lower (iv_lower T cur) (iv_lower_open T cur) v) eqn:AL.
    + rewrite (R4 eq_refl). cbn [negb andb orb].
      destruct (below_upper (iv_upper T cur) (iv_upper_open T cur) v); reflexivity.
    + rewrite (F2 eq_refl) in *. cbn [negb andb orb].
      destruct (set_contains rest v) eqn:R; [specialize (F1 eq_refl); discriminate |].
      cbn [negb]. rewrite andb_true_r, orb_false_r. reflexivity.
Qed.


(* normal form of the complement *)
Definition starts_after (lv : ext) (lo : bool) (res : list interval) : Prop :=
  match res with
  | [] => True
  | J :: _ => ext_cmp lv (iv_lower T J) = Lt \/ (lv = iv_lower T J /\ iv_lower_open T J = negb lo)
  end.

Lemma iv_wf_cases : forall I : interval, iv_wf I = true ->
  (ext_cmp (iv_lower T I) (iv_upper T I) = Lt /\ iv_upper T I <> NegInf /\ iv_lower T I <> PosInf) \/
  (exists t, I = IPoint (Finite t)).
Proof.
  intros [a | a ao b bo] H.
  - right. destruct a; cbn in H; try discriminate. eexists; reflexivity.
  - left. cbn [FeasSweep.iv_wf] in H. cbn [iv_lower iv_upper].
    destruct (ext_cmp a b) eqn:E; cbn in H; try discriminate.
    split; [reflexivity |]. split; intro; subst; [destruct a | destruct b]; cbn in E; discriminate.
Qed.

Lemma set_nf_cons_intro : forall (I : interval) s,
  iv_wf I = true -> set_nf s = true -> match s with [] => True | J :: _ => iv_before I J = true end ->
  set_nf (I :: s) = true.
Proof.
  intros I s H1 H2 H3. cbn [FeasSweep.set_nf]. rewrite H1, H2. destruct s; [reflexivity |]. rewrite H3. reflexivity.
Qed.

Theorem infeasible_loop_nf : forall s lv lo,
  set_nf s = true -> compl_guard lv lo s ->
  set_nf (infeasible_loop T cmp s lv lo) = true /\ starts_after lv lo (infeasible_loop T cmp s lv lo).
Proof.
  induction s as [| cur rest IH]; intros lv lo Hnf [G0 G].
  - cbn [infeasible_loop].
    destruct lv as [| t |].
    + split.
      * cbn [FeasSweep.set_nf]. rewrite mk_interval_wf_lt; try reflexivity. intros _. rewrite (G0 eq_refl). reflexivity.
      * cbn [starts_after]. right. rewrite mk_interval_lower, mk_interval_lower_open. split; reflexivity.
    + split.
      * cbn [FeasSweep.set_nf]. rewrite mk_interval_wf_lt; try reflexivity. discriminate.
      * cbn [starts_after]. right. rewrite mk_interval_lower, mk_interval_lower_open. split; reflexivity.
    + split; [reflexivity | exact I].
  - rewrite infeasible_loop_cons.
    pose proof (set_nf_cons _ _ Hnf) as [Hw [Hnf' _]].
    destruct (IH _ _ Hnf' (compl_guard_next cur rest Hnf)) as [N S].
    set (rec := infeasible_loop T cmp rest (iv_upper T cur) (iv_upper_open T cur)) in *.
    (* the first interval of the rest of the complement starts at or after the upper end of cur *)
    assert (Hup : forall a : ext, ext_cmp a (iv_upper T cur) = Lt ->
                  match rec with [] => True | H :: _ => ext_cmp a (iv_lower T H) = Lt end).
    { intros a Ha. destruct rec as [| H rec']; [exact I |]. cbn [starts_after] in S.
      destruct S as [S | [S _]]; [eapply ext_cmp_lt_trans; eassumption | rewrite <- S; exact Ha]. }
    destruct (iv_wf_cases cur Hw) as [[Wlt [Wu Wl]] | [t Wp]].
    + (* cur is a proper interval *)
      destruct (iv_lower T cur) as [| t |] eqn:EL.
      * (* starts at -inf: nothing emitted *)
        cbn [app]. split; [exact N |].
        assert (lv = NegInf).
        { destruct G as [[_ G] | [G | [G _]]]; auto. destruct lv; cbn in G; discriminate. }
        subst lv. specialize (Hup NegInf Wlt). destruct rec as [| H rec']; [exact I |]. left; exact Hup.
      * destruct G as [[G _] | [G | [G1 [G2 G3]]]]; [discriminate | |].
        -- rewrite G. cbn [app]. split.
           ++ apply set_nf_cons_intro; [| exact N |].
              ** apply mk_interval_wf_lt; [exact G | | discriminate].
                 intro E; rewrite (G0 E); reflexivity.
              ** specialize (Hup (Finite t) Wlt). destruct rec as [| H rec']; [exact I |].
                 unfold FeasSweep.iv_before. rewrite mk_interval_upper. rewrite Hup. reflexivity.
           ++ cbn [starts_after]. right. rewrite mk_interval_lower, mk_interval_lower_open. split; reflexivity.
        -- subst lv lo. rewrite G3. rewrite ext_cmp_refl. cbn [andb app]. split.
           ++ apply set_nf_cons_intro; [reflexivity | exact N |].
              specialize (Hup (Finite t) Wlt). destruct rec as [| H rec']; [exact I |].
              unfold FeasSweep.iv_before. cbn [FeasSweep.mk_point iv_upper]. rewrite Hup. reflexivity.
           ++ cbn [starts_after FeasSweep.mk_point iv_lower iv_lower_open]. right. split; reflexivity.
      * exfalso; apply Wl; reflexivity.
    + (* cur is a point *)
      subst cur. cbn [iv_lower iv_lower_open iv_upper iv_upper_open] in *.
      destruct G as [[G _] | [G | [_ [_ G3]]]]; [discriminate | | discriminate].
      rewrite G. cbn [app negb]. split.
      * apply set_nf_cons_intro; [| exact N |].
        -- apply mk_interval_wf_lt; [exact G | | discriminate].
           intro E; rewrite (G0 E); reflexivity.
        -- destruct rec as [| H rec']; [exact I |]. cbn [starts_after] in S.
           unfold FeasSweep.iv_before. rewrite mk_interval_upper, mk_interval_upper_open.
           destruct S as [S | [S1 S2]].
           ++ rewrite S. reflexivity.
           ++ rewrite <- S1. rewrite ext_cmp_refl. rewrite S2. reflexivity.
      * cbn [starts_after]. right. rewrite mk_interval_lower, mk_interval_lower_open. split; reflexivity.
Qed.

Theorem infeasible_regions_exact : forall s,
  set_nf s = true ->
  (forall v, set_contains (infeasible_regions T cmp s) v = negb (set_contains s v)) /\
  set_nf (infeasible_regions T cmp s) = true.
Proof.
  intros s Hnf. unfold infeasible_regions.
  assert (G : compl_guard NegInf false s).
  { split; [reflexivity |]. destruct s as [| cur rest]; [exact I |].
    destruct (iv_lower T cur) eqn:E; [left; split; reflexivity | right; left; reflexivity | right; left; reflexivity]. }
  split.
  - intro v. rewrite (infeasible_loop_exact s NegInf false Hnf G v). reflexivity.
  - apply (infeasible_loop_nf s NegInf false Hnf G).
Qed.


(* ---------------------------------------------------------------- C11: sort, de-duplicate, assemble, filter *)
Definition le (a b : T) : Prop := cmp a b <> Gt.
Definition weakly_sorted (l : list T) : Prop := StronglySorted le l.

Lemma lt_le : forall a b, lt a b -> le a b.
Proof. unfold lt, le; intros a b H; rewrite H; discriminate. Qed.
Lemma le_trans : forall a b c, le a b -> le b c -> le a c.
Proof.
  unfold le; intros a b c H1 H2.
  destruct (cmp a b) eqn:E1; [| | congruence].
  - apply (cmp_eq_iff _ TO) in E1; subst; exact H2.
  - destruct (cmp b c) eqn:E2; [| | congruence].
    + apply (cmp_eq_iff _ TO) in E2; subst; rewrite E1; discriminate.
    + rewrite (cmp_lt_trans _ TO _ _ _ E1 E2); discriminate.
Qed.
Lemma lt_le_trans : forall a b c, lt a b -> le b c -> lt a c.
Proof.
  unfold lt, le; intros a b c H1 H2. destruct (cmp b c) eqn:E; [| | congruence].
  - apply (cmp_eq_iff _ TO) in E; subst; exact H1.
  - eapply (cmp_lt_trans _ TO); eassumption.
Qed.
Lemma not_gt_le : forall a b, cmp a b = Gt -> le b a.
Proof. intros a b H; unfold le. apply cmp_gt_lt in H. rewrite H; discriminate. Qed.

Lemma insert_sorted_In : forall x l v, In v (insert_sorted T cmp x l) <-> v = x \/ In v l.
Proof.
  intros x l v; induction l as [| y l IH]; cbn [insert_sorted In].
  - split; intros [H | H]; auto.
  - destruct (cmp x y); cbn [In]; try rewrite IH; split; intro H; intuition auto.
Qed.

Lemma insert_sorted_sorted : forall x l, weakly_sorted l -> weakly_sorted (insert_sorted T cmp x l).
Proof.
  intros x l; induction l as [| y l IH]; intro Hs; cbn [insert_sorted].
  - constructor; constructor.
  - inversion Hs as [| ? ? Hs' Hall]; subst.
    destruct (cmp x y) eqn:E.
    + constructor; [exact Hs |]. constructor.
      * unfold le; rewrite E; discriminate.
      * rewrite Forall_forall in *. intros z Hz. apply (cmp_eq_iff _ TO) in E; subst. apply Hall; exact Hz.
    + constructor; [exact Hs |]. constructor.
      * unfold le; rewrite E; discriminate.
      * rewrite Forall_forall in *. intros z Hz. eapply le_trans; [| apply Hall; exact Hz].
        unfold le; rewrite E; discriminate.
    + constructor; [apply IH; exact Hs' |].
      rewrite Forall_forall in *. intros z Hz. apply insert_sorted_In in Hz. destruct Hz as [-> | Hz].
      * apply not_gt_le; exact E.
      * apply Hall; exact Hz.
Qed.

Lemma sort_values_In : forall l v, In v (sort_values T cmp l) <-> In v l.
Proof.
  induction l as [| x l IH]; intro v; cbn [sort_values fold_right In]; [tauto |].
  fold (sort_values T cmp l). rewrite insert_sorted_In, IH. intuition auto.
Qed.
Lemma sort_values_sorted : forall l, weakly_sorted (sort_values T cmp l).
Proof.
  induction l as [| x l IH]; cbn [sort_values fold_right]; [constructor |].
  apply insert_sorted_sorted; exact IH.
Qed.

Lemma dedup_from_spec : forall l last,
  weakly_sorted l -> Forall (le last) l ->
  let res := dedup_from T cmp last l in
  Forall (lt last) res /\ increasing res /\ (forall v, In v res <-> In v l /\ v <> last).
Proof.
  induction l as [| x l IH]; intros last Hs Hall; cbn [dedup_from]; cbn zeta.
  - repeat split; try constructor; cbn; tauto.
  - inversion Hs as [| ? ? Hs' Hx]; subst. inversion Hall as [| ? ? Hlx Hall']; subst.
    destruct (cmp x last) eqn:E.
    + apply (cmp_eq_iff _ TO) in E; subst x.
      destruct (IH last Hs' Hall') as [A [B C]]. split; [exact A | split; [exact B |]].
      intro v. rewrite C. cbn [In]. intuition congruence.
    + exfalso. unfold le in Hlx. apply cmp_gt_lt in E. congruence.
    + assert (Hlt : lt last x) by (apply cmp_gt_lt; exact E).
      destruct (IH x Hs' Hx) as [A [B C]].
      split; [| split].
      * constructor; [exact Hlt |]. rewrite Forall_forall in *. intros z Hz.
        eapply (cmp_lt_trans _ TO); [exact Hlt | apply A; exact Hz].
      * constructor; [exact B | exact A].
      * intro v. cbn [In]. rewrite C. split.
        -- intros [H | [H1 H2]].
           ++ subst v. split; [left; reflexivity |]. intro; subst. unfold lt in Hlt. rewrite cmp_refl in Hlt. discriminate.
           ++ split; [right; exact H1 |]. intro; subst v.
              rewrite Forall_forall in Hx. specialize (Hx last H1).
              unfold le in Hx. apply cmp_gt_lt in Hlt. congruence.
        -- intros [[H | H] Hne]; [left; exact H |].
           destruct (cmp v x) eqn:F.
           ++ left. symmetry. apply (cmp_eq_iff _ TO); exact F.
           ++ right. split; [exact H |]. intro; subst. rewrite cmp_refl in F; discriminate.
           ++ right. split; [exact H |]. intro; subst. rewrite cmp_refl in F; discriminate.
Qed.

(* C11.2: qsort + duplicate removal returns a strictly increasing list with the same elements *)
Theorem sort_dedup_exact : forall l,
  let res := dedup_sorted T cmp (sort_values T cmp l) in
  increasing res /\ (forall v, In v res <-> In v l).
Proof.
  intro l. cbn zeta. pose proof (sort_values_sorted l) as Hs. pose proof (sort_values_In l) as Hin.
  destruct (sort_values T cmp l) as [| x r]; cbn [dedup_sorted].
  - split; [constructor |]. intro v; rewrite <- Hin; tauto.
  - inversion Hs as [| ? ? Hs' Hx]; subst.
    destruct (dedup_from_spec r x Hs' Hx) as [A [B C]].
    split; [constructor; assumption |].
    intro v. rewrite <- Hin. cbn [In]. rewrite C. split.
    + intros [H | [H _]]; auto.
    + intros [H | H]; [left; exact H |].
      destruct (cmp v x) eqn:F.
      * left. symmetry. apply (cmp_eq_iff _ TO); exact F.
      * right. split; [exact H |]. intro; subst. rewrite cmp_refl in F; discriminate.
      * right. split; [exact H |]. intro; subst. rewrite cmp_refl in F; discriminate.
Qed.

(* the per-factor loop *)
Definition factor_roots (f : factor_result T) : list T := match f with FRoots l => l | FConst _ => [] end.
Definition has_zero_const (fs : list (factor_result T)) : Prop := In (FConst 0) fs.

Lemma gather_roots_zero : forall fs tmp, has_zero_const fs -> gather_roots T fs tmp = [].
Proof.
  induction fs as [| f fs IH]; intros tmp H; [destruct H |].
  destruct H as [H | H].
  - subst f. reflexivity.
  - destruct f as [l | s]; cbn [gather_roots]; [apply IH; exact H |].
    destruct (s =? 0); [reflexivity | apply IH; exact H].
Qed.
Lemma gather_roots_nonzero : forall fs tmp, ~ has_zero_const fs ->
  gather_roots T fs tmp = tmp ++ flat_map factor_roots fs.
Proof.
  induction fs as [| f fs IH]; intros tmp H; cbn [gather_roots flat_map]; [rewrite app_nil_r; reflexivity |].
  assert (H' : ~ has_zero_const fs) by (intro; apply H; right; assumption).
  destruct f as [l | s]; cbn [factor_roots].
  - rewrite IH by exact H'. rewrite app_assoc. reflexivity.
  - destruct (Z.eqb_spec s 0) as [E | E]; [exfalso; apply H; left; subst; reflexivity |].
    rewrite IH by exact H'. reflexivity.
Qed.

(* every factor comes with the sign function of that factor of the specialised polynomial *)
Definition factor_ok (p : factor_result T * (T -> Z)) : Prop :=
  match fst p with
  | FRoots l => forall v, snd p v = 0 <-> In v l
  | FConst s => forall v, snd p v = s
  end.
Definition product_sign (sem : list (factor_result T * (T -> Z))) (v : T) : Z :=
  fold_right Z.mul 1 (map (fun p => snd p v) sem).

Lemma product_sign_zero : forall sem v, product_sign sem v = 0 <-> exists p, In p sem /\ snd p v = 0.
Proof.
  induction sem as [| p sem IH]; intro v; unfold product_sign in *; cbn [map fold_right].
  - split; [discriminate | intros [p [[] _]]].
  - rewrite Z.mul_eq_0, IH. split.
    + intros [H | [q [H1 H2]]]; [exists p; split; [left; reflexivity | exact H] | exists q; split; [right; exact H1 | exact H2]].
    + intros [q [[-> | H1] H2]]; [left; exact H2 | right; exists q; split; assumption].
Qed.

(* C11: the assembled list is exactly the zero set of the product of the factors, strictly increasing;
   and it is empty when a factor without y vanishes (the specialisation is then identically zero) *)
Theorem roots_isolate_assemble_exact : forall sem,
  Forall factor_ok sem ->
  let fs := map fst sem in
  let res := roots_isolate_assemble T cmp fs in
  (has_zero_const fs -> res = [] /\ forall v, product_sign sem v = 0) /\
  (~ has_zero_const fs -> increasing res /\ forall v, In v res <-> product_sign sem v = 0).
Proof.
  intros sem Hok fs res. subst res. unfold roots_isolate_assemble. split.
  - intro Hz. rewrite gather_roots_zero by exact Hz. split; [reflexivity |].
    intro v. apply product_sign_zero. subst fs. unfold has_zero_const in Hz. apply in_map_iff in Hz.
    destruct Hz as [p [Hp1 Hp2]]. exists p. split; [exact Hp2 |].
    rewrite Forall_forall in Hok. specialize (Hok p Hp2). unfold factor_ok in Hok. rewrite Hp1 in Hok. apply Hok.
  - intro Hnz. rewrite gather_roots_nonzero by exact Hnz. cbn [app].
    assert (Hin : forall v, In v (flat_map factor_roots fs) <-> product_sign sem v = 0).
    { intro v. rewrite product_sign_zero, in_flat_map. subst fs. split.
      - intros [f [Hf Hv]]. apply in_map_iff in Hf. destruct Hf as [p [Hp1 Hp2]]. exists p. split; [exact Hp2 |].
        rewrite Forall_forall in Hok. specialize (Hok p Hp2). unfold factor_ok in Hok. rewrite Hp1 in Hok.
        destruct f as [l | s]; cbn [factor_roots] in Hv; [apply Hok; exact Hv | destruct Hv].
      - intros [p [Hp Hv]]. exists (fst p). split; [apply in_map; exact Hp |].
        rewrite Forall_forall in Hok. specialize (Hok p Hp). unfold factor_ok in Hok.
        destruct (fst p) as [l | s] eqn:E; cbn [factor_roots].
        + apply Hok; exact Hv.
        + exfalso. apply Hnz. unfold has_zero_const. rewrite <- (Hok v), Hv in E. rewrite <- E. apply in_map; exact Hp. }
    destruct (flat_map factor_roots fs) as [| x r] eqn:EF.
    + split; [constructor |]. intro v. rewrite <- Hin. tauto.
    + rewrite <- EF in *. destruct (sort_dedup_exact (flat_map factor_roots fs)) as [A B]. cbn zeta in A, B.
      split; [exact A |]. intro v. rewrite B. apply Hin.
Qed.

(* C11.1 (conditional on the exact sign test and on the eliminant covering the roots): the candidate filter *)
Lemma increasing_filter : forall (f : T -> bool) l, increasing l -> increasing (filter f l).
Proof.
  intros f l; induction l as [| x l IH]; intro Hs; cbn [filter]; [constructor |].
  inversion Hs as [| ? ? Hs' Hall]; subst.
  destruct (f x); [| apply IH; exact Hs'].
  constructor; [apply IH; exact Hs' |].
  rewrite Forall_forall in *. intros z Hz. apply filter_In in Hz. apply Hall. tauto.
Qed.

Theorem filter_candidates_exact : forall (sgn_at : T -> Z) (is_root : T -> Prop) candidates,
  increasing candidates ->
  (forall r, In r candidates -> (sgn_at r = 0 <-> is_root r)) ->
  (forall r, is_root r -> In r candidates) ->
  let res := filter_candidates T sgn_at candidates in
  increasing res /\ (forall v, In v res <-> is_root v).
Proof.
  intros sgn_at is_root candidates Hs Hex Hcov res. subst res. unfold filter_candidates. split.
  - apply increasing_filter; exact Hs.
  - intro v. rewrite filter_In. split.
    + intros [H1 H2]. apply Hex; [exact H1 |]. apply Z.eqb_eq; exact H2.
    + intro H. split; [apply Hcov; exact H |]. apply Z.eqb_eq. apply Hex; [apply Hcov; exact H | exact H].
Qed.


(* C11.3: a specialisation without y (all factors constant) has no roots, whatever their signs *)
Lemma gather_roots_all_const : forall fs tmp,
  (forall f, In f fs -> exists s, f = FConst s) -> gather_roots T fs tmp = tmp \/ gather_roots T fs tmp = [].
Proof.
  induction fs as [| f fs IH]; intros tmp H; [left; reflexivity |].
  destruct (H f (or_introl eq_refl)) as [s ->]. cbn [gather_roots].
  destruct (s =? 0); [right; reflexivity |]. apply IH. intros g Hg; apply H; right; exact Hg.
Qed.
Theorem roots_isolate_assemble_const : forall fs,
  (forall f, In f fs -> exists s, f = FConst s) -> roots_isolate_assemble T cmp fs = [].
Proof.
  intros fs H. unfold roots_isolate_assemble.
  destruct (gather_roots_all_const fs [] H) as [-> | ->]; reflexivity.
Qed.
Theorem roots_isolate_assemble_zero : forall fs, has_zero_const fs -> roots_isolate_assemble T cmp fs = [].
Proof. intros fs H. unfold roots_isolate_assemble. rewrite gather_roots_zero by exact H. reflexivity. Qed.

End Carrier.

(* ---------------------------------------------------------------- a concrete oracle (non-vacuity of the premises) *)
Lemma ex_oracle_ok :
  increasing Z zcmp [10; 20] /\
  oracle_ok Z zcmp [10; 20] 2 1 (fun _ => -1) (fun v => Z.sgn ((v - 10) * (v - 20))) (fun k => if Nat.eqb k 1 then -1 else 1).
Proof.
  split.
  - repeat constructor.
  - unfold oracle_ok. split; [| split; [| split; [| split]]].
    + intros r [H | [H | []]]; subst; reflexivity.
    + intros v Hn. unfold rank, zcmp. cbn [filter].
      assert (v <> 10 /\ v <> 20) as [N1 N2] by (split; intro; subst; apply Hn; cbn; tauto).
      destruct (Z.compare_spec 10 v); destruct (Z.compare_spec 20 v); try lia; cbn [is_lt length Nat.eqb].
      * rewrite Z.sgn_pos_iff. nia.
      * rewrite Z.sgn_neg_iff. nia.
      * rewrite Z.sgn_pos_iff. nia.
    + reflexivity.
    + reflexivity.
    + intros i Hi. cbn in Hi. assert (i = O) by lia. subst. reflexivity.
Qed.

Lemma ex_factor_ok :
  Forall (factor_ok Z) [(FRoots [30; 10], fun v => (v - 10) * (v - 30)); (FConst 5, fun _ => 5)].
Proof.
  constructor; [| constructor; [| constructor]].
  - unfold factor_ok; cbn [fst snd]. intro v. rewrite Z.mul_eq_0. cbn [In]. split.
    + intros [H | H]; [right; left | left]; lia.
    + intros [H | [H | []]]; [right | left]; lia.
  - unfold factor_ok; cbn [fst snd]. reflexivity.
Qed.
