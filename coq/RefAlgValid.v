(* Validity of reference real algebraic numbers implies denotation:
     rn_valid x = true -> exists v, rn_denotes (rn_norm x) v      over every real closed field.
   Ingredients: Sturm's theorem at finite end points for the reference count (SturmItv.v), correctness of the
   square-free part psqfree (its real roots are the real roots of p and they are simple: gcd correctness of
   GcdSpec.v lifted to R[x] along the Euclidean PRS, exact division completeness), and the sign change of a
   polynomial across an isolated simple root. *)
From Coq Require Import ZArith.
From LP Require Import Scalar UPoly RootIso RefAlg Gcd.
Set Warnings "-notation-overridden,-ambiguous-paths".
From mathcomp Require Import all_ssreflect all_algebra all_real_closed.
From mathcomp Require Import ssrZ zify.
Set Warnings "notation-overridden,ambiguous-paths".
From LP Require Import UPolySpec ScalarProofs GcdSpec FactorProofs RootIsoProofs SturmItv RefAlgSpec.
Import GRing.Theory Num.Theory Num.Def Order.TTheory.
Set Implicit Arguments.
Unset Strict Implicit.
Unset Printing Implicit Defensive.
Local Open Scope ring_scope.

(* ---------------------------------------------------------------- exact division over Z[x] is complete *)
Lemma pdiv_exact_aux_S f (q r b : seq Z) (db : nat) (lb : Z) :
  pdiv_exact_aux f.+1 q r b db lb =
  match pnorm r with
  | [::] => Some q
  | _ =>
    let dr := Nat.pred (length (pnorm r)) in
    if Nat.ltb dr db then None
    else
      let lr := List.last (pnorm r) 0 in
      if Z.eqb (Z.modulo lr lb) Z0 then
        let t := pshift (dr - db) [:: Z.div lr lb] in
        pdiv_exact_aux f (padd q t) (psub (pnorm r) (pmul t b)) b db lb
      else None
  end.
Proof. by []. Qed.

Lemma pdiv_exact_aux_complete fuel (q r b : seq Z) : Poly b != 0 -> pnorm b = b ->
  rdvd (Poly b) (Poly r) -> (size (Poly r) <= fuel)%N ->
  exists q', pdiv_exact_aux fuel q r b (Nat.pred (length b)) (List.last b 0) = Some q'.
Proof.
move=> b0 nb; have sb : (0 < size (Poly b))%N by rewrite size_poly_gt0.
have db : Nat.pred (length b) = (size (Poly b)).-1 by rewrite -nb pred_length_size Poly_pnorm.
have lb : List.last b 0 = lead_coef (Poly b) by rewrite -nb last_lead Poly_pnorm.
rewrite db lb.
elim: fuel q r => [|f IH] q r dv sz.
  move: sz; rewrite leqn0 size_poly_eq0 => /eqP r0.
  by exists q; rewrite /= (_ : pnorm r = [::]) //; apply/eqP; rewrite RootIsoProofs.pnorm_nil_Poly r0.
rewrite pdiv_exact_aux_S.
case E: (pnorm r) => [|c r']; first by exists q.
rewrite -E; cbv zeta; rewrite pred_length_size NltbE last_lead.
have r0 : Poly r != 0 by apply/eqP => r0; move: E; rewrite -polyseq_Poly_pnorm r0 polyseq0.
have [u uE] := dv.
have u0 : u != 0 by apply: contra_neq r0 => u0; rewrite uE u0 mulr0.
have szr : size (Poly r) = (size (Poly b) + size u).-1 by rewrite uE size_mul.
have su : (0 < size u)%N by rewrite size_poly_gt0.
case: ltnP => [lt|ge].
  by exfalso; move: (size (Poly r)) (size (Poly b)) (size u) szr lt sb su => m n k; lia.
have lcE : lead_coef (Poly r) = lead_coef (Poly b) * lead_coef u by rewrite uE lead_coefM.
have lb0 : lead_coef (Poly b) != 0 by rewrite lead_coef_eq0.
have -> : Z.eqb (Z.modulo (lead_coef (Poly r)) (lead_coef (Poly b))) Z0.
  by apply/Z.eqb_eq; rewrite lcE mulrC; apply: Z.mod_mul; exact/eqP.
have dE : Z.div (lead_coef (Poly r)) (lead_coef (Poly b)) = lead_coef u.
  by rewrite lcE mulrC; apply: Z.div_mul; exact/eqP.
rewrite dE; apply: IH.
  rewrite Poly_psub Poly_pmul Poly_monom Poly_pnorm; apply: rdvd_sub => //.
  exact: rdvd_mull (rdvd_refl _).
have sbr : (size (Poly b) <= size (Poly r))%N.
  by move: (size (Poly r)) (size (Poly b)) (size u) szr ge sb su => m n k; lia.
have := size_elim_step b0 r0 sbr.
rewrite Poly_psub Poly_pmul Poly_monom Poly_pnorm.
set new := Poly r - _; set old := _ - _.
have -> : old = lead_coef (Poly b) *: new.
  by rewrite /old /new scalerBr lcE -scalerA -!scalerAl.
rewrite size_scale // => h.
by move: (size new) (size (Poly r)) h sz => m n; lia.
Qed.

Lemma pdiv_exact_complete (a b : seq Z) : Poly b != 0 -> rdvd (Poly b) (Poly a) ->
  exists q, pdiv_exact a b = Some q.
Proof.
move=> b0 dv; rewrite /pdiv_exact.
have nb : pnorm b != [::] by rewrite RootIsoProofs.pnorm_nil_Poly.
case E: (pnorm b) nb => [|c t] // _; rewrite -E.
have b0' : Poly (pnorm b) != 0 by rewrite Poly_pnorm.
have dv' : rdvd (Poly (pnorm b)) (Poly (pnorm a)) by rewrite !Poly_pnorm.
have sz : (size (Poly (pnorm a)) <= (length (pnorm a)).+1)%N.
  by rewrite Poly_pnorm size_Poly_pnorm.
have [q' ->] := pdiv_exact_aux_complete [::] b0' (RootIsoProofs.pnorm_idem b) dv' sz.
by eexists.
Qed.

(* ---------------------------------------------------------------- the reference gcd is a gcd over R[x] *)
Section GcdR.
Variable R : rcfType.
Local Notation PR := (PR R).
Local Notation ZtoR := (ZtoR R).

Lemma PR_scale_dvd (h : {poly R}) (c : Z) (p : seq Z) : h %| PR p -> h %| PR (pscale c p).
Proof. by move=> hp; rewrite PR_pscale -mul_polyC dvdp_mull. Qed.

Lemma PR_ppp_dvd (h : {poly R}) (p : seq Z) : h %| PR p -> h %| PR (ppp p).
Proof.
have [p0|p0] := eqVneq (Poly p) 0; first by rewrite ppp_zero // PR_nil dvdp0.
have [E _ _] := ppp_spec p0.
have c0 : ZtoR (content_Z p) != 0.
  by rewrite ZtoR_eq0; apply: contra_neq p0 => c0; rewrite E c0 scale0r.
have -> : PR p = ZtoR (content_Z p) *: PR (ppp p) by rewrite -PR_pscale /RootIsoProofs.PR Poly_pscale -E.
by rewrite dvdpZr.
Qed.

Lemma PR_pprem_dvd (h : {poly R}) (a b : seq Z) : Poly b != 0 -> h %| PR a -> h %| PR b ->
  h %| PR (pprem a b).
Proof.
move=> b0 ha hb; have [k [q [E _]]] := pprem_spec a b0.
have -> : PR (pprem a b) = ZtoR (plc b ^+ k) *: PR a - map_poly ZtoR q * PR b.
  have := congr1 (map_poly ZtoR) E; rewrite rmorphD rmorphM /= map_polyZ => ->.
  by rewrite addrC addKr.
by rewrite dvdp_sub ?dvdp_mull // -mul_polyC dvdp_mull.
Qed.

Lemma pgcd_prim_aux_greatest_R (h : {poly R}) fuel (a b : seq Z) : h %| PR a -> h %| PR b ->
  h %| PR (pgcd_prim_aux fuel a b).
Proof.
elim: fuel a b => [|f IH] a b ha hb //=.
case E: (pnorm b) => [|c t] //.
have b0 : Poly b != 0 by rewrite -RootIsoProofs.pnorm_nil_Poly E.
by apply: IH => //; apply: PR_ppp_dvd; exact: PR_pprem_dvd.
Qed.

Lemma pgcd_greatest_R (h : {poly R}) (a b : seq Z) : h %| PR a -> h %| PR b -> h %| PR (pgcd a b).
Proof.
move=> ha hb.
have ha' : h %| PR (ppp (pnorm a)) by apply: PR_ppp_dvd; rewrite PR_pnorm.
have hb' : h %| PR (ppp (pnorm b)) by apply: PR_ppp_dvd; rewrite PR_pnorm.
case: (pgcd_cases a b) => [[_ _ ->]|[_ _ ->]|[_ _ ->]|[_ _ [fuel [u [v [-> _ Huv]]]]]].
- by rewrite PR_nil dvdp0.
- exact: PR_scale_dvd.
- exact: PR_scale_dvd.
- apply/PR_scale_dvd/PR_ppp_dvd/pgcd_prim_aux_greatest_R.
    by case: Huv => [[-> _]|[-> _]].
  by case: Huv => [[_ ->]|[_ ->]].
Qed.

Lemma rdvd_PR (d a : seq Z) : rdvd (Poly d) (Poly a) -> PR d %| PR a.
Proof.
move=> [q E]; rewrite /RootIsoProofs.PR E rmorphM /=; exact: dvdp_mulr.
Qed.

End GcdR.

(* ---------------------------------------------------------------- the square-free part *)
Section SqFree.
Variable R : rcfType.
Local Notation PR := (PR R).
Local Notation ZtoR := (ZtoR R).

Lemma PR_neq0 (p : seq Z) : (PR p != 0) = (Poly p != 0).
Proof. by rewrite PR_eq0; congr (~~ _); apply/pis_zeroP/eqP. Qed.

Lemma PR_ppp_scale (p : seq Z) : Poly p != 0 -> exists2 c : R, c != 0 & PR p = c *: PR (ppp p).
Proof.
move=> p0; have [E _ _] := ppp_spec p0; exists (ZtoR (content_Z p)).
  by rewrite ZtoR_eq0; apply: contra_neq p0 => c0; rewrite E c0 scale0r.
by rewrite -PR_pscale /RootIsoProofs.PR Poly_pscale -E.
Qed.

Theorem psqfree_spec (p : seq Z) : Poly p != 0 ->
  [/\ PR (psqfree p) != 0,
      forall x : R, root (PR (psqfree p)) x -> root (PR p) x
    & forall x : R, root (PR (psqfree p)) x -> \mu_x (PR (psqfree p)) = 1%N].
Proof.
move=> p0; rewrite /psqfree; set P := ppp p; set d := pgcd P (pderiv P).
have P0 : Poly P != 0 by rewrite Poly_ppp_eq0.
have [dP dP'] := pgcd_dvd P (pderiv P); rewrite -/d in dP dP'.
have d0 : Poly d != 0 by apply: contra_neq P0 => d0; case: dP => u ->; rewrite d0 mul0r.
have [q Eq] := pdiv_exact_complete d0 dP; rewrite Eq.
have PE : Poly P = Poly d * Poly q := pdiv_exact_sound Eq.
have q0 : Poly q != 0 by apply: contra_neq P0 => q0; rewrite PE q0 mulr0.
have [c c0 qE] := PR_ppp_scale q0; have [c' c'0 pE] := PR_ppp_scale p0; rewrite -/P in pE.
have PRE : PR P = PR d * PR q by rewrite /RootIsoProofs.PR PE rmorphM.
have g0 : PR (ppp q) != 0 by rewrite PR_neq0 Poly_ppp_eq0.
have rg x : root (PR (ppp q)) x -> root (PR P) x.
  by move=> gx; rewrite PRE rootM qE rootZ // gx orbT.
split=> // x gx; first by rewrite pE rootZ //; exact: rg.
have Px := rg x gx.
have PR0 : PR P != 0 by rewrite PR_neq0.
have dR0 : PR d != 0 by rewrite PR_neq0.
have qR0 : PR q != 0 by rewrite PR_neq0.
have m0 : (0 < \mu_x (PR P))%N by rewrite mu_gt0.
have P'0 : (PR P)^`() != 0.
  rewrite -size_poly_eq0 size_deriv; have := root_size_gt1 PR0 Px.
  by move: (size (PR P)) => n; lia.
have h1 : ('X - x%:P) ^+ (\mu_x (PR P)).-1 %| PR P by rewrite root_le_mu // leq_pred.
have h2 : ('X - x%:P) ^+ (\mu_x (PR P)).-1 %| PR (pderiv P).
  by rewrite PR_pderiv root_le_mu // mu_deriv // subn1.
have := pgcd_greatest_R h1 h2; rewrite -/d root_le_mu // => le_d.
have := mu_mul x (_ : PR d * PR q != 0); rewrite -PRE => /(_ PR0) mE.
have qx : root (PR q) x by rewrite qE rootZ.
have q1 : (0 < \mu_x (PR q))%N by rewrite mu_gt0.
have <- : \mu_x (PR q) = \mu_x (PR (ppp q)) by rewrite qE mu_mulC.
by move: (\mu_x (PR P)) (\mu_x (PR d)) (\mu_x (PR q)) mE le_d m0 q1 => a b e; lia.
Qed.

End SqFree.

(* ---------------------------------------------------------------- sign change across an isolated simple root *)
Section Valid.
Variable R : rcfType.
Local Notation PR := (PR R).
Local Notation QR := (QR R).

Lemma simple_root_sign_change (G : {poly R}) (lo hi v : R) : lo < v < hi -> root G v -> \mu_v G = 1%N ->
  (forall w, root G w -> lo < w < hi -> w = v) -> G.[lo] != 0 -> G.[hi] != 0 ->
  sgr G.[lo] * sgr G.[hi] = -1.
Proof.
move=> /andP[lov vhi] Gv mu1 uniq Glo Ghi.
have G0 : G != 0 by apply: contraNneq Glo => ->; rewrite horner0.
have [H Hv GE] := mu_spec v G0; rewrite mu1 expr1 in GE.
have nr : {in `[lo, hi], forall z, ~~ root H z}.
  move=> z; rewrite in_itv /= => /andP[loz zhi]; apply/negP => Hz.
  have Gz : root G z by rewrite GE rootM Hz.
  have zlo : z != lo by apply: contraNneq Glo => <-; exact: Gz.
  have zh : z != hi by apply: contraNneq Ghi => <-; exact: Gz.
  have zv : z = v by apply: uniq => //; rewrite !lt_neqAle eq_sym zlo loz zh zhi.
  by rewrite zv (negPf Hv) in Hz.
have lohi : lo <= hi := ltW (lt_trans lov vhi).
have sH : sgr H.[hi] = sgr H.[lo].
  by apply: (polyrN0_itv nr); rewrite in_itv /= ?lexx ?lohi.
rewrite GE !hornerM !hornerXsubC !sgrM sH.
rewrite (ltr0_sg (_ : lo - v < 0)) ?subr_lt0 // (gtr0_sg (_ : 0 < hi - v)) ?subr_gt0 //.
rewrite mulr1 mulrN1 mulNr -expr2 sqr_sg.
have -> : H.[lo] != 0.
  by have := nr lo; rewrite in_itv /= lexx lohi => /(_ isT).
by [].
Qed.

(* bridges between the embeddings of RefAlgSpec.v and RootIsoProofs.v (same definitions) *)
Lemma pr_PR (p : seq Z) : pr p = PR p. Proof. by []. Qed.
Lemma qr_QR (q : Z * Z) : qr q = QR q.1 q.2. Proof. by []. Qed.
Lemma zr_ZtoR (z : Z) : zr z = ZtoR R z. Proof. by []. Qed.

Lemma qpos_gt0 (q : Z * Z) : qpos q -> (0 < q.2)%R.
Proof. by rewrite /qpos => h; apply/idP; lia. Qed.

Lemma q_is_canon_qpos (q : Z * Z) : q_is_canon q -> qpos q.
Proof. by rewrite /q_is_canon => /andP[/Z.ltb_lt]. Qed.

Lemma q_lt_spec (a b : Z * Z) : qpos a -> qpos b -> q_lt a b = (qr a < qr b :> R).
Proof.
move=> Ha Hb; rewrite /q_lt -subr_lt0 -sgr_lt0 -(q_cmp_sgn R Ha Hb) zr_lt0.
by [].
Qed.

Lemma psgn_q_neq0 (p : seq Z) (q : Z * Z) : qpos q ->
  (Z.eqb (psgn_q p q) Z0) = ((PR p).[QR q.1 q.2] == 0).
Proof.
by move=> Hq; rewrite -(zr_eq0 R) (psgn_qP R p Hq) sgr_eq0.
Qed.

Theorem rn_valid_denotes (x : rnum) : rn_valid x = true -> exists v : R, rn_denotes (rn_norm x) v.
Proof.
case: x => [q|p lo hi] /=.
  by move=> /q_is_canon_qpos Hq; exists (qr q).
move=> /andP[/andP[/andP[/andP[/andP[/andP[clo chi] lt] p0] plo] phi] /Nat.eqb_eq cnt].
have Hlo := q_is_canon_qpos clo; have Hhi := q_is_canon_qpos chi.
have lohi : QR lo.1 lo.2 < QR hi.1 hi.2 by rewrite -!qr_QR -q_lt_spec.
have P0 : Poly p != 0 by apply/negP => /eqP/pis_zeroP; rewrite (negPf p0).
have [G0 rg simple] := psqfree_spec R P0.
set g := psqfree p in G0 rg simple cnt *.
have glo : (PR g).[QR lo.1 lo.2] != 0.
  by rewrite -rootE; apply/negP => /rg; rewrite rootE -psgn_q_neq0 // (negPf plo).
have ghi : (PR g).[QR hi.1 hi.2] != 0.
  by rewrite -rootE; apply/negP => /rg; rewrite rootE -psgn_q_neq0 // (negPf phi).
have g0 : ~~ pis_zero g by rewrite -(PR_eq0 R).
have cE : count_roots_oc g (Fin lo.1 lo.2) (Fin hi.1 hi.2) = 1%N.
  by move: cnt; rewrite /count_open psgn_q_neq0 // (negPf ghi).
have := count_roots_oc_fin_nonroot g0 (qpos_gt0 Hlo) (qpos_gt0 Hhi) lohi.
rewrite -!(root_rat R) ?rootE ?glo ?ghi; try exact: qpos_gt0.
move=> /(_ isT isT); rewrite cE.
case E: (filter _ _) => [|v [|w s]] // _.
have : v \in [seq x <- rootsR (PR g) | QR lo.1 lo.2 < x <= QR hi.1 hi.2] by rewrite E inE.
rewrite mem_filter in_rootsR // => /andP[/andP[lov vhi] gv].
have vhi' : v < QR hi.1 hi.2.
  by rewrite lt_neqAle vhi andbT; apply: contraNneq ghi => <-.
have uniq w : root (PR g) w -> QR lo.1 lo.2 < w < QR hi.1 hi.2 -> w = v.
  move=> gw /andP[low whi].
  have : w \in [seq x <- rootsR (PR g) | QR lo.1 lo.2 < x <= QR hi.1 hi.2].
    by rewrite mem_filter in_rootsR // gw low (ltW whi).
  by rewrite E inE => /eqP.
exists v; split=> //; first by rewrite lov.
apply: simple_root_sign_change gv (simple v gv) uniq glo ghi.
by rewrite lov.
Qed.


(* the interval count in the exact form consumed by the reference arithmetic (RefAlgArith.count_open_correct_premise);
   square-freeness of r is NOT needed once both ends are non-roots *)
Theorem count_open_correct (r : seq Z) (l h : Z * Z) : qpos l -> qpos h -> qr l < qr h :> R ->
  Poly r != 0 -> (pr r).[qr l] != 0 :> R -> (pr r).[qr h] != 0 :> R ->
  count_open r l h = size (roots (pr r : {poly R}) (qr l) (qr h)).
Proof.
move=> Hl Hh lh r0 rl rh.
have r0' : ~~ pis_zero r by apply/negP => /pis_zeroP /eqP; rewrite (negPf r0).
have R0 : PR r != 0 by rewrite PR_eq0.
rewrite /count_open psgn_q_neq0 // -pr_PR -qr_QR (negPf rh).
have := count_roots_oc_fin_nonroot r0' (qpos_gt0 Hl) (qpos_gt0 Hh) lh.
rewrite -!(root_rat R) ?rootE; try exact: qpos_gt0.
move=> /(_ rl rh) ->; congr size; apply: lt_sorted_eq; last first.
- move=> z; rewrite mem_filter in_rootsR // in_roots R0 andbT in_itv /= andbC.
  case rz: (root (PR r) z); rewrite ?andbF //=.
  rewrite -!qr_QR; congr (_ && _).
  by rewrite le_eqVlt; case: eqP => // zh; move: rz; rewrite zh rootE pr_PR in rh *; rewrite (negPf rh).
- exact: sorted_roots.
- by apply: sorted_filter (sorted_roots _ _ _); exact: lt_trans.
Qed.

End Valid.
