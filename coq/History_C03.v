(* C03 regression memory: the pre-repair behaviour of the zero-operand cases of the gcd entry points, each with a
   machine-checked refutation of the property on the faithful model of the code as it was.  The witnesses are in
   corpus/C03.txt and are replayed on every run.  Repairs: fixes/C03-*.patch. *)
From Coq Require Import ZArith NArith List Bool Lia.
From LP Require Import Scalar UPoly MPoly Gcd MGcdProofs.
Import ListNotations.
Local Open Scope Z_scope.

(* ---- lp_upolynomial_gcd as it was: a zero operand returns a plain COPY of the other operand *)
Definition upoly_gcd_Zp_prefix (p : Z) (a b : poly) : option poly :=
  let a := zp_norm p a in let b := zp_norm p b in
  match a, b with
  | [], _ => Some b
  | _, [] => Some a
  | _, _ => upoly_gcd_Zp p a b
  end.
Definition upoly_gcd_Z_prefix (mode : Z) (a b : poly) : option poly :=
  let a := pnorm a in let b := pnorm b in
  match a, b with
  | [], _ => Some b
  | _, [] => Some a
  | _, _ => upoly_gcd_Z mode a b
  end.

(* over a prime field the gcd must be monic: gcd(0, 2x) in Z_5[x] came back as 2x *)
Theorem C03_upoly_gcd_Zp_prefix_refuted :
  exists p a b g, upoly_gcd_Zp_prefix p a b = Some g /\ is_monic_or_zero p g = false.
Proof. exists 5, [], [0; 2], [0; 2]. vm_compute. split; reflexivity. Qed.

(* the repaired function returns the monic associate on the same input *)
Example C03_upoly_gcd_Zp_repaired :
  upoly_gcd_Zp 5 [] [0; 2] = Some [0; 1] /\ upoly_gcd_Zp 3 [2] [6] = Some [1].
Proof. vm_compute. split; reflexivity. Qed.

(* over Z the header promises lc(gcd) > 0: gcd(0, -x) came back as -x *)
Theorem C03_upoly_gcd_Z_prefix_refuted :
  exists a b g, upoly_gcd_Z_prefix 0 a b = Some g /\ plc g < 0.
Proof. exists [], [0; -1], [0; -1]. vm_compute. split; reflexivity. Qed.

(* ---- lp_upolynomial_extended_gcd as it was: every operand pair goes to upolynomial_gcd_euclid, whose first line
   asserts that the divisor is non-zero (None = the C code aborts; without assertions it divides by zero) *)
Definition upoly_extended_gcd_prefix (p : Z) (a b : poly) : option (poly * poly * poly) :=
  let a := zp_norm p a in let b := zp_norm p b in
  if Nat.ltb (udeg a) (udeg b)
  then match gcd_euclid p b a with Some (g, v, u) => Some (g, u, v) | None => None end
  else gcd_euclid p a b.

Theorem C03_extended_gcd_prefix_refuted :
  exists p a b, upoly_extended_gcd_prefix p a b = None /\
    exists g u v, upoly_extended_gcd p a b = Some (g, u, v) /\ egcd_check_Zp p g u v a b = true.
Proof.
  exists 3, [-2], []. split; [vm_compute; reflexivity|].
  exists [1], [1], []. vm_compute. split; reflexivity.
Qed.

(* ---- lp_polynomial_gcd as it was, on a zero operand: coefficient_gcd(C, 0) recursed into gcd(cont(C), 0) and
   ended with the INTEGER content of C *)
Definition mgcd_zero_prefix (a b : mpoly) : mpoly :=
  match a, b with
  | [], _ => mp_const (mp_content b)
  | _, [] => mp_const (mp_content a)
  | _, _ => []          (* not modelled: both operands non-zero *)
  end.

(* -2*x0 divides both 0 and -2*x0, but it does not divide the "gcd" 2 that was returned *)
Theorem C03_mgcd_zero_prefix_refuted :
  exists a b d, mp_sdivides d a /\ mp_sdivides d b /\ ~ mp_sdivides d (mgcd_zero_prefix a b).
Proof.
  exists [], [([(0%N, 1%N)], -2)], [([(0%N, 1%N)], -2)].
  split; [exists []; intros rho; cbn; ring|].
  split; [exists (mp_const 1); intros rho; cbn; ring|].
  intros [q H]. specialize (H (fun _ => 3)).
  assert (E1 : mp_eval (fun _ => 3) (mgcd_zero_prefix [] [([(0%N, 1%N)], -2)]) = 2) by reflexivity.
  assert (E2 : mp_eval (fun _ => 3) [([(0%N, 1%N)], -2)] = -6) by reflexivity.
  rewrite E1, E2 in H. lia.
Qed.
