(* Property C04 - resultants, principal subresultant coefficients and subresultants are exact.
   ONLY theorem statements, each closed by `exact` of a lemma from SylvesterProofs.v, with Print Assumptions beneath.
   Reference (proved here): Sylvester.v (Laplace determinants of Sylvester / Sylvester-Habicht matrices, generic over
   the coefficient type; instances Z and mpoly).  Faithful model of subres.c (NOT proved equal to the reference - Ducos'
   structure theorem - but compared with it and with libpoly on every run): Subres.v.
   Labels: FULL = closed theorem about the reference for all inputs; ORACLE = the claim "libpoly's chain = reference"
   is a Definition (…_full_statement), validated by the three-way correspondence only. *)
From Coq Require Import ZArith List.
From LP Require Import UPoly MPoly Scalar RefAlg Sylvester Subres SylvesterEval.
Set Warnings "-notation-overridden,-ambiguous-paths".
From mathcomp Require Import all_ssreflect all_fingroup all_algebra.
From mathcomp Require Import ssrZ zify.
From LP Require Import UPolySpec SylvesterProofs SubresProofs SylvesterFast.
Set Warnings "notation-overridden,ambiguous-paths".
Import GRing.Theory.
Local Open Scope ring_scope.

(* ---- 1. the executable Laplace expansion on lists of rows IS the determinant *)

(* FULL, generic: every commutative ring R, every coefficient type A with ring operations and a map den : A -> R that
   respects them (is_zero only has to be sound) *)
Theorem C04_laplace_is_det :
  forall (R : comRingType) (A : Type) (zero one : A) (add : A -> A -> A) (opp : A -> A) (mul : A -> A -> A)
         (is_zero : A -> bool) (den : A -> R),
    den zero = 0 -> den one = 1 -> (forall a b, den (add a b) = den a + den b) -> (forall a, den (opp a) = - den a) ->
    (forall a b, den (mul a b) = den a * den b) -> (forall a, is_zero a = true -> den a = 0) ->
  forall (n : nat) (m : seq (seq A)),
    den (mdet A zero one add opp mul is_zero n m) = \det (\matrix_(i < n, j < n) den (nth zero (nth [::] m i) j)).
Proof. exact mdet_det. Qed.
Print Assumptions C04_laplace_is_det.

(* FULL: integer matrices *)
Theorem C04_laplace_is_det_Z : forall (n : nat) (m : seq (seq Z)),
  mdet_Z n m = \det (\matrix_(i < n, j < n) nth 0 (nth [::] m i) j).
Proof. exact mdet_Z_det. Qed.
Print Assumptions C04_laplace_is_det_Z.

(* FULL: matrices of multivariate polynomials, at every integer point of the parameters *)
Theorem C04_laplace_is_det_mpoly : forall (rho : var -> Z) (n : nat) (m : seq (seq mpoly)),
  mp_eval rho (mdet_mp n m) = \det (\matrix_(i < n, j < n) mp_eval rho (nth [::] (nth [::] m i) j)).
Proof. exact mdet_mp_eval. Qed.
Print Assumptions C04_laplace_is_det_mpoly.

(* ---- 2. the reference resultant is the determinant of the Sylvester matrix (MathComp mxpoly.resultant).
   MathComp's Sylvester_mx lists coefficients LOW degree first: its `resultant p q` is the classical resultant of
   (q, p), hence the sign (-1)^(deg p * deg q). *)

(* FULL: univariate integer polynomials in canonical form (last coefficient non-zero) *)
Theorem C04_ref_is_sylvester : forall p q : seq Z,
  last 1 p != 0 -> last 1 q != 0 ->
  resultant_Z p q = (-1) ^+ ((size p).-1 * (size q).-1) * resultant (Poly p) (Poly q).
Proof. exact resultant_Z_mathcomp. Qed.
Print Assumptions C04_ref_is_sylvester.

(* FULL: any integer coefficient lists, through the model's normal form *)
Theorem C04_ref_is_sylvester_pnorm : forall p q : seq Z,
  resultant_Z (pnorm p) (pnorm q) = (-1) ^+ (pdeg p * pdeg q) * resultant (Poly p) (Poly q).
Proof. exact resultant_Z_pnorm. Qed.
Print Assumptions C04_ref_is_sylvester_pnorm.

(* FULL: parametric coefficients, at every integer point that keeps both leading coefficients *)
Theorem C04_ref_is_sylvester_mpoly : forall (rho : var -> Z) (p q : seq mpoly),
  last 1 (map (mp_eval rho) p) != 0 -> last 1 (map (mp_eval rho) q) != 0 ->
  mp_eval rho (resultant_mp p q) =
  (-1) ^+ ((size p).-1 * (size q).-1) * resultant (Poly (map (mp_eval rho) p)) (Poly (map (mp_eval rho) q)).
Proof. exact resultant_mp_mathcomp. Qed.
Print Assumptions C04_ref_is_sylvester_mpoly.

(* ---- 3. swap law *)

(* FULL, Spec side, every commutative ring: justifies the parity sign of coefficient_resultant's swap branch *)
Theorem C04_swap_sign : forall (R : comRingType) (P Q : {poly R}),
  resultant Q P = (-1) ^+ ((size P).-1 * (size Q).-1) * resultant P Q.
Proof. exact resultant_swap. Qed.
Print Assumptions C04_swap_sign.

(* FULL: the reference itself, for ALL integer coefficient lists (formal degrees, no normalisation needed) *)
Theorem C04_swap_sign_ref_Z : forall p q : seq Z,
  resultant_Z q p = (-1) ^+ ((size p).-1 * (size q).-1) * resultant_Z p q.
Proof. exact resultant_Z_swap. Qed.
Print Assumptions C04_swap_sign_ref_Z.

(* FULL: the multivariate reference, at every integer point *)
Theorem C04_swap_sign_ref_mpoly : forall (rho : var -> Z) (p q : seq mpoly),
  mp_eval rho (resultant_mp q p) = (-1) ^+ ((size p).-1 * (size q).-1) * mp_eval rho (resultant_mp p q).
Proof. exact resultant_mp_swap. Qed.
Print Assumptions C04_swap_sign_ref_mpoly.

(* ---- 4. common factors and specialisation *)

(* FULL: the reference resultant of two integer polynomials vanishes iff they have a common factor of positive degree *)
Theorem C04_common_factor : forall p q : seq Z,
  (resultant_Z (pnorm p) (pnorm q) == 0) = (1 < size (gcdp (Poly p) (Poly q)))%N.
Proof. exact resultant_Z_eq0. Qed.
Print Assumptions C04_common_factor.

(* FULL: every reference determinant (k = j = 0: resultant; j = k: psc_k; j <= k: coefficients of the k-th
   subresultant) commutes with the specialisation of the parameters at an integer point (formal degrees kept) *)
Theorem C04_specialisation_commutes : forall (rho : var -> Z) (k j : nat) (p q : seq mpoly),
  mp_eval rho (sylv_det mpoly [::] mp_one mp_add mp_neg mp_mul mp_is_zero k j p q) =
  sylv_det Z 0 1 Z.add Z.opp Z.mul z_is_zero k j (spec_coeffs rho p) (spec_coeffs rho q).
Proof. exact sylv_det_spec. Qed.
Print Assumptions C04_specialisation_commutes.

Theorem C04_resultant_specialises : forall (rho : var -> Z) (p q : seq mpoly),
  mp_eval rho (resultant_mp p q) = resultant_Z (spec_coeffs rho p) (spec_coeffs rho q).
Proof. exact resultant_spec. Qed.
Print Assumptions C04_resultant_specialises.

Theorem C04_psc_specialises : forall (rho : var -> Z) (k : nat) (p q : seq mpoly),
  mp_eval rho (psc_mp k p q) = psc_Z k (spec_coeffs rho p) (spec_coeffs rho q).
Proof. exact psc_spec. Qed.
Print Assumptions C04_psc_specialises.

Theorem C04_subres_specialises : forall (rho : var -> Z) (k : nat) (p q : seq mpoly),
  map (mp_eval rho) (subres_mp k p q) = subres_Z k (spec_coeffs rho p) (spec_coeffs rho q).
Proof. exact subres_spec. Qed.
Print Assumptions C04_subres_specialises.

(* ---- 4b. other coefficient rings (libpoly contexts over Z_p): every reference determinant commutes with every ring
   morphism out of Z; reduction modulo a prime is one *)

(* FULL: for every commutative ring R and ring morphism f : Z -> R, the image of any reference determinant (resultant,
   psc_k, coefficients of S_k) is the same determinant over R of the images of the operands (formal degrees kept) *)
Theorem C04_ring_morphism_commutes : forall (R : comRingType) (f : {rmorphism Z -> R}) (k j : nat) (p q : seq Z),
  f (sylv_det Z 0 1 Z.add Z.opp Z.mul z_is_zero k j p q) =
  sylv_det R 0 1 +%R -%R *%R (fun _ => false) k j (map f p) (map f q).
Proof. exact sylv_det_Z_morph. Qed.
Print Assumptions C04_ring_morphism_commutes.

Theorem C04_ring_morphism_commutes_mpoly :
  forall (R : comRingType) (f : {rmorphism Z -> R}) (rho : var -> Z) (k j : nat) (p q : seq mpoly),
  f (mp_eval rho (sylv_det mpoly [::] mp_one mp_add mp_neg mp_mul mp_is_zero k j p q)) =
  sylv_det R 0 1 +%R -%R *%R (fun _ => false) k j (map (f \o mp_eval rho) p) (map (f \o mp_eval rho) q).
Proof. exact sylv_det_mp_morph. Qed.
Print Assumptions C04_ring_morphism_commutes_mpoly.

(* FULL: when the images of both leading coefficients are non-zero, the image of the reference resultant is (up to the
   convention sign) MathComp's resultant over R of the image polynomials *)
Theorem C04_ref_is_sylvester_morphism : forall (R : comRingType) (f : {rmorphism Z -> R}) (p q : seq Z),
  last 1 (map f p) != 0 -> last 1 (map f q) != 0 ->
  f (resultant_Z p q) = (-1) ^+ ((size p).-1 * (size q).-1) * resultant (Poly (map f p)) (Poly (map f q)).
Proof. exact resultant_Z_morph. Qed.
Print Assumptions C04_ref_is_sylvester_morphism.

(* FULL, Z_p (what the srp correspondence relies on): for a prime p, operands reduced into the symmetric range of Z_p
   first, then any reference determinant over Z, read in Z_p = the Sylvester determinant over Z_p of the operands *)
Theorem C04_reduction_mod_p : forall (p k j : nat) (P Q : seq Z), prime p ->
  let red := ring_norm (Some (Z.of_nat p)) in
  to_Fp p (sylv_det Z 0 1 Z.add Z.opp Z.mul z_is_zero k j (map red P) (map red Q)) =
  sylv_det 'F_p 0 1 +%R -%R *%R (fun _ => false) k j (map (to_Fp p) P) (map (to_Fp p) Q).
Proof. exact sylv_det_Z_mod_p. Qed.
Print Assumptions C04_reduction_mod_p.

Theorem C04_reduction_mod_p_mpoly : forall (p : nat) (rho : var -> Z) (k j : nat) (P Q : seq mpoly), prime p ->
  let red := mp_map_coeff (ring_norm (Some (Z.of_nat p))) in
  to_Fp p (mp_eval rho (sylv_det mpoly [::] mp_one mp_add mp_neg mp_mul mp_is_zero k j (map red P) (map red Q))) =
  to_Fp p (mp_eval rho (sylv_det mpoly [::] mp_one mp_add mp_neg mp_mul mp_is_zero k j P Q)).
Proof. exact sylv_det_mp_mod_p. Qed.
Print Assumptions C04_reduction_mod_p_mpoly.

(* FULL: a vanishing (formal) leading coefficient of the first operand is expanded away *)
Theorem C04_vanishing_lc_step : forall p q : seq Z, (0 < size p)%N ->
  resultant_Z (rcons p 0) q = (-1) ^+ (size q).-1 * nth 0 q (size q).-1 * resultant_Z p q.
Proof. exact resultant_Z_lcp0. Qed.
Print Assumptions C04_vanishing_lc_step.

(* FULL (the last sentence of C04, for the reference, at integer points of the parameters): for operands of formal degree
   >= 1 the resultant vanishes under the assignment exactly when both leading coefficients vanish or the specialised
   polynomials have a common factor of positive degree (= a common root in an algebraic closure) *)
Theorem C04_resultant_vanishes_iff : forall (rho : var -> Z) (p q : seq mpoly),
  (0 < (size p).-1)%N -> (0 < (size q).-1)%N ->
  (mp_eval rho (resultant_mp p q) == 0) =
  ((mp_eval rho (nth [::] p (size p).-1) == 0) && (mp_eval rho (nth [::] q (size q).-1) == 0))
  || (1 < size (gcdp (Poly (spec_coeffs rho p)) (Poly (spec_coeffs rho q))))%N.
Proof. exact resultant_mp_eq0. Qed.
Print Assumptions C04_resultant_vanishes_iff.

Theorem C04_resultant_vanishes_iff_Z : forall p q : seq Z,
  (0 < (size p).-1)%N -> (0 < (size q).-1)%N ->
  (resultant_Z p q == 0) =
  ((nth 0 p (size p).-1 == 0) && (nth 0 q (size q).-1 == 0)) || (1 < size (gcdp (Poly p) (Poly q)))%N.
Proof. exact resultant_Z_eq0_formal. Qed.
Print Assumptions C04_resultant_vanishes_iff_Z.

(* FULL: the fast reference of the driver (dimension > 11, at most one parameter): fraction-free Bareiss elimination
   (RefAlg.pdet_fast, Properties_Base.Base_pdet_fast_det) on the SAME matrices sylv_mat k j, entries list polynomials in
   the parameter, is the determinant of that matrix, for every k <= min(m, n) and every j *)
Theorem C04_fast_det_is_det : forall (k j : nat) (p q : seq (seq Z)),
  let m := (size p).-1 in let n := (size q).-1 in
  (k <= m)%N -> (k <= n)%N ->
  Poly (pdet_fast (sylv_mat (seq Z) [::] k j p q)) =
  \det (\matrix_(i < m + n - 2 * k, c < m + n - 2 * k)
          (Poly (nth [::] (nth [::] (sylv_mat (seq Z) [::] k j p q) i) c) : {poly Z})).
Proof. exact fast_det_is_det. Qed.
Print Assumptions C04_fast_det_is_det.

(* FULL (bookkeeping): psc_k is the coefficient of x^k of the k-th subresultant *)
Theorem C04_psc_is_top_coefficient : forall (k : nat) (p q : seq mpoly),
  nth [::] (subres_mp k p q) k = psc_mp k p q.
Proof. exact (psc_is_top_coefficient [::] mp_one mp_add mp_neg mp_mul mp_is_zero). Qed.
Print Assumptions C04_psc_is_top_coefficient.

(* ---- 5. the faithful model: the swap branch of coefficient_resultant.
   COND (premise = the ORACLE claim for the unswapped call): if the computation on (B, A), deg B > deg A, returns a
   polynomial with the values of the reference resultant of (B, A), then the call on (A, B) - which swaps and negates
   when both degrees are odd - returns one with the values of the reference resultant of (A, B). *)
Theorem C04_swap_branch_cond : forall (fuel : nat) (A B r : srpoly),
  (cp_deg A < cp_deg B)%N ->
  sr_lp_resultant fuel B A = SrOk r ->
  (forall rho, mp_eval rho (cp_coeff r 0) = mp_eval rho (resultant_mp B A)) ->
  exists r', sr_lp_resultant fuel A B = SrOk r' /\
             forall rho, mp_eval rho (cp_coeff r' 0) = mp_eval rho (resultant_mp A B).
Proof. exact sr_lp_resultant_swap_cond. Qed.
Print Assumptions C04_swap_branch_cond.

(* ---- 6. NOT proved (ORACLE): libpoly's optimised chain, as transcribed in Subres.v, computes the reference.
   Validated on every run by the three-way correspondence (libpoly = reference = faithful model). *)
Definition C04_full_statement : Prop :=
  forall (fuel : nat) (p q : seq mpoly),
    cp_norm p = p -> cp_norm q = q -> (0 < (size p).-1)%N -> (0 < (size q).-1)%N ->
    let hi := if ((size p).-1 < (size q).-1)%N then q else p in
    let lo := if ((size p).-1 < (size q).-1)%N then p else q in
    (forall r, sr_lp_resultant fuel p q = SrOk r -> r = cp_norm [:: resultant_mp p q]) /\
    (forall l, sr_lp_psc fuel p q = SrOk l -> l = map (fun c => cp_norm [:: c]) (psc_chain_mp hi lo)) /\
    (forall l, sr_lp_subres fuel p q = SrOk l -> l = map cp_norm (subres_chain_mp hi lo)).

(* NOT proved: the first k psc vanish iff the gcd has degree >= k (checked by the driver on integer inputs) *)
Definition C04_psc_gcd_full_statement : Prop :=
  forall (p q : seq Z) (k : nat), last 1 p != 0 -> last 1 q != 0 -> (size q <= size p)%N -> (k < size q)%N ->
    (forall i, (i < k)%N -> psc_Z i p q = 0) <-> (k < size (gcdp (Poly p) (Poly q)))%N.

(* ---- non-vacuity: the hypotheses are satisfiable and the statements say something on concrete data *)
Delimit Scope Z_scope with coqZ.
Example C04_ex_resultant : resultant_Z [:: 3; 2] [:: 5; 7] = (-11)%coqZ.
Proof. by vm_compute. Qed.
Example C04_ex_normal : last 1 [:: 3; 2]%coqZ != 0 /\ last 1 [:: 5; 7]%coqZ != 0.
Proof. by []. Qed.
Example C04_ex_chain : psc_chain_Z [:: 1; 2; 3; 4]%coqZ [:: 5; 6; 7]%coqZ = [:: 832; -24; 7]%coqZ
  /\ subres_chain_Z [:: 1; 2; 3; 4]%coqZ [:: 5; 6; 7]%coqZ = [:: [:: 832]; [:: 64; -24]; [:: 5; 6; 7]]%coqZ.
Proof. by vm_compute. Qed.
Example C04_ex_common_factor : resultant_Z [:: -2; 1; 1]%coqZ [:: -1; 0; 1]%coqZ = 0%coqZ.   (* (x-1)(x+2), (x-1)(x+1) *)
Proof. by vm_compute. Qed.
Example C04_ex_model_agrees :
  sr_lp_subres 50 (map mp_const [:: 1; 2; 3; 4]%coqZ) (map mp_const [:: 5; 6; 7]%coqZ)
  = SrOk (map (map mp_const) [:: [:: 832]; [:: 64; -24]; [:: 5; 6; 7]]%coqZ).
Proof. by vm_compute. Qed.
Example C04_ex_formal_degree : (0 < (size [:: 1; 2; 0]%coqZ).-1)%N /\ resultant_Z [:: 1; 2; 0]%coqZ [:: 3; 0; 0]%coqZ = 0%coqZ.
Proof. by vm_compute. Qed.
(* C04_swap_branch_cond: both hypotheses hold for A = 2x+3 (deg 1), B = x^3+x+1 (deg 3): res(B,A) = 31, res(A,B) = -31 *)
Example C04_ex_swap_branch :
  let A := map mp_const [:: 3; 2]%coqZ in let B := map mp_const [:: 1; 1; 0; 1]%coqZ in
  (cp_deg A < cp_deg B)%N /\ sr_lp_resultant 50 B A = SrOk [:: mp_const 31%coqZ]
  /\ resultant_mp B A = mp_const 31%coqZ /\ sr_lp_resultant 50 A B = SrOk [:: mp_const (-31)%coqZ].
Proof. by vm_compute. Qed.
(* Z_p: 7 is prime; the seeded example x^3+2x^2+yx+3, 2x^2+x+y at y = 1: integer resultant 43 = 1 in Z_7 *)
Example C04_ex_mod_p : prime 7 /\ resultant_Z [:: 3; 1; 2; 1]%coqZ [:: 1; 1; 2]%coqZ = 43%coqZ
  /\ ring_norm (Some 7%coqZ) 43%coqZ = 1%coqZ.
Proof. by vm_compute. Qed.
