(* Property C01, state anchor: the representation invariant "1 <= size <= capacity and every entry at or above
   `size` is zero" (c_slack_ok) is preserved by every operation of the faithful model Coefficient.v, hence over
   every sequence of in-place operations on a pool (c_run).  This is where coefficient_ensure_capacity has to
   raise `size` (History_C01.v refutes the invariant for the pre-repair function). *)
From Coq Require Import ZArith NArith List Bool Lia.
From LP Require Import Scalar MPoly Coefficient CoefficientOps.
Import ListNotations.

(* induction principle for the nested type *)
Lemma coef_ind' (P : coef -> Prop) :
  (forall z, P (CNum z)) ->
  (forall x size cs, Forall P cs -> P (CRec x size cs)) ->
  forall c, P c.
Proof.
  intros HN HR. fix IH 1. intros [z|x size cs]; [apply HN|].
  apply HR. induction cs as [|e cs IHcs]; constructor; [apply IH|exact IHcs].
Qed.

(* ---- list helpers *)
Lemma c_nth_upd i j v l : c_nth j (c_upd i v l) = if (Nat.eqb i j && Nat.ltb i (length l))%bool then v else c_nth j l.
Proof.
  unfold c_nth. revert i j. induction l as [|h t IH]; intros i j; simpl.
  - rewrite andb_false_r. destruct i, j; reflexivity.
  - destruct i, j; simpl; try reflexivity.
    rewrite IH. reflexivity.
Qed.
Lemma c_upd_length i v l : length (c_upd i v l) = length l.
Proof. revert i. induction l; intros [|i]; simpl; auto. Qed.
Lemma c_nth_overflow i l : (length l <= i)%nat -> c_nth i l = c_zero.
Proof. intros H. unfold c_nth. apply nth_overflow. exact H. Qed.
Lemma c_nth_repeat i n : c_nth i (repeat c_zero n) = c_zero.
Proof. unfold c_nth. revert i. induction n; intros [|i]; simpl; auto. Qed.
Lemma c_nth_app i l1 l2 : c_nth i (l1 ++ l2) = if Nat.ltb i (length l1) then c_nth i l1 else c_nth (i - length l1) l2.
Proof.
  unfold c_nth. destruct (Nat.ltb_spec i (length l1)).
  - apply app_nth1. exact H.
  - apply app_nth2. lia.
Qed.
Lemma c_nth_in i l : (i < length l)%nat -> In (c_nth i l) l.
Proof. intros. apply nth_In. exact H. Qed.

Lemma nth_skipn' {A} n (l : list A) k d : nth k (skipn n l) d = nth (n + k) l d.
Proof. revert l. induction n; intros [|a l]; simpl; auto. destruct k; reflexivity. Qed.

Lemma used_map_length f n l : length (used_map f n l) = Nat.min n (length l).
Proof. revert n. induction l; intros [|n]; simpl; auto. Qed.
Lemma c_nth_used_map f n l i : (i < n)%nat -> (i < length l)%nat -> c_nth i (used_map f n l) = f (c_nth i l).
Proof.
  unfold c_nth. revert n i. induction l as [|h t IH]; intros [|n] [|i] H1 H2; simpl in *; try lia; auto.
  apply IH; lia.
Qed.

Lemma opt_map_length {A B} (f : A -> option B) l r : opt_map f l = Some r -> length r = length l.
Proof.
  revert r. induction l as [|a l IH]; simpl; intros r H.
  - inversion H. reflexivity.
  - destruct (f a); [|discriminate]. destruct (opt_map f l) eqn:E; [|discriminate].
    inversion H. simpl. rewrite (IH l0); auto.
Qed.
Lemma opt_map_nth {A B} (f : A -> option B) l r (da : A) (db : B) i :
  opt_map f l = Some r -> (i < length l)%nat -> f (nth i l da) = Some (nth i r db).
Proof.
  revert r i. induction l as [|a l IH]; simpl; intros r i H Hi; [lia|].
  destruct (f a) eqn:Ea; [|discriminate]. destruct (opt_map f l) eqn:E; [|discriminate].
  inversion H; subst. destruct i; simpl; auto. apply IH; auto. lia.
Qed.

Lemma opt_map_seq_nth (f : nat -> option coef) n r k :
  opt_map f (seq 0 n) = Some r -> (k < n)%nat -> f k = Some (c_nth k r).
Proof.
  intros Hr Hk. unfold c_nth.
  rewrite <- (opt_map_nth f (seq 0 n) r 0%nat c_zero k Hr) by (rewrite seq_length; exact Hk).
  rewrite seq_nth by exact Hk. reflexivity.
Qed.

Section Inv.
Variable K : ring.
Variable rk : var -> N.
Notation ok := (c_slack_ok K).
Notation isz := (c_is_zero K).

Lemma int_is_zero_0 : int_is_zero K 0 = true.
Proof. destruct K; reflexivity. Qed.
Lemma isz_zero : isz c_zero = true.
Proof. exact int_is_zero_0. Qed.
Lemma isz_ok e : isz e = true -> ok e = true.
Proof. destruct e; simpl; auto. discriminate. Qed.

Lemma used_all_iff f g n l :
  used_all f g n l = true <->
  (n <= length l)%nat /\ (forall k, (k < n)%nat -> f (nth k l c_zero) = true) /\ g (skipn n l) = true.
Proof.
  revert n. induction l as [|e l IH]; intros [|n]; simpl.
  - split; [intros H; repeat split; auto; intros; lia|intros (_ & _ & H); exact H].
  - split; [discriminate|intros (H & _); lia].
  - split; [intros H; repeat split; auto; try lia; intros; lia|intros (_ & _ & H); exact H].
  - rewrite andb_true_iff, IH. split.
    + intros (H1 & H2 & H3 & H4). repeat split; auto; try lia.
      intros [|k] Hk; auto. apply H3. lia.
    + intros (H1 & H2 & H3). repeat split; auto; try lia.
      * apply (H2 0%nat). lia.
      * intros k Hk. apply (H2 (S k)). lia.
Qed.

Lemma forallb_skipn_iff (P : coef -> bool) n l : P c_zero = true ->
  forallb P (skipn n l) = true <-> (forall k, (n <= k)%nat -> P (nth k l c_zero) = true).
Proof.
  intros P0. revert n. induction l as [|e l IH]; intros n.
  - rewrite skipn_nil. simpl. split; auto. intros _ k _. destruct k; exact P0.
  - destruct n; simpl.
    + rewrite andb_true_iff. rewrite (IH 0%nat). simpl. split.
      * intros [H1 H2] [|k] _; auto. apply H2. lia.
      * intros H. split; [apply (H 0%nat); lia|]. intros k _. apply (H (S k)). lia.
    + rewrite IH. split.
      * intros H [|k] Hk; [lia|]. apply H. lia.
      * intros H k Hk. apply (H (S k)). lia.
Qed.

(* the invariant in terms of entries *)
Lemma ok_rec_iff x size cs :
  ok (CRec x size cs) = true <->
  (1 <= size <= length cs)%nat /\ (forall k, (k < size)%nat -> ok (c_nth k cs) = true) /\
  (forall k, (size <= k)%nat -> isz (c_nth k cs) = true).
Proof.
  change (ok (CRec x size cs)) with (Nat.leb 1 size && used_all ok (forallb isz) size cs)%bool.
  rewrite andb_true_iff, Nat.leb_le, used_all_iff, (forallb_skipn_iff _ _ _ isz_zero).
  unfold c_nth. intuition lia.
Qed.

Lemma ok_nth x size cs i : ok (CRec x size cs) = true -> ok (c_nth i cs) = true.
Proof.
  intros H. apply ok_rec_iff in H. destruct H as (H1 & H2 & H3).
  destruct (Nat.ltb_spec i size); [apply H2; auto|apply isz_ok, H3; auto].
Qed.

Lemma ok_rec_full x cs : (1 <= length cs)%nat -> (forall k, ok (c_nth k cs) = true) -> ok (CRec x (length cs) cs) = true.
Proof.
  intros H1 H2. apply ok_rec_iff. repeat split; auto.
  intros k Hk. rewrite c_nth_overflow by lia. exact isz_zero.
Qed.

Lemma ok_upd x size cs i v :
  ok (CRec x size cs) = true -> ok v = true -> (i < size)%nat -> ok (CRec x size (c_upd i v cs)) = true.
Proof.
  intros H Hv Hi. apply ok_rec_iff in H. destruct H as (H1 & H2 & H3).
  apply ok_rec_iff. rewrite c_upd_length. repeat split; try lia.
  - intros k Hk. rewrite c_nth_upd. destruct (Nat.eqb i k && Nat.ltb i (length cs))%bool; auto.
  - intros k Hk. rewrite c_nth_upd. destruct (Nat.eqb_spec i k); [lia|]. simpl. auto.
Qed.

(* ---- normalize *)
Lemma norm_scan_le cs n : (norm_scan K cs n <= n)%nat.
Proof. induction n; simpl; auto. destruct (isz (c_nth (S n) cs)); lia. Qed.
Lemma norm_scan_zero cs n k : (norm_scan K cs n < k <= n)%nat -> isz (c_nth k cs) = true.
Proof.
  induction n; simpl; [lia|].
  destruct (isz (c_nth (S n) cs)) eqn:E; [|lia].
  intros H. destruct (Nat.eq_dec k (S n)); [subst; exact E|apply IHn; lia].
Qed.

Lemma ok_normalize c : ok c = true -> ok (c_normalize K c) = true.
Proof.
  destruct c as [z|x size cs]; auto. intros H. unfold c_normalize.
  destruct (norm_scan K cs (Nat.pred size)) eqn:E.
  - apply (ok_nth _ _ _ _ H).
  - rewrite <- E. pose proof (norm_scan_le cs (Nat.pred size)) as Hle.
    apply ok_rec_iff in H. destruct H as (H1 & H2 & H3). apply ok_rec_iff. repeat split; try lia.
    + intros k Hk. apply H2. lia.
    + intros k Hk. destruct (Nat.ltb_spec k size); [|apply H3; lia].
      apply (norm_scan_zero cs (Nat.pred size)). lia.
Qed.

(* ---- ensure_capacity (repaired) *)
Lemma ok_cons_zeros x c n : ok c = true -> ok (CRec x (S n) (c :: repeat c_zero n)) = true.
Proof.
  intros Hc. replace (S n) with (length (c :: repeat c_zero n)) at 1 by (simpl; rewrite repeat_length; reflexivity).
  apply ok_rec_full; [simpl; lia|].
  intros [|k]; [exact Hc|]. unfold c_nth. simpl. fold (c_nth k (repeat c_zero n)). rewrite c_nth_repeat. reflexivity.
Qed.

Lemma ok_ensure_capacity x cap c : ok c = true -> (1 <= cap)%nat -> ok (c_ensure_capacity x cap c) = true.
Proof.
  intros Hc Hcap. destruct cap as [|n]; [lia|].
  destruct c as [z|y size cs]; unfold c_ensure_capacity; simpl Nat.pred; [apply ok_cons_zeros; auto|].
  destruct (N.eqb x y); cbn [negb]; [|apply ok_cons_zeros; auto].
  pose proof Hc as Hc'. apply ok_rec_iff in Hc'. destruct Hc' as (H1 & H2 & H3).
  destruct (Nat.ltb_spec (length cs) (S n)).
  - apply ok_rec_iff. rewrite app_length, repeat_length. repeat split; try lia.
    + intros k Hk. rewrite c_nth_app. destruct (Nat.ltb_spec k (length cs)).
      * apply (ok_nth _ _ _ _ Hc).
      * rewrite c_nth_repeat. reflexivity.
    + intros k Hk. rewrite c_nth_overflow; [exact isz_zero|]. rewrite app_length, repeat_length. lia.
  - destruct (Nat.ltb_spec size (S n)); [|exact Hc].
    apply ok_rec_iff. repeat split; try lia.
    + intros k Hk. apply (ok_nth _ _ _ _ Hc).
    + intros k Hk. apply H3. lia.
Qed.

(* the size after ensure_capacity covers the requested capacity: the fact the callers rely on *)
Lemma ensure_capacity_size x cap c :
  match c_ensure_capacity x cap c with CRec _ size _ => (cap <= size)%nat | CNum _ => False end.
Proof.
  destruct c as [z|y size cs]; unfold c_ensure_capacity; [lia|].
  destruct (N.eqb x y); cbn [negb]; [|lia].
  destruct (Nat.ltb_spec (length cs) cap); [lia|].
  destruct (Nat.ltb_spec size cap); lia.
Qed.

(* ---- copy / assign / neg / mul_integer / derivative *)
Lemma ok_used_map x size cs (f : coef -> coef) :
  ok (CRec x size cs) = true -> (forall k, (k < size)%nat -> ok (f (c_nth k cs)) = true) ->
  ok (CRec x size (used_map f size cs)) = true.
Proof.
  intros H Hf. apply ok_rec_iff in H. destruct H as (H1 & H2 & H3).
  assert (L : length (used_map f size cs) = size) by (rewrite used_map_length; lia).
  rewrite <- L at 1. apply ok_rec_full; [lia|].
  intros k. destruct (Nat.ltb_spec k size).
  - rewrite c_nth_used_map by lia. auto.
  - rewrite c_nth_overflow by lia. reflexivity.
Qed.

Lemma ok_copy c : ok c = true -> ok (c_copy c) = true.
Proof.
  induction c as [z|x size cs IH] using coef_ind'; auto. intros H. cbn [c_copy].
  apply ok_used_map; auto. intros k Hk. rewrite Forall_forall in IH.
  pose proof H as H'. apply ok_rec_iff in H'. apply IH; [apply c_nth_in; lia|apply (ok_nth _ _ _ _ H)].
Qed.

Lemma ok_assign c : ok c = true -> ok (c_assign K c) = true.
Proof. destruct c; auto. apply ok_copy. Qed.

Lemma ok_neg b c : ok c = true -> ok (c_neg K b c) = true.
Proof.
  induction c as [z|x size cs IH] using coef_ind'; auto. intros H. cbn [c_neg].
  pose proof H as H'. apply ok_rec_iff in H'. destruct H' as (H1 & H2 & H3). rewrite Forall_forall in IH.
  set (f := fun e => if isz e then if b then e else c_zero else c_neg K b e).
  assert (Hf : forall k, (k < size)%nat -> ok (f (c_nth k cs)) = true).
  { intros k Hk. unfold f. destruct (isz (c_nth k cs)) eqn:E.
    - destruct b; auto.
    - apply IH; [apply c_nth_in; lia|auto]. }
  destruct b.
  - (* in place: entries replaced where they are, slack kept *)
    assert (L : length (used_map f size cs) = size) by (rewrite used_map_length; lia).
    apply ok_rec_iff. rewrite app_length, L, skipn_length. repeat split; try lia.
    + intros k Hk. rewrite c_nth_app, L. destruct (Nat.ltb_spec k size); [|lia].
      rewrite c_nth_used_map by lia. auto.
    + intros k Hk. rewrite c_nth_app, L. destruct (Nat.ltb_spec k size); [lia|].
      unfold c_nth. rewrite nth_skipn'. replace (size + (k - size))%nat with k by lia. apply H3. lia.
  - apply ok_normalize. apply ok_used_map; auto.
Qed.

Lemma ok_mul_integer a c : ok c = true -> ok (c_mul_integer K a c) = true.
Proof.
  induction c as [z|x size cs IH] using coef_ind'; auto. intros H. cbn [c_mul_integer].
  apply ok_normalize, ok_used_map; auto. intros k Hk. rewrite Forall_forall in IH.
  pose proof H as H'. apply ok_rec_iff in H'.
  destruct (isz (c_nth k cs)); auto. apply IH; [apply c_nth_in; lia|apply (ok_nth _ _ _ _ H)].
Qed.

Lemma c_nth_map_seq (f : nat -> coef) n k : (k < n)%nat -> c_nth k (map f (seq 0 n)) = f k.
Proof.
  intros H. unfold c_nth. rewrite (nth_indep _ c_zero (f 0%nat)) by (rewrite map_length, seq_length; exact H).
  rewrite (map_nth f (seq 0 n) 0%nat k). rewrite seq_nth by exact H. reflexivity.
Qed.

Lemma ok_derivative c : ok c = true -> ok (c_derivative K c) = true.
Proof.
  destruct c as [z|x size cs]; auto. intros H. unfold c_derivative. apply ok_normalize.
  pose proof H as H'. apply ok_rec_iff in H'. destruct H' as (H1 & _).
  set (l := map _ (seq 0 size)).
  assert (L : length l = size) by (unfold l; rewrite map_length, seq_length; reflexivity).
  rewrite <- L at 1. apply ok_rec_full; [lia|].
  intros k. destruct (Nat.ltb_spec k size).
  - unfold l. rewrite c_nth_map_seq by exact H0. destruct (Nat.ltb (S k) size); auto.
    apply ok_mul_integer. apply (ok_nth _ _ _ _ H).
  - rewrite c_nth_overflow by lia. reflexivity.
Qed.

(* ---- results assembled entry by entry with opt_map over the indices *)
Lemma ok_opt_map_rec x n (f : nat -> option coef) r :
  (1 <= n)%nat -> opt_map f (seq 0 n) = Some r ->
  (forall k v, (k < n)%nat -> f k = Some v -> ok v = true) ->
  ok (CRec x n r) = true.
Proof.
  intros Hn Hr Hf. pose proof (opt_map_length _ _ _ Hr) as L. rewrite seq_length in L.
  rewrite <- L at 1. apply ok_rec_full; [lia|].
  intros k. destruct (Nat.ltb_spec k n).
  - apply (Hf k); auto. unfold c_nth.
    rewrite <- (opt_map_nth f (seq 0 n) r 0%nat c_zero k Hr) by (rewrite seq_length; exact H).
    rewrite seq_nth by exact H. reflexivity.
  - rewrite c_nth_overflow by lia. reflexivity.
Qed.

Lemma ok_add fuel a b r : ok a = true -> ok b = true -> c_add K rk fuel a b = Some r -> ok r = true.
Proof.
  revert a b r. induction fuel as [|f IH]; intros a b r Ha Hb; cbn [c_add]; [discriminate|].
  destruct (cmp_type rk a b) eqn:Ecmp.
  - destruct a as [z1|x sa ca], b as [z2|y sb cb]; try discriminate.
    + intros H; injection H as <-; reflexivity.
    + destruct (opt_map _ (seq 0 (Nat.max sa sb))) eqn:E; [|discriminate].
      intros H; injection H as <-. apply (ok_normalize (CRec x (Nat.max sa sb) l)).
      pose proof Ha as Ha'. apply ok_rec_iff in Ha'. pose proof Hb as Hb'. apply ok_rec_iff in Hb'.
      assert (Hn : (1 <= Nat.max sa sb)%nat) by lia.
      apply (ok_opt_map_rec _ _ _ _ Hn E).
      intros k v Hk. cbv beta. destruct (Nat.ltb k sa); [destruct (Nat.ltb k sb)|].
      * apply IH; [apply (ok_nth _ _ _ _ Ha)|apply (ok_nth _ _ _ _ Hb)].
      * intros Hv; injection Hv as <-. apply ok_assign, (ok_nth _ _ _ _ Ha).
      * intros Hv; injection Hv as <-. apply ok_assign, (ok_nth _ _ _ _ Hb).
  - (* a < b *)
    pose proof (ok_copy _ Hb) as Hcb. destruct (c_copy b) as [|y sb cb'] eqn:Ecb; [discriminate|].
    destruct b as [|y' sb' cb]; [discriminate|].
    destruct (c_add K rk f a (c_nth 0 cb)) eqn:E; [|discriminate].
    intros H; injection H as <-. apply (ok_upd y sb cb' 0%nat c); auto.
    + apply (IH _ _ _ Ha (ok_nth _ _ _ 0%nat Hb) E).
    + apply ok_rec_iff in Hcb. lia.
  - pose proof (ok_copy _ Ha) as Hca. destruct (c_copy a) as [|x sa ca'] eqn:Eca; [discriminate|].
    destruct a as [|x' sa' ca]; [discriminate|].
    destruct (c_add K rk f (c_nth 0 ca) b) eqn:E; [|discriminate].
    intros H; injection H as <-. apply (ok_upd x sa ca' 0%nat c); auto.
    + apply (IH _ _ _ (ok_nth _ _ _ 0%nat Ha) Hb E).
    + apply ok_rec_iff in Hca. lia.
Qed.

Lemma ok_sub fuel a b r : ok a = true -> ok b = true -> c_sub K rk fuel a b = Some r -> ok r = true.
Proof.
  revert a b r. induction fuel as [|f IH]; intros a b r Ha Hb; cbn [c_sub]; [discriminate|].
  destruct (cmp_type rk a b) eqn:Ecmp.
  - destruct a as [z1|x sa ca], b as [z2|y sb cb]; try discriminate.
    + intros H; injection H as <-; reflexivity.
    + destruct (opt_map _ (seq 0 (Nat.max sa sb))) eqn:E; [|discriminate].
      intros H; injection H as <-. apply (ok_normalize (CRec x (Nat.max sa sb) l)).
      pose proof Ha as Ha'. apply ok_rec_iff in Ha'. pose proof Hb as Hb'. apply ok_rec_iff in Hb'.
      assert (Hn : (1 <= Nat.max sa sb)%nat) by lia.
      apply (ok_opt_map_rec _ _ _ _ Hn E).
      intros k v Hk. cbv beta. destruct (Nat.ltb k sa); [destruct (Nat.ltb k sb)|].
      * apply IH; [apply (ok_nth _ _ _ _ Ha)|apply (ok_nth _ _ _ _ Hb)].
      * intros Hv; injection Hv as <-. apply ok_assign, (ok_nth _ _ _ _ Ha).
      * intros Hv; injection Hv as <-. apply ok_neg, (ok_nth _ _ _ _ Hb).
  - destruct (c_sub K rk f b a) eqn:E; [|discriminate].
    intros H; injection H as <-. apply ok_neg. apply (IH _ _ _ Hb Ha E).
  - pose proof (ok_copy _ Ha) as Hca. destruct (c_copy a) as [|x sa ca'] eqn:Eca; [discriminate|].
    destruct a as [|x' sa' ca]; [discriminate|].
    destruct (c_sub K rk f (c_nth 0 ca) b) eqn:E; [|discriminate].
    intros H; injection H as <-. apply (ok_upd x sa ca' 0%nat c); auto.
    + apply (IH _ _ _ (ok_nth _ _ _ 0%nat Ha) Hb E).
    + apply ok_rec_iff in Hca. lia.
Qed.

(* ---- multiplication *)
Lemma ok_all_nth (l : list coef) : (forall k, ok (c_nth k l) = true) <-> Forall (fun e => ok e = true) l.
Proof.
  rewrite Forall_forall. split.
  - intros H e He. destruct (In_nth _ _ c_zero He) as (k & Hk & <-). apply H.
  - intros H k. destruct (Nat.ltb_spec k (length l)); [apply H, c_nth_in; auto|rewrite c_nth_overflow by lia; reflexivity].
Qed.

Lemma ok_mul F fuel a b r : ok a = true -> ok b = true -> c_mul K rk F fuel a b = Some r -> ok r = true.
Proof.
  revert a b r. induction fuel as [|f IH]; intros a b r Ha Hb; cbn [c_mul]; [discriminate|].
  (* the inlined coefficient_add_mul *)
  assert (AM : forall s u v w, ok s = true -> ok u = true -> ok v = true ->
     match c_all_num s u v with
     | Some (zs, zx, zy) => Some (CNum (int_add_mul K zs zx zy))
     | None => match c_mul K rk F f u v with None => None | Some m => c_add K rk F s m end
     end = Some w -> ok w = true).
  { intros s u v w Hs Hu Hv. destruct (c_all_num s u v) as [[[zs zx] zy]|].
    - intros H; injection H as <-; reflexivity.
    - destruct (c_mul K rk F f u v) eqn:E; [|discriminate]. intros H.
      apply (ok_add _ _ _ _ Hs (IH _ _ _ Hu Hv E) H). }
  destruct (cmp_type rk a b) eqn:Ecmp.
  - destruct a as [z1|x sa ca], b as [z2|y sb cb]; try discriminate.
    + intros H; injection H as <-; reflexivity.
    + pose proof Ha as Ha'. apply ok_rec_iff in Ha'. pose proof Hb as Hb'. apply ok_rec_iff in Hb'.
      set (cap := (sa + sb - 1)%nat).
      match goal with |- match fold_left ?st ?l ?i with _ => _ end = _ -> _ => set (step := st); set (pairs := l) end.
      assert (INV : forall l acc res, fold_left step l acc = Some res ->
                forall r0, acc = Some r0 -> length r0 = cap -> (forall k, ok (c_nth k r0) = true) ->
                length res = cap /\ (forall k, ok (c_nth k res) = true)).
      { induction l as [|[i j] l IHl]; simpl; intros acc res Hres r0 -> L0 H0.
        - injection Hres as <-. auto.
        - cbv beta iota delta [step] in Hres.
          destruct (isz (c_nth i ca) || isz (c_nth j cb))%bool.
          + apply (IHl _ _ Hres r0 eq_refl L0 H0).
          + match type of Hres with fold_left _ _ (match ?am with _ => _ end) = _ => destruct am as [v|] eqn:Eam end.
            * apply (IHl _ _ Hres (c_upd (i + j) v r0) eq_refl).
              -- rewrite c_upd_length. exact L0.
              -- intros k. rewrite c_nth_upd. destruct (_ && _)%bool; auto.
                 apply (AM _ _ _ _ (H0 _) (ok_nth _ _ _ i Ha) (ok_nth _ _ _ j Hb) Eam).
            * exfalso. clear - Hres. induction l as [|[i' j'] l IHl']; simpl in Hres; [discriminate|auto]. }
      destruct (fold_left step pairs (Some (repeat c_zero cap))) as [res|] eqn:Efold; [|discriminate].
      intros H; injection H as <-.
      destruct (INV _ _ _ Efold (repeat c_zero cap) eq_refl (repeat_length _ _)) as [L Hres].
      { intros k. rewrite c_nth_repeat. reflexivity. }
      apply (ok_normalize (CRec x cap res)). rewrite <- L at 1. apply ok_rec_full; [unfold cap in L; lia|auto].
  - destruct b as [|y sb cb]; [discriminate|].
    destruct (opt_map _ (seq 0 sb)) eqn:E; [|discriminate].
    intros H; injection H as <-. apply (ok_normalize (CRec y sb l)).
    pose proof Hb as Hb'. apply ok_rec_iff in Hb'.
    assert (Hn : (1 <= sb)%nat) by lia.
    apply (ok_opt_map_rec _ _ _ _ Hn E). intros k v Hk. cbv beta.
    destruct (isz (c_nth k cb)).
    + intros Hv; injection Hv as <-; reflexivity.
    + apply IH; [exact Ha|apply (ok_nth _ _ _ _ Hb)].
  - destruct a as [|x sa ca]; [discriminate|].
    destruct (opt_map _ (seq 0 sa)) eqn:E; [|discriminate].
    intros H; injection H as <-. apply (ok_normalize (CRec x sa l)).
    pose proof Ha as Ha'. apply ok_rec_iff in Ha'.
    assert (Hn : (1 <= sa)%nat) by lia.
    apply (ok_opt_map_rec _ _ _ _ Hn E). intros k v Hk. cbv beta.
    apply IH; [apply (ok_nth _ _ _ _ Ha)|exact Hb].
Qed.

Lemma ok_add_mul F s a b r : ok s = true -> ok a = true -> ok b = true -> c_add_mul K rk F s a b = Some r -> ok r = true.
Proof.
  intros Hs Ha Hb. unfold c_add_mul. destruct (c_all_num s a b) as [[[zs za] zb]|].
  - intros H; injection H as <-; reflexivity.
  - destruct (c_mul K rk F F a b) eqn:E; [|discriminate]. intros H.
    apply (ok_add _ _ _ _ Hs (ok_mul _ _ _ _ _ Ha Hb E) H).
Qed.
Lemma ok_sub_mul F s a b r : ok s = true -> ok a = true -> ok b = true -> c_sub_mul K rk F s a b = Some r -> ok r = true.
Proof.
  intros Hs Ha Hb. unfold c_sub_mul. destruct (c_all_num s a b) as [[[zs za] zb]|].
  - intros H; injection H as <-; reflexivity.
  - destruct (c_mul K rk F F a b) eqn:E; [|discriminate]. intros H.
    apply (ok_sub _ _ _ _ Hs (ok_mul _ _ _ _ _ Ha Hb E) H).
Qed.

(* ---- pow *)
Lemma ok_pow_loop F fuel res tmp n r :
  ok res = true -> ok tmp = true -> c_pow_loop K rk F fuel res tmp n = Some r -> ok r = true.
Proof.
  revert res tmp n r. induction fuel as [|f IH]; intros res tmp n r Hres Htmp; cbn [c_pow_loop]; [discriminate|].
  destruct (N.eqb n 0); [intros H; injection H as <-; exact Hres|].
  destruct (if N.odd n then c_mul K rk F F res tmp else Some res) as [res'|] eqn:E1; [|discriminate].
  destruct (c_mul K rk F F tmp tmp) as [tmp'|] eqn:E2; [|discriminate].
  apply IH.
  - destruct (N.odd n); [apply (ok_mul _ _ _ _ _ Hres Htmp E1)|injection E1 as <-; exact Hres].
  - apply (ok_mul _ _ _ _ _ Htmp Htmp E2).
Qed.

Lemma ok_pow F c n r : ok c = true -> c_pow K rk F c n = Some r -> ok r = true.
Proof.
  intros Hc. unfold c_pow. destruct (N.eqb n 0); [intros H; injection H as <-; reflexivity|].
  destruct (N.eqb n 1); [intros H; injection H as <-; apply ok_assign, Hc|].
  destruct c as [z|x size cs]; [intros H; injection H as <-; reflexivity|].
  destruct (c_pow_loop _ _ _ _ _ _ _) eqn:E; [|discriminate].
  intros H; injection H as <-. apply ok_normalize.
  refine (ok_pow_loop _ _ _ _ _ _ _ (ok_copy _ Hc) E).
  apply ok_ensure_capacity; [reflexivity|apply Nat.le_add_l].
Qed.

(* ---- shl, with any ensure_capacity that keeps the invariant and delivers the requested size *)
Definition good_ens (ens : var -> nat -> coef -> coef) : Prop :=
  forall x cap c, ok c = true -> (1 <= cap)%nat ->
    ok (ens x cap c) = true /\ match ens x cap c with CRec _ size _ => (cap <= size)%nat | CNum _ => False end.

Lemma good_ens_repaired : good_ens c_ensure_capacity.
Proof. intros x cap c Hc Hcap. split; [apply ok_ensure_capacity; auto|apply ensure_capacity_size]. Qed.

Lemma ok_swap x size cs i j : ok (CRec x size cs) = true -> (i < size)%nat -> (j < size)%nat ->
  ok (CRec x size (c_upd i (c_nth j cs) (c_upd j (c_nth i cs) cs))) = true.
Proof.
  intros H Hi Hj. apply ok_upd; auto.
  - apply ok_upd; auto. apply (ok_nth _ _ _ _ H).
  - apply (ok_nth _ _ _ _ H).
Qed.

Lemma ok_shl_gen ens s0 x n : good_ens ens -> ok s0 = true -> ok (c_shl_gen K ens s0 x n) = true.
Proof.
  intros Hens H0. unfold c_shl_gen. destruct (isz s0 || Nat.eqb n 0)%bool eqn:Ez; [exact H0|].
  apply orb_false_iff in Ez. destruct Ez as [_ En]. apply Nat.eqb_neq in En.
  set (old := match s0 with CNum _ => 1%nat | CRec y size _ => if N.eqb y x then size else 1%nat end).
  assert (Hold : (1 <= old)%nat).
  { unfold old. destruct s0 as [|y size cs]; auto. destruct (N.eqb y x); auto. apply ok_rec_iff in H0. lia. }
  destruct (Hens x (old + n)%nat s0 H0 ltac:(lia)) as [Hok Hsz].
  destruct (ens x (old + n)%nat s0) as [|y size cs]; [contradiction|].
  assert (G : forall l cs0, (forall i, In i l -> (i < old)%nat) -> ok (CRec y size cs0) = true ->
     ok (CRec y size (fold_left (fun l0 i => if isz (c_nth i l0) then l0
            else c_upd i (c_nth (i + n) l0) (c_upd (i + n) (c_nth i l0) l0)) l cs0)) = true).
  { induction l as [|i l IHl]; simpl; intros cs0 Hl Hcs0; auto.
    apply IHl; [intros; apply Hl; auto|].
    destruct (isz (c_nth i cs0)); auto. apply ok_swap; auto.
    - assert (i < old)%nat by (apply Hl; auto). lia.
    - assert (i < old)%nat by (apply Hl; auto). lia. }
  apply G; auto. intros i Hi. apply in_rev in Hi. apply in_seq in Hi. lia.
Qed.

(* ---- add_ordered_monomial *)
Lemma ok_add_om_gen ens fuel m a c r : good_ens ens -> ok c = true ->
  c_add_om_gen K rk ens fuel m a c = Some r -> ok r = true.
Proof.
  intros Hens. revert m c r. induction fuel as [|f IH]; intros m c r Hc; cbn [c_add_om_gen]; [discriminate|].
  destruct m as [|[x d] m'].
  - destruct c as [z|x size cs]; [intros H; injection H as <-; reflexivity|].
    destruct (c_add_om_gen K rk ens f [] a (c_nth 0 cs)) eqn:E; [|discriminate].
    intros H; injection H as <-. apply (ok_upd x size cs 0%nat c); auto.
    + apply (IH _ _ _ (ok_nth _ _ _ 0%nat Hc) E).
    + apply ok_rec_iff in Hc. lia.
  - destruct (match c with CNum _ => true | CRec y _ _ => match var_cmp rk x y with Lt => false | _ => true end end).
    + destruct (Hens x (S d) c Hc ltac:(lia)) as [Hok Hsz].
      destruct (ens x (S d) c) as [|y size cs]; [discriminate|].
      destruct (c_add_om_gen K rk ens f m' a (c_nth d cs)) eqn:E; [|discriminate].
      intros H; injection H as <-. apply (ok_normalize (CRec y size (c_upd d c0 cs))).
      apply ok_upd; [exact Hok|apply (IH _ _ _ (ok_nth _ _ _ d Hok) E)|lia].
    + destruct c as [z|y size cs]; [discriminate|].
      destruct (c_add_om_gen K rk ens f ((x, d) :: m') a (c_nth 0 cs)) eqn:E; [|discriminate].
      intros H; injection H as <-. apply (ok_upd y size cs 0%nat c); auto.
      * apply (IH _ _ _ (ok_nth _ _ _ 0%nat Hc) E).
      * apply ok_rec_iff in Hc. lia.
Qed.

Lemma ok_of_terms fuel l r : c_of_terms K rk fuel l = Some r -> ok r = true.
Proof.
  unfold c_of_terms.
  assert (G : forall l acc, match acc with Some c => ok c = true | None => True end ->
     forall r, fold_left (fun acc t => match acc with None => None | Some c => c_add_monomial K rk fuel (fst t) (snd t) c end) l acc = Some r -> ok r = true).
  { induction l0 as [|t l0 IHl]; simpl; intros acc Hacc r0.
    - intros ->. exact Hacc.
    - apply IHl. destruct acc as [c|]; auto.
      destruct (c_add_monomial K rk fuel (fst t) (snd t) c) eqn:E; auto.
      apply (ok_add_om_gen _ _ _ _ _ _ good_ens_repaired Hacc E). }
  apply G. reflexivity.
Qed.

Lemma ok_order fuel c r : ok c = true -> c_order K rk fuel c = Some r -> ok r = true.
Proof.
  intros Hc. unfold c_order. destruct c; [intros H; injection H as <-; exact Hc|apply ok_of_terms].
Qed.

End Inv.

(* ------------------------------------------------------------------ pools and operation sequences *)
Section Pool.
Variable K : ring.

Definition pool_ok (s : c_state) : Prop := Forall (fun c => c_slack_ok K c = true) (snd s).

Lemma pool_get s i : pool_ok s -> c_slack_ok K (c_get s i) = true.
Proof.
  intros H. unfold c_get. destruct (Nat.ltb_spec i (length (snd s))).
  - unfold pool_ok in H. rewrite Forall_forall in H. apply H, nth_In. exact H0.
  - rewrite nth_overflow by exact H0. reflexivity.
Qed.

Lemma pool_set (s : c_state) d c : pool_ok s -> c_slack_ok K c = true -> pool_ok (fst s, set_nth d c (snd s)).
Proof.
  unfold pool_ok. simpl. intros H Hc. revert d. induction H as [|e l He Hl IH]; intros [|d]; simpl; constructor; auto.
Qed.

Lemma opt_map_forall {A B} (f : A -> option B) (P : A -> Prop) (Q : B -> Prop) l r :
  (forall a b, P a -> f a = Some b -> Q b) -> Forall P l -> opt_map f l = Some r -> Forall Q r.
Proof.
  intros Hf Hl. revert r. induction Hl as [|a l Ha Hl IH]; simpl; intros r H.
  - injection H as <-. constructor.
  - destruct (f a) eqn:Ea; [|discriminate]. destruct (opt_map f l) eqn:E; [|discriminate].
    injection H as <-. constructor; eauto.
Qed.

(* one operation of the pool semantics keeps the invariant, for ANY ensure_capacity that is `good_ens` *)
Lemma step_ok ens F s o s' : good_ens K ens -> pool_ok s -> c_step_gen K ens F s o = Some s' -> pool_ok s'.
Proof.
  intros Hens Hs. unfold c_step_gen.
  set (rk := rk_of (fst s)).
  assert (PUT : forall d (r : option coef) s'',
            (forall c, r = Some c -> c_slack_ok K c = true) ->
            match r with None => None | Some c => Some (fst s, set_nth d c (snd s)) end = Some s'' -> pool_ok s'').
  { intros d [c|] s'' Hr H; [|discriminate]. injection H as <-. apply pool_set; auto. }
  assert (PUT1 : forall d c s'', c_slack_ok K c = true -> Some (fst s, set_nth d c (snd s)) = Some s'' -> pool_ok s'').
  { intros d c s'' Hc H. injection H as <-. apply pool_set; auto. }
  destruct o as [d a b|d a b|d a b|d a b|d a b|d a|d a|d a|d a c|d a n|d a n|d m c|ord].
  - apply PUT. intros c. apply ok_add; apply pool_get; auto.
  - apply PUT. intros c. apply ok_sub; apply pool_get; auto.
  - apply PUT. intros c. apply ok_mul; apply pool_get; auto.
  - apply PUT. intros c. apply ok_add_mul; apply pool_get; auto.
  - apply PUT. intros c. apply ok_sub_mul; apply pool_get; auto.
  - apply PUT1. apply ok_neg, pool_get; auto.
  - destruct (Nat.eqb d a); [intros H; injection H as <-; exact Hs|].
    apply PUT1. apply ok_assign, pool_get; auto.
  - apply PUT1. apply ok_derivative, pool_get; auto.
  - apply PUT1. apply ok_mul_integer, pool_get; auto.
  - destruct (Nat.eqb d a && N.eqb n 1)%bool; [intros H; injection H as <-; exact Hs|].
    apply PUT. intros c. apply ok_pow, pool_get; auto.
  - destruct (c_get s a) as [z|x size cs] eqn:Ea; [intros H; injection H as <-; exact Hs|].
    apply PUT1. apply ok_shl_gen; auto.
    destruct (Nat.eqb d a); [apply pool_get; auto|]. apply (ok_assign K rk).
    change (c_slack_ok K (CRec x size cs) = true). rewrite <- Ea. apply pool_get; auto.
  - apply PUT. intros c0. apply ok_add_om_gen; auto. apply pool_get; auto.
  - destruct (opt_map _ (snd s)) eqn:E; [|discriminate].
    intros H; injection H as <-. unfold pool_ok. simpl.
    refine (opt_map_forall _ _ _ _ _ _ Hs E). intros c c' Hc. apply ok_order. exact Hc.
Qed.

Lemma run_ok_gen ens F s l s' : good_ens K ens -> pool_ok s -> c_run_gen K ens F s l = Some s' -> pool_ok s'.
Proof.
  intros Hens. revert s. induction l as [|o l IH]; simpl; intros s Hs.
  - intros H; injection H as <-; exact Hs.
  - destruct (c_step_gen K ens F s o) eqn:E; [|discriminate]. apply IH. apply (step_ok _ _ _ _ _ Hens Hs E).
Qed.

(* C01_slack_inv: over every sequence of in-place operations, from every pool satisfying the invariant *)
Theorem run_ok F s l s' : pool_ok s -> c_run K F s l = Some s' -> pool_ok s'.
Proof. apply run_ok_gen. apply (good_ens_repaired K (fun _ => 0%N)). Qed.

(* polynomials built by the drivers (from 0 by add_monomial) satisfy it *)
Lemma init_ok rk fuel l r : c_of_terms K rk fuel l = Some r -> c_slack_ok K r = true.
Proof. apply ok_of_terms. Qed.

End Pool.
