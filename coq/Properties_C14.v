(* Property C14 - finite-field roots and feasibility sets are exact.  ONLY theorem statements, each closed
   by `exact` of a lemma from FeasSetIntProofs.v / FeasSetIntPolyProofs.v / FeasSetIntFull.v, with
   Print Assumptions beneath.  Model: FeasSetInt.v (+ Scalar.v for the ring operations).

   Vocabulary (FeasSetIntProofs.v):
     InK M x        x is in the symmetric residue range  ring_lb M <= x <= ring_ub M  (M elements, C17)
     wf s           the representation invariant: 0 < M, elements strictly sorted (hence unique), in range
     mem s x        x is in the DENOTED subset of the field:  den (l, inv) = if inv then K \ l else l
     same_set r s   forall x, mem r x <-> mem s x
     status_correct st r s1 s2   the meaning of S1 / S2 / NEW / EMPTY with s1 given precedence
     peval cs x     value of the dense polynomial cs (constant term first) at x, over Z
     deg_spec M cs d  d is the degree of cs modulo M
   All set theorems hold for EVERY modulus M > 0 (prime or not) and lists of ANY length; `zlen a + zlen b <
   ulong_max` (the two element arrays exist in a 64-bit address space) is needed only where the C code
   compares with lp_feasibility_set_int_size_approx.                                                   *)
From Coq Require Import ZArith List Bool Znumtheory.
From LP Require Import Scalar FeasSetInt FeasSetIntProofs FeasSetIntPolyProofs FeasSetIntFull.
Import ListNotations.
Local Open Scope Z_scope.

(* ------------------------------------------------------------------ 1. representation *)

(* the constructor normalises, sorts and de-duplicates ANY integer list: the result is well-formed and
   denotes exactly the residue classes of the given integers (or their complement) *)
Theorem C14_constructor_wf : forall M l inv, 0 < M ->
  wf (fs_from_integers M l inv) /\
  (forall x, In x (fs_el (fs_from_integers M l inv)) <-> exists y, In y l /\ x = ring_norm (Some M) y).
Proof. exact fs_from_integers_spec. Qed.
Print Assumptions C14_constructor_wf.

Theorem C14_constructor_denotes : forall M l inv x, 0 < M ->
  (mem (fs_from_integers M l inv) x <->
   InK M x /\ (if inv then ~ (exists y, In y l /\ x mod M = y mod M) else exists y, In y l /\ x mod M = y mod M)).
Proof. exact fs_from_integers_mem. Qed.
Print Assumptions C14_constructor_denotes.

(* the denotation as a list: sorted, in range, exactly the members, and `size` is its length *)
Theorem C14_elements : forall s, wf s ->
  ssorted (fs_elements s) /\ Forall (InK (fs_M s)) (fs_elements s) /\
  (forall x, In x (fs_elements s) <-> mem s x) /\ zlen (fs_elements s) = fs_size s.
Proof. exact fs_elements_spec. Qed.
Print Assumptions C14_elements.

(* materialising a complement changes the representation, never the set *)
Theorem C14_invert_same_set : forall s, wf s ->
  wf (fs_invert s) /\ fs_M (fs_invert s) = fs_M s /\ same_set (fs_invert s) s.
Proof. exact fs_invert_spec. Qed.
Print Assumptions C14_invert_same_set.

(* ------------------------------------------------------------------ 2. the ordered-list helpers *)

Theorem C14_ordered_union : forall l1 l2, ssorted l1 -> ssorted l2 ->
  let '(r, (j1, j2)) := oset_union l1 l2 in
  ssorted r /\ (forall x, In x r <-> In x l1 \/ In x l2) /\
  (j1 = true <-> incl l2 l1) /\ (j2 = true <-> incl l1 l2).
Proof. exact oset_union_spec. Qed.
Print Assumptions C14_ordered_union.

Theorem C14_ordered_intersect : forall l1 l2, ssorted l1 -> ssorted l2 ->
  let '(r, (a1, a2)) := oset_intersect l1 l2 in
  ssorted r /\ (forall x, In x r <-> In x l1 /\ In x l2) /\
  (a1 = true <-> incl l1 l2) /\ (a2 = true <-> incl l2 l1).
Proof. exact oset_intersect_spec. Qed.
Print Assumptions C14_ordered_intersect.

Theorem C14_ordered_minus : forall l1 l2, ssorted l1 -> ssorted l2 ->
  ssorted (oset_minus_list l1 l2) /\
  (forall z, In z (oset_minus_list l1 l2) <-> In z l1 /\ ~ In z l2) /\
  (length (oset_minus_list l1 l2) <= length l1)%nat /\
  (length (oset_minus_list l1 l2) = length l1 <-> (forall z, In z l1 -> ~ In z l2)).
Proof. exact oset_minus_list_spec. Qed.
Print Assumptions C14_ordered_minus.

(* ------------------------------------------------------------------ 3. union / intersection, all four
   representation combinations, with status *)

Theorem C14_intersect : forall s1 s2, wf s1 -> wf s2 -> fs_M s1 = fs_M s2 ->
  zlen (fs_el s1) + zlen (fs_el s2) < ulong_max ->
  let '(r, st) := fs_intersect_with_status s1 s2 in
  wf r /\ fs_M r = fs_M s1 /\ (forall x, mem r x <-> mem s1 x /\ mem s2 x) /\ status_correct st r s1 s2.
Proof. exact fs_intersect_with_status_spec. Qed.
Print Assumptions C14_intersect.

Theorem C14_union : forall s1 s2, wf s1 -> wf s2 -> fs_M s1 = fs_M s2 ->
  zlen (fs_el s1) + zlen (fs_el s2) < ulong_max ->
  let '(r, st) := fs_union_with_status s1 s2 in
  wf r /\ fs_M r = fs_M s1 /\ (forall x, mem r x <-> mem s1 x \/ mem s2 x) /\ status_correct st r s1 s2.
Proof. exact fs_union_with_status_spec. Qed.
Print Assumptions C14_union.

(* the variants without status return the same set *)
Theorem C14_intersect_nostatus : forall s1 s2, fs_intersect s1 s2 = fst (fs_intersect_with_status s1 s2).
Proof. exact fs_intersect_fst. Qed.
Print Assumptions C14_intersect_nostatus.
Theorem C14_union_nostatus : forall s1 s2, fs_union s1 s2 = fst (fs_union_with_status s1 s2).
Proof. exact fs_union_fst. Qed.
Print Assumptions C14_union_nostatus.

(* the four status meanings exclude each other: status_correct DETERMINES the status *)
Theorem C14_status_determined : forall st st' r s1 s2,
  status_correct st r s1 s2 -> status_correct st' r s1 s2 -> st = st'.
Proof. exact status_correct_unique. Qed.
Print Assumptions C14_status_determined.

(* ------------------------------------------------------------------ 4. observers *)

Theorem C14_contains : forall s v, wf s ->
  (fs_contains s v = true <-> mem s (ring_norm (Some (fs_M s)) v)).
Proof. exact fs_contains_spec. Qed.
Print Assumptions C14_contains.

(* membership of an arbitrary integer is membership of its residue class *)
Theorem C14_contains_residue_class : forall s v x, wf s -> InK (fs_M s) x -> x mod fs_M s = v mod fs_M s ->
  (fs_contains s v = true <-> mem s x).
Proof. exact fs_contains_congruent. Qed.
Print Assumptions C14_contains_residue_class.

(* binary search is membership on sorted arrays *)
Theorem C14_find : forall a v, ssorted a -> (fs_find a v = true <-> In v a).
Proof. exact fs_find_spec. Qed.
Print Assumptions C14_find.

Theorem C14_size : forall s, wf s -> fs_size s = zlen (fs_elements s) /\ 0 <= fs_size s <= fs_M s.
Proof. exact fs_size_spec. Qed.
Print Assumptions C14_size.

Theorem C14_is_empty : forall s, wf s -> (fs_is_empty s = true <-> forall x, ~ mem s x).
Proof. exact fs_is_empty_spec. Qed.
Print Assumptions C14_is_empty.

Theorem C14_is_full : forall s, wf s -> (fs_is_full s = true <-> forall x, InK (fs_M s) x -> mem s x).
Proof. exact fs_is_full_spec. Qed.
Print Assumptions C14_is_full.

Theorem C14_is_point : forall s, wf s -> (fs_is_point s = true <-> exists a, forall x, mem s x <-> x = a).
Proof. exact fs_is_point_spec. Qed.
Print Assumptions C14_is_point.

Theorem C14_eq : forall s1 s2, wf s1 -> wf s2 -> fs_M s1 = fs_M s2 ->
  zlen (fs_el s1) + zlen (fs_el s2) < ulong_max ->
  (fs_eq s1 s2 = true <-> same_set s1 s2).
Proof. exact fs_eq_spec. Qed.
Print Assumptions C14_eq.

(* ------------------------------------------------------------------ 5. pick_value *)

(* the checker run on the implementation's pick decides membership *)
Theorem C14_pick_checker : forall s v, wf s -> (fs_pick_ok s v = true <-> mem s v).
Proof. exact fs_pick_ok_spec. Qed.
Print Assumptions C14_pick_checker.

(* the 0, 1, -1, 2, -2, ... scan of complemented sets terminates within M steps, never leaves the ring
   (the C assertion holds) and returns a member *)
Theorem C14_pick_scan : forall s fuel, wf s -> fs_inv s = true -> (exists x, mem s x) ->
  fs_M s <= Z.of_nat fuel -> exists v, fs_pick_inverted fuel s = Some v /\ mem s v.
Proof. exact fs_pick_inverted_spec. Qed.
Print Assumptions C14_pick_scan.

(* ------------------------------------------------------------------ 6. roots in Z_p *)

(* construct + evaluate_at_integer compute the polynomial's value modulo M *)
Theorem C14_upoly_eval : forall M cs x, 0 < M ->
  upoly_eval (Some M) (upoly_construct (Some M) cs) x mod M = peval cs x mod M.
Proof. exact upoly_eval_construct. Qed.
Print Assumptions C14_upoly_eval.

Theorem C14_upoly_degree : forall M cs d, 0 < M -> deg_spec M cs d ->
  upoly_degree (upoly_construct (Some M) cs) = N.of_nat d /\ upoly_is_zero (upoly_construct (Some M) cs) = false.
Proof. exact upoly_degree_construct. Qed.
Print Assumptions C14_upoly_degree.

(* Lagrange: a polynomial of degree d over a prime field has at most d roots (what makes the early exit
   `roots_size == degree` of the brute-force loop sound) *)
Theorem C14_at_most_degree_roots : forall M cs d rs, prime M -> deg_spec M cs d ->
  NoDup rs -> Forall (fun a => InK M a /\ peval cs a mod M = 0) rs -> (length rs <= d)%nat.
Proof. exact lagrange_bound. Qed.
Print Assumptions C14_at_most_degree_roots.

(* brute force, INCLUDING its early exit, returns exactly the roots, sorted - for every prime *)
Theorem C14_brute_force : forall M cs d, prime M -> deg_spec M cs d ->
  let r := roots_brute_force M (upoly_construct (Some M) cs) in
  ssorted r /\ forall a, In a r <-> InK M a /\ peval cs a mod M = 0.
Proof. exact roots_brute_force_full. Qed.
Print Assumptions C14_brute_force.

Theorem C14_roots_find_small_field : forall M cs d rs, prime M -> deg_spec M cs d ->
  roots_find_Zp M (upoly_construct (Some M) cs) = Some rs ->
  ssorted rs /\ forall a, In a rs <-> InK M a /\ peval cs a mod M = 0.
Proof. exact roots_find_Zp_small. Qed.
Print Assumptions C14_roots_find_small_field.

(* ORACLE part (randomised branch, p >= 1000): the algorithm itself is not modelled.
   (a) the checker run on the returned list is sound; *)
Theorem C14_roots_check_sound : forall M cs rs, 0 < M ->
  roots_sound_check M (upoly_construct (Some M) cs) rs = true ->
  NoDup rs /\ forall r, In r rs -> InK M r /\ peval cs r mod M = 0.
Proof. exact roots_sound_check_spec. Qed.
Print Assumptions C14_roots_check_sound.

(* (b) a factorisation certificate that checks determines the complete root set (Euler's criterion for the
       quadratic factors, Fermat from MathComp): this is what the implementation's answer is compared with; *)
Theorem C14_certificate_complete : forall M f lc rs qs, prime M -> cert_ok M f lc rs qs = true ->
  ssorted (cert_roots M rs) /\ Forall (InK M) (cert_roots M rs) /\
  forall a, InK M a -> (peval f a mod M = 0 <-> In a (cert_roots M rs)).
Proof. exact cert_complete_prime. Qed.
Print Assumptions C14_certificate_complete.

(* (c) the soundness step of the splitting: the element read off a linear factor of a divisor of f is a root *)
Theorem C14_rabin_linear_factor_sound_partial : forall M f q h u c0 c1 a,
  coeffs_cong M f (pmul q h) = true -> coeffs_cong M h (pmul u [c0; c1]) = true ->
  (c1 * a + c0) mod M = 0 -> peval f a mod M = 0.
Proof. exact linear_factor_root. Qed.
Print Assumptions C14_rabin_linear_factor_sound_partial.
(* the full statement would be about a model `rabin` of upolynomial_roots_find_rabin (gcd with x^p - x, random
   splitting), which this development does not contain; completeness of the randomised branch is tied to
   (b) and, with the force-Rabin hook, to brute force on small fields - by correspondence only *)
Definition C14_rabin_full_statement (rabin : Z -> list Z -> list Z) : Prop :=
  forall M cs d, prime M -> deg_spec M cs d ->
    NoDup (rabin M cs) /\ forall a, In a (rabin M cs) <-> InK M a /\ peval cs a mod M = 0.

Theorem C14_fermat : forall p a, prime p -> (a ^ p) mod p = a mod p.
Proof. exact FeasSetIntFermat.fermat_Z. Qed.
Print Assumptions C14_fermat.

(* ------------------------------------------------------------------ 7. constraints under an assignment *)

(* coefficient_evaluate_integer computes the polynomial's value modulo M *)
Theorem C14_evaluate_integer : forall M m c, 0 < M -> coef_eval (Some M) m c mod M = coef_den m c mod M.
Proof. exact coef_eval_den. Qed.
Print Assumptions C14_evaluate_integer.

(* the feasible set of  A(x, m) = 0  /  != 0  is exactly the set of field elements a for which
   evaluate_Zp accepts the assignment extended by x := a  (x must not occur in A's coefficients) *)
Theorem C14_constraint_set : forall M top m cs cond (negated : bool) s,
  prime M -> existsb (has_var top) cs = false ->
  constraint_feasible_set_Zp M top m (CPoly top cs) cond negated = Some s ->
  wf s /\ fs_M s = M /\
  forall a, mem s a <-> InK M a /\
    constraint_evaluate_Zp M (assign_set m top a) (CPoly top cs) (if negated then zp_negate cond else cond) = true.
Proof. exact constraint_set_full. Qed.
Print Assumptions C14_constraint_set.

(* the same for the reference set, for every field size (compared with the implementation above the limit) *)
Theorem C14_constraint_set_reference : forall M top m cs cond (negated : bool),
  0 < M -> existsb (has_var top) cs = false ->
  let A := CPoly top cs in
  let cond' := if negated then zp_negate cond else cond in
  let s := constraint_feasible_set_reference M top m A cond negated in
  wf s /\ fs_M s = M /\
  forall a, mem s a <-> InK M a /\ constraint_evaluate_Zp M (assign_set m top a) A cond' = true.
Proof. exact constraint_reference_spec. Qed.
Print Assumptions C14_constraint_set_reference.

Theorem C14_constraint_evaluate : forall M top m cs a cond, 0 < M -> existsb (has_var top) cs = false ->
  (constraint_evaluate_Zp M (assign_set m top a) (CPoly top cs) cond = true <->
   match cond with
   | ZpEQ => peval (map (coef_eval (Some M) m) cs) a mod M = 0
   | ZpNE => peval (map (coef_eval (Some M) m) cs) a mod M <> 0
   end).
Proof. exact constraint_evaluate_spec. Qed.
Print Assumptions C14_constraint_evaluate.

(* ------------------------------------------------------------------ 8. reduce_degree_Zp *)

(* x^p -> x: terminates (two turns of the while loop suffice), preserves the function on Z_p, and the
   result has degree < p *)
Theorem C14_reduce_degree : forall M fuel cs, prime M -> (2 <= fuel)%nat ->
  exists r, reduce_degree_Zp_uni fuel M cs = Some r /\
            (forall a, peval r a mod M = peval cs a mod M) /\ zlen r <= Z.max M (zlen (dense_norm M cs)) /\
            (M < zlen (dense_norm M cs) -> zlen r <= M).
Proof. exact reduce_degree_prime. Qed.
Print Assumptions C14_reduce_degree.

(* ------------------------------------------------------------------ non-vacuity *)

Example C14_ex_wf : wf (fs_from_integers 7 [10; -4; 3; 3; 17] true).
Proof. apply wf_b_spec. vm_compute. reflexivity. Qed.
Example C14_ex_union :
  fs_union_with_status (mkFS 5 true [0; 1; 2]) (mkFS 5 false [-2; -1; 1; 2]) = (mkFS 5 false [-2; -1; 1; 2], St_S2).
Proof. vm_compute. reflexivity. Qed.
Example C14_ex_status_precedence :      (* equal sets in different representations: S1, as documented *)
  snd (fs_intersect_with_status (mkFS 5 true [0]) (mkFS 5 false [-2; -1; 1; 2])) = St_S1.
Proof. vm_compute. reflexivity. Qed.
Example C14_ex_prime : prime 7.
Proof.
  apply prime_intro; [reflexivity|]. intros n Hn.
  assert (H: n = 1 \/ n = 2 \/ n = 3 \/ n = 4 \/ n = 5 \/ n = 6) by (destruct Hn; clear - H H0; Lia.lia).
  destruct H as [->|[->|[->|[->|[->| ->]]]]]; apply Zgcd_1_rel_prime; reflexivity.
Qed.
Example C14_ex_deg : deg_spec 7 [6; 0; 1; 14] 2.
Proof. split; [vm_compute; discriminate|]. intros [|[|[|[|[|i]]]]] H; try (exfalso; inversion H; fail); try reflexivity;
  repeat (apply le_S_n in H); try (inversion H; fail); destruct i; reflexivity. Qed.
Example C14_ex_roots : roots_brute_force 7 (upoly_construct (Some 7) [6; 0; 1; 14]) = [-1; 1].
Proof. vm_compute. reflexivity. Qed.
Example C14_ex_cert : cert_ok 1009 [-6; 11; -6; 1; 0; 0] 1 [1; 2; 3] [] = true /\
                      cert_ok 13 [2; 0; 1] 1 [] [(0, 2)] = true.
Proof. split; vm_compute; reflexivity. Qed.
Example C14_ex_constraint :
  constraint_feasible_set_Zp 7 0 (fun v => if Nat.eqb v 1 then 3 else 0)
    (CPoly 0 [CNum (-1); CNum 0; CPoly 1 [CNum (-2); CNum 1]]) ZpEQ false = Some (mkFS 7 false [-1; 1]).
Proof. vm_compute. reflexivity. Qed.
Example C14_ex_reduce : reduce_degree_Zp_uni 3 3 [1; 2; 0; 1; 1; 1; 2] = Some [1; 1].
Proof. vm_compute. reflexivity. Qed.
