(* Shared base: dense univariate polynomials over Z as coefficient lists, LOW degree first.
   Executable, stdlib only, no proofs here (UPolySpec.v relates them to MathComp {poly Z}).
   This is the reference arithmetic used by the upper layers; the models of libpoly's own univariate
   code (sparse lp_upolynomial_t, dense scratch buffers) are written per property on top of it. *)
From Coq Require Import ZArith List Bool.
Import ListNotations.
Local Open Scope Z_scope.

Definition poly := list Z.

(* canonical form: no trailing (= leading-coefficient side) zeros; zero polynomial = [] *)
Fixpoint pnorm (p : poly) : poly :=
  match p with
  | [] => []
  | c :: q =>
    match pnorm q with
    | [] => if c =? 0 then [] else [c]
    | q' => c :: q'
    end
  end.

Definition pis_zero (p : poly) : bool := match pnorm p with [] => true | _ => false end.

Fixpoint padd (p q : poly) : poly :=
  match p, q with
  | [], _ => q
  | _, [] => p
  | a :: p', b :: q' => (a + b) :: padd p' q'
  end.

Definition pscale (c : Z) (p : poly) : poly := map (Z.mul c) p.
Definition pneg (p : poly) : poly := map Z.opp p.
Definition psub (p q : poly) : poly := padd p (pneg q).

Fixpoint pmul (p q : poly) : poly :=
  match p with
  | [] => []
  | a :: p' => padd (pscale a q) (0 :: pmul p' q)
  end.

(* multiplication by x^k *)
Definition pshift (k : nat) (p : poly) : poly := repeat 0 k ++ p.

Fixpoint pderiv_aux (n : Z) (p : poly) : poly :=
  match p with
  | [] => []
  | c :: p' => (n * c) :: pderiv_aux (n + 1) p'
  end.
Definition pderiv (p : poly) : poly := match p with [] => [] | _ :: p' => pderiv_aux 1 p' end.

(* Horner evaluation at an integer *)
Fixpoint peval (p : poly) (x : Z) : Z :=
  match p with
  | [] => 0
  | c :: p' => c + x * peval p' x
  end.

Fixpoint ppow (p : poly) (n : nat) : poly :=
  match n with O => [1] | S n' => pmul p (ppow p n') end.

(* composition p(q(x)) *)
Fixpoint pcomp (p q : poly) : poly :=
  match p with
  | [] => []
  | c :: p' => padd [c] (pmul q (pcomp p' q))
  end.

(* degree (of the canonical form; 0 for the zero polynomial) and leading coefficient (0 for zero) *)
Definition pdeg (p : poly) : nat := Nat.pred (length (pnorm p)).
Definition plc (p : poly) : Z := last (pnorm p) 0.
Definition pcoef (p : poly) (i : nat) : Z := nth i p 0.

Definition peqb (p q : poly) : bool :=
  let fix go (a b : poly) :=
    match a, b with
    | [], [] => true
    | x :: a', y :: b' => (x =? y) && go a' b'
    | _, _ => false
    end in go (pnorm p) (pnorm q).

(* homogeneous evaluation: peval_hom p a b = b^(length p - 1) * p(a/b)   (for p <> []) ; (value, b^(length p)) *)
Fixpoint peval_hom_aux (p : poly) (a b : Z) : Z * Z :=
  match p with
  | [] => (0, 1)
  | c :: p' =>
    let '(v, bp) := peval_hom_aux p' a b in
    (* v = b^(len p' - 1) p'(a/b) [0 if p' = []], bp = b^(len p') *)
    (c * bp + a * v, bp * b)
  end.
(* sign of p(a/b) for b > 0 *)
Definition psgn_at_rat (p : poly) (a b : Z) : Z := Z.sgn (fst (peval_hom_aux p a b)).

(* content (gcd of coefficients, >= 0) and primitive part with positive leading coefficient *)
Definition pcontent (p : poly) : Z := fold_right Z.gcd 0 p.
Definition pdivc (p : poly) (c : Z) : poly := map (fun x => x / c) p.
Definition ppp (p : poly) : poly :=
  let c := pcontent p in
  if c =? 0 then [] else
  let q := pdivc (pnorm p) c in
  if plc q <? 0 then pneg q else q.

(* pseudo-division (classical, full power):  plc(b)^(deg a - deg b + 1) * a = q * b + r,  deg r < deg b.
   One step per fuel unit; both operands canonical, b <> 0.  Returns (q, r). *)
Fixpoint ppdivmod_aux (fuel : nat) (q r b : poly) (db : nat) (lb : Z) : poly * poly :=
  match fuel with
  | O => (q, r)
  | S f =>
    let r := pnorm r in
    match r with
    | [] => (pscale (Z.pow lb (Z.of_nat (S f))) q, [])   (* account for the remaining powers *)
    | _ =>
      let dr := Nat.pred (length r) in
      if Nat.ltb dr db then (pscale (Z.pow lb (Z.of_nat (S f))) q, pscale (Z.pow lb (Z.of_nat (S f))) r)
      else
        let t := pshift (dr - db) [last r 0] in            (* lc(r) x^(dr-db) *)
        ppdivmod_aux f (padd (pscale lb q) t) (psub (pscale lb r) (pmul t b)) b db lb
    end
  end.
Definition ppdivmod (a b : poly) : poly * poly :=
  let a := pnorm a in
  let b := pnorm b in
  let da := Nat.pred (length a) in
  let db := Nat.pred (length b) in
  if Nat.ltb da db then ([], a)
  else let '(q, r) := ppdivmod_aux (S (da - db)) [] a b db (last b 0) in (pnorm q, pnorm r).
Definition pprem (a b : poly) : poly := snd (ppdivmod a b).

(* exact division over Z: Some q when b * q = a (b <> 0) *)
Fixpoint pdiv_exact_aux (fuel : nat) (q r b : poly) (db : nat) (lb : Z) : option poly :=
  match fuel with
  | O => match pnorm r with [] => Some q | _ => None end
  | S f =>
    let r := pnorm r in
    match r with
    | [] => Some q
    | _ =>
      let dr := Nat.pred (length r) in
      if Nat.ltb dr db then None
      else
        let lr := last r 0 in
        if lr mod lb =? 0 then
          let t := pshift (dr - db) [lr / lb] in
          pdiv_exact_aux f (padd q t) (psub r (pmul t b)) b db lb
        else None
    end
  end.
Definition pdiv_exact (a b : poly) : option poly :=
  let a := pnorm a in
  let b := pnorm b in
  match b with
  | [] => None
  | _ => match pdiv_exact_aux (S (length a)) [] a b (Nat.pred (length b)) (last b 0) with
         | Some q => Some (pnorm q) | None => None end
  end.

(* gcd over Z[x] by the primitive Euclidean PRS: content gcd times primitive gcd, positive leading coeff. *)
Fixpoint pgcd_prim_aux (fuel : nat) (a b : poly) : poly :=
  match fuel with
  | O => a
  | S f => match pnorm b with
           | [] => a
           | _ => pgcd_prim_aux f b (ppp (pprem a b))
           end
  end.
Definition pgcd (a b : poly) : poly :=
  let a' := pnorm a in
  let b' := pnorm b in
  match a', b' with
  | [], [] => []
  | [], _ => pscale (pcontent b') (ppp b')
  | _, [] => pscale (pcontent a') (ppp a')
  | _, _ =>
    let c := Z.gcd (pcontent a') (pcontent b') in
    let pa := ppp a' in
    let pb := ppp b' in
    let g := if Nat.ltb (length pa) (length pb) then pgcd_prim_aux (S (length pa)) pb pa
             else pgcd_prim_aux (S (length pb)) pa pb in
    pscale c (ppp g)
  end.

(* square-free part: p / gcd(p, p') (primitive, positive leading coefficient) *)
Definition psqfree (p : poly) : poly :=
  let p' := ppp p in
  match pdiv_exact p' (pgcd p' (pderiv p')) with
  | Some q => ppp q
  | None => p'
  end.

(* ---------------------------------------------------------------- Sturm sequences, real root counting *)

(* Sturm chain of p: p0 = p, p1 = p', p_{i+1} = - prem(p_{i-1}, p_i) made sign-correct:
   prem multiplies by lc(p_i)^k, k = deg p_{i-1} - deg p_i + 1; the sign of that factor is corrected so that
   p_{i+1} is a positive multiple of -(p_{i-1} mod p_i).  Elements are made primitive (positive scaling only). *)
Definition ppos_prim (p : poly) : poly :=         (* divide by the content, keep the sign *)
  let c := pcontent p in if c =? 0 then [] else pdivc (pnorm p) c.
Definition sturm_next (a b : poly) : poly :=
  let a' := pnorm a in
  let b' := pnorm b in
  let k := (length a' - length b' + 1)%nat in
  let r := pprem a' b' in
  let s := if (plc b' <? 0) && Nat.odd k then r else pneg r in
  ppos_prim s.
Fixpoint sturm_aux (fuel : nat) (a b : poly) : list poly :=
  match fuel with
  | O => [a]
  | S f => match pnorm b with
           | [] => [a]
           | _ => a :: sturm_aux f b (sturm_next a b)
           end
  end.
Definition sturm_chain (p : poly) : list poly :=
  let p := pnorm p in sturm_aux (S (length p)) p (pderiv p).

(* sign variations of a list of signs, zeros skipped *)
Fixpoint sign_var_aux (prev : Z) (l : list Z) : nat :=
  match l with
  | [] => O
  | s :: l' =>
    if s =? 0 then sign_var_aux prev l'
    else if (prev =? 0) || (prev =? s) then sign_var_aux s l'
    else S (sign_var_aux s l')
  end.
Definition sign_var (l : list Z) : nat := sign_var_aux 0 l.

Definition psgn_pinf (p : poly) : Z := Z.sgn (plc p).
Definition psgn_minf (p : poly) : Z := if Nat.odd (pdeg p) then - Z.sgn (plc p) else Z.sgn (plc p).

(* extended rational points *)
Inductive xrat := MInf | Fin (a b : Z) (* a/b, b > 0 *) | PInf.
Definition psgn_at (p : poly) (x : xrat) : Z :=
  match x with MInf => psgn_minf p | PInf => psgn_pinf p | Fin a b => psgn_at_rat p a b end.
Definition sturm_var (ch : list poly) (x : xrat) : nat := sign_var (map (fun p => psgn_at p x) ch).

(* number of distinct real roots of p in (lo, hi]  (p <> 0); for hi = PInf: in (lo, +inf) *)
Definition count_roots_oc (p : poly) (lo hi : xrat) : nat :=
  let ch := sturm_chain p in (sturm_var ch lo - sturm_var ch hi)%nat.
Definition count_real_roots (p : poly) : nat := count_roots_oc p MInf PInf.

(* Cauchy bound: all real roots of p (p <> 0, deg >= 1) lie in (-B, B), B = 1 + ceil(max|c_i| / |lc|) as an integer *)
Definition pmaxabs (p : poly) : Z := fold_right (fun c m => Z.max (Z.abs c) m) 0 p.
Definition root_bound (p : poly) : Z :=
  let p := pnorm p in
  let l := Z.abs (plc p) in
  if l =? 0 then 1 else 1 + (pmaxabs p + l - 1) / l.
