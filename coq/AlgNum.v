(* L4 model: src/number/algebraic_number.c (property C07).  Executable Gallina, stdlib only, no proofs here.

   lp_algebraic_number_t { lp_upolynomial_t* f; lp_dyadic_interval_t I; int sgn_at_a, sgn_at_b }
     -> record anum { an_f : option poly; an_a an_b : dyadic; an_sa an_sb : Z }
        an_f = None  : the point an_a (C: f == 0, I.is_point, I.b not constructed; the model keeps an_b = an_a,
                       an_sa = an_sb = 0)
        an_f = Some p: the unique root of p in the OPEN interval (an_a, an_b); an_sa / an_sb cache the signs of p at
                       the ends.
   The numbers are mutated through const pointers (refinement); every function that may refine an operand RETURNS the
   new state of the operand beside its answer.  Loops with data-dependent bounds take fuel.
   Lower layers are called through their reference functions (DESIGN 1.2): signs of polynomials at points by
   UPoly.psgn_at_rat / peval, dyadic and rational arithmetic by Scalar.v (C17), gcd / resultant / root isolation are
   ARGUMENTS of the functions that use them (cmp, op_loop).                                                          *)
From Coq Require Import ZArith NArith List Bool.
From LP Require Import Scalar UPoly RefAlg.
Import ListNotations.
Local Open Scope Z_scope.

Record anum := mkAN { an_f : option poly; an_a : dyadic; an_b : dyadic; an_sa : Z; an_sb : Z }.

Definition an_dzero : dyadic := mkDy 0 0.
Definition an_point (q : dyadic) : anum := mkAN None q q 0 0.
Definition an_is_point (x : anum) : bool := match an_f x with None => true | Some _ => false end.

(* ---------------------------------------------------------------- dyadic helpers (as called by the C code) *)
Definition an_dy_add0 (a b : dyadic) : dyadic := dy_add NoAlias an_dzero a b.        (* into a freshly constructed output *)
Definition an_dy_sub0 (a b : dyadic) : dyadic := dy_sub NoAlias an_dzero a b.
Definition an_dy_neg1 (a : dyadic) : dyadic := dy_neg AliasA a a.                 (* dyadic_rational_neg(&x, &x) *)
(* lp_dyadic_interval_construct_from_split: m = (a + b) / 2, computed in place *)
Definition an_dy_mid (a b : dyadic) : dyadic := let m0 := an_dy_add0 a b in dy_div_2exp AliasA m0 m0 1.
Definition an_dy_lt (a b : dyadic) : bool := dy_cmp a b <? 0.
Definition an_dy_le (a b : dyadic) : bool := dy_cmp a b <=? 0.
(* dyadic_rational_ceiling / _floor (results are dyadics) *)
Definition an_dy_ceiling_dy (a : dyadic) : dyadic := if (0 <? dn a)%N then mkDy (z_cdiv (da a) (pow2 (dn a))) 0 else a.
Definition an_dy_floor_dy (a : dyadic) : dyadic := if (0 <? dn a)%N then mkDy (da a / pow2 (dn a)) 0 else a.
(* dyadic_rational_get_distance_size(lower, upper): bit length of the numerator of upper - lower over the common
   denominator, minus the exponent; >= 0 iff upper - lower >= 1/2 *)
Definition an_dy_size (lo hi : dyadic) : Z :=
  if (dn lo =? dn hi)%N then z_bits (da hi - da lo) - Z.of_N (dn lo)
  else if (dn hi <? dn lo)%N then z_bits (da hi * pow2 (dn lo - dn hi) - da lo) - Z.of_N (dn lo)
  else z_bits (da hi - da lo * pow2 (dn hi - dn lo)) - Z.of_N (dn hi).

(* lp_upolynomial_sgn_at_dyadic_rational / _at_integer / _at_rational, by their meaning *)
Definition an_psgn_dy (p : poly) (d : dyadic) : Z := psgn_at_rat p (da d) (pow2 (dn d)).
Definition an_psgn_z (p : poly) (z : Z) : Z := Z.sgn (peval p z).

(* ---------------------------------------------------------------- intervals as the C code sees them *)
Record an_ivl := mkIvl { iv_lo : dyadic; iv_lo_open : bool; iv_hi : dyadic; iv_hi_open : bool; iv_pt : bool }.
Definition an_ivl_of (x : anum) : an_ivl :=
  match an_f x with
  | None => mkIvl (an_a x) false (an_a x) false true
  | Some _ => mkIvl (an_a x) true (an_b x) true false
  end.

(* lp_dyadic_interval_contains_dyadic_rational *)
Definition iv_contains (I : an_ivl) (q : dyadic) : bool :=
  let cmp_a_q := dy_cmp (iv_lo I) q in
  if iv_pt I then cmp_a_q =? 0
  else if iv_lo_open I && (0 <=? cmp_a_q) then false
  else if negb (iv_lo_open I) && (0 <? cmp_a_q) then false
  else
    let cmp_q_b := dy_cmp q (iv_hi I) in
    if iv_hi_open I && (0 <=? cmp_q_b) then false
    else if negb (iv_hi_open I) && (0 <? cmp_q_b) then false
    else true.

(* lp_dyadic_interval_disjoint *)
Definition iv_disjoint (I1 I2 : an_ivl) : bool :=
  if iv_pt I1 then negb (iv_contains I2 (iv_lo I1))
  else if iv_pt I2 then negb (iv_contains I1 (iv_lo I2))
  else
    let cmp1 := dy_cmp (iv_hi I1) (iv_lo I2) in
    if cmp1 <? 0 then true
    else if (cmp1 =? 0) && (iv_hi_open I1 || iv_lo_open I2) then true
    else
      let cmp2 := dy_cmp (iv_hi I2) (iv_lo I1) in
      if cmp2 <? 0 then true
      else if (cmp2 =? 0) && (iv_hi_open I2 || iv_lo_open I1) then true
      else false.

(* lp_dyadic_interval_equals on the intervals of two numbers *)
Definition iv_equals (I1 I2 : an_ivl) : bool :=
  if iv_pt I1 && negb (iv_pt I2) then false
  else if negb (iv_pt I1) && iv_pt I2 then false
  else
    let cmp_a := dy_cmp (iv_lo I1) (iv_lo I2) in
    if iv_pt I1 then cmp_a =? 0
    else if negb (cmp_a =? 0) || negb (Bool.eqb (iv_lo_open I1) (iv_lo_open I2)) then false
    else
      let cmp_b := dy_cmp (iv_hi I1) (iv_hi I2) in
      if negb (cmp_b =? 0) || negb (Bool.eqb (iv_hi_open I1) (iv_hi_open I2)) then false else true.

(* lp_dyadic_interval_construct_intersection (the two intervals are known to meet) *)
Definition iv_intersection (I1 I2 : an_ivl) : an_ivl :=
  if iv_pt I1 then I1
  else if iv_pt I2 then I2
  else
    let cmp_a := dy_cmp (iv_lo I1) (iv_lo I2) in
    let max_a := if cmp_a <? 0 then iv_lo I2 else iv_lo I1 in
    let a_open := if cmp_a =? 0 then iv_lo_open I1 || iv_lo_open I2 else if cmp_a <? 0 then iv_lo_open I2 else iv_lo_open I1 in
    let cmp_b := dy_cmp (iv_hi I1) (iv_hi I2) in
    let min_b := if cmp_b <? 0 then iv_hi I1 else iv_hi I2 in
    let b_open := if cmp_b =? 0 then iv_hi_open I1 || iv_hi_open I2 else if cmp_b <? 0 then iv_hi_open I1 else iv_hi_open I2 in
    mkIvl max_a a_open min_b b_open false.

(* ---------------------------------------------------------------- refinement *)
(* lp_algebraic_number_collapse_to_point *)
Definition an_collapse (x : anum) (q : dyadic) : anum := an_point q.

(* lp_algebraic_number_refine_with_point *)
Definition an_refine_with_point (x : anum) (q : dyadic) : anum :=
  match an_f x with
  | None => x
  | Some p =>
    if iv_contains (an_ivl_of x) q then
      let s := an_psgn_dy p q in
      if s =? 0 then an_collapse x q
      else if 0 <? s * an_sa x then mkAN (an_f x) q (an_b x) (an_sa x) (an_sb x)     (* lp_dyadic_interval_set_a(&a->I, q, 1) *)
      else mkAN (an_f x) (an_a x) q (an_sa x) (an_sb x)                            (* lp_dyadic_interval_set_b(&a->I, q, 1) *)
    else x
  end.

(* lp_algebraic_number_refine_const_internal: one bisection step; direction -1 (left half kept), +1 (right half kept),
   0 (collapsed to the midpoint).  The C function asserts f != 0; its callers test a->f first (a point is left alone). *)
Definition an_refine_dir (x : anum) : anum * Z :=
  match an_f x with
  | None => (x, 0)
  | Some p =>
    let m := an_dy_mid (an_a x) (an_b x) in
    let s := an_psgn_dy p m in
    if s =? 0 then (an_collapse x m, 0)
    else if 0 <? s * an_sa x then (mkAN (an_f x) m (an_b x) (an_sa x) (an_sb x), 1)
    else (mkAN (an_f x) (an_a x) m (an_sa x) (an_sb x), -1)
  end.
Definition an_refine (x : anum) : anum := fst (an_refine_dir x).   (* lp_algebraic_number_refine / _refine_const *)

(* ---------------------------------------------------------------- construction *)
(* while (lp_dyadic_interval_size(&a->I) >= 0) lp_algebraic_number_refine(a);   (size of a point is INT_MIN) *)
Fixpoint an_shrink (fuel : nat) (x : anum) : option anum :=
  match fuel with
  | O => None
  | S f =>
    match an_f x with
    | None => Some x
    | Some _ => if 0 <=? an_dy_size (an_a x) (an_b x) then an_shrink f (an_refine x) else Some x
    end
  end.

(* lp_algebraic_number_construct(a, f, (lo, hi)) *)
Definition an_construct (fuel : nat) (p : poly) (lo hi : dyadic) : option anum :=
  let x0 := mkAN (Some p) lo hi (an_psgn_dy p lo) (an_psgn_dy p hi) in
  match an_shrink fuel x0 with
  | None => None
  | Some x1 =>
    let x2 := match an_f x1 with Some _ => an_refine_with_point x1 (an_dy_ceiling_dy (an_a x1)) | None => x1 end in
    let x3 := match an_f x2 with Some _ => an_refine_with_point x2 (an_dy_floor_dy (an_b x2)) | None => x2 end in
    Some x3
  end.

Definition an_construct_from_dyadic (q : dyadic) : anum := an_point q.
Definition an_construct_from_integer (z : Z) : anum := an_point (dy_from_integer z).
(* lp_algebraic_number_construct_from_rational *)
Definition an_construct_from_rational (fuel : nat) (q : rat) : option anum :=
  if q_is_integer q then Some (an_construct_from_integer (fst q))
  else an_construct fuel [- fst q; snd q] (dy_from_integer (q_floor q)) (dy_from_integer (q_ceiling q)).

(* ---------------------------------------------------------------- comparison with a scalar s
   cmp_pt d = the library's comparison of the dyadic d with s (sign of d - s, not normalised to {-1,0,1});
   sgn_at p = sign of p(s).  lp_dyadic_interval_cmp_{integer,dyadic_rational,rational} on the interval of x: *)
Definition an_ivl_cmp (cmp_pt : dyadic -> Z) (x : anum) : Z :=
  match an_f x with
  | None => cmp_pt (an_a x)
  | Some _ =>
    let cl := cmp_pt (an_a x) in
    if 0 <? cl then 1
    else if cl =? 0 then 1                      (* a_open *)
    else
      let cu := cmp_pt (an_b x) in
      if cu <? 0 then -1
      else if cu =? 0 then -1                   (* b_open *)
      else 0
  end.

(* while (cmp == 0) { refine_const_internal(a1); cmp = interval_cmp(&a1->I, s); } *)
Fixpoint an_refine_until (fuel : nat) (cmp_pt : dyadic -> Z) (x : anum) : option (Z * anum) :=
  match fuel with
  | O => None
  | S f =>
    let x' := an_refine x in
    let c := an_ivl_cmp cmp_pt x' in
    if c =? 0 then an_refine_until f cmp_pt x' else Some (c, x')
  end.

Definition an_cmp_scalar (fuel : nat) (cmp_pt : dyadic -> Z) (sgn_at : poly -> Z) (x : anum) : option (Z * anum) :=
  match an_f x with
  | None => Some (cmp_pt (an_a x), x)
  | Some p =>
    let c := an_ivl_cmp cmp_pt x in
    if negb (c =? 0) then Some (c, x)
    else if sgn_at p =? 0 then Some (0, x)
    else an_refine_until fuel cmp_pt x
  end.

Definition an_cmp_integer (fuel : nat) (x : anum) (z : Z) :=
  an_cmp_scalar fuel (fun d => dy_cmp_integer d z) (fun p => an_psgn_z p z) x.
Definition an_cmp_dyadic (fuel : nat) (x : anum) (q : dyadic) :=
  an_cmp_scalar fuel (fun d => dy_cmp d q) (fun p => an_psgn_dy p q) x.
Definition an_cmp_rational (fuel : nat) (x : anum) (q : rat) :=
  an_cmp_scalar fuel (fun d => dy_cmp_rational d q) (fun p => psgn_q p q) x.
Definition an_sgn (fuel : nat) (x : anum) := an_cmp_integer fuel x 0.

(* ---------------------------------------------------------------- comparison of two numbers
   gcdf = lp_upolynomial_gcd (primitive, positive leading coefficient) is an argument. *)
Definition an_reduce_polynomial (x : anum) (g : poly) (sa sb : Z) : anum := mkAN (Some g) (an_a x) (an_b x) sa sb.

(* while (d1 == d2 && d1 && d2) { d1 = refine(a1); d2 = refine(a2); }   entered with d1 = d2 = 1 *)
Fixpoint an_bisect_apart (fuel : nat) (x y : anum) : option (anum * anum) :=
  match fuel with
  | O => None
  | S f =>
    let '(x', d1) := an_refine_dir x in
    let '(y', d2) := an_refine_dir y in
    if (d1 =? d2) && negb (d1 =? 0) && negb (d2 =? 0) then an_bisect_apart f x' y' else Some (x', y')
  end.

(* the gcd as the checks instantiate it: primitive part of the reference gcd (C03 proves UPoly.pgcd correct and ties
   lp_upolynomial_gcd to it) *)
Definition an_ref_gcd (p q : poly) : poly := ppp (pgcd p q).

Definition an_cmp (fuel : nat) (gcdf : poly -> poly -> poly) (x y : anum) : option (Z * anum * anum) :=
  (* refine both with the end points of the intersection of the ORIGINAL intervals *)
  let '(x1, y1) :=
    if negb (iv_disjoint (an_ivl_of x) (an_ivl_of y)) then
      let I := iv_intersection (an_ivl_of x) (an_ivl_of y) in
      let x1 := an_refine_with_point x (iv_lo I) in
      let y1 := an_refine_with_point y (iv_lo I) in
      if negb (iv_pt I) then (an_refine_with_point x1 (iv_hi I), an_refine_with_point y1 (iv_hi I)) else (x1, y1)
    else (x, y) in
  (* equal intervals: decide equality by the gcd, else bisect until the halves differ *)
  let st : option (bool * anum * anum) :=
    match an_f x1, an_f y1 with
    | Some p, Some q =>
      if iv_equals (an_ivl_of x1) (an_ivl_of y1) then
        let g := gcdf p q in
        let sa := an_psgn_dy g (an_a x1) in
        let sb := an_psgn_dy g (an_b x1) in
        if sa * sb <? 0 then Some (true, an_reduce_polynomial x1 g sa sb, an_reduce_polynomial y1 g sa sb)
        else match an_bisect_apart fuel x1 y1 with Some (x2, y2) => Some (false, x2, y2) | None => None end
      else Some (false, x1, y1)
    | _, _ => Some (false, x1, y1)
    end in
  match st with
  | None => None
  | Some (equal, x2, y2) =>
    if equal then Some (0, x2, y2)
    else
      let c := dy_cmp (an_a x2) (an_a y2) in
      if c =? 0 then
        if negb (an_is_point x2) && an_is_point y2 then Some (1, x2, y2)
        else if an_is_point x2 && negb (an_is_point y2) then Some (-1, x2, y2)
        else Some (c, x2, y2)
      else Some (c, x2, y2)
  end.

(* ---------------------------------------------------------------- integer part, tests, approximations *)
Definition an_floor (x : anum) : Z := dy_floor_int (an_a x).
Definition an_ceiling (x : anum) : Z := if an_is_point x then dy_ceiling_int (an_a x) else dy_ceiling_int (an_b x).
Definition an_is_integer (x : anum) : bool := if an_is_point x then dy_is_integer (an_a x) else false.
Definition an_is_rational (x : anum) : bool :=
  match an_f x with None => true | Some p => Nat.eqb (pdeg p) 1 end.
Definition an_dyadic_midpoint (x : anum) : dyadic :=
  if an_is_point x then an_a x else let q := an_dy_add0 (an_a x) (an_b x) in dy_div_2exp AliasA q q 1.

Fixpoint an_refine_n (n : nat) (x : anum) : anum :=
  match n with
  | O => x
  | S k => match an_f x with None => x | Some _ => an_refine_n k (an_refine x) end
  end.
(* the refinement shared by to_rational and to_double, AS REPAIRED (fixes/C07-to-double-to-rational-iterations.patch):
   the width b - a = m / 2^n is below 2^(bits(m) - n); with size_log = bits(m) - n > -100 the interval is halved
   100 + size_log times, so that the final width is at most 2^-100.  (The pinned code halved 100 - n times, looking at
   the denominator exponent only: History_C07.v keeps that version and its refutation.) *)
Definition an_approx_refine (x : anum) : anum :=
  let sz := an_dy_sub0 (an_b x) (an_a x) in
  let size_log := z_bits (da sz) - Z.of_N (dn sz) in
  if -100 <? size_log then an_refine_n (Z.to_nat (100 + size_log)) x else x.
(* lp_algebraic_number_to_rational: the value itself for points and linear polynomials, else the lower end after
   refinement (the operand is refined on a copy: no state is returned) *)
Definition an_to_rational (x : anum) : rat :=
  match an_f x with
  | None => q_from_dyadic (an_a x)
  | Some p =>
    if Nat.eqb (pdeg p) 1 then q_neg (q_canon' (nth 0 p 0, nth 1 p 0))
    else q_from_dyadic (an_a (an_approx_refine x))
  end.
(* the dyadic whose conversion lp_algebraic_number_to_double returns *)
Definition an_to_double_dyadic (x : anum) : dyadic :=
  match an_f x with None => an_a x | Some _ => an_a (an_approx_refine x) end.

(* ---------------------------------------------------------------- negation *)
Fixpoint an_subst_x_neg_aux (odd : bool) (p : poly) : poly :=
  match p with
  | [] => []
  | c :: p' => (if odd then - c else c) :: an_subst_x_neg_aux (negb odd) p'
  end.
Definition an_subst_x_neg (p : poly) : poly := an_subst_x_neg_aux false p.          (* lp_upolynomial_subst_x_neg *)
Definition an_make_lc_positive (p : poly) : poly := if plc p <? 0 then pneg p else p.

Definition an_neg (fuel : nat) (x : anum) : option anum :=
  match an_f x with
  | None => Some (an_construct_from_dyadic (an_dy_neg1 (an_a x)))
  | Some p => an_construct fuel (an_make_lc_positive (an_subst_x_neg p)) (an_dy_neg1 (an_b x)) (an_dy_neg1 (an_a x))
  end.

(* ---------------------------------------------------------------- inverse (x <> 0) *)
(* do { m = (lb + m) / 2 } while (sgn f(m) * sgn <= 0)   -- the other loop is symmetric (m = (m + ub) / 2) *)
Fixpoint an_inv_bisect (fuel : nat) (f : poly) (fixed m : rat) (s : Z) : option rat :=
  match fuel with
  | O => None
  | S k =>
    let m' := q_div_2exp (q_add fixed m) 1 in
    if psgn_q f m' * s <=? 0 then an_inv_bisect k f fixed m' s else Some m'
  end.

Definition an_inv_point (fuel : nat) (q : dyadic) : option anum :=
  match q_inv (q_from_dyadic q) with
  | None => None                                  (* inverse of zero: outside the domain *)
  | Some i => an_construct_from_rational fuel i
  end.

Fixpoint an_inv (fuel : nat) (x : anum) : option (anum * anum) :=   (* (inverse, new state of the operand) *)
  match fuel with
  | O => None
  | S k =>
    match an_f x with
    | None => match an_inv_point fuel (an_a x) with Some r => Some (r, x) | None => None end
    | Some p =>
      if (dy_sgn (an_a x) =? 0) || (dy_sgn (an_b x) =? 0) then an_inv k (an_refine x)
      else
        let f := an_make_lc_positive (rev p) in
        let lb := q_inv (q_from_dyadic (an_b x)) in
        let ub := q_inv (q_from_dyadic (an_a x)) in
        match lb, ub with
        | Some lb, Some ub =>
          match an_inv_bisect fuel f lb ub (psgn_q f lb) with
          | None => None
          | Some m1 =>
            match dy_get_value_between fuel lb m1 with
            | None => None
            | Some lb_dy =>
              match an_inv_bisect fuel f ub lb (psgn_q f ub) with
              | None => None
              | Some m2 =>
                match dy_get_value_between fuel m2 ub with
                | None => None
                | Some ub_dy =>
                  match an_construct fuel f lb_dy ub_dy with
                  | Some r => Some (r, x)
                  | None => None
                  end
                end
              end
            end
          end
        | _, _ => None
        end
    end
  end.

(* ---------------------------------------------------------------- the selection loop of lp_algebraic_number_op
   The resultant and the isolation of its real roots are ARGUMENTS (roots : the isolated roots of f_r, each a
   well-formed number); iop is the interval operation (dyadic_interval_add/sub/mul, or pow with the second
   interval ignored).  b = None for the unary power. *)
Definition an_filter_roots (roots : list anum) (I : an_ivl) : list anum :=
  filter (fun r => negb (iv_disjoint (an_ivl_of r) I)) roots.

Inductive an_opres := OpOk (r : anum) (a : anum) (b : option anum) | OpFuel | OpAssert.

Definition an_refine_opt (b : option anum) : option anum := match b with Some y => Some (an_refine y) | None => None end.
Definition an_ivl_opt (b : option anum) : an_ivl := match b with Some y => an_ivl_of y | None => mkIvl an_dzero false an_dzero false true end.

Fixpoint an_op_loop (fuel : nat) (iop : an_ivl -> an_ivl -> an_ivl) (a : anum) (b : option anum) (roots : list anum) : an_opres :=
  match fuel with
  | O => OpFuel
  | S f =>
    match roots with
    | [] => OpAssert                                   (* assert(f_roots_size == 1) *)
    | [r] => OpOk r a b
    | _ =>
      let I := iop (an_ivl_of a) (an_ivl_opt b) in
      let roots' := an_filter_roots roots I in
      match roots' with
      | _ :: _ :: _ => an_op_loop f iop (an_refine a) (an_refine_opt b) (map an_refine roots')
      | _ => an_op_loop f iop a b roots'
      end
    end
  end.

(* dyadic_interval_root_overapprox (arithmetic.c) on top of the repaired dyadic_rational_root_approx *)
Definition iv_root_overapprox (I : an_ivl) (n prec : N) : an_ivl :=
  if (n =? 1)%N then I
  else
    let '(lo, ex) := dy_root_approx (iv_lo I) n prec false in
    if ex && iv_pt I then mkIvl lo false lo false true
    else
      let hi := fst (dy_root_approx (if iv_pt I then iv_lo I else iv_hi I) n prec true) in
      mkIvl lo false hi false false.

(* the loop of lp_algebraic_number_positive_root; roots = isolated real roots of f(x^n) *)
Fixpoint an_root_loop (fuel : nat) (n prec : N) (a : anum) (roots : list anum) : an_opres :=
  match fuel with
  | O => OpFuel
  | S f =>
    match roots with
    | [] => OpAssert
    | [r] => OpOk r a None
    | _ =>
      let I := iv_root_overapprox (an_ivl_of a) n prec in
      let roots' := an_filter_roots roots I in
      match roots' with
      | _ :: _ :: _ => an_root_loop f n (prec + 1) (an_refine a) (map an_refine roots')
      | _ => an_root_loop f n (prec + 1) a roots'
      end
    end
  end.

(* ---------------------------------------------------------------- executable well-formedness (run on every struct
   the implementation prints): normalised ends, a < b, correct sign caches of opposite non-zero sign, primitive
   polynomial with positive leading coefficient and non-zero constant term, width < 1 and no integer strictly
   inside (a, b) (floor / ceiling / is_integer read the ends only).  "Exactly one root inside" is checked by
   RefAlg.rn_valid (Sturm). *)
Definition an_wf (x : anum) : bool :=
  match an_f x with
  | None => dy_is_normalized (an_a x) && (an_sa x =? 0) && (an_sb x =? 0)
  | Some p =>
    dy_is_normalized (an_a x) && dy_is_normalized (an_b x) && an_dy_lt (an_a x) (an_b x) &&
    (an_sa x =? an_psgn_dy p (an_a x)) && (an_sb x =? an_psgn_dy p (an_b x)) && (an_sa x * an_sb x <? 0) &&
    (pcontent p =? 1) && (0 <? plc p) && negb (nth 0 p 0 =? 0) && (length (pnorm p) =? length p)%nat &&
    (dy_ceiling_int (an_b x) - dy_floor_int (an_a x) <=? 1)
  end.

(* ---------------------------------------------------------------- reference arithmetic used by the checks (NOT a
   model of libpoly): RefAlg.v's exact arithmetic with the Sturm chain function as an ARGUMENT, so that the driver can
   pass a memoised `sturm_chain` (the chain of a degree-16 resultant costs ~1 s in the extracted arithmetic and RefAlg
   recomputes it at every refinement step).  `chain` must be UPoly.sturm_chain.  Differences from RefAlg: polynomials
   are used as they are (no square-free normalisation: a Sturm chain counts DISTINCT roots of any non-zero polynomial
   between two non-roots), results are only ever compared through rv_eqb (gcd + root count), and a number read from
   the implementation is required to have a sign change over its interval (AlgNum.an_wf), which is all rn_refine
   and rn_cmp_q need. *)
Definition rn_of_an (x : anum) : rnum :=
  match an_f x with
  | None => RQ (q_from_dyadic (an_a x))
  | Some p => RA p (q_from_dyadic (an_a x)) (q_from_dyadic (an_b x))
  end.

Section Ref.
Variable chain : poly -> list poly.

(* distinct roots of p in the open interval (lo, hi), p(lo) <> 0 *)
Definition rv_count (p : poly) (lo hi : rat) : nat :=
  let ch := chain p in
  let c := (sturm_var ch (xr lo) - sturm_var ch (xr hi))%nat in
  if psgn_q p hi =? 0 then Nat.pred c else c.

Definition rv_valid (x : rnum) : bool :=
  match x with
  | RQ q => q_is_canon q
  | RA p lo hi =>
    q_is_canon lo && q_is_canon hi && q_lt lo hi && negb (pis_zero p) &&
    negb (psgn_q p lo =? 0) && negb (psgn_q p hi =? 0) && Nat.eqb (rv_count p lo hi) 1
  end.

Fixpoint rv_select (fuel : nat) (r : poly) (encl : rnum -> rnum -> rat * rat) (x y : rnum) : option rnum :=
  match fuel with
  | O => None
  | S f =>
    let '(l, h) := encl x y in
    if q_eq l h then Some (RQ l)
    else if negb (psgn_q r l =? 0) && negb (psgn_q r h =? 0) && Nat.eqb (rv_count r l h) 1
    then Some (RA r l h)
    else rv_select f r encl (rn_refine x) (rn_refine y)
  end.

Definition rv_add (fuel : nat) (x y : rnum) : option rnum :=
  match x, y with
  | RQ a, RQ b => Some (RQ (q_add a b))
  | _, _ =>
    let r := ppp (ann_add (rn_poly x) (rn_poly y)) in
    rv_select fuel r (fun x y => iv_add (rn_lo x) (rn_hi x) (rn_lo y) (rn_hi y)) x y
  end.
Definition rv_neg (x : rnum) : rnum :=
  match x with
  | RQ q => RQ (q_neg q)
  | RA p lo hi => RA (UPoly.pcomp p [0; -1]) (q_neg hi) (q_neg lo)
  end.
Definition rv_sub (fuel : nat) (x y : rnum) : option rnum := rv_add fuel x (rv_neg y).
Definition rv_mul (fuel : nat) (x y : rnum) : option rnum :=
  match x, y with
  | RQ a, RQ b => Some (RQ (q_mul a b))
  | _, _ =>
    if (rn_sgn x =? 0) || (rn_sgn y =? 0) then Some (RQ (0, 1)) else
    let r := ppp (ann_mul (rn_poly x) (rn_poly y)) in
    rv_select fuel r (fun x y => iv_mul (rn_lo x) (rn_hi x) (rn_lo y) (rn_hi y)) x y
  end.
(* inverse of a non-zero number: reversed polynomial over (1/hi, 1/lo) once both ends have the sign of x *)
Fixpoint rv_inv_loop (fuel : nat) (x : rnum) : option rnum :=
  match fuel with
  | O => None
  | S f =>
    match x with
    | RQ q => match q_inv q with Some i => Some (RQ i) | None => None end
    | RA p lo hi =>
      if 0 <? q_sgn lo * q_sgn hi then
        match q_inv hi, q_inv lo with
        | Some l, Some h => Some (RA (rev (pnorm p)) l h)
        | _, _ => None
        end
      else rv_inv_loop f (rn_refine x)
    end
  end.
Definition rv_inv (fuel : nat) (x : rnum) : option rnum :=
  if rn_sgn x =? 0 then None else rv_inv_loop fuel x.
Definition rv_div (fuel : nat) (x y : rnum) : option rnum :=
  match rv_inv fuel y with Some i => rv_mul fuel x i | None => None end.

(* the annihilator of x^n is RefAlg.ann_pow: Res_t (p(t), z - t^n), same degree as p *)
(* enclosure of x^n for x in the open interval (lo, hi) (or the point lo = hi) *)
Definition iv_pow_q (n : nat) (lo hi : rat) : rat * rat :=
  let pl := q_pow lo (N.of_nat n) in
  let ph := q_pow hi (N.of_nat n) in
  if Nat.odd n then (pl, ph)
  else if 0 <=? q_sgn lo then (pl, ph)
  else if q_sgn hi <=? 0 then (ph, pl)
  else let m := q_max pl ph in (q_neg m, m).
Definition rv_pow (fuel : nat) (x : rnum) (n : nat) : option rnum :=
  match n with
  | O => Some (RQ (1, 1))
  | _ =>
    match x with
    | RQ q => Some (RQ (q_pow q (N.of_nat n)))
    | RA p _ _ =>
      let r := ppp (ann_pow p n) in
      rv_select fuel r (fun x _ => iv_pow_q n (rn_lo x) (rn_hi x)) x (RQ (0, 1))
    end
  end.

(* equality: a common root in the intersection of the intervals (the ends of the intersection are ends of the
   operands' intervals, where the operand's own polynomial - hence the gcd - does not vanish) *)
Definition rv_eqb (x y : rnum) : bool :=
  match x, y with
  | RQ a, _ => rn_cmp_q y a =? 0
  | _, RQ b => rn_cmp_q x b =? 0
  | RA p lo hi, RA p' lo' hi' =>
    let l := q_max lo lo' in
    let h := q_min hi hi' in
    if q_lt l h then
      if peqb p p' then Nat.ltb 0 (rv_count p l h)
      else
        let g := pgcd p p' in
        if Nat.ltb (pdeg g) 1 then false else Nat.ltb 0 (rv_count g l h)
    else false
  end.
Definition rv_cmp (fuel : nat) (x y : rnum) : option Z :=
  if rv_eqb x y then Some 0 else rn_cmp_loop fuel x y.
End Ref.
