(* C10 model, continued: coefficient_value_approx (the power-sum interval evaluation used by coefficient_sgn and
   coefficient_evaluate), on top of the C15 model of rational interval arithmetic (IntervalArith.v: ri_pow / ri_mul /
   ri_add with their aliasing pattern and the previous contents of the output operand).  Executable, stdlib only,
   no proofs here (EvalSgnApproxProofs.v).

     coefficient_value_approx(C, m, value):
       C numeric:  value := [c, c]                             (lp_rational_interval_construct_from_integer, a point)
       otherwise:  result = tmp1 = tmp2 = 0 (points);  x_value = m(VAR(C))
                   for i < SIZE(C), COEFF(C, i) not the zero constant:
                     coefficient_value_approx(COEFF(C, i), m, &tmp1)      (swapped in)
                     rational_interval_pow(&tmp2, &x_value, i)            fresh-style call, output pre-used
                     rational_interval_mul(&tmp2, &tmp2, &tmp1)           output aliased with the first operand
                     rational_interval_add(&result, &result, &tmp2)       output aliased with the first operand
   order = the variables, TOP variable first (as EvalSgn.eval_rat); m x = the rational interval of the value of x
   (a point for a rational value, the isolating interval for a proper algebraic number). *)
From Coq Require Import ZArith NArith List Bool.
From LP Require Import Scalar MPoly IntervalArith.
Import ListNotations.
Local Open Scope Z_scope.

(* lp_rational_interval_construct_zero *)
Definition ri_zero : ritv := gi_point rat_ops (0, 1).

Definition va_state := (ritv * ritv * ritv)%type.     (* result, tmp1, tmp2 *)

Fixpoint va_loop (rec : mpoly -> ritv) (x_value : ritv) (cs : list mpoly) (i : N) (st : va_state) : va_state :=
  match cs with
  | [] => st
  | ci :: cs' =>
    let '(result, tmp1, tmp2) := st in
    let st' :=
      if mp_is_zero ci then st
      else
        let tmp1' := rec ci in
        let tmp2a := ri_pow NoAlias tmp2 x_value i in
        let tmp2b := ri_mul AliasA tmp2a tmp2a tmp1' in
        (ri_add AliasA result result tmp2b, tmp1', tmp2b) in
    va_loop rec x_value cs' (N.succ i) st'
  end.

Fixpoint value_approx (order : list var) (m : var -> ritv) (C : mpoly) : ritv :=
  match order with
  | [] => gi_point rat_ops (q_from_integer (mp_eval (fun _ => 0) C))    (* C is a numeral *)
  | x :: rest =>
    if (mp_degree x C =? 0)%N then value_approx rest m C                (* x is not the top variable of C *)
    else fst (fst (va_loop (value_approx rest m) (m x) (mp_coeffs x C) 0%N (ri_zero, ri_zero, ri_zero)))
  end.
