(* Rationality of a reference algebraic number: x is rational iff lc(p) * x is an integer (rational root theorem);
   rn_is_rational / rn_to_rational / rn_sgn by denotation. *)
From Coq Require Import ZArith Znumtheory Zpow_facts Lia.
From LP Require Import Scalar UPoly RefAlg.
Set Warnings "-notation-overridden,-ambiguous-paths".
From mathcomp Require Import all_ssreflect all_algebra all_real_closed.
From mathcomp Require Import ssrZ zify ring.
Set Warnings "notation-overridden,ambiguous-paths".
From LP Require Import UPolySpec ScalarProofs GcdSpec RefAlgSpec RefAlgLoops RefAlgOps RefAlgArith RefAlgSqfree.
Import GRing.Theory Num.Theory Num.Def Order.TTheory.
Set Implicit Arguments.
Unset Strict Implicit.
Unset Printing Implicit Defensive.
Local Open Scope ring_scope.

Section Rat.
Variable R : rcfType.
Local Notation zr := (@zr R).
Local Notation pr := (@pr R).
Local Notation qr := (@qr R).
Local Notation rn_denotes := (@rn_denotes R).

Lemma zrMr (x y : Z) : zr (x * y) = zr x * zr y. Proof. exact: (rmorphM (zr_rmorphism R)). Qed.
Lemma zrDr (x y : Z) : zr (x + y) = zr x + zr y. Proof. exact: (rmorphD (zr_rmorphism R)). Qed.
Lemma zrXr (x : Z) (k : nat) : zr (x ^+ k) = zr x ^+ k. Proof. exact: (rmorphX (zr_rmorphism R)). Qed.

(* every rational value has a representation in lowest terms *)
Lemma lowest_terms (q : Z * Z) : qpos q ->
  exists n d : Z, [/\ Z.lt 0 d, Z.gcd n d = Zpos xH & qr q = zr n / zr d].
Proof.
case: q => a b; rewrite /qpos /= => Hb.
have [r Hr] := ScalarProofs.q_canon_some a b (not_eq_sym (Z.lt_neq _ _ Hb)).
have [[Hpos Hg] Heq] := ScalarProofs.q_canon_spec a b r Hr.
exists r.1, r.2; split=> //; rewrite /RefAlgSpec.qr /=.
have b0 : zr b != 0 by rewrite gt_eqF // zr_gt0.
have r0 : zr r.2 != 0 by rewrite gt_eqF // zr_gt0.
by apply/eqP; rewrite eqr_div // -!zrM Heq.
Qed.

(* rational root theorem: the denominator of a rational root in lowest terms divides the leading coefficient *)
Lemma rational_root_den (l : seq Z) (n d : Z) : Z.lt 0 d -> Z.gcd n d = Zpos xH ->
  (pr l).[zr n / zr d] = 0 -> (d | last Z0 l)%Z.
Proof.
move=> Hd Hg; case: (lastP l) => [|s c] Hroot; first by exists Z0.
rewrite last_rcons.
have d0 : zr d != 0 by rewrite gt_eqF // zr_gt0.
pose k := size s.
pose T := \sum_(i < k) nth Z0 s i * n ^+ i * d ^+ (k - i.+1).
have E : c * n ^+ k + d * T = 0.
  apply: (@zr_inj R); rewrite zr0 zrDr !zrMr !zrXr.
  rewrite (rmorph_sum (zr_rmorphism R)) /=.
  have -> : zr c * zr n ^+ k + zr d * (\sum_(i < k) zr (nth Z0 s i * n ^+ i * d ^+ (k - i.+1))) =
            zr d ^+ k * (pr (rcons s c)).[zr n / zr d].
    rewrite horner_pr_rcons mulrDr -/k exprMn exprVn [LHS]addrC; congr (_ + _); last first.
      move: (zr c) (zr n ^+ k) (zr d ^+ k) (expf_neq0 k d0) => C N D D0.
      by field.
    rewrite horner_pr_nth !mulr_sumr; apply: eq_bigr => i _.
    rewrite !zrMr !zrXr exprMn exprVn.
    have Hi : (i < k)%N by [].
    have -> : zr d ^+ k = zr d ^+ (k - i.+1) * zr d * zr d ^+ i.
      by rewrite -exprSr -exprD; congr (_ ^+ _); lia.
    move: (zr (nth Z0 s i)) (zr n ^+ i) (zr d ^+ (k - i.+1)) (zr d ^+ i) (expf_neq0 i d0) => C N D1 D2 D20.
    by field.
  by rewrite Hroot mulr0.
have Hdiv : (d | c * n ^+ k)%Z by exists (- T); move: E; rewrite /GRing.mul /GRing.add /GRing.opp /=; lia.
have Hrp : rel_prime d (n ^+ k).
  rewrite -GcdSpec.Zpow_exp; apply: rel_prime_Zpower_r; first by lia.
  by apply: rel_prime_sym; apply/Zgcd_1_rel_prime.
have Hdiv' : (d | n ^+ k * c)%Z by move: Hdiv; rewrite Z.mul_comm.
by apply: (Gauss d (n ^+ k) c Hdiv').
Qed.

(* x rational => lc(p) * x is an integer *)
Lemma rational_times_lc (p : seq Z) (q : Z * Z) : qpos q -> root (pr p) (qr q) ->
  exists z : Z, qr q * zr (plc p) = zr z.
Proof.
move=> Hq rq; have [n [d [Hd Hg Eq]]] := lowest_terms Hq.
have Epn : pr (pnorm p) = pr p by rewrite /RefAlgSpec.pr Poly_pnorm.
have Hr : (pr (pnorm p)).[zr n / zr d] = 0 by rewrite Epn -Eq; exact/eqP.
have [e He] := rational_root_den Hd Hg Hr.
have d0 : zr d != 0 by rewrite gt_eqF // zr_gt0.
exists (Z.mul n e); rewrite Eq /plc List_last_nth nth_last He zrM zrMr.
by move: (zr n) (zr d) (zr e) d0 => N D E D0; field.
Qed.

Lemma denotes_lc_neq0 (p : seq Z) (lo hi : Z * Z) (v : R) : rn_denotes (RA p lo hi) v -> zr (plc p) != 0.
Proof.
move=> [_ _ _ _ sgn]; rewrite zr_eq0 ZeqbP; apply: GcdSpec.plc_neq0.
rewrite -(pr_eq0 R); apply/eqP => E.
by move: sgn; rewrite E !horner0 sgr0 mulr0 => /eqP; rewrite eq_sym oppr_eq0 oner_eq0.
Qed.

Theorem rn_is_rational_spec (fuel : nat) (x : rnum) (v : R) (b : bool) :
  rn_denotes x v -> rn_is_rational fuel x = Some b ->
  b = true <-> exists q : Z * Z, qpos q /\ v = qr q.
Proof.
case: x => [q|p lo hi] Hx /=.
  by case=> <-; split=> // _; exists q; case: Hx.
have lc0 := denotes_lc_neq0 Hx.
have Hq : qpos (plc p, Zpos xH) by [].
have Hw := rn_mul_q_spec Hx Hq.
have Eq1 : qr (plc p, Zpos xH) = zr (plc p) by rewrite /RefAlgSpec.qr /= zr1 divr1.
rewrite Eq1 in Hw => Hb; have [H1 H2] := rn_is_integer_spec Hw Hb.
split=> [/H1 [z Ez]|[q [Hq' Ev]]].
  have Ev : v = zr z / zr (plc p) by rewrite -Ez mulfK.
  case: (Z.ltb_spec 0 (plc p)) => Hlc; first by exists (z, plc p).
  exists (Z.opp z, Z.opp (plc p)); split.
    by rewrite /qpos /=; move: lc0; rewrite zr_eq0 => /Z.eqb_spec; lia.
  by rewrite /RefAlgSpec.qr /= !zrN invrN mulrNN.
apply: H2; case: Hx => _ _ rv _ _.
by rewrite Ev; apply: rational_times_lc => //; rewrite -Ev.
Qed.

Theorem rn_to_rational_spec (fuel : nat) (x : rnum) (v : R) (q : Z * Z) :
  rn_denotes x v -> rn_to_rational fuel x = Some q -> qpos q /\ v = qr q.
Proof.
case: x => [r|p lo hi] Hx /=; first by case=> <-; case: Hx.
have lc0 := denotes_lc_neq0 Hx.
have Hq : qpos (plc p, Zpos xH) by [].
have Hw := rn_mul_q_spec Hx Hq.
have Eq1 : qr (plc p, Zpos xH) = zr (plc p) by rewrite /RefAlgSpec.qr /= zr1 divr1.
rewrite Eq1 in Hw.
case Ef: (rn_floor fuel _) => [fl|] //.
have := rn_cmp_q_spec Hw (qpos_of_Z fl); rewrite qr_of_Z.
case: Z.eqb_spec => // -> /esym/eqP; rewrite zr0 sgr_eq0 subr_eq0 => /eqP Ev Hc.
have [[Hpos _] Heq] := ScalarProofs.q_canon_spec fl (plc p) q Hc.
split=> //; rewrite /RefAlgSpec.qr.
have q0 : zr q.2 != 0 by rewrite gt_eqF // zr_gt0.
have -> : v = zr fl / zr (plc p) by rewrite -Ev mulfK.
by apply/eqP; rewrite eqr_div // -!zrM Heq.
Qed.

End Rat.
