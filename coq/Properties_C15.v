(* Property C15 - interval arithmetic and interval evaluation never lose a point.
   ONLY theorem statements, each closed by `exact` of a lemma of IntervalArithProofs.v, with Print
   Assumptions beneath.  Model: IntervalArith.v (the code as repaired by the patches fixes/C15-xxx.patch; the pinned
   functions and their refutations are in History_C15.v).

   Reading guide
     rin x I / din x I : the rational x lies in the rational / dyadic interval I
                         (Qin: a point interval denotes {a}; otherwise a <(=) x <(=) b by the open flags)
     vin x I           : the same for value-level intervals, whose ends denote extended rationals
                         (-inf, +inf, integer, dyadic, rational; ALGEBRAIC ends are not modelled)
     rwf / dwf / viwf  : the data-structure invariant (canonical scalars; a point has closed ends)
     al, S             : aliasing pattern and PREVIOUS contents of the output operand - every theorem about
                         ri_xxx / di_xxx holds for all of them (rpt_ok S: if S is a point its unused b is 0)
   All intervals are covered: every open/closed pattern, points, ends at / around zero, and no ordering
   hypothesis a <= b is needed (membership of x makes the interval non-empty).                     *)
From Coq Require Import ZArith QArith List Bool.
From LP Require Import Scalar ScalarProofs IntervalArith IntervalArithProofs IntervalArithSetProofs.
Import ListNotations.
Local Open Scope Q_scope.

(* ---- 1. rational intervals (rational_interval_add/sub/neg/mul/pow): inclusion + invariant, for every
        previous content of the output and every aliasing pattern *)
Theorem C15_rat_add_incl : forall al S I1 I2 x y, alias_ok_i al S I1 I2 -> rpt_ok S -> rwf I1 -> rwf I2 ->
  rin x I1 -> rin y I2 -> rin (x + y) (ri_add al S I1 I2) /\ rwf (ri_add al S I1 I2).
Proof. exact ri_add_correct. Qed.
Print Assumptions C15_rat_add_incl.
Theorem C15_rat_sub_incl : forall al S I1 I2 x y, alias_ok_i al S I1 I2 -> rpt_ok S -> rwf I1 -> rwf I2 ->
  rin x I1 -> rin y I2 -> rin (x - y) (ri_sub al S I1 I2) /\ rwf (ri_sub al S I1 I2).
Proof. exact ri_sub_correct. Qed.
Print Assumptions C15_rat_sub_incl.
Theorem C15_rat_neg_incl : forall al S I x, alias1_ok_i al S I -> rpt_ok S -> rwf I ->
  rin x I -> rin (- x) (ri_neg al S I) /\ rwf (ri_neg al S I).
Proof. exact ri_neg_correct. Qed.
Print Assumptions C15_rat_neg_incl.
Theorem C15_rat_mul_incl : forall al S I1 I2 x y, alias_ok_i al S I1 I2 -> rpt_ok S -> rwf I1 -> rwf I2 ->
  rin x I1 -> rin y I2 -> rin (x * y) (ri_mul al S I1 I2) /\ rwf (ri_mul al S I1 I2).
Proof. exact ri_mul_correct. Qed.
Print Assumptions C15_rat_mul_incl.
(* all exponents n, including 0 *)
Theorem C15_rat_pow_incl : forall al S I n x, alias1_ok_i al S I -> rpt_ok S -> rwf I ->
  rin x I -> rin (x ^ Z.of_N n) (ri_pow al S I n) /\ rwf (ri_pow al S I n).
Proof. exact ri_pow_correct. Qed.
Print Assumptions C15_rat_pow_incl.
(* exact on points: the result IS the closed point interval of the exact value *)
Theorem C15_rat_point_exact : forall al S I1 I2 n, alias_ok_i al S I1 I2 -> rpt_ok S -> rwf I1 -> rwf I2 ->
  ipt I1 = true -> ipt I2 = true ->
  r_is_point_of (ri_add al S I1 I2) (QofR (ia I1) + QofR (ia I2)) /\
  r_is_point_of (ri_sub al S I1 I2) (QofR (ia I1) - QofR (ia I2)) /\
  r_is_point_of (ri_mul al S I1 I2) (QofR (ia I1) * QofR (ia I2)) /\
  r_is_point_of (ri_pow (alias_un al) S I1 n) (QofR (ia I1) ^ Z.of_N n) /\
  r_is_point_of (ri_neg (alias_un al) S I1) (- QofR (ia I1)).
Proof. exact ri_point_exact. Qed.
Print Assumptions C15_rat_point_exact.
(* lp_rational_interval_sgn is sound for every member; contains_zero and contains are exact (the latter is
   the checker the correspondence monitor relies on) *)
Theorem C15_rat_sgn_sound : forall I x, rwf I -> rin x I ->
  ((0 < ri_sgn I)%Z -> 0 < x) /\ ((ri_sgn I < 0)%Z -> x < 0) /\ (ri_sgn I = 0%Z -> rin 0 I).
Proof. exact ri_sgn_sound. Qed.
Print Assumptions C15_rat_sgn_sound.
Theorem C15_rat_contains_zero : forall I, rwf I -> (ri_contains_zero I = true <-> rin 0 I).
Proof. exact ri_contains_zero_spec. Qed.
Print Assumptions C15_rat_contains_zero.
Theorem C15_rat_contains : forall I q, rwf I -> q_wf q -> (ri_contains I q = true <-> rin (QofR q) I).
Proof. exact ri_contains_spec. Qed.
Print Assumptions C15_rat_contains.

(* ---- 2. dyadic intervals (dyadic_interval_xxx): the same statements *)
Theorem C15_dy_add_incl : forall al S I1 I2 x y, alias_ok_i al S I1 I2 -> dpt_ok S -> dwf I1 -> dwf I2 ->
  din x I1 -> din y I2 -> din (x + y) (di_add al S I1 I2) /\ dwf (di_add al S I1 I2).
Proof. exact di_add_correct. Qed.
Print Assumptions C15_dy_add_incl.
Theorem C15_dy_sub_incl : forall al S I1 I2 x y, alias_ok_i al S I1 I2 -> dpt_ok S -> dwf I1 -> dwf I2 ->
  din x I1 -> din y I2 -> din (x - y) (di_sub al S I1 I2) /\ dwf (di_sub al S I1 I2).
Proof. exact di_sub_correct. Qed.
Print Assumptions C15_dy_sub_incl.
Theorem C15_dy_neg_incl : forall al S I x, alias1_ok_i al S I -> dpt_ok S -> dwf I ->
  din x I -> din (- x) (di_neg al S I) /\ dwf (di_neg al S I).
Proof. exact di_neg_correct. Qed.
Print Assumptions C15_dy_neg_incl.
Theorem C15_dy_mul_incl : forall al S I1 I2 x y, alias_ok_i al S I1 I2 -> dpt_ok S -> dwf I1 -> dwf I2 ->
  din x I1 -> din y I2 -> din (x * y) (di_mul al S I1 I2) /\ dwf (di_mul al S I1 I2).
Proof. exact di_mul_correct. Qed.
Print Assumptions C15_dy_mul_incl.
Theorem C15_dy_pow_incl : forall al S I n x, alias1_ok_i al S I -> dpt_ok S -> dwf I ->
  din x I -> din (x ^ Z.of_N n) (di_pow al S I n) /\ dwf (di_pow al S I n).
Proof. exact di_pow_correct. Qed.
Print Assumptions C15_dy_pow_incl.
Theorem C15_dy_point_exact : forall al S I1 I2 n, alias_ok_i al S I1 I2 -> dpt_ok S -> dwf I1 -> dwf I2 ->
  ipt I1 = true -> ipt I2 = true ->
  d_is_point_of (di_add al S I1 I2) (QofD (ia I1) + QofD (ia I2)) /\
  d_is_point_of (di_sub al S I1 I2) (QofD (ia I1) - QofD (ia I2)) /\
  d_is_point_of (di_mul al S I1 I2) (QofD (ia I1) * QofD (ia I2)) /\
  d_is_point_of (di_pow (alias_un al) S I1 n) (QofD (ia I1) ^ Z.of_N n) /\
  d_is_point_of (di_neg (alias_un al) S I1) (- QofD (ia I1)).
Proof. exact di_point_exact. Qed.
Print Assumptions C15_dy_point_exact.
Theorem C15_dy_sgn_sound : forall I x, dwf I -> din x I ->
  ((0 < di_sgn I)%Z -> 0 < x) /\ ((di_sgn I < 0)%Z -> x < 0) /\ (di_sgn I = 0%Z -> din 0 I).
Proof. exact di_sgn_sound. Qed.
Print Assumptions C15_dy_sgn_sound.
Theorem C15_dy_contains_zero : forall I, dwf I -> (di_contains_zero I = true <-> din 0 I).
Proof. exact di_contains_zero_spec. Qed.
Print Assumptions C15_dy_contains_zero.
Theorem C15_dy_contains : forall I q, dwf I -> dy_wf q -> (di_contains I q = true <-> din (QofD q) I).
Proof. exact di_contains_spec. Qed.
Print Assumptions C15_dy_contains.

(* ---- 2b. the rest of dyadic_interval.h (isolating intervals of algebraic numbers and feasibility sets are built
        on these): set operations against the membership predicate.  dord I: a non-point interval has a < b. *)
Theorem C15_dy_disjoint_sound : forall I1 I2 z, dwf I1 -> dwf I2 -> di_disjoint I1 I2 = true -> din z I1 -> din z I2 -> False.
Proof. exact di_disjoint_sound. Qed.
Print Assumptions C15_dy_disjoint_sound.
Theorem C15_dy_disjoint_complete : forall I1 I2, dwf I1 -> dwf I2 -> dord I1 -> dord I2 ->
  di_disjoint I1 I2 = false -> exists z, din z I1 /\ din z I2.
Proof. exact di_disjoint_complete. Qed.
Print Assumptions C15_dy_disjoint_complete.
Theorem C15_dy_intersection : forall I1 I2 J, dwf I1 -> dwf I2 -> di_intersection I1 I2 = Some J ->
  dwf J /\ forall z, din z J <-> din z I1 /\ din z I2.
Proof. exact di_intersection_spec. Qed.
Print Assumptions C15_dy_intersection.
Theorem C15_dy_equals_sound : forall I1 I2 z, dwf I1 -> dwf I2 -> di_equals I1 I2 = true -> (din z I1 <-> din z I2).
Proof. exact di_equals_sound. Qed.
Print Assumptions C15_dy_equals_sound.
Theorem C15_dy_cmp_integer : forall I k, dwf I -> dord I ->
  (di_cmp_integer I k = 0%Z <-> din (inject_Z k) I) /\
  ((0 < di_cmp_integer I k)%Z -> forall z, din z I -> inject_Z k < z) /\
  ((di_cmp_integer I k < 0)%Z -> forall z, din z I -> z < inject_Z k).
Proof. exact di_cmp_integer_spec. Qed.
Print Assumptions C15_dy_cmp_integer.
Theorem C15_dy_cmp_dyadic : forall I q, dwf I -> dord I -> dy_wf q ->
  (di_cmp_dyadic I q = 0%Z <-> din (QofD q) I) /\
  ((0 < di_cmp_dyadic I q)%Z -> forall z, din z I -> QofD q < z) /\
  ((di_cmp_dyadic I q < 0)%Z -> forall z, din z I -> z < QofD q).
Proof. exact di_cmp_dyadic_spec. Qed.
Print Assumptions C15_dy_cmp_dyadic.
Theorem C15_dy_cmp_rational : forall I q, dwf I -> dord I -> q_wf q ->
  (di_cmp_rational I q = 0%Z <-> din (QofR q) I) /\
  ((0 < di_cmp_rational I q)%Z -> forall z, din z I -> QofR q < z) /\
  ((di_cmp_rational I q < 0)%Z -> forall z, din z I -> z < QofR q).
Proof. exact di_cmp_rational_spec. Qed.
Print Assumptions C15_dy_cmp_rational.
Theorem C15_dy_set_a : forall I a ao J z, dwf I -> dy_wf a -> (ipt I = true -> QofD a == QofD (ia I) -> ao = false) ->
  di_set_a I a ao = Some J ->
  (din z J <-> (QofD a < z \/ (QofD a == z /\ ao = false)) /\ upper_of QofD I z).
Proof. exact di_set_a_spec. Qed.
Print Assumptions C15_dy_set_a.
Theorem C15_dy_set_b : forall I b bo J z, dwf I -> dy_wf b -> di_set_b I b bo = Some J ->
  (din z J <-> lower_of QofD I z /\ (z < QofD b \/ (z == QofD b /\ bo = false))).
Proof. exact di_set_b_spec. Qed.
Print Assumptions C15_dy_set_b.
Theorem C15_dy_collapse_to : forall I q z, din z (di_collapse_to I q) <-> QofD q == z.
Proof. exact di_collapse_to_spec. Qed.
Print Assumptions C15_dy_collapse_to.
(* bisection step of root refinement: the halves add nothing and lose at most the mid point, and only when
   both split flags are open *)
Theorem C15_dy_split : forall I lo ro L R, dwf I -> dord I -> di_from_split I lo ro = Some (L, R) ->
  let m := (QofD (ia I) + QofD (ib I)) * (1 # 2) in
  dwf L /\ dwf R /\
  forall z, ((din z L \/ din z R) -> din z I) /\
            (din z I -> din z L \/ din z R \/ (z == m /\ lo = true /\ ro = true)).
Proof. exact di_from_split_spec. Qed.
Print Assumptions C15_dy_split.

(* ---- 3. the arithmetic fact behind mul, for ALL end points including +-infinity (0 * inf = 0): a product
        of members is admitted, as a lower (upper) end, by one of the four corner products carrying the OR of
        the two open flags, or it is 0 and an operand has a closed zero end *)
Theorem C15_corner_products_low : forall (a1 b1 a2 b2 : eQ) (a1o b1o a2o b2o : bool) (x y : Q),
  lowok a1 a1o x -> upok b1 b1o x -> lowok a2 a2o y -> upok b2 b2o y ->
  lowok (emul a1 a2) (a1o || a2o) (x * y) \/ lowok (emul a1 b2) (a1o || b2o) (x * y) \/
  lowok (emul b1 a2) (b1o || a2o) (x * y) \/ lowok (emul b1 b2) (b1o || b2o) (x * y) \/
  (x * y == 0 /\ czero a1 b1 a2 b2 a1o b1o a2o b2o).
Proof. exact corner_low. Qed.
Print Assumptions C15_corner_products_low.
Theorem C15_corner_products_up : forall (a1 b1 a2 b2 : eQ) (a1o b1o a2o b2o : bool) (x y : Q),
  lowok a1 a1o x -> upok b1 b1o x -> lowok a2 a2o y -> upok b2 b2o y ->
  upok (emul a1 a2) (a1o || a2o) (x * y) \/ upok (emul a1 b2) (a1o || b2o) (x * y) \/
  upok (emul b1 a2) (b1o || a2o) (x * y) \/ upok (emul b1 b2) (b1o || b2o) (x * y) \/
  (x * y == 0 /\ czero a1 b1 a2 b2 a1o b1o a2o b2o).
Proof. exact corner_up. Qed.
Print Assumptions C15_corner_products_up.

(* ---- 4. value level (lp_interval_add / mul / pow): end points are integers, dyadics, rationals of any mix, or
        -inf / +inf (unbounded intervals); 0 * inf = 0 as in the code.  ALGEBRAIC end points are not modelled. *)
Theorem C15_value_add_incl : forall I1 I2 x y, viwf I1 -> viwf I2 -> vin x I1 -> vin y I2 ->
  vin (x + y) (vi_add I1 I2) /\ viwf (vi_add I1 I2).
Proof. exact vi_add_correct. Qed.
Print Assumptions C15_value_add_incl.
Theorem C15_value_mul_incl : forall I1 I2 x y, viwf I1 -> viwf I2 -> vin x I1 -> vin y I2 ->
  vin (x * y) (vi_mul I1 I2) /\ viwf (vi_mul I1 I2).
Proof. exact vi_mul_correct. Qed.
Print Assumptions C15_value_mul_incl.
Theorem C15_value_pow_incl : forall I n x, viwf I -> vin x I ->
  vin (x ^ Z.of_N n) (vi_pow I n) /\ viwf (vi_pow I n).
Proof. exact vi_pow_correct. Qed.
Print Assumptions C15_value_pow_incl.
(* points with rational values: the result is a point and contains exactly the exact value *)
Theorem C15_value_point_exact : forall I1 I2 n x y, viwf I1 -> viwf I2 -> ipt I1 = true -> ipt I2 = true ->
  vin x I1 -> vin y I2 ->
  (ipt (vi_add I1 I2) = true /\ forall z, vin z (vi_add I1 I2) <-> z == x + y) /\
  (ipt (vi_mul I1 I2) = true /\ forall z, vin z (vi_mul I1 I2) <-> z == x * y) /\
  (ipt (vi_pow I1 n) = true /\ forall z, vin z (vi_pow I1 n) <-> z == x ^ Z.of_N n).
Proof. exact vi_point_exact. Qed.
Print Assumptions C15_value_point_exact.

(* ---- 5. coefficient_interval_value / lp_polynomial_interval_value: for EVERY polynomial (any number of
        variables, any degree) and every point rho of the box m, the value of the polynomial at rho lies in
        the computed interval *)
Theorem C15_poly_incl : forall m rho c, (forall x, viwf (m x)) -> (forall x, vin (rho x) (m x)) ->
  vin (ceval rho c) (coef_interval_value m c) /\ viwf (coef_interval_value m c).
Proof. exact coef_interval_value_correct. Qed.
Print Assumptions C15_poly_incl.

(* ---- 6. value level: lp_interval_sgn and the interval form of a sign-condition test *)
Theorem C15_value_sgn_sound : forall I x, viwf I -> vin x I ->
  ((0 < vi_sgn I)%Z -> 0 < x) /\ ((vi_sgn I < 0)%Z -> x < 0) /\ (vi_sgn I = 0%Z -> vin 0 I).
Proof. exact vi_sgn_sound. Qed.
Print Assumptions C15_value_sgn_sound.
(* "answers true only if every point of the interval satisfies the condition" *)
Theorem C15_sc_interval_sound : forall c I x, viwf I -> vin x I ->
  sc_consistent_interval c I = true -> sc_consistent c (Qsgn x) = true.
Proof. exact sc_interval_sound. Qed.
Print Assumptions C15_sc_interval_sound.

(* ---- non-vacuity: the hypotheses are satisfiable on the interesting boundary cases *)
Example C15_nonvacuous_mul :
  let I := mkI (-1, 1)%Z (1, 1)%Z false true false in        (* [-1, 1) *)
  rwf I /\ rin (-1 # 1) I /\ alias_ok_i AliasAB I I I /\
  ri_mul AliasAB I I I = mkI (-1, 1)%Z (1, 1)%Z true false false.   (* (-1, 1]: the closed end 1 = (-1)*(-1) is kept *)
Proof.
  cbn zeta. split; [repeat split; try reflexivity; intros; discriminate|]. split; [|split; [split; reflexivity|reflexivity]].
  unfold rin, Qin. cbn. split; [right; split; reflexivity|left; reflexivity].
Qed.
Example C15_nonvacuous_pow :
  let I := mkI (mkDy (-2) 0) (mkDy (-1) 0) false true false in      (* [-2, -1) *)
  dwf I /\ din (-2 # 1) I /\ di_pow AliasA I I 2 = mkI (mkDy 1 0) (mkDy 4 0) true false false /\
  di_pow NoAlias (gi_point dy_ops dy0) I 0 = gi_point dy_ops (mkDy 1 0).
Proof.
  cbn zeta. split; [repeat split; try (right; right; reflexivity); try (right; left; reflexivity); intros; discriminate|].
  split; [|split; reflexivity]. unfold din, Qin. cbn. split; [right; split; reflexivity|left; reflexivity].
Qed.
Example C15_nonvacuous_value :
  let I1 := mkI VMinf (VRat (1, 2)%Z) true false false in            (* (-inf, 1/2] *)
  let I2 := mkI (VInt 0) (VDy (mkDy 3 1)) false true false in        (* [0, 3/2) *)
  viwf I1 /\ viwf I2 /\ vin (-3 # 1) I1 /\ vin (0 # 1) I2 /\
  vi_mul I1 I2 = mkI VMinf (VRat (3, 4)%Z) true true false /\          (* (-inf, 3/4) *)
  vi_pow I1 2 = mkI (VInt 0) VPinf false true false /\               (* [0, +inf) *)
  coef_interval_value (fun _ => I2) (CRec 0 [CNum 1; CNum 0; CNum 2]) = mkI (VInt 1) (VDy (mkDy 11 1)) false true false.
Proof.
  cbn zeta. split; [split; [exact I|split; reflexivity]|]. split; [split; [exact I|right; left; reflexivity]|].
  split; [unfold vin; cbn; split; [exact I|left; reflexivity]|]. split; [unfold vin; cbn; split; [right; split; reflexivity|left; reflexivity]|].
  repeat split; reflexivity.
Qed.
Example C15_nonvacuous_sc :
  let I := mkI (VInt (-1)) (VInt 0) false true false in             (* [-1, 0) *)
  viwf I /\ vin (-1 # 2) I /\ sc_consistent_interval SGN_LT_0 I = true /\ sc_consistent_interval SGN_LE_0 I = true /\
  sc_consistent_interval SGN_NE_0 I = true /\ sc_consistent_interval SGN_GE_0 I = false.
Proof.
  cbn zeta. split; [split; exact I|]. split; [|repeat split; reflexivity]. unfold vin. cbn. split; left; reflexivity.
Qed.
