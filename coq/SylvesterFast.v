(* C04: the fast reference used beyond dimension 11 (operands with at most one parameter): the fraction-free Bareiss
   elimination RefAlg.pdet_fast applied to the SAME matrices sylv_mat k j, with entries list polynomials in the
   parameter.  It is the determinant of that matrix (RefAlgDet.pdet_fast_det) once the matrix is square. *)
From Coq Require Import ZArith List.
From LP Require Import UPoly MPoly RefAlg Sylvester.
Set Warnings "-notation-overridden,-ambiguous-paths".
From mathcomp Require Import all_ssreflect all_fingroup all_algebra.
From mathcomp Require Import ssrZ zify.
From LP Require Import UPolySpec RefAlgDet SylvesterProofs.
Set Warnings "notation-overridden,ambiguous-paths".
Import GRing.Theory.
Set Implicit Arguments.
Unset Strict Implicit.
Unset Printing Implicit Defensive.
Local Open Scope ring_scope.

Section Shape.
Variables (T : Type) (z : T).

Lemma size_sylv_cols (m n k j : nat) : (0 < m + n - 2 * k)%N -> size (sylv_cols m n k j) = (m + n - 2 * k)%N.
Proof. by move=> H; rewrite /sylv_cols size_cat List_seq_iota size_iota /=; lia. Qed.

(* sylv_mat k j p q is a square matrix of dimension m + n - 2k whenever k <= min(m, n) *)
Lemma sylv_mat_square (k j : nat) (p q : seq T) :
  let m := (size p).-1 in let n := (size q).-1 in
  (k <= m)%N -> (k <= n)%N ->
  size (sylv_mat T z k j p q) = (m + n - 2 * k)%N /\
  all (fun r : seq T => size r == (m + n - 2 * k)%N) (sylv_mat T z k j p q).
Proof.
move=> m n Hm Hn; rewrite /sylv_mat.
have -> : Nat.pred (length p) = m by [].
have -> : Nat.pred (length q) = n by [].
split.
  by rewrite size_cat !size_map !List_seq_iota !size_iota; lia.
rewrite all_cat !all_map !List_seq_iota; apply/andP; split; apply/(all_nthP 0%N) => i;
  rewrite size_iota => Hi /=; rewrite size_map size_sylv_cols //; lia.
Qed.

End Shape.

Theorem fast_det_is_det (k j : nat) (p q : seq (seq Z)) :
  let m := (size p).-1 in let n := (size q).-1 in
  (k <= m)%N -> (k <= n)%N ->
  Poly (pdet_fast (sylv_mat (seq Z) [::] k j p q)) =
  \det (\matrix_(i < m + n - 2 * k, c < m + n - 2 * k)
          (Poly (nth [::] (nth [::] (sylv_mat (seq Z) [::] k j p q) i) c) : {poly Z})).
Proof.
move=> m n Hm Hn; have [Hs Hall] := sylv_mat_square [::] j Hm Hn.
exact: pdet_fast_det Hs Hall.
Qed.
