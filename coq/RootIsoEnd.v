(* Property C06, end to end for the faithful model: isolation factor by factor (RootIso.v) followed by the sort with
   the comparison model of algebraic_number.c (AlgNum.an_cmp, property C07) returns numbers that denote EXACTLY
   MathComp's strictly increasing list of all distinct real roots of f. *)
From Coq Require Import ZArith.
From LP Require Import Scalar UPoly RootIso RefAlg Gcd AlgNum RootIsoSort.
Set Warnings "-notation-overridden,-ambiguous-paths".
From mathcomp Require Import all_ssreflect all_algebra all_real_closed.
From mathcomp Require Import ssrZ zify.
Set Warnings "notation-overridden,ambiguous-paths".
From LP Require Import UPolySpec ScalarProofs GcdSpec RootIsoProofs SturmItv RootIsoFull RootIsoBisect AlgNumProofs AlgNumGcd.
Import GRing.Theory Num.Theory Num.Def Order.TTheory.
Set Implicit Arguments.
Unset Strict Implicit.
Unset Printing Implicit Defensive.
Local Open Scope ring_scope.

Section EndToEnd.
Variable R : rcfType.
Local Notation PR := (PR R).
Local Notation QR := (RootIsoProofs.QR R).
Local Notation ZtoR := (ZtoR R).

(* the two developments use the same embeddings *)
Lemma ZR_ZtoR (z : Z) : @ZR R z = ZtoR z. Proof. by []. Qed.
Lemma polyR_PR (p : seq Z) : @polyR R p = PR p. Proof. by []. Qed.
Lemma dyR_dval (q : rdy) : @dyR R (dy_of_rd q) = dval R q. Proof. by []. Qed.

(* a list of numbers denotes a list of reals *)
Fixpoint Dens (l : seq anum) (vs : seq R) : Prop :=
  match l, vs with
  | [::], [::] => Logic.True
  | x :: l', v :: vs' => Den x v /\ Dens l' vs'
  | _, _ => Logic.False
  end.

Lemma Dens_cat l1 v1 l2 v2 : Dens l1 v1 -> Dens l2 v2 -> Dens (l1 ++ l2) (v1 ++ v2).
Proof. by elim: l1 v1 => [|x l1 IH] [|v v1] //= [dx /IH H] /H. Qed.

(* ---- an accepted item with correct sign caches denotes, as a number of the C07 model, the same real *)
Lemma Den_of_item (g : seq Z) (x : ri_anum) (v : R) :
  item_wf (item_of_anum x) -> item_ok g (item_of_anum x) -> sign_cached x ->
  item_den (item_of_anum x) v -> item_uniq (item_of_anum x) v -> Den (anum_of_ri x) v.
Proof.
case: x => [q|p a b sa sb] /=; first by move=> _ _ _ ->.
move=> /andP[/andP[/Zltb_pos la0 /Zltb_pos lb0] ab] /andP[qd neg] /andP[/Z.eqb_spec Ea /Z.eqb_spec Eb].
move=> [avb rv] uq; rewrite /Den /=.
have [p0 _] := @qdividesP R _ _ qd.
split.
- by apply/urootP; split.
- by rewrite ZR_ZtoR Ea /= -sgr_horner_rat.
- by rewrite ZR_ZtoR Eb /= -sgr_horner_rat.
- by rewrite Ea Eb.
Qed.

Lemma denu_Dens (g : seq Z) (l : seq ri_anum) (xs : seq R) :
  all item_wf (map item_of_anum l) -> all (item_ok g) (map item_of_anum l) -> all sign_cached l ->
  denu (map item_of_anum l) xs -> Dens (map anum_of_ri l) xs.
Proof.
elim: l xs => [|x l IH] [|v xs] //= /andP[w ws] /andP[o os] /andP[c cs] [dn uq rest].
by split; [exact: (Den_of_item w o c dn uq) | exact: IH].
Qed.

Lemma factor_Dens (gk : seq Z * nat) (l : seq ri_anum) : chk_factor gk l ->
  Dens (map anum_of_ri l) (rootsR (PR gk.1)).
Proof.
move=> /andP[chk sc]; have [_ dn] := @check_isolation_exact R _ _ chk.
move: chk; rewrite /check_isolation !forallbE => /andP[/andP[/andP[/andP[_ wf] _] ok] _].
exact: denu_Dens wf ok sc dn.
Qed.

Lemma factors_Dens (fs : seq (seq Z * nat)) (ls : seq (seq ri_anum)) : all2 chk_factor fs ls ->
  Dens (map anum_of_ri (flatten ls)) (flatten [seq rootsR (PR gk.1) | gk <- fs]).
Proof.
elim: fs ls => [|gk fs IH] [|l ls] //= /andP[/factor_Dens d /IH ds].
by rewrite map_cat; exact: Dens_cat.
Qed.

(* the UNSORTED answer of the model denotes a permutation of the distinct real roots of f *)
Theorem lp_roots_isolate_perm fuel (f : seq Z) (l : seq ri_anum) : pis_zero f = false ->
  lp_roots_isolate fuel f = Some l ->
  exists2 vs : seq R, Dens (map anum_of_ri l) vs & perm_eq vs (rootsR (PR f)).
Proof.
move=> fz E; have [ls -> a2] := @lp_roots_isolate_ok R _ _ _ fz E.
have f0 : PR f != 0 by rewrite PR_eq0 fz.
exists (flatten [seq rootsR (PR gk.1) | gk <- if Nat.leb (length (pnorm f)) 1 then [::] else lp_sqfree_factors f]).
  exact: factors_Dens.
case: (boolP (Nat.leb _ _)) a2 => [/Nat.leb_le le1|_] a2.
  by rewrite rootsR_const // size_PR; apply/ssrnat.leP.
have [fs1 _ fs3] := lp_sqfree_factors_spec f0.
apply/permP => a; rewrite count_flatten -map_comp sumnE big_map.
by apply: sum_count_partition => // gk /fs1 [].
Qed.

(* ---- the sort: insertion with a comparator that answers the order of the denoted reals *)
Lemma insertP fuel (x : anum) (v : R) (l : seq anum) (ws : seq R) (s : seq anum) :
  Den x v -> Dens l ws -> sorted <=%R ws -> an_insert fuel x l = Some s ->
  exists ws', [/\ Dens s ws', perm_eq ws' (v :: ws) & sorted <=%R ws'].
Proof.
elim: l ws x s => [|y l IH] [|w ws] x s //= dx.
  by move=> _ _ [<-]; exists [:: v].
move=> [dy dl] srt.
case E: an_cmp => [[[c x'] y']|] //.
have [sg dx' dy'] := cmp_full dx dy E.
case: Z.leb_spec => [le|gt].
  move=> [<-]; exists [:: v, w & ws]; split=> //=; rewrite srt andbT.
  rewrite -subr_le0 -sgr_le0 -sg -(rmorph0 (ZR_rmorphism R)) ZR_le.
  by apply/Z.leb_le; lia.
case E2: an_insert => [s'|] // [<-].
have [ws' [ds' pm st']] := IH ws x' s' dx' dl (path_sorted srt) E2.
have wv : w < v.
  rewrite -subr_gt0 -sgr_gt0 -sg -(rmorph0 (ZR_rmorphism R)) ZR_lt.
  by apply/Z.ltb_lt; lia.
exists (w :: ws'); split=> //.
- rewrite (perm_trans (_ : perm_eq (w :: ws') (w :: v :: ws))) ?perm_cons //.
  by apply/permP => a /=; rewrite addnCA.
- rewrite /= path_sortedE; last exact: le_trans.
  rewrite st' andbT (perm_all _ pm) /= (ltW wv) /=.
  by move: srt; rewrite /= path_sortedE; [case/andP | exact: le_trans].
Qed.

Lemma isortP fuel (l : seq anum) (vs : seq R) (s : seq anum) :
  Dens l vs -> an_isort fuel l = Some s ->
  exists ws, [/\ Dens s ws, perm_eq ws vs & sorted <=%R ws].
Proof.
elim: l vs s => [|x l IH] [|v vs] s //=.
  by move=> _ [<-]; exists [::].
move=> [dx dl]; case E: an_isort => [s0|] // ins.
have [ws0 [d0 p0 s0']] := IH vs s0 dl E.
have [ws [d p st]] := insertP dx d0 s0' ins.
exists ws; split=> //; apply: perm_trans p _.
by rewrite perm_cons.
Qed.

(* THE end-to-end theorem *)
Theorem lp_roots_isolate_sorted_exact fuel (f : seq Z) (s : seq anum) : pis_zero f = false ->
  lp_roots_isolate_sorted fuel f = Some s -> Dens s (rootsR (PR f)).
Proof.
move=> fz; rewrite /lp_roots_isolate_sorted; case E: lp_roots_isolate => [l|] // srt.
have [vs dl pv] := lp_roots_isolate_perm fz E.
have [ws [ds pw sw]] := isortP dl srt.
suff -> : rootsR (PR f) = ws by [].
have sr : sorted <%R (rootsR (PR f)) := sorted_roots _ _ _.
apply: (@sorted_eq _ <=%R) => //; [exact: le_trans | exact: le_anti | |].
  by apply: sub_sorted sr => a b; exact: ltW.
by rewrite perm_sym; exact: perm_trans pw pv.
Qed.

End EndToEnd.

(* Dens unfolded: same length, item i denotes root i *)
Lemma Dens_nth (R : rcfType) (x0 : anum) (s : seq anum) (vs : seq R) : Dens s vs ->
  size s = size vs /\ forall i, (i < size s)%N -> Den (nth x0 s i) (nth 0 vs i).
Proof.
elim: s vs => [|x s IH] [|v vs] //= [dx /IH [-> H]]; split=> // -[|i] //=.
by rewrite ltnS; exact: H.
Qed.
