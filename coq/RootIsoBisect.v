(* Property C06, Part C: the bisection of the faithful model (lp_grow, lp_isolate, lp_anum_construct) proved per
   square-free factor: whenever the model answers Some l for a factor g (non-zero, real roots simple), the items
   of l are accepted by the proved checker check_isolation g - i.e. they are EXACTLY the distinct real roots of g
   in increasing order, each a dyadic point or an interval of ppp g with a sign change. *)
From Coq Require Import ZArith.
From LP Require Import Scalar UPoly RootIso RefAlg Gcd.
Set Warnings "-notation-overridden,-ambiguous-paths".
From mathcomp Require Import all_ssreflect all_algebra all_real_closed.
From mathcomp Require Import ssrZ zify ring.
Set Warnings "notation-overridden,ambiguous-paths".
From LP Require Import UPolySpec ScalarProofs GcdSpec FactorProofs RootIsoProofs SturmItv RefAlgSpec RefAlgSqfree RefAlgValid RootIsoFull.
Import GRing.Theory Num.Theory Num.Def Order.TTheory.
Set Implicit Arguments.
Unset Strict Implicit.
Unset Printing Implicit Defensive.
Local Open Scope ring_scope.

(* ---------------------------------------------------------------- dyadic numbers *)
Lemma rd_pow_gt0 (n : N) : (0 < rd_pow n)%R.
Proof. by rewrite /rd_pow; have := Z.pow_pos_nonneg 2 (Z.of_N n); lia. Qed.

Lemma rd_pow_add (a b : N) : rd_pow (a + b) = Z.mul (rd_pow a) (rd_pow b).
Proof. by rewrite /rd_pow N2Z.inj_add Z.pow_add_r //; lia. Qed.

Lemma rd_pow1 : rd_pow 1 = 2%ZZ. Proof. by []. Qed.
Lemma rd_pow0 : rd_pow 0 = 1%ZZ. Proof. by []. Qed.

Section Dyadic.
Variable R : rcfType.
Local Notation PR := (PR R).
Local Notation QR := (QR R).
Local Notation ZtoR := (ZtoR R).
Local Notation zm := (ZtoR_rmorphism R).

Definition dval (d : rdy) : R := QR (fst d) (rd_pow (snd d)).

Lemma QR_eq (a b c d : Z) : (0 < b)%R -> (0 < d)%R -> Z.mul a d = Z.mul c b -> QR a b = QR c d.
Proof. by move=> b0 d0 E; apply/eqP; rewrite eq_le !QR_le // /riq_le E !Z.leb_refl. Qed.

Lemma ZtoR_pow_neq0 (n : N) : ZtoR (rd_pow n) != 0.
Proof. by rewrite ZtoR_eq0; have := rd_pow_gt0 n; lia. Qed.

Lemma ZtoR2 : ZtoR 2%ZZ = 2%:R.
Proof. by have -> : 2%ZZ = (1 + 1)%R by []; rewrite (rmorphD zm) (rmorph1 zm). Qed.

Lemma dval_lt (x y : rdy) : (dval x < dval y) = riq_lt (fst x) (rd_pow (snd x)) (fst y) (rd_pow (snd y)).
Proof. by rewrite /dval QR_lt //; exact: rd_pow_gt0. Qed.

Lemma dval_le (x y : rdy) : (dval x <= dval y) = riq_le (fst x) (rd_pow (snd x)) (fst y) (rd_pow (snd y)).
Proof. by rewrite /dval QR_le //; exact: rd_pow_gt0. Qed.

Lemma rd_cmp_lt (x y : rdy) : (if rd_cmp x y is Datatypes.Lt then true else false) = (dval x < dval y).
Proof. by rewrite dval_lt /riq_lt /rd_cmp /Z.ltb; case: Z.compare. Qed.

Lemma dval_norm_aux fuel (a : Z) (n : N) : dval (rd_norm_aux fuel a n) = dval (a, n).
Proof.
elim: fuel a n => [|f IH] a n //=.
case: ifP => // /andP[/andP[/N.ltb_lt n0 ev] _]; rewrite IH /dval /=.
apply: QR_eq; try exact: rd_pow_gt0.
have -> : n = (n - 1 + 1)%num by lia.
rewrite rd_pow_add rd_pow1; have -> : (n - 1 + 1 - 1)%num = (n - 1)%num by lia.
have := Z_div_mod_eq_full a 2; have := Zmod_even a; rewrite ev.
by move: (rd_pow (n - 1)) (Z.div a 2) (Z.modulo a 2) => p q r -> ->; lia.
Qed.

Lemma ZtoRM (a b : Z) : ZtoR (Z.mul a b) = ZtoR a * ZtoR b. Proof. exact: (rmorphM zm). Qed.
Lemma ZtoRD (a b : Z) : ZtoR (Z.add a b) = ZtoR a + ZtoR b. Proof. exact: (rmorphD zm). Qed.

Lemma QR0 (b : Z) : QR 0%ZZ b = 0.
Proof. by rewrite /RootIsoProofs.QR (rmorph0 zm) mul0r. Qed.

Lemma dval_norm (d : rdy) : dval (rd_norm d) = dval d.
Proof.
rewrite /rd_norm; case: Z.eqb_spec => [E|_]; last exact: dval_norm_aux.
by case: d E => a n /= ->; rewrite /dval /= !QR0.
Qed.

Lemma ZtoR_pow_sub (n s : N) : (s <= n)%num ->
  ZtoR (rd_pow (n - s)) = ZtoR (rd_pow n) / ZtoR (rd_pow s).
Proof.
move=> le; have -> : rd_pow n = Z.mul (rd_pow (n - s)) (rd_pow s).
  by rewrite -rd_pow_add; congr rd_pow; lia.
by rewrite ZtoRM mulfK // ZtoR_pow_neq0.
Qed.

Lemma dval_mid (x y : rdy) : dval (rd_mid x y) = (dval x + dval y) / 2%:R.
Proof.
rewrite /rd_mid dval_norm /dval /=; set n := N.max _ _.
rewrite /RootIsoProofs.QR rd_pow_add rd_pow1 ZtoRD !ZtoRM ZtoR2.
rewrite !ZtoR_pow_sub; try by rewrite /n; lia.
have := ZtoR_pow_neq0 n; have := ZtoR_pow_neq0 (snd x); have := ZtoR_pow_neq0 (snd y).
move: (ZtoR (rd_pow n)) (ZtoR (rd_pow (snd x))) (ZtoR (rd_pow (snd y))) (ZtoR (fst x)) (ZtoR (fst y)).
by move=> PN PX PY AX AY h1 h2 h3; field; rewrite h1 h2 h3.
Qed.

Lemma dval_mid_lt (x y : rdy) : dval x < dval y -> dval x < dval (rd_mid x y) < dval y.
Proof. by move=> xy; rewrite dval_mid; have := midf_lt xy; case=> -> ->. Qed.

Lemma dval_scale2 (x : rdy) : dval (rd_scale2 x) = 2%:R * dval x.
Proof. by rewrite /rd_scale2 dval_norm; case: x => a n; rewrite /dval /fst /snd /RootIsoProofs.QR ZtoRM ZtoR2 mulrA. Qed.

Lemma dval_int (a : Z) : dval (a, 0%num) = ZtoR a.
Proof. by rewrite /dval /= /RootIsoProofs.QR rd_pow0 (rmorph1 zm) divr1. Qed.

End Dyadic.

(* ---------------------------------------------------------------- the sign-change counter with a cut-off *)
Lemma lp_sign_changes_aux_min (signs : seq Z) (prev : Z) (cnt maxc : nat) :
  all sgn3 signs -> sgn3 prev -> (cnt <= maxc)%N ->
  lp_sign_changes_aux signs prev cnt maxc = minn (cnt + sign_var_aux prev signs) maxc.
Proof.
elim: signs prev cnt => [|s signs IH] prev cnt /=.
  by move=> _ _ le; rewrite addn0; apply/esym/minn_idPl.
move=> /andP[s3 ss] p3 le.
case: (ltnP cnt maxc) => [lt|ge].
  have -> : Nat.ltb cnt maxc by apply/Nat.ltb_lt; lia.
  rewrite !ZeqbP.
  by case/or3P: p3 => /eqP ->; case/or3P: (s3) => /eqP -> /=; rewrite ?IH ?addnS ?addSn ?(ltnW lt).
have -> : Nat.ltb cnt maxc = false by apply/Nat.ltb_ge; lia.
by move: (sign_var_aux _ _) => v; lia.
Qed.

Lemma lp_sign_changes_min (S : seq (seq Z)) x (maxc : nat) :
  lp_sign_changes S x maxc = minn (sturm_var S x) maxc.
Proof.
rewrite /lp_sign_changes /sturm_var /sign_var lp_sign_changes_aux_min ?add0n //.
by rewrite all_map; apply/allP => p _ /=; exact: psgn_at_sgn3.
Qed.

Lemma count1_uniq (T : eqType) (P : pred T) (s : seq T) (x y : T) :
  count P s = 1%N -> x \in s -> P x -> y \in s -> P y -> x = y.
Proof.
rewrite -size_filter => sz xin Px yin Py.
have : x \in filter P s by rewrite mem_filter Px.
have : y \in filter P s by rewrite mem_filter Py.
by case: (filter P s) sz => [|z [|? ?]] // _; rewrite !inE => /eqP -> /eqP ->.
Qed.

Lemma forallbE (T : Type) (f : T -> bool) (l : seq T) : List.forallb f l = all f l.
Proof. by elim: l => [|a l IH] //=; rewrite IH. Qed.

(* divisibility over Z gives the checker's certificate (quotient by the reference pseudo-division, multiplied back) *)
Lemma rdvd_qdivides (p f : seq Z) : Poly p != 0 -> Poly f != 0 -> rdvd (Poly p) (Poly f) -> ri_qdivides p f.
Proof.
move=> p0 f0 [Q E].
have Q0 : Q != 0 by apply: contra_neq f0 => q0; rewrite E q0 mulr0.
have sz : (size (Poly p) <= size (Poly f))%N.
  rewrite E size_mul //; have := size_poly_gt0 Q; rewrite Q0.
  by move: (size (Poly p)) (size Q) => a b; lia.
have [dE dS] := ppdivmodP p0 sz.
set e := ri_pdiv_scal f p in dE *; set q := (ppdivmod f p).1 in dE *; set r := (ppdivmod f p).2 in dE dS.
have rE : Poly r = Poly p * (e *: Q - Poly q).
  rewrite mulrBr -scalerAr -E -dE [Poly p * Poly q]mulrC.
  by rewrite [_ + Poly r]addrC addrK.
have h0 : e *: Q - Poly q = 0.
  apply/eqP/negP => /negP h; move: dS; rewrite rE size_mul //.
  have := size_poly_gt0 (e *: Q - Poly q); rewrite h.
  by move: (size (Poly p)) (size _) => a b; lia.
have r0 : Poly r = 0 by rewrite rE h0 mulr0.
have e0 : e != 0 by exact: ri_pdiv_scal_neq0.
rewrite /ri_qdivides -/e -/q; apply/andP; split; first (apply/andP; split).
- by apply/negP => /pis_zeroP; apply/eqP.
- by rewrite ZeqbP.
- by apply/peqbP; rewrite Poly_pscale Poly_pmul -dE r0 addr0.
Qed.
