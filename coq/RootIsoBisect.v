(* Property C06, Part C: the bisection of the faithful model (lp_grow, lp_isolate, lp_anum_construct) proved per
   square-free factor: whenever the model answers Some l for a factor g (non-zero, real roots simple), the items
   of l are accepted by the proved checker check_isolation g - i.e. they are EXACTLY the distinct real roots of g
   in increasing order, each a dyadic point or an interval of ppp g with a sign change. *)
From Coq Require Import ZArith.
From LP Require Import Scalar UPoly RootIso RefAlg Gcd.
Set Warnings "-notation-overridden,-ambiguous-paths".
From mathcomp Require Import all_ssreflect all_algebra all_real_closed.
From mathcomp Require Import ssrZ zify ring.
Set Warnings "notation-overridden,ambiguous-paths".
From LP Require Import UPolySpec ScalarProofs GcdSpec FactorProofs RootIsoProofs SturmItv RefAlgSpec RefAlgSqfree RefAlgValid RootIsoFull.
Import GRing.Theory Num.Theory Num.Def Order.TTheory.
Set Implicit Arguments.
Unset Strict Implicit.
Unset Printing Implicit Defensive.
Local Open Scope ring_scope.

(* ---------------------------------------------------------------- dyadic numbers *)
Lemma rd_pow_gt0 (n : N) : (0 < rd_pow n)%R.
Proof. by rewrite /rd_pow; have := Z.pow_pos_nonneg 2 (Z.of_N n); lia. Qed.

Lemma rd_pow_add (a b : N) : rd_pow (a + b) = Z.mul (rd_pow a) (rd_pow b).
Proof. by rewrite /rd_pow N2Z.inj_add Z.pow_add_r //; lia. Qed.

Lemma rd_pow1 : rd_pow 1 = 2%ZZ. Proof. by []. Qed.
Lemma rd_pow0 : rd_pow 0 = 1%ZZ. Proof. by []. Qed.

Section Dyadic.
Variable R : rcfType.
Local Notation PR := (PR R).
Local Notation QR := (QR R).
Local Notation ZtoR := (ZtoR R).
Local Notation zm := (ZtoR_rmorphism R).

Definition dval (d : rdy) : R := QR (fst d) (rd_pow (snd d)).

Lemma QR_eq (a b c d : Z) : (0 < b)%R -> (0 < d)%R -> Z.mul a d = Z.mul c b -> QR a b = QR c d.
Proof. by move=> b0 d0 E; apply/eqP; rewrite eq_le !QR_le // /riq_le E !Z.leb_refl. Qed.

Lemma ZtoR_pow_neq0 (n : N) : ZtoR (rd_pow n) != 0.
Proof. by rewrite ZtoR_eq0; have := rd_pow_gt0 n; lia. Qed.

Lemma ZtoR2 : ZtoR 2%ZZ = 2%:R.
Proof. by have -> : 2%ZZ = (1 + 1)%R by []; rewrite (rmorphD zm) (rmorph1 zm). Qed.

Lemma dval_lt (x y : rdy) : (dval x < dval y) = riq_lt (fst x) (rd_pow (snd x)) (fst y) (rd_pow (snd y)).
Proof. by rewrite /dval QR_lt //; exact: rd_pow_gt0. Qed.

Lemma dval_le (x y : rdy) : (dval x <= dval y) = riq_le (fst x) (rd_pow (snd x)) (fst y) (rd_pow (snd y)).
Proof. by rewrite /dval QR_le //; exact: rd_pow_gt0. Qed.

Lemma rd_cmp_lt (x y : rdy) : (if rd_cmp x y is Datatypes.Lt then true else false) = (dval x < dval y).
Proof. by rewrite dval_lt /riq_lt /rd_cmp /Z.ltb; case: Z.compare. Qed.

Lemma dval_norm_aux fuel (a : Z) (n : N) : dval (rd_norm_aux fuel a n) = dval (a, n).
Proof.
elim: fuel a n => [|f IH] a n //=.
case: ifP => // /andP[/andP[/N.ltb_lt n0 ev] _]; rewrite IH /dval /=.
apply: QR_eq; try exact: rd_pow_gt0.
have -> : n = (n - 1 + 1)%num by lia.
rewrite rd_pow_add rd_pow1; have -> : (n - 1 + 1 - 1)%num = (n - 1)%num by lia.
have := Z_div_mod_eq_full a 2; have := Zmod_even a; rewrite ev.
by move: (rd_pow (n - 1)) (Z.div a 2) (Z.modulo a 2) => p q r -> ->; lia.
Qed.

Lemma ZtoRM (a b : Z) : ZtoR (Z.mul a b) = ZtoR a * ZtoR b. Proof. exact: (rmorphM zm). Qed.
Lemma ZtoRD (a b : Z) : ZtoR (Z.add a b) = ZtoR a + ZtoR b. Proof. exact: (rmorphD zm). Qed.

Lemma QR0 (b : Z) : QR 0%ZZ b = 0.
Proof. by rewrite /RootIsoProofs.QR (rmorph0 zm) mul0r. Qed.

Lemma dval_norm (d : rdy) : dval (rd_norm d) = dval d.
Proof.
rewrite /rd_norm; case: Z.eqb_spec => [E|_]; last exact: dval_norm_aux.
by case: d E => a n /= ->; rewrite /dval /= !QR0.
Qed.

Lemma ZtoR_pow_sub (n s : N) : (s <= n)%num ->
  ZtoR (rd_pow (n - s)) = ZtoR (rd_pow n) / ZtoR (rd_pow s).
Proof.
move=> le; have -> : rd_pow n = Z.mul (rd_pow (n - s)) (rd_pow s).
  by rewrite -rd_pow_add; congr rd_pow; lia.
by rewrite ZtoRM mulfK // ZtoR_pow_neq0.
Qed.

Lemma dval_mid (x y : rdy) : dval (rd_mid x y) = (dval x + dval y) / 2%:R.
Proof.
rewrite /rd_mid dval_norm /dval /=; set n := N.max _ _.
rewrite /RootIsoProofs.QR rd_pow_add rd_pow1 ZtoRD !ZtoRM ZtoR2.
rewrite !ZtoR_pow_sub; try by rewrite /n; lia.
have := ZtoR_pow_neq0 n; have := ZtoR_pow_neq0 (snd x); have := ZtoR_pow_neq0 (snd y).
move: (ZtoR (rd_pow n)) (ZtoR (rd_pow (snd x))) (ZtoR (rd_pow (snd y))) (ZtoR (fst x)) (ZtoR (fst y)).
by move=> PN PX PY AX AY h1 h2 h3; field; rewrite h1 h2 h3.
Qed.

Lemma dval_mid_lt (x y : rdy) : dval x < dval y -> dval x < dval (rd_mid x y) < dval y.
Proof. by move=> xy; rewrite dval_mid; have := midf_lt xy; case=> -> ->. Qed.

Lemma dval_scale2 (x : rdy) : dval (rd_scale2 x) = 2%:R * dval x.
Proof. by rewrite /rd_scale2 dval_norm; case: x => a n; rewrite /dval /fst /snd /RootIsoProofs.QR ZtoRM ZtoR2 mulrA. Qed.

Lemma dval_int (a : Z) : dval (a, 0%num) = ZtoR a.
Proof. by rewrite /dval /= /RootIsoProofs.QR rd_pow0 (rmorph1 zm) divr1. Qed.

End Dyadic.

(* ---------------------------------------------------------------- the sign-change counter with a cut-off *)
Lemma lp_sign_changes_aux_min (signs : seq Z) (prev : Z) (cnt maxc : nat) :
  all sgn3 signs -> sgn3 prev -> (cnt <= maxc)%N ->
  lp_sign_changes_aux signs prev cnt maxc = minn (cnt + sign_var_aux prev signs) maxc.
Proof.
elim: signs prev cnt => [|s signs IH] prev cnt /=.
  by move=> _ _ le; rewrite addn0; apply/esym/minn_idPl.
move=> /andP[s3 ss] p3 le.
case: (ltnP cnt maxc) => [lt|ge].
  have -> : Nat.ltb cnt maxc by apply/Nat.ltb_lt; lia.
  rewrite !ZeqbP.
  by case/or3P: p3 => /eqP ->; case/or3P: (s3) => /eqP -> /=; rewrite ?IH ?addnS ?addSn ?(ltnW lt).
have -> : Nat.ltb cnt maxc = false by apply/Nat.ltb_ge; lia.
by move: (sign_var_aux _ _) => v; lia.
Qed.

Lemma lp_sign_changes_min (S : seq (seq Z)) x (maxc : nat) :
  lp_sign_changes S x maxc = minn (sturm_var S x) maxc.
Proof.
rewrite /lp_sign_changes /sturm_var /sign_var lp_sign_changes_aux_min ?add0n //.
by rewrite all_map; apply/allP => p _ /=; exact: psgn_at_sgn3.
Qed.

Lemma count1_uniq (T : eqType) (P : pred T) (s : seq T) (x y : T) :
  count P s = 1%N -> x \in s -> P x -> y \in s -> P y -> x = y.
Proof.
rewrite -size_filter => sz xin Px yin Py.
have : x \in filter P s by rewrite mem_filter Px.
have : y \in filter P s by rewrite mem_filter Py.
by case: (filter P s) sz => [|z [|? ?]] // _; rewrite !inE => /eqP -> /eqP ->.
Qed.

Lemma all_last (T : Type) (P : pred T) (x : T) (l : seq T) : all P (x :: l) -> P (last x l).
Proof.
elim: l x => [|y l IH] x /=; first by rewrite andbT.
by move=> /andP[_]; exact: IH.
Qed.

Lemma forallbE (T : Type) (f : T -> bool) (l : seq T) : List.forallb f l = all f l.
Proof. by elim: l => [|a l IH] //=; rewrite IH. Qed.

(* divisibility over Z gives the checker's certificate (quotient by the reference pseudo-division, multiplied back) *)
Lemma rdvd_qdivides (p f : seq Z) : Poly p != 0 -> Poly f != 0 -> rdvd (Poly p) (Poly f) -> ri_qdivides p f.
Proof.
move=> p0 f0 [Q E].
have Q0 : Q != 0 by apply: contra_neq f0 => q0; rewrite E q0 mulr0.
have sz : (size (Poly p) <= size (Poly f))%N.
  rewrite E size_mul //; have := size_poly_gt0 Q; rewrite Q0.
  by move: (size (Poly p)) (size Q) => a b; lia.
have [dE dS] := ppdivmodP p0 sz.
set e := ri_pdiv_scal f p in dE *; set q := (ppdivmod f p).1 in dE *; set r := (ppdivmod f p).2 in dE dS.
have rE : Poly r = Poly p * (e *: Q - Poly q).
  rewrite mulrBr -scalerAr -E -dE [Poly p * Poly q]mulrC.
  by rewrite [_ + Poly r]addrC addrK.
have h0 : e *: Q - Poly q = 0.
  apply/eqP/negP => /negP h; move: dS; rewrite rE size_mul //.
  have := size_poly_gt0 (e *: Q - Poly q); rewrite h.
  by move: (size (Poly p)) (size _) => a b; lia.
have r0 : Poly r = 0 by rewrite rE h0 mulr0.
have e0 : e != 0 by exact: ri_pdiv_scal_neq0.
rewrite /ri_qdivides -/e -/q; apply/andP; split; first (apply/andP; split).
- by apply/negP => /pis_zeroP; apply/eqP.
- by rewrite ZeqbP.
- by apply/peqbP; rewrite Poly_pscale Poly_pmul -dE r0 addr0.
Qed.

(* the cached end-point signs of an interval item are the true signs (lp_algebraic_number_t: sgn_at_a, sgn_at_b) *)
Definition sign_cached (x : ri_anum) : bool :=
  match x with
  | RPoint _ => true
  | RItv p a b sa sb => Z.eqb sa (psgn_at p (rd_x a)) && Z.eqb sb (psgn_at p (rd_x b))
  end.

(* ====================================================================== one square-free factor *)
Section Factor.
Variable R : rcfType.
Local Notation PR := (PR R).
Local Notation QR := (QR R).
Local Notation ZtoR := (ZtoR R).
Local Notation zm := (ZtoR_rmorphism R).
Local Notation dval := (@dval R).

Variable g : seq Z.
Hypothesis g0 : PR g != 0.
Hypothesis simple : forall x : R, (\mu_x (PR g) <= 1)%N.

Let S := lp_sturm_sequence g.
Let s0 := ppp g.

Definition Vd (q : rdy) : nat := lp_sign_changes S (rd_x q) (size S).

Let g0' : Poly g != 0. Proof. by rewrite -(PR_neq0 R). Qed.

Lemma s0_scale : exists2 c : R, c != 0 & PR g = c *: PR s0.
Proof. exact: PR_ppp_scale. Qed.

Lemma s0_root (x : R) : root (PR s0) x = root (PR g) x.
Proof. by have [c c0 ->] := s0_scale; rewrite rootZ. Qed.

Lemma s0_neq0 : PR s0 != 0.
Proof. by have [c c0 E] := s0_scale; apply: contra_neq g0 => z; rewrite E z scaler0. Qed.

Lemma s0_mu (x : R) : \mu_x (PR s0) = \mu_x (PR g).
Proof. by have [c c0 ->] := s0_scale; rewrite mu_mulC. Qed.

Lemma s0_roots : rootsR (PR s0) = rootsR (PR g).
Proof. by have [c c0 ->] := s0_scale; rewrite rootsRZ. Qed.

Lemma psgn_s0 (a b : Z) : (0 < b)%R -> (psgn_at_rat s0 a b == 0) = (psgn_at_rat g a b == 0).
Proof. by move=> b0; rewrite -!(root_rat R) // s0_root. Qed.

Lemma last_nonroot (x : R) : (1 < size (PR g))%N -> ~~ root (last 0 (map PR S)) x.
Proof.
move=> sz; have -> : last 0 (map PR S) = PR (last [::] S) by rewrite -(PR_nil R) last_map.
apply/negP => /(lp_last_root2 sz) [r0 r1].
by move: r1; apply/negP; exact: simple_noderiv.
Qed.

(* F1: Sturm between two dyadic points *)
Lemma Vd_diff (x y : rdy) : dval x < dval y ->
  Vd x = addn (Vd y) (count (fun z : R => dval x < z <= dval y) (rootsR (PR g))).
Proof.
move=> xy; case: (leqP (size (PR g)) 1) => [sz|sz].
  have [SE sg] := lp_sturm_sequence_const g0 sz.
  rewrite rootsR_const //= addn0 /Vd /S SE /lp_sign_changes /= !sg //; exact: rd_pow_gt0.
have [G0 rE st lk] := lp_sturm_sequence_chain sz.
rewrite /Vd !lp_sign_changesE !(sturm_var_fin R); try exact: rd_pow_gt0.
by rewrite (sturm_chain_itv G0 st lk xy (last_nonroot _ sz) (last_nonroot _ sz)) -size_filter rE.
Qed.

(* F2: the whole line *)
Lemma V_line : lp_count_roots_gen true S None
               = Z.sub (Z.of_nat (sturm_var S MInf)) (Z.of_nat (sturm_var S PInf))
  /\ (sturm_var S MInf - sturm_var S PInf)%N = size (rootsR (PR g)).
Proof.
split; first by rewrite /lp_count_roots_gen -!lp_sign_changesE.
case: (leqP (size (PR g)) 1) => [sz|sz]; last exact: lp_sturm_sequence_correct.
have [SE sg] := lp_sturm_sequence_const g0 sz.
rewrite rootsR_const // /S SE /sturm_var /sign_var /=.
by do 2!case: (Z.eqb _ _).
Qed.

Lemma Vd_mono (x y : rdy) : dval x < dval y -> (Vd y <= Vd x)%N.
Proof. by move=> /Vd_diff ->; exact: leq_addr. Qed.

Lemma Vd_cut (x y : rdy) : dval x < dval y -> lp_sign_changes S (rd_x y) (Vd x) = Vd y.
Proof.
move=> xy; rewrite lp_sign_changes_min; have := Vd_mono xy.
by rewrite /Vd !lp_sign_changesE => /minn_idPl.
Qed.

(* exactly one root in (a, b], none at the ends: the signs at the ends are opposite *)
Lemma one_root_sign_change (a b : rdy) : dval a < dval b -> Vd a = (Vd b + 1)%N ->
  psgn_at s0 (rd_x a) != 0 -> psgn_at s0 (rd_x b) != 0 ->
  (Z.mul (psgn_at s0 (rd_x a)) (psgn_at s0 (rd_x b)) < 0)%R.
Proof.
move=> ab V1 sa sb.
have c1 : count (fun z => dval a < z <= dval b) (rootsR (PR g)) = 1%N.
  by have := Vd_diff ab; rewrite V1 => /eqP; rewrite eqn_add2l eq_sym => /eqP.
have pa : (0 < rd_pow (snd a))%R := rd_pow_gt0 _.
have pb : (0 < rd_pow (snd b))%R := rd_pow_gt0 _.
have nra : ~~ root (PR s0) (dval a) by rewrite /dval root_rat.
have nrb : ~~ root (PR s0) (dval b) by rewrite /dval root_rat.
have /hasP [v vin /andP[av vb]] : has (fun z => dval a < z <= dval b) (rootsR (PR g)) by rewrite has_count c1.
have rv : root (PR s0) v by rewrite s0_root -in_rootsR.
have vb' : v < dval b by rewrite lt_neqAle vb andbT; apply: contraNneq nrb => <-.
have uq w : root (PR s0) w -> dval a < w < dval b -> w = v.
  move=> rw /andP[aw wb]; apply: (count1_uniq c1) => //; rewrite ?aw ?av ?(ltW wb) //.
  by rewrite in_rootsR // -s0_root.
have mu1 : \mu_v (PR s0) = 1%N.
  apply/eqP; rewrite eqn_leq s0_mu simple /= -s0_mu mu_gt0 //; exact: s0_neq0.
have avb : dval a < v < dval b by rewrite av vb'.
have := simple_root_sign_change avb rv mu1 uq nra nrb.
rewrite /dval !sgr_horner_rat // -(rmorphM zm) /= => /eqP.
have -> : (-1 : R) = ZtoR (-1)%ZZ.
  by have -> : (-1)%ZZ = (- 1)%R :> Z by []; rewrite (rmorphN zm) (rmorph1 zm).
rewrite (inj_eq (@ZtoR_inj R)) => /eqP E.
by rewrite (_ : Z.mul _ _ = (-1)%ZZ); [|exact: E].
Qed.


(* ---- items lying in (a, b] *)
Definition item_in (a b : rdy) (it : item) : bool :=
  match it with
  | IPoint c d => dval a < QR c d <= dval b
  | IAlg _ la lb ha hb => (dval a <= QR la lb) && (QR ha hb <= dval b)
  end.

Lemma item_in_mono (a b a' b' : rdy) it : dval a' <= dval a -> dval b <= dval b' ->
  item_in a b it -> item_in a' b' it.
Proof.
move=> la lb; case: it => [c d|p la' lb' ha hb] /= /andP[h1 h2]; apply/andP; split.
- exact: le_lt_trans la h1.
- exact: le_trans h2 lb.
- exact: le_trans la h1.
- exact: le_trans h2 lb.
Qed.

Lemma items_sortedE (l : seq item) : items_sorted l = sorted item_before l.
Proof. by elim: l => [|a l IH] //; case: l IH => [|b l] //= ->. Qed.

Lemma before_of_in (a m b : rdy) it1 it2 : item_wf it1 -> item_wf it2 ->
  item_in a m it1 -> item_in m b it2 -> item_before it1 it2.
Proof.
case: it1 => [c d|p la lb ha hb]; case: it2 => [c' d'|p' la' lb' ha' hb'] /=.
- move=> /Zltb_pos d0 /Zltb_pos d0' /andP[_ h1] /andP[h2 _]; rewrite -(QR_lt R) //.
  exact: le_lt_trans h1 h2.
- move=> /Zltb_pos d0 /andP[/andP[/Zltb_pos l0 _] _] /andP[_ h1] /andP[h2 _]; rewrite -(QR_le R) //.
  exact: le_trans h1 h2.
- move=> /andP[/andP[_ /Zltb_pos h0] _] /Zltb_pos d0 /andP[_ h1] /andP[h2 _]; rewrite -(QR_le R) //.
  exact: ltW (le_lt_trans h1 h2).
- move=> /andP[/andP[_ /Zltb_pos h0] _] /andP[/andP[/Zltb_pos l0 _] _] /andP[_ h1] /andP[h2 _].
  by rewrite -(QR_le R) //; exact: le_trans h1 h2.
Qed.

Lemma sorted_cat (a m b : rdy) (l r : seq item) : all item_wf l -> all item_wf r ->
  items_sorted l -> items_sorted r -> all (item_in a m) l -> all (item_in m b) r -> items_sorted (l ++ r).
Proof.
rewrite !items_sortedE; case: l => [|x l] //= wl wr sl sr il ir.
rewrite cat_path sl /=; case: r wr sr ir => [|y r] //= /andP[wy _] -> /andP[iy _]; rewrite andbT.
apply: (before_of_in _ wy _ iy); first exact: (all_last (P:=item_wf) wl).
exact: (all_last (P:=item_in a m) il).
Qed.

(* ---- the algebraic number under construction *)
Definition anum_ok (a0 b0 : rdy) (x : ri_anum) : Prop :=
  match x with
  | RPoint q => dval a0 < dval q <= dval b0 /\ psgn_at s0 (rd_x q) = 0%ZZ
  | RItv p a b sa sb =>
    [/\ p = s0, dval a0 <= dval a, dval a < dval b, dval b <= dval b0
      & [/\ sa = psgn_at s0 (rd_x a), sb = psgn_at s0 (rd_x b) & (Z.mul sa sb < 0)%R]]
  end.

Lemma sign_step (s sa sb : Z) : sgn3 s -> sgn3 sa -> sgn3 sb -> (Z.mul sa sb < 0)%R -> s != 0 ->
  if Z.ltb 0 (Z.mul s sa) then s = sa else s = sb.
Proof. by case/or3P => /eqP ->; case/or3P => /eqP ->; case/or3P => /eqP ->. Qed.

Lemma split_ok (a0 b0 a b : rdy) (sa sb : Z) (q : rdy) :
  anum_ok a0 b0 (RItv s0 a b sa sb) -> dval a < dval q < dval b ->
  anum_ok a0 b0 (let s := psgn_at s0 (rd_x q) in
                 if Z.eqb s 0 then RPoint q
                 else if Z.ltb 0 (Z.mul s sa) then RItv s0 q b sa sb else RItv s0 a q sa sb).
Proof.
move=> [_ la ab lb [Ea Eb neg]] /andP[aq qb] /=.
case: Z.eqb_spec => [z|/eqP nz].
  by split=> //; rewrite (le_lt_trans la aq) /=; exact: le_trans (ltW qb) lb.
have s3a : sgn3 sa by rewrite Ea; exact: psgn_at_sgn3.
have s3b : sgn3 sb by rewrite Eb; exact: psgn_at_sgn3.
have := sign_step (psgn_at_sgn3 s0 (rd_x q)) s3a s3b neg nz.
case: ifP => _ E; split=> //; try (by split=> //; rewrite -E);
  try exact: le_trans la (ltW aq); try exact: le_trans (ltW qb) lb.
Qed.

Lemma refine_ok (a0 b0 : rdy) x : anum_ok a0 b0 x -> anum_ok a0 b0 (ri_refine x).
Proof.
case: x => [q|p a b sa sb] // ok; have [Ep _ ab _ _] := ok; rewrite Ep in ok *.
exact: (split_ok ok (dval_mid_lt ab)).
Qed.

Lemma refine_point_ok (a0 b0 : rdy) x q : anum_ok a0 b0 x -> anum_ok a0 b0 (ri_refine_with_point x q).
Proof.
case: x => [q'|p a b sa sb] // ok; have [Ep _ ab _ _] := ok; rewrite Ep in ok *.
rewrite /ri_refine_with_point; have := rd_cmp_lt R a q; have := rd_cmp_lt R q b.
case: (rd_cmp a q) => //; case: (rd_cmp q b) => // /esym qb /esym aq.
by apply: (split_ok ok); rewrite aq qb.
Qed.

Lemma shrink_ok (a0 b0 : rdy) fuel x y : ri_shrink fuel x = Some y -> anum_ok a0 b0 x -> anum_ok a0 b0 y.
Proof.
elim: fuel x y => [|f IH] x y; case: x => [q|p a b sa sb].
- by move=> [<-].
- by rewrite /=; case: ifP => // _ [<-].
- by move=> [<-].
- change (ri_shrink f.+1 (RItv p a b sa sb)) with
    (if Z.leb 0 (rd_dist_size a b) then ri_shrink f (ri_refine (RItv p a b sa sb)) else Some (RItv p a b sa sb)).
  case: ifP => _; last by move=> [<-].
  by move=> /IH H ok; apply: H; exact: (refine_ok ok).
Qed.

Lemma construct_ok fuel (a b : rdy) x : lp_anum_construct fuel s0 a b = Some x -> dval a < dval b ->
  (Z.mul (psgn_at s0 (rd_x a)) (psgn_at s0 (rd_x b)) < 0)%R -> anum_ok a b x.
Proof.
rewrite /lp_anum_construct; case E: ri_shrink => [y|] // [<-] ab neg.
have oky : anum_ok a b y by apply: (shrink_ok E); split=> //; split.
set x1 := match y with RItv _ _ _ _ _ => _ | _ => _ end.
have ok1 : anum_ok a b x1 by rewrite /x1; case: (y) oky => // *; exact: refine_point_ok.
by case: x1 ok1 => // *; exact: refine_point_ok.
Qed.

Lemma Zltb0_pow (n : N) : Z.ltb 0 (rd_pow n).
Proof. by apply/Z.ltb_lt; have := rd_pow_gt0 n; lia. Qed.

Lemma Poly_s0_neq0 : Poly s0 != 0.
Proof. by rewrite Poly_ppp_eq0. Qed.

Lemma anum_item (a0 b0 : rdy) x : anum_ok a0 b0 x ->
  [/\ item_wf (item_of_anum x), item_ok g (item_of_anum x), item_in a0 b0 (item_of_anum x) & sign_cached x].
Proof.
case: x => [q|p a b sa sb] /=.
  move=> [ab z]; split=> //; first exact: Zltb0_pow.
  by rewrite ZeqbP -psgn_s0 ?rd_pow_gt0 //; apply/eqP.
move=> [-> la ab lb [Ea Eb neg]]; split; last by rewrite -Ea -Eb !Z.eqb_refl.
- by rewrite !Zltb0_pow /= -(dval_lt R).
- rewrite (rdvd_qdivides Poly_s0_neq0 g0' (ppp_dvd g)) /=.
  by move: neg; rewrite Ea Eb /= => neg; apply/Z.ltb_lt; lia.
- by rewrite la lb.
Qed.

(* ---- the recursion on (a, b] *)
Definition isplit (fuel' : nat) (a b : rdy) (a_ch b_ch : nat) : option (list ri_anum) :=
  let m := rd_mid a b in
  let m_ch := lp_sign_changes S (rd_x m) a_ch in
  if Nat.eqb a_ch m_ch then lp_isolate fuel' S m b a_ch b_ch
  else if Nat.eqb b_ch m_ch then lp_isolate fuel' S a m a_ch b_ch
  else match lp_isolate fuel' S a m a_ch m_ch, lp_isolate fuel' S m b m_ch b_ch with
       | Some l, Some r => Some (l ++ r)
       | _, _ => None
       end.

Lemma lp_isolate_S fuel' a b a_ch b_ch : lp_isolate fuel'.+1 S a b a_ch b_ch =
  if Z.eqb (Z.sub (Z.of_nat a_ch) (Z.of_nat b_ch)) 1 then
    if Z.eqb (psgn_at s0 (rd_x b)) 0 then Some [:: RPoint b]
    else if negb (Z.eqb (psgn_at s0 (rd_x a)) 0) then
      match lp_anum_construct fuel' s0 a b with Some x => Some [:: x] | None => None end
    else isplit fuel' a b a_ch b_ch
  else isplit fuel' a b a_ch b_ch.
Proof. by []. Qed.

Definition iso_ok (a b : rdy) (l : seq ri_anum) (a_ch b_ch : nat) : Prop :=
  let its := map item_of_anum l in
  [/\ all item_wf its /\ all sign_cached l, all (item_ok g) its, items_sorted its, all (item_in a b) its
     & (size l + b_ch = a_ch)%N].

Lemma isolateP fuel (a b : rdy) (a_ch b_ch : nat) l : dval a < dval b -> a_ch = Vd a -> b_ch = Vd b ->
  lp_isolate fuel S a b a_ch b_ch = Some l -> iso_ok a b l a_ch b_ch.
Proof.
elim: fuel a b a_ch b_ch l => [|f IH] a b a_ch b_ch l ab Ea Eb //.
rewrite Ea Eb {a_ch b_ch Ea Eb}.
have splitP : isplit f a b (Vd a) (Vd b) = Some l -> iso_ok a b l (Vd a) (Vd b).
  rewrite /isplit; have /andP[am mb] := dval_mid_lt ab.
  rewrite (Vd_cut am); case: Nat.eqb_spec => [E1|_].
    move=> /(IH _ _ _ _ l mb E1 erefl) [h1 h2 h3 h4 h5]; split=> //.
    by apply: sub_all h4 => it; apply: item_in_mono => //; exact: ltW.
  case: Nat.eqb_spec => [E2|_].
    move=> /(IH _ _ _ _ l am erefl E2) [h1 h2 h3 h4 h5]; split=> //.
    by apply: sub_all h4 => it; apply: item_in_mono => //; exact: ltW.
  case E1: (lp_isolate f S a _ _ _) => [l1|] //; case E2: (lp_isolate f S _ b _ _) => [r1|] // [<-].
  have [[a1 a1'] a2 a3 a4 a5] := IH _ _ _ _ _ am erefl erefl E1.
  have [[b1 b1'] b2 b3 b4 b5] := IH _ _ _ _ _ mb erefl erefl E2.
  split; rewrite /= ?map_cat ?all_cat ?a1 ?b1 ?a1' ?b1' ?a2 ?b2 //.
  - exact: (sorted_cat a1 b1 a3 b3 a4 b4).
  - apply/andP; split.
      by apply: sub_all a4 => it; apply: item_in_mono => //; exact: ltW.
    by apply: sub_all b4 => it; apply: item_in_mono => //; exact: ltW.
  - by rewrite size_cat; lia.
rewrite lp_isolate_S.
case: Z.eqb_spec => [tot1|_]; last exact: splitP.
case: Z.eqb_spec => [bz|/eqP bnz].
  move=> [<-]; have okb : anum_ok a b (RPoint b) by split=> //; rewrite ab lexx.
  have [w o i sc] := anum_item okb; split; rewrite /= ?andbT //.
  by move: (Vd a) (Vd b) tot1 => u v; lia.
case: Z.eqb_spec => [az|/eqP anz] /=; first exact: splitP.
case E: lp_anum_construct => [x|] // [<-].
have V1 : Vd a = (Vd b + 1)%N by lia.
have neg := one_root_sign_change ab V1 anz bnz.
have [w o i sc] := anum_item (construct_ok E ab neg).
split; rewrite /= ?andbT //.
by move: (Vd a) (Vd b) tot1 => u v; lia.
Qed.

(* ---- growing (-1, 1] *)
Lemma growP fuel (a b : rdy) (total : Z) a' b' a_ch b_ch :
  lp_grow fuel S a b total = Some (a', b', a_ch, b_ch) -> dval a < 0 < dval b ->
  [/\ dval a' < dval b', a_ch = Vd a', b_ch = Vd b' & Z.sub (Z.of_nat a_ch) (Z.of_nat b_ch) = total].
Proof.
elim: fuel a b => [|f IH] a b //=; case: Z.eqb_spec => [E|_].
  by move=> [<- <- <- <-] /andP[a0 b0]; split=> //; exact: lt_trans a0 b0.
move=> /IH H /andP[a0 b0]; apply: H.
by rewrite !dval_scale2 pmulr_rlt0 ?ltr0n // pmulr_rgt0 ?ltr0n // a0 b0.
Qed.

(* ---- one factor of upolynomial_roots_isolate_sturm *)
Definition lp_isolate_one (fuel : nat) : option (list ri_anum) :=
  if Z.eqb (List.nth 0 (pnorm g) 0%ZZ) 0 then Some [:: RPoint (0%ZZ, 0%num)]
  else match lp_grow fuel S (Zneg xH, 0%num) (Zpos xH, 0%num) (lp_count_roots_gen true S None) with
       | None => None
       | Some (a, b, a_ch, b_ch) => if Nat.ltb b_ch a_ch then lp_isolate fuel S a b a_ch b_ch else Some [::]
       end.

Theorem lp_isolate_one_ok fuel l :
  (Z.eqb (List.nth 0 (pnorm g) 0%ZZ) 0 -> g = [:: 0%ZZ; 1%ZZ]) ->
  lp_isolate_one fuel = Some l -> check_isolation g (map item_of_anum l) && all sign_cached l.
Proof.
move=> gx; rewrite /lp_isolate_one; case: ifP => [z|_].
  by move=> [<-]; rewrite (gx z).
case G: lp_grow => [[[[a b] a_ch] b_ch]|] //.
have init : dval (Zneg xH, 0%num) < 0 < dval (Zpos xH, 0%num).
  by rewrite !dval_int ZtoR_lt0 ZtoR_gt0.
have [ab Ea Eb tot] := growP G init.
have [T1 T2] := V_line; rewrite T1 in tot.
have Vab := Vd_diff ab.
have csz := count_size (fun z : R => dval a < z <= dval b) (rootsR (PR g)).
have nzg : ~~ pis_zero g by rewrite -(PR_eq0 R).
have cc : certified_count g = Some (size (rootsR (PR g))).
  by rewrite certified_count_total // (count_real_roots_correct R).
case: Nat.ltb_spec => [lt|ge].
  move=> /(isolateP ab Ea Eb) [[h1 h1'] h2 h3 h4 h5]; rewrite h1' andbT.
  rewrite /check_isolation !forallbE nzg h1 h2 h3 cc /=; apply/Nat.eqb_eq.
  have -> : length (map item_of_anum l) = size l by rewrite -[LHS]/(size _) size_map.
  by move: (size l) (sturm_var S MInf) (sturm_var S PInf) (size _) (count _ _) h5 Vab tot T2 csz Ea Eb => *; lia.
move=> [<-]; rewrite /check_isolation nzg cc /= andbT; apply/Nat.eqb_eq.
by move: (sturm_var S MInf) (sturm_var S PInf) (size _) (count _ _) Vab tot T2 csz Ea Eb => *; lia.
Qed.

End Factor.

(* ====================================================================== all the factors *)
Definition chk_factor (gk : seq Z * nat) (l : seq ri_anum) : bool :=
  check_isolation gk.1 (map item_of_anum l) && all sign_cached l.

Lemma lp_isolate_factors_cons fuel (g : seq Z) (rest : seq (seq Z * seq (seq Z))) :
  lp_isolate_factors fuel ((g, lp_sturm_sequence g) :: rest)
  = match lp_isolate_one g fuel, lp_isolate_factors fuel rest with
    | Some l, Some r => Some (l ++ r)
    | _, _ => None
    end.
Proof. by []. Qed.

Section Global.
Variable R : rcfType.
Local Notation PR := (PR R).

Lemma factors_ok fuel (fs : seq (seq Z * nat)) l :
  (forall gk, gk \in fs -> [/\ PR gk.1 != 0, forall x : R, (\mu_x (PR gk.1) <= 1)%N
                             & gk.1 = [:: 0%ZZ; 1%ZZ] \/ ~~ root (PR gk.1) 0]) ->
  lp_isolate_factors fuel (map (fun fk : seq Z * nat => (fk.1, lp_sturm_sequence fk.1)) fs) = Some l ->
  exists2 ls, l = flatten ls & all2 chk_factor fs ls.
Proof.
elim: fs l => [|gk fs IH] l H; first by move=> [<-]; exists [::].
rewrite map_cons lp_isolate_factors_cons.
case E1: (lp_isolate_one gk.1 fuel) => [l1|] //; case E2: lp_isolate_factors => [r|] // [<-].
have [|ls -> a2] := IH r _ E2; first by move=> t tin; apply: H; rewrite inE tin orbT.
exists (l1 :: ls) => //=; rewrite a2 andbT.
have [g0 simple gx] := H gk (mem_head _ _).
apply: (lp_isolate_one_ok g0 simple _ E1) => z.
case: gx => // /negP nr; case: nr.
rewrite /root -PR_pnorm horner0_PR -List_nthE ZtoR_eq0.
by move: z; rewrite ZeqbP.
Qed.

(* THE isolation theorem for the faithful model: the answer is the concatenation, factor by factor, of lists each
   accepted by the proved checker for its square-free factor *)
Theorem lp_roots_isolate_ok fuel (f : seq Z) l : pis_zero f = false -> lp_roots_isolate fuel f = Some l ->
  exists2 ls, l = flatten ls
    & all2 chk_factor (if Nat.leb (length (pnorm f)) 1 then [::] else lp_sqfree_factors f) ls.
Proof.
move=> fz; have f0 : PR f != 0 by rewrite PR_eq0 fz.
rewrite /lp_roots_isolate /lp_roots_isolate_seqs; case: Nat.leb; first by move=> [<-]; exists [::].
have [fs1 fs2 fs3] := lp_sqfree_factors_spec f0.
apply: factors_ok => gk gin; have [g0 _] := fs1 gk gin; split=> //; last exact: fs2.
move=> x; have := leq_sum_mem (fun gk => \mu_x (PR gk.1)) gin; rewrite fs3 => h.
by apply: leq_trans h _; case: (root _ _).
Qed.

Lemma all2_size (fs : seq (seq Z * nat)) (ls : seq (seq ri_anum)) : all2 chk_factor fs ls ->
  size (flatten ls) = (\sum_(gk <- fs) size (rootsR (PR gk.1)))%N.
Proof.
elim: fs ls => [|gk fs IH] [|l ls] //=; first by rewrite big_nil.
move=> /andP[/andP[c _] /IH e]; rewrite size_cat big_cons e; congr addn.
by have [_ /denu_dens/dens_size] := @check_isolation_exact R _ _ c; rewrite size_map.
Qed.

(* corollary: the number of isolated roots returned by the model is the number of distinct real roots of f *)
Theorem lp_roots_isolate_size fuel (f : seq Z) l : pis_zero f = false -> lp_roots_isolate fuel f = Some l ->
  size l = size (rootsR (PR f)).
Proof.
move=> fz /(lp_roots_isolate_ok fz) [ls -> a2]; have f0 : PR f != 0 by rewrite PR_eq0 fz.
move: a2; case: (boolP (Nat.leb _ _)) => [/Nat.leb_le le1|_].
  by case: ls => //= _; rewrite rootsR_const // size_PR; apply/ssrnat.leP.
move=> /all2_size ->; have [fs1 _ fs3] := lp_sqfree_factors_spec f0.
rewrite -(count_predT (rootsR (PR f))) -(sum_count_partition predT f0 _ fs3).
  by apply: eq_bigr => gk _; rewrite count_predT.
by move=> gk /fs1 [].
Qed.

End Global.
