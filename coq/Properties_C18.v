(* Property C18 - a polynomial is the same polynomial under every variable order.
   ONLY theorem statements, each closed by `exact` of a lemma from the VarOrder*.v proof files, with
   Print Assumptions beneath.  Model: VarOrder.v (faithful to variable_order.c, monomial.c, the order-dependent
   part of coefficient.c and the object protocol of polynomial.c, with the REPAIRED hash-cache behaviour
   `write_reset` and the REPAIRED lp_variable_order_reverse; the pinned behaviours and their refutations are in
   History_C18.v).  Reference side: MPoly.v. *)
From Coq Require Import ZArith NArith List Bool Permutation.
From LP Require Import MPoly VarOrder VarOrderMPoly VarOrderProofs VarOrderDen VarOrderWf VarOrderNorm VarOrderHash VarOrderUniq VarOrderHist VarOrderInv History_C18.
Import ListNotations.
Local Open Scope Z_scope.

(* ------------------------------------------------------------------------------------------------ *)
(* 1. lp_variable_order_cmp is a strict total order on variables in EVERY state of the order
      (any list, with or without special top / bottom variables, listed or unlisted variables). *)
Theorem C18_cmp_var_total : forall o : order,
  (forall x, cmp_var o x x = 0) /\
  (forall x y, cmp_var o x y = 0 -> x = y) /\
  (forall x y, Z.sgn (cmp_var o y x) = - Z.sgn (cmp_var o x y)) /\
  (forall x y z, cmp_var o x y < 0 -> cmp_var o y z < 0 -> cmp_var o x z < 0).
Proof.
  exact (fun o => conj (cmp_var_refl o) (conj (cmp_var_eq o) (conj (cmp_var_antisym o) (cmp_var_trans o)))).
Qed.
Print Assumptions C18_cmp_var_total.

(* which order it is: listed variables by position, every listed variable below every unlisted one, unlisted
   ones by id; the special bottom / top variable below / above everything *)
Theorem C18_cmp_var_listed_by_position : forall o l1 l2 l3 x y, plain o -> NoDup (olist o) ->
  olist o = l1 ++ x :: l2 ++ y :: l3 -> cmp_var o x y < 0.
Proof. exact cmp_var_listed. Qed.
Print Assumptions C18_cmp_var_listed_by_position.

Theorem C18_cmp_var_listed_below_unlisted : forall o x y, plain o -> In x (olist o) -> ~ In y (olist o) -> cmp_var o x y < 0.
Proof. exact cmp_var_listed_unlisted. Qed.
Print Assumptions C18_cmp_var_listed_below_unlisted.

Theorem C18_cmp_var_unlisted_by_id : forall o x y, plain o -> ~ In x (olist o) -> ~ In y (olist o) ->
  cmp_var o x y = Z.of_N x - Z.of_N y.
Proof. exact cmp_var_unlisted. Qed.
Print Assumptions C18_cmp_var_unlisted_by_id.

Theorem C18_cmp_var_bottom : forall o b y, obot o = Some b -> y <> b -> cmp_var o b y < 0.
Proof. exact cmp_var_bot. Qed.
Print Assumptions C18_cmp_var_bottom.

Theorem C18_cmp_var_top : forall o t y, otop o = Some t -> y <> t ->
  ~ is_var (obot o) y = true -> ~ is_var (obot o) t = true -> cmp_var o y t < 0.
Proof. exact cmp_var_top. Qed.
Print Assumptions C18_cmp_var_top.

(* reversing the order reverses the comparison of the listed variables (REFUTED for the pinned
   lp_variable_order_reverse: History_C18.C18_reverse_prefix_refuted) *)
Theorem C18_reverse_reverses : forall o x y, plain o -> NoDup (olist o) -> In x (olist o) -> In y (olist o) ->
  cmp_var o x y < 0 -> cmp_var (order_reverse o) y x < 0.
Proof. exact cmp_var_reverse. Qed.
Print Assumptions C18_reverse_reverses.

(* ------------------------------------------------------------------------------------------------ *)
(* 2. the order check reports exactly the structural invariant: along every path of the recursive
      representation the main variables strictly decrease in the current order *)
Theorem C18_in_order_iff : forall o c, in_order o c = true <-> wf_order o c.
Proof. exact in_order_iff. Qed.
Print Assumptions C18_in_order_iff.

(* ------------------------------------------------------------------------------------------------ *)
(* 3. re-ordering (coefficient_order: lp_polynomial_ensure_order and the automatic cleaning of external
      polynomials) never changes the denoted polynomial - for EVERY tree and EVERY target order - and yields an
      object that passes the order check under the target order whenever the object was in order under SOME order *)
Theorem C18_reorder_denotation : forall o' c, to_mpoly (coef_order o' c) = to_mpoly c.
Proof. exact to_mpoly_coef_order. Qed.
Print Assumptions C18_reorder_denotation.

Theorem C18_reorder_in_order : forall o o' c, in_order o c = true -> in_order o' (coef_order o' c) = true.
Proof. exact (fun o o' c H => proj2 (in_order_iff o' _) (coef_order_wf o o' c (proj1 (in_order_iff o c) H))). Qed.
Print Assumptions C18_reorder_in_order.

(* same set of monomials: the canonical monomials reported by the traversal (lp_polynomial_traverse) before and
   after have the same coefficient function *)
Theorem C18_reorder_same_monomials : forall o' c m,
  tden (traverse (coef_order o' c) []) m = tden (traverse c []) m.
Proof. exact (fun o' c m => eq_trans (eq_sym (to_mpoly_coeff _ m)) (eq_trans (f_equal (fun p => coeff p m) (to_mpoly_coef_order o' c)) (to_mpoly_coeff c m))). Qed.
Print Assumptions C18_reorder_same_monomials.

(* building an object from a term list under ANY order (lp_polynomial_add_monomial term by term) gives an object
   that is in order and denotes the canonical form of the term list *)
Theorem C18_build_denotation : forall o p, to_mpoly (of_mpoly o p) = mp_norm p.
Proof. exact to_mpoly_of_mpoly. Qed.
Print Assumptions C18_build_denotation.

Theorem C18_build_in_order : forall o p, distinct_vars p -> in_order o (of_mpoly o p) = true.
Proof. exact (fun o p H => proj2 (in_order_iff o _) (of_mpoly_wf o p H)). Qed.
Print Assumptions C18_build_in_order.

(* in-place insertion of a monomial whose powers are given in ANY order *)
Theorem C18_add_monomial_denotation : forall o c ms a,
  to_mpoly (add_monomial o c ms a) = mp_add_term (mono_canon ms, a) (to_mpoly c).
Proof. exact to_mpoly_add_monomial. Qed.
Print Assumptions C18_add_monomial_denotation.

Theorem C18_add_monomial_in_order : forall o c ms a, NoDup (map fst ms) -> in_order o c = true ->
  in_order o (add_monomial o c ms a) = true.
Proof. exact (fun o c ms a Hn H => proj2 (in_order_iff o _) (add_monomial_wf o c ms a Hn (proj1 (in_order_iff o c) H))). Qed.
Print Assumptions C18_add_monomial_in_order.

(* the denotation is a canonical list of the reference model *)
Theorem C18_denotation_canonical : forall c, canon (to_mpoly c).
Proof. exact to_mpoly_canon. Qed.
Print Assumptions C18_denotation_canonical.

(* ------------------------------------------------------------------------------------------------ *)
(* 4. histories: order changes (push, pop, reverse, clear, top / bottom) interleaved with operations on external
      and non-external objects.  For either cache discipline `wr`: after every step the denotations of all
      objects are what the ORDER-FREE step on the reference model says (operations) or unchanged (order changes,
      automatic / explicit re-ordering, hashing, comparing). *)
Theorem C18_history_step : forall hz hp wr, (forall p d, pdata (wr p d) = d) -> forall s e,
  dens (fst (step hz hp wr s e)) = if enabled s e then spec_step (sord s) (dens s) e else dens s.
Proof. exact step_den. Qed.
Print Assumptions C18_history_step.

Theorem C18_history : forall hz hp wr, (forall p d, pdata (wr p d) = d) -> forall h s d, dens s = d ->
  let (s', d') := sim_run hz hp wr (s, d) h in s' = run hz hp wr s h /\ dens s' = d'.
Proof. exact sim_run_den. Qed.
Print Assumptions C18_history.

Theorem C18_order_change_keeps_denotations : forall hz hp wr, (forall p d, pdata (wr p d) = d) -> forall s e,
  order_or_observation e = true -> dens (fst (step hz hp wr s e)) = dens s.
Proof. exact order_change_keeps_denotations. Qed.
Print Assumptions C18_order_change_keeps_denotations.

(* ------------------------------------------------------------------------------------------------ *)
(* 5. the representation is canonical: the monomials a traversal reports are pairwise different; two objects in
      order under the SAME order and in normal form that denote the same polynomial are the same tree; so the
      structural comparison coefficient_cmp == 0 decides equality of the denoted polynomials *)
Theorem C18_monomials_distinct : forall o c, in_order o c = true ->
  NoDup (map (fun t => mono_canon (fst t)) (traverse c [])).
Proof. exact (fun o c H => traverse_distinct o c (proj1 (in_order_iff o c) H)). Qed.
Print Assumptions C18_monomials_distinct.

Theorem C18_representation_unique : forall o c1 c2, good o c1 -> good o c2 -> to_mpoly c1 = to_mpoly c2 -> c1 = c2.
Proof. exact good_unique_den. Qed.
Print Assumptions C18_representation_unique.

Theorem C18_cmp_decides_equality : forall o c1 c2, good o c1 -> good o c2 ->
  (coef_cmp o c1 c2 = 0 <-> to_mpoly c1 = to_mpoly c2).
Proof. exact coef_cmp_den. Qed.
Print Assumptions C18_cmp_decides_equality.

(* the normal form and the order invariant are re-established by re-ordering *)
Theorem C18_reorder_good : forall o o' c, good o c -> good o' (coef_order o' c).
Proof. exact (fun o o' c H => laid_out_reorder o' c (ex_intro _ o H)). Qed.
Print Assumptions C18_reorder_good.

(* ------------------------------------------------------------------------------------------------ *)
(* 6. hashing.  For EVERY integer hash hz and pair hash hp: coefficient_hash is a function of the denoted
      polynomial - objects laid out under any two orders that denote the same polynomial hash equally; in
      particular re-ordering keeps the hash (commutativity / associativity of the XOR fold) *)
Theorem C18_hash_order_independent : forall hz hp o1 o2 c1 c2, good o1 c1 -> good o2 c2 ->
  to_mpoly c1 = to_mpoly c2 -> coef_hash hz hp c1 = coef_hash hz hp c2.
Proof. exact (fun hz hp o1 o2 c1 c2 H1 H2 => coef_hash_denotation hz hp o1 o2 c1 c2 (proj1 H1) (proj2 H1) (proj1 H2) (proj2 H2)). Qed.
Print Assumptions C18_hash_order_independent.

Theorem C18_hash_reorder : forall hz hp o o' c, good o c -> coef_hash hz hp (coef_order o' c) = coef_hash hz hp c.
Proof. exact (fun hz hp o o' c H => coef_hash_coef_order hz hp o o' c (proj1 H) (proj2 H)). Qed.
Print Assumptions C18_hash_reorder.

Theorem C18_hash_of_denotation : forall hz hp o c, good o c -> is_zero c = false ->
  coef_hash hz hp c = mp_hash hz hp (to_mpoly c).
Proof. exact (fun hz hp o c H => coef_hash_mp_hash hz hp o c (proj1 H) (proj2 H)). Qed.
Print Assumptions C18_hash_of_denotation.

(* ------------------------------------------------------------------------------------------------ *)
(* 7. invariants over ALL histories with the repaired cache discipline (every operation that writes an object
      resets its cached hash).  REFUTED for the pinned discipline: History_C18.C18_hash_cache_inv_prefix_refuted,
      C18_eq_prefix_refuted. *)
Theorem C18_hash_cache_inv : forall hz hp h i,
  cache_ok hz hp (get (run hz hp write_reset state0 h) i).
Proof. exact history_cache_inv. Qed.
Print Assumptions C18_hash_cache_inv.

Theorem C18_history_objects_canonical : forall hz hp h i,
  exists o0, good o0 (pdata (get (run hz hp write_reset state0 h) i)).
Proof. exact history_laid_out. Qed.
Print Assumptions C18_history_objects_canonical.

(* lp_polynomial_eq answers exactly whether the two objects denote the same polynomial - whatever orders they
   were created, hashed and mutated under *)
Theorem C18_eq_correct : forall hz hp h i j,
  let s := run hz hp write_reset state0 h in
  enabled s (PEq i j) = true ->
  (snd (step hz hp write_reset s (PEq i j)) = OBool true <-> nth i (dens s) [] = nth j (dens s) []) /\
  (snd (step hz hp write_reset s (PEq i j)) = OBool false <-> nth i (dens s) [] <> nth j (dens s) []).
Proof. exact history_eq_correct. Qed.
Print Assumptions C18_eq_correct.

Theorem C18_cmp_correct : forall hz hp h i j,
  let s := run hz hp write_reset state0 h in
  enabled s (PCmp i j) = true ->
  (snd (step hz hp write_reset s (PCmp i j)) = OBool true <-> nth i (dens s) [] = nth j (dens s) []).
Proof. exact history_cmp_correct. Qed.
Print Assumptions C18_cmp_correct.

(* the same for ANY two objects that satisfy the invariants (not only reachable ones) *)
Theorem C18_eq_iff_denotation : forall hz hp o p q, objinv hz hp p -> objinv hz hp q ->
  ready o p = true -> ready o q = true ->
  (fst (fst (poly_eq hz hp o p q)) = true <-> to_mpoly (pdata p) = to_mpoly (pdata q)).
Proof. exact poly_eq_correct. Qed.
Print Assumptions C18_eq_iff_denotation.

(* equal polynomials hash equally in every reachable state *)
Theorem C18_hash_equal : forall hz hp h i j,
  let s := run hz hp write_reset state0 h in
  nth i (dens s) [] = nth j (dens s) [] ->
  fst (poly_hash hz hp (get s i)) = fst (poly_hash hz hp (get s j)).
Proof. exact history_hash_equal. Qed.
Print Assumptions C18_hash_equal.

(* ------------------------------------------------------------------------------------------------ *)
(* non-vacuity: the hypotheses of the theorems above are satisfiable, on the corpus witness and on a history that
   changes the order between building two equal polynomials along different routes *)
Definition ex_o01 : order := order_push (order_push order_new 0%N) 1%N.
Definition ex_p : list (pmono * Z) := [([(0%N, 2%N); (1%N, 1%N)], 3); ([(1%N, 1%N)], -2); ([], 5); ([(2%N, 1%N)], 1)].
Example ex_plain_nodup : plain ex_o01 /\ NoDup (olist ex_o01).
Proof. split; [split; reflexivity|repeat constructor; cbn; intuition discriminate]. Qed.
Example ex_in_order : in_order ex_o01 (of_mpoly ex_o01 ex_p) = true /\ in_order (order_reverse ex_o01) (of_mpoly ex_o01 ex_p) = false.
Proof. vm_compute. split; reflexivity. Qed.
Example ex_reorder : in_order (order_reverse ex_o01) (coef_order (order_reverse ex_o01) (of_mpoly ex_o01 ex_p)) = true
  /\ coef_order (order_reverse ex_o01) (of_mpoly ex_o01 ex_p) <> of_mpoly ex_o01 ex_p.
Proof. split; [vm_compute; reflexivity|vm_compute; discriminate]. Qed.
Example ex_good : good ex_o01 (of_mpoly ex_o01 ex_p).
Proof. split; [apply of_mpoly_wf; repeat constructor; cbn; intuition discriminate|apply of_mpoly_norm]. Qed.
(* x0*x1 + x2 built under [x0,x1]; the order is reversed and x3 pushed; (x1*x0) + x2 built again by multiplication
   and addition into an external object; the two are compared *)
Definition ex_history : list op :=
  [OPush 0%N; OPush 1%N; PNew [([(0%N, 1%N); (1%N, 1%N)], 1); ([(2%N, 1%N)], 1)]; PSetExt 0; PHash 0;
   OReverse; OPush 3%N;
   PNew [([(1%N, 1%N)], 1)]; PNew [([(0%N, 1%N)], 1)]; PNew [([(2%N, 1%N)], 1)];
   PBin (fun _ a b => mp_mul a b) 1 1 2; PBin (fun _ a b => mp_add a b) 1 3 1; PAddMono 0 [(3%N, 2%N)] 4; PAddMono 1 [(3%N, 2%N)] 4].
Example ex_history_enabled :
  let s := run hz0 hp0 write_reset state0 ex_history in
  enabled s (PEq 0 1) = true /\ nth 0 (dens s) [] = nth 1 (dens s) [] /\ nth 0 (dens s) [] <> [] /\
  snd (step hz0 hp0 write_reset s (PEq 0 1)) = OBool true /\ sord s = mkOrder [1%N; 0%N; 3%N] None None.
Proof. vm_compute. repeat split. discriminate. Qed.
