(* C05 (d): soundness of the degree certificates for irreducibility over Z.
   If f = lc(f) * prod fs modulo a prime p not dividing lc(f), all fs irreducible over F_p, then the degree of
   every divisor of f in Z[x] is a sub-sum of the degrees of fs.  No common proper sub-sum over several
   primes => f has no factorisation into two non-constant polynomials of Z[x]. *)
From Coq Require Import ZArith List.
From LP Require Import UPoly FactorCheck.
Set Warnings "-notation-overridden,-ambiguous-paths".
From mathcomp Require Import all_ssreflect all_algebra separable.
From mathcomp Require Import ssrZ zify.
Set Warnings "notation-overridden,ambiguous-paths".
From LP Require Import UPolySpec FactorCheckProofs FactorFp.
Import GRing.Theory.
Set Implicit Arguments.
Unset Strict Implicit.
Unset Printing Implicit Defensive.
Local Open Scope ring_scope.
Delimit Scope Z_scope with ZZ.

(* ------------------------------------------------------------------ primality by trial division *)
Lemma is_prime_Z_sound (p : Z) : is_prime_Z p = true -> prime (Z.to_nat p) /\ p = Z.of_nat (Z.to_nat p).
Proof.
rewrite /is_prime_Z => /andP[/Z.ltb_lt p1 /forallb_forall H].
split; last by lia.
apply/primeP; split; first by apply/ltP; lia.
move=> d dn; apply/norP => -[d1 dp].
have n0 : (0 < Z.to_nat p)%N by apply/ltP; lia.
have dle := dvdn_leq n0 dn.
have d0 : (0 < d)%N by apply: dvdn_gt0 dn.
have /H : List.In d (List.seq 2 (Z.to_nat p - 2)).
  apply/in_seq; move/eqP: d1; move/eqP: dp; move/leP: dle; move/ltP: d0.
  rewrite /subn /subn_rec; lia.
move=> /negP; apply; apply/Z.eqb_eq.
have /dvdnP [m Em] := dn.
have -> : p = (Z.of_nat m * Z.of_nat d)%ZZ by rewrite -Nat2Z.inj_mul; rewrite /muln /muln_rec in Em; lia.
by rewrite Z_mod_mult.
Qed.

(* ------------------------------------------------------------------ sub-sums *)
Lemma In_subsums_cons e d l :
  List.In e (subsums (d :: l)) <-> List.In e (subsums l) \/ exists e', List.In e' (subsums l) /\ e = (d + e')%coq_nat.
Proof.
rewrite /= nodup_In in_app_iff in_map_iff.
by split => -[H|[e' [H1 H2]]]; [left | right; exists e' | left | right; exists e'].
Qed.

Lemma memnP e l : reflect (List.In e l) (memn e l).
Proof.
rewrite /memn; apply: (iffP idP) => [/existsb_exists [x [Hx /Nat.eqb_eq ->]] //|H].
by apply/existsb_exists; exists e; split => //; apply/Nat.eqb_eq.
Qed.

Section SubSum.
Variable F : fieldType.
Implicit Types (f g : {poly F}).

Lemma irred_dvd_or_coprime f g : irreducible_poly f -> (f %| g) || coprimep f g.
Proof.
move=> [f1 Hf]; rewrite /coprimep.
case: (boolP (size (gcdp f g) == 1%N)) => [|H]; first by rewrite orbT.
have /(Hf _ H) E := dvdp_gcdl f g.
by rewrite -(eqp_dvdl _ E) dvdp_gcdr.
Qed.

Lemma subsum_dvd (fs : seq {poly F}) (c : F) g :
  c != 0 -> (forall f, List.In f fs -> irreducible_poly f) -> g != 0 ->
  g %| c *: \prod_(f <- fs) f ->
  List.In (size g).-1 (subsums (map (fun f : {poly F} => (size f).-1) fs)).
Proof.
move=> c0; elim: fs g => [|f fs IH] g Hirr g0.
  rewrite big_nil alg_polyC => gc; left.
  have := dvdp_leq _ gc; rewrite polyC_eq0 c0 size_polyC c0 => /(_ isT).
  by move: g0; rewrite -size_poly_gt0; case: (size g) => [|[|n]].
rewrite big_cons => gd.
have irf : irreducible_poly f by apply: Hirr; left.
have f0 := irredp_neq0 irf.
have Hirr' : forall f', List.In f' fs -> irreducible_poly f' by move=> f' H; apply: Hirr; right.
rewrite map_cons; apply/In_subsums_cons.
case/orP: (irred_dvd_or_coprime g irf) => [fg|cop].
  right; exists (size (g %/ f)).-1.
  have E := divpK fg.
  have g'0 : g %/ f != 0 by apply: contraNneq g0 => H; rewrite -E H mul0r.
  split.
    apply: IH => //.
    by move: gd; rewrite -{1}E scalerAr [_ * f]mulrC dvdp_mul2l.
  rewrite -{1}E size_mul // addnC.
  by move: f0 g'0; rewrite -!size_poly_gt0; case: (size f) => [|a] //; case: (size (g %/ f)) => [|b] // _ _; rewrite addSn addnS.
left; apply: IH => //.
by move: gd; rewrite scalerAr mulrC Gauss_dvdpl // coprimep_sym.
Qed.
End SubSum.

(* ------------------------------------------------------------------ one modular certificate bounds the degrees of divisors *)
Lemma modcert_degree f (mc : modcert) (g h : {poly Z}) :
  modcert_ok f mc = true -> Poly f = g * h ->
  List.In (size g).-1 (subsums (cert_degrees (fst mc) (snd mc))).
Proof.
case: mc => pz fs /=.
move=> /andP[/andP[/andP[/is_prime_Z_sound [pr Ep] lc0] Hpe] Hirr] E.
move: Ep lc0 Hpe Hirr; set p := Z.to_nat pz => Ep; rewrite Ep => lc0 /(peqb_pP pr) Ef /forallb_forall Hirr.
move: Ef; rewrite PF_scale // PF_uprod_p // /uprodF /ones big_map /= => Ef.
have lcf : toFp p (plc f) != 0 by rewrite toFp_eq0 //; move: lc0; case: Z.eqb.
have lcg : toFp p (lead_coef g) != 0.
  by move: lcf; rewrite -lead_coef_plc E lead_coefM rmorphM; apply: contraNneq => ->; rewrite mul0r.
have Ff : PF p f = map_poly (toFp p) g * map_poly (toFp p) h by rewrite /PF E rmorphM.
have -> : size g = size (map_poly (toFp p) g) by rewrite size_map_poly_id0.
have -> : cert_degrees (Z.of_nat p) fs = map (fun q : {poly 'F_p} => (size q).-1) (map (PF p) fs).
  by rewrite /cert_degrees -map_comp; apply: eq_map => q /=; rewrite size_PF.
apply: (@subsum_dvd _ (map (PF p) fs) (toFp p (plc f))) => //.
- move=> q /in_map_iff [x [<- Hx]]; apply: irreducible_Zp_check_sound => //; exact: Hirr.
- by rewrite -size_poly_gt0 size_map_poly_id0 // size_poly_gt0; apply: contraNneq lcg => ->; rewrite lead_coef0 rmorph0.
- rewrite big_map; have -> : \big[*%R/1]_(j <- fs) PF p j = \prod_(i <- fs) PF p i ^+ 1 by apply: eq_bigr => i _; rewrite expr1.
  by rewrite Ef Ff dvdp_mulr.
Qed.

(* (d) the degree certificates: no factorisation of f into two non-constant polynomials of Z[x] *)
Theorem irred_Z_cert_sound f certs :
  irred_Z_cert f certs = true ->
  forall g h : {poly Z}, Poly f = g * h -> size g = 1%N \/ size h = 1%N.
Proof.
rewrite /irred_Z_cert => /andP[/andP[/Nat.leb_le d1 /forallb_forall Hok] /forallb_forall Hsum] g h E.
have F0 : Poly f != 0.
  by rewrite -size_poly_gt0; move/leP: d1; rewrite pdeg_size; case: (size (Poly f)).
have [g0 h0] : g != 0 /\ h != 0 by move: F0; rewrite E mulf_eq0 negb_or => /andP[].
have sz : size (Poly f) = (size g + size h).-1 by rewrite E size_mul.
case: (eqVneq (size g) 1%N) => [|g1]; first by left.
case: (eqVneq (size h) 1%N) => [|h1]; first by right.
exfalso.
have g2 : (1 < size g)%N by move: g0 g1; rewrite -size_poly_gt0; case: (size g) => [|[|n]].
have h2 : (1 < size h)%N by move: h0 h1; rewrite -size_poly_gt0; case: (size h) => [|[|n]].
have /Hsum /existsb_exists [s [/in_map_iff [mc [<- Hmc]] /negP Hs]] : List.In (size g).-1 (List.seq 1 (pdeg f - 1)).
  apply/in_seq; rewrite pdeg_size sz; move/ltP: g2; move/ltP: h2.
  by rewrite /addn /addn_rec /subn /subn_rec; lia.
by apply: Hs; apply/memnP; apply: (modcert_degree (Hok _ Hmc) E).
Qed.

(* ------------------------------------------------------------------ ... hence irreducible over Q (Gauss' lemma, mathcomp intdiv) *)
Lemma PQ_int (f : seq Z) : PQ f = map_poly (intr : int -> rat) (map_poly int_of_Z (Poly f)).
Proof. by rewrite -map_poly_comp. Qed.

Lemma map_Z_of_intK (P : {poly Z}) : map_poly Z_of_int (map_poly int_of_Z P) = P.
Proof. by rewrite -map_poly_comp map_poly_id // => x _ /=; exact: int_of_ZK. Qed.

Theorem irred_Z_cert_rat f certs : irred_Z_cert f certs = true -> irreducible_poly (PQ f).
Proof.
move=> H; have Hz := irred_Z_cert_sound H.
have d1 : (1 < size (PQ f))%N.
  move: H; rewrite /irred_Z_cert => /andP[/andP[/Nat.leb_le/leP d1 _] _].
  by rewrite size_PQ; move: d1; rewrite pdeg_size; case: (size (Poly f)) => [|[|n]].
split=> // d dn1; rewrite PQ_int => /dvdpP_rat_int [p1 [a a0 Ed] [r Er]].
rewrite -PQ_int -dvdp_size_eqp; last by rewrite PQ_int Er rmorphM /= Ed dvdpZl // dvdp_mulr.
have szd : size d = size p1.
  by rewrite Ed size_scale // size_map_inj_poly //; apply: intr_inj.
have E : Poly f = map_poly Z_of_int p1 * map_poly Z_of_int r.
  by rewrite -rmorphM /= -Er map_Z_of_intK.
have szg : size (map_poly Z_of_int p1) = size p1.
  by rewrite size_map_inj_poly //; apply: (can_inj Z_of_intK).
have F0 : Poly f != 0 by rewrite -size_poly_gt0 -size_PQ; apply: ltn_trans d1.
have [g0 h0] : map_poly Z_of_int p1 != 0 /\ map_poly Z_of_int r != 0.
  by move: F0; rewrite E mulf_eq0 negb_or => /andP[].
case: (Hz _ _ E) => [g1|h1].
  by move: dn1; rewrite szd -szg g1.
by rewrite szd size_PQ E size_mul // h1 addn1 /= szg.
Qed.
